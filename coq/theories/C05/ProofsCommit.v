(** C05 — one commit of a linear history with a fresh root keeps the invariant. *)
From Coq Require Import List ZArith NArith Bool Lia.
From C33 Require Import C01.Keys C01.KeysFacts C01.Model C01.Spec C01.Store C01.Inv C01.Proofs C01.ProofsStore
  C05.Model C05.Spec C05.Hist C05.ProofsErase C05.ProofsTree C05.ProofsHash C05.ProofsSave
  C05.ProofsPrune C05.ProofsRead C05.ProofsSetAll C05.ProofsAux C05.ProofsInv.
Import ListNotations.
Open Scope Z_scope.

Lemma del_none : forall rs d H, (forall rk u, In (rk, u) rs -> fst rk <> H) -> del_leaf_count_kv d H rs = Some d.
Proof.
  induction rs as [|[[h rh] u] rs IH]; intros d H N; cbn [del_leaf_count_kv]; [reflexivity|].
  destruct (h =? H) eqn:E.
  - apply Z.eqb_eq in E. exfalso. apply (N (h, rh) u); cbn; auto.
  - apply IH. intros rk u0 I. apply (N rk u0). cbn. auto.
Qed.

Lemma afull_sub : forall x t, asub x t -> afull t -> afull x.
Proof. intros x t H F y Hy. apply F. eapply asub_trans; eauto. Qed.

Lemma wella_sub : forall x t, asub x t -> wella t -> wella x.
Proof. intros x t H W y r Hy. apply W. eapply asub_trans; eauto. Qed.

Lemma nil_dec : forall (A : Type) (l : list A), l = [] \/ l <> [].
Proof. intros A [|x l]; [left; reflexivity|right; discriminate]. Qed.

Section Save.
  Variables (c : cfg) (acs : list acommit) (roots : list (option hash)) (L : list lcommit) (d : pdb).
  Variables (P : oatree) (kvs : list (bytes * bytes)) (H : Z) (t' : atree) (st : smap) (par : option nat).
  Hypothesis HI : HInv acs roots L.
  Hypothesis DI : DInv c acs L d.
  Hypothesis CV : 0 < prune_height c /\ prune_height c <= second_level c.
  Hypothesis HP : is_parent L P.
  Hypothesis WP : wf_tree P.
  Hypothesis PP : opresent d P.
  Hypothesis ST : o_elements (oterase P) = st.
  Hypothesis SA : at_set_all P kvs = Some (Some t').
  Hypothesis C1 : forall i, (i < length acs)%nat -> height_of acs i < H.
  Hypothesis C1' : 0 <= H.
  Hypothesis FR : kvs <> [] -> forall i, nth_error roots i <> Some (Some (thash (erase t'))).

  Let ac := mk_acommit H par (apply_writes st kvs).
  Let Sn : oatree := Some (stamp H true t').
  Let Nn := new_refs H true t'.
  Let Kn := map fst kvs.

  Lemma sv_good : ogood P.
  Proof. unfold ogood. destruct P as [t|]; cbn in *; [tauto|exact I]. Qed.

  Lemma sv_spec :
    ogood (Some t') /\
    elements (erase t') = apply_writes st kvs /\
    (forall x, asub x t' -> annot x <> None -> osub x P) /\
    (forall e, ~ In (lkey e) Kn -> (In e (aleaves t') <-> In e (oleaves P))) /\
    (forall e, In e (aleaves t') -> In (lkey e) Kn -> snd e = None).
  Proof.
    destruct (at_set_all_spec kvs P sv_good) as [o' [A [G [E [S1 [L1 W1]]]]]].
    rewrite SA in A. inversion A; subst o'. cbn in E. rewrite ST in E. auto.
  Qed.

  Lemma sv_pfull : forall x, osub x P -> afull x /\ wella x /\ apresent d x.
  Proof.
    intros x Hx. destruct P as [t|]; [|destruct Hx]. cbn in *.
    destruct WP as [F [W _]]. split; [eapply afull_sub; eauto|]. split; [eapply wella_sub; eauto|].
    eapply apresent_sub; eauto.
  Qed.

  Lemma sv_aok : aok t'.
  Proof.
    intros x Hx Ax. destruct sv_spec as [_ [_ [S1 _]]]. apply (sv_pfull x). apply S1; assumption.
  Qed.

  Lemma sv_wella : wella t'.
  Proof.
    intros x r Hx Ax. destruct sv_spec as [_ [_ [S1 _]]].
    assert (Hp : osub x P) by (apply S1; [exact Hx|congruence]).
    destruct (sv_pfull x Hp) as [_ [W _]]. apply (W x r); [apply asub_refl|exact Ax].
  Qed.

  Lemma sv_root_prefix : fst (ref_of H true t') = None.
  Proof.
    unfold ref_of. destruct (annot t') as [r|] eqn:A; [|reflexivity].
    destruct (nil_dec _ kvs) as [EK|EK].
    - pose proof SA as SA'. rewrite EK in SA'. cbn in SA'. inversion SA' as [E].
      pose proof WP as WP'. rewrite E in WP'.
      cbn in WP'. destruct WP' as [_ [_ [_ [_ F]]]]. unfold aref in F. rewrite A in F. exact F.
    - destruct (at_set_all_root _ _ _ SA EK) as [t2 [E2 A2]].
      inversion E2; subst t2. congruence.
  Qed.

  Lemma sv_wf : wf_tree Sn /\ o_elements (oterase Sn) = ac_state ac.
  Proof.
    destruct sv_spec as [G [E _]]. cbn in G. destruct G as [O SZ].
    unfold Sn. cbn [wf_tree oterase option_map o_elements]. rewrite !erase_stamp.
    split; [|exact E].
    split; [apply stamp_full; exact sv_aok|]. split; [apply stamp_wella; exact sv_wella|].
    split; [exact O|]. split; [exact SZ|]. rewrite aref_stamp. exact sv_root_prefix.
  Qed.

  Lemma sv_C3 : forall r, In r (orefs Sn) -> In r Nn \/ In r (orefs P).
  Proof.
    intros r Ir. cbn in Ir. apply arefs_in in Ir. destruct Ir as [x [Hx Ax]].
    destruct (stamp_sub t' H true x sv_aok Hx) as [[Hs An]|[r0 [A0 I0]]].
    - right. destruct sv_spec as [_ [_ [S1 _]]]. eapply osub_refs; eauto.
    - left. assert (r0 = r) by congruence. subst r0. exact I0.
  Qed.

  Lemma sv_C4 : forall r, In r Nn -> fst r = Some (ac_height ac) \/ (fst r = None /\ oroot Sn = Some (snd r)).
  Proof.
    intros r Ir. destruct (new_refs_true_shape _ _ _ Ir) as [A|[A B]]; [left; exact A|right].
    subst r. split; [reflexivity|]. cbn. rewrite aref_stamp. unfold ref_of. rewrite A. reflexivity.
  Qed.

  Lemma sv_C5 : forall r i, In r Nn -> fst r = None -> nth_error roots i <> Some (Some (snd r)).
  Proof.
    intros r i Ir F. destruct (new_refs_true_shape _ _ _ Ir) as [A|[A B]]; [congruence|].
    subst r. cbn. apply FR. intros E. pose proof SA as SA'. rewrite E in SA'. cbn in SA'. inversion SA' as [E2].
    pose proof WP as WP'. rewrite E2 in WP'.
    cbn in WP'. destruct WP' as [Fu _]. apply (Fu t'); [apply asub_refl|exact A].
  Qed.

  Lemma sv_C6 : forall x r, osub x Sn -> annot x = Some r -> In r Nn \/ osub x P.
  Proof.
    intros x r Hx Ax. cbn in Hx.
    destruct (stamp_sub t' H true x sv_aok Hx) as [[Hs An]|[r0 [A0 I0]]].
    - right. destruct sv_spec as [_ [_ [S1 _]]]. apply S1; assumption.
    - left. assert (r0 = r) by congruence. subst r0. exact I0.
  Qed.

  Lemma sv_new_leaf_key : forall k v, In (k, v, None) (aleaves t') -> In k Kn.
  Proof.
    intros k v I. destruct sv_spec as [_ [_ [_ [L1 _]]]].
    destruct (in_dec bytes_eq_dec k Kn) as [Y|N]; [exact Y|exfalso].
    apply (L1 (k, v, None)) in I; [|exact N].
    destruct P as [t|]; [|destruct I]. cbn in I, WP. destruct WP as [F _].
    destruct (afull_leaf_some _ _ _ _ F I) as [r E]. discriminate.
  Qed.

  Lemma sv_C7 : forall k v r, In (k, v, Some r) (oleaves Sn) ->
    (In r Nn /\ In k Kn) \/ (In (k, v, Some r) (oleaves P) /\ ~ In k Kn).
  Proof.
    intros k v r I. cbn in I. apply aleaves_stamp in I. destruct I as [I|[I N]].
    - right. destruct sv_spec as [_ [_ [_ [L1 W1]]]].
      assert (NK : ~ In k Kn). { intros Y. specialize (W1 _ I Y). discriminate. }
      split; [apply (L1 (k, v, Some r)); assumption|exact NK].
    - left. split; [exact N|]. eapply sv_new_leaf_key; eauto.
  Qed.

  Lemma sv_hinv : HInv (acs ++ [ac]) (roots ++ [oroot Sn]) (L ++ [mk_lc Sn Nn Kn]).
  Proof.
    apply (hinv_extend acs roots L ac P Sn Nn Kn HI HP); auto.
    - exact sv_wf. - exact sv_C3. - exact sv_C4. - exact sv_C5. - exact sv_C6. - exact sv_C7.
  Qed.

  (** the database after step 1 (maxBlockHeight / re-commit detection: nothing to remove) and the save *)
  Variable d1 : pdb.
  Hypothesis D1 : nodes d1 = nodes d /\ idx1 d1 = idx1 d /\ idx2 d1 = idx2 d /\ rootrec d1 = rootrec d.

  Let d2 := asave H true [] t' d1.
  Let rh := snd (ref_of H true t').
  Let d3 := set_rootrec d2 (aput rkey_eqb (rootrec d2) (H, rh) tt).

  Lemma sv_dinv : DInv c (acs ++ [ac]) (L ++ [mk_lc Sn Nn Kn]) d3.
  Proof.
    destruct D1 as [Dn [Di1 [Di2 Dr]]].
    apply (dinv_extend c acs roots L ac Sn Nn Kn d d3 HI DI sv_hinv).
    - intros e Ie. unfold all_entries, d3 in Ie. cbn [idx1 idx2 set_rootrec] in Ie.
      apply in_app_or in Ie. destruct Ie as [Ie|Ie].
      + apply asave_idx1 in Ie. destruct Ie as [Ie|Ie].
        * left. unfold all_entries. apply in_or_app. left. rewrite <- Di1. exact Ie.
        * right. destruct (new_entries_spec _ _ _ _ _ Ie) as [Hh [[v Hv] [path [Hp Hr]]]].
          split; [rewrite Hh; exact C1'|]. split; [exact Hh|]. split; [eapply sv_new_leaf_key; eauto|].
          intros r Ir. unfold version_refs in Ir. rewrite Hp, app_nil_r in Ir.
          destruct (Hr r Ir) as [N [x [Sx [Ax Kx]]]]. split; [exact N|]. exists x. auto.
      + left. unfold all_entries. apply in_or_app. right.
        destruct (asave_fields t' H true [] d1) as [E _]. unfold d2 in Ie. rewrite E, Di2 in Ie. exact Ie.
    - unfold d3. cbn [idx2 set_rootrec]. destruct (asave_fields t' H true [] d1) as [E _]. unfold d2. rewrite E. exact Di2.
    - cbn [opresent Sn]. apply (apresent_keep _ d2 d3); [|intros r _; reflexivity].
      + unfold d2. apply asave_present.
        * destruct sv_wf as [[F [W [O _]]] _]. apply arefs_nodup; assumption.
        * exact sv_aok.
        * intros x Hx Ax. destruct sv_spec as [_ [_ [S1 _]]].
          destruct (sv_pfull x (S1 x Hx Ax)) as [_ [_ Pr]].
          eapply apresent_keep; [exact Pr|]. intros r _. unfold node_get. rewrite Dn. reflexivity.
    - intros r Nr. change (node_get d3 r) with (node_get d2 r). unfold d2. rewrite asave_keep by exact Nr.
      unfold node_get. rewrite Dn. reflexivity.
    - intros rk u Ir. unfold d3 in Ir. cbn [rootrec set_rootrec] in Ir. apply in_aput in Ir.
      destruct Ir as [Ir|Ir]; [right; inversion Ir; reflexivity|left].
      destruct (asave_fields t' H true [] d1) as [_ [E _]]. unfold d2 in Ir. rewrite E, Dr in Ir. exact Ir.
  Qed.
End Save.
