(** C05 — property theorems only. *)
From Coq Require Import List ZArith NArith Bool.
From C33 Require Import C01.Keys C01.Model C01.Store C05.Model C05.Spec C05.Hist C05.ProofsErase C05.ProofsRefuted.
Open Scope Z_scope.

Theorem C05_refuted : ~ C05_prune_keeps_live_full.
Proof. exact prune_keeps_live_refuted. Qed.
Print Assumptions C05_refuted.

Theorem C05_refuted_fork : ~ C05_prune_keeps_live_full.
Proof. exact prune_keeps_live_refuted_fork. Qed.
Print Assumptions C05_refuted_fork.

Theorem C05_commit_tree_is_C01_set : forall t k v, erase_res (aset t k v) = set (erase t) k v.
Proof. exact erase_set. Qed.
Print Assumptions C05_commit_tree_is_C01_set.
