(** C05 — property theorems only. *)
From Coq Require Import List ZArith NArith Bool.
From C33 Require Import C01.Keys C01.Model C01.Store C05.Model C05.Spec C05.Hist
  C05.ProofsErase C05.ProofsRefuted C05.ProofsPrune C05.ProofsMain C05.ProofsExamples.
Import ListNotations.
Open Scope Z_scope.

(** the property at full strength fails on the faithful model (both witnesses
    are reproduced on the Go code by the harness: known findings 1 and 2) *)
Theorem C05_refuted : ~ C05_prune_keeps_live_full.
Proof. exact prune_keeps_live_refuted. Qed.
Print Assumptions C05_refuted.

Theorem C05_refuted_fork : ~ C05_prune_keeps_live_full.
Proof. exact prune_keeps_live_refuted_fork. Qed.
Print Assumptions C05_refuted_fork.

(** under the boolean guard "linear history, every writing commit produces a
    state root not seen before": for ALL configurations, histories and
    interleaved pruning runs, no commit fails and every key of every commit
    within PruneHeight of the top reads its abstract value *)
Theorem C05_prune_keeps_live_partial :
  forall c ops, cfg_valid c = true -> ops_valid c init_mstate ops = true ->
    linear_fresh c init_mstate ops = true ->
    live_readable c (mrun c ops).
Proof. exact prune_keeps_live_guarded. Qed.
Print Assumptions C05_prune_keeps_live_partial.

(** the same with the guard on the INPUTS only: every writing commit's abstract
    state (C01's finite map) differs from the state of every earlier commit *)
Theorem C05_prune_keeps_live_partial_inputs :
  forall c ops, cfg_valid c = true -> ops_valid c init_mstate ops = true ->
    linear_changing c init_mstate ops = true ->
    live_readable c (mrun c ops).
Proof. exact prune_keeps_live_changing. Qed.
Print Assumptions C05_prune_keeps_live_partial_inputs.

(** the guard is satisfiable by a history on which pruning deletes old versions *)
Theorem C05_guard_nonvacuous :
  cfg_valid cfg2 = true /\ ops_valid cfg2 init_mstate ex_ops = true /\
  linear_fresh cfg2 init_mstate ex_ops = true /\ linear_changing cfg2 init_mstate ex_ops = true /\
  map (fun i => read_at (mrun cfg2 ex_ops) i ka) [0; 1; 2]%nat = [None; None; None] /\
  live (prune_height cfg2) (ms_ac (mrun cfg2 ex_ops)) = [6; 5; 4]%nat.
Proof.
  destruct ex_valid as [A [B C]]. destruct ex_pruned as [D [E _]]. pose proof ex_changing. auto 10.
Qed.
Print Assumptions C05_guard_nonvacuous.

(** a pruning run only deletes node records listed (as leaf or ancestor) by an
    index entry that has a newer, old enough entry of the same key *)
Theorem C05_prune_deletes_only_superseded : forall c cur d r,
  (forall e, In e (all_entries d) -> 0 <= ik_height e) ->
  safe_ref c cur d r -> node_get (pruning_tree c cur d) r = node_get d r.
Proof. exact pruning_keep. Qed.
Print Assumptions C05_prune_deletes_only_superseded.

(** the tree a commit builds is C01's [set] (so C01's theorems apply to it) *)
Theorem C05_commit_tree_is_C01_set : forall t k v, erase_res (aset t k v) = set (erase t) k v.
Proof. exact erase_set. Qed.
Print Assumptions C05_commit_tree_is_C01_set.

(** the store's configuration resolution (mavl.New): a store that prunes builds
    its trees with height-prefixed node keys, whatever the prefix switch says
    (the configuration every theorem above and the model are about); example:
    [shipped_cfg_resolves] (enableMavlPrune alone gives prefix + prune) *)
Theorem C05_prune_implies_prefix : forall s,
  tc_prune (effective_cfg s) = sc_prune s /\
  tc_prune_height (effective_cfg s) = sc_prune_height s /\
  (sc_prune s = true -> tc_prefix (effective_cfg s) = true) /\
  (sc_prune s = false -> tc_prefix (effective_cfg s) = sc_prefix s).
Proof. exact prune_implies_prefix. Qed.
Print Assumptions C05_prune_implies_prefix.
