(** C05 — the annotated tree operations are C01's operations with annotations
    erased (so every C01 theorem about [set] applies to a commit's tree). *)
From Coq Require Import List ZArith NArith Bool Lia.
From C33 Require Import C01.Keys C01.Model C01.Store C05.Model.
Import ListNotations.
Open Scope Z_scope.

Lemma erase_height : forall t, height (erase t) = aheight t.
Proof. destruct t; reflexivity. Qed.

Lemma erase_size : forall t, size (erase t) = asize t.
Proof. destruct t; reflexivity. Qed.

Lemma erase_calc_hs : forall t, erase (acalc_hs t) = calc_hs (erase t).
Proof. destruct t; cbn; rewrite ?erase_height, ?erase_size; reflexivity. Qed.

Definition oerase (o : option atree) : option tree := option_map erase o.

Lemma erase_rotate_right : forall t, oerase (arotate_right t) = rotate_right (erase t).
Proof.
  destruct t as [|p k h s l r]; [reflexivity|].
  destruct l as [|lp lk lh ls ll lr]; [reflexivity|].
  cbn. rewrite ?erase_height, ?erase_size. reflexivity.
Qed.

Lemma erase_rotate_left : forall t, oerase (arotate_left t) = rotate_left (erase t).
Proof.
  destruct t as [|p k h s l r]; [reflexivity|].
  destruct r as [|rp rk rh rs rl rr]; [reflexivity|].
  cbn. rewrite ?erase_height, ?erase_size. reflexivity.
Qed.

Lemma erase_calc_balance : forall t, acalc_balance t = calc_balance (erase t).
Proof. destruct t; cbn; rewrite ?erase_height; reflexivity. Qed.

Lemma erase_balance : forall t, oerase (abalance t) = balance (erase t).
Proof.
  destruct t as [|p k h s l r]; [reflexivity|].
  cbn [abalance balance erase]. rewrite !erase_height.
  destruct (aheight l - aheight r >? 1).
  - rewrite erase_calc_balance. destruct (calc_balance (erase l)) as [bl|]; [|reflexivity].
    destruct (bl >=? 0).
    + exact (erase_rotate_right (ANode p k h s l r)).
    + pose proof (erase_rotate_left l) as E. destruct (arotate_left l) as [l'|]; cbn in E; rewrite <- E.
      * exact (erase_rotate_right (ANode p k h s l' r)).
      * reflexivity.
  - destruct (aheight l - aheight r <? -1); [|reflexivity].
    rewrite erase_calc_balance. destruct (calc_balance (erase r)) as [br|]; [|reflexivity].
    destruct (br <=? 0).
    + exact (erase_rotate_left (ANode p k h s l r)).
    + pose proof (erase_rotate_right r) as E. destruct (arotate_right r) as [r'|]; cbn in E; rewrite <- E.
      * exact (erase_rotate_left (ANode p k h s l r')).
      * reflexivity.
Qed.

Definition erase_res (x : option (atree * bool)) : option (tree * bool) :=
  match x with Some (t, u) => Some (erase t, u) | None => None end.

Lemma erase_set : forall t k v, erase_res (aset t k v) = set (erase t) k v.
Proof.
  induction t as [p lk lv|p nk h s l IHl r IHr]; intros k v.
  - cbn. destruct (bcmp k lk); reflexivity.
  - cbn [aset set erase]. destruct (blt k nk).
    + specialize (IHl k v). destruct (aset l k v) as [[l' u]|]; cbn in IHl; rewrite <- IHl; [|reflexivity].
      destruct u; [reflexivity|].
      pose proof (erase_balance (acalc_hs (ANode None nk h s l' r))) as E.
      rewrite erase_calc_hs in E. cbn [erase] in E. rewrite <- E.
      destruct (abalance _); reflexivity.
    + specialize (IHr k v). destruct (aset r k v) as [[r' u]|]; cbn in IHr; rewrite <- IHr; [|reflexivity].
      destruct u; [reflexivity|].
      pose proof (erase_balance (acalc_hs (ANode None nk h s l r'))) as E.
      rewrite erase_calc_hs in E. cbn [erase] in E. rewrite <- E.
      destruct (abalance _); reflexivity.
Qed.

Definition oterase (o : oatree) : otree := option_map erase o.

Lemma erase_t_set : forall o k v,
  option_map oterase (at_set o k v) = option_map fst (t_set (oterase o) k v).
Proof.
  destruct o as [t|]; intros; [|reflexivity].
  cbn. pose proof (erase_set t k v) as E. destruct (aset t k v) as [[t' u]|]; cbn in E; rewrite <- E; reflexivity.
Qed.

Lemma erase_t_set_all : forall kvs o,
  option_map oterase (at_set_all o kvs) = t_set_all (oterase o) kvs.
Proof.
  induction kvs as [|[k v] tl IH]; intros o; [reflexivity|].
  cbn [at_set_all t_set_all]. pose proof (erase_t_set o k v) as E.
  destruct (at_set o k v) as [o'|]; cbn in E.
  - destruct (t_set (oterase o) k v) as [[o'' u]|]; [|discriminate]. cbn in E. inversion E. apply IH.
  - destruct (t_set (oterase o) k v) as [[o'' u]|]; [discriminate|]. reflexivity.
Qed.
