(** C05 — non-vacuity: a concrete history that satisfies every hypothesis of
    the partial theorem, on which pruning really deletes node records; and the
    refutation witnesses violate the guard. *)
From Coq Require Import List ZArith NArith Bool String.
From C33 Require Import Lib.Harness C01.Keys C01.Spec C01.Store C05.Model C05.Spec C05.Hist C05.ProofsRefuted.
Import ListNotations.
Open Scope string_scope.
Open Scope Z_scope.

(** PruneHeight 2, heights 1..7, every height changes a value; the commits at
    heights 4 and 6 start pruning runs, one more run is called at height 7 *)
Definition ex_ops : list mop :=
  [ MCommit 1 None false [(ka, bs "1"); (kb, bs "1"); (kc, bs "1")];
    MCommit 2 (Some 0%nat) false [(ka, bs "2")];
    MCommit 3 (Some 1%nat) true [(kb, bs "3")];
    MCommit 4 (Some 2%nat) false [(ka, bs "4"); (kc, bs "4")];
    MCommit 5 (Some 3%nat) true [];
    MCommit 6 (Some 4%nat) false [(kb, bs "6")];
    MCommit 7 (Some 5%nat) false [(ka, bs "7")];
    MPrune 7 ].

Lemma ex_valid : cfg_valid cfg2 = true /\ ops_valid cfg2 init_mstate ex_ops = true /\
                 linear_fresh cfg2 init_mstate ex_ops = true.
Proof. vm_compute. auto. Qed.

Lemma ex_changing : linear_changing cfg2 init_mstate ex_ops = true.
Proof. vm_compute. reflexivity. Qed.

(** pruning really deletes: the versions of heights 1..3 are gone, the three
    live versions (heights 5..7, commits 4..6) read their values *)
Lemma ex_pruned :
  map (fun i => read_at (mrun cfg2 ex_ops) i ka) [0; 1; 2]%nat = [None; None; None] /\
  live (prune_height cfg2) (ms_ac (mrun cfg2 ex_ops)) = [6; 5; 4]%nat /\
  map (fun i => read_at (mrun cfg2 ex_ops) i ka) [4; 5; 6]%nat =
    [Some (Some (bs "4")); Some (Some (bs "4")); Some (Some (bs "7"))].
Proof. vm_compute. auto. Qed.

(** the refutation witnesses are outside the guard *)
Lemma w1_not_fresh : linear_fresh cfg2 init_mstate w1 = false.
Proof. vm_compute. reflexivity. Qed.

Lemma w2_not_linear : linear_fresh cfg2 init_mstate w2 = false.
Proof. vm_compute. reflexivity. Qed.

(** ---- the store's configuration resolution (mavl.go New) ---- *)

(** whatever the operator wrote for the prefix switch, a store that prunes
    builds prefixed trees; nothing else is changed by the resolution *)
Lemma prune_implies_prefix : forall s,
  tc_prune (effective_cfg s) = sc_prune s /\
  tc_prune_height (effective_cfg s) = sc_prune_height s /\
  (sc_prune s = true -> tc_prefix (effective_cfg s) = true) /\
  (sc_prune s = false -> tc_prefix (effective_cfg s) = sc_prefix s).
Proof.
  intros [pf pr ph]. unfold effective_cfg. cbn. destruct pr; repeat split; intro Hp; try reflexivity; discriminate Hp.
Qed.

(** the shipped-style configuration (prune switched on, prefix left off) *)
Example shipped_cfg_resolves : effective_cfg (mk_sub_cfg false true 10) = mk_tree_cfg true true 10.
Proof. reflexivity. Qed.
