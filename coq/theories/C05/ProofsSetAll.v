(** C05 — the tree a commit builds (the parent version with the write set
    applied): which nodes are old, which leaves are new. *)
From Coq Require Import List ZArith NArith Bool Lia.
From C33 Require Import C01.Keys C01.KeysFacts C01.Model C01.Spec C01.Store C01.Inv C01.Proofs C01.ProofsStore
  C05.Model C05.ProofsErase C05.ProofsTree C05.ProofsHash C05.ProofsSave.
Import ListNotations.
Open Scope Z_scope.

Lemma ordered_keys_nodup : forall t, ordered t -> NoDup (keys t).
Proof.
  induction t as [k v|nk h s l IHl r IHr]; intros O.
  - cbn. constructor; [intros []|constructor].
  - destruct O as [Ol [Or [Hlt [Hge _]]]]. rewrite keys_node. apply nodup_app; auto.
    intros x Hl Hr. apply Hlt in Hl. apply Hge in Hr. congruence.
Qed.

Lemma nodup_map_inj : forall (A B : Type) (f : A -> B) (l : list A) a b,
  NoDup (map f l) -> In a l -> In b l -> f a = f b -> a = b.
Proof.
  induction l as [|x l IH]; intros a b ND Ia Ib E; [destruct Ia|].
  cbn in ND. inversion ND as [|y ys N1 N2]; subst.
  destruct Ia as [Ia|Ia], Ib as [Ib|Ib]; subst.
  - reflexivity.
  - exfalso. apply N1. rewrite E. apply in_map. exact Ib.
  - exfalso. apply N1. rewrite <- E. apply in_map. exact Ia.
  - eapply IH; eauto.
Qed.

Lemma akeys_erase : forall t, akeys t = keys (erase t).
Proof.
  intros t. unfold akeys, keys. rewrite <- aleaves_elements, map_map. apply map_ext. intros [[k v] p]. reflexivity.
Qed.

Lemma leaf_unique : forall t a b, ordered (erase t) -> In a (aleaves t) -> In b (aleaves t) -> lkey a = lkey b -> a = b.
Proof.
  intros t a b O Ia Ib E. apply (nodup_map_inj _ _ lkey (aleaves t)); auto.
  change (map lkey (aleaves t)) with (akeys t). rewrite akeys_erase. apply ordered_keys_nodup. exact O.
Qed.

Definition oleaves (o : oatree) : list (bytes * bytes * option nref) :=
  match o with None => [] | Some t => aleaves t end.

Definition osub (x : atree) (o : oatree) : Prop := match o with None => False | Some t => asub x t end.

Definition ogood (o : oatree) : Prop := o_good (oterase o).

(** one write *)
Lemma at_set_step : forall o k v, ogood o ->
  exists o', at_set o k v = Some o' /\ ogood o' /\
    o_elements (oterase o') = ins k v (o_elements (oterase o)) /\
    (forall x, osub x o' -> annot x <> None -> osub x o) /\
    (forall e, lkey e <> k -> (In e (oleaves o') <-> In e (oleaves o))) /\
    (forall e, In e (oleaves o') -> lkey e = k -> e = (k, v, None)).
Proof.
  intros o k v G. pose proof (erase_t_set o k v) as E.
  destruct (t_set_inv (oterase o) k v G) as [o1 [u [E1 [G1 HE1]]]]. rewrite E1 in E. cbn in E.
  destruct (at_set o k v) as [o'|] eqn:A; [|discriminate]. cbn in E. inversion E as [E2].
  exists o'. split; [reflexivity|]. unfold ogood. rewrite E2. split; [exact G1|]. split; [exact HE1|].
  destruct o as [t|]; cbn in A.
  - destruct (aset t k v) as [[t' u']|] eqn:S; [|discriminate]. inversion A; subst o'. cbn [osub oleaves].
    split; [|split].
    + intros x Hx Ax. eapply from_old_set; eauto.
    + intros e Ne. pose proof (aleaves_set_other _ _ _ _ _ S) as F.
      assert (Oe : other k e = true).
      { unfold other. apply negb_true_iff. destruct (beq (lkey e) k) eqn:B; [|reflexivity].
        apply beq_iff in B. contradiction. }
      split; intros I.
      * assert (I' : In e (filter (other k) (aleaves t'))) by (apply filter_In; auto).
        rewrite F in I'. apply filter_In in I'. tauto.
      * assert (I' : In e (filter (other k) (aleaves t))) by (apply filter_In; auto).
        rewrite <- F in I'. apply filter_In in I'. tauto.
    + intros e Ie Ke. pose proof (aleaves_set_new _ _ _ _ _ S) as N.
      apply (leaf_unique t'); auto.
      cbn in G1. rewrite <- E2 in G1. cbn in G1. tauto.
  - inversion A; subst o'. cbn [osub oleaves aleaves].
    split; [|split].
    + intros x Hx Ax. apply asub_leaf_inv in Hx. subst x. cbn in Ax. congruence.
    + intros e Ne. split; intros I; [|destruct I]. destruct I as [I|[]]. subst e. cbn in Ne. congruence.
    + intros e [I|[]] _. auto.
Qed.

Lemma osub_trans : forall x y o, asub x y -> osub y o -> osub x o.
Proof. intros x y [t|] H1 H2; cbn in *; [eapply asub_trans; eauto|exact H2]. Qed.

(** the whole write set *)
Theorem at_set_all_spec : forall kvs o, ogood o ->
  exists o', at_set_all o kvs = Some o' /\ ogood o' /\
    o_elements (oterase o') = apply_writes (o_elements (oterase o)) kvs /\
    (forall x, osub x o' -> annot x <> None -> osub x o) /\
    (forall e, ~ In (lkey e) (map fst kvs) -> (In e (oleaves o') <-> In e (oleaves o))) /\
    (forall e, In e (oleaves o') -> In (lkey e) (map fst kvs) -> snd e = None).
Proof.
  induction kvs as [|[k v] kvs IH]; intros o G.
  - exists o. cbn. repeat split; auto; try tauto.
  - destruct (at_set_step o k v G) as [o1 [A1 [G1 [E1 [S1 [L1 W1]]]]]].
    destruct (IH o1 G1) as [o2 [A2 [G2 [E2 [S2 [L2 W2]]]]]].
    exists o2. cbn [at_set_all]. rewrite A1. split; [exact A2|]. split; [exact G2|].
    split; [rewrite E2, E1; reflexivity|].
    split; [|split].
    + intros x Hx Ax. apply S1; [apply S2; assumption|exact Ax].
    + intros e Ne. cbn [map fst In] in Ne.
      rewrite L2 by tauto. apply L1. intros E. apply Ne. left. auto.
    + intros e Ie Ke. cbn [map fst In] in Ke.
      destruct (in_dec bytes_eq_dec (lkey e) (map fst kvs)) as [I|NI].
      * apply W2; assumption.
      * destruct Ke as [Ke|Ke]; [|contradiction].
        apply L2 in Ie; [|exact NI]. rewrite (W1 e Ie (eq_sym Ke)). reflexivity.
Qed.

(** a write always returns a new root object *)
Lemma abalance_root_none : forall k h s l r t', abalance (ANode None k h s l r) = Some t' -> annot t' = None.
Proof.
  intros k h s l r t' H. cbn [abalance] in H.
  assert (RR : forall t t2, arotate_right t = Some t2 -> annot t2 = None).
  { intros [|p0 k0 h0 s0 [|lp lk lh ls ll lr] r0] t2 E; try discriminate. cbn in E. inversion E. reflexivity. }
  assert (RL : forall t t2, arotate_left t = Some t2 -> annot t2 = None).
  { intros [|p0 k0 h0 s0 l0 [|rp rk rh rs rl rr]] t2 E; try discriminate. cbn in E. inversion E. reflexivity. }
  destruct (aheight l - aheight r >? 1).
  - destruct (acalc_balance l); [|discriminate]. destruct (z >=? 0); [eapply RR; eauto|].
    destruct (arotate_left l); [|discriminate]. eapply RR; eauto.
  - destruct (aheight l - aheight r <? -1).
    + destruct (acalc_balance r); [|discriminate]. destruct (z <=? 0); [eapply RL; eauto|].
      destruct (arotate_right r); [|discriminate]. eapply RL; eauto.
    + inversion H. reflexivity.
Qed.

Lemma aset_root_none : forall t k v t' u, aset t k v = Some (t', u) -> annot t' = None.
Proof.
  intros [p lk lv|p nk h s l r] k v t' u H.
  - cbn in H. destruct (bcmp k lk); inversion H; reflexivity.
  - cbn [aset] in H. destruct (blt k nk).
    + destruct (aset l k v) as [[l' ul]|]; [|discriminate]. destruct ul; [inversion H; reflexivity|].
      destruct (abalance _) eqn:B; [|discriminate]. inversion H; subst. cbn [acalc_hs] in B.
      eapply abalance_root_none; eauto.
    + destruct (aset r k v) as [[r' ur]|]; [|discriminate]. destruct ur; [inversion H; reflexivity|].
      destruct (abalance _) eqn:B; [|discriminate]. inversion H; subst. cbn [acalc_hs] in B.
      eapply abalance_root_none; eauto.
Qed.

Lemma at_set_some : forall o k v o', at_set o k v = Some o' -> exists t', o' = Some t' /\ annot t' = None.
Proof.
  intros [t|] k v o' H; cbn in H.
  - destruct (aset t k v) as [[t' u]|] eqn:E; [|discriminate]. inversion H. exists t'. split; [reflexivity|].
    eapply aset_root_none; eauto.
  - inversion H. eexists. split; reflexivity.
Qed.

Lemma at_set_all_root : forall kvs o o', at_set_all o kvs = Some o' -> kvs <> [] ->
  exists t', o' = Some t' /\ annot t' = None.
Proof.
  induction kvs as [|[k v] kvs IH]; intros o o' H N; [congruence|].
  cbn [at_set_all] in H. destruct (at_set o k v) as [o1|] eqn:E; [|discriminate].
  destruct kvs as [|kv2 kvs'].
  - cbn in H. inversion H; subst. eapply at_set_some; eauto.
  - eapply IH; eauto. discriminate.
Qed.
