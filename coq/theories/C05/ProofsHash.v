(** C05 — facts about symbolic hashes and database keys: decidable equality,
    distinct nodes of an ordered tree have distinct hashes. *)
From Coq Require Import List ZArith NArith Bool Lia.
From C33 Require Import C01.Keys C01.KeysFacts C01.Model C01.Store C01.Inv C01.Proofs C01.ProofsStore C05.Model.
Import ListNotations.
Open Scope Z_scope.

Lemma heqb_hash_eqb : forall a b, heqb a b = hash_eqb a b.
Proof.
  induction a as [k v|h s l IHl r IHr]; destruct b as [k' v'|h' s' l' r']; cbn; try reflexivity.
  rewrite IHl, IHr. destruct (h =? h'), (s =? s'), (hash_eqb l l'); reflexivity.
Qed.

Lemma heqb_refl : forall a, heqb a a = true.
Proof. intros. rewrite heqb_hash_eqb. apply hash_eqb_refl. Qed.

Lemma heqb_eq : forall a b, heqb a b = true -> a = b.
Proof. intros a b H. rewrite heqb_hash_eqb in H. apply hash_eqb_eq. exact H. Qed.

Lemma heqb_neq : forall a b, heqb a b = false -> a <> b.
Proof. intros a b H E. subst b. rewrite heqb_refl in H. discriminate. Qed.

Lemma oz_eqb_eq : forall a b, oz_eqb a b = true <-> a = b.
Proof.
  intros [x|] [y|]; cbn; split; intros H; try discriminate; try reflexivity.
  - apply Z.eqb_eq in H. congruence.
  - inversion H. apply Z.eqb_refl.
Qed.

Lemma nref_eqb_eq : forall a b, nref_eqb a b = true <-> a = b.
Proof.
  intros [pa ha] [pb hb]. unfold nref_eqb. cbn. split.
  - intros H. destruct (oz_eqb pa pb) eqn:E; [|discriminate].
    apply oz_eqb_eq in E. apply heqb_eq in H. congruence.
  - intros H. inversion H. subst. rewrite (proj2 (oz_eqb_eq pb pb) eq_refl). apply heqb_refl.
Qed.

Lemma nref_eqb_refl : forall a, nref_eqb a a = true.
Proof. intros. apply nref_eqb_eq. reflexivity. Qed.

Lemma nref_eqb_neq : forall a b, nref_eqb a b = false <-> a <> b.
Proof.
  intros a b. split.
  - intros H E. apply nref_eqb_eq in E. congruence.
  - intros H. destruct (nref_eqb a b) eqn:E; [|reflexivity]. apply nref_eqb_eq in E. contradiction.
Qed.

Lemma nref_eq_dec : forall a b : nref, {a = b} + {a <> b}.
Proof.
  intros a b. destruct (nref_eqb a b) eqn:E.
  - left. apply nref_eqb_eq. exact E.
  - right. apply nref_eqb_neq. exact E.
Qed.

(** size of a hash term; elements covered by a hash *)
Fixpoint hsize (h : hash) : nat :=
  match h with
  | HLeaf _ _ => 1%nat
  | HInner _ _ l r => S (hsize l + hsize r)
  end.

Fixpoint helems (h : hash) : list (bytes * bytes) :=
  match h with
  | HLeaf k v => [(k, v)]
  | HInner _ _ l r => helems l ++ helems r
  end.

Lemma helems_thash : forall t, helems (thash t) = elements t.
Proof. induction t; cbn; congruence. Qed.

(** all nodes of a tree *)
Fixpoint subtrees (t : tree) : list tree :=
  match t with
  | Leaf _ _ => [t]
  | Node _ _ _ l r => t :: subtrees l ++ subtrees r
  end.

Lemma subtrees_hsize : forall t x, In x (subtrees t) -> (hsize (thash x) <= hsize (thash t))%nat.
Proof.
  induction t as [k v|k h s l IHl r IHr]; intros x H; cbn in H.
  - destruct H as [H|[]]. subst. lia.
  - destruct H as [H|H]; [subst; lia|]. apply in_app_or in H. cbn.
    destruct H as [H|H]; [apply IHl in H|apply IHr in H]; lia.
Qed.

Lemma subtrees_keys : forall t x, In x (subtrees t) -> forall k, In k (keys x) -> In k (keys t).
Proof.
  induction t as [k v|nk h s l IHl r IHr]; intros x H k0 Hk; cbn in H.
  - destruct H as [H|[]]. subst. exact Hk.
  - destruct H as [H|H]; [subst; exact Hk|]. apply in_app_or in H. rewrite keys_node. apply in_or_app.
    destruct H as [H|H]; [left; eapply IHl|right; eapply IHr]; eauto.
Qed.

Lemma keys_thash : forall x y, thash x = thash y -> keys x = keys y.
Proof. intros x y H. unfold keys. rewrite <- !helems_thash, H. reflexivity. Qed.

Lemma subtrees_ordered : forall t x, ordered t -> In x (subtrees t) -> ordered x.
Proof.
  induction t as [k v|nk h s l IHl r IHr]; intros x HO H; cbn in H.
  - destruct H as [H|[]]. subst. exact HO.
  - destruct H as [H|H]; [subst; exact HO|]. destruct HO as [Hl [Hr _]].
    apply in_app_or in H. destruct H; auto.
Qed.

Lemma nodup_app : forall (A : Type) (a b : list A),
  NoDup a -> NoDup b -> (forall x, In x a -> In x b -> False) -> NoDup (a ++ b).
Proof.
  induction a as [|x a IH]; intros b Ha Hb D; cbn; [exact Hb|].
  inversion Ha; subst. constructor.
  - intros H. apply in_app_or in H. destruct H as [H|H]; [contradiction|]. apply (D x); cbn; auto.
  - apply IH; auto. intros y Hy1 Hy2. apply (D y); cbn; auto.
Qed.

Theorem subtree_hashes_nodup : forall t, ordered t -> NoDup (map thash (subtrees t)).
Proof.
  induction t as [k v|nk h s l IHl r IHr]; intros HO; cbn.
  - constructor; [intros []|constructor].
  - destruct HO as [Hl [Hr [Hlt [Hge _]]]].
    constructor.
    + intros H. apply in_map_iff in H. destruct H as [x [E Hx]].
      apply in_app_or in Hx.
      assert (S : (hsize (thash x) <= hsize (thash l) \/ hsize (thash x) <= hsize (thash r))%nat).
      { destruct Hx as [Hx|Hx]; [left|right]; apply subtrees_hsize; exact Hx. }
      rewrite E in S. cbn in S. lia.
    + rewrite map_app. apply nodup_app; auto.
      intros hx H1 H2. apply in_map_iff in H1. apply in_map_iff in H2.
      destruct H1 as [x [Ex Hx]]. destruct H2 as [y [Ey Hy]].
      assert (K : keys x = keys y) by (apply keys_thash; congruence).
      pose proof (leftmost_in x) as Lx. 
      pose proof (subtrees_keys _ _ Hx _ Lx) as Kl.
      rewrite K in Lx. pose proof (subtrees_keys _ _ Hy _ Lx) as Kr.
      apply Hlt in Kl. apply Hge in Kr. congruence.
Qed.
