(** C05 — the abstract specification.  A history is a list of commits; commit
    [i] has a height, a parent (an earlier commit or the empty state) and a
    write set; its state is the parent's state with the writes applied
    (C01's finite-map specification).  The TIP is the last commit; the current
    chain is the tip and its ancestors; a commit is LIVE when it is on the
    current chain and its height is within [PruneHeight] of the TOP height, the
    greatest height committed so far (after a rollback the tip is lower than
    the top; pruning is irreversible, so the interval is measured from the top;
    without rollbacks top = tip).  The property: every key reads its state's
    value at every live commit's root. *)
From Coq Require Import List ZArith NArith Bool.
From C33 Require Import C01.Keys C01.Spec.
Import ListNotations.
Open Scope Z_scope.

Record acommit := mk_acommit {
  ac_height : Z;
  ac_parent : option nat;          (* index of the parent commit; None = empty state *)
  ac_state : smap }.

Definition state_of (cs : list acommit) (p : option nat) : smap :=
  match p with
  | None => []
  | Some i => match nth_error cs i with Some c => ac_state c | None => [] end
  end.

(** append the commit (height, parent, writes) *)
Definition add_commit (cs : list acommit) (h : Z) (p : option nat) (kvs : list (bytes * bytes)) : list acommit :=
  cs ++ [mk_acommit h p (apply_writes (state_of cs p) kvs)].

(** indices of the tip's chain, tip first; parents are earlier commits, so the
    number of commits is enough fuel *)
Fixpoint chain_from (cs : list acommit) (fuel : nat) (i : nat) : list nat :=
  match fuel with
  | O => []
  | S f =>
      match nth_error cs i with
      | None => []
      | Some c => i :: match ac_parent c with
                       | Some p => if Nat.ltb p i then chain_from cs f p else []
                       | None => []
                       end
      end
  end.

Definition tip_index (cs : list acommit) : option nat :=
  match cs with [] => None | _ => Some (pred (length cs)) end.

Definition chain (cs : list acommit) : list nat :=
  match tip_index cs with None => [] | Some t => chain_from cs (length cs) t end.

Definition height_of (cs : list acommit) (i : nat) : Z :=
  match nth_error cs i with Some c => ac_height c | None => 0 end.

Definition top_height (cs : list acommit) : Z :=
  fold_left (fun m c => Z.max m (ac_height c)) cs 0.

Definition live (ph : Z) (cs : list acommit) : list nat :=
  filter (fun i => top_height cs - ph <=? height_of cs i) (chain cs).

(** what a read of key [k] at commit [i] must return *)
Definition expected (cs : list acommit) (i : nat) (k : bytes) : option bytes :=
  sget (state_of cs (Some i)) k.
