(** C05 — what a pruning run deletes: only the leaf and the ancestors listed
    in index entries that have a NEWER entry of the same key which is old
    enough; index entries only disappear or move to the second level. *)
From Coq Require Import List ZArith NArith Bool Lia.
From C33 Require Import C01.Keys C01.KeysFacts C01.Model C01.Store
  C05.Model C05.ProofsHash C05.ProofsSave.
Import ListNotations.
Open Scope Z_scope.

Definition version_refs (e : ikey * list nref) : list nref := ik_leaf e :: snd e.

Lemma delete_version_keep : forall ns e r, ~ In r (version_refs e) ->
  aget nref_eqb (delete_version ns e) r = aget nref_eqb ns r.
Proof.
  intros ns e r N. unfold delete_version.
  rewrite aget_adel_other; [|exact nref_eqb_eq|intros E; apply N; cbn; auto].
  apply aget_adel_all_other; [exact nref_eqb_eq|]. intros I. apply N. cbn. auto.
Qed.

Lemma fold_delete_keep : forall doomed ns r,
  (forall e, In e doomed -> ~ In r (version_refs e)) ->
  aget nref_eqb (fold_left delete_version doomed ns) r = aget nref_eqb ns r.
Proof.
  induction doomed as [|e tl IH]; intros ns r N; cbn [fold_left]; [reflexivity|].
  rewrite IH by (intros e0 I; apply N; cbn; auto).
  apply delete_version_keep. apply N. cbn. auto.
Qed.

(** the greatest height of a key's group is the height of one of its entries *)
Lemma group_max_fold : forall es k m,
  let g := fold_left (fun m e => if beq (ik_key e) k then Z.max m (ik_height e) else m) es m in
  (g = m \/ exists e0, In e0 es /\ beq (ik_key e0) k = true /\ ik_height e0 = g) /\ m <= g.
Proof.
  induction es as [|e es IH]; intros k m; cbn [fold_left].
  - split; [left; reflexivity|lia].
  - destruct (beq (ik_key e) k) eqn:B.
    + destruct (IH k (Z.max m (ik_height e))) as [[E|[e0 [I [B0 E0]]]] L].
      * split; [|lia]. destruct (Z.max_spec m (ik_height e)) as [[_ M]|[_ M]].
        -- right. exists e. cbn. rewrite E, M. auto.
        -- left. rewrite E, M. reflexivity.
      * split; [|lia]. right. exists e0. cbn. auto.
    + destruct (IH k m) as [[E|[e0 [I [B0 E0]]]] L].
      * split; [left; exact E|exact L].
      * split; [|exact L]. right. exists e0. cbn. auto.
Qed.

Lemma group_max_attained : forall es k h, -1 <= h -> h < group_max es k ->
  exists e0, In e0 es /\ beq (ik_key e0) k = true /\ ik_height e0 = group_max es k.
Proof.
  intros es k h Hh Hl. unfold group_max in *.
  destruct (group_max_fold es k (-1)) as [[E|X] _]; [lia|exact X].
Qed.

Definition all_entries (d : pdb) : list (ikey * list nref) := idx1 d ++ idx2 d.

(** a ref is SAFE in [d] for a run at [cur] when no entry listing it has a newer old-enough entry of the same key *)
Definition evidence (c : cfg) (cur : Z) (d : pdb) (e0 : ikey * list nref) : Prop :=
  (In e0 (idx1 d) /\ ik_height e0 + prune_height c <= cur) \/
  (In e0 (idx1 d) /\ ik_height e0 + second_level c <= cur) \/
  In e0 (idx2 d).

Definition safe_ref (c : cfg) (cur : Z) (d : pdb) (r : nref) : Prop :=
  forall e e0, In e (all_entries d) -> In r (version_refs e) ->
    evidence c cur d e0 -> ik_key e0 = ik_key e -> ik_height e < ik_height e0 -> False.

Lemma beq_true_eq : forall a b, beq a b = true -> a = b.
Proof. intros a b H. apply beq_iff. exact H. Qed.

Lemma prune_first_fields : forall c cur d,
  rootrec (prune_first c cur d) = rootrec d /\ maxh (prune_first c cur d) = maxh d /\
  sech (prune_first c cur d) = sech d.
Proof. intros. unfold prune_first. cbn. auto. Qed.

Lemma fold_aput_in : forall moved (m : list (ikey * list nref)) e,
  In e (fold_left (fun m e => aput ikey_eqb m (fst e) (snd e)) moved m) -> In e m \/ In e moved.
Proof.
  induction moved as [|x tl IH]; intros m e I; cbn [fold_left] in I; [auto|].
  apply IH in I. destruct I as [I|I]; [|right; cbn; auto].
  apply in_aput in I. destruct I as [I|I]; [right; cbn; left; destruct x; cbn in *; congruence|left; exact I].
Qed.

Lemma prune_first_idx1 : forall c cur d e, In e (idx1 (prune_first c cur d)) -> In e (idx1 d).
Proof.
  intros c cur d e I. unfold prune_first in I. cbn [idx1] in I.
  apply in_adel_all in I. apply in_adel_all in I. exact I.
Qed.

Lemma prune_first_idx2 : forall c cur d e, In e (idx2 (prune_first c cur d)) ->
  In e (idx2 d) \/ (In e (idx1 d) /\ ik_height e + second_level c <= cur).
Proof.
  intros c cur d e I. unfold prune_first in I. cbn [idx2] in I.
  apply fold_aput_in in I. destruct I as [I|I]; [left; exact I|right].
  apply filter_In in I. destruct I as [I F]. split; [exact I|].
  unfold first_moved in F. apply negb_true_iff in F. apply Z.ltb_ge in F. lia.
Qed.

Lemma prune_first_keep : forall c cur d r,
  (forall e, In e (idx1 d) -> 0 <= ik_height e) ->
  safe_ref c cur d r -> node_get (prune_first c cur d) r = node_get d r.
Proof.
  intros c cur d r HP S. unfold prune_first, node_get. cbn [nodes].
  apply fold_delete_keep. intros e I Ir.
  apply filter_In in I. destruct I as [Ic Fd].
  apply filter_In in Ic. destruct Ic as [Ie Fc].
  unfold first_doomed in Fd. apply andb_true_iff in Fd. destruct Fd as [_ Fl].
  apply Z.ltb_lt in Fl.
  destruct (group_max_attained _ _ (ik_height e) ltac:(specialize (HP e Ie); lia) Fl) as [e0 [I0 [B0 E0]]].
  apply filter_In in I0. destruct I0 as [I0 Fc0].
  unfold first_cand in Fc0. apply andb_true_iff in Fc0. destruct Fc0 as [_ A0]. apply Z.leb_le in A0.
  apply (S e e0).
  - unfold all_entries. apply in_or_app. left. exact Ie.
  - exact Ir.
  - left. split; assumption.
  - apply beq_true_eq. exact B0.
  - lia.
Qed.

Lemma prune_second_nodes_keep : forall c cur d r,
  (forall e, In e (idx2 d) -> 0 <= ik_height e) ->
  (forall e e0, In e (idx2 d) -> In r (version_refs e) -> In e0 (idx2 d) ->
     ik_key e0 = ik_key e -> ik_height e < ik_height e0 -> False) ->
  node_get (prune_second_nodes c cur d) r = node_get d r.
Proof.
  intros c cur d r HP S. unfold prune_second_nodes, node_get. cbn [nodes].
  apply fold_delete_keep. intros e I Ir.
  apply filter_In in I. destruct I as [Ie Fd].
  unfold second_doomed in Fd. rewrite !andb_true_iff in Fd. destruct Fd as [[[_ _] Fl] _].
  apply Z.ltb_lt in Fl.
  destruct (group_max_attained _ _ (ik_height e) ltac:(specialize (HP e Ie); lia) Fl) as [e0 [I0 [B0 E0]]].
  apply (S e e0); auto. - apply beq_true_eq. exact B0. - lia.
Qed.

Lemma prune_second_fields : forall c cur d,
  rootrec (prune_second c cur d) = rootrec d /\ maxh (prune_second c cur d) = maxh d /\
  idx1 (prune_second c cur d) = idx1 d.
Proof.
  intros. unfold prune_second. destruct (_ && _); cbn; auto.
Qed.

Lemma prune_second_idx2 : forall c cur d e, In e (idx2 (prune_second c cur d)) -> In e (idx2 d).
Proof.
  intros c cur d e I. unfold prune_second in I. destruct (_ && _); [|exact I].
  cbn [set_sech idx2 prune_second_nodes] in I. apply in_adel_all in I. apply in_adel_all in I. exact I.
Qed.

Lemma prune_second_keep : forall c cur d r,
  (forall e, In e (idx2 d) -> 0 <= ik_height e) ->
  (forall e e0, In e (idx2 d) -> In r (version_refs e) -> In e0 (idx2 d) ->
     ik_key e0 = ik_key e -> ik_height e < ik_height e0 -> False) ->
  node_get (prune_second c cur d) r = node_get d r.
Proof.
  intros c cur d r HP S. unfold prune_second. destruct (_ && _); [|reflexivity].
  change (node_get (set_sech (prune_second_nodes c cur d) cur) r) with (node_get (prune_second_nodes c cur d) r).
  apply prune_second_nodes_keep; assumption.
Qed.

(** ---- the whole run ---- *)

Theorem pruning_keep : forall c cur d r,
  (forall e, In e (all_entries d) -> 0 <= ik_height e) ->
  safe_ref c cur d r -> node_get (pruning_tree c cur d) r = node_get d r.
Proof.
  intros c cur d r HP S. unfold pruning_tree.
  rewrite prune_second_keep.
  - apply prune_first_keep; [|exact S]. intros e I. apply HP. unfold all_entries. apply in_or_app. auto.
  - intros e I. apply prune_first_idx2 in I. apply HP. unfold all_entries. apply in_or_app. tauto.
  - intros e e0 Ie Ir I0 K L.
    apply (S e e0); auto.
    + unfold all_entries. apply in_or_app. apply prune_first_idx2 in Ie. tauto.
    + apply prune_first_idx2 in I0. destruct I0 as [I0|[I0 A0]]; [right; right; exact I0|right; left; auto].
Qed.

Theorem pruning_entries : forall c cur d e,
  In e (all_entries (pruning_tree c cur d)) -> In e (all_entries d).
Proof.
  intros c cur d e I. unfold all_entries, pruning_tree in *. apply in_app_or in I. apply in_or_app.
  destruct (prune_second_fields c cur (prune_first c cur d)) as [_ [_ E1]].
  destruct I as [I|I].
  - rewrite E1 in I. left. eapply prune_first_idx1; eauto.
  - apply prune_second_idx2 in I. apply prune_first_idx2 in I. tauto.
Qed.

Theorem pruning_idx2 : forall c cur d e, In e (idx2 (pruning_tree c cur d)) ->
  In e (idx2 d) \/ (In e (idx1 d) /\ ik_height e + second_level c <= cur).
Proof.
  intros c cur d e I. unfold pruning_tree in I. apply prune_second_idx2 in I. apply prune_first_idx2. exact I.
Qed.

Theorem pruning_idx1 : forall c cur d e, In e (idx1 (pruning_tree c cur d)) -> In e (idx1 d).
Proof.
  intros c cur d e I. unfold pruning_tree in I.
  destruct (prune_second_fields c cur (prune_first c cur d)) as [_ [_ E1]]. rewrite E1 in I.
  eapply prune_first_idx1; eauto.
Qed.

Theorem pruning_fields : forall c cur d,
  rootrec (pruning_tree c cur d) = rootrec d /\ maxh (pruning_tree c cur d) = maxh d.
Proof.
  intros. unfold pruning_tree.
  destruct (prune_second_fields c cur (prune_first c cur d)) as [A [B _]].
  destruct (prune_first_fields c cur d) as [A' [B' _]]. rewrite A, B. auto.
Qed.
