(** C05 — small facts about abstract histories (Spec.v) and stamping. *)
From Coq Require Import List ZArith NArith Bool Lia.
From C33 Require Import C01.Keys C01.KeysFacts C01.Model C01.Spec C01.Store
  C05.Model C05.Spec C05.ProofsErase C05.ProofsTree C05.ProofsHash C05.ProofsSave.
Import ListNotations.
Open Scope Z_scope.

Lemma fold_max_app : forall (cs : list acommit) a m,
  fold_left (fun m c => Z.max m (ac_height c)) (cs ++ [a]) m =
  Z.max (fold_left (fun m c => Z.max m (ac_height c)) cs m) (ac_height a).
Proof. intros. rewrite fold_left_app. reflexivity. Qed.

Lemma top_height_app : forall cs a, top_height (cs ++ [a]) = Z.max (top_height cs) (ac_height a).
Proof. intros. apply fold_max_app. Qed.

Lemma fold_max_ge : forall (cs : list acommit) m,
  m <= fold_left (fun m c => Z.max m (ac_height c)) cs m /\
  forall c, In c cs -> ac_height c <= fold_left (fun m c => Z.max m (ac_height c)) cs m.
Proof.
  induction cs as [|x cs IH]; intros m; cbn [fold_left].
  - split; [lia|intros c []].
  - destruct (IH (Z.max m (ac_height x))) as [A B]. split; [lia|].
    intros c [E|I]; [subst; lia|apply B; exact I].
Qed.

Lemma top_height_ge : forall cs c, In c cs -> ac_height c <= top_height cs.
Proof. intros cs c I. apply (proj2 (fold_max_ge cs 0)). exact I. Qed.

Lemma top_height_nonneg : forall cs, 0 <= top_height cs.
Proof. intros cs. apply (proj1 (fold_max_ge cs 0)). Qed.

Lemma fold_max_le : forall (cs : list acommit) m b, m <= b -> (forall c, In c cs -> ac_height c <= b) ->
  fold_left (fun m c => Z.max m (ac_height c)) cs m <= b.
Proof.
  induction cs as [|x cs IH]; intros m b Hm Hb; cbn [fold_left]; [exact Hm|].
  apply IH; [|intros c I; apply Hb; cbn; auto]. specialize (Hb x (or_introl eq_refl)). lia.
Qed.

Lemma top_height_le : forall cs b, 0 <= b -> (forall c, In c cs -> ac_height c <= b) -> top_height cs <= b.
Proof. intros. apply fold_max_le; assumption. Qed.

Lemma height_of_ge : forall cs i, (i < length cs)%nat -> height_of cs i <= top_height cs.
Proof.
  intros cs i L. unfold height_of. destruct (nth_error cs i) as [c|] eqn:E.
  - apply top_height_ge. eapply nth_error_In; eauto.
  - apply nth_error_None in E. lia.
Qed.

Lemma height_of_app_old : forall cs a i, (i < length cs)%nat -> height_of (cs ++ [a]) i = height_of cs i.
Proof. intros. unfold height_of. rewrite nth_error_app1 by assumption. reflexivity. Qed.

Lemma height_of_app_new : forall cs a, height_of (cs ++ [a]) (length cs) = ac_height a.
Proof. intros. unfold height_of. rewrite nth_error_app2 by lia. rewrite Nat.sub_diag. reflexivity. Qed.

Lemma state_of_app_old : forall cs a i, (i < length cs)%nat -> state_of (cs ++ [a]) (Some i) = state_of cs (Some i).
Proof. intros. unfold state_of. rewrite nth_error_app1 by assumption. reflexivity. Qed.

Lemma state_of_app_new : forall cs a, state_of (cs ++ [a]) (Some (length cs)) = ac_state a.
Proof. intros. unfold state_of. rewrite nth_error_app2 by lia. rewrite Nat.sub_diag. reflexivity. Qed.

Lemma chain_from_valid : forall cs fuel i j, In j (chain_from cs fuel i) -> (j < length cs)%nat.
Proof.
  induction fuel as [|f IH]; intros i j I; cbn [chain_from] in I; [destruct I|].
  destruct (nth_error cs i) as [c|] eqn:E; [|destruct I]. cbn [In] in I.
  destruct I as [I|I].
  - subst j. apply nth_error_Some. congruence.
  - destruct (ac_parent c) as [p|]; [|cbn in I; destruct I]. destruct (Nat.ltb p i); [|cbn in I; destruct I]. eapply IH; eauto.
Qed.

Lemma live_valid : forall ph cs i, In i (live ph cs) ->
  (i < length cs)%nat /\ top_height cs - ph <= height_of cs i.
Proof.
  intros ph cs i I. unfold live in I. apply filter_In in I. destruct I as [I F].
  split; [|apply Z.leb_le; exact F].
  unfold chain in I. destruct (tip_index cs); [|destruct I]. eapply chain_from_valid; eauto.
Qed.

(** leaves of a stamped tree *)
Lemma aleaves_stamp : forall t H b k v r, In (k, v, Some r) (aleaves (stamp H b t)) ->
  In (k, v, Some r) (aleaves t) \/ (In (k, v, None) (aleaves t) /\ In r (new_refs H b t)).
Proof.
  induction t as [p lk lv|p nk h s l IHl rt IHr]; intros H b k v r I.
  - destruct p as [r0|]; cbn in I.
    + left. exact I.
    + destruct I as [I|[]]. inversion I; subst. right. cbn. auto.
  - destruct p as [r0|]; cbn [stamp annot aleaves] in I.
    + left. exact I.
    + apply in_app_or in I. cbn [aleaves new_refs annot]. destruct I as [I|I].
      * apply IHl in I. destruct I as [I|[I N]].
        -- left. apply in_or_app. auto.
        -- right. split; [apply in_or_app; auto|right; apply in_or_app; auto].
      * apply IHr in I. destruct I as [I|[I N]].
        -- left. apply in_or_app. auto.
        -- right. split; [apply in_or_app; auto|right; apply in_or_app; auto].
Qed.

(** shape of the new refs: the root's has no prefix, all others carry the height *)
Lemma new_refs_false_shape : forall t H r, In r (new_refs H false t) -> fst r = Some H.
Proof.
  induction t as [p lk lv|p nk h s l IHl rt IHr]; intros H r I.
  - destruct p; cbn in I; [destruct I|]. destruct I as [I|[]]. subst. reflexivity.
  - destruct p; cbn [new_refs annot] in I; [destruct I|]. destruct I as [I|I]; [subst; reflexivity|].
    apply in_app_or in I. destruct I; auto.
Qed.

Lemma new_refs_true_shape : forall t H r, In r (new_refs H true t) ->
  fst r = Some H \/ (annot t = None /\ r = (None, thash (erase t))).
Proof.
  intros [p lk lv|p nk h s l rt] H r I.
  - destruct p; cbn in I; [destruct I|]. destruct I as [I|[]]. subst. right. auto.
  - destruct p; cbn [new_refs annot] in I; [destruct I|]. destruct I as [I|I]; [subst; right; auto|].
    left. apply in_app_or in I. destruct I as [I|I]; eapply new_refs_false_shape; eauto.
Qed.

(** two nodes of a tree with the same key are the same node when keys are unique *)
Lemma flat_map_nodup_inj : forall (A B : Type) (f : A -> list B) (l : list A) x y r,
  NoDup (flat_map f l) -> In x l -> In y l -> In r (f x) -> In r (f y) -> x = y.
Proof.
  induction l as [|a l IH]; intros x y r ND Ix Iy Rx Ry; [destruct Ix|].
  cbn in ND.
  assert (NDl : NoDup (flat_map f l)).
  { clear - ND. induction (f a) as [|b q IHq]; [exact ND|]. cbn in ND. inversion ND. auto. }
  assert (DJ : forall z, In z (f a) -> In z (flat_map f l) -> False).
  { clear - ND. induction (f a) as [|b q IHq]; intros z I1 I2; [destruct I1|].
    cbn in ND. inversion ND; subst. destruct I1 as [I1|I1]; [subst; apply H1; apply in_or_app; auto|eauto]. }
  destruct Ix as [Ix|Ix], Iy as [Iy|Iy]; subst.
  - reflexivity.
  - exfalso. apply (DJ r Rx). apply in_flat_map. eauto.
  - exfalso. apply (DJ r Ry). apply in_flat_map. eauto.
  - eapply IH; eauto.
Qed.

Lemma node_by_ref_unique : forall t x y r, NoDup (arefs t) -> asub x t -> asub y t ->
  annot x = Some r -> annot y = Some r -> x = y.
Proof.
  intros t x y r ND Hx Hy Ax Ay. unfold arefs in ND.
  apply (flat_map_nodup_inj _ _ oref (anodes t) x y r ND).
  - apply anodes_asub. exact Hx.
  - apply anodes_asub. exact Hy.
  - unfold oref. rewrite Ax. cbn. auto.
  - unfold oref. rewrite Ay. cbn. auto.
Qed.
