(** C05 — what Node.save writes: the stamped tree (every new node object gets
    its database key) is completely present afterwards; nothing else changes. *)
From Coq Require Import List ZArith NArith Bool Lia.
From C33 Require Import C01.Keys C01.KeysFacts C01.Model C01.Store C01.Inv C01.Proofs
  C05.Model C05.ProofsErase C05.ProofsTree C05.ProofsHash.
Import ListNotations.
Open Scope Z_scope.

(** ---- association lists ---- *)
Section AMapFacts.
  Context {K V : Type}.
  Variable eqb : K -> K -> bool.
  Hypothesis eqb_eq : forall a b, eqb a b = true <-> a = b.

  Lemma eqb_refl' : forall a, eqb a a = true.
  Proof. intros. apply eqb_eq. reflexivity. Qed.

  Lemma aget_adel_same : forall (m : list (K * V)) k, aget eqb (adel eqb m k) k = None.
  Proof.
    induction m as [|[k' v] m IH]; intros k; cbn; [reflexivity|].
    destruct (eqb k k') eqn:E; cbn; [apply IH|]. rewrite E. apply IH.
  Qed.

  Lemma aget_adel_other : forall (m : list (K * V)) k k', k <> k' -> aget eqb (adel eqb m k) k' = aget eqb m k'.
  Proof.
    induction m as [|[k0 v] m IH]; intros k k' N; cbn; [reflexivity|].
    destruct (eqb k k0) eqn:E; cbn.
    - apply eqb_eq in E. subst k0.
      destruct (eqb k' k) eqn:E2; [apply eqb_eq in E2; congruence|]. apply IH. exact N.
    - destruct (eqb k' k0); [reflexivity|]. apply IH. exact N.
  Qed.

  Lemma aget_aput_same : forall (m : list (K * V)) k v, aget eqb (aput eqb m k v) k = Some v.
  Proof. intros. unfold aput. cbn. rewrite eqb_refl'. reflexivity. Qed.

  Lemma aget_aput_other : forall (m : list (K * V)) k v k', k <> k' -> aget eqb (aput eqb m k v) k' = aget eqb m k'.
  Proof.
    intros m k v k' N. unfold aput. cbn.
    destruct (eqb k' k) eqn:E; [apply eqb_eq in E; congruence|]. apply aget_adel_other. exact N.
  Qed.

  Lemma in_adel : forall (m : list (K * V)) k e, In e (adel eqb m k) -> In e m.
  Proof. intros m k e H. unfold adel in H. apply filter_In in H. tauto. Qed.

  Lemma in_aput : forall (m : list (K * V)) k v e, In e (aput eqb m k v) -> e = (k, v) \/ In e m.
  Proof. intros m k v e [H|H]; [left; congruence|right; eapply in_adel; eauto]. Qed.

  Lemma in_adel_all : forall ks (m : list (K * V)) e, In e (adel_all eqb m ks) -> In e m.
  Proof.
    unfold adel_all. induction ks as [|k ks IH]; intros m e H; cbn [fold_left] in H; [exact H|].
    apply IH in H. eapply in_adel; eauto.
  Qed.

  Lemma aget_adel_all_other : forall ks (m : list (K * V)) k', ~ In k' ks ->
    aget eqb (adel_all eqb m ks) k' = aget eqb m k'.
  Proof.
    unfold adel_all. induction ks as [|k ks IH]; intros m k' N; cbn [fold_left]; [reflexivity|].
    rewrite IH by (intros X; apply N; cbn; auto).
    apply aget_adel_other. intros E. apply N. cbn. auto.
  Qed.

  Lemma aget_in : forall (m : list (K * V)) k v, aget eqb m k = Some v -> In (k, v) m.
  Proof.
    induction m as [|[k0 v0] m IH]; intros k v H; cbn in H; [discriminate|].
    destruct (eqb k k0) eqn:E.
    - apply eqb_eq in E. inversion H. subst. cbn. auto.
    - cbn. right. apply IH. exact H.
  Qed.
End AMapFacts.

(** ---- nodes, refs, stamping ---- *)

Fixpoint anodes (t : atree) : list atree :=
  match t with
  | ALeaf _ _ _ => [t]
  | ANode _ _ _ _ l r => t :: anodes l ++ anodes r
  end.

Lemma anodes_asub : forall t x, In x (anodes t) <-> asub x t.
Proof.
  induction t as [p k v|p k h s l IHl r IHr]; intros x; cbn; split; intros H.
  - destruct H as [H|[]]. subst. apply asub_refl.
  - apply asub_leaf_inv in H. auto.
  - destruct H as [H|H]; [subst; apply asub_refl|].
    apply in_app_or in H. destruct H as [H|H]; [apply asub_l, IHl|apply asub_r, IHr]; exact H.
  - apply asub_node_inv in H. destruct H as [H|[H|H]]; [left; auto| |]; right; apply in_or_app;
      [left; apply IHl|right; apply IHr]; exact H.
Qed.

Lemma anodes_erase : forall t, map erase (anodes t) = subtrees (erase t).
Proof.
  induction t as [p k v|p k h s l IHl r IHr]; cbn; [reflexivity|].
  rewrite map_app, IHl, IHr. reflexivity.
Qed.

Definition oref (t : atree) : list nref := match annot t with Some r => [r] | None => [] end.
Definition arefs (t : atree) : list nref := flat_map oref (anodes t).

Definition dref : nref := (None, HLeaf [] []).
Definition aref (t : atree) : nref := match annot t with Some r => r | None => dref end.

Definition afull (t : atree) : Prop := forall x, asub x t -> annot x <> None.
Definition aok (t : atree) : Prop := forall x, asub x t -> annot x <> None -> afull x.
Definition wella (t : atree) : Prop := forall x r, asub x t -> annot x = Some r -> snd r = thash (erase x).

Lemma arefs_node : forall p k h s l r, arefs (ANode p k h s l r) = oref (ANode p k h s l r) ++ arefs l ++ arefs r.
Proof. intros. unfold arefs. cbn [anodes flat_map]. rewrite flat_map_app. reflexivity. Qed.

Lemma arefs_in : forall t r, In r (arefs t) <-> exists x, asub x t /\ annot x = Some r.
Proof.
  intros t r. unfold arefs. rewrite in_flat_map. split.
  - intros [x [Hx Hr]]. exists x. split; [apply anodes_asub; exact Hx|].
    unfold oref in Hr. destruct (annot x); [destruct Hr as [Hr|[]]; congruence|destruct Hr].
  - intros [x [Hx Hr]]. exists x. split; [apply anodes_asub; exact Hx|]. unfold oref. rewrite Hr. cbn. auto.
Qed.

Lemma arefs_sub : forall x t, asub x t -> forall r, In r (arefs x) -> In r (arefs t).
Proof.
  intros x t H r Hr. apply arefs_in in Hr. destruct Hr as [y [Hy Ar]].
  apply arefs_in. exists y. split; [eapply asub_trans; eauto|exact Ar].
Qed.

Fixpoint stamp (H : Z) (isroot : bool) (t : atree) : atree :=
  match annot t with
  | Some _ => t
  | None =>
      match t with
      | ALeaf _ k v => ALeaf (Some (new_ref H isroot t)) k v
      | ANode _ key ht s l r =>
          ANode (Some (new_ref H isroot t)) key ht s (stamp H false l) (stamp H false r)
      end
  end.

Fixpoint new_refs (H : Z) (isroot : bool) (t : atree) : list nref :=
  match annot t with
  | Some _ => []
  | None =>
      new_ref H isroot t ::
      match t with
      | ALeaf _ _ _ => []
      | ANode _ _ _ _ l r => new_refs H false l ++ new_refs H false r
      end
  end.

Lemma erase_stamp : forall t H b, erase (stamp H b t) = erase t.
Proof.
  induction t as [p k v|p k h s l IHl r IHr]; intros H b; cbn.
  - destruct p; reflexivity.
  - destruct p; cbn; [reflexivity|]. rewrite IHl, IHr. reflexivity.
Qed.

Lemma annot_stamp : forall t H b, annot (stamp H b t) = Some (ref_of H b t).
Proof.
  intros [p k v|p k h s l r] H b; unfold ref_of; cbn; destruct p; reflexivity.
Qed.

Lemma aref_stamp : forall t H b, aref (stamp H b t) = ref_of H b t.
Proof. intros. unfold aref. rewrite annot_stamp. reflexivity. Qed.

Lemma stamp_annotated : forall t H b r, annot t = Some r -> stamp H b t = t.
Proof. intros [p k v|p k h s l r0] H b r A; cbn in *; rewrite A; reflexivity. Qed.

Lemma new_refs_annotated : forall t H b r, annot t = Some r -> new_refs H b t = [].
Proof. intros [p k v|p k h s l r0] H b r A; cbn in *; rewrite A; reflexivity. Qed.

Lemma aok_l : forall p k h s l r, aok (ANode p k h s l r) -> aok l.
Proof. intros p k h s l r A x Hx. apply A. apply asub_l. exact Hx. Qed.

Lemma aok_r : forall p k h s l r, aok (ANode p k h s l r) -> aok r.
Proof. intros p k h s l r A x Hx. apply A. apply asub_r. exact Hx. Qed.

(** nodes of the stamped tree: persisted nodes of [t], or stamped new nodes *)
Lemma stamp_sub : forall t H b x, aok t -> asub x (stamp H b t) ->
  (asub x t /\ annot x <> None) \/
  (exists r, annot x = Some r /\ In r (new_refs H b t)).
Proof.
  induction t as [p k v|p k h s l IHl r IHr]; intros H b x OK Hx.
  - destruct p as [r0|]; cbn in Hx.
    + apply asub_leaf_inv in Hx. subst. left. split; [apply asub_refl|cbn; congruence].
    + apply asub_leaf_inv in Hx. subst. right. eexists. split; [reflexivity|]. cbn. auto.
  - destruct p as [r0|].
    + cbn in Hx. left. split; [exact Hx|].
      apply (OK (ANode (Some r0) k h s l r)); [apply asub_refl|cbn; congruence|exact Hx].
    + cbn in Hx. apply asub_node_inv in Hx. destruct Hx as [Hx|[Hx|Hx]].
      * subst x. right. eexists. split; [reflexivity|]. cbn. auto.
      * apply IHl in Hx; [|eapply aok_l; eauto]. destruct Hx as [[Hs A]|[r1 [A I]]].
        -- left. split; [apply asub_l; exact Hs|exact A].
        -- right. exists r1. split; [exact A|]. cbn. right. apply in_or_app. auto.
      * apply IHr in Hx; [|eapply aok_r; eauto]. destruct Hx as [[Hs A]|[r1 [A I]]].
        -- left. split; [apply asub_r; exact Hs|exact A].
        -- right. exists r1. split; [exact A|]. cbn. right. apply in_or_app. auto.
Qed.

Lemma stamp_full : forall t H b, aok t -> afull (stamp H b t).
Proof.
  intros t H b OK x Hx. destruct (stamp_sub t H b x OK Hx) as [[_ A]|[r [A _]]]; [exact A|congruence].
Qed.

(** persisted nodes survive stamping *)
Lemma stamp_keeps : forall t H b x, asub x t -> annot x <> None -> asub x (stamp H b t).
Proof.
  induction t as [p k v|p k h s l IHl r IHr]; intros H b x Hx A.
  - apply asub_leaf_inv in Hx. subst x. cbn in A. destruct p; [apply asub_refl|congruence].
  - destruct p as [r0|]; [exact Hx|]. cbn.
    apply asub_node_inv in Hx. destruct Hx as [Hx|[Hx|Hx]].
    + subst x. cbn in A. congruence.
    + apply asub_l. apply IHl; assumption.
    + apply asub_r. apply IHr; assumption.
Qed.

(** the new refs are refs of the stamped tree *)
Lemma new_refs_arefs : forall t H b r, In r (new_refs H b t) -> In r (arefs (stamp H b t)).
Proof.
  induction t as [p k v|p k h s l IHl r0 IHr]; intros H b r Hr.
  - destruct p; cbn in Hr; [destruct Hr|]. destruct Hr as [Hr|[]]. subst. cbn. auto.
  - destruct p; cbn in Hr; [destruct Hr|]. cbn [stamp annot]. rewrite arefs_node. cbn [oref annot app].
    destruct Hr as [Hr|Hr]; [left; exact Hr|right].
    apply in_app_or in Hr. apply in_or_app. destruct Hr; [left; apply IHl|right; apply IHr]; assumption.
Qed.

Lemma new_ref_hash : forall H b t, snd (new_ref H b t) = thash (erase t).
Proof. reflexivity. Qed.

Lemma stamp_wella : forall t H b, wella t -> wella (stamp H b t).
Proof.
  induction t as [p k v|p k h s l IHl r IHr]; intros H b W x r0 Hx A.
  - destruct p; cbn in Hx; apply asub_leaf_inv in Hx; subst x.
    + eapply W; [apply asub_refl|exact A].
    + cbn in A. inversion A. reflexivity.
  - destruct p as [r1|]; cbn [stamp annot] in Hx.
    + eapply W; eauto.
    + apply asub_node_inv in Hx. destruct Hx as [Hx|[Hx|Hx]].
      * subst x. cbn in A. inversion A. cbn. rewrite !erase_stamp. reflexivity.
      * eapply IHl; eauto. intros y ry Hy Ay. eapply W; [apply asub_l; exact Hy|exact Ay].
      * eapply IHr; eauto. intros y ry Hy Ay. eapply W; [apply asub_r; exact Hy|exact Ay].
Qed.

(** refs of a fully annotated, well annotated, ordered tree are pairwise different *)
Lemma arefs_hashes : forall t, afull t -> wella t -> map snd (arefs t) = map thash (subtrees (erase t)).
Proof.
  induction t as [p k v|p k h s l IHl r IHr]; intros F W.
  - unfold arefs. cbn. destruct p as [r0|]; [|exfalso; apply (F (ALeaf None k v)); [apply asub_refl|reflexivity]].
    cbn. rewrite (W (ALeaf (Some r0) k v) r0 (asub_refl _) eq_refl). reflexivity.
  - rewrite arefs_node. destruct p as [r0|]; [|exfalso; apply (F (ANode None k h s l r)); [apply asub_refl|reflexivity]].
    cbn [oref annot app map erase subtrees]. rewrite !map_app.
    rewrite (W (ANode (Some r0) k h s l r) r0 (asub_refl _) eq_refl). cbn [erase].
    f_equal. f_equal.
    + apply IHl.
      * intros x Hx. apply F. apply asub_l. exact Hx.
      * intros x r1 Hx. apply W. apply asub_l. exact Hx.
    + apply IHr.
      * intros x Hx. apply F. apply asub_r. exact Hx.
      * intros x r1 Hx. apply W. apply asub_r. exact Hx.
Qed.

Lemma nodup_map : forall (A B : Type) (f : A -> B) (l : list A), NoDup (map f l) -> NoDup l.
Proof.
  induction l as [|x l IH]; intros H; [constructor|]. cbn in H. inversion H; subst. constructor.
  - intros I. apply H2. apply in_map. exact I.
  - apply IH. exact H3.
Qed.

Theorem arefs_nodup : forall t, afull t -> wella t -> ordered (erase t) -> NoDup (arefs t).
Proof.
  intros t F W O. apply (nodup_map _ _ snd). rewrite arefs_hashes by assumption.
  apply subtree_hashes_nodup. exact O.
Qed.

(** ---- presence in the database ---- *)

Fixpoint apresent (d : pdb) (t : atree) : Prop :=
  match t with
  | ALeaf (Some r) k v => node_get d r = Some (NLeaf k v)
  | ANode (Some r) key h s lt rt =>
      node_get d r = Some (NInner key h s (aref lt) (aref rt)) /\ apresent d lt /\ apresent d rt
  | _ => False
  end.

Lemma apresent_keep : forall t d d', apresent d t ->
  (forall r, In r (arefs t) -> node_get d' r = node_get d r) -> apresent d' t.
Proof.
  induction t as [p k v|p k h s l IHl r IHr]; intros d d' P K.
  - destruct p as [r0|]; [|destruct P]. cbn in *. rewrite K; [exact P|]. unfold arefs. cbn. auto.
  - destruct p as [r0|]; [|destruct P]. cbn [apresent] in *. destruct P as [P0 [Pl Pr]].
    split; [|split].
    + rewrite K; [exact P0|]. rewrite arefs_node. cbn. auto.
    + eapply IHl; eauto. intros r1 I. apply K. rewrite arefs_node. apply in_or_app. right. apply in_or_app. auto.
    + eapply IHr; eauto. intros r1 I. apply K. rewrite arefs_node. apply in_or_app. right. apply in_or_app. auto.
Qed.

Lemma apresent_sub : forall x t d, asub x t -> apresent d t -> apresent d x.
Proof.
  intros x t d H. induction H; intros P; [exact P| |].
  - destruct p; [|destruct P]. cbn in P. apply IHasub. tauto.
  - destruct p; [|destruct P]. cbn in P. apply IHasub. tauto.
Qed.

(** ---- Node.save ---- *)

Lemma node_get_set_idx1 : forall d i r, node_get (set_idx1 d i) r = node_get d r.
Proof. reflexivity. Qed.

Lemma asave_keep : forall t H b anc d r, ~ In r (new_refs H b t) ->
  node_get (asave H b anc t d) r = node_get d r.
Proof.
  induction t as [p k v|p k h s l IHl rt IHr]; intros H b anc d r N.
  - destruct p; cbn; [reflexivity|]. unfold node_get. cbn.
    apply aget_aput_other; [exact nref_eqb_eq|]. intros E. apply N. cbn. auto.
  - destruct p; cbn [asave annot]; [reflexivity|]. cbn [new_refs annot] in N.
    unfold node_get at 1. cbn [nodes set_nodes].
    rewrite aget_aput_other; [|exact nref_eqb_eq|intros E; apply N; cbn; auto].
    fold (node_get (asave H false (new_ref H b (ANode None k h s l rt) :: anc) rt
                     (asave H false (new_ref H b (ANode None k h s l rt) :: anc) l d)) r).
    rewrite IHr; [|intros I; apply N; cbn; right; apply in_or_app; auto].
    apply IHl. intros I. apply N. cbn. right. apply in_or_app. auto.
Qed.

Lemma asave_present : forall t H b anc d,
  NoDup (arefs (stamp H b t)) -> aok t ->
  (forall x, asub x t -> annot x <> None -> apresent d x) ->
  apresent (asave H b anc t d) (stamp H b t).
Proof.
  induction t as [p k v|p k h s l IHl rt IHr]; intros H b anc d ND OK P.
  - destruct p as [r0|]; cbn.
    + apply (P (ALeaf (Some r0) k v)); [apply asub_refl|cbn; congruence].
    + unfold node_get. cbn. apply aget_aput_same. exact nref_eqb_eq.
  - destruct p as [r0|]; cbn [asave stamp annot].
    + apply (P (ANode (Some r0) k h s l rt)); [apply asub_refl|cbn; congruence].
    + set (me := new_ref H b (ANode None k h s l rt)) in *.
      cbn [stamp annot] in ND. fold me in ND. rewrite arefs_node in ND. cbn [oref annot app] in ND.
      inversion ND as [|x xs Hme ND']; subst x xs.
      assert (NDl : NoDup (arefs (stamp H false l))).
      { clear - ND'. induction (arefs (stamp H false l)) as [|a q IH]; [constructor|].
        cbn in ND'. inversion ND'; subst. constructor; [intros I; apply H2; apply in_or_app; auto|auto]. }
      assert (NDr : NoDup (arefs (stamp H false rt))).
      { clear - ND'. induction (arefs (stamp H false l)) as [|a q IH]; [exact ND'|].
        cbn in ND'. inversion ND'; subst. auto. }
      assert (DJ : forall r1, In r1 (arefs (stamp H false l)) -> In r1 (arefs (stamp H false rt)) -> False).
      { clear - ND'. induction (arefs (stamp H false l)) as [|a q IH]; intros r1 I1 I2; [destruct I1|].
        cbn in ND'. inversion ND'; subst. destruct I1 as [I1|I1].
        - subst. apply H2. apply in_or_app. auto.
        - eapply IH; eauto. }
      set (d1 := asave H false (me :: anc) l d).
      set (d2 := asave H false (me :: anc) rt d1).
      assert (P1 : apresent d1 (stamp H false l)).
      { apply IHl; [exact NDl|eapply aok_l; eauto|]. intros x Hx A. apply P; [apply asub_l; exact Hx|exact A]. }
      assert (P2 : apresent d2 (stamp H false rt)).
      { apply IHr; [exact NDr|eapply aok_r; eauto|]. intros x Hx A.
        eapply apresent_keep; [apply P; [apply asub_r; exact Hx|exact A]|].
        intros r1 I. unfold d1. apply asave_keep. intros I2.
        apply (DJ r1); [apply new_refs_arefs; exact I2|].
        eapply arefs_sub; [|exact I]. apply stamp_keeps; assumption. }
      cbn [apresent]. split; [|split].
      * unfold node_get. cbn [nodes set_nodes]. rewrite aget_aput_same by exact nref_eqb_eq.
        rewrite !aref_stamp. reflexivity.
      * eapply apresent_keep; [exact P1|]. intros r1 I.
        unfold node_get at 1. cbn [nodes set_nodes].
        rewrite aget_aput_other; [|exact nref_eqb_eq|].
        -- fold (node_get d2 r1). unfold d2. apply asave_keep. intros I2.
           apply (DJ r1); [exact I|apply new_refs_arefs; exact I2].
        -- intros E. apply Hme. subst r1. apply in_or_app. auto.
      * eapply apresent_keep; [exact P2|]. intros r1 I.
        unfold node_get at 1. cbn [nodes set_nodes].
        rewrite aget_aput_other; [reflexivity|exact nref_eqb_eq|].
        intros E. apply Hme. subst r1. apply in_or_app. auto.
Qed.

(** ---- the index entries written by Node.save ---- *)

Definition akeys (t : atree) : list bytes := map lkey (aleaves t).

Fixpoint new_entries (H : Z) (isroot : bool) (anc : list nref) (t : atree) : list (ikey * list nref) :=
  match annot t with
  | Some _ => []
  | None =>
      let me := new_ref H isroot t in
      match t with
      | ALeaf _ k v => [((k, H, me), anc)]
      | ANode _ _ _ _ l r => new_entries H false (me :: anc) l ++ new_entries H false (me :: anc) r
      end
  end.

Lemma asave_fields : forall t H b anc d,
  idx2 (asave H b anc t d) = idx2 d /\ rootrec (asave H b anc t d) = rootrec d /\
  maxh (asave H b anc t d) = maxh d /\ sech (asave H b anc t d) = sech d.
Proof.
  induction t as [p k v|p k h s l IHl r IHr]; intros H b anc d.
  - destruct p; cbn; auto.
  - destruct p; cbn [asave annot]; [auto|]. cbn [set_nodes idx2 rootrec maxh sech].
    destruct (IHr H false (new_ref H b (ANode None k h s l r) :: anc)
                (asave H false (new_ref H b (ANode None k h s l r) :: anc) l d)) as [A [B [C D]]].
    destruct (IHl H false (new_ref H b (ANode None k h s l r) :: anc) d) as [A' [B' [C' D']]].
    rewrite A, B, C, D. auto.
Qed.

Lemma asave_idx1 : forall t H b anc d e,
  In e (idx1 (asave H b anc t d)) -> In e (idx1 d) \/ In e (new_entries H b anc t).
Proof.
  induction t as [p k v|p k h s l IHl r IHr]; intros H b anc d e I.
  - destruct p; [cbn in *; auto|]. cbn [asave annot set_idx1 idx1 new_entries] in *.
    apply in_aput in I. destruct I as [I|I]; [right; cbn; auto|left; exact I].
  - destruct p; cbn [asave annot new_entries] in *; [auto|]. cbn [set_nodes idx1] in I.
    apply IHr in I. destruct I as [I|I]; [|right; apply in_or_app; auto].
    apply IHl in I. destruct I as [I|I]; [left; exact I|right; apply in_or_app; auto].
Qed.

Lemma akeys_stamp : forall t H b, akeys (stamp H b t) = akeys t.
Proof.
  unfold akeys. induction t as [p k v|p k h s l IHl r IHr]; intros H b.
  - destruct p; reflexivity.
  - destruct p; cbn; [reflexivity|]. rewrite !map_app, IHl, IHr. reflexivity.
Qed.

Lemma akeys_node : forall p k h s l r, akeys (ANode p k h s l r) = akeys l ++ akeys r.
Proof. intros. unfold akeys. cbn. apply map_app. Qed.

(** every new entry: height [H]; leaf and ancestors (up to the given [anc]) are
    new refs, each the key of a node of the stamped tree that covers the entry's key;
    the key is the key of a new leaf object *)
Lemma new_entries_spec : forall t H b anc e, In e (new_entries H b anc t) ->
  ik_height e = H /\
  (exists v, In (ik_key e, v, None) (aleaves t)) /\
  exists path, snd e = path ++ anc /\
    forall r, In r (ik_leaf e :: path) ->
      In r (new_refs H b t) /\
      exists x, asub x (stamp H b t) /\ annot x = Some r /\ In (ik_key e) (akeys x).
Proof.
  induction t as [p k v|p k h s l IHl rt IHr]; intros H b anc e I.
  - destruct p; cbn in I; [destruct I|]. destruct I as [I|[]]. subst e. cbn.
    split; [reflexivity|]. split; [exists v; auto|]. exists []. split; [reflexivity|].
    intros r [R|[]]. subst r. split; [auto|].
    eexists. split; [apply asub_refl|]. split; [reflexivity|]. cbn. auto.
  - destruct p; cbn [new_entries annot] in I; [destruct I|].
    set (me := new_ref H b (ANode None k h s l rt)) in *.
    assert (G : forall c, (c = l \/ c = rt) -> In e (new_entries H false (me :: anc) c) ->
              (forall y, asub y (stamp H false c) -> asub y (stamp H b (ANode None k h s l rt))) ->
              (forall r, In r (new_refs H false c) -> In r (new_refs H b (ANode None k h s l rt))) ->
              (forall x, In x (aleaves c) -> In x (aleaves (ANode None k h s l rt))) ->
              (forall kk, In kk (akeys (stamp H false c)) -> In kk (akeys (stamp H b (ANode None k h s l rt)))) ->
              (forall e0, In e0 (new_entries H false (me :: anc) c) ->
                 ik_height e0 = H /\ (exists v0, In (ik_key e0, v0, None) (aleaves c)) /\
                 exists path, snd e0 = path ++ me :: anc /\
                   forall r, In r (ik_leaf e0 :: path) -> In r (new_refs H false c) /\
                     exists x, asub x (stamp H false c) /\ annot x = Some r /\ In (ik_key e0) (akeys x)) ->
              ik_height e = H /\ (exists v0, In (ik_key e, v0, None) (aleaves (ANode None k h s l rt))) /\
              exists path, snd e = path ++ anc /\
                forall r, In r (ik_leaf e :: path) ->
                  In r (new_refs H b (ANode None k h s l rt)) /\
                  exists x, asub x (stamp H b (ANode None k h s l rt)) /\ annot x = Some r /\ In (ik_key e) (akeys x)).
    { intros c _ Ie Sub NR AL AK IH.
      destruct (IH e Ie) as [Hh [[v0 Hv] [path [Hp Hr]]]].
      split; [exact Hh|]. split; [exists v0; apply AL; exact Hv|].
      exists (path ++ [me]). split; [rewrite Hp, <- app_assoc; reflexivity|].
      intros r Ir.
      assert (Ir' : In r (ik_leaf e :: path) \/ r = me).
      { destruct Ir as [Ir|Ir]; [left; cbn; auto|]. apply in_app_or in Ir.
        destruct Ir as [Ir|[Ir|[]]]; [left; cbn; auto|right; auto]. }
      destruct Ir' as [Ir'|Ir'].
      - destruct (Hr r Ir') as [N [x [Sx [Ax Kx]]]]. split; [apply NR; exact N|].
        exists x. split; [apply Sub; exact Sx|]. split; [exact Ax|exact Kx].
      - subst r. split; [cbn; auto|].
        exists (stamp H b (ANode None k h s l rt)). split; [apply asub_refl|]. split; [reflexivity|].
        apply AK. destruct (Hr (ik_leaf e) (or_introl eq_refl)) as [_ [x [Sx [_ Kx]]]].
        unfold akeys in *. apply in_map_iff in Kx. destruct Kx as [lf [E Il]].
        apply in_map_iff. exists lf. split; [exact E|]. eapply aleaves_sub; eauto. }
    apply in_app_or in I. destruct I as [I|I].
    + apply (G l).
      * left; reflexivity.
      * exact I.
      * intros y Hy. cbn. apply asub_l. exact Hy.
      * intros r Hr. cbn. right. apply in_or_app. auto.
      * intros x Hx. cbn. apply in_or_app. auto.
      * intros kk Hk. cbn [stamp annot]. rewrite akeys_node. apply in_or_app. auto.
      * intros e0 I0. apply IHl. exact I0.
    + apply (G rt).
      * right; reflexivity.
      * exact I.
      * intros y Hy. cbn. apply asub_r. exact Hy.
      * intros r Hr. cbn. right. apply in_or_app. auto.
      * intros x Hx. cbn. apply in_or_app. auto.
      * intros kk Hk. cbn [stamp annot]. rewrite akeys_node. apply in_or_app. auto.
      * intros e0 I0. apply IHr. exact I0.
Qed.
