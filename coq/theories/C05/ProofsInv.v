(** C05 — the invariant of linear histories with fresh roots, and why a
    pruning run keeps every version of the retained interval. *)
From Coq Require Import List ZArith NArith Bool Lia.
From C33 Require Import C01.Keys C01.KeysFacts C01.Model C01.Spec C01.Store C01.Inv C01.Proofs C01.ProofsStore
  C05.Model C05.Spec C05.Hist C05.ProofsErase C05.ProofsTree C05.ProofsHash C05.ProofsSave
  C05.ProofsPrune C05.ProofsRead C05.ProofsSetAll C05.ProofsAux.
Import ListNotations.
Open Scope Z_scope.

(** proof-level record of a commit: the stamped tree it saved, the database
    keys it created, the keys it wrote *)
Record lcommit := mk_lc { lc_tree : oatree; lc_new : list nref; lc_keys : list bytes }.

Definition oroot (o : oatree) : option hash :=
  match o with None => None | Some t => Some (snd (aref t)) end.

Definition wf_tree (o : oatree) : Prop :=
  match o with
  | None => True
  | Some t => afull t /\ wella t /\ ordered (erase t) /\ sized (erase t) /\ fst (aref t) = None
  end.

Definition orefs (o : oatree) : list nref := match o with None => [] | Some t => arefs t end.
Definition opresent (d : pdb) (o : oatree) : Prop := match o with None => True | Some t => apresent d t end.

Record HInv (acs : list acommit) (roots : list (option hash)) (L : list lcommit) : Prop := {
  h_len : length L = length acs /\ length roots = length acs;
  h_mono : forall i j, (i < j)%nat -> (j < length acs)%nat -> height_of acs i < height_of acs j;
  h_nonneg : forall i, (i < length acs)%nat -> 0 <= height_of acs i;
  h_tree : forall i lc, nth_error L i = Some lc ->
      nth_error roots i = Some (oroot (lc_tree lc)) /\ wf_tree (lc_tree lc) /\
      o_elements (oterase (lc_tree lc)) = state_of acs (Some i);
  h_refs : forall j lc r, nth_error L j = Some lc -> In r (orefs (lc_tree lc)) ->
      exists i lci, (i <= j)%nat /\ nth_error L i = Some lci /\ In r (lc_new lci);
  h_shape : forall i lc r, nth_error L i = Some lc -> In r (lc_new lc) ->
      fst r = Some (height_of acs i) \/ (fst r = None /\ nth_error roots i = Some (Some (snd r)));
  h_disj : forall i j lci lcj r, nth_error L i = Some lci -> nth_error L j = Some lcj ->
      In r (lc_new lci) -> In r (lc_new lcj) -> i = j;
  h_sub : forall i j lci lcj x r, (i <= j)%nat -> nth_error L i = Some lci -> nth_error L j = Some lcj ->
      osub x (lc_tree lcj) -> annot x = Some r -> In r (lc_new lci) -> osub x (lc_tree lci);
  h_leaf : forall j lcj k v r, nth_error L j = Some lcj -> In (k, v, Some r) (oleaves (lc_tree lcj)) ->
      exists i lci, (i <= j)%nat /\ nth_error L i = Some lci /\ In r (lc_new lci) /\ In k (lc_keys lci) /\
        forall i' lc', (i < i')%nat -> (i' <= j)%nat -> nth_error L i' = Some lc' -> ~ In k (lc_keys lc') }.

Record DInv (c : cfg) (acs : list acommit) (L : list lcommit) (d : pdb) : Prop := {
  d_idx : forall e, In e (all_entries d) -> 0 <= ik_height e /\
      exists i lci, nth_error L i = Some lci /\ ik_height e = height_of acs i /\ In (ik_key e) (lc_keys lci) /\
        forall r, In r (version_refs e) -> In r (lc_new lci) /\
          exists x, osub x (lc_tree lci) /\ annot x = Some r /\ In (ik_key e) (akeys x);
  d_idx2 : forall e, In e (idx2 d) -> ik_height e + second_level c <= top_height acs;
  d_present : forall j lcj, nth_error L j = Some lcj ->
      top_height acs - prune_height c <= height_of acs j -> opresent d (lc_tree lcj);
  d_roots : forall rk u, In (rk, u) (rootrec d) -> exists i, (i < length acs)%nat /\ fst rk = height_of acs i }.

(** heights identify commits *)
Lemma height_lt_index : forall acs roots L i j, HInv acs roots L ->
  (i < length acs)%nat -> (j < length acs)%nat -> height_of acs i < height_of acs j -> (i < j)%nat.
Proof.
  intros acs roots L i j HI Li Lj Hh.
  destruct (Nat.lt_trichotomy i j) as [T|[T|T]]; [exact T|subst; lia|].
  pose proof (h_mono _ _ _ HI j i T Li). lia.
Qed.

Lemma height_le_index : forall acs roots L i j, HInv acs roots L ->
  (i < length acs)%nat -> (j < length acs)%nat -> height_of acs i <= height_of acs j -> (i <= j)%nat.
Proof.
  intros acs roots L i j HI Li Lj Hh.
  destruct (Nat.le_gt_cases i j) as [T|T]; [exact T|].
  pose proof (h_mono _ _ _ HI j i T Li). lia.
Qed.

Lemma nth_L_lt : forall acs roots L i lc, HInv acs roots L -> nth_error L i = Some lc -> (i < length acs)%nat.
Proof.
  intros acs roots L i lc HI E. destruct (h_len _ _ _ HI) as [E1 _]. rewrite <- E1.
  apply nth_error_Some. congruence.
Qed.

Lemma osub_leaves : forall x o e, osub x o -> In e (aleaves x) -> In e (oleaves o).
Proof. intros x [t|] e H I; cbn in *; [eapply aleaves_sub; eauto|destruct H]. Qed.

Lemma osub_refs : forall x o r, osub x o -> annot x = Some r -> In r (orefs o).
Proof. intros x [t|] r H A; cbn in *; [apply arefs_in; eauto|destruct H]. Qed.

Lemma orefs_sub : forall o r, In r (orefs o) -> exists x, osub x o /\ annot x = Some r.
Proof. intros [t|] r I; cbn in *; [apply arefs_in; exact I|destruct I]. Qed.

Lemma wf_nodup : forall t, wf_tree (Some t) -> NoDup (arefs t).
Proof. intros t [F [W [O _]]]. apply arefs_nodup; assumption. Qed.

Lemma afull_leaf_some : forall t k v p, afull t -> In (k, v, p) (aleaves t) -> exists r, p = Some r.
Proof.
  intros t k v p F I. apply aleaves_in_sub in I. apply F in I. cbn in I.
  destruct p as [r|]; [eauto|congruence].
Qed.

(** THE SAFETY ARGUMENT: a ref of a version inside the retained interval is
    never listed by an entry that has a newer, old enough entry of the same key *)
Lemma retained_refs_safe : forall c acs roots L d cur j lcj r,
  HInv acs roots L -> DInv c acs L d ->
  0 < prune_height c -> prune_height c <= second_level c -> cur <= top_height acs ->
  nth_error L j = Some lcj -> top_height acs - prune_height c <= height_of acs j ->
  In r (orefs (lc_tree lcj)) -> safe_ref c cur d r.
Proof.
  intros c acs roots L d cur j lcj r HI DI PH0 PH2 CUR Ej Wj Ir e e0 Ie Ire EV K HL.
  assert (Ie0 : In e0 (all_entries d)).
  { unfold all_entries. apply in_or_app. destruct EV as [[I _]|[[I _]|I]]; auto. }
  assert (Old : ik_height e0 <= top_height acs - prune_height c).
  { destruct EV as [[_ A]|[[_ A]|I]]; [lia|lia|]. pose proof (d_idx2 _ _ _ _ DI e0 I). lia. }
  destruct (d_idx _ _ _ _ DI e Ie) as [_ [i [lci [Ei [Hi [Ki Ri]]]]]].
  destruct (d_idx _ _ _ _ DI e0 Ie0) as [_ [m [lcm [Em [Hm [Km _]]]]]].
  destruct (Ri r Ire) as [Ni [xi [Sxi [Axi Kxi]]]].
  pose proof (nth_L_lt _ _ _ _ _ HI Ei) as Li.
  pose proof (nth_L_lt _ _ _ _ _ HI Em) as Lm.
  pose proof (nth_L_lt _ _ _ _ _ HI Ej) as Lj.
  assert (IM : (i < m)%nat) by (eapply height_lt_index; eauto; lia).
  assert (MJ : (m <= j)%nat) by (eapply height_le_index; eauto; lia).
  (* the node with ref r in version j is the same node object as in version i *)
  destruct (orefs_sub _ _ Ir) as [x [Sx Ax]].
  assert (Sxi' : osub x (lc_tree lci)) by (eapply (h_sub _ _ _ HI i j); eauto; lia).
  destruct (h_tree _ _ _ HI i lci Ei) as [_ [Wi _]].
  destruct (h_tree _ _ _ HI j lcj Ej) as [_ [Wfj _]].
  destruct (lc_tree lci) as [ti|] eqn:Ti; [|destruct Sxi].
  cbn [osub] in Sxi, Sxi'.
  assert (x = xi) by (eapply node_by_ref_unique; eauto; apply wf_nodup; exact Wi). subst xi.
  (* it covers the key: the key's leaf is shared by versions i and j *)
  unfold akeys in Kxi. apply in_map_iff in Kxi. destruct Kxi as [[[k v] p] [Ek Il]]. cbn in Ek.
  destruct Wi as [Fi _].
  assert (Ili : In (k, v, p) (aleaves ti)) by (eapply aleaves_sub; eauto).
  destruct (afull_leaf_some _ _ _ _ Fi Ili) as [lf Ep]. subst p.
  assert (Ilj : In (k, v, Some lf) (oleaves (lc_tree lcj))) by (eapply osub_leaves; eauto).
  destruct (h_leaf _ _ _ HI j lcj k v lf Ej Ilj) as [a [lca [Aj [Ea [Na [Ka NLa]]]]]].
  assert (Ili' : In (k, v, Some lf) (oleaves (lc_tree lci))) by (rewrite Ti; exact Ili).
  destruct (h_leaf _ _ _ HI i lci k v lf Ei Ili') as [b [lcb [Bi [Eb [Nb [Kb _]]]]]].
  assert (a = b) by (eapply (h_disj _ _ _ HI a b); eauto). subst b.
  (* commit m wrote the key after commit a and not later than j *)
  apply (NLa m lcm); [lia|exact MJ|exact Em|]. rewrite Ek, <- K. exact Km.
Qed.

Theorem dinv_prune : forall c acs roots L d cur,
  HInv acs roots L -> DInv c acs L d ->
  0 < prune_height c -> prune_height c <= second_level c -> cur <= top_height acs ->
  DInv c acs L (pruning_tree c cur d).
Proof.
  intros c acs roots L d cur HI DI PH0 PH2 CUR. constructor.
  - intros e Ie. apply pruning_entries in Ie. apply (d_idx _ _ _ _ DI). exact Ie.
  - intros e Ie. apply pruning_idx2 in Ie. destruct Ie as [Ie|[Ie A]]; [apply (d_idx2 _ _ _ _ DI); exact Ie|lia].
  - intros j lcj Ej Wj. pose proof (d_present _ _ _ _ DI j lcj Ej Wj) as P.
    destruct (lc_tree lcj) as [t|] eqn:T; [|exact I]. cbn [opresent] in *.
    eapply apresent_keep; [exact P|]. intros r Ir.
    apply pruning_keep.
    + intros e Ie. apply (d_idx _ _ _ _ DI). exact Ie.
    + eapply retained_refs_safe; eauto. rewrite T. exact Ir.
  - intros rk u Ir. destruct (pruning_fields c cur d) as [E _]. rewrite E in Ir.
    eapply (d_roots _ _ _ _ DI); eauto.
Qed.

(** ---- extending the history by one commit ---- *)

Lemma nth_app_cases : forall (A : Type) (l : list A) a j x, nth_error (l ++ [a]) j = Some x ->
  ((j < length l)%nat /\ nth_error l j = Some x) \/ (j = length l /\ x = a).
Proof.
  intros A l a j x E. destruct (Nat.lt_ge_cases j (length l)) as [T|T].
  - left. rewrite nth_error_app1 in E by exact T. auto.
  - right. rewrite nth_error_app2 in E by exact T.
    destruct (j - length l)%nat eqn:D; cbn in E.
    + inversion E. split; [lia|reflexivity].
    + destruct n; discriminate.
Qed.

Lemma nth_app_old : forall (A : Type) (l : list A) a j x, nth_error l j = Some x -> nth_error (l ++ [a]) j = Some x.
Proof. intros. rewrite nth_error_app1; [assumption|]. apply nth_error_Some. congruence. Qed.

Lemma nth_app_new : forall (A : Type) (l : list A) a, nth_error (l ++ [a]) (length l) = Some a.
Proof. intros. rewrite nth_error_app2 by lia. rewrite Nat.sub_diag. reflexivity. Qed.

(** the parent version of a linear history: the last commit's tree *)
Definition is_parent (L : list lcommit) (P : oatree) : Prop :=
  P = None \/ exists lc, nth_error L (pred (length L)) = Some lc /\ lc_tree lc = P /\ (0 < length L)%nat.

Section Extend.
  Variables (acs : list acommit) (roots : list (option hash)) (L : list lcommit).
  Variables (ac : acommit) (P Sn : oatree) (Nn : list nref) (Kn : list bytes).
  Hypothesis HI : HInv acs roots L.
  Hypothesis HP : is_parent L P.
  Let H := ac_height ac.
  Let lc := mk_lc Sn Nn Kn.
  Hypothesis C1 : forall i, (i < length acs)%nat -> height_of acs i < H.
  Hypothesis C1' : 0 <= H.
  Hypothesis C2 : wf_tree Sn /\ o_elements (oterase Sn) = ac_state ac.
  Hypothesis C3 : forall r, In r (orefs Sn) -> In r Nn \/ In r (orefs P).
  Hypothesis C4 : forall r, In r Nn -> fst r = Some H \/ (fst r = None /\ oroot Sn = Some (snd r)).
  Hypothesis C5 : forall r i, In r Nn -> fst r = None -> nth_error roots i <> Some (Some (snd r)).
  Hypothesis C6 : forall x r, osub x Sn -> annot x = Some r -> In r Nn \/ osub x P.
  Hypothesis C7 : forall k v r, In (k, v, Some r) (oleaves Sn) ->
      (In r Nn /\ In k Kn) \/ (In (k, v, Some r) (oleaves P) /\ ~ In k Kn).

  Let n := length acs.

  Lemma ext_len : length L = n /\ length roots = n.
  Proof. exact (h_len _ _ _ HI). Qed.

  Lemma new_old_disjoint : forall i lci r, nth_error L i = Some lci -> In r (lc_new lci) -> In r Nn -> False.
  Proof.
    intros i lci r Ei Ni Nr.
    pose proof (nth_L_lt _ _ _ _ _ HI Ei) as Li.
    destruct (h_shape _ _ _ HI i lci r Ei Ni) as [S1|[S1 R1]]; destruct (C4 r Nr) as [S2|[S2 R2]].
    - rewrite S1 in S2. inversion S2. specialize (C1 i Li). lia.
    - congruence.
    - congruence.
    - apply (C5 r i Nr S2). exact R1.
  Qed.

  Lemma parent_index : forall x, osub x P -> exists lcp, nth_error L (pred n) = Some lcp /\ lc_tree lcp = P /\ (0 < n)%nat.
  Proof.
    intros x Hx. destruct HP as [E|[lcp [E1 [E2 E3]]]].
    - subst P. destruct Hx.
    - destruct ext_len as [EL _]. rewrite EL in *. eauto.
  Qed.

  Lemma parent_index_refs : forall r, In r (orefs P) -> exists lcp, nth_error L (pred n) = Some lcp /\ lc_tree lcp = P /\ (0 < n)%nat.
  Proof. intros r I. destruct (orefs_sub _ _ I) as [x [Hx _]]. eapply parent_index; eauto. Qed.

  Lemma parent_index_leaves : forall e, In e (oleaves P) -> exists lcp, nth_error L (pred n) = Some lcp /\ lc_tree lcp = P /\ (0 < n)%nat.
  Proof.
    intros e I. destruct HP as [E|[lcp [E1 [E2 E3]]]].
    - subst P. destruct I.
    - destruct ext_len as [EL _]. rewrite EL in *. eauto.
  Qed.

  Theorem hinv_extend : HInv (acs ++ [ac]) (roots ++ [oroot Sn]) (L ++ [lc]).
  Proof.
    destruct ext_len as [EL ER].
    constructor.
    - rewrite !app_length. cbn. lia.
    - intros i j IJ Lj. rewrite app_length in Lj. cbn in Lj.
      destruct (Nat.eq_dec j n) as [E|NE].
      + subst j. unfold n. rewrite height_of_app_new. rewrite height_of_app_old by (fold n; lia). apply C1. fold n. lia.
      + rewrite !height_of_app_old by (fold n; lia). apply (h_mono _ _ _ HI); [exact IJ|fold n; lia].
    - intros i Li. rewrite app_length in Li. cbn in Li.
      destruct (Nat.eq_dec i n) as [E|NE].
      + subst i. unfold n. rewrite height_of_app_new. exact C1'.
      + rewrite height_of_app_old by (fold n; lia). apply (h_nonneg _ _ _ HI). fold n. lia.
    - intros i lci Ei. apply nth_app_cases in Ei. destruct Ei as [[Li Ei]|[Ei El]].
      + destruct (h_tree _ _ _ HI i lci Ei) as [A [B C]].
        split; [rewrite nth_error_app1 by lia; exact A|]. split; [exact B|].
        rewrite state_of_app_old by lia. exact C.
      + subst i lci. rewrite EL. split; [rewrite <- ER; apply nth_app_new|].
        destruct C2 as [A B]. split; [exact A|]. unfold n. rewrite state_of_app_new. exact B.
    - intros j lcj r Ej Ir. apply nth_app_cases in Ej. destruct Ej as [[Lj Ej]|[Ej El]].
      + destruct (h_refs _ _ _ HI j lcj r Ej Ir) as [i [lci [IJ [Ei Ni]]]].
        exists i, lci. split; [exact IJ|]. split; [apply nth_app_old; exact Ei|exact Ni].
      + subst j lcj. cbn [lc_tree lc] in Ir. destruct (C3 r Ir) as [Nr|Pr].
        * exists (length L), lc. split; [lia|]. split; [apply nth_app_new|exact Nr].
        * destruct (parent_index_refs r Pr) as [lcp [Ep [Tp Np]]].
          rewrite <- Tp in Pr. destruct (h_refs _ _ _ HI _ lcp r Ep Pr) as [i [lci [IJ [Ei Ni]]]].
          exists i, lci. split; [lia|]. split; [apply nth_app_old; exact Ei|exact Ni].
    - intros i lci r Ei Ni. apply nth_app_cases in Ei. destruct Ei as [[Li Ei]|[Ei El]].
      + rewrite height_of_app_old by lia. rewrite nth_error_app1 by lia.
        apply (h_shape _ _ _ HI i lci r Ei Ni).
      + subst i lci. cbn [lc_new lc] in Ni. rewrite EL. unfold n. rewrite height_of_app_new.
        destruct (C4 r Ni) as [A|[A B]]; [left; exact A|right]. split; [exact A|].
        unfold n in ER. rewrite <- ER. rewrite nth_app_new. rewrite B. reflexivity.
    - intros i j lci lcj r Ei Ej Ni Nj.
      apply nth_app_cases in Ei. apply nth_app_cases in Ej.
      destruct Ei as [[Li Ei]|[Ei Eli]]; destruct Ej as [[Lj Ej]|[Ej Elj]].
      + eapply (h_disj _ _ _ HI); eauto.
      + subst j lcj. exfalso. eapply new_old_disjoint; eauto.
      + subst i lci. exfalso. eapply new_old_disjoint; eauto.
      + congruence.
    - intros i j lci lcj x r IJ Ei Ej Sx Ax Ni.
      apply nth_app_cases in Ei. apply nth_app_cases in Ej.
      destruct Ei as [[Li Ei]|[Ei Eli]]; destruct Ej as [[Lj Ej]|[Ej Elj]].
      + eapply (h_sub _ _ _ HI i j); eauto.
      + subst j lcj. cbn [lc_tree lc] in Sx. destruct (C6 x r Sx Ax) as [Nr|Px].
        * exfalso. eapply new_old_disjoint; eauto.
        * destruct (parent_index x Px) as [lcp [Ep [Tp Np]]]. rewrite <- Tp in Px.
          eapply (h_sub _ _ _ HI i (pred n)); eauto. lia.
      + subst i lci. lia.
      + subst i j lci lcj. exact Sx.
    - intros j lcj k v r Ej Il. apply nth_app_cases in Ej. destruct Ej as [[Lj Ej]|[Ej El]].
      + destruct (h_leaf _ _ _ HI j lcj k v r Ej Il) as [i [lci [IJ [Ei [Ni [Ki NL]]]]]].
        exists i, lci. split; [exact IJ|]. split; [apply nth_app_old; exact Ei|]. split; [exact Ni|]. split; [exact Ki|].
        intros i' lc' I1 I2 E'. apply nth_app_cases in E'. destruct E' as [[L' E']|[E' _]]; [|lia].
        eapply NL; eauto.
      + subst j lcj. cbn [lc_tree lc] in Il. destruct (C7 k v r Il) as [[Nr Kr]|[Pl NK]].
        * exists (length L), lc. split; [lia|]. split; [apply nth_app_new|]. split; [exact Nr|]. split; [exact Kr|].
          intros i' lc' I1 I2 _. lia.
        * destruct (parent_index_leaves _ Pl) as [lcp [Ep [Tp Np]]]. rewrite <- Tp in Pl.
          destruct (h_leaf _ _ _ HI _ lcp k v r Ep Pl) as [i [lci [IJ [Ei [Ni [Ki NL]]]]]].
          exists i, lci. split; [lia|]. split; [apply nth_app_old; exact Ei|]. split; [exact Ni|]. split; [exact Ki|].
          intros i' lc' I1 I2 E'. apply nth_app_cases in E'. destruct E' as [[L' E']|[E' El']].
          -- eapply NL; eauto. lia.
          -- subst lc'. cbn [lc_keys lc]. exact NK.
  Qed.
End Extend.

Section ExtendDb.
  Variables (c : cfg) (acs : list acommit) (roots : list (option hash)) (L : list lcommit).
  Variables (ac : acommit) (Sn : oatree) (Nn : list nref) (Kn : list bytes) (d d' : pdb).
  Hypothesis HI : HInv acs roots L.
  Hypothesis DI : DInv c acs L d.
  Let H := ac_height ac.
  Let lc := mk_lc Sn Nn Kn.
  Hypothesis HI' : HInv (acs ++ [ac]) (roots ++ [oroot Sn]) (L ++ [lc]).
  Hypothesis E1 : forall e, In e (all_entries d') -> In e (all_entries d) \/
      (0 <= ik_height e /\ ik_height e = H /\ In (ik_key e) Kn /\
       forall r, In r (version_refs e) -> In r Nn /\
         exists x, osub x Sn /\ annot x = Some r /\ In (ik_key e) (akeys x)).
  Hypothesis E2 : idx2 d' = idx2 d.
  Hypothesis E3a : opresent d' Sn.
  Hypothesis E3b : forall r, ~ In r Nn -> node_get d' r = node_get d r.
  Hypothesis E4 : forall rk u, In (rk, u) (rootrec d') -> In (rk, u) (rootrec d) \/ fst rk = H.

  Theorem dinv_extend : DInv c (acs ++ [ac]) (L ++ [lc]) d'.
  Proof.
    destruct (h_len _ _ _ HI) as [EL ER].
    assert (TOP : top_height acs <= top_height (acs ++ [ac])) by (rewrite top_height_app; lia).
    constructor.
    - intros e Ie. destruct (E1 e Ie) as [Io|[A [B [C D]]]].
      + destruct (d_idx _ _ _ _ DI e Io) as [A [i [lci [Ei [Hi [Ki Ri]]]]]].
        split; [exact A|]. exists i, lci. split; [apply nth_app_old; exact Ei|].
        split; [rewrite height_of_app_old by (eapply nth_L_lt; eauto); exact Hi|].
        split; [exact Ki|exact Ri].
      + split; [exact A|]. exists (length L), lc. split; [apply nth_app_new|].
        split; [rewrite EL, height_of_app_new; exact B|]. split; [exact C|exact D].
    - intros e Ie. rewrite E2 in Ie. pose proof (d_idx2 _ _ _ _ DI e Ie). lia.
    - intros j lcj Ej Wj. apply nth_app_cases in Ej. destruct Ej as [[Lj Ej]|[Ej El]].
      + rewrite height_of_app_old in Wj by lia.
        assert (P : opresent d (lc_tree lcj)) by (apply (d_present _ _ _ _ DI j lcj Ej); lia).
        destruct (lc_tree lcj) as [t|] eqn:T; [|exact I]. cbn [opresent] in *.
        eapply apresent_keep; [exact P|]. intros r Ir. apply E3b. intros Nr.
        assert (Ir' : In r (orefs (lc_tree lcj))) by (rewrite T; exact Ir).
        destruct (h_refs _ _ _ HI j lcj r Ej Ir') as [i [lci [IJ [Ei Ni]]]].
        assert (i = length L).
        { eapply (h_disj _ _ _ HI' i (length L) lci lc r); [apply nth_app_old; exact Ei|apply nth_app_new|exact Ni|exact Nr]. }
        lia.
      + subst lcj. exact E3a.
    - intros rk u Ir. destruct (E4 rk u Ir) as [Io|En].
      + destruct (d_roots _ _ _ _ DI rk u Io) as [i [Li Hi]]. exists i. rewrite app_length. cbn.
        split; [lia|]. rewrite height_of_app_old by exact Li. exact Hi.
      + exists (length acs). rewrite app_length. cbn. split; [lia|]. rewrite height_of_app_new. exact En.
  Qed.
End ExtendDb.
