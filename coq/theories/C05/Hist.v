(** C05 — histories at model level: the statement of the property.
    (Definitions only; depends on Model and Spec.) *)
From Coq Require Import List ZArith NArith Bool.
From C33 Require Import C01.Keys C01.Spec C01.Store C05.Model C05.Spec.
Import ListNotations.
Open Scope Z_scope.

Inductive mop :=
| MCommit (H : Z) (parent : option nat) (memset : bool) (kvs : list (bytes * bytes))
| MPrune (cur : Z).

Record mstate := mk_mstate {
  ms_db : pdb;
  ms_roots : list (option hash);    (* the state root every commit returned *)
  ms_ac : list acommit;             (* the abstract history *)
  ms_failed : bool }.               (* some commit returned an error or panicked *)

Definition init_mstate : mstate := mk_mstate empty_pdb [] [] false.

Definition root_of (s : mstate) (p : option nat) : option hash :=
  match p with
  | None => None
  | Some i => match nth_error (ms_roots s) i with Some r => r | None => None end
  end.

Definition mstep (c : cfg) (s : mstate) (o : mop) : mstate :=
  if ms_failed s then s else
  match o with
  | MPrune cur => mk_mstate (pruning_tree c cur (ms_db s)) (ms_roots s) (ms_ac s) false
  | MCommit H p memset kvs =>
      match (if memset then mem_set_commit else set_kv_pair) c (ms_db s) H (root_of s p) kvs with
      | COk d r => mk_mstate d (ms_roots s ++ [r]) (add_commit (ms_ac s) H p kvs) false
      | _ => mk_mstate (ms_db s) (ms_roots s) (ms_ac s) true
      end
  end.

Definition mrun (c : cfg) (ops : list mop) : mstate := fold_left (mstep c) ops init_mstate.

(** a read through the store at commit [i]: [None] = the read fails *)
Definition read_at (s : mstate) (i : nat) (k : bytes) : option (option bytes) :=
  match get_at_root (ms_db s) (root_of s (Some i)) k with
  | WFail => None
  | WAbsent => Some None
  | WFound _ v => Some (Some v)
  end.

(** every live commit reads its abstract state *)
Definition live_readable (c : cfg) (s : mstate) : Prop :=
  ms_failed s = false /\
  forall i k, In i (live (prune_height c) (ms_ac s)) -> read_at s i k = Some (expected (ms_ac s) i k).

(** histories the store can see: heights are block heights, a commit builds on
    a live commit (or on the empty state), pruning runs at a height up to the top *)
Definition op_valid (c : cfg) (s : mstate) (o : mop) : bool :=
  match o with
  | MCommit H p _ _ =>
      (0 <=? H) && (H <? 10000000000) &&
      match p with
      | None => true
      | Some i => existsb (Nat.eqb i) (live (prune_height c) (ms_ac s)) && (height_of (ms_ac s) i <? H)
      end
  | MPrune cur => (0 <=? cur) && (cur <=? top_height (ms_ac s))
  end.

Fixpoint ops_valid (c : cfg) (s : mstate) (ops : list mop) : bool :=
  match ops with
  | [] => true
  | o :: tl => op_valid c s o && ops_valid c (mstep c s o) tl
  end.

Definition cfg_valid (c : cfg) : bool :=
  (0 <? prune_height c) && (prune_height c <=? second_level c) && (0 <? third_level c).

(** THE PROPERTY at full strength *)
Definition C05_prune_keeps_live_full : Prop :=
  forall c ops, cfg_valid c = true -> ops_valid c init_mstate ops = true ->
    live_readable c (mrun c ops).

(** ---- the guard of the partial theorem (boolean, computed along the run) ----
    LINEAR: every commit builds on the previous one (no re-organisation);
    FRESH ROOTS: a commit that writes something produces a state root that no
    earlier commit of the history produced ("every block changes the state":
    no two heights share a root). *)
Definition onat_eqb (a b : option nat) : bool :=
  match a, b with
  | None, None => true
  | Some x, Some y => Nat.eqb x y
  | _, _ => false
  end.

Definition commit_result (c : cfg) (s : mstate) (H : Z) (p : option nat) (memset : bool)
  (kvs : list (bytes * bytes)) : cres :=
  (if memset then mem_set_commit else set_kv_pair) c (ms_db s) H (root_of s p) kvs.

Definition op_linear_fresh (c : cfg) (s : mstate) (o : mop) : bool :=
  match o with
  | MPrune _ => true
  | MCommit H p memset kvs =>
      onat_eqb p (tip_index (ms_ac s)) &&
      match kvs with
      | [] => true
      | _ => match commit_result c s H p memset kvs with
             | COk _ r => negb (existsb (root_eqb r) (ms_roots s))
             | _ => true
             end
      end
  end.

Fixpoint linear_fresh (c : cfg) (s : mstate) (ops : list mop) : bool :=
  match ops with
  | [] => true
  | o :: tl => op_linear_fresh c s o && linear_fresh c (mstep c s o) tl
  end.

(** THE PROPERTY under the guard *)
Definition C05_prune_keeps_live_guarded : Prop :=
  forall c ops, cfg_valid c = true -> ops_valid c init_mstate ops = true ->
    linear_fresh c init_mstate ops = true ->
    live_readable c (mrun c ops).

(** ---- the same guard on the INPUTS only: every writing commit produces an
    abstract state that no earlier commit of the history had (this implies a
    fresh root: equal roots have equal contents) ---- *)
Fixpoint smap_eqb (a b : smap) : bool :=
  match a, b with
  | [], [] => true
  | (k, v) :: a', (k', v') :: b' => beq k k' && beq v v' && smap_eqb a' b'
  | _, _ => false
  end.

Definition op_linear_changing (s : mstate) (o : mop) : bool :=
  match o with
  | MPrune _ => true
  | MCommit H p memset kvs =>
      onat_eqb p (tip_index (ms_ac s)) &&
      match kvs with
      | [] => true
      | _ => negb (existsb (fun a => smap_eqb (ac_state a) (apply_writes (state_of (ms_ac s) p) kvs)) (ms_ac s))
      end
  end.

Fixpoint linear_changing (c : cfg) (s : mstate) (ops : list mop) : bool :=
  match ops with
  | [] => true
  | o :: tl => op_linear_changing s o && linear_changing c (mstep c s o) tl
  end.

Definition C05_prune_keeps_live_changing : Prop :=
  forall c ops, cfg_valid c = true -> ops_valid c init_mstate ops = true ->
    linear_changing c init_mstate ops = true ->
    live_readable c (mrun c ops).
