(** C05 — correspondence cases: one case = one history of commits / pruning
    runs / restarts against the real node database, with everything the Go
    implementation returned.

    Layout: [keys] = probe universe (every key written is in it), [vals] =
    every value written; writes are index pairs.  After every commit and every
    pruning run the harness reads every key at every DISTINCT state root
    produced so far (row [i] = root id [i], ids in order of first appearance):
    code 0 = read failed (ErrNodeNotExist or a missing-node panic), 1 = key
    absent, 2+j = value [j]; and counts the database records by class.

    Two kinds of case: [Case] = the node database API (mavl/db) with its own
    TreeConfig; [SCase] = a store created by mavl.New from a sub-configuration
    (prefix switch, prune switch, pruneHeight), driven through Store.Set /
    MemSet+Commit / Get: the model resolves the configuration with
    [effective_cfg] (prune forces prefix) and reads through Store.Get, which
    returns nil for every key when the root does not load (code 1).

    model_agrees: statuses, root-id coincidences, record counts and every read
                  at every root (live or not) equal the model's.
    spec_holds:   the implementation's own reads at the LIVE commits (Spec.v)
                  return the abstract state's values, and commits on a live
                  parent succeed.
    kf_code:      at the first spec failure: 1 when some state root of the
                  history so far was written by commits of two different
                  heights (equal state roots), else 2 when an abandoned commit's index entries were
                  never removed (its height, at least PruneHeight below the tip's,
                  was not saved again afterwards, or its state is a single key
                  whose root leaf has no prefix); 3 when the failure is a commit
                  that panics at a height for which an earlier commit recorded a
                  root (DelLeafCountKV walks that old tree, which pruning has
                  legitimately thinned out). *)
From Coq Require Import List ZArith NArith Bool.
From C33 Require Import Lib.Harness C01.Keys C01.Spec C01.Store C05.Model C05.Spec.
Import ListNotations.
Open Scope Z_scope.

Inductive cnt := CN (n_nodes n_l1 n_l2 n_roots n_anc : N) (mx sec : Z).

(** [kvs] and [pr] arrive flat (one [hx] string each, one byte per number):
    key index, value index, ...  and the read codes row after row. *)
Inductive iop :=
| OC (h p : Z) (m : N) (kvs : list N) (st : N) (rid : Z) (c : cnt) (pr : list N)
| OP (cur : Z) (st : N) (c : cnt) (pr : list N)
| OR.

Fixpoint pairs_of (l : list N) : list (N * N) :=
  match l with
  | a :: b :: tl => (a, b) :: pairs_of tl
  | _ => []
  end.

Fixpoint chunks_aux (n fuel : nat) (l : list N) : list (list N) :=
  match fuel with
  | O => []
  | S f => match l with
           | [] => []
           | _ => firstn n l :: chunks_aux n f (skipn n l)
           end
  end.

Definition chunks (n : nat) (l : list N) : list (list N) :=
  match n with O => [] | _ => chunks_aux n (length l) l end.

(** the read matrix arrives as a delta against the previous operation's:
    chunks [root id; codes...] for the rows that are new or changed *)
Fixpoint set_row (rows : list (list N)) (i : nat) (row : list N) : list (list N) :=
  match rows, i with
  | [], O => [row]
  | [], S _ => []
  | _ :: tl, O => row :: tl
  | r :: tl, S j => r :: set_row tl j row
  end.

Definition apply_delta (nkeys : nat) (rows : list (list N)) (delta : list N) : list (list N) :=
  fold_left (fun rs ch => match ch with
                          | rid :: row => set_row rs (N.to_nat rid) row
                          | [] => rs
                          end) (chunks (S nkeys) delta) rows.

(** [Case]: the node database API (mavl/db) driven with the TreeConfig
    (prefix, prune, PruneHeight [ph]).
    [SCase]: a store created by mavl.New from the sub-configuration
    (enableMavlPrefix [prefix], enableMavlPrune [prune], pruneHeight [ph]) and
    driven through Store.Set / MemSet+Commit / Get: the model resolves the
    configuration with [effective_cfg]; reads go through Store.Get (a root that
    does not load reads "absent" for every key). *)
Inductive case :=
| Case (ph : Z) (keys vals : list bytes) (ops : list iop)
| SCase (prefix prune : bool) (ph : Z) (keys vals : list bytes) (ops : list iop).

Definition real_cfg (ph : Z) : cfg := mk_cfg ph 500000 1500000.

Definition nthb (l : list bytes) (i : N) : bytes := nth (N.to_nat i) l [].

Fixpoint all2 {A B} (f : A -> B -> bool) (a : list A) (b : list B) : bool :=
  match a, b with
  | [], [] => true
  | x :: a', y :: b' => f x y && all2 f a' b'
  | _, _ => false
  end.

(** ---- the model's side ---- *)

(** GetKVPair returns nil both for an absent key and for an empty value: an
    empty value reads as "absent" (code 1). *)
Definition code_of_value (vals : list bytes) (v : bytes) (code : N) : bool :=
  match v with
  | [] => (code =? 1)%N
  | _ => (2 <=? code)%N && Nat.ltb (N.to_nat (code - 2)) (length vals) && beq (nthb vals (code - 2)) v
  end.

Definition code_agrees (vals : list bytes) (w : wres) (code : N) : bool :=
  match w with
  | WFail => (code =? 0)%N
  | WAbsent => (code =? 1)%N
  | WFound _ v => code_of_value vals v code
  end.

(** [sm] = store mode: reads through Store.Get *)
Definition rows_agree (sm : bool) (d : pdb) (keys vals : list bytes) (mroots : list hash) (pr : list (list N)) : bool :=
  let rd := if sm then store_get_at_root else get_at_root in
  all2 (fun rh row => all2 (fun k code => code_agrees vals (rd d (Some rh) k) code) keys row) mroots pr.

Definition model_counts (d : pdb) : cnt :=
  CN (N.of_nat (length (nodes d))) (N.of_nat (length (idx1 d))) (N.of_nat (length (idx2 d)))
     (N.of_nat (length (rootrec d)))
     (N.of_nat (fold_left (fun n e => (n + length (snd e))%nat) (idx1 d ++ idx2 d) O))
     (maxh d) (sech d).

Definition cnt_eqb (a b : cnt) : bool :=
  match a, b with
  | CN a1 a2 a3 a4 a5 a6 a7, CN b1 b2 b3 b4 b5 b6 b7 =>
      (a1 =? b1)%N && (a2 =? b2)%N && (a3 =? b3)%N && (a4 =? b4)%N && (a5 =? b5)%N && (a6 =? b6) && (a7 =? b7)
  end.

(** ---- the spec's side ---- *)

Record cinfo := mk_cinfo {
  ci_root : option hash;    (* the model's root *)
  ci_rid : Z;               (* the implementation's root id; -1 = nil root *)
  ci_wrote : bool;          (* non-empty write set: new nodes were written *)
  ci_saved : bool;          (* Tree.Save ran on a non-empty tree *)
  ci_height : Z }.

Definition spec_code (vals : list bytes) (e : option bytes) (code : N) : bool :=
  match e with
  | None => (code =? 1)%N
  | Some v => code_of_value vals v code
  end.

(** reads of the implementation at commit [i] are the abstract state's *)
Definition commit_reads_ok (keys vals : list bytes) (cis : list cinfo) (acs : list acommit)
  (pr : list (list N)) (i : nat) : bool :=
  match nth_error cis i with
  | None => false
  | Some ci =>
      if ci_rid ci <? 0
      then forallb (fun k => match expected acs i k with None => true | Some _ => false end) keys
      else match nth_error pr (Z.to_nat (ci_rid ci)) with
           | None => false
           | Some row => all2 (fun k code => spec_code vals (expected acs i k) code) keys row
           end
  end.

Definition live_reads_ok (ph : Z) (keys vals : list bytes) (cis : list cinfo) (acs : list acommit)
  (pr : list (list N)) : bool :=
  forallb (commit_reads_ok keys vals cis acs pr) (live ph acs).

(** ---- signatures of the known findings (computed from the case itself) ---- *)

(** finding 1: a state root was written by commits of two different heights *)
Definition resaved (cis : list cinfo) (rid : Z) : bool :=
  existsb (fun a => existsb (fun b =>
    (ci_rid a =? rid) && (ci_rid b =? rid) && ci_wrote a && ci_wrote b && negb (ci_height a =? ci_height b)) cis) cis.

(** (the failing read need not be at that root: a re-written root record also
    redirects DelLeafCountKV's walk to the newer leaves, so older entries stay;
    a single-leaf root is kept as a child by later trees) *)
Definition sig_equal_roots (cis : list cinfo) : bool :=
  existsb (fun ci => (0 <=? ci_rid ci) && resaved cis (ci_rid ci)) cis.

(** finding 2: an abandoned commit that wrote nodes and whose index entries stay *)
Definition later_saved_at (cis : list cinfo) (from : nat) (h : Z) : bool :=
  existsb (fun ci => ci_saved ci && (ci_height ci =? h)) (skipn from cis).

Definition sig_stale_entries (ph : Z) (cis : list cinfo) (acs : list acommit) : bool :=
  let on_chain := chain acs in
  let tiph := top_height acs in
  existsb (fun a =>
    negb (existsb (Nat.eqb a) on_chain) &&
    match nth_error cis a with
    | None => false
    | Some ci =>
        ci_wrote ci && (ci_height ci + ph <=? tiph) &&
        (negb (later_saved_at cis (S a) (ci_height ci)) ||
         Nat.eqb (length (state_of acs (Some a))) 1)
    end) (seq 0 (length cis)).

(** ---- the fold over the history ---- *)

Record cst := mk_cst {
  c_db : pdb;
  c_ci : list cinfo;
  c_ac : list acommit;
  c_mroots : list hash;
  c_rows : list (list N);     (* the implementation's current read matrix *)
  c_agree : bool;
  c_spec : bool;
  c_kf : N }.

Definition classify (ph : Z) (keys vals : list bytes) (cis : list cinfo) (acs : list acommit)
  (pr : list (list N)) : N :=
  if sig_equal_roots cis then 1%N
  else if sig_stale_entries ph cis acs then 2%N else 0%N.

(** record a spec result; the finding is classified at the first failure only *)
Definition note_spec (s : cst) (ok : bool) (kf : N) : cst :=
  if c_spec s && negb ok
  then mk_cst (c_db s) (c_ci s) (c_ac s) (c_mroots s) (c_rows s) (c_agree s) false kf
  else s.

Definition set_agree (s : cst) (ok : bool) : cst :=
  mk_cst (c_db s) (c_ci s) (c_ac s) (c_mroots s) (c_rows s) (c_agree s && ok) (c_spec s) (c_kf s).

Definition set_rows (s : cst) (rows : list (list N)) : cst :=
  mk_cst (c_db s) (c_ci s) (c_ac s) (c_mroots s) rows (c_agree s) (c_spec s) (c_kf s).

Definition root_id_agrees (mroots : list hash) (r : option hash) (rid : Z) : bool * list hash :=
  match r with
  | None => (rid =? -1, mroots)
  | Some rh =>
      if rid <? 0 then (false, mroots) else
      match nth_error mroots (Z.to_nat rid) with
      | Some rh' => (heqb rh rh', mroots)
      | None => (Nat.eqb (Z.to_nat rid) (length mroots) && forallb (fun x => negb (heqb x rh)) mroots,
                 mroots ++ [rh])
      end
  end.

Definition step (sm : bool) (ph : Z) (keys vals : list bytes) (s : cst) (o : iop) : cst :=
  let c := real_cfg ph in
  match o with
  | OR => s
  | OP cur st ct prf =>
      let pr := apply_delta (length keys) (c_rows s) prf in
      let d' := pruning_tree c cur (c_db s) in
      let agree := (st =? 0)%N && cnt_eqb ct (model_counts d') && rows_agree sm d' keys vals (c_mroots s) pr in
      let s1 := mk_cst d' (c_ci s) (c_ac s) (c_mroots s) pr (c_agree s && agree) (c_spec s) (c_kf s) in
      let ok := (st =? 0)%N && live_reads_ok ph keys vals (c_ci s) (c_ac s) pr in
      note_spec s1 ok (classify ph keys vals (c_ci s) (c_ac s) pr)
  | OC h p m kvf st rid ct prf =>
      let pr := apply_delta (length keys) (c_rows s) prf in
      let kvs := pairs_of kvf in
      let pidx := if p <? 0 then None else Some (Z.to_nat p) in
      let pci := match pidx with None => None | Some i => nth_error (c_ci s) i end in
      let pvalid := match pidx, pci with Some _, None => false | _, _ => true end in
      let proot := match pci with Some ci => ci_root ci | None => None end in
      let kvb := map (fun kv => (nthb keys (fst kv), nthb vals (snd kv))) kvs in
      let res := if (m =? 1)%N then mem_set_commit c (c_db s) h proot kvb
                 else set_kv_pair c (c_db s) h proot kvb in
      let parent_live := match pidx with
                         | None => true
                         | Some i => existsb (Nat.eqb i) (live ph (c_ac s))
                         end in
      match res with
      | COk d' r =>
          let '(idok, mroots') := root_id_agrees (c_mroots s) r rid in
          let wrote := match kvs with [] => false | _ => true end in
          let saved := match r with None => false | Some _ => wrote || negb (m =? 1)%N end in
          let cis' := c_ci s ++ [mk_cinfo r rid wrote saved h] in
          let acs' := add_commit (c_ac s) h pidx kvb in
          let agree := pvalid && (st =? 0)%N && idok && cnt_eqb ct (model_counts d') &&
                       rows_agree sm d' keys vals mroots' pr in
          let s1 := mk_cst d' cis' acs' mroots' pr (c_agree s && agree) (c_spec s) (c_kf s) in
          let ok := (st =? 0)%N && live_reads_ok ph keys vals cis' acs' pr in
          note_spec s1 ok (classify ph keys vals cis' acs' pr)
      | CErr =>
          let agree := pvalid && (st =? 1)%N && cnt_eqb ct (model_counts (c_db s)) &&
                       rows_agree sm (c_db s) keys vals (c_mroots s) pr in
          note_spec (set_agree (set_rows s pr) agree) (negb parent_live)
                    (classify ph keys vals (c_ci s) (c_ac s) pr)
      | CPanic =>
          (* finding 3: the commit re-uses a height for which an earlier commit recorded a root *)
          let kf := if (st =? 2)%N && existsb (fun ci => ci_saved ci && (ci_height ci =? h)) (c_ci s)
                    then 3%N else classify ph keys vals (c_ci s) (c_ac s) pr in
          note_spec (set_agree (set_rows s pr) (pvalid && (st =? 2)%N)) (negb parent_live) kf
      end
  end.

Definition init_cst : cst := mk_cst empty_pdb [] [] [] [] true true 0%N.

Definition run_case (sm : bool) (ph : Z) (keys vals : list bytes) (ops : list iop) : verdict :=
  let s := fold_left (step sm ph keys vals) ops init_cst in
  (c_agree s, c_spec s, c_kf s).

(** the configurations the model covers: pruning on, prefixed node keys *)
Definition model_covers (t : tree_cfg) : bool := tc_prune t && tc_prefix t.

Definition check_case (c : case) : verdict :=
  match c with
  | Case ph keys vals ops => run_case false ph keys vals ops
  | SCase prefix prune ph keys vals ops =>
      let t := effective_cfg (mk_sub_cfg prefix prune ph) in
      if model_covers t then run_case true (tc_prune_height t) keys vals ops
      else (false, true, 0%N)        (* outside the model: never generated *)
  end.

(** per-operation trace (debugging aid for replays) *)
Fixpoint trace_ops (sm : bool) (ph : Z) (keys vals : list bytes) (s : cst) (ops : list iop) : list (bool * bool * N) :=
  match ops with
  | [] => []
  | o :: tl => let s' := step sm ph keys vals s o in (c_agree s', c_spec s', c_kf s') :: trace_ops sm ph keys vals s' tl
  end.

Definition trace_case (c : case) : list (bool * bool * N) :=
  match c with
  | Case ph keys vals ops => trace_ops false ph keys vals init_cst ops
  | SCase _ _ ph keys vals ops => trace_ops true ph keys vals init_cst ops
  end.
