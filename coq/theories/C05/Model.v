(** C05 — executable model of chain33's state pruning
    (system/store/mavl/db/{tree.go,node.go,prune.go}) in the only configuration
    the store offers for it: EnableMavlPrune forces EnableMavlPrefix
    ([effective_cfg] below = the configuration resolution of mavl.go New).
    Transcribed function by function, defects included.  No proofs here.

    Reused from C01: the tree type and [set]/[balance]/rotations ([C01.Model])
    are mirrored on ANNOTATED trees ([atree]: every node carries the database
    key it was loaded from, or nothing when the node object was created by this
    commit — Go: [persisted]); [Proofs] shows that erasing the annotations
    gives exactly C01's functions.  Hashes are C01's symbolic [hash]/[thash].

    Database keys of nodes ([nref]) = optional creation-height prefix
    ("_mb_-%010d-" for leaves, "_mh_-%010d-" for inner nodes; which of the two
    is determined by the kind of the hash) followed by the content hash.  The
    root of a commit has no prefix (Node.Hash: [node.height != t.root.height]).
    The content hash never covers the prefixes (InnerNode.Hash trims child
    hashes to 32 bytes), the stored record does.

    Abstractions (stated, not hidden):
    - the ARC node cache is off (the harness opens the LevelDB without
      SetCacheSize): reads behave as after a process restart;
    - a commit materialises the whole parent version ([aload]); Go loads lazily
      along the write paths.  They differ only when the parent version has
      missing nodes, and the harness ends a history at the first unreadable
      live version;
    - the two flush thresholds of the scan loops (999 distinct keys / 10000
      index entries per round) are never reached: one round per pruning run;
    - the package variables maxBlockHeight / secLvlPruningH always equal the
      database records they cache (lazily loaded when 0), so a process restart
      is not observable: one value each;
    - heights are 0 <= h < 10^10 (the %010d key format is order preserving). *)
From Coq Require Import List ZArith NArith Bool.
From C33 Require Import C01.Keys C01.Model C01.Store.
Import ListNotations.
Open Scope Z_scope.

(** ---- database keys and records ---- *)

Definition nref : Type := option Z * hash.

Definition oz_eqb (a b : option Z) : bool :=
  match a, b with
  | None, None => true
  | Some x, Some y => x =? y
  | _, _ => false
  end.

(** C01's [hash_eqb] with the conjunctions evaluated left to right and cut
    short (same function, see [heqb_hash_eqb]; [vm_compute] is call-by-value) *)
Fixpoint heqb (a b : hash) : bool :=
  match a, b with
  | HLeaf k v, HLeaf k' v' => if beq k k' then beq v v' else false
  | HInner h s l r, HInner h' s' l' r' =>
      if h =? h' then if s =? s' then if heqb l l' then heqb r r' else false else false else false
  | _, _ => false
  end.

Definition nref_eqb (a b : nref) : bool := if oz_eqb (fst a) (fst b) then heqb (snd a) (snd b) else false.

Inductive nrec :=
| NLeaf (k v : bytes)
| NInner (key : bytes) (height size : Z) (l r : nref).

(** index key "..mk.." key height leafhash len  (and "..mok.." for level 2) *)
Definition ikey : Type := bytes * Z * nref.

Definition ikey_eqb (a b : ikey) : bool :=
  match a, b with (k, h, r), (k', h', r') => if h =? h' then if beq k k' then nref_eqb r r' else false else false end.

Definition ik_key (e : ikey * list nref) : bytes := fst (fst (fst e)).
Definition ik_height (e : ikey * list nref) : Z := snd (fst (fst e)).
Definition ik_leaf (e : ikey * list nref) : nref := snd (fst e).

Definition rkey : Type := Z * hash.   (* "_mrhp_" height roothash *)
Definition rkey_eqb (a b : rkey) : bool := if fst a =? fst b then heqb (snd a) (snd b) else false.

(** finite maps as association lists without duplicate keys *)
Section AMap.
  Context {K V : Type}.
  Variable eqb : K -> K -> bool.

  Fixpoint aget (m : list (K * V)) (k : K) : option V :=
    match m with
    | [] => None
    | (k', v) :: tl => if eqb k k' then Some v else aget tl k
    end.

  Definition adel (m : list (K * V)) (k : K) : list (K * V) :=
    filter (fun e => negb (eqb k (fst e))) m.

  Definition aput (m : list (K * V)) (k : K) (v : V) : list (K * V) := (k, v) :: adel m k.

  Definition adel_all (m : list (K * V)) (ks : list K) : list (K * V) := fold_left adel ks m.
End AMap.

Record pdb := mk_pdb {
  nodes : list (nref * nrec);
  idx1 : list (ikey * list nref);     (* first level index: leaf version ↦ ancestors, parent first, root last *)
  idx2 : list (ikey * list nref);     (* second level ("old") index *)
  rootrec : list (rkey * unit);       (* root hash per height records *)
  maxh : Z;                           (* curMaxBlockHeight *)
  sech : Z }.                         (* secLvlPruningHeight *)

Definition empty_pdb : pdb := mk_pdb [] [] [] [] 0 0.

Definition set_nodes (d : pdb) n := mk_pdb n (idx1 d) (idx2 d) (rootrec d) (maxh d) (sech d).
Definition set_idx1 (d : pdb) i := mk_pdb (nodes d) i (idx2 d) (rootrec d) (maxh d) (sech d).
Definition set_idx2 (d : pdb) i := mk_pdb (nodes d) (idx1 d) i (rootrec d) (maxh d) (sech d).
Definition set_rootrec (d : pdb) r := mk_pdb (nodes d) (idx1 d) (idx2 d) r (maxh d) (sech d).
Definition set_maxh (d : pdb) h := mk_pdb (nodes d) (idx1 d) (idx2 d) (rootrec d) h (sech d).
Definition set_sech (d : pdb) h := mk_pdb (nodes d) (idx1 d) (idx2 d) (rootrec d) (maxh d) h.

Definition node_get (d : pdb) (r : nref) : option nrec := aget nref_eqb (nodes d) r.

(** ---- annotated trees ---- *)

Inductive atree :=
| ALeaf (p : option nref) (k v : bytes)
| ANode (p : option nref) (key : bytes) (height size : Z) (l r : atree).

Fixpoint erase (t : atree) : tree :=
  match t with
  | ALeaf _ k v => Leaf k v
  | ANode _ k h s l r => Node k h s (erase l) (erase r)
  end.

Definition aheight (t : atree) : Z := match t with ALeaf _ _ _ => 0 | ANode _ _ h _ _ _ => h end.
Definition asize (t : atree) : Z := match t with ALeaf _ _ _ => 1 | ANode _ _ _ s _ _ => s end.
Definition annot (t : atree) : option nref := match t with ALeaf p _ _ => p | ANode p _ _ _ _ _ => p end.

(** calcHeightAndSize *)
Definition acalc_hs (t : atree) : atree :=
  match t with
  | ALeaf _ _ _ => t
  | ANode p k _ _ l r => ANode p k (Z.max (aheight l) (aheight r) + 1) (asize l + asize r) l r
  end.

(** rotateRight / rotateLeft: both touched nodes are fresh copies (_copy clears [persisted]) *)
Definition arotate_right (t : atree) : option atree :=
  match t with
  | ANode _ k h s (ANode _ lk lh ls ll lr) r =>
      let n' := acalc_hs (ANode None k h s lr r) in
      Some (acalc_hs (ANode None lk lh ls ll n'))
  | _ => None
  end.

Definition arotate_left (t : atree) : option atree :=
  match t with
  | ANode _ k h s l (ANode _ rk rh rs rl rr) =>
      let n' := acalc_hs (ANode None k h s l rl) in
      Some (acalc_hs (ANode None rk rh rs n' rr))
  | _ => None
  end.

Definition acalc_balance (t : atree) : option Z :=
  match t with
  | ALeaf _ _ _ => None
  | ANode _ _ _ _ l r => Some (aheight l - aheight r)
  end.

Definition abalance (t : atree) : option atree :=
  match t with
  | ALeaf _ _ _ => None
  | ANode p k h s l r =>
      let b := aheight l - aheight r in
      if b >? 1 then
        match acalc_balance l with
        | None => None
        | Some bl =>
            if bl >=? 0 then arotate_right t
            else match arotate_left l with
                 | None => None
                 | Some l' => arotate_right (ANode p k h s l' r)
                 end
        end
      else if b <? -1 then
        match acalc_balance r with
        | None => None
        | Some br =>
            if br <=? 0 then arotate_left t
            else match arotate_right r with
                 | None => None
                 | Some r' => arotate_left (ANode p k h s l r')
                 end
        end
      else Some t
  end.

(** node.set: every node on the path is a fresh copy *)
Fixpoint aset (t : atree) (k v : bytes) : option (atree * bool) :=
  match t with
  | ALeaf _ lk lv =>
      match bcmp k lk with
      | Lt => Some (ANode None lk 1 2 (ALeaf None k v) t, false)
      | Eq => Some (ALeaf None k v, true)
      | Gt => Some (ANode None k 1 2 t (ALeaf None k v), false)
      end
  | ANode _ nk h s l r =>
      if blt k nk then
        match aset l k v with
        | None => None
        | Some (l', upd) =>
            if upd then Some (ANode None nk h s l' r, true)
            else match abalance (acalc_hs (ANode None nk h s l' r)) with
                 | None => None
                 | Some t' => Some (t', false)
                 end
        end
      else
        match aset r k v with
        | None => None
        | Some (r', upd) =>
            if upd then Some (ANode None nk h s l r', true)
            else match abalance (acalc_hs (ANode None nk h s l r')) with
                 | None => None
                 | Some t' => Some (t', false)
                 end
        end
  end.

Definition oatree := option atree.

Definition at_set (o : oatree) (k v : bytes) : option oatree :=
  match o with
  | None => Some (Some (ALeaf None k v))
  | Some t => match aset t k v with
              | None => None
              | Some (t', _) => Some (Some t')
              end
  end.

Fixpoint at_set_all (o : oatree) (kvs : list (bytes * bytes)) : option oatree :=
  match kvs with
  | [] => Some o
  | (k, v) :: tl => match at_set o k v with
                    | None => None
                    | Some o' => at_set_all o' tl
                    end
  end.

(** ---- reading ---- *)

(** GetNode + MakeNode recursively (whole version), annotations = database keys *)
Fixpoint aload (d : pdb) (fuel : nat) (r : nref) : option atree :=
  match fuel with
  | O => None
  | S f =>
      match node_get d r with
      | None => None
      | Some (NLeaf k v) => Some (ALeaf (Some r) k v)
      | Some (NInner key ht s lr rr) =>
          match aload d f lr, aload d f rr with
          | Some l, Some rt => Some (ANode (Some r) key ht s l rt)
          | _, _ => None
          end
      end
  end.

(** fuel for descending from a node: its stored height + 1 (the record under
    a key is determined by the content hash in the key, so stored heights are
    the real ones) *)
Definition rec_fuel (d : pdb) (r : nref) : nat :=
  match node_get d r with
  | Some (NInner _ h _ _ _) => S (Z.to_nat h)
  | _ => 1%nat
  end.

(** node.get / node.getHash along one path, loading lazily *)
Inductive wres := WFail | WAbsent | WFound (leaf : nref) (v : bytes).

Fixpoint walk (d : pdb) (fuel : nat) (r : nref) (k : bytes) : wres :=
  match fuel with
  | O => WFail
  | S f =>
      match node_get d r with
      | None => WFail
      | Some (NLeaf lk lv) => if beq lk k then WFound r lv else WAbsent
      | Some (NInner nk _ _ lr rr) => if blt k nk then walk d f lr k else walk d f rr k
      end
  end.

(** GetKVPair for one key at a state root ([None] root = empty tree) *)
Definition get_at_root (d : pdb) (root : option hash) (k : bytes) : wres :=
  match root with
  | None => WAbsent
  | Some h => walk d (rec_fuel d (None, h)) (None, h) k
  end.

(** ---- saving ---- *)

(** the database key a node object gets in a commit at height [H] *)
Definition new_ref (H : Z) (isroot : bool) (t : atree) : nref :=
  (if isroot then None else Some H, thash (erase t)).

Definition ref_of (H : Z) (isroot : bool) (t : atree) : nref :=
  match annot t with Some r => r | None => new_ref H isroot t end.

(** Node.save + nodeDB.SaveNode: children first (left, right), nothing below a
    persisted node; a new leaf also writes its index entry with the hashes of
    its ancestors ([anc]: parent first, root last — getHashNode). *)
Fixpoint asave (H : Z) (isroot : bool) (anc : list nref) (t : atree) (d : pdb) : pdb :=
  match annot t with
  | Some _ => d
  | None =>
      let me := new_ref H isroot t in
      match t with
      | ALeaf _ k v =>
          let d1 := set_nodes d (aput nref_eqb (nodes d) me (NLeaf k v)) in
          set_idx1 d1 (aput ikey_eqb (idx1 d1) (k, H, me) anc)
      | ANode _ key ht s l r =>
          let d1 := asave H false (me :: anc) l d in
          let d2 := asave H false (me :: anc) r d1 in
          set_nodes d2 (aput nref_eqb (nodes d2) me (NInner key ht s (ref_of H false l) (ref_of H false r)))
      end
  end.

(** ---- re-commit detection ---- *)

Definition is_leaf_hash (h : hash) : bool := match h with HLeaf _ _ => true | HInner _ _ _ _ => false end.

(** keys of the leaf records under the prefix "_mb_-H-" *)
Definition leaf_keys_at (d : pdb) (H : Z) : list bytes :=
  flat_map (fun e => match e with
                     | ((Some h, hs), NLeaf k _) => if (h =? H) && is_leaf_hash hs then [k] else []
                     | _ => []
                     end) (nodes d).

(** Tree.RemoveLeafCountKey on the tree loaded at [root]; [None] = panic (a node is missing) *)
Fixpoint remove_leaf_count_keys (d : pdb) (root : nref) (H : Z) (ks : list bytes) (i1 : list (ikey * list nref))
  : option (list (ikey * list nref)) :=
  match ks with
  | [] => Some i1
  | k :: tl =>
      match walk d (rec_fuel d root) root k with
      | WFail => None
      | WAbsent => remove_leaf_count_keys d root H tl i1
      | WFound lf _ => remove_leaf_count_keys d root H tl (adel ikey_eqb i1 (k, H, lf))
      end
  end.

(** DelLeafCountKV: every root recorded for the height whose root node still loads *)
Fixpoint del_leaf_count_kv (d : pdb) (H : Z) (rs : list (rkey * unit)) : option pdb :=
  match rs with
  | [] => Some d
  | ((h, rh), _) :: tl =>
      if h =? H then
        match node_get d (None, rh) with
        | None => del_leaf_count_kv d H tl
        | Some _ =>
            match remove_leaf_count_keys d (None, rh) H (leaf_keys_at d H) (idx1 d) with
            | None => None
            | Some i1 => del_leaf_count_kv (set_idx1 d i1) H tl
            end
        end
      else del_leaf_count_kv d H tl
  end.

(** ---- pruning ---- *)

Record cfg := mk_cfg {
  prune_height : Z;       (* TreeConfig.PruneHeight *)
  second_level : Z;       (* secondLevelPruningHeight = 500000 *)
  third_level : Z }.      (* threeLevelPruningHeight = 1500000 *)

Definition entries := list (ikey * list nref).

(** the group of one key (the map slot of deleteNode), summarised: greatest height and how many entries have it *)
Definition group_max (es : entries) (k : bytes) : Z :=
  fold_left (fun m e => if beq (ik_key e) k then Z.max m (ik_height e) else m) es (-1).

Definition group_count (es : entries) (k : bytes) (h : Z) : nat :=
  length (filter (fun e => beq (ik_key e) k && (ik_height e =? h)) es).

Definition group_size (es : entries) (k : bytes) : nat :=
  length (filter (fun e => beq (ik_key e) k) es).

(** vals[0] is the only entry of the greatest height *)
Definition single_top (es : entries) (k : bytes) : bool :=
  Nat.eqb (group_count es k (group_max es k)) 1.

(** delete a leaf version: its ancestors, its index entry (done by the caller), the leaf *)
Definition delete_version (ns : list (nref * nrec)) (e : ikey * list nref) : list (nref * nrec) :=
  adel nref_eqb (adel_all nref_eqb ns (snd e)) (ik_leaf e).

(** pruningFirstLevelNode *)
Definition first_cand (c : cfg) (cur : Z) (e : ikey * list nref) : bool :=
  (cur <? ik_height e + second_level c) && (ik_height e + prune_height c <=? cur).

Definition first_moved (c : cfg) (cur : Z) (e : ikey * list nref) : bool :=
  negb (cur <? ik_height e + second_level c).

Definition first_doomed (cands : entries) (e : ikey * list nref) : bool :=
  single_top cands (ik_key e) && (ik_height e <? group_max cands (ik_key e)).

Definition prune_first (c : cfg) (cur : Z) (d : pdb) : pdb :=
  let cands := filter (first_cand c cur) (idx1 d) in
  let doomed := filter (first_doomed cands) cands in
  let moved := filter (first_moved c cur) (idx1 d) in
  let ns := fold_left delete_version doomed (nodes d) in
  let i1 := adel_all ikey_eqb (adel_all ikey_eqb (idx1 d) (map fst doomed)) (map fst moved) in
  let i2 := fold_left (fun m e => aput ikey_eqb m (fst e) (snd e)) moved (idx2 d) in
  mk_pdb ns i1 i2 (rootrec d) (maxh d) (sech d).

(** pruningSecondLevelNode / deleteOldNode *)
Definition second_doomed (c : cfg) (cur : Z) (es : entries) (e : ikey * list nref) : bool :=
  Nat.ltb 1 (group_size es (ik_key e)) && single_top es (ik_key e) &&
  (ik_height e <? group_max es (ik_key e)) && (ik_height e + prune_height c <=? cur).

Definition third_dropped (c : cfg) (cur : Z) (es : entries) (e : ikey * list nref) : bool :=
  (Nat.eqb (group_size es (ik_key e)) 1 || negb (single_top es (ik_key e))) &&
  (ik_height e + third_level c <=? cur).

Definition prune_second_nodes (c : cfg) (cur : Z) (d : pdb) : pdb :=
  let es := idx2 d in
  let doomed := filter (second_doomed c cur es) es in
  let dropped := filter (third_dropped c cur es) es in
  let ns := fold_left delete_version doomed (nodes d) in
  let i2 := adel_all ikey_eqb (adel_all ikey_eqb es (map fst doomed)) (map fst dropped) in
  mk_pdb ns (idx1 d) i2 (rootrec d) (maxh d) (sech d).

Definition prune_second (c : cfg) (cur : Z) (d : pdb) : pdb :=
  if (Z.quot cur (second_level c) >? 1) &&
     negb (Z.quot cur (second_level c) =? Z.quot (sech d) (second_level c))
  then set_sech (prune_second_nodes c cur d) cur
  else d.

(** pruningTree *)
Definition pruning_tree (c : cfg) (cur : Z) (d : pdb) : pdb :=
  prune_second c cur (prune_first c cur d).

(** ---- SetKVPair with pruning enabled ---- *)

Inductive cres :=
| CErr                      (* Tree.Load: ErrNodeNotExist *)
| CPanic                    (* a needed node is missing (getLeftNode / getRightNode panic) *)
| COk (d : pdb) (root : option hash).

Definition load_parent (d : pdb) (parent : option hash) : option (option oatree) :=
  match parent with
  | None => Some (Some None)
  | Some h =>
      match node_get d (None, h) with
      | None => None
      | Some _ => Some (match aload d (rec_fuel d (None, h)) (None, h) with
                        | Some t => Some (Some t)
                        | None => None
                        end)
      end
  end.

(** the background trigger of Tree.Save (the harness waits for the run) *)
Definition auto_prune (c : cfg) (H : Z) : bool :=
  negb (prune_height c =? 0) && (Z.rem H (prune_height c) =? 0) && (Z.quot H (prune_height c) >? 1).

Definition tree_save (c : cfg) (d : pdb) (H : Z) (t : atree) : cres :=
  let step1 :=
    if H >? maxh d then Some (set_maxh d H)          (* isRemoveLeafCountKey = false *)
    else del_leaf_count_kv d H (rootrec d) in
  match step1 with
  | None => CPanic
  | Some d1 =>
      let d2 := asave H true [] t d1 in
      let rh := snd (ref_of H true t) in
      let d3 := set_rootrec d2 (aput rkey_eqb (rootrec d2) (H, rh) tt) in
      let d4 := if auto_prune c H then pruning_tree c H d3 else d3 in
      COk d4 (Some rh)
  end.

Definition set_kv_pair (c : cfg) (d : pdb) (H : Z) (parent : option hash) (kvs : list (bytes * bytes)) : cres :=
  match load_parent d parent with
  | None => CErr
  | Some None => CPanic
  | Some (Some o) =>
      match at_set_all o kvs with
      | None => CPanic
      | Some None => COk d None                       (* Tree.Save on an empty tree: nothing at all *)
      | Some (Some t) => tree_save c d H t
      end
  end.

(** Store.MemSet + Commit: an empty write set keeps the parent's root and touches nothing *)
Definition mem_set_commit (c : cfg) (d : pdb) (H : Z) (parent : option hash) (kvs : list (bytes * bytes)) : cres :=
  match kvs with
  | [] => COk d parent
  | _ => set_kv_pair c d H parent kvs
  end.

(** ---- the store's configuration (system/store/mavl/mavl.go, New) ---- *)

(** the sub-configuration as the operator writes it (JSON: enableMavlPrefix,
    enableMavlPrune, pruneHeight; the other switches do not concern pruning) *)
Record sub_cfg := mk_sub_cfg {
  sc_prefix : bool;
  sc_prune : bool;
  sc_prune_height : Z }.

(** the TreeConfig every tree of the store is built with *)
Record tree_cfg := mk_tree_cfg {
  tc_prefix : bool;        (* node keys carry the creation-height prefix *)
  tc_prune : bool;
  tc_prune_height : Z }.

(** New: "if subcfg.EnableMavlPrune { subcfg.EnableMavlPrefix = subcfg.EnableMavlPrune }"
    BEFORE the TreeConfig is filled from subcfg *)
Definition effective_cfg (s : sub_cfg) : tree_cfg :=
  let prefix := if sc_prune s then sc_prune s else sc_prefix s in
  mk_tree_cfg prefix (sc_prune s) (sc_prune_height s).

(** Store.Get: a root that does not load (Tree.Load: ErrNodeNotExist) gives nil
    for every key, indistinguishable from "absent"; a node missing below the
    root is the usual panic *)
Definition store_get_at_root (d : pdb) (root : option hash) (k : bytes) : wres :=
  match root with
  | None => WAbsent
  | Some h => match node_get d (None, h) with
              | None => WAbsent
              | Some _ => get_at_root d root k
              end
  end.
