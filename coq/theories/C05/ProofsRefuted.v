(** C05 — the property fails on the faithful model: two witnesses, both
    reproduced on the Go code by the harness (streams witness-same-value and
    witness-empty-fork). *)
From Coq Require Import List ZArith NArith Bool String.
From C33 Require Import Lib.Harness C01.Keys C01.Spec C01.Store C05.Model C05.Spec C05.Hist.
Import ListNotations.
Open Scope string_scope.
Open Scope Z_scope.

Definition cfg2 : cfg := mk_cfg 2 500000 1500000.

Definition ka := bs "a". Definition kb := bs "b". Definition kc := bs "c".

(** 1: key a rewritten with its old value at heights 1..4 (the same root every time) *)
Definition w1 : list mop :=
  [ MCommit 1 None false [(ka, bs "1"); (kb, bs "2")];
    MCommit 2 (Some 0%nat) false [(ka, bs "1")];
    MCommit 3 (Some 1%nat) false [(ka, bs "1")];
    MCommit 4 (Some 2%nat) false [(ka, bs "1")] ].
(* the commit at height 4 starts the background pruning run (4 mod 2 = 0, 4/2 > 1) *)

Lemma w1_valid : ops_valid cfg2 init_mstate w1 = true.
Proof. vm_compute. reflexivity. Qed.

Lemma w1_tip_unreadable : read_at (mrun cfg2 w1) 3 ka = None /\ In 3%nat (live (prune_height cfg2) (ms_ac (mrun cfg2 w1))).
Proof. split; vm_compute; auto. Qed.

(** 2: re-organisation onto a branch whose height 2 changes nothing *)
Definition w2 : list mop :=
  [ MCommit 1 None false [(ka, bs "1"); (kb, bs "1"); (kc, bs "1")];
    MCommit 2 (Some 0%nat) false [(ka, bs "2")];
    MCommit 2 (Some 0%nat) true [];
    MCommit 3 (Some 2%nat) false [(kb, bs "3")];
    MCommit 4 (Some 3%nat) false [(kc, bs "4")] ].

Lemma w2_valid : ops_valid cfg2 init_mstate w2 = true.
Proof. vm_compute. reflexivity. Qed.

(* the memset commit (index 2) keeps the root of commit 0; all written roots are pairwise different *)
Definition roots_distinct (rs : list (option hash)) : bool :=
  forallb (fun i => forallb (fun j => Nat.eqb i j ||
     negb (root_eqb (nth i rs None) (nth j rs None))) [0;1;3;4]%nat) [0;1;3;4]%nat.

Lemma w2_all_roots_distinct : roots_distinct (ms_roots (mrun cfg2 w2)) = true.
Proof. vm_compute. reflexivity. Qed.

Lemma w2_tip_unreadable : read_at (mrun cfg2 w2) 4 ka = None /\ In 4%nat (live (prune_height cfg2) (ms_ac (mrun cfg2 w2))).
Proof. split; vm_compute; auto. Qed.

Lemma none_not_some : forall (A : Type) (x : A), None = Some x -> False.
Proof. intros A x H. discriminate H. Qed.

Theorem prune_keeps_live_refuted : ~ C05_prune_keeps_live_full.
Proof.
  intros F. destruct (F cfg2 w1 eq_refl w1_valid) as [_ R].
  destruct w1_tip_unreadable as [U L]. specialize (R 3%nat ka L). rewrite U in R. exact (none_not_some _ _ R).
Qed.

Theorem prune_keeps_live_refuted_fork : ~ C05_prune_keeps_live_full.
Proof.
  intros F. destruct (F cfg2 w2 eq_refl w2_valid) as [_ R].
  destruct w2_tip_unreadable as [U L]. specialize (R 4%nat ka L). rewrite U in R. exact (none_not_some _ _ R).
Qed.
