(** C05 — the partial theorem: on linear histories with fresh roots every
    version of the retained interval stays readable with the right values,
    whatever pruning runs are interleaved. *)
From Coq Require Import List ZArith NArith Bool Lia.
From C33 Require Import C01.Keys C01.KeysFacts C01.Model C01.Spec C01.Store C01.Inv C01.Proofs C01.ProofsStore
  C05.Model C05.Spec C05.Hist C05.ProofsErase C05.ProofsTree C05.ProofsHash C05.ProofsSave
  C05.ProofsPrune C05.ProofsRead C05.ProofsSetAll C05.ProofsAux C05.ProofsInv C05.ProofsCommit.
Import ListNotations.
Open Scope Z_scope.

Definition Inv (c : cfg) (s : mstate) (L : list lcommit) : Prop :=
  ms_failed s = false /\ HInv (ms_ac s) (ms_roots s) L /\ DInv c (ms_ac s) L (ms_db s).

Lemma inv_init : forall c, Inv c init_mstate [].
Proof.
  intros c. split; [reflexivity|]. split.
  - constructor.
    + cbn. auto.
    + cbn. intros; lia.
    + cbn. intros; lia.
    + intros i lc E. destruct i; discriminate.
    + intros j lc r E. destruct j; discriminate.
    + intros i lc r E. destruct i; discriminate.
    + intros i j lci lcj r E. destruct i; discriminate.
    + intros i j lci lcj x r _ E. destruct i; discriminate.
    + intros j lcj k v r E. destruct j; discriminate.
  - constructor; cbn.
    + intros e [].
    + intros e [].
    + intros j lcj E. destruct j; discriminate.
    + intros rk u [].
Qed.

Lemma cfg_valid_facts : forall c, cfg_valid c = true -> 0 < prune_height c /\ prune_height c <= second_level c.
Proof.
  intros c H. unfold cfg_valid in H. rewrite !andb_true_iff in H. destruct H as [[A B] _].
  apply Z.ltb_lt in A. apply Z.leb_le in B. auto.
Qed.

(** a commit that writes nothing new: same tree, no new database keys *)
Lemma same_commit : forall c s L P H p,
  Inv c s L -> is_parent L P -> wf_tree P -> opresent (ms_db s) P ->
  o_elements (oterase P) = state_of (ms_ac s) p ->
  (forall i, (i < length (ms_ac s))%nat -> height_of (ms_ac s) i < H) -> 0 <= H ->
  Inv c (mk_mstate (ms_db s) (ms_roots s ++ [oroot P]) (add_commit (ms_ac s) H p []) false)
        (L ++ [mk_lc P [] []]).
Proof.
  intros c s L P H p [F [HI DI]] HP WP PP ST C1 C1'.
  unfold add_commit. cbn [apply_writes fold_left].
  assert (HI' : HInv (ms_ac s ++ [mk_acommit H p (state_of (ms_ac s) p)]) (ms_roots s ++ [oroot P]) (L ++ [mk_lc P [] []])).
  { apply (hinv_extend (ms_ac s) (ms_roots s) L (mk_acommit H p (state_of (ms_ac s) p)) P P [] [] HI HP).
    - exact C1.
    - exact C1'.
    - split; [exact WP|exact ST].
    - intros r I. right. exact I.
    - intros r [].
    - intros r i [].
    - intros x r Hx _. right. exact Hx.
    - intros k v r I. right. split; [exact I|intros []]. }
  split; [reflexivity|]. split; [exact HI'|]. cbn [ms_db ms_ac].
  apply (dinv_extend c (ms_ac s) (ms_roots s) L (mk_acommit H p (state_of (ms_ac s) p)) P [] [] (ms_db s) (ms_db s) HI DI HI').
  - intros e I. left. exact I.
  - reflexivity.
  - exact PP.
  - intros. reflexivity.
  - intros rk u I. left. exact I.
Qed.

Lemma oroot_ref : forall t, fst (aref t) = None -> (None, snd (aref t)) = aref t.
Proof. intros t H. destruct (aref t) as [a b]. cbn in *. subst. reflexivity. Qed.

Lemma load_parent_present : forall d P, wf_tree P -> opresent d P -> load_parent d (oroot P) = Some (Some P).
Proof.
  intros d [t|] W Pr; cbn; [|reflexivity].
  destruct W as [_ [_ [_ [SZ F]]]]. rewrite (oroot_ref t F).
  assert (G : node_get d (aref t) <> None).
  { destruct t as [[r|] k v|[r|] k h s l rt]; cbn in Pr.
    - unfold aref. cbn. rewrite Pr. discriminate.
    - destruct Pr.
    - destruct Pr as [Pr0 _]. unfold aref. cbn. rewrite Pr0. discriminate.
    - destruct Pr. }
  destruct (node_get d (aref t)) eqn:E; [|congruence].
  rewrite aload_present; auto. apply rec_fuel_present; auto.
Qed.

Lemma wf_good : forall P, wf_tree P -> ogood P.
Proof. intros [t|] W; unfold ogood; cbn in *; [tauto|exact I]. Qed.

(** unfolding SetKVPair *)
Lemma set_kv_pair_eq : forall c d H root P kvs o',
  load_parent d root = Some (Some P) -> at_set_all P kvs = Some o' ->
  set_kv_pair c d H root kvs = match o' with None => COk d None | Some t' => tree_save c d H t' end.
Proof. intros c d H root P kvs o' LP SA. unfold set_kv_pair. rewrite LP, SA. reflexivity. Qed.

Definition save_db (c : cfg) (d : pdb) (H : Z) (t' : atree) : pdb :=
  let d1 := if H >? maxh d then set_maxh d H else d in
  let d2 := asave H true [] t' d1 in
  let d3 := set_rootrec d2 (aput rkey_eqb (rootrec d2) (H, snd (ref_of H true t')) tt) in
  if auto_prune c H then pruning_tree c H d3 else d3.

Lemma tree_save_eq : forall c d H t', (forall rk u, In (rk, u) (rootrec d) -> fst rk <> H) ->
  tree_save c d H t' = COk (save_db c d H t') (Some (snd (ref_of H true t'))).
Proof.
  intros c d H t' N. unfold tree_save, save_db.
  destruct (H >? maxh d); [reflexivity|]. rewrite del_none by exact N. reflexivity.
Qed.

Lemma at_set_all_none : forall kvs P, at_set_all P kvs = Some None -> kvs = [] /\ P = None.
Proof.
  intros kvs P H. destruct (nil_dec _ kvs) as [E|E].
  - subst. cbn in H. inversion H. auto.
  - destruct (at_set_all_root _ _ _ H E) as [t [A _]]. discriminate.
Qed.

Lemma existsb_root_false : forall roots r i, existsb (root_eqb (Some r)) roots = false ->
  nth_error roots i <> Some (Some r).
Proof.
  intros roots r i E X. apply nth_error_In in X.
  assert (T : existsb (root_eqb (Some r)) roots = true).
  { apply existsb_exists. exists (Some r). split; [exact X|]. cbn. apply hash_eqb_refl. }
  congruence.
Qed.

Lemma top_le_last : forall acs roots L b, HInv acs roots L -> 0 <= b ->
  (forall i, (i < length acs)%nat -> height_of acs i <= b) -> top_height acs <= b.
Proof.
  intros acs roots L b HI B Hb. apply top_height_le; [exact B|]. intros a Ia.
  apply In_nth_error in Ia. destruct Ia as [i Ei].
  assert (Li : (i < length acs)%nat) by (apply nth_error_Some; congruence).
  specialize (Hb i Li). unfold height_of in Hb. rewrite Ei in Hb. exact Hb.
Qed.

(** SetKVPair on the parent version [P] at a new height *)
Lemma step_set_kv_pair : forall c s L P H p kvs,
  cfg_valid c = true -> Inv c s L ->
  is_parent L P -> wf_tree P -> opresent (ms_db s) P ->
  o_elements (oterase P) = state_of (ms_ac s) p -> root_of s p = oroot P ->
  (forall i, (i < length (ms_ac s))%nat -> height_of (ms_ac s) i < H) -> 0 <= H ->
  (kvs <> [] -> forall t' i, at_set_all P kvs = Some (Some t') ->
     nth_error (ms_roots s) i <> Some (Some (thash (erase t')))) ->
  exists L', Inv c
    match set_kv_pair c (ms_db s) H (root_of s p) kvs with
    | COk d r => mk_mstate d (ms_roots s ++ [r]) (add_commit (ms_ac s) H p kvs) false
    | _ => mk_mstate (ms_db s) (ms_roots s) (ms_ac s) true
    end L'.
Proof.
  intros c s L P H p kvs CV IV HP WP PP ST RT C1 C1' GF.
  pose proof IV as [F [HI DI]].
  destruct (cfg_valid_facts c CV) as [P0 P2].
  assert (LP : load_parent (ms_db s) (root_of s p) = Some (Some P)) by (rewrite RT; apply load_parent_present; auto).
  destruct (at_set_all_spec kvs P (wf_good P WP)) as [o' [SA _]].
  rewrite (set_kv_pair_eq c _ H _ P kvs o' LP SA) in *.
  destruct o' as [t'|].
  - assert (NR : forall rk u, In (rk, u) (rootrec (ms_db s)) -> fst rk <> H).
    { intros rk u I. destruct (d_roots _ _ _ _ DI rk u I) as [i [Li Hi]]. specialize (C1 i Li). lia. }
    rewrite (tree_save_eq c _ H t' NR) in *.
    set (st := state_of (ms_ac s) p).
    assert (FR : kvs <> [] -> forall i, nth_error (ms_roots s) i <> Some (Some (thash (erase t')))).
    { intros NE i. apply (GF NE t' i SA). }
    pose proof (sv_hinv c (ms_ac s) (ms_roots s) L (ms_db s) P kvs H t' st p HI (conj P0 P2) HP WP PP ST SA C1 C1' FR) as HI'.
    assert (RH : oroot (Some (stamp H true t')) = Some (snd (ref_of H true t'))).
    { cbn. rewrite aref_stamp. reflexivity. }
    rewrite RH in HI'.
    exists (L ++ [mk_lc (Some (stamp H true t')) (new_refs H true t') (map fst kvs)]).
    split; [reflexivity|]. split; [exact HI'|]. cbn [ms_db ms_ac]. unfold add_commit. fold st.
    set (d1 := if H >? maxh (ms_db s) then set_maxh (ms_db s) H else ms_db s).
    assert (D1 : nodes d1 = nodes (ms_db s) /\ idx1 d1 = idx1 (ms_db s) /\ idx2 d1 = idx2 (ms_db s) /\ rootrec d1 = rootrec (ms_db s)).
    { unfold d1. destruct (H >? maxh (ms_db s)); cbn; auto. }
    pose proof (sv_dinv c (ms_ac s) (ms_roots s) L (ms_db s) P kvs H t' st p HI DI (conj P0 P2) HP WP PP ST SA C1 C1' FR d1 D1) as DI'.
    unfold save_db. fold d1.
    destruct (auto_prune c H); [|exact DI'].
    rewrite <- RH in HI'.
    eapply dinv_prune; eauto.
    unfold add_commit in *. rewrite top_height_app. cbn. lia.
  - destruct (at_set_all_none _ _ SA) as [EK EP]. subst kvs P.
    eexists. eapply (same_commit c s L None H p); eauto.
Qed.

(** the fresh-root guard gives the freshness fact *)
Lemma fresh_from_roots : forall c s H p P kvs,
  root_of s p = oroot P -> wf_tree P -> opresent (ms_db s) P ->
  (forall rk u, In (rk, u) (rootrec (ms_db s)) -> fst rk <> H) ->
  match set_kv_pair c (ms_db s) H (root_of s p) kvs with
  | COk _ r => negb (existsb (root_eqb r) (ms_roots s)) = true
  | _ => True
  end ->
  kvs <> [] -> forall t' i, at_set_all P kvs = Some (Some t') ->
  nth_error (ms_roots s) i <> Some (Some (thash (erase t'))).
Proof.
  intros c s H p P kvs RT WP PP NR GF NE t' i SA.
  assert (LP : load_parent (ms_db s) (root_of s p) = Some (Some P)) by (rewrite RT; apply load_parent_present; auto).
  rewrite (set_kv_pair_eq c _ H _ P kvs _ LP SA) in GF.
  rewrite (tree_save_eq c _ H t' NR) in GF. apply negb_true_iff in GF.
  destruct (at_set_all_root _ _ _ SA NE) as [t2 [E2 A2]]. inversion E2; subst t2.
  unfold ref_of in GF. rewrite A2 in GF. cbn in GF. apply existsb_root_false. exact GF.
Qed.

Lemma smap_eqb_refl : forall m, smap_eqb m m = true.
Proof. induction m as [|[k v] m IH]; cbn; [reflexivity|]. rewrite !KeysFacts.beq_refl, IH. reflexivity. Qed.

(** the changing-state guard gives it too: equal roots have equal contents *)
Lemma fresh_from_states : forall c s L p P kvs,
  Inv c s L -> wf_tree P -> o_elements (oterase P) = state_of (ms_ac s) p ->
  existsb (fun a => smap_eqb (ac_state a) (apply_writes (state_of (ms_ac s) p) kvs)) (ms_ac s) = false ->
  forall t' i, at_set_all P kvs = Some (Some t') ->
  nth_error (ms_roots s) i <> Some (Some (thash (erase t'))).
Proof.
  intros c s L p P kvs [_ [HI _]] WP ST EX t' i SA X.
  destruct (h_len _ _ _ HI) as [EL ER].
  assert (Li : (i < length (ms_ac s))%nat) by (rewrite <- ER; apply nth_error_Some; congruence).
  destruct (nth_error L i) as [lc|] eqn:Ei; [|apply nth_error_None in Ei; lia].
  destruct (h_tree _ _ _ HI i lc Ei) as [Ri [Wf Si]].
  rewrite Ri in X. inversion X as [X1].
  destruct (lc_tree lc) as [ti|] eqn:Ti; [|discriminate]. cbn in X1. inversion X1 as [X2].
  destruct Wf as [Fu [W _]].
  assert (A : annot ti <> None) by (apply Fu; apply asub_refl).
  destruct (annot ti) as [r|] eqn:Ar; [|congruence].
  assert (Hr : snd r = thash (erase ti)) by (apply (W ti r); [apply asub_refl|exact Ar]).
  unfold aref in X2. rewrite Ar in X2. rewrite Hr in X2.
  assert (EE : elements (erase ti) = elements (erase t')) by (rewrite <- !helems_thash, X2; reflexivity).
  destruct (at_set_all_spec kvs P (wf_good P WP)) as [o' [SA' [_ [E _]]]].
  rewrite SA in SA'. inversion SA'; subst o'. cbn in E. cbn in Si. rewrite ST in E.
  destruct (nth_error (ms_ac s) i) as [a|] eqn:Ea; [|apply nth_error_None in Ea; lia].
  assert (T : existsb (fun a => smap_eqb (ac_state a) (apply_writes (state_of (ms_ac s) p) kvs)) (ms_ac s) = true).
  { apply existsb_exists. exists a. split; [eapply nth_error_In; eauto|].
    rewrite <- Si, EE, E. apply smap_eqb_refl. }
  congruence.
Qed.

(** one operation, for either guard *)
Lemma inv_step_gen : forall c s L o, cfg_valid c = true -> Inv c s L ->
  op_valid c s o = true ->
  (forall H p ms kvs, o = MCommit H p ms kvs ->
     onat_eqb p (tip_index (ms_ac s)) = true /\
     forall P, root_of s p = oroot P -> wf_tree P -> opresent (ms_db s) P ->
       o_elements (oterase P) = state_of (ms_ac s) p ->
       (forall rk u, In (rk, u) (rootrec (ms_db s)) -> fst rk <> H) ->
       kvs <> [] -> forall t' i, at_set_all P kvs = Some (Some t') ->
       nth_error (ms_roots s) i <> Some (Some (thash (erase t')))) ->
  exists L', Inv c (mstep c s o) L'.
Proof.
  intros c s L o CV IV V G. pose proof IV as [F [HI DI]].
  destruct (cfg_valid_facts c CV) as [P0 P2].
  destruct o as [H p ms kvs|cur].
  2:{ exists L. unfold mstep. rewrite F. split; [reflexivity|]. split; [exact HI|]. cbn [ms_db ms_ac].
      cbn [op_valid] in V. apply andb_true_iff in V. destruct V as [_ V]. apply Z.leb_le in V.
      eapply dinv_prune; eauto. }
  destruct (h_len _ _ _ HI) as [EL ER].
  cbn [op_valid] in V. rewrite !andb_true_iff in V. destruct V as [[V0 _] Vp]. apply Z.leb_le in V0.
  destruct (G H p ms kvs eq_refl) as [Gp Gf].
  assert (PAR : exists P, is_parent L P /\ wf_tree P /\ opresent (ms_db s) P /\
                 o_elements (oterase P) = state_of (ms_ac s) p /\ root_of s p = oroot P /\
                 (forall i, (i < length (ms_ac s))%nat -> height_of (ms_ac s) i < H)).
  { unfold tip_index in Gp. destruct (ms_ac s) as [|a0 acs0] eqn:EA.
    - destruct p; [discriminate|]. exists None. cbn. repeat split; auto.
      + left. reflexivity.
      + intros i Li. lia.
    - destruct p as [pi|]; [|discriminate]. cbn [onat_eqb] in Gp. apply Nat.eqb_eq in Gp.
      rewrite <- EA in *.
      assert (Npos : (0 < length (ms_ac s))%nat) by (rewrite EA; cbn; lia).
      pose proof Gp as Epi.
      destruct (nth_error L pi) as [lcp|] eqn:Ep; [|apply nth_error_None in Ep; lia].
      apply andb_true_iff in Vp. destruct Vp as [_ Vh]. apply Z.ltb_lt in Vh.
      assert (C1 : forall i, (i < length (ms_ac s))%nat -> height_of (ms_ac s) i < H).
      { intros i Li. destruct (Nat.eq_dec i pi) as [E|NE]; [subst i; exact Vh|].
        pose proof (h_mono _ _ _ HI i pi ltac:(lia) ltac:(lia)) as M. lia. }
      destruct (h_tree _ _ _ HI pi lcp Ep) as [Rp [Wp Sp]].
      exists (lc_tree lcp). split; [right; exists lcp; rewrite EL, <- Epi; auto|].
      split; [exact Wp|]. split.
      + apply (d_present _ _ _ _ DI pi lcp Ep).
        assert (T : top_height (ms_ac s) <= height_of (ms_ac s) pi).
        { eapply top_le_last; eauto; [apply (h_nonneg _ _ _ HI); lia|].
          intros i Li. destruct (Nat.eq_dec i pi) as [E|NE]; [subst; lia|].
          pose proof (h_mono _ _ _ HI i pi ltac:(lia) ltac:(lia)) as M. lia. }
        lia.
      + split; [exact Sp|]. split; [|exact C1].
        unfold root_of. rewrite Rp. reflexivity. }
  destruct PAR as [P [HP [WP [PP [ST [RT C1]]]]]].
  assert (NR : forall rk u, In (rk, u) (rootrec (ms_db s)) -> fst rk <> H).
  { intros rk u I. destruct (d_roots _ _ _ _ DI rk u I) as [i [Li Hi]]. specialize (C1 i Li). lia. }
  specialize (Gf P RT WP PP ST NR).
  unfold mstep. rewrite F.
  destruct ms.
  - destruct kvs as [|kv kvs'].
    + cbn [mem_set_commit]. rewrite RT. eexists. eapply same_commit; eauto.
    + change (mem_set_commit c (ms_db s) H (root_of s p) (kv :: kvs')) with
             (set_kv_pair c (ms_db s) H (root_of s p) (kv :: kvs')).
      eapply step_set_kv_pair; eauto.
  - eapply step_set_kv_pair; eauto.
Qed.

Lemma inv_step : forall c s L o, cfg_valid c = true -> Inv c s L ->
  op_valid c s o = true -> op_linear_fresh c s o = true -> exists L', Inv c (mstep c s o) L'.
Proof.
  intros c s L o CV IV V G. apply (inv_step_gen c s L o CV IV V).
  intros H p ms kvs E. subst o. cbn [op_linear_fresh] in G. apply andb_true_iff in G. destruct G as [Gp Gf].
  split; [exact Gp|]. intros P RT WP PP ST NR NE t' i SA.
  apply (fresh_from_roots c s H p P kvs RT WP PP NR); auto.
  unfold commit_result in Gf. destruct kvs as [|kv kvs']; [congruence|].
  destruct ms.
  - change (mem_set_commit c (ms_db s) H (root_of s p) (kv :: kvs')) with
           (set_kv_pair c (ms_db s) H (root_of s p) (kv :: kvs')) in Gf.
    destruct (set_kv_pair _ _ _ _ _); auto.
  - destruct (set_kv_pair _ _ _ _ _); auto.
Qed.

Lemma inv_step_changing : forall c s L o, cfg_valid c = true -> Inv c s L ->
  op_valid c s o = true -> op_linear_changing s o = true -> exists L', Inv c (mstep c s o) L'.
Proof.
  intros c s L o CV IV V G. apply (inv_step_gen c s L o CV IV V).
  intros H p ms kvs E. subst o. cbn [op_linear_changing] in G. apply andb_true_iff in G. destruct G as [Gp Gf].
  split; [exact Gp|]. intros P RT WP PP ST NR NE t' i SA.
  apply (fresh_from_states c s L p P kvs IV WP ST); auto.
  destruct kvs; [congruence|]. apply negb_true_iff in Gf. exact Gf.
Qed.

(** a whole history *)
Lemma inv_run : forall c ops s L, cfg_valid c = true -> Inv c s L ->
  ops_valid c s ops = true -> linear_fresh c s ops = true ->
  exists L', Inv c (fold_left (mstep c) ops s) L'.
Proof.
  induction ops as [|o ops IH]; intros s L CV IV V G; cbn [fold_left]; [eauto|].
  cbn [ops_valid] in V. cbn [linear_fresh] in G.
  apply andb_true_iff in V. apply andb_true_iff in G. destruct V as [V1 V2], G as [G1 G2].
  destruct (inv_step c s L o CV IV V1 G1) as [L1 IV1]. eapply IH; eauto.
Qed.

(** the invariant gives the property *)
Lemma inv_live_readable : forall c s L, Inv c s L -> live_readable c s.
Proof.
  intros c s L [F [HI DI]]. split; [exact F|]. intros i k Il.
  destruct (live_valid _ _ _ Il) as [Li Wi].
  destruct (h_len _ _ _ HI) as [EL ER].
  destruct (nth_error L i) as [lc|] eqn:Ei; [|apply nth_error_None in Ei; lia].
  destruct (h_tree _ _ _ HI i lc Ei) as [Ri [Wf Si]].
  pose proof (d_present _ _ _ _ DI i lc Ei Wi) as Pr.
  unfold read_at, root_of, expected. rewrite Ri, <- Si.
  destruct (lc_tree lc) as [t|]; cbn [oroot get_at_root oterase option_map o_elements].
  - destruct Wf as [_ [_ [O [SZ Fp]]]]. cbn [opresent] in Pr. rewrite (oroot_ref t Fp).
    pose proof (read_present t (ms_db s) k Pr O SZ) as R.
    destruct (sget (elements (erase t)) k) as [v|]; destruct (walk _ _ _ _); cbn in R; try contradiction; congruence.
  - reflexivity.
Qed.

Lemma inv_run_changing : forall c ops s L, cfg_valid c = true -> Inv c s L ->
  ops_valid c s ops = true -> linear_changing c s ops = true ->
  exists L', Inv c (fold_left (mstep c) ops s) L'.
Proof.
  induction ops as [|o ops IH]; intros s L CV IV V G; cbn [fold_left]; [eauto|].
  cbn [ops_valid] in V. cbn [linear_changing] in G.
  apply andb_true_iff in V. apply andb_true_iff in G. destruct V as [V1 V2], G as [G1 G2].
  destruct (inv_step_changing c s L o CV IV V1 G1) as [L1 IV1]. eapply IH; eauto.
Qed.

Theorem prune_keeps_live_changing : C05_prune_keeps_live_changing.
Proof.
  intros c ops CV V G. destruct (inv_run_changing c ops init_mstate [] CV (inv_init c) V G) as [L IV].
  eapply inv_live_readable; eauto.
Qed.

Theorem prune_keeps_live_guarded : C05_prune_keeps_live_guarded.
Proof.
  intros c ops CV V G. destruct (inv_run c ops init_mstate [] CV (inv_init c) V G) as [L IV].
  eapply inv_live_readable; eauto.
Qed.
