(** C05 — reading a version that is completely present: the lazy walk returns
    C01's [get], loading returns the annotated tree itself. *)
From Coq Require Import List ZArith NArith Bool Lia.
From C33 Require Import C01.Keys C01.KeysFacts C01.Model C01.Spec C01.Store C01.Inv C01.Proofs
  C05.Model C05.ProofsErase C05.ProofsTree C05.ProofsHash C05.ProofsSave.
Import ListNotations.
Open Scope Z_scope.

Definition wres_of (o : option bytes) (w : wres) : Prop :=
  match o, w with
  | None, WAbsent => True
  | Some v, WFound _ v' => v = v'
  | _, _ => False
  end.

Lemma aheight_erase : forall t, aheight t = height (erase t).
Proof. destruct t; reflexivity. Qed.

Lemma walk_present : forall t d fuel k,
  apresent d t -> sized (erase t) -> (Z.to_nat (aheight t) < fuel)%nat ->
  wres_of (snd (get (erase t) k)) (walk d fuel (aref t) k).
Proof.
  induction t as [p lk lv|p nk h s l IHl r IHr]; intros d fuel k P SZ F.
  - destruct p as [r0|]; [|destruct P]. cbn in P. destruct fuel as [|f]; [lia|].
    cbn [walk aref annot]. rewrite P. cbn [erase get]. unfold beq.
    destruct (bcmp lk k); cbn; auto.
  - destruct p as [r0|]; [|destruct P]. cbn [apresent] in P. destruct P as [P0 [Pl Pr]].
    destruct fuel as [|f]; [lia|]. cbn [walk aref annot]. rewrite P0.
    cbn [erase sized] in SZ. destruct SZ as [Sl [Sr [Hh Hs]]].
    pose proof (sized_height_nonneg _ Sl) as Nl. pose proof (sized_height_nonneg _ Sr) as Nr.
    cbn [aheight] in F. rewrite <- !aheight_erase in *.
    cbn [erase get]. destruct (blt k nk).
    + apply IHl; auto. lia.
    + destruct (get (erase r) k) as [i v] eqn:G. cbn [snd].
      specialize (IHr d f k Pr Sr ltac:(lia)). rewrite G in IHr. exact IHr.
Qed.

Lemma aload_present : forall t d fuel,
  apresent d t -> sized (erase t) -> (Z.to_nat (aheight t) < fuel)%nat ->
  aload d fuel (aref t) = Some t.
Proof.
  induction t as [p lk lv|p nk h s l IHl r IHr]; intros d fuel P SZ F.
  - destruct p as [r0|]; [|destruct P]. cbn in P. destruct fuel as [|f]; [lia|].
    cbn [aload aref annot]. rewrite P. reflexivity.
  - destruct p as [r0|]; [|destruct P]. cbn [apresent] in P. destruct P as [P0 [Pl Pr]].
    destruct fuel as [|f]; [lia|]. cbn [aload aref annot]. rewrite P0.
    cbn [erase sized] in SZ. destruct SZ as [Sl [Sr [Hh Hs]]].
    pose proof (sized_height_nonneg _ Sl) as Nl. pose proof (sized_height_nonneg _ Sr) as Nr.
    cbn [aheight] in F. rewrite <- !aheight_erase in *.
    rewrite IHl by (auto; lia). rewrite IHr by (auto; lia). reflexivity.
Qed.

Lemma rec_fuel_present : forall t d, apresent d t -> sized (erase t) ->
  (Z.to_nat (aheight t) < rec_fuel d (aref t))%nat.
Proof.
  intros [p lk lv|p nk h s l r] d P SZ; (destruct p as [r0|]; [|destruct P]); cbn in P; unfold rec_fuel; cbn [aref annot].
  - rewrite P. cbn. lia.
  - destruct P as [P0 _]. rewrite P0. cbn [aheight]. lia.
Qed.

(** a read at a present version gives the C01 specification's value *)
Theorem read_present : forall t d k,
  apresent d t -> ordered (erase t) -> sized (erase t) ->
  wres_of (sget (elements (erase t)) k) (walk d (rec_fuel d (aref t)) (aref t) k).
Proof.
  intros t d k P O SZ. rewrite <- (get_elements _ k O).
  apply walk_present; auto. apply rec_fuel_present; auto.
Qed.
