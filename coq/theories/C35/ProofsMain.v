(** C35 — the statements of Properties.v: delivery for all schedules (partial:
    no peer answers with a block of another height), the single-goroutine
    core, soundness of what is handed over, and the refutations with their
    witness schedules. *)
From Coq Require Import List ZArith NArith Bool Arith Lia Permutation.
From C33 Require Import Lib.Harness C35.Model C35.Spec C35.ProofsTerm C35.ProofsSolo C35.ProofsSim
     C35.ProofsSingle C35.ProofsMulti.
Import ListNotations.
Open Scope nat_scope.

(** * Guards (boolean) *)

(** no given peer answers a height of the range with a block of another height *)
Definition no_wrong_height (c : config) : bool := forallb (no_wrong_at c) (heights c).

(** [no_stall c] (ProofsMulti): no given peer stays silent for a height of the range *)
Definition delivery_guard (c : config) : bool := no_wrong_height c && no_stall c && few_peers c.

Definition one_height (c : config) : bool := length (heights c) =? 1.

Definition reask_guard (c : config) : bool := one_height c && no_stall c.

(** * Full-strength statements *)

Definition complete_run (c : config) (sched : list event) (order : list Z) : Prop :=
  all_done (phase_one c sched) = true /\ Permutation order (failed_heights (phase_one c sched)).

Definition delivers_if_servable_full : Prop :=
  forall c sched order, complete_run c sched order -> spec_delivers c (task_log c sched order) = true.

Definition phase_one_delivers_full : Prop :=
  forall c sched, all_done (phase_one c sched) = true ->
                  spec_delivers c (rev (s_log (phase_one c sched))) = true.

Definition failed_peer_not_reasked_full : Prop :=
  forall c sched, spec_no_reask_phase_one c (rev (s_log (phase_one c sched))) = true.

Definition no_deadlock_full : Prop :=
  forall c sched, all_done (phase_one c sched) = false ->
                  exists e s', step c (init_job c) (phase_one c sched) e = Some s'.

Definition second_phase_terminates_full : Prop := forall c h, all_done (recheck c h) = true.

Definition not_reasked_in_task_full : Prop :=
  forall c sched order, complete_run c sched order -> spec_no_reask_task c (task_log c sched order) = true.

(** * Delivery under the guard, all schedules *)

Lemma in_task_log_one c sched order o :
  In o (rev (s_log (phase_one c sched))) -> In o (task_log c sched order).
Proof. intro H. unfold task_log. apply in_or_app. left. exact H. Qed.

Lemma in_task_log_two c sched order h o :
  In h order -> In o (recheck_log c h) -> In o (task_log c sched order).
Proof.
  intros Hh Ho. unfold task_log, phase_two_log. apply in_or_app. right.
  apply in_flat_map. exists h. split; assumption.
Qed.

Lemma delivered_in tr h p : In (ODeliver h p) tr -> memZ h (delivered tr) = true.
Proof.
  intro H. unfold memZ. apply existsb_exists. exists h. split; [|apply Z.eqb_refl].
  unfold delivered. apply in_flat_map. exists (ODeliver h p). split; [exact H|left; reflexivity].
Qed.

Lemma delivers_partial c sched order :
  delivery_guard c = true -> complete_run c sched order ->
  spec_delivers c (task_log c sched order) = true.
Proof.
  intros Hg [Hd Hperm]. unfold delivery_guard in Hg. apply andb_true_iff in Hg. destruct Hg as [Hg Hfew].
  apply andb_true_iff in Hg. destruct Hg as [Hnw Hns].
  unfold spec_delivers. apply forallb_forall. intros h Hh.
  destruct (servable c h) eqn:Hs; [simpl|reflexivity].
  pose proof (phase_one_inv c sched) as HI.
  destruct (height_goroutine c _ h HI Hh) as [g [Hg Hgh]].
  destruct (all_done_nth _ g Hd Hg) as [b Hpc].
  assert (Hnwh : no_wrong_at c h = true) by (apply (proj1 (forallb_forall _ _) Hnw h Hh)).
  destruct b.
  - (* delivered in phase one *)
    assert (Hho : handed_over (g_pc (nth g (s_gs (phase_one c sched)) dummy_g)) = true)
      by (rewrite Hpc; reflexivity).
    destruct (inv_ok _ _ _ HI g Hho) as [p [a [Hp [Ha Hin]]]]. rewrite Hgh in *.
    assert (a = None).
    { unfold no_wrong_at in Hnwh. pose proof (proj1 (forallb_forall _ _) Hnwh p Hp) as Hw. cbv beta in Hw.
      destruct (c_beh c p h); simpl in Ha; try discriminate; inversion Ha; reflexivity. }
    subst a. simpl in Hin. apply (delivered_in _ h p).
    apply in_task_log_one. apply in_rev in Hin. exact Hin.
  - (* failed in phase one: downloaded again in phase two *)
    pose proof (failed_in _ g Hg Hpc) as Hf. rewrite Hgh in Hf.
    apply (Permutation_in _ (Permutation_sym Hperm)) in Hf.
    assert (Hnsh : no_stall_at c h = true) by (apply (proj1 (forallb_forall _ _) Hns h Hh)).
    destruct (recheck_delivers c h Hnsh Hs Hnwh Hfew) as [_ [p Hp]].
    apply (delivered_in _ h p). apply (in_task_log_two c sched order h _ Hf Hp).
Qed.

(** * Soundness: whatever is asked or handed over is justified by the inputs *)

Lemma recheck_log_ok c h o : In h (heights c) -> In o (recheck_log c h) -> log_ok c o.
Proof.
  intros Hh Ho. unfold recheck_log in Ho. apply in_rev in Ho.
  apply (inv_log _ _ _ (recheck_inv c h Hh) o Ho).
Qed.

Lemma task_log_ok c sched order o :
  (forall h, In h order -> In h (heights c)) -> In o (task_log c sched order) -> log_ok c o.
Proof.
  intros Hord Ho. unfold task_log in Ho. apply in_app_or in Ho. destruct Ho as [Ho|Ho].
  - apply (inv_log _ _ _ (phase_one_inv c sched)). apply in_rev. exact Ho.
  - unfold phase_two_log in Ho. apply in_flat_map in Ho. destruct Ho as [h [Hh Ho]].
    apply (recheck_log_ok c h o (Hord h Hh) Ho).
Qed.

Lemma failed_heights_in c sched h :
  In h (failed_heights (phase_one c sched)) -> In h (heights c).
Proof.
  intro H. rewrite <- (inv_hs _ _ _ (phase_one_inv c sched)).
  unfold failed_heights in H. apply in_map_iff in H. destruct H as [G [<- HG]].
  apply in_map. apply filter_In in HG. exact (proj1 HG).
Qed.

Lemma sound_partial c sched order :
  no_wrong_height c = true -> complete_run c sched order ->
  spec_sound c (task_log c sched order) = true.
Proof.
  intros Hnw [_ Hperm]. unfold spec_sound. apply forallb_forall. intros o Ho.
  assert (Hord : forall h, In h order -> In h (heights c)).
  { intros h Hh. apply (failed_heights_in c sched). apply (Permutation_in _ Hperm Hh). }
  pose proof (task_log_ok c sched order o Hord Ho) as Hok.
  destruct o as [l|h' p|bh p]; cbn; auto.
  destruct Hok as [h [Hh [Hp [He [a [Ha Hbh]]]]]].
  assert (Hnwh : no_wrong_at c h = true) by (apply (proj1 (forallb_forall _ _) Hnw h Hh)).
  unfold no_wrong_at in Hnwh. pose proof (proj1 (forallb_forall _ _) Hnwh p Hp) as Hw. cbv beta in Hw.
  destruct (c_beh c p h) eqn:Hb; simpl in Ha; try discriminate.
  inversion Ha; subst a. simpl in Hbh. subst bh.
  rewrite (heights_in_range c h Hh). unfold serves. rewrite He, Hb. reflexivity.
Qed.

(** * One height: the un-aliased core *)

Lemma one_height_inv c : one_height c = true -> exists h, heights c = [h].
Proof.
  unfold one_height. intro H. apply Nat.eqb_eq in H.
  destruct (heights c) as [|h [|h2 l]]; simpl in H; try discriminate. exists h. reflexivity.
Qed.

Lemma solo0_no_init c h o :
  In o (fst (solo0 c h)) -> match o with OInit _ => False | _ => True end.
Proof.
  unfold solo0. intro Ho.
  pose proof (solo_deliveries c (init_job c) (ntasks c) h 52 (view0 c) 0 o Ho) as H.
  destruct o; auto.
Qed.

Lemma phase_one_part_no_init : forall l seen,
  (forall o, In o l -> match o with OInit _ => False | _ => True end) -> phase_one_part seen l = l.
Proof.
  induction l as [|o l IH]; intros seen H; [reflexivity|].
  destruct o as [x|h' p|bh p]; simpl.
  - exfalso. apply (H (OInit x)). left. reflexivity.
  - rewrite IH; auto. intros o Ho. apply H. right. exact Ho.
  - rewrite IH; auto. intros o Ho. apply H. right. exact Ho.
Qed.

Lemma phase_one_part_init_log (L : list obs) c :
  (forall o, In o L -> match o with OInit _ => False | _ => True end) ->
  phase_one_part false (init_log c ++ L) = init_log c ++ L.
Proof.
  intro Hs. unfold init_log. destruct (init_job c); cbn [app phase_one_part];
    rewrite (phase_one_part_no_init _ _ Hs); reflexivity.
Qed.

Lemma phase_one_part_single c h :
  no_stall_at c h = true -> phase_one_part false (recheck_log c h) = recheck_log c h.
Proof.
  intro Hns. rewrite (recheck_log_solo c h Hns). apply phase_one_part_init_log. apply solo0_no_init.
Qed.

Lemma single_goroutine_correct c h sched :
  heights c = [h] -> all_done (phase_one c sched) = true ->
  let tr := rev (s_log (phase_one c sched)) in
  (no_stall_at c h = true -> distinct_peers c = true -> no_reask_from c [] tr = true)
  /\ (no_stall_at c h = true -> no_wrong_at c h = true -> few_peers c = true ->
      memZ h (delivered tr) = servable c h)
  /\ (forall o, In o tr -> log_ok c o).
Proof.
  intros Hh Hd. cbn zeta. rewrite (single_height_phase_one c h sched Hh Hd).
  change (rev (s_log (recheck c h))) with (recheck_log c h).
  assert (Hin : In h (heights c)) by (rewrite Hh; left; reflexivity).
  split; [apply recheck_no_reask|]. split.
  - intros Hns Hnw Hfew. destruct (servable c h) eqn:Hs.
    + destruct (recheck_delivers c h Hns Hs Hnw Hfew) as [_ [p Hp]]. apply (delivered_in _ h p Hp).
    + destruct (memZ h (delivered (recheck_log c h))) eqn:Hm; [|reflexivity]. exfalso.
      unfold memZ in Hm. apply existsb_exists in Hm. destruct Hm as [bh [Hbh Heq]].
      apply Z.eqb_eq in Heq. subst bh. unfold delivered in Hbh. apply in_flat_map in Hbh.
      destruct Hbh as [o [Ho Hbh]]. destruct o as [l|h' p|bh p]; try contradiction.
      destruct Hbh as [->|[]].
      pose proof (recheck_events c h _ Hns Ho) as [Hp [He [a [Ha Hbh]]]].
      unfold no_wrong_at in Hnw. pose proof (proj1 (forallb_forall _ _) Hnw p Hp) as Hw. cbv beta in Hw.
      assert (Hsv : servable c h = true).
      { unfold servable. apply existsb_exists. exists p. split; [exact Hp|].
        unfold serves. rewrite He. destruct (c_beh c p h); simpl in Ha; try discriminate; reflexivity. }
      congruence.
  - intros o Ho. apply (recheck_log_ok c h o Hin Ho).
Qed.

Lemma not_reasked_partial c sched :
  reask_guard c = true -> all_done (phase_one c sched) = true ->
  spec_no_reask_phase_one c (rev (s_log (phase_one c sched))) = true.
Proof.
  intros Hg Hd. unfold reask_guard in Hg. apply andb_true_iff in Hg. destruct Hg as [H1 Hns].
  destruct (one_height_inv c H1) as [h Hh].
  assert (Hnsh : no_stall_at c h = true).
  { apply (proj1 (forallb_forall _ _) Hns h). rewrite Hh. left. reflexivity. }
  unfold spec_no_reask_phase_one. destruct (distinct_peers c) eqn:Hdp; [simpl|reflexivity].
  rewrite (single_height_phase_one c h sched Hh Hd).
  change (rev (s_log (recheck c h))) with (recheck_log c h).
  rewrite (phase_one_part_single c h Hnsh). apply recheck_no_reask; assumption.
Qed.

(** * Progress *)

Lemma no_deadlock_partial c sched :
  no_stall c = true -> all_done (phase_one c sched) = false ->
  exists e s', step c (init_job c) (phase_one c sched) e = Some s'.
Proof.
  intros Hns Hd. apply progress; [|exact Hd].
  apply (inv_no_waiting c (heights c) _ (phase_one_inv c sched) Hns).
Qed.

Lemma second_phase_terminates_partial c h :
  no_stall_at c h = true -> all_done (recheck c h) = true.
Proof. apply recheck_done. Qed.

(** * Witnesses *)

Definition tcfg (pids : list pid_entry) (adv : list Z) (beh : list (list resp)) (st en : Z) : config :=
  mkConfig pids [] (fun _ => 0%N) (fun p => nth p adv (-1)%Z)
           (fun p h => nth (Z.to_nat (h - st)) (nth p beh []) RRefuse) st en.

(** peers P0 (height 1) and P1 (height 2); P0 refuses height 1, P1 refuses
    height 2.  Goroutine 0 (height 1) removes P0 from the shared array and
    picks P1, overwriting P1.Index with 0; goroutine 1 (height 2) then removes
    index 0 of its own, longer view - which is P1 shifted one place to the
    left - keeps the second copy of P1 and asks it again. *)
Definition cfg_reask : config :=
  tcfg [PPeer 0; PPeer 1] [1; 2]%Z [[RRefuse; ROk]; [ROk; RRefuse]] 1 2.
Definition sched_reask : list event :=
  [Sort 0; Pick 0; Sort 1; Pick 1;
   Result 0; Release 0; Remove 0; Pick 0;
   Result 1; Release 1; Remove 1; Pick 1].

Lemma not_reasked_refuted : ~ failed_peer_not_reasked_full.
Proof.
  intro H. specialize (H cfg_reask sched_reask).
  assert (E : spec_no_reask_phase_one cfg_reask (rev (s_log (phase_one cfg_reask sched_reask))) = false)
    by (vm_compute; reflexivity).
  rewrite E in H. clear E. discriminate H.
Qed.

(** P0 (height 1) refuses height 1, P1 (height 2) serves height 1 and refuses
    height 2, P2 is too low for everything.  Goroutine 1 removes P1 (index 1)
    from the shared array; goroutine 0 then removes P0 and is left with
    [P2, P2]: height 1 fails in phase one although P1 serves it. *)
Definition cfg_lost : config :=
  tcfg [PPeer 0; PPeer 1; PPeer 2] [1; 2; 0]%Z [[RRefuse; ROk]; [ROk; RRefuse]; [ROk; ROk]] 1 2.
Definition sched_lost : list event :=
  [Sort 0; Pick 0; Sort 1; Pick 1;
   Result 1; Release 1; Remove 1; Pick 1;
   Result 0; Release 0; Remove 0; Pick 0]
  ++ flat_map (fun _ => [Sleep 0; Pick 0; Sleep 1; Pick 1]) (seq 0 51).

Lemma phase_one_delivers_refuted : ~ phase_one_delivers_full.
Proof.
  intro H. specialize (H cfg_lost sched_lost).
  assert (Hd : all_done (phase_one cfg_lost sched_lost) = true) by (vm_compute; reflexivity).
  specialize (H Hd).
  assert (E : spec_delivers cfg_lost (rev (s_log (phase_one cfg_lost sched_lost))) = false)
    by (vm_compute; reflexivity).
  rewrite E in H. clear E. discriminate H.
Qed.

(** P0 answers the request for height 1 with a block of height 2; the healthy
    P1 is never asked. *)
Definition cfg_wrong : config := tcfg [PPeer 0; PPeer 1] [5; 5]%Z [[RWrong 2]; [ROk]] 1 1.
Definition sched_wrong : list event := [Sort 0; Pick 0; Result 0; Release 0].

Lemma delivers_refuted : ~ delivers_if_servable_full.
Proof.
  intro H. specialize (H cfg_wrong sched_wrong []).
  assert (Hc : complete_run cfg_wrong sched_wrong []).
  { split; [vm_compute; reflexivity|].
    assert (E : failed_heights (phase_one cfg_wrong sched_wrong) = []) by (vm_compute; reflexivity).
    rewrite E. apply perm_nil. }
  specialize (H Hc).
  assert (E : spec_delivers cfg_wrong (task_log cfg_wrong sched_wrong []) = false) by (vm_compute; reflexivity).
  rewrite E in H. clear E. discriminate H.
Qed.

(** one refusing peer: asked in phase one, and again by checkTask *)
Definition cfg_again : config := tcfg [PPeer 0] [5]%Z [[RRefuse]] 1 1.
Definition sched_again : list event := [Sort 0; Pick 0; Result 0; Release 0; Remove 0; Pick 0].

Lemma not_reasked_in_task_refuted : ~ not_reasked_in_task_full.
Proof.
  intro H. specialize (H cfg_again sched_again [1%Z]).
  assert (Hc : complete_run cfg_again sched_again [1%Z]).
  { split; [vm_compute; reflexivity|].
    assert (E : failed_heights (phase_one cfg_again sched_again) = [1%Z]) by (vm_compute; reflexivity).
    rewrite E. apply Permutation_refl. }
  specialize (H Hc).
  assert (E : spec_no_reask_task cfg_again (task_log cfg_again sched_again [1%Z]) = false)
    by (vm_compute; reflexivity).
  rewrite E in H. clear E. discriminate H.
Qed.

(** P0 accepts the stream and never answers: the goroutine waits in ReadStream
    for ever (the 10 s context only covers NewStream), the healthy P1 is never
    asked and the task never returns. *)
Definition cfg_stall : config := tcfg [PPeer 0; PPeer 1] [5; 5]%Z [[RStall]; [ROk]] 1 1.
Definition sched_stall : list event := [Sort 0; Pick 0].

Lemma no_deadlock_refuted : ~ no_deadlock_full.
Proof.
  intro H. specialize (H cfg_stall sched_stall).
  assert (Hd : all_done (phase_one cfg_stall sched_stall) = false) by (vm_compute; reflexivity).
  destruct (H Hd) as [e [s' Hs]]. clear H Hd.
  remember (phase_one cfg_stall sched_stall) as s eqn:E. vm_compute in E. subst s.
  destruct e as [g|g|g|g|g|g]; destruct g as [|g]; vm_compute in Hs; discriminate Hs.
Qed.

Lemma second_phase_terminates_refuted : ~ second_phase_terminates_full.
Proof.
  intro H. specialize (H cfg_stall 1%Z).
  assert (E : all_done (recheck cfg_stall 1%Z) = false) by (vm_compute; reflexivity).
  rewrite E in H. discriminate H.
Qed.

(** * Non-vacuity *)

(** the guards hold for the aliasing witnesses: delivery is proved for them *)
Example guard_on_lost : delivery_guard cfg_lost = true.
Proof. vm_compute. reflexivity. Qed.

Example lost_is_complete : complete_run cfg_lost sched_lost [1; 2]%Z.
Proof.
  split; [vm_compute; reflexivity|].
  assert (E : failed_heights (phase_one cfg_lost sched_lost) = [1; 2]%Z) by (vm_compute; reflexivity).
  rewrite E. apply Permutation_refl.
Qed.

(** ... and phase two is what saves height 1 there *)
Example lost_recovered :
  memZ 1 (delivered (rev (s_log (phase_one cfg_lost sched_lost)))) = false
  /\ memZ 1 (delivered (task_log cfg_lost sched_lost [1; 2]%Z)) = true.
Proof. split; vm_compute; reflexivity. Qed.

Definition cfg_single : config :=
  tcfg [PPeer 0; PPeer 1; PPeer 2] [9; 0; 9]%Z [[RMalformed]; [ROk]; [ROk]] 3 3.
Definition sched_single : list event :=
  [Sort 0; Pick 0; Result 0; Release 0; Remove 0; Pick 0; Result 0; Release 0].

Example single_hypotheses :
  heights cfg_single = [3%Z] /\ all_done (phase_one cfg_single sched_single) = true
  /\ distinct_peers cfg_single = true /\ no_wrong_at cfg_single 3 = true /\ few_peers cfg_single = true
  /\ servable cfg_single 3 = true /\ reask_guard cfg_single = true /\ no_stall_at cfg_single 3 = true
  /\ rev (s_log (phase_one cfg_single sched_single))
     = [OInit [0; 1; 2]; OReq 3 0; OReq 3 2; ODeliver 3 2].
Proof. repeat split; vm_compute; reflexivity. Qed.

Example steps_example :
  steps_taken cfg_lost (init_job cfg_lost) (init_state (init_job cfg_lost) (heights cfg_lost)) sched_lost = 208.
Proof. vm_compute. reflexivity. Qed.
