(** C35 — the statements of Properties.v for the repaired download code:
    delivery for all schedules (at most 50 given peers: the retry bound),
    soundness of everything handed over, progress and termination of both
    phases, "not asked again" within phase one for all schedules, the
    single-goroutine core, and the refutation that remains (the second phase
    asks again) with its witness. *)
From Coq Require Import List ZArith NArith Bool Arith Lia Permutation.
From C33 Require Import Lib.Harness C35.Model C35.Spec C35.ProofsTerm C35.ProofsSolo C35.ProofsSim
     C35.ProofsSingle C35.ProofsMulti C35.ProofsReask.
Import ListNotations.
Open Scope nat_scope.

(** * Full-strength statements *)

Definition complete_run (c : config) (sched : list event) (order : list Z) : Prop :=
  all_done (phase_one c sched) = true /\ Permutation order (failed_heights (phase_one c sched)).

Definition not_reasked_in_task_full : Prop :=
  forall c sched order, complete_run c sched order -> spec_no_reask_task c (task_log c sched order) = true.

(** * Delivery, all schedules *)

Lemma in_task_log_one c sched order o :
  In o (rev (s_log (phase_one c sched))) -> In o (task_log c sched order).
Proof. intro H. unfold task_log. apply in_or_app. left. exact H. Qed.

Lemma in_task_log_two c sched order h o :
  In h order -> In o (recheck_log c h) -> In o (task_log c sched order).
Proof.
  intros Hh Ho. unfold task_log, phase_two_log. apply in_or_app. right.
  apply in_flat_map. exists h. split; assumption.
Qed.

Lemma delivered_in tr h p : In (ODeliver h p) tr -> memZ h (delivered tr) = true.
Proof.
  intro H. unfold memZ. apply existsb_exists. exists h. split; [|apply Z.eqb_refl].
  unfold delivered. apply in_flat_map. exists (ODeliver h p). split; [exact H|left; reflexivity].
Qed.

Lemma delivers c sched order :
  few_peers c = true -> complete_run c sched order ->
  spec_delivers c (task_log c sched order) = true.
Proof.
  intros Hfew [Hd Hperm].
  unfold spec_delivers. apply forallb_forall. intros h Hh.
  destruct (servable c h) eqn:Hs; [simpl|reflexivity].
  pose proof (phase_one_inv c sched) as HI.
  destruct (height_goroutine c _ h HI Hh) as [g [Hg Hgh]].
  destruct (all_done_nth _ g Hd Hg) as [b Hpc].
  destruct b.
  - (* delivered in phase one *)
    assert (Hho : handed_over (g_pc (nth g (s_gs (phase_one c sched)) dummy_g)) = true)
      by (rewrite Hpc; reflexivity).
    destruct (inv_ok _ _ _ HI g Hho) as [p [Hp [Ha Hin]]]. rewrite Hgh in *.
    apply (delivered_in _ h p).
    apply in_task_log_one. apply in_rev in Hin. exact Hin.
  - (* failed in phase one: downloaded again in phase two *)
    pose proof (failed_in _ g Hg Hpc) as Hf. rewrite Hgh in Hf.
    apply (Permutation_in _ (Permutation_sym Hperm)) in Hf.
    destruct (recheck_delivers c h Hs Hfew) as [_ [p Hp]].
    apply (delivered_in _ h p). apply (in_task_log_two c sched order h _ Hf Hp).
Qed.

(** * Soundness: whatever is asked or handed over is justified by the inputs *)

Lemma recheck_log_ok c h o : In h (heights c) -> In o (recheck_log c h) -> log_ok c o.
Proof.
  intros Hh Ho. unfold recheck_log in Ho. apply in_rev in Ho.
  apply (inv_log _ _ _ (recheck_inv c h Hh) o Ho).
Qed.

Lemma task_log_ok c sched order o :
  (forall h, In h order -> In h (heights c)) -> In o (task_log c sched order) -> log_ok c o.
Proof.
  intros Hord Ho. unfold task_log in Ho. apply in_app_or in Ho. destruct Ho as [Ho|Ho].
  - apply (inv_log _ _ _ (phase_one_inv c sched)). apply in_rev. exact Ho.
  - unfold phase_two_log in Ho. apply in_flat_map in Ho. destruct Ho as [h [Hh Ho]].
    apply (recheck_log_ok c h o (Hord h Hh) Ho).
Qed.

Lemma failed_heights_in c sched h :
  In h (failed_heights (phase_one c sched)) -> In h (heights c).
Proof.
  intro H. rewrite <- (inv_hs _ _ _ (phase_one_inv c sched)).
  unfold failed_heights in H. apply in_map_iff in H. destruct H as [G [<- HG]].
  apply in_map. apply filter_In in HG. exact (proj1 HG).
Qed.

Lemma sound c sched order :
  complete_run c sched order -> spec_sound c (task_log c sched order) = true.
Proof.
  intros [_ Hperm]. unfold spec_sound. apply forallb_forall. intros o Ho.
  assert (Hord : forall h, In h order -> In h (heights c)).
  { intros h Hh. apply (failed_heights_in c sched). apply (Permutation_in _ Hperm Hh). }
  pose proof (task_log_ok c sched order o Hord Ho) as Hok.
  destruct o as [l|h' p|bh p]; cbn; auto.
  destruct Hok as [Hh [Hp [He Ha]]].
  rewrite (heights_in_range c bh Hh). unfold serves. rewrite He.
  destruct (c_beh c p bh); simpl in Ha; try discriminate. reflexivity.
Qed.

(** * One height: the single goroutine *)

Lemma single_goroutine_correct c h sched :
  heights c = [h] -> all_done (phase_one c sched) = true ->
  let tr := rev (s_log (phase_one c sched)) in
  (distinct_peers c = true -> no_reask_from c [] tr = true)
  /\ (few_peers c = true -> memZ h (delivered tr) = servable c h)
  /\ (forall o, In o tr -> log_ok c o).
Proof.
  intros Hh Hd. cbn zeta. rewrite (single_height_phase_one c h sched Hh Hd).
  change (rev (s_log (recheck c h))) with (recheck_log c h).
  assert (Hin : In h (heights c)) by (rewrite Hh; left; reflexivity).
  split; [apply recheck_no_reask|]. split.
  - intros Hfew. destruct (servable c h) eqn:Hs.
    + destruct (recheck_delivers c h Hs Hfew) as [_ [p Hp]]. apply (delivered_in _ h p Hp).
    + destruct (memZ h (delivered (recheck_log c h))) eqn:Hm; [|reflexivity]. exfalso.
      unfold memZ in Hm. apply existsb_exists in Hm. destruct Hm as [bh [Hbh Heq]].
      apply Z.eqb_eq in Heq. subst bh. unfold delivered in Hbh. apply in_flat_map in Hbh.
      destruct Hbh as [o [Ho Hbh]]. destruct o as [l|h' p|bh p]; try contradiction.
      destruct Hbh as [->|[]].
      pose proof (recheck_events c h _ Ho) as [Hp [He [Ha Hbh]]].
      assert (Hsv : servable c h = true).
      { unfold servable. apply existsb_exists. exists p. split; [exact Hp|].
        unfold serves. rewrite He. destruct (c_beh c p h); simpl in Ha; try discriminate; reflexivity. }
      congruence.
  - intros o Ho. apply (recheck_log_ok c h o Hin Ho).
Qed.

(** * Progress *)

Lemma no_deadlock c sched :
  all_done (phase_one c sched) = false ->
  exists e s', step c (init_job c) (phase_one c sched) e = Some s'.
Proof. apply progress. Qed.

Lemma second_phase_terminates c h : all_done (recheck c h) = true.
Proof. apply recheck_done. Qed.

(** * Not asked again within the task, when no height fails in phase one *)

Lemma not_reasked_in_task_partial c sched :
  complete_run c sched [] -> spec_no_reask_task c (task_log c sched []) = true.
Proof.
  intros _. unfold spec_no_reask_task, task_log, phase_two_log. cbn [flat_map]. rewrite app_nil_r.
  destruct (distinct_peers c) eqn:Hd; [simpl|reflexivity].
  apply phase_one_no_reask. exact Hd.
Qed.

(** * Witnesses *)

Definition tcfg (pids : list pid_entry) (adv : list Z) (beh : list (list resp)) (st en : Z) : config :=
  mkConfig pids [] (fun _ => 0%N) (fun p => nth p adv (-1)%Z)
           (fun p h => nth (Z.to_nat (h - st)) (nth p beh []) RRefuse) st en.

(** one refusing peer: asked in phase one, and again by checkTask *)
Definition cfg_again : config := tcfg [PPeer 0] [5]%Z [[RRefuse]] 1 1.
Definition sched_again : list event := [Sort 0; Pick 0; Result 0; Release 0; Remove 0; Pick 0].

Lemma not_reasked_in_task_refuted : ~ not_reasked_in_task_full.
Proof.
  intro H. specialize (H cfg_again sched_again [1%Z]).
  assert (Hc : complete_run cfg_again sched_again [1%Z]).
  { split; [vm_compute; reflexivity|].
    assert (E : failed_heights (phase_one cfg_again sched_again) = [1%Z]) by (vm_compute; reflexivity).
    rewrite E. apply Permutation_refl. }
  specialize (H Hc).
  assert (E : spec_no_reask_task cfg_again (task_log cfg_again sched_again [1%Z]) = false)
    by (vm_compute; reflexivity).
  rewrite E in H. clear E. discriminate H.
Qed.

(** * Non-vacuity and regression examples *)

(** the former aliasing witnesses (two heights, interleaved removals): every
    servable height is now delivered in phase one and nobody is asked twice *)
Definition cfg_reask : config :=
  tcfg [PPeer 0; PPeer 1] [1; 2]%Z [[RRefuse; ROk]; [ROk; RRefuse]] 1 2.
Definition sched_reask : list event :=
  [Sort 0; Pick 0; Sort 1; Pick 1;
   Result 0; Release 0; Remove 0; Pick 0;
   Result 1; Release 1; Remove 1; Pick 1;
   Result 0; Release 0]
  ++ flat_map (fun _ => [Sleep 1; Pick 1]) (seq 0 51).

Definition cfg_lost : config :=
  tcfg [PPeer 0; PPeer 1; PPeer 2] [1; 2; 0]%Z [[RRefuse; ROk]; [ROk; RRefuse]; [ROk; ROk]] 1 2.
Definition sched_lost : list event :=
  [Sort 0; Pick 0; Sort 1; Pick 1;
   Result 1; Release 1; Remove 1; Pick 1;
   Result 0; Release 0; Remove 0; Pick 0;
   Result 0; Release 0]
  ++ flat_map (fun _ => [Sleep 1; Pick 1]) (seq 0 51).

Example lost_is_complete : complete_run cfg_lost sched_lost [2]%Z.
Proof.
  split; [vm_compute; reflexivity|].
  assert (E : failed_heights (phase_one cfg_lost sched_lost) = [2]%Z) by (vm_compute; reflexivity).
  rewrite E. apply Permutation_refl.
Qed.

Example lost_no_longer_lost :
  few_peers cfg_lost = true /\ servable cfg_lost 1 = true /\ servable cfg_lost 2 = false
  /\ rev (s_log (phase_one cfg_lost sched_lost))
     = [OInit [0; 1; 2]; OReq 1%Z 0; OReq 2%Z 1; OReq 1%Z 1; ODeliver 1%Z 1].
Proof. repeat split; vm_compute; reflexivity. Qed.

Example reask_no_longer :
  all_done (phase_one cfg_reask sched_reask) = true
  /\ rev (s_log (phase_one cfg_reask sched_reask))
     = [OInit [0; 1]; OReq 1%Z 0; OReq 2%Z 1; OReq 1%Z 1; ODeliver 1%Z 1].
Proof. split; vm_compute; reflexivity. Qed.

(** a wrong-height answer and a silent peer are failures like any other: the
    healthy second peer is asked and the height is delivered *)
Definition cfg_wrong : config := tcfg [PPeer 0; PPeer 1] [5; 5]%Z [[RWrong 2]; [ROk]] 1 1.
Definition cfg_stall : config := tcfg [PPeer 0; PPeer 1] [5; 5]%Z [[RStall]; [ROk]] 1 1.
Definition sched_two : list event :=
  [Sort 0; Pick 0; Result 0; Release 0; Remove 0; Pick 0; Result 0; Release 0].

Example wrong_and_stall_tolerated :
  complete_run cfg_wrong sched_two [] /\ complete_run cfg_stall sched_two []
  /\ task_log cfg_wrong sched_two [] = [OInit [0; 1]; OReq 1%Z 0; OReq 1%Z 1; ODeliver 1%Z 1]
  /\ task_log cfg_stall sched_two [] = [OInit [0; 1]; OReq 1%Z 0; OReq 1%Z 1; ODeliver 1%Z 1].
Proof.
  split; [|split; [|split; vm_compute; reflexivity]].
  - split; [vm_compute; reflexivity|].
    assert (E : failed_heights (phase_one cfg_wrong sched_two) = []) by (vm_compute; reflexivity).
    rewrite E. apply perm_nil.
  - split; [vm_compute; reflexivity|].
    assert (E : failed_heights (phase_one cfg_stall sched_two) = []) by (vm_compute; reflexivity).
    rewrite E. apply perm_nil.
Qed.

Definition cfg_single : config :=
  tcfg [PPeer 0; PPeer 1; PPeer 2] [9; 0; 9]%Z [[RMalformed]; [ROk]; [ROk]] 3 3.
Definition sched_single : list event :=
  [Sort 0; Pick 0; Result 0; Release 0; Remove 0; Pick 0; Result 0; Release 0].

Example single_hypotheses :
  heights cfg_single = [3%Z] /\ all_done (phase_one cfg_single sched_single) = true
  /\ distinct_peers cfg_single = true /\ few_peers cfg_single = true
  /\ servable cfg_single 3 = true
  /\ rev (s_log (phase_one cfg_single sched_single))
     = [OInit [0; 1; 2]; OReq 3%Z 0; OReq 3%Z 2; ODeliver 3%Z 2].
Proof. repeat split; vm_compute; reflexivity. Qed.

(** the guard [few_peers] cannot be dropped: the retry bound of downloadBlock
    is 50 in both phases.  51 task entries, the first 50 refuse: the servable
    height is asked 50 times in phase one, 50 times in phase two, and is not
    delivered. *)
Definition cfg_many : config :=
  mkConfig (map PPeer (seq 0 51)) [] (fun _ => 0%N) (fun _ => 5%Z)
           (fun p _ => if p =? 50 then ROk else RRefuse) 1 1.
Definition sched_many : list event :=
  Sort 0 :: flat_map (fun _ => [Pick 0; Result 0; Release 0; Remove 0]) (seq 0 51).

Example few_peers_needed :
  few_peers cfg_many = false /\ servable cfg_many 1 = true
  /\ all_done (phase_one cfg_many sched_many) = true
  /\ failed_heights (phase_one cfg_many sched_many) = [1%Z]
  /\ spec_delivers cfg_many (task_log cfg_many sched_many [1%Z]) = false.
Proof. repeat split; vm_compute; reflexivity. Qed.

Example steps_example :
  steps_taken cfg_lost (init_job cfg_lost) (init_state (init_job cfg_lost) (heights cfg_lost)) sched_lost = 112.
Proof. vm_compute. reflexivity. Qed.

(** * The guard of the delivery theorem, spelled out

    [servable c h]: some peer of the task list REPORTS a height >= h (the
    value availbTask reads from PeerInfoManager.PeerHeight) and answers h with
    the block of height h.  Nothing is asked of the latencies (the order in
    which availbTask walks the list) or of the other peers' reported heights:
    a peer that is behind h may sort before every peer that has it. *)
Lemma servable_iff c h :
  servable c h = true <->
  exists p, In p (job_peers c) /\ (h <= c_adv c p)%Z /\ c_beh c p h = ROk.
Proof.
  unfold servable. rewrite existsb_exists. split.
  - intros [p [Hin Hs]]. exists p. unfold serves in Hs.
    apply andb_true_iff in Hs. destruct Hs as [Hle Hb].
    apply Z.leb_le in Hle. split; [exact Hin|]. split; [exact Hle|].
    destruct (c_beh c p h); try discriminate Hb. reflexivity.
  - intros [p [Hin [Hle Hb]]]. exists p. split; [exact Hin|].
    unfold serves. rewrite Hb. apply Z.leb_le in Hle. rewrite Hle. reflexivity.
Qed.

Lemma delivers_guard_explicit c sched order h :
  few_peers c = true -> complete_run c sched order -> In h (heights c) ->
  (exists p, In p (job_peers c) /\ (h <= c_adv c p)%Z /\ c_beh c p h = ROk) ->
  memZ h (delivered (task_log c sched order)) = true.
Proof.
  intros Hfew Hrun Hh Hex.
  pose proof (delivers c sched order Hfew Hrun) as Hd.
  unfold spec_delivers in Hd. rewrite forallb_forall in Hd. specialize (Hd h Hh).
  apply servable_iff in Hex. rewrite Hex in Hd. exact Hd.
Qed.

(** mixed reported heights, the peer that is behind sorts first: "near" (1 ms)
    reports 5, "far" (5 ms) reports 8, heights 4..6, near refuses 6 (it is not
    asked for it).  availbTask passes over near for height 6. *)
Definition cfg_behind : config :=
  mkConfig [PPeer 0; PPeer 1] []
           (fun p => nth p [1000000; 5000000]%N 0%N) (fun p => nth p [5; 8]%Z (-1)%Z)
           (fun p h => nth (Z.to_nat (h - 4)) (nth p [[ROk; ROk; RRefuse]; [ROk; ROk; ROk]] []) RRefuse)
           4 6.
Definition sched_behind : list event :=
  [Sort 0; Pick 0; Sort 1; Pick 1; Sort 2; Pick 2;
   Result 2; Release 2; Result 1; Release 1; Result 0; Release 0].

Example behind_peer_first :
  few_peers cfg_behind = true /\ complete_run cfg_behind sched_behind []
  /\ forallb (servable cfg_behind) (heights cfg_behind) = true
  /\ sort_tasks (init_job cfg_behind) [0; 1] = [0; 1]
  /\ (c_adv cfg_behind 0 <? 6)%Z = true
  /\ task_log cfg_behind sched_behind []
     = [OInit [0; 1]; OReq 4%Z 0; OReq 5%Z 0; OReq 6%Z 1; ODeliver 6%Z 1; ODeliver 5%Z 0; ODeliver 4%Z 0].
Proof.
  split; [vm_compute; reflexivity|]. split; [|repeat split; vm_compute; reflexivity].
  split; [vm_compute; reflexivity|].
  assert (E : failed_heights (phase_one cfg_behind sched_behind) = []) by (vm_compute; reflexivity).
  rewrite E. apply perm_nil.
Qed.
