(** C35 — Block download delivers every servable height. *)
From Coq Require Import List ZArith NArith Bool Arith Permutation.
From C33 Require Import Lib.Harness C35.Model C35.Spec C35.ProofsTerm C35.ProofsSolo C35.ProofsSim
     C35.ProofsSingle C35.ProofsMulti C35.ProofsMain.
Import ListNotations.

(** Under every schedule of the height goroutines at most 313 events per
    height happen (no livelock) ... *)
Theorem C35_terminates : forall c sched,
  (steps_taken c (init_job c) (init_state (init_job c) (heights c)) sched
   <= length (heights c) * per_height_bound)%nat.
Proof. exact terminates. Qed.
Print Assumptions C35_terminates.

(** ... but a goroutine can wait for ever: a peer that accepts the stream and
    never answers blocks ReadStream (no deadline), in phase one and in phase two. *)
Theorem C35_no_deadlock_refuted : ~ no_deadlock_full.
Proof. exact no_deadlock_refuted. Qed.
Print Assumptions C35_no_deadlock_refuted.

Theorem C35_second_phase_terminates_refuted : ~ second_phase_terminates_full.
Proof. exact second_phase_terminates_refuted. Qed.
Print Assumptions C35_second_phase_terminates_refuted.

(** Without silent peers no reachable state is stuck before every goroutine
    has returned, and every re-download of the second phase returns. *)
Theorem C35_no_deadlock_partial : forall c sched,
  no_stall c = true -> all_done (phase_one c sched) = false ->
  exists e s', step c (init_job c) (phase_one c sched) e = Some s'.
Proof. exact no_deadlock_partial. Qed.
Print Assumptions C35_no_deadlock_partial.

Theorem C35_second_phase_terminates_partial : forall c h,
  no_stall_at c h = true -> all_done (recheck c h) = true.
Proof. exact second_phase_terminates_partial. Qed.
Print Assumptions C35_second_phase_terminates_partial.

(** One height (no aliasing possible): for every complete schedule a failed
    peer is never asked again, the height is delivered iff some given peer
    serves it (no wrong-height answers, at most 50 peers), and everything asked
    or handed over is justified by the inputs. *)
Theorem C35_single_goroutine_correct : forall c h sched,
  heights c = [h] -> all_done (phase_one c sched) = true ->
  let tr := rev (s_log (phase_one c sched)) in
  (no_stall_at c h = true -> distinct_peers c = true -> no_reask_from c [] tr = true)
  /\ (no_stall_at c h = true -> no_wrong_at c h = true -> few_peers c = true ->
      memZ h (delivered tr) = servable c h)
  /\ (forall o, In o tr -> log_ok c o).
Proof. exact single_goroutine_correct. Qed.
Print Assumptions C35_single_goroutine_correct.

(** Delivery of every servable height, all schedules, both phases. *)
Theorem C35_delivers_if_servable_refuted : ~ delivers_if_servable_full.
Proof. exact delivers_refuted. Qed.
Print Assumptions C35_delivers_if_servable_refuted.

Theorem C35_delivers_if_servable_partial : forall c sched order,
  delivery_guard c = true -> complete_run c sched order ->
  spec_delivers c (task_log c sched order) = true.
Proof. exact delivers_partial. Qed.
Print Assumptions C35_delivers_if_servable_partial.

(** Phase one alone loses servable heights through the shared array (the
    second phase is what makes the partial theorem above true). *)
Theorem C35_phase_one_delivers_refuted : ~ phase_one_delivers_full.
Proof. exact phase_one_delivers_refuted. Qed.
Print Assumptions C35_phase_one_delivers_refuted.

(** Only blocks of the range from peers that serve them are handed over. *)
Theorem C35_delivered_only_served_partial : forall c sched order,
  no_wrong_height c = true -> complete_run c sched order ->
  spec_sound c (task_log c sched order) = true.
Proof. exact sound_partial. Qed.
Print Assumptions C35_delivered_only_served_partial.

(** Unguarded form: whatever is asked or handed over under any schedule is
    justified by the inputs (a peer of the list, high enough, that answered
    with a block). *)
Theorem C35_trace_justified : forall c sched order o,
  (forall h, In h order -> In h (heights c)) -> In o (task_log c sched order) -> log_ok c o.
Proof. exact task_log_ok. Qed.
Print Assumptions C35_trace_justified.

(** A failed peer is not asked again within phase one. *)
Theorem C35_failed_peer_not_reasked_refuted : ~ failed_peer_not_reasked_full.
Proof. exact not_reasked_refuted. Qed.
Print Assumptions C35_failed_peer_not_reasked_refuted.

Theorem C35_failed_peer_not_reasked_partial : forall c sched,
  reask_guard c = true -> all_done (phase_one c sched) = true ->
  spec_no_reask_phase_one c (rev (s_log (phase_one c sched))) = true.
Proof. exact not_reasked_partial. Qed.
Print Assumptions C35_failed_peer_not_reasked_partial.

(** ... and not within the whole task either (the second phase asks again). *)
Theorem C35_not_reasked_in_task_refuted : ~ not_reasked_in_task_full.
Proof. exact not_reasked_in_task_refuted. Qed.
Print Assumptions C35_not_reasked_in_task_refuted.

(** The hypotheses above are satisfiable by non-trivial runs. *)
Theorem C35_hypotheses_satisfiable :
  (delivery_guard cfg_lost = true /\ complete_run cfg_lost sched_lost [1; 2]%Z)
  /\ (heights cfg_single = [3%Z] /\ all_done (phase_one cfg_single sched_single) = true
      /\ distinct_peers cfg_single = true /\ no_wrong_at cfg_single 3 = true /\ few_peers cfg_single = true
      /\ servable cfg_single 3 = true /\ reask_guard cfg_single = true /\ no_stall_at cfg_single 3 = true
      /\ rev (s_log (phase_one cfg_single sched_single))
         = [OInit [0; 1; 2]; OReq 3%Z 0; OReq 3%Z 2; ODeliver 3%Z 2]%nat).
Proof. exact (conj (conj guard_on_lost lost_is_complete) single_hypotheses). Qed.
Print Assumptions C35_hypotheses_satisfiable.
