(** C35 — Block download delivers every servable height. *)
From Coq Require Import List ZArith NArith Bool Arith Permutation.
From C33 Require Import Lib.Harness C35.Model C35.Spec C35.ProofsTerm C35.ProofsSolo C35.ProofsSim
     C35.ProofsSingle C35.ProofsMulti C35.ProofsReask C35.ProofsMain.
Import ListNotations.

(** Under every schedule of the height goroutines at most 313 events per
    height happen (no livelock) ... *)
Theorem C35_terminates : forall c sched,
  (steps_taken c (init_job c) (init_state (init_job c) (heights c)) sched
   <= length (heights c) * per_height_bound)%nat.
Proof. exact terminates. Qed.
Print Assumptions C35_terminates.

(** ... and no reachable state is stuck before every goroutine has returned:
    every request ends (block, error, or the 10 s stream deadline) ... *)
Theorem C35_no_deadlock : forall c sched,
  all_done (phase_one c sched) = false ->
  exists e s', step c (init_job c) (phase_one c sched) e = Some s'.
Proof. exact no_deadlock. Qed.
Print Assumptions C35_no_deadlock.

(** ... and every re-download of the second phase returns. *)
Theorem C35_second_phase_terminates : forall c h, all_done (recheck c h) = true.
Proof. exact second_phase_terminates. Qed.
Print Assumptions C35_second_phase_terminates.

(** One height: for every complete schedule a failed peer is never asked
    again, the height is delivered iff some given peer serves it (at most 50
    peers), and everything asked or handed over is justified by the inputs. *)
Theorem C35_single_goroutine_correct : forall c h sched,
  heights c = [h] -> all_done (phase_one c sched) = true ->
  let tr := rev (s_log (phase_one c sched)) in
  (distinct_peers c = true -> no_reask_from c [] tr = true)
  /\ (few_peers c = true -> memZ h (delivered tr) = servable c h)
  /\ (forall o, In o tr -> log_ok c o).
Proof. exact single_goroutine_correct. Qed.
Print Assumptions C35_single_goroutine_correct.

(** Delivery of every servable height, all schedules, both phases, whatever
    the other peers do (refuse, malformed, wrong height, silence).  The only
    guard is the retry bound of downloadBlock: at most 50 given peers. *)
Theorem C35_delivers_if_servable : forall c sched order,
  few_peers c = true -> complete_run c sched order ->
  spec_delivers c (task_log c sched order) = true.
Proof. exact delivers. Qed.
Print Assumptions C35_delivers_if_servable.

(** The same with the guard written out: a height of the range is delivered as
    soon as SOME listed peer reports a height >= it (PeerInfoManager.PeerHeight,
    the value availbTask filters on) and serves it - for every latency function
    (the order in which availbTask walks the list) and whatever heights the
    other peers report: a peer that is behind may sort before every peer that
    has the block. *)
Theorem C35_delivers_guard_explicit : forall c sched order h,
  few_peers c = true -> complete_run c sched order -> In h (heights c) ->
  (exists p, In p (job_peers c) /\ (h <= c_adv c p)%Z /\ c_beh c p h = ROk) ->
  memZ h (delivered (task_log c sched order)) = true.
Proof. exact delivers_guard_explicit. Qed.
Print Assumptions C35_delivers_guard_explicit.

(** Non-vacuity for that class: the fastest peer reports 5, the slow one 8,
    heights 4..6 - 6 is asked of (and delivered by) the slow peer only. *)
Theorem C35_behind_peer_first_example :
  few_peers cfg_behind = true /\ complete_run cfg_behind sched_behind []
  /\ forallb (servable cfg_behind) (heights cfg_behind) = true
  /\ sort_tasks (init_job cfg_behind) [0; 1]%nat = [0; 1]%nat
  /\ (c_adv cfg_behind 0 <? 6)%Z = true
  /\ task_log cfg_behind sched_behind []
     = [OInit [0; 1]; OReq 4%Z 0; OReq 5%Z 0; OReq 6%Z 1; ODeliver 6%Z 1; ODeliver 5%Z 0; ODeliver 4%Z 0]%nat.
Proof. exact behind_peer_first. Qed.
Print Assumptions C35_behind_peer_first_example.

(** Only blocks of the range from peers that serve them are handed over. *)
Theorem C35_delivered_only_served : forall c sched order,
  complete_run c sched order -> spec_sound c (task_log c sched order) = true.
Proof. exact sound. Qed.
Print Assumptions C35_delivered_only_served.

(** Whatever is asked or handed over under any schedule is justified by the
    inputs (a peer of the list, high enough, that answered with the block). *)
Theorem C35_trace_justified : forall c sched order o,
  (forall h, In h order -> In h (heights c)) -> In o (task_log c sched order) -> log_ok c o.
Proof. exact task_log_ok. Qed.
Print Assumptions C35_trace_justified.

(** A failed peer is not asked again within phase one: any number of heights,
    every schedule, complete or not. *)
Theorem C35_failed_peer_not_reasked : forall c sched,
  spec_no_reask_phase_one c (rev (s_log (phase_one c sched))) = true.
Proof. exact not_reasked. Qed.
Print Assumptions C35_failed_peer_not_reasked.

(** Within the whole task it is: the second phase rebuilds the peer list and
    asks again (open finding) ... *)
Theorem C35_not_reasked_in_task_refuted : ~ not_reasked_in_task_full.
Proof. exact not_reasked_in_task_refuted. Qed.
Print Assumptions C35_not_reasked_in_task_refuted.

(** ... so the clause holds for the task when no height fails in phase one. *)
Theorem C35_not_reasked_in_task_partial : forall c sched,
  complete_run c sched [] -> spec_no_reask_task c (task_log c sched []) = true.
Proof. exact not_reasked_in_task_partial. Qed.
Print Assumptions C35_not_reasked_in_task_partial.

(** The hypotheses above are satisfiable by non-trivial runs. *)
Theorem C35_hypotheses_satisfiable :
  (few_peers cfg_lost = true /\ complete_run cfg_lost sched_lost [2]%Z)
  /\ (complete_run cfg_wrong sched_two [] /\ complete_run cfg_stall sched_two []
      /\ task_log cfg_wrong sched_two [] = [OInit [0; 1]; OReq 1%Z 0; OReq 1%Z 1; ODeliver 1%Z 1]%nat
      /\ task_log cfg_stall sched_two [] = [OInit [0; 1]; OReq 1%Z 0; OReq 1%Z 1; ODeliver 1%Z 1]%nat)
  /\ (heights cfg_single = [3%Z] /\ all_done (phase_one cfg_single sched_single) = true
      /\ distinct_peers cfg_single = true /\ few_peers cfg_single = true
      /\ servable cfg_single 3 = true
      /\ rev (s_log (phase_one cfg_single sched_single))
         = [OInit [0; 1; 2]; OReq 3%Z 0; OReq 3%Z 2; ODeliver 3%Z 2]%nat).
Proof.
  exact (conj (conj (proj1 lost_no_longer_lost) lost_is_complete)
              (conj wrong_and_stall_tolerated single_hypotheses)).
Qed.
Print Assumptions C35_hypotheses_satisfiable.
