(** C35 — one goroutine alone (a task with one height, and every re-download
    of phase two): the loop of downloadBlock as a plain recursive function
    [solo] over the goroutine's view, and what it guarantees.  The simulation
    of the transition system by [solo] is in ProofsSim.v. *)
From Coq Require Import List ZArith NArith Bool Arith Lia Permutation.
From C33 Require Import Lib.Harness C35.Model C35.Spec C35.ProofsTerm.
Import ListNotations.
Open Scope nat_scope.

Definition zeros (n : nat) : list Z := repeat 0%Z n.

(** the loop: [k] bounds the number of iterations, [n] is the number of tasks *)
Fixpoint solo (c : config) (ts : list task) (n : nat) (h : Z) (k : nat) (view : list nat) (retry : nat)
  : list obs * bool :=
  match k with
  | O => ([], false)
  | S k' =>
      match view with
      | [] => ([], false)
      | _ :: _ =>
          if max_retry <? S retry then ([], false)
          else match scan c ts (zeros n) h (limit_of (length view)) view 0 with
               | None => solo c ts n h k' view (S retry)
               | Some (t, _) =>
                   let p := task_peer ts t in
                   if accepted (c_beh c p h) then ([OReq h p; ODeliver h p], true)
                   else let r := solo c ts n h k' (without t view) (S retry) in
                        (OReq h p :: fst r, snd r)
               end
      end
  end.

(** * scan *)

Lemma scan_some c ts tnum h lim view : forall i0 t i,
  scan c ts tnum h lim view i0 = Some (t, i) ->
  i0 <= i /\ i - i0 < length view /\ nth (i - i0) view 0 = t
  /\ (c_adv c (task_peer ts t) <? h)%Z = false /\ (nth t tnum 0%Z <? lim)%Z = true.
Proof.
  induction view as [|x view IH]; intros i0 t i H; simpl in H; [discriminate|].
  destruct (c_adv c (task_peer ts x) <? h)%Z eqn:Ha.
  - destruct (IH _ _ _ H) as [H1 [H2 [H3 H4]]].
    replace (i - i0) with (S (i - S i0)) by lia. simpl. repeat split; try lia; auto.
  - destruct (nth x tnum 0%Z <? lim)%Z eqn:Hl.
    + inversion H; subst. rewrite Nat.sub_diag. simpl. repeat split; auto; lia.
    + destruct (IH _ _ _ H) as [H1 [H2 [H3 H4]]].
      replace (i - i0) with (S (i - S i0)) by lia. simpl. repeat split; try lia; auto.
Qed.

Lemma limit_ge_20 v : (20 <= limit_of v)%Z.
Proof.
  unfold limit_of. destruct (128 / Z.of_nat v <? 20)%Z eqn:H1; [lia|].
  destruct (50 <? 128 / Z.of_nat v)%Z eqn:H2; [lia|]. apply Z.ltb_ge in H1. exact H1.
Qed.

Lemma nth_zeros n t : nth t (zeros n) 0%Z = 0%Z.
Proof.
  unfold zeros. destruct (Nat.lt_ge_cases t n) as [Hl|Hl].
  - apply nth_repeat.
  - apply nth_overflow. rewrite repeat_length. exact Hl.
Qed.

(** with all counters at zero the scan fails only when no peer of the view is high enough *)
Lemma scan_none_zeros c ts n h v view : forall i0,
  scan c ts (zeros n) h (limit_of v) view i0 = None ->
  forallb (fun t => (c_adv c (task_peer ts t) <? h)%Z) view = true.
Proof.
  induction view as [|x view IH]; intros i0 H; simpl in *; [reflexivity|].
  destruct (c_adv c (task_peer ts x) <? h)%Z; simpl.
  - apply (IH _ H).
  - rewrite nth_zeros in H. pose proof (limit_ge_20 v).
    destruct (0 <? limit_of v)%Z eqn:Hz; [discriminate|]. apply Z.ltb_ge in Hz. lia.
Qed.

(** * without *)

Lemma without_in t l x : In x (without t l) <-> In x l /\ x <> t.
Proof.
  unfold without. rewrite filter_In. split; intros [H1 H2]; (split; [exact H1|]).
  - apply negb_true_iff in H2. apply Nat.eqb_neq in H2. exact H2.
  - apply negb_true_iff. apply Nat.eqb_neq. exact H2.
Qed.

Lemma without_length_le t l : length (without t l) <= length l.
Proof.
  unfold without. induction l as [|y l IH]; simpl; [lia|].
  destruct (negb (y =? t)); simpl; lia.
Qed.

Lemma without_length_lt t l : In t l -> length (without t l) < length l.
Proof.
  unfold without. induction l as [|y l IH]; intro H; [inversion H|]. simpl.
  destruct (Nat.eqb_spec y t) as [->|Hne]; simpl.
  - pose proof (without_length_le t l) as Hle. unfold without in Hle. lia.
  - destruct H as [H|H]; [congruence|]. specialize (IH H). lia.
Qed.

Lemma nodup_map_inj {A B} (f : A -> B) (l : list A) x y :
  NoDup (map f l) -> In x l -> In y l -> f x = f y -> x = y.
Proof.
  induction l as [|z l IH]; intros Hnd Hx Hy Heq; [inversion Hx|].
  simpl in Hnd. inversion Hnd as [|? ? Hz Hnd']; subst.
  destruct Hx as [->|Hx]; destruct Hy as [->|Hy]; auto.
  - exfalso. apply Hz. rewrite Heq. apply in_map. exact Hy.
  - exfalso. apply Hz. rewrite <- Heq. apply in_map. exact Hx.
Qed.

Lemma nodup_map_without {B} (f : nat -> B) t (l : list nat) :
  NoDup (map f l) -> NoDup (map f (without t l)).
Proof.
  unfold without. induction l as [|y l IH]; intro Hnd; simpl; [constructor|].
  simpl in Hnd. inversion Hnd as [|? ? Hy Hnd']; subst.
  destruct (negb (y =? t)); simpl; [|apply IH; exact Hnd'].
  constructor; [|apply IH; exact Hnd'].
  intro Hin. apply Hy. apply in_map_iff in Hin. destruct Hin as [z [Hz Hin]].
  apply in_map_iff. exists z. split; [exact Hz|]. apply filter_In in Hin. exact (proj1 Hin).
Qed.

Lemma map_without_notin {B} (f : nat -> B) t (l : list nat) :
  NoDup (map f l) -> In t l -> ~ In (f t) (map f (without t l)).
Proof.
  intros Hnd Ht Hin. apply in_map_iff in Hin. destruct Hin as [z [Hz Hin]].
  apply without_in in Hin. destruct Hin as [Hzl Hne].
  apply Hne. apply (nodup_map_inj f l z t Hnd Hzl Ht Hz).
Qed.

(** * Requests of [solo] *)

Definition req_peers (l : list obs) : list nat :=
  flat_map (fun o => match o with OReq _ p => [p] | _ => [] end) l.

Definition req_heights_ok (h : Z) (l : list obs) : Prop :=
  forall o, In o l -> match o with OReq h' _ => h' = h | _ => True end.

Lemma solo_requests c ts n h : forall k view retry,
  NoDup (map (task_peer ts) view) ->
  NoDup (req_peers (fst (solo c ts n h k view retry)))
  /\ incl (req_peers (fst (solo c ts n h k view retry))) (map (task_peer ts) view)
  /\ req_heights_ok h (fst (solo c ts n h k view retry)).
Proof.
  induction k as [|k IH]; intros view retry Hnd.
  - simpl. repeat split; [constructor|intros x []|intros o []].
  - cbn [solo]. destruct view as [|x view'] eqn:Hv.
    { simpl. repeat split; [constructor|intros y []|intros o []]. }
    rewrite <- Hv in *. clear Hv.
    destruct (max_retry <? S retry).
    { simpl. repeat split; [constructor|intros y []|intros o []]. }
    destruct (scan c ts (zeros n) h (limit_of (length view)) view 0) as [[t i]|] eqn:Hs.
    + destruct (scan_some _ _ _ _ _ _ _ _ _ Hs) as [_ [Hi [Hnth _]]]. rewrite Nat.sub_0_r in *.
      assert (Ht : In t view) by (rewrite <- Hnth; apply nth_In; exact Hi).
      destruct (accepted (c_beh c (task_peer ts t) h)).
      * cbn [fst req_peers flat_map app]. repeat split.
        -- constructor; [intros []|constructor].
        -- intros y [<-|[]]. apply in_map. exact Ht.
        -- intros o [<-|[<-|[]]]; auto.
      * cbn [fst snd].
        pose proof (nodup_map_without (task_peer ts) t view Hnd) as Hnd'.
        pose proof (map_without_notin (task_peer ts) t view Hnd Ht) as Hnotin.
        destruct (IH (without t view) (S retry) Hnd') as [H1 [H2 H3]].
        cbn [req_peers flat_map app]. fold (req_peers (fst (solo c ts n h k (without t view) (S retry)))).
        repeat split.
        -- constructor; [|exact H1]. intro Hin. apply Hnotin. apply H2. exact Hin.
        -- intros y [<-|Hy].
           ++ apply in_map. exact Ht.
           ++ specialize (H2 y Hy). apply in_map_iff in H2. destruct H2 as [z [Hz Hin]].
              apply in_map_iff. exists z. split; [exact Hz|]. apply without_in in Hin. exact (proj1 Hin).
        -- intros o [<-|Ho]; [reflexivity|]. apply (H3 o Ho).
    + apply (IH view (S retry) Hnd).
Qed.

(** [no_reask_from] holds for a trace whose requests go to distinct peers not asked before *)
Lemma no_reask_from_distinct c h : forall tr seen,
  req_heights_ok h tr -> NoDup (req_peers tr) ->
  (forall p, In p (req_peers tr) -> pair_mem h p seen = false) ->
  no_reask_from c seen tr = true.
Proof.
  induction tr as [|o tr IH]; intros seen Hh Hnd Hseen; [reflexivity|].
  assert (Hh' : req_heights_ok h tr) by (intros o' Ho'; apply Hh; right; exact Ho').
  destruct o as [l|h' p|bh p]; cbn [no_reask_from].
  - apply IH; auto.
  - assert (h' = h) by (apply (Hh (OReq h' p)); left; reflexivity). subst h'.
    cbn [req_peers flat_map app] in Hnd, Hseen. fold (req_peers tr) in Hnd, Hseen.
    inversion Hnd as [|? ? Hp Hnd']; subst.
    rewrite (Hseen p (or_introl eq_refl)). rewrite andb_false_r.
    apply IH; auto. intros q Hq. unfold pair_mem. cbn [existsb fst snd].
    change (existsb (fun x : Z * nat => (fst x =? h)%Z && (snd x =? q)) seen) with (pair_mem h q seen).
    rewrite (Hseen q (or_intror Hq)). rewrite orb_false_r.
    destruct (Nat.eqb_spec p q) as [->|Hne]; [contradiction|]. apply andb_false_r.
  - apply IH; auto.
Qed.

(** * Deliveries of [solo] *)

Definition good (c : config) (ts : list task) (h : Z) (t : nat) : bool := serves c (task_peer ts t) h.

Lemma existsb_without (f : nat -> bool) (l : list nat) t :
  existsb f l = true -> f t = false -> existsb f (without t l) = true.
Proof.
  intros He Hf. apply existsb_exists in He. destruct He as [x [Hin Hx]].
  apply existsb_exists. exists x. split; [|exact Hx].
  apply without_in. split; [exact Hin|]. intro Heq. rewrite Heq in Hx. congruence.
Qed.

(** completeness: a serving peer in the view and room in the retry budget =>
    the height is delivered *)
Lemma solo_delivers c ts n h : forall k view retry,
  existsb (good c ts h) view = true ->
  retry + length view <= max_retry -> 51 - retry <= k ->
  snd (solo c ts n h k view retry) = true
  /\ exists p, In (ODeliver h p) (fst (solo c ts n h k view retry)).
Proof.
  induction k as [|k IH]; intros view retry Hex Hlen Hk; [unfold max_retry in *; lia|].
  cbn [solo]. destruct view as [|x view'] eqn:Hv; [discriminate|]. rewrite <- Hv in *.
  assert (Hpos : 0 < length view) by (rewrite Hv; simpl; lia). clear Hv.
  destruct (max_retry <? S retry) eqn:Hr; [apply Nat.ltb_lt in Hr; lia|].
  destruct (scan c ts (zeros n) h (limit_of (length view)) view 0) as [[t i]|] eqn:Hs.
  - destruct (scan_some _ _ _ _ _ _ _ _ _ Hs) as [_ [Hi [Hnth [Hadv _]]]]. rewrite Nat.sub_0_r in *.
    assert (Ht : In t view) by (rewrite <- Hnth; apply nth_In; exact Hi).
    destruct (accepted (c_beh c (task_peer ts t) h)) eqn:Ha.
    + split; [reflexivity|]. exists (task_peer ts t). right. left. reflexivity.
    + assert (Hng : good c ts h t = false).
      { unfold good, serves. destruct (c_beh c (task_peer ts t) h); simpl in Ha; try discriminate;
          apply andb_false_r. }
      destruct (IH (without t view) (S retry) (existsb_without _ _ _ Hex Hng)) as [H1 [p Hp]].
      * pose proof (without_length_lt t view Ht). lia.
      * lia.
      * cbn [fst snd]. split; [exact H1|]. exists p. right. exact Hp.
  - exfalso. pose proof (scan_none_zeros _ _ _ _ _ _ _ Hs) as Hall.
    apply existsb_exists in Hex. destruct Hex as [t [Hin Hg]].
    pose proof (proj1 (forallb_forall _ _) Hall t Hin) as Hlow. cbv beta in Hlow.
    unfold good, serves in Hg. apply andb_true_iff in Hg. destruct Hg as [Hg _].
    apply Z.leb_le in Hg. apply Z.ltb_lt in Hlow. lia.
Qed.

(** soundness: whatever [solo] hands over is the block of the requested height
    from a peer of the view that is high enough and answered with it *)
Lemma solo_deliveries c ts n h : forall k view retry o,
  In o (fst (solo c ts n h k view retry)) ->
  match o with
  | ODeliver bh p =>
      exists t, In t view /\ p = task_peer ts t /\ (h <=? c_adv c p)%Z = true
                /\ accepted (c_beh c p h) = true /\ bh = h
  | OReq h' p => exists t, In t view /\ p = task_peer ts t /\ (h <=? c_adv c p)%Z = true
  | OInit _ => False
  end.
Proof.
  induction k as [|k IH]; intros view retry o Hin; [inversion Hin|].
  cbn [solo] in Hin. destruct view as [|x view'] eqn:Hv; [inversion Hin|]. rewrite <- Hv in *.
  clear Hv. destruct (max_retry <? S retry); [inversion Hin|].
  destruct (scan c ts (zeros n) h (limit_of (length view)) view 0) as [[t i]|] eqn:Hs.
  - destruct (scan_some _ _ _ _ _ _ _ _ _ Hs) as [_ [Hi [Hnth [Hadv _]]]]. rewrite Nat.sub_0_r in *.
    assert (Ht : In t view) by (rewrite <- Hnth; apply nth_In; exact Hi).
    assert (Hel : (h <=? c_adv c (task_peer ts t))%Z = true)
      by (apply Z.leb_le; apply Z.ltb_ge in Hadv; exact Hadv).
    destruct (accepted (c_beh c (task_peer ts t) h)) eqn:Ha.
    + destruct Hin as [<-|[<-|[]]].
      * exists t. auto.
      * exists t. repeat split; auto.
    + cbn [fst] in Hin. destruct Hin as [<-|Hin].
      * exists t. auto.
      * specialize (IH _ _ _ Hin). destruct o as [l|h' p|bh p]; auto.
        -- destruct IH as [t' [Hin' H']]. exists t'. split; [apply without_in in Hin'; exact (proj1 Hin')|exact H'].
        -- destruct IH as [t' [Hin' H']]. exists t'. split; [apply without_in in Hin'; exact (proj1 Hin')|exact H'].
  - apply (IH _ _ _ Hin).
Qed.

Lemma solo_true_delivers c ts n h : forall k view retry,
  snd (solo c ts n h k view retry) = true ->
  exists p, In (ODeliver h p) (fst (solo c ts n h k view retry)).
Proof.
  induction k as [|k IH]; intros view retry H; [discriminate|].
  cbn [solo] in *. destruct view as [|x view'] eqn:Hv; [discriminate|]. rewrite <- Hv in *. clear Hv.
  destruct (max_retry <? S retry); [discriminate|].
  destruct (scan c ts (zeros n) h (limit_of (length view)) view 0) as [[t i]|].
  - destruct (accepted (c_beh c (task_peer ts t) h)).
    + eexists. right. left. reflexivity.
    + cbn [fst snd] in *. destruct (IH _ _ H) as [p Hp]. exists p. right. exact Hp.
  - apply (IH _ _ H).
Qed.
