(** C35 — what the property text demands, as an executable oracle over the
    observable trace of one download task (requests seen by the peers, blocks
    handed to the blockchain, task-list constructions).  Independent of the
    transition system in Model.v (it only uses the input record). *)
From Coq Require Import List ZArith NArith Bool Arith.
From C33 Require Import Lib.Harness C35.Model.
Import ListNotations.
Open Scope Z_scope.

(** peer p, as the downloader may use it, serves height h *)
Definition serves (c : config) (p : nat) (h : Z) : bool :=
  (h <=? c_adv c p) && match c_beh c p h with ROk => true | _ => false end.

(** the request for h to p ends with an error (refusal, malformed answer, a
    block of another height, or silence until the stream deadline) *)
Definition failing (c : config) (p : nat) (h : Z) : bool :=
  match c_beh c p h with ROk => false | _ => true end.

Definition servable (c : config) (h : Z) : bool :=
  existsb (fun p => serves c p h) (job_peers c).

Definition in_range (c : config) (h : Z) : bool := (c_start c <=? h) && (h <=? c_end c).

Definition delivered (tr : list obs) : list Z :=
  flat_map (fun o => match o with ODeliver bh _ => [bh] | _ => [] end) tr.

Definition memZ (x : Z) (l : list Z) : bool := existsb (Z.eqb x) l.

(** clause 1: every height that some given peer serves reaches the blockchain *)
Definition spec_delivers (c : config) (tr : list obs) : bool :=
  forallb (fun h => implb (servable c h) (memZ h (delivered tr))) (heights c).

(** clause 1': only blocks of the range, from a peer that serves that height *)
Definition deliver_ok (c : config) (o : obs) : bool :=
  match o with
  | ODeliver bh p => in_range c bh && serves c p bh
  | _ => true
  end.
Definition spec_sound (c : config) (tr : list obs) : bool := forallb (deliver_ok c) tr.

(** clause 2: a peer that failed a height is not asked for it again.
    [seen] = the (height, peer) pairs asked so far. *)
Definition pair_mem (h : Z) (p : nat) (l : list (Z * nat)) : bool :=
  existsb (fun x => (fst x =? h) && (snd x =? p)%nat) l.

Fixpoint no_reask_from (c : config) (seen : list (Z * nat)) (tr : list obs) : bool :=
  match tr with
  | [] => true
  | OReq h p :: tl =>
      if failing c p h && pair_mem h p seen then false
      else no_reask_from c ((h, p) :: seen) tl
  | _ :: tl => no_reask_from c seen tl
  end.

(** the trace up to (excluding) the second task-list construction = phase one *)
Fixpoint phase_one_part (seen_init : bool) (tr : list obs) : list obs :=
  match tr with
  | [] => []
  | OInit l :: tl => if seen_init then [] else OInit l :: phase_one_part true tl
  | o :: tl => o :: phase_one_part seen_init tl
  end.

Fixpoint nodup_nat (l : list nat) : bool :=
  match l with
  | [] => true
  | x :: tl => negb (existsb (Nat.eqb x) tl) && nodup_nat tl
  end.

(** the pid list names every peer once (otherwise "again" is not about the code) *)
Definition distinct_peers (c : config) : bool := nodup_nat (job_peers c).

Definition spec_no_reask_phase_one (c : config) (tr : list obs) : bool :=
  implb (distinct_peers c) (no_reask_from c [] (phase_one_part false tr)).

Definition spec_no_reask_task (c : config) (tr : list obs) : bool :=
  implb (distinct_peers c) (no_reask_from c [] tr).

Definition spec_all (c : config) (tr : list obs) : bool :=
  spec_delivers c tr && spec_sound c tr && spec_no_reask_task c tr.

(** * First divergence, for the known-finding signature

    2 = the second phase (checkTask) rebuilds the peer list and asks a peer
        that already failed this height in phase one (open finding)
    9 = any other violation: a servable height that is not delivered, a block
        that is outside the range or not served by its sender, a failed peer
        asked again within phase one (the former findings 1, 3 are fixed) *)
Fixpoint first_div (c : config) (phase : nat) (seen : list (Z * nat)) (tr full : list obs) : N :=
  match tr with
  | [] =>
      (* end of the task: completeness *)
      match filter (fun h => servable c h && negb (memZ h (delivered full))) (heights c) with
      | [] => 0%N
      | _ :: _ => 9%N
      end
  | OInit _ :: tl => first_div c (S phase) seen tl full
  | OReq h p :: tl =>
      if distinct_peers c && failing c p h && pair_mem h p seen
      then (if (phase <=? 1)%nat then 9%N else 2%N)
      else first_div c phase ((h, p) :: seen) tl full
  | ODeliver bh p :: tl =>
      if deliver_ok c (ODeliver bh p) then first_div c phase seen tl full else 9%N
  end.

Definition first_divergence (c : config) (tr : list obs) : N := first_div c 0 [] tr tr.
