(** C35 — executable model of chain33's block download task
    (system/p2p/dht/protocol/download: handler.go handleEventDownloadBlock,
    download.go downloadBlock, task.go initJob/availbTask/Remove/Sort/
    releaseJob/checkTask), transcribed as the code is.

    Phase one: one goroutine per height.  The task slice is passed by value to
    the goroutines, so they all start on ONE shared backing array of *taskInfo,
    which [tasks.Sort] sorts in place.  When a request fails, downloadBlock
    drops the task with [tasks.without] (203ed0e): removal by identity into a
    fresh slice, so from then on the goroutine owns its list and the shared
    array is never shortened or shifted.  ([tasks.Remove], which shifts the
    shared array at the shared [Index] field, is no longer called by the
    downloader; [availbTask] still writes [Index] but nothing reads it, so the
    field is not modelled.)  TaskNum lives behind the shared pointers.
    Sort / availbTask / without run under the task-list mutex and are atomic
    events of the transition system; releaseJob takes only the task's own
    mutex and is an event of its own.

    A request ends with the block of the requested height, or with an error:
    stream reset, malformed answer, a block of another height (be3c9ca), or
    the 10 s stream deadline when the peer stays silent (85423f4).

    Phase two ([checkTask]): after all goroutines have returned, every failed
    height is downloaded again, one after the other, each with a freshly built
    task list.

    No proofs in this file. *)
From Coq Require Import List ZArith NArith Bool Arith.
Import ListNotations.
Open Scope Z_scope.

(** * Inputs *)

(** What a peer does with a request for one height. *)
Inductive resp :=
| ROk                 (* the block of the requested height *)
| RRefuse             (* stream reset / closed without an answer *)
| RStall              (* no answer at all: the request fails when the stream deadline (10 s) expires *)
| RMalformed          (* undecodable / empty / wrongly typed answer *)
| RWrong (bh : Z).    (* a well-formed block of another height: rejected *)

Inductive pid_entry :=
| PBad                (* string that peer.Decode rejects *)
| PSelf               (* the downloading host's own id *)
| PPeer (p : nat).

Record config := mkConfig {
  c_pids : list pid_entry;       (* ReqBlocks.Pid *)
  c_conn : list nat;             (* ConnManager.FetchConnPeers(), used when no pid decodes *)
  c_lat : nat -> N;              (* Peerstore.LatencyEWMA in ns, 0 = unknown *)
  c_adv : nat -> Z;              (* PeerInfoManager.PeerHeight *)
  c_beh : nat -> Z -> resp;      (* behaviour of a peer for a height *)
  c_start : Z;
  c_end : Z
}.

(** * initJob *)

Record task := mkTask { t_peer : nat; t_lat : N }.

Definition second_ns : N := 1000000000%N.

Fixpoint decoded (l : list pid_entry) : list (option nat) :=
  match l with
  | [] => []
  | PBad :: tl => decoded tl
  | PSelf :: tl => None :: decoded tl
  | PPeer p :: tl => Some p :: decoded tl
  end.

(** pIDs after decoding; the connected peers when nothing decoded *)
Definition job_pids (c : config) : list (option nat) :=
  match decoded (c_pids c) with
  | [] => map Some (c_conn c)
  | l => l
  end.

Fixpoint drop_self (l : list (option nat)) : list nat :=
  match l with
  | [] => []
  | None :: tl => drop_self tl
  | Some p :: tl => p :: drop_self tl
  end.

Definition job_peers (c : config) : list nat := drop_self (job_pids c).

Definition init_job (c : config) : list task :=
  map (fun p => mkTask p (if (c_lat c p =? 0)%N then second_ns else c_lat c p)) (job_peers c).

(** * Shared state and goroutines *)

Inductive pc :=
| PStart                (* before tasks.Sort() *)
| PLoop                 (* at ReDownload: *)
| PSleep                (* in time.Sleep(400 ms) after availbTask returned nil *)
| PReq (t : nat)        (* request sent to task t's peer, waiting *)
| PFailRel (t : nat)    (* error received; before releaseJob *)
| PRemove (t : nat)     (* before tasks.without(task) *)
| POkRel (t : nat)      (* block handed to the blockchain; before releaseJob *)
| PDone (ok : bool).    (* downloadBlock returned (nil / error) *)

(** [g_own]: the goroutine's own task list once it has dropped a task; [None]
    while its slice header still is the shared array *)
Record gstate := mkG { g_h : Z; g_own : option (list nat); g_retry : nat; g_pc : pc }.

(** observable events *)
Inductive obs :=
| OInit (peers : list nat)       (* initJob asked the peerstore for these peers' latencies *)
| OReq (h : Z) (p : nat)         (* peer p is asked for height h *)
| ODeliver (bh : Z) (p : nat).   (* EventSyncBlock with a block of height bh from p *)

Record state := mkState {
  s_arr : list nat;        (* shared backing array: task ids *)
  s_tnum : list Z;         (* TaskNum per task id *)
  s_gs : list gstate;      (* goroutines of phase one, by height *)
  s_log : list obs         (* newest first *)
}.

(** the task list a goroutine works on *)
Definition view (s : state) (G : gstate) : list nat :=
  match g_own G with Some l => l | None => s_arr s end.

Fixpoint upd {A} (l : list A) (i : nat) (v : A) : list A :=
  match l, i with
  | [], _ => []
  | _ :: tl, O => v :: tl
  | x :: tl, S i' => x :: upd tl i' v
  end.

Definition max_retry : nat := 50.

(** limit := 128 / len(ts), clamped to [20, 50] *)
Definition limit_of (vlen : nat) : Z :=
  let l := 128 / Z.of_nat vlen in
  if l <? 20 then 20 else if 50 <? l then 50 else l.

(** sort.Sort on at most 12 elements is insertion sort, which is stable *)
Fixpoint insert_by (lat : nat -> N) (x : nat) (l : list nat) : list nat :=
  match l with
  | [] => [x]
  | y :: tl => if (lat x <? lat y)%N then x :: y :: tl else y :: insert_by lat x tl
  end.

Definition isort (lat : nat -> N) (l : list nat) : list nat :=
  fold_left (fun acc x => insert_by lat x acc) l [].

Definition task_lat (ts : list task) (t : nat) : N := t_lat (nth t ts (mkTask 0 0%N)).
Definition task_peer (ts : list task) (t : nat) : nat := t_peer (nth t ts (mkTask 0 0%N)).

Definition sort_tasks (ts : list task) (l : list nat) : list nat := isort (task_lat ts) l.

(** availbTask: first task of the view whose peer is high enough and below its limit *)
Fixpoint scan (c : config) (ts : list task) (tnum : list Z) (h limit : Z)
         (view : list nat) (i : nat) : option (nat * nat) :=
  match view with
  | [] => None
  | t :: tl =>
      if c_adv c (task_peer ts t) <? h then scan c ts tnum h limit tl (S i)
      else if nth t tnum 0 <? limit then Some (t, i)
      else scan c ts tnum h limit tl (S i)
  end.

(** tasks.without: a fresh list without the task (pointer identity = task id) *)
Definition without (t : nat) (l : list nat) : list nat := filter (fun x => negb (x =? t)%nat) l.

Definition release (tnum : list Z) (t : nat) : list Z :=
  let v := nth t tnum 0 - 1 in upd tnum t (if v <? 0 then 0 else v).

(** downloadBlockFromPeerOld returns a block only for the requested height *)
Definition accepted (r : resp) : bool := match r with ROk => true | _ => false end.

(** * Events of phase one *)

Inductive event :=
| Sort (g : nat) | Pick (g : nat) | Result (g : nat) | Release (g : nat)
| Remove (g : nat) | Sleep (g : nat).

Definition ev_g (e : event) : nat :=
  match e with Sort g | Pick g | Result g | Release g | Remove g | Sleep g => g end.

Definition dummy_g : gstate := mkG 0 None 0 (PDone false).

Definition set_g (s : state) (g : nat) (x : gstate) : state :=
  mkState (s_arr s) (s_tnum s) (upd (s_gs s) g x) (s_log s).

(** one event; [None] when it is not enabled *)
Definition step (c : config) (ts : list task) (s : state) (e : event) : option state :=
  let g := ev_g e in
  if negb (g <? length (s_gs s))%nat then None else
  let G := nth g (s_gs s) dummy_g in
  match e, g_pc G with
  | Sort _, PStart =>
      match g_own G with
      | None =>
          Some (mkState (sort_tasks ts (s_arr s)) (s_tnum s)
                        (upd (s_gs s) g (mkG (g_h G) None (g_retry G) PLoop)) (s_log s))
      | Some l =>
          Some (set_g s g (mkG (g_h G) (Some (sort_tasks ts l)) (g_retry G) PLoop))
      end
  | Pick _, PLoop =>
      let v := view s G in
      if (length v =? 0)%nat then
        Some (set_g s g (mkG (g_h G) (g_own G) (g_retry G) (PDone false)))
      else if (max_retry <? S (g_retry G))%nat then
        Some (set_g s g (mkG (g_h G) (g_own G) (S (g_retry G)) (PDone false)))
      else
        match scan c ts (s_tnum s) (g_h G) (limit_of (length v)) v 0 with
        | None => Some (set_g s g (mkG (g_h G) (g_own G) (S (g_retry G)) PSleep))
        | Some (t, _) =>
            Some (mkState (s_arr s) (upd (s_tnum s) t (nth t (s_tnum s) 0 + 1))
                          (upd (s_gs s) g (mkG (g_h G) (g_own G) (S (g_retry G)) (PReq t)))
                          (OReq (g_h G) (task_peer ts t) :: s_log s))
        end
  | Sleep _, PSleep => Some (set_g s g (mkG (g_h G) (g_own G) (g_retry G) PLoop))
  | Result _, PReq t =>
      if accepted (c_beh c (task_peer ts t) (g_h G)) then
        Some (mkState (s_arr s) (s_tnum s)
                      (upd (s_gs s) g (mkG (g_h G) (g_own G) (g_retry G) (POkRel t)))
                      (ODeliver (g_h G) (task_peer ts t) :: s_log s))
      else Some (set_g s g (mkG (g_h G) (g_own G) (g_retry G) (PFailRel t)))
  | Release _, POkRel t =>
      Some (mkState (s_arr s) (release (s_tnum s) t)
                    (upd (s_gs s) g (mkG (g_h G) (g_own G) (g_retry G) (PDone true))) (s_log s))
  | Release _, PFailRel t =>
      Some (mkState (s_arr s) (release (s_tnum s) t)
                    (upd (s_gs s) g (mkG (g_h G) (g_own G) (g_retry G) (PRemove t))) (s_log s))
  | Remove _, PRemove t =>
      Some (set_g s g (mkG (g_h G) (Some (without t (view s G))) (g_retry G) PLoop))
  | _, _ => None
  end.

(** the event goroutine g can take next (its program order is fixed) *)
Definition next_event (G : gstate) (g : nat) : option event :=
  match g_pc G with
  | PStart => Some (Sort g)
  | PLoop => Some (Pick g)
  | PSleep => Some (Sleep g)
  | PReq _ => Some (Result g)
  | PFailRel _ | POkRel _ => Some (Release g)
  | PRemove _ => Some (Remove g)
  | PDone _ => None
  end.

(** * Runs *)

Definition heights (c : config) : list Z :=
  map (fun i => c_start c + Z.of_nat i) (seq 0 (Z.to_nat (c_end c - c_start c + 1))).

Definition init_state (ts : list task) (hs : list Z) : state :=
  let n := length ts in
  mkState (seq 0 n) (repeat 0 n)
          (map (fun h => mkG h None 0 PStart) hs)
          (match ts with [] => [] | _ => [OInit (map t_peer ts)] end).

(** any list of events is a schedule: events that are not enabled are skipped *)
Fixpoint exec (c : config) (ts : list task) (s : state) (sched : list event) : state :=
  match sched with
  | [] => s
  | e :: tl => match step c ts s e with
               | Some s' => exec c ts s' tl
               | None => exec c ts s tl
               end
  end.

(** strict variant for the correspondence check *)
Fixpoint exec_strict (c : config) (ts : list task) (s : state) (sched : list event) : option state :=
  match sched with
  | [] => Some s
  | e :: tl => match step c ts s e with
               | Some s' => exec_strict c ts s' tl
               | None => None
               end
  end.

Definition is_done (G : gstate) : bool := match g_pc G with PDone _ => true | _ => false end.
Definition all_done (s : state) : bool := forallb is_done (s_gs s).

(** goroutine g alone until it returns (fuel = number of events) *)
Fixpoint run_g (fuel : nat) (c : config) (ts : list task) (s : state) (g : nat) : state :=
  match fuel with
  | O => s
  | S f =>
      match next_event (nth g (s_gs s) dummy_g) g with
      | None => s
      | Some e => match step c ts s e with
                  | Some s' => run_g f c ts s' g
                  | None => s
                  end
      end
  end.

Definition g_fuel : nat := 6 * 53.

Definition failed_heights (s : state) : list Z :=
  map g_h (filter (fun G => match g_pc G with PDone false => true | _ => false end) (s_gs s)).

(** checkTask for one failed height: fresh task list, one goroutine, no mutex *)
Definition recheck (c : config) (h : Z) : state :=
  let ts := init_job c in
  run_g g_fuel c ts (init_state ts [h]) 0.

Definition recheck_log (c : config) (h : Z) : list obs := rev (s_log (recheck c h)).

(** the whole task: phase one under a schedule, then phase two in the given
    order of the failed heights (Go iterates over a map) *)
Definition phase_one (c : config) (sched : list event) : state :=
  exec c (init_job c) (init_state (init_job c) (heights c)) sched.

Definition phase_two_log (c : config) (order : list Z) : list obs :=
  flat_map (recheck_log c) order.

Definition task_log (c : config) (sched : list event) (order : list Z) : list obs :=
  rev (s_log (phase_one c sched)) ++ phase_two_log c order.

(** acknowledgement of the request message *)
Inductive ack := AckStartGtEnd | AckNoPid | AckOk.

Definition handler_ack (c : config) : ack :=
  if c_end c <? c_start c then AckStartGtEnd
  else match c_pids c with [] => AckNoPid | _ => AckOk end.
