(** C35 — invariants of phase one under every schedule (any number of height
    goroutines, aliasing included): what is asked and handed over is always
    justified by the inputs, and a goroutine that returned successfully has
    handed a block over. *)
From Coq Require Import List ZArith NArith Bool Arith Lia Permutation.
From C33 Require Import Lib.Harness C35.Model C35.Spec C35.ProofsTerm C35.ProofsSolo C35.ProofsSim
     C35.ProofsSingle.
Import ListNotations.
Open Scope nat_scope.

Definition log_ok (c : config) (o : obs) : Prop :=
  match o with
  | OInit l => l = job_peers c
  | OReq h p => In h (heights c) /\ In p (job_peers c) /\ (h <=? c_adv c p)%Z = true
  | ODeliver bh p =>
      exists h, In h (heights c) /\ In p (job_peers c) /\ (h <=? c_adv c p)%Z = true
                /\ exists a, accepted (c_beh c p h) = Some a /\ bh = deliver_height h a
  end.

Definition has_delivery (c : config) (h : Z) (log : list obs) : Prop :=
  exists p a, In p (job_peers c) /\ accepted (c_beh c p h) = Some a
              /\ In (ODeliver (deliver_height h a) p) log.

Definition handed_over (p : pc) : bool :=
  match p with POkRel _ | PDone true => true | _ => false end.

Definition asking (p : pc) : option nat := match p with PReq t => Some t | _ => None end.

Record Inv (c : config) (hs : list Z) (s : state) : Prop := mkInv {
  inv_arr : Forall (fun t => t < ntasks c) (s_arr s);
  inv_hs : map g_h (s_gs s) = hs;
  inv_sub : incl hs (heights c);
  inv_req : forall g t, asking (g_pc (nth g (s_gs s) dummy_g)) = Some t ->
      t < ntasks c /\ (g_h (nth g (s_gs s) dummy_g) <=? c_adv c (task_peer (init_job c) t))%Z = true;
  inv_log : forall o, In o (s_log s) -> log_ok c o;
  inv_ok : forall g, handed_over (g_pc (nth g (s_gs s) dummy_g)) = true ->
      has_delivery c (g_h (nth g (s_gs s) dummy_g)) (s_log s)
}.

(** * List facts *)

Lemma in_firstn {A} (x : A) n l : In x (firstn n l) -> In x l.
Proof.
  revert n; induction l as [|y l IH]; intros [|n] H; simpl in *; auto; try contradiction.
  destruct H as [H|H]; [left; exact H|right; apply (IH n H)].
Qed.

Lemma in_skipn {A} (x : A) n l : In x (skipn n l) -> In x l.
Proof.
  revert n; induction l as [|y l IH]; intros [|n] H; simpl in *; auto.
  right. apply (IH n H).
Qed.

Lemma sort_view_in ts arr vlen x : In x (sort_view ts arr vlen) -> In x arr.
Proof.
  unfold sort_view. intro H. apply in_app_or in H. destruct H as [H|H].
  - apply (Permutation_in _ (isort_perm _ _)) in H. apply (in_firstn _ _ _ H).
  - apply (in_skipn _ _ _ H).
Qed.

Lemma remove_shared_in arr vlen i x : In x (remove_shared arr vlen i) -> In x arr.
Proof.
  unfold remove_shared. intro H. apply in_app_or in H. destruct H as [H|H]; [apply (in_firstn _ _ _ H)|].
  apply in_app_or in H. destruct H as [H|H].
  - apply in_skipn in H. apply (in_firstn _ _ _ H).
  - apply (in_skipn _ _ _ H).
Qed.

Lemma map_upd {A B} (f : A -> B) (l : list A) i v d :
  f v = f (nth i l d) -> map f (upd l i v) = map f l.
Proof.
  revert i; induction l as [|x l IH]; intros [|i] H; simpl in *; auto; try congruence.
  rewrite (IH i H). reflexivity.
Qed.

Lemma nth_upd {A} (l : list A) i j v d :
  nth j (upd l i v) d = if (i =? j) && (i <? length l) then v else nth j l d.
Proof.
  destruct (Nat.eqb_spec i j) as [->|Hne]; simpl.
  - destruct (Nat.ltb_spec j (length l)) as [Hl|Hl].
    + apply nth_upd_same. exact Hl.
    + rewrite !nth_overflow; auto. rewrite upd_length. exact Hl.
  - apply nth_upd_other. exact Hne.
Qed.

(** * The initial state *)

Lemma heights_in_range c h : In h (heights c) -> in_range c h = true.
Proof.
  unfold heights, in_range. intro H. apply in_map_iff in H. destruct H as [i [<- Hi]].
  apply in_seq in Hi. apply andb_true_iff. split; apply Z.leb_le; lia.
Qed.

Lemma inv_init c hs : incl hs (heights c) -> Inv c hs (init_state (init_job c) hs).
Proof.
  intro Hsub.
  assert (Hpc : forall g, g_pc (nth g (map (fun h => mkG h (length (init_job c)) 0 PStart) hs) dummy_g) = PStart
                          \/ g_pc (nth g (map (fun h => mkG h (length (init_job c)) 0 PStart) hs) dummy_g) = PDone false).
  { intro g. destruct (Nat.lt_ge_cases g (length hs)) as [Hl|Hl].
    - left. rewrite (nth_indep _ dummy_g (mkG 0%Z (length (init_job c)) 0 PStart)) by (rewrite map_length; exact Hl).
      rewrite (map_nth (fun h => mkG h (length (init_job c)) 0 PStart) hs 0%Z g). reflexivity.
    - right. rewrite nth_overflow by (rewrite map_length; exact Hl). reflexivity. }
  constructor; unfold init_state; cbn [s_arr s_gs s_log].
  - apply Forall_forall. intros t Ht. apply in_seq in Ht. unfold ntasks. lia.
  - rewrite map_map. simpl. apply map_id.
  - exact Hsub.
  - intros g t H. exfalso. destruct (Hpc g) as [E|E]; rewrite E in H; discriminate.
  - intros o Ho. pose proof (init_job_peers c) as Hp.
    destruct (init_job c); [inversion Ho|]. destruct Ho as [<-|[]]. exact Hp.
  - intros g H. exfalso. destruct (Hpc g) as [E|E]; rewrite E in H; discriminate.
Qed.

(** * Preservation *)

Lemma has_delivery_mono c h log o : has_delivery c h log -> has_delivery c h (o :: log).
Proof. intros [p [a [H1 [H2 H3]]]]. exists p, a. repeat split; auto. right. exact H3. Qed.

Lemma g_h_in c hs s g : Inv c hs s -> g < length (s_gs s) -> In (g_h (nth g (s_gs s) dummy_g)) (heights c).
Proof.
  intros HI Hg. apply (inv_sub _ _ _ HI). rewrite <- (inv_hs _ _ _ HI).
  rewrite <- (map_nth g_h (s_gs s) dummy_g g).
  apply nth_In. rewrite map_length. exact Hg.
Qed.

(** the part of [Inv] that only depends on goroutine [g] being replaced by a
    goroutine of the same height *)
Lemma inv_replace c hs s g G' arr' log' :
  Inv c hs s -> g < length (s_gs s) ->
  g_h G' = g_h (nth g (s_gs s) dummy_g) ->
  Forall (fun t => t < ntasks c) arr' ->
  (forall o, In o log' -> In o (s_log s) \/ log_ok c o) ->
  (forall o, In o (s_log s) -> In o log') ->
  (forall t, asking (g_pc G') = Some t ->
     t < ntasks c /\ (g_h G' <=? c_adv c (task_peer (init_job c) t))%Z = true) ->
  (handed_over (g_pc G') = true -> has_delivery c (g_h G') log') ->
  forall tn' idx', Inv c hs (mkState arr' tn' idx' (upd (s_gs s) g G') log').
Proof.
  intros HI Hg Hh Harr Hlog Hmono Hreq Hok tn' idx'.
  constructor; cbn [s_arr s_gs s_log].
  - exact Harr.
  - rewrite (map_upd g_h (s_gs s) g G' dummy_g Hh). apply (inv_hs _ _ _ HI).
  - apply (inv_sub _ _ _ HI).
  - intros g' t. rewrite nth_upd.
    destruct ((g =? g') && (g <? length (s_gs s))) eqn:E.
    + apply Hreq.
    + apply (inv_req _ _ _ HI).
  - intros o Ho. destruct (Hlog o Ho) as [H|H]; [apply (inv_log _ _ _ HI o H)|exact H].
  - intros g'. rewrite nth_upd.
    destruct ((g =? g') && (g <? length (s_gs s))) eqn:E.
    + apply Hok.
    + intro H. destruct (inv_ok _ _ _ HI g' H) as [p [a [H1 [H2 H3]]]].
      exists p, a. repeat split; auto.
Qed.

Lemma step_inv c hs s e s' : Inv c hs s -> step c (init_job c) s e = Some s' -> Inv c hs s'.
Proof.
  intros HI H. unfold step in H.
  destruct (ev_g e <? length (s_gs s)) eqn:Hlt; simpl in H; [|discriminate].
  apply Nat.ltb_lt in Hlt.
  set (g := ev_g e) in *. set (G := nth g (s_gs s) dummy_g) in *.
  assert (Hsame : forall o, In o (s_log s) -> In o (s_log s) \/ log_ok c o) by (intros; left; assumption).
  destruct e; simpl in H; destruct (g_pc G) eqn:Hpc; try discriminate.
  - (* Sort *)
    inversion H; subst; clear H.
    apply inv_replace; auto.
    + apply Forall_forall. intros t Ht. apply sort_view_in in Ht.
      apply (proj1 (Forall_forall _ _) (inv_arr _ _ _ HI) t Ht).
    + cbn. intros t Ht. discriminate.
    + cbn. discriminate.
  - (* Pick *)
    destruct (g_vlen G =? 0).
    { inversion H; subst; clear H. unfold set_g.
      apply inv_replace; auto; try (apply (inv_arr _ _ _ HI)); cbn; intros; discriminate. }
    destruct (max_retry <? S (g_retry G)).
    { inversion H; subst; clear H. unfold set_g.
      apply inv_replace; auto; try (apply (inv_arr _ _ _ HI)); cbn; intros; discriminate. }
    destruct (scan c (init_job c) (s_tnum s) (g_h G) (limit_of (g_vlen G)) (firstn (g_vlen G) (s_arr s)) 0)
      as [[t i]|] eqn:Hs.
    + inversion H; subst; clear H.
      destruct (scan_some _ _ _ _ _ _ _ _ _ Hs) as [_ [Hi [Hnth [Hadv _]]]]. rewrite Nat.sub_0_r in *.
      assert (Ht : t < ntasks c).
      { apply (proj1 (Forall_forall _ _) (inv_arr _ _ _ HI) t).
        apply (in_firstn _ (g_vlen G)). rewrite <- Hnth. apply nth_In. exact Hi. }
      assert (Hel : (g_h G <=? c_adv c (task_peer (init_job c) t))%Z = true)
        by (apply Z.leb_le; apply Z.ltb_ge in Hadv; exact Hadv).
      apply inv_replace; auto.
      * apply (inv_arr _ _ _ HI).
      * intros o [<-|Ho]; [right|left; exact Ho].
        cbn. split; [apply (g_h_in c hs s g HI Hlt)|]. split; [apply task_peer_in; exact Ht|exact Hel].
      * intros o Ho. right. exact Ho.
      * cbn. intros t' Ht'. inversion Ht'; subst. split; assumption.
      * cbn. discriminate.
    + inversion H; subst; clear H. unfold set_g.
      apply inv_replace; auto; try (apply (inv_arr _ _ _ HI)); cbn; intros; discriminate.
  - (* Result *)
    assert (Hask : asking (g_pc G) = Some t) by (rewrite Hpc; reflexivity).
    destruct (inv_req _ _ _ HI g t Hask) as [Ht Hel]. fold G in Hel.
    destruct (is_stall (c_beh c (task_peer (init_job c) t) (g_h G))); [discriminate|].
    destruct (accepted (c_beh c (task_peer (init_job c) t) (g_h G))) as [a|] eqn:Ha.
    + inversion H; subst; clear H.
      apply inv_replace; auto.
      * apply (inv_arr _ _ _ HI).
      * intros o [<-|Ho]; [right|left; exact Ho].
        cbn. exists (g_h G). split; [apply (g_h_in c hs s g HI Hlt)|].
        split; [apply task_peer_in; exact Ht|]. split; [exact Hel|].
        exists a. split; [exact Ha|]. destruct a; reflexivity.
      * intros o Ho. right. exact Ho.
      * cbn. intros; discriminate.
      * cbn. intros _. exists (task_peer (init_job c) t), a.
        split; [apply task_peer_in; exact Ht|]. split; [exact Ha|]. left. destruct a; reflexivity.
    + inversion H; subst; clear H. unfold set_g.
      apply inv_replace; auto; try (apply (inv_arr _ _ _ HI)); cbn; intros; discriminate.
  - (* Release after a failure *)
    inversion H; subst; clear H.
    apply inv_replace; auto; try (apply (inv_arr _ _ _ HI)); cbn; intros; discriminate.
  - (* Release after success *)
    inversion H; subst; clear H.
    apply inv_replace; auto; try (apply (inv_arr _ _ _ HI)).
    + cbn. intros; discriminate.
    + cbn. intros _. apply (inv_ok _ _ _ HI g). fold G. rewrite Hpc. reflexivity.
  - (* Remove *)
    destruct (g_vlen G <? nth t (s_idx s) 0 + 1).
    + inversion H; subst; clear H. unfold set_g.
      apply inv_replace; auto; try (apply (inv_arr _ _ _ HI)); cbn; intros; discriminate.
    + inversion H; subst; clear H.
      apply inv_replace; auto.
      * apply Forall_forall. intros x Hx. apply remove_shared_in in Hx.
        apply (proj1 (Forall_forall _ _) (inv_arr _ _ _ HI) x Hx).
      * cbn. intros; discriminate.
      * cbn. discriminate.
  - (* Sleep *)
    inversion H; subst; clear H. unfold set_g.
    apply inv_replace; auto; try (apply (inv_arr _ _ _ HI)); cbn; intros; discriminate.
Qed.

Lemma exec_inv c hs sched : forall s, Inv c hs s -> Inv c hs (exec c (init_job c) s sched).
Proof.
  induction sched as [|e tl IH]; intros s HI; simpl; [exact HI|].
  destruct (step c (init_job c) s e) as [s'|] eqn:Hs.
  - apply IH. apply (step_inv _ _ _ _ _ HI Hs).
  - apply IH. exact HI.
Qed.

Lemma phase_one_inv c sched : Inv c (heights c) (phase_one c sched).
Proof. unfold phase_one. apply exec_inv. apply inv_init. apply incl_refl. Qed.

Lemma run_g_inv c hs g : forall fuel s, Inv c hs s -> Inv c hs (run_g fuel c (init_job c) s g).
Proof.
  induction fuel as [|f IH]; intros s HI; [exact HI|].
  cbn [run_g]. destruct (next_event (nth g (s_gs s) dummy_g) g) as [e|]; [|exact HI].
  destruct (step c (init_job c) s e) as [s'|] eqn:Hs; [|exact HI].
  apply IH. apply (step_inv _ _ _ _ _ HI Hs).
Qed.

Lemma recheck_inv c h : In h (heights c) -> Inv c [h] (recheck c h).
Proof.
  intro Hh. unfold recheck. apply run_g_inv. apply inv_init.
  intros x [<-|[]]. exact Hh.
Qed.

(** * Consequences *)

(** every height has its goroutine *)
Lemma height_goroutine c s h :
  Inv c (heights c) s -> In h (heights c) -> exists g, g < length (s_gs s) /\ g_h (nth g (s_gs s) dummy_g) = h.
Proof.
  intros HI Hh. rewrite <- (inv_hs _ _ _ HI) in Hh.
  apply (In_nth _ _ (g_h dummy_g)) in Hh. destruct Hh as [g [Hg Hn]].
  rewrite map_length in Hg. exists g. split; [exact Hg|].
  rewrite <- Hn. symmetry. apply (map_nth g_h (s_gs s) dummy_g g).
Qed.

Lemma all_done_nth s g : all_done s = true -> g < length (s_gs s) ->
  exists b, g_pc (nth g (s_gs s) dummy_g) = PDone b.
Proof.
  unfold all_done. intros H Hg.
  pose proof (proj1 (forallb_forall _ _) H (nth g (s_gs s) dummy_g) (nth_In _ _ Hg)) as Hd.
  unfold is_done in Hd. destruct (g_pc (nth g (s_gs s) dummy_g)); try discriminate. eexists; reflexivity.
Qed.

Lemma failed_in s g : g < length (s_gs s) -> g_pc (nth g (s_gs s) dummy_g) = PDone false ->
  In (g_h (nth g (s_gs s) dummy_g)) (failed_heights s).
Proof.
  intros Hg Hpc. unfold failed_heights. apply in_map. apply filter_In.
  split; [apply nth_In; exact Hg|]. rewrite Hpc. reflexivity.
Qed.

(** under the invariant nobody waits forever when no given peer is silent *)
Definition no_stall (c : config) : bool := forallb (no_stall_at c) (heights c).

Lemma inv_no_waiting c hs s :
  Inv c hs s -> no_stall c = true ->
  forall g, g < length (s_gs s) -> waits_forever c (init_job c) (nth g (s_gs s) dummy_g) = false.
Proof.
  intros HI Hns g Hg. unfold waits_forever.
  destruct (g_pc (nth g (s_gs s) dummy_g)) eqn:Hpc; try reflexivity.
  assert (Hask : asking (g_pc (nth g (s_gs s) dummy_g)) = Some t) by (rewrite Hpc; reflexivity).
  destruct (inv_req _ _ _ HI g t Hask) as [Ht _].
  pose proof (g_h_in c hs s g HI Hg) as Hh.
  pose proof (proj1 (forallb_forall _ _) Hns _ Hh) as H1. unfold no_stall_at in H1.
  pose proof (proj1 (forallb_forall _ _) H1 _ (task_peer_in c t Ht)) as H2. cbv beta in H2.
  apply negb_true_iff in H2. exact H2.
Qed.
