(** C35 — invariants of phase one under every schedule (any number of height
    goroutines on the shared array and on their own lists): what is asked and handed over is always
    justified by the inputs, and a goroutine that returned successfully has
    handed a block over. *)
From Coq Require Import List ZArith NArith Bool Arith Lia Permutation.
From C33 Require Import Lib.Harness C35.Model C35.Spec C35.ProofsTerm C35.ProofsSolo C35.ProofsSim
     C35.ProofsSingle.
Import ListNotations.
Open Scope nat_scope.

Definition log_ok (c : config) (o : obs) : Prop :=
  match o with
  | OInit l => l = job_peers c
  | OReq h p => In h (heights c) /\ In p (job_peers c) /\ (h <=? c_adv c p)%Z = true
  | ODeliver bh p =>
      In bh (heights c) /\ In p (job_peers c) /\ (bh <=? c_adv c p)%Z = true
      /\ accepted (c_beh c p bh) = true
  end.

Definition has_delivery (c : config) (h : Z) (log : list obs) : Prop :=
  exists p, In p (job_peers c) /\ accepted (c_beh c p h) = true /\ In (ODeliver h p) log.

Definition handed_over (p : pc) : bool :=
  match p with POkRel _ | PDone true => true | _ => false end.

Definition asking (p : pc) : option nat := match p with PReq t => Some t | _ => None end.

Record Inv (c : config) (hs : list Z) (s : state) : Prop := mkInv {
  inv_arr : Forall (fun t => t < ntasks c) (s_arr s);
  inv_own : forall g l, g_own (nth g (s_gs s) dummy_g) = Some l -> Forall (fun t => t < ntasks c) l;
  inv_hs : map g_h (s_gs s) = hs;
  inv_sub : incl hs (heights c);
  inv_req : forall g t, asking (g_pc (nth g (s_gs s) dummy_g)) = Some t ->
      t < ntasks c /\ (g_h (nth g (s_gs s) dummy_g) <=? c_adv c (task_peer (init_job c) t))%Z = true;
  inv_log : forall o, In o (s_log s) -> log_ok c o;
  inv_ok : forall g, handed_over (g_pc (nth g (s_gs s) dummy_g)) = true ->
      has_delivery c (g_h (nth g (s_gs s) dummy_g)) (s_log s)
}.

Lemma view_valid c hs s g : Inv c hs s -> Forall (fun t => t < ntasks c) (view s (nth g (s_gs s) dummy_g)).
Proof.
  intro HI. unfold view. destruct (g_own (nth g (s_gs s) dummy_g)) as [l|] eqn:E.
  - apply (inv_own _ _ _ HI g l E).
  - apply (inv_arr _ _ _ HI).
Qed.

(** * List facts *)

Lemma in_firstn {A} (x : A) n l : In x (firstn n l) -> In x l.
Proof.
  revert n; induction l as [|y l IH]; intros [|n] H; simpl in *; auto; try contradiction.
  destruct H as [H|H]; [left; exact H|right; apply (IH n H)].
Qed.

Lemma in_skipn {A} (x : A) n l : In x (skipn n l) -> In x l.
Proof.
  revert n; induction l as [|y l IH]; intros [|n] H; simpl in *; auto.
  right. apply (IH n H).
Qed.

Lemma sort_tasks_in ts l x : In x (sort_tasks ts l) <-> In x l.
Proof.
  unfold sort_tasks. split; intro H.
  - apply (Permutation_in _ (isort_perm _ _) H).
  - apply (Permutation_in _ (Permutation_sym (isort_perm _ _)) H).
Qed.

Lemma sort_tasks_valid (P : nat -> Prop) ts l : Forall P l -> Forall P (sort_tasks ts l).
Proof.
  intro H. apply Forall_forall. intros x Hx. apply sort_tasks_in in Hx.
  apply (proj1 (Forall_forall _ _) H x Hx).
Qed.

Lemma map_upd {A B} (f : A -> B) (l : list A) i v d :
  f v = f (nth i l d) -> map f (upd l i v) = map f l.
Proof.
  revert i; induction l as [|x l IH]; intros [|i] H; simpl in *; auto; try congruence.
  rewrite (IH i H). reflexivity.
Qed.

Lemma nth_upd {A} (l : list A) i j v d :
  nth j (upd l i v) d = if (i =? j) && (i <? length l) then v else nth j l d.
Proof.
  destruct (Nat.eqb_spec i j) as [->|Hne]; simpl.
  - destruct (Nat.ltb_spec j (length l)) as [Hl|Hl].
    + apply nth_upd_same. exact Hl.
    + rewrite !nth_overflow; auto. rewrite upd_length. exact Hl.
  - apply nth_upd_other. exact Hne.
Qed.

(** * The initial state *)

Lemma heights_in_range c h : In h (heights c) -> in_range c h = true.
Proof.
  unfold heights, in_range. intro H. apply in_map_iff in H. destruct H as [i [<- Hi]].
  apply in_seq in Hi. apply andb_true_iff. split; apply Z.leb_le; lia.
Qed.

Lemma inv_init c hs : incl hs (heights c) -> Inv c hs (init_state (init_job c) hs).
Proof.
  intro Hsub.
  assert (Hnth : forall g, nth g (map (fun h => mkG h None 0 PStart) hs) dummy_g = dummy_g
                           \/ exists h, nth g (map (fun h => mkG h None 0 PStart) hs) dummy_g = mkG h None 0 PStart).
  { intro g. destruct (Nat.lt_ge_cases g (length hs)) as [Hl|Hl].
    - right. exists (nth g hs 0%Z).
      rewrite (nth_indep _ dummy_g (mkG 0%Z None 0 PStart)) by (rewrite map_length; exact Hl).
      apply (map_nth (fun h => mkG h None 0 PStart) hs 0%Z g).
    - left. apply nth_overflow. rewrite map_length. exact Hl. }
  constructor; unfold init_state; cbn [s_arr s_gs s_log].
  - apply Forall_forall. intros t Ht. apply in_seq in Ht. unfold ntasks. lia.
  - intros g l H. exfalso. destruct (Hnth g) as [E|[h E]]; rewrite E in H; discriminate.
  - rewrite map_map. simpl. apply map_id.
  - exact Hsub.
  - intros g t H. exfalso. destruct (Hnth g) as [E|[h E]]; rewrite E in H; discriminate.
  - intros o Ho. pose proof (init_job_peers c) as Hp.
    destruct (init_job c); [inversion Ho|]. destruct Ho as [<-|[]]. exact Hp.
  - intros g H. exfalso. destruct (Hnth g) as [E|[h E]]; rewrite E in H; discriminate.
Qed.

(** * Preservation *)

Lemma has_delivery_mono c h log o : has_delivery c h log -> has_delivery c h (o :: log).
Proof. intros [p [H1 [H2 H3]]]. exists p. repeat split; auto. right. exact H3. Qed.

Lemma g_h_in c hs s g : Inv c hs s -> g < length (s_gs s) -> In (g_h (nth g (s_gs s) dummy_g)) (heights c).
Proof.
  intros HI Hg. apply (inv_sub _ _ _ HI). rewrite <- (inv_hs _ _ _ HI).
  rewrite <- (map_nth g_h (s_gs s) dummy_g g).
  apply nth_In. rewrite map_length. exact Hg.
Qed.

(** the part of [Inv] that only depends on goroutine [g] being replaced by a
    goroutine of the same height *)
Lemma inv_replace c hs s g G' arr' log' :
  Inv c hs s -> g < length (s_gs s) ->
  g_h G' = g_h (nth g (s_gs s) dummy_g) ->
  Forall (fun t => t < ntasks c) arr' ->
  (forall l, g_own G' = Some l -> Forall (fun t => t < ntasks c) l) ->
  (forall o, In o log' -> In o (s_log s) \/ log_ok c o) ->
  (forall o, In o (s_log s) -> In o log') ->
  (forall t, asking (g_pc G') = Some t ->
     t < ntasks c /\ (g_h G' <=? c_adv c (task_peer (init_job c) t))%Z = true) ->
  (handed_over (g_pc G') = true -> has_delivery c (g_h G') log') ->
  forall tn', Inv c hs (mkState arr' tn' (upd (s_gs s) g G') log').
Proof.
  intros HI Hg Hh Harr Hown Hlog Hmono Hreq Hok tn'.
  constructor; cbn [s_arr s_gs s_log].
  - exact Harr.
  - intros g' l. rewrite nth_upd.
    destruct ((g =? g') && (g <? length (s_gs s))) eqn:E.
    + apply Hown.
    + apply (inv_own _ _ _ HI).
  - rewrite (map_upd g_h (s_gs s) g G' dummy_g Hh). apply (inv_hs _ _ _ HI).
  - apply (inv_sub _ _ _ HI).
  - intros g' t. rewrite nth_upd.
    destruct ((g =? g') && (g <? length (s_gs s))) eqn:E.
    + apply Hreq.
    + apply (inv_req _ _ _ HI).
  - intros o Ho. destruct (Hlog o Ho) as [H|H]; [apply (inv_log _ _ _ HI o H)|exact H].
  - intros g'. rewrite nth_upd.
    destruct ((g =? g') && (g <? length (s_gs s))) eqn:E.
    + apply Hok.
    + intro H. destruct (inv_ok _ _ _ HI g' H) as [p [H1 [H2 H3]]].
      exists p. repeat split; auto.
Qed.

Lemma step_inv c hs s e s' : Inv c hs s -> step c (init_job c) s e = Some s' -> Inv c hs s'.
Proof.
  intros HI H. unfold step in H.
  destruct (ev_g e <? length (s_gs s)) eqn:Hlt; simpl in H; [|discriminate].
  apply Nat.ltb_lt in Hlt.
  set (g := ev_g e) in *. set (G := nth g (s_gs s) dummy_g) in *.
  assert (Hsame : forall o, In o (s_log s) -> In o (s_log s) \/ log_ok c o) by (intros; left; assumption).
  assert (Hown : forall l, g_own G = Some l -> Forall (fun t => t < ntasks c) l)
    by (intros l Hl; apply (inv_own _ _ _ HI g l Hl)).
  pose proof (view_valid c hs s g HI) as Hvv. fold G in Hvv.
  destruct e; simpl in H; destruct (g_pc G) eqn:Hpc; try discriminate.
  - (* Sort *)
    destruct (g_own G) as [l|] eqn:Hgo; inversion H; subst; clear H; unfold set_g.
    + apply inv_replace; auto; try (cbn; intros; discriminate).
      * apply (inv_arr _ _ _ HI).
      * cbn. intros l' Hl'. inversion Hl'; subst. apply sort_tasks_valid. apply Hown. reflexivity.
    + apply inv_replace; auto; try (cbn; intros; discriminate).
      apply sort_tasks_valid. apply (inv_arr _ _ _ HI).
  - (* Pick *)
    destruct (length (view s G) =? 0).
    { inversion H; subst; clear H. unfold set_g.
      apply inv_replace; auto; try (apply (inv_arr _ _ _ HI)); cbn; intros; discriminate. }
    destruct (max_retry <? S (g_retry G)).
    { inversion H; subst; clear H. unfold set_g.
      apply inv_replace; auto; try (apply (inv_arr _ _ _ HI)); cbn; intros; discriminate. }
    destruct (scan c (init_job c) (s_tnum s) (g_h G) (limit_of (length (view s G))) (view s G) 0)
      as [[t i]|] eqn:Hs.
    + inversion H; subst; clear H.
      destruct (scan_some _ _ _ _ _ _ _ _ _ Hs) as [_ [Hi [Hnth [Hadv _]]]]. rewrite Nat.sub_0_r in *.
      assert (Ht : t < ntasks c).
      { apply (proj1 (Forall_forall _ _) Hvv t). rewrite <- Hnth. apply nth_In. exact Hi. }
      assert (Hel : (g_h G <=? c_adv c (task_peer (init_job c) t))%Z = true)
        by (apply Z.leb_le; apply Z.ltb_ge in Hadv; exact Hadv).
      apply inv_replace; auto.
      * apply (inv_arr _ _ _ HI).
      * intros o [<-|Ho]; [right|left; exact Ho].
        cbn. split; [apply (g_h_in c hs s g HI Hlt)|]. split; [apply task_peer_in; exact Ht|exact Hel].
      * intros o Ho. right. exact Ho.
      * cbn. intros t' Ht'. inversion Ht'; subst. split; assumption.
      * cbn. discriminate.
    + inversion H; subst; clear H. unfold set_g.
      apply inv_replace; auto; try (apply (inv_arr _ _ _ HI)); cbn; intros; discriminate.
  - (* Result *)
    assert (Hask : asking (g_pc G) = Some t) by (rewrite Hpc; reflexivity).
    destruct (inv_req _ _ _ HI g t Hask) as [Ht Hel]. fold G in Hel.
    destruct (accepted (c_beh c (task_peer (init_job c) t) (g_h G))) eqn:Ha.
    + inversion H; subst; clear H.
      apply inv_replace; auto.
      * apply (inv_arr _ _ _ HI).
      * intros o [<-|Ho]; [right|left; exact Ho].
        cbn. split; [apply (g_h_in c hs s g HI Hlt)|].
        split; [apply task_peer_in; exact Ht|]. split; [exact Hel|exact Ha].
      * intros o Ho. right. exact Ho.
      * cbn. intros; discriminate.
      * cbn. intros _. exists (task_peer (init_job c) t).
        split; [apply task_peer_in; exact Ht|]. split; [exact Ha|]. left. reflexivity.
    + inversion H; subst; clear H. unfold set_g.
      apply inv_replace; auto; try (apply (inv_arr _ _ _ HI)); cbn; intros; discriminate.
  - (* Release after a failure *)
    inversion H; subst; clear H.
    apply inv_replace; auto; try (apply (inv_arr _ _ _ HI)); cbn; intros; discriminate.
  - (* Release after success *)
    inversion H; subst; clear H.
    apply inv_replace; auto; try (apply (inv_arr _ _ _ HI)).
    + cbn. intros; discriminate.
    + cbn. intros _. apply (inv_ok _ _ _ HI g). fold G. rewrite Hpc. reflexivity.
  - (* Remove *)
    inversion H; subst; clear H. unfold set_g.
    apply inv_replace; auto.
    + apply (inv_arr _ _ _ HI).
    + cbn. intros l Hl. inversion Hl; subst. apply forall_without. exact Hvv.
    + cbn. intros; discriminate.
    + cbn. discriminate.
  - (* Sleep *)
    inversion H; subst; clear H. unfold set_g.
    apply inv_replace; auto; try (apply (inv_arr _ _ _ HI)); cbn; intros; discriminate.
Qed.

Lemma exec_inv c hs sched : forall s, Inv c hs s -> Inv c hs (exec c (init_job c) s sched).
Proof.
  induction sched as [|e tl IH]; intros s HI; simpl; [exact HI|].
  destruct (step c (init_job c) s e) as [s'|] eqn:Hs.
  - apply IH. apply (step_inv _ _ _ _ _ HI Hs).
  - apply IH. exact HI.
Qed.

Lemma phase_one_inv c sched : Inv c (heights c) (phase_one c sched).
Proof. unfold phase_one. apply exec_inv. apply inv_init. apply incl_refl. Qed.

Lemma run_g_inv c hs g : forall fuel s, Inv c hs s -> Inv c hs (run_g fuel c (init_job c) s g).
Proof.
  induction fuel as [|f IH]; intros s HI; [exact HI|].
  cbn [run_g]. destruct (next_event (nth g (s_gs s) dummy_g) g) as [e|]; [|exact HI].
  destruct (step c (init_job c) s e) as [s'|] eqn:Hs; [|exact HI].
  apply IH. apply (step_inv _ _ _ _ _ HI Hs).
Qed.

Lemma recheck_inv c h : In h (heights c) -> Inv c [h] (recheck c h).
Proof.
  intro Hh. unfold recheck. apply run_g_inv. apply inv_init.
  intros x [<-|[]]. exact Hh.
Qed.

(** * Consequences *)

(** every height has its goroutine *)
Lemma height_goroutine c s h :
  Inv c (heights c) s -> In h (heights c) -> exists g, g < length (s_gs s) /\ g_h (nth g (s_gs s) dummy_g) = h.
Proof.
  intros HI Hh. rewrite <- (inv_hs _ _ _ HI) in Hh.
  apply (In_nth _ _ (g_h dummy_g)) in Hh. destruct Hh as [g [Hg Hn]].
  rewrite map_length in Hg. exists g. split; [exact Hg|].
  rewrite <- Hn. symmetry. apply (map_nth g_h (s_gs s) dummy_g g).
Qed.

Lemma all_done_nth s g : all_done s = true -> g < length (s_gs s) ->
  exists b, g_pc (nth g (s_gs s) dummy_g) = PDone b.
Proof.
  unfold all_done. intros H Hg.
  pose proof (proj1 (forallb_forall _ _) H (nth g (s_gs s) dummy_g) (nth_In _ _ Hg)) as Hd.
  unfold is_done in Hd. destruct (g_pc (nth g (s_gs s) dummy_g)); try discriminate. eexists; reflexivity.
Qed.

Lemma failed_in s g : g < length (s_gs s) -> g_pc (nth g (s_gs s) dummy_g) = PDone false ->
  In (g_h (nth g (s_gs s) dummy_g)) (failed_heights s).
Proof.
  intros Hg Hpc. unfold failed_heights. apply in_map. apply filter_In.
  split; [apply nth_In; exact Hg|]. rewrite Hpc. reflexivity.
Qed.

