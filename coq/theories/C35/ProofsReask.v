(** C35 — "a peer that failed a height is not asked for it again" within phase
    one, for any number of height goroutines and every schedule.  Since
    downloadBlock drops a failed task by identity from a list of its own
    (tasks.without), the requests of one goroutine go to pairwise different
    tasks; with a pid list that names every peer once, no (height, peer) pair
    is requested twice in phase one. *)
From Coq Require Import List ZArith NArith Bool Arith Lia Permutation FinFun.
From C33 Require Import Lib.Harness C35.Model C35.Spec C35.ProofsTerm C35.ProofsSolo C35.ProofsSim
     C35.ProofsSingle C35.ProofsMulti.
Import ListNotations.
Open Scope nat_scope.

Definition req_pairs (l : list obs) : list (Z * nat) :=
  flat_map (fun o => match o with OReq h p => [(h, p)] | _ => [] end) l.

(** the only task of its list a goroutine may already have asked is the one
    it is busy with *)
Definition blocks (p : pc) (t : nat) : Prop :=
  match p with
  | PReq t' | PFailRel t' | PRemove t' | POkRel t' => t' = t
  | PDone _ => True
  | PStart | PLoop | PSleep => False
  end.

Record NoRe (c : config) (s : state) : Prop := mkNoRe {
  nr_nodup : NoDup (req_pairs (s_log s));
  nr_hs : NoDup (map g_h (s_gs s));
  nr_view : forall g t, g < length (s_gs s) ->
      In t (view s (nth g (s_gs s) dummy_g)) ->
      In (g_h (nth g (s_gs s) dummy_g), task_peer (init_job c) t) (req_pairs (s_log s)) ->
      blocks (g_pc (nth g (s_gs s) dummy_g)) t
}.

(** * Facts about the inputs *)

Lemma heights_nodup c : NoDup (heights c).
Proof.
  unfold heights. apply Injective_map_NoDup; [|apply seq_NoDup].
  intros i j H. lia.
Qed.

Lemma task_peer_nth c t : task_peer (init_job c) t = nth t (job_peers c) 0.
Proof.
  unfold task_peer. rewrite <- init_job_peers.
  change 0 with (t_peer (mkTask 0 0%N)). symmetry. apply map_nth.
Qed.

Lemma task_peer_inj c t t' :
  distinct_peers c = true -> t < ntasks c -> t' < ntasks c ->
  task_peer (init_job c) t = task_peer (init_job c) t' -> t = t'.
Proof.
  intros Hd Ht Ht' He. rewrite !task_peer_nth in He.
  rewrite ntasks_peers in Ht, Ht'.
  apply (proj1 (NoDup_nth (job_peers c) 0) (nodup_nat_spec _ Hd) t t' Ht Ht' He).
Qed.

Lemma nodup_map_nth {A B} (f : A -> B) (l : list A) d i j :
  NoDup (map f l) -> i < length l -> j < length l -> f (nth i l d) = f (nth j l d) -> i = j.
Proof.
  intros Hnd Hi Hj He.
  apply (proj1 (NoDup_nth (map f l) (f d)) Hnd i j); try (rewrite map_length; assumption).
  rewrite !map_nth. exact He.
Qed.

(** * The initial state *)

Lemma nore_init c : NoRe c (init_state (init_job c) (heights c)).
Proof.
  assert (Hlog : req_pairs (s_log (init_state (init_job c) (heights c))) = []).
  { unfold init_state. cbn [s_log]. destruct (init_job c); reflexivity. }
  constructor.
  - rewrite Hlog. constructor.
  - unfold init_state. cbn [s_gs]. rewrite map_map. cbn [g_h]. rewrite map_id. apply heights_nodup.
  - intros g t _ _ Hin. rewrite Hlog in Hin. inversion Hin.
Qed.

(** * Preservation *)

(** steps of goroutine [g] that add no request to the log *)
Lemma nore_replace_same c s g G' arr' tn' log' :
  NoRe c s -> g < length (s_gs s) ->
  g_h G' = g_h (nth g (s_gs s) dummy_g) ->
  (forall x, In x arr' <-> In x (s_arr s)) ->
  req_pairs log' = req_pairs (s_log s) ->
  (forall t, In t (match g_own G' with Some l => l | None => arr' end) ->
     In (g_h G', task_peer (init_job c) t) (req_pairs (s_log s)) -> blocks (g_pc G') t) ->
  NoRe c (mkState arr' tn' (upd (s_gs s) g G') log').
Proof.
  intros HN Hg Hh Harr Hlog Hnew.
  constructor; cbn [s_gs s_log s_arr].
  - rewrite Hlog. apply (nr_nodup _ _ HN).
  - rewrite (map_upd g_h (s_gs s) g G' dummy_g Hh). apply (nr_hs _ _ HN).
  - intros g' t Hg'. rewrite upd_length in Hg'. rewrite Hlog. rewrite nth_upd.
    destruct ((g =? g') && (g <? length (s_gs s))) eqn:E.
    + unfold view. cbn [s_arr]. apply Hnew.
    + intros Hin Hl. apply (nr_view _ _ HN g' t Hg'); [|exact Hl].
      unfold view in *. cbn [s_arr] in Hin.
      destruct (g_own (nth g' (s_gs s) dummy_g)); [exact Hin|]. apply Harr. exact Hin.
Qed.

Lemma step_nore c hs s e s' :
  distinct_peers c = true -> Inv c hs s -> NoRe c s ->
  step c (init_job c) s e = Some s' -> NoRe c s'.
Proof.
  intros Hd HI HN H. unfold step in H.
  destruct (ev_g e <? length (s_gs s)) eqn:Hlt; simpl in H; [|discriminate].
  apply Nat.ltb_lt in Hlt.
  set (g := ev_g e) in *. set (G := nth g (s_gs s) dummy_g) in *.
  pose proof (nr_view _ _ HN g) as Hview. fold G in Hview.
  assert (Hid : forall x, In x (s_arr s) <-> In x (s_arr s)) by (intro; tauto).
  destruct e; simpl in H; destruct (g_pc G) eqn:Hpc; try discriminate.
  - (* Sort *)
    destruct (g_own G) as [l|] eqn:Hgo; inversion H; subst; clear H; unfold set_g.
    + apply nore_replace_same; auto. cbn [g_own g_h g_pc]. intros t Hin Hl.
      apply (Hview t Hlt); [|exact Hl]. unfold view. rewrite Hgo. apply sort_tasks_in in Hin. exact Hin.
    + apply nore_replace_same; auto.
      * intro x. apply sort_tasks_in.
      * cbn [g_own g_h g_pc]. intros t Hin Hl.
        apply (Hview t Hlt); [|exact Hl]. unfold view. rewrite Hgo. apply sort_tasks_in in Hin. exact Hin.
  - (* Pick *)
    destruct (length (view s G) =? 0).
    { inversion H; subst; clear H. unfold set_g.
      apply nore_replace_same; auto. cbn [g_own g_h g_pc blocks]. auto. }
    destruct (max_retry <? S (g_retry G)).
    { inversion H; subst; clear H. unfold set_g.
      apply nore_replace_same; auto. cbn [g_own g_h g_pc blocks]. auto. }
    destruct (scan c (init_job c) (s_tnum s) (g_h G) (limit_of (length (view s G))) (view s G) 0)
      as [[t0 i]|] eqn:Hs.
    + (* a request *)
      inversion H; subst; clear H.
      destruct (scan_some _ _ _ _ _ _ _ _ _ Hs) as [_ [Hi [Hnth _]]]. rewrite Nat.sub_0_r in *.
      assert (Ht0 : In t0 (view s G)) by (rewrite <- Hnth; apply nth_In; exact Hi).
      pose proof (view_valid c hs s g HI) as Hvv. fold G in Hvv.
      assert (Hfresh : ~ In (g_h G, task_peer (init_job c) t0) (req_pairs (s_log s))).
      { intro Hin. apply (Hview t0 Hlt Ht0 Hin). }
      constructor; cbn [s_gs s_log s_arr req_pairs flat_map app]; fold (req_pairs (s_log s)).
      * constructor; [exact Hfresh|apply (nr_nodup _ _ HN)].
      * rewrite (map_upd g_h (s_gs s) g _ dummy_g); [apply (nr_hs _ _ HN)|reflexivity].
      * intros g' t Hg'. rewrite upd_length in Hg'. rewrite nth_upd.
        destruct ((g =? g') && (g <? length (s_gs s))) eqn:E.
        -- unfold view. cbn [g_own g_h g_pc s_arr blocks]. fold (view s G).
           intros Hin [Heq|Hold].
           ++ inversion Heq as [Hp].
              apply (task_peer_inj c t0 t Hd);
                [apply (proj1 (Forall_forall _ _) Hvv t0 Ht0)|apply (proj1 (Forall_forall _ _) Hvv t Hin)|exact Hp].
           ++ exfalso. apply (Hview t Hlt Hin Hold).
        -- assert (Hne : g <> g').
           { intro Heq. subst g'. rewrite Nat.eqb_refl in E.
             assert ((g <? length (s_gs s)) = true) by (apply Nat.ltb_lt; exact Hlt). rewrite H in E. discriminate. }
           unfold view. cbn [s_arr]. fold (view s (nth g' (s_gs s) dummy_g)).
           intros Hin [Heq|Hold].
           ++ exfalso. inversion Heq as [[Hh Hp]]. apply Hne.
              apply (nodup_map_nth g_h (s_gs s) dummy_g g g' (nr_hs _ _ HN) Hlt Hg'). fold G. exact Hh.
           ++ apply (nr_view _ _ HN g' t Hg' Hin Hold).
    + inversion H; subst; clear H. unfold set_g.
      apply nore_replace_same; auto. cbn [g_own g_h g_pc blocks]. intros t Hin Hl.
      apply (Hview t Hlt Hin Hl).
  - (* Result *)
    destruct (accepted (c_beh c (task_peer (init_job c) t) (g_h G))); inversion H; subst; clear H; unfold set_g.
    + apply nore_replace_same; auto. cbn [g_own g_h g_pc blocks]. intros t' Hin Hl.
      apply (Hview t' Hlt Hin Hl).
    + apply nore_replace_same; auto. cbn [g_own g_h g_pc blocks]. intros t' Hin Hl.
      apply (Hview t' Hlt Hin Hl).
  - (* Release after a failure *)
    inversion H; subst; clear H.
    apply nore_replace_same; auto. cbn [g_own g_h g_pc blocks]. intros t' Hin Hl.
    apply (Hview t' Hlt Hin Hl).
  - (* Release after success *)
    inversion H; subst; clear H.
    apply nore_replace_same; auto. cbn [g_own g_h g_pc blocks]. auto.
  - (* Remove *)
    inversion H; subst; clear H. unfold set_g.
    apply nore_replace_same; auto. cbn [g_own g_h g_pc blocks]. intros t' Hin Hl.
    apply without_in in Hin. destruct Hin as [Hin Hne].
    apply Hne. symmetry. apply (Hview t' Hlt Hin Hl).
  - (* Sleep *)
    inversion H; subst; clear H. unfold set_g.
    apply nore_replace_same; auto. cbn [g_own g_h g_pc blocks]. intros t' Hin Hl.
    apply (Hview t' Hlt Hin Hl).
Qed.

Lemma exec_nore c hs sched : forall s,
  distinct_peers c = true -> Inv c hs s -> NoRe c s -> NoRe c (exec c (init_job c) s sched).
Proof.
  induction sched as [|e tl IH]; intros s Hd HI HN; simpl; [exact HN|].
  destruct (step c (init_job c) s e) as [s'|] eqn:Hs.
  - apply IH; [exact Hd|apply (step_inv _ _ _ _ _ HI Hs)|apply (step_nore _ _ _ _ _ Hd HI HN Hs)].
  - apply IH; assumption.
Qed.

Lemma phase_one_nore c sched : distinct_peers c = true -> NoRe c (phase_one c sched).
Proof.
  intro Hd. unfold phase_one. apply (exec_nore c (heights c)); [exact Hd| |apply nore_init].
  apply inv_init. apply incl_refl.
Qed.

(** * From distinct requests to the spec's clause *)

Lemma req_pairs_app l1 l2 : req_pairs (l1 ++ l2) = req_pairs l1 ++ req_pairs l2.
Proof. unfold req_pairs. apply flat_map_app. Qed.

Lemma req_pairs_rev l : req_pairs (rev l) = rev (req_pairs l).
Proof.
  induction l as [|o l IH]; [reflexivity|]. simpl rev. rewrite req_pairs_app, IH.
  destruct o; cbn [req_pairs flat_map app]; fold (req_pairs l); try (rewrite app_nil_r; reflexivity).
  reflexivity.
Qed.

Lemma pair_mem_cons h p h' p' seen :
  pair_mem h' p' ((h, p) :: seen) = ((h =? h')%Z && (p =? p')) || pair_mem h' p' seen.
Proof. reflexivity. Qed.

Lemma no_reask_nodup c : forall tr seen,
  NoDup (req_pairs tr) ->
  (forall h p, In (h, p) (req_pairs tr) -> pair_mem h p seen = false) ->
  no_reask_from c seen tr = true.
Proof.
  induction tr as [|o tr IH]; intros seen Hnd Hseen; [reflexivity|].
  destruct o as [l|h p|bh p]; cbn [no_reask_from].
  - apply IH; assumption.
  - cbn [req_pairs flat_map app] in Hnd, Hseen. fold (req_pairs tr) in Hnd, Hseen.
    inversion Hnd as [|? ? Hnotin Hnd']; subst.
    rewrite (Hseen h p (or_introl eq_refl)). rewrite andb_false_r.
    apply IH; [exact Hnd'|].
    intros h' p' Hin. rewrite pair_mem_cons. rewrite (Hseen h' p' (or_intror Hin)). rewrite orb_false_r.
    destruct (Z.eqb_spec h h') as [->|Hne]; [|reflexivity].
    destruct (Nat.eqb_spec p p') as [->|Hne]; [contradiction|reflexivity].
  - apply IH; assumption.
Qed.

(** the clause holds on every prefix of a trace on which it holds *)
Lemma no_reask_phase_one_part c : forall tr seen b,
  no_reask_from c seen tr = true -> no_reask_from c seen (phase_one_part b tr) = true.
Proof.
  induction tr as [|o tr IH]; intros seen b H; [reflexivity|].
  destruct o as [l|h p|bh p]; cbn [phase_one_part no_reask_from] in *.
  - destruct b; [reflexivity|]. cbn [no_reask_from]. apply IH. exact H.
  - destruct (failing c p h && pair_mem h p seen); [discriminate|]. apply IH. exact H.
  - apply IH. exact H.
Qed.

(** no (height, peer) pair is requested twice in phase one *)
Lemma phase_one_no_reask c sched :
  distinct_peers c = true -> no_reask_from c [] (rev (s_log (phase_one c sched))) = true.
Proof.
  intro Hd. apply no_reask_nodup; [|reflexivity].
  rewrite req_pairs_rev. apply NoDup_rev. apply (nr_nodup _ _ (phase_one_nore c sched Hd)).
Qed.

Lemma not_reasked c sched :
  spec_no_reask_phase_one c (rev (s_log (phase_one c sched))) = true.
Proof.
  unfold spec_no_reask_phase_one. destruct (distinct_peers c) eqn:Hd; [simpl|reflexivity].
  apply no_reask_phase_one_part. apply phase_one_no_reask. exact Hd.
Qed.
