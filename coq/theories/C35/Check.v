(** C35 — correspondence cases.  One case = one download task run on the real
    protocol between in-process libp2p hosts: the request, the peers' generated
    behaviour, and what was observed - the acknowledgement, the order in which
    the controller answered the held requests of phase one (this fixes the
    interleaving of the height goroutines, see harness/cmd/hC35/control.go),
    and the trace of requests / deliveries / task-list constructions. *)
From Coq Require Import List ZArith NArith Bool Arith.
From C33 Require Import Lib.Harness C35.Model C35.Spec.
Import ListNotations.
Open Scope Z_scope.

Inductive case :=
| Case (pids : list pid_entry) (conn : list nat)
       (lat : list N) (adv : list Z) (beh : list (list resp)) (st en : Z)
       (ak : option ack)               (* None: no acknowledgement seen *)
       (replies : list Z)              (* heights answered in phase one, in order *)
       (trace : list obs)              (* initial burst sorted by height, then controller order *)
       (finished : bool)               (* the handler returned within the budget (every task terminates) *)
       (odd : bool)                    (* the controller saw something it has no place for *)
(** the per-peer limit: one healthy peer, more heights than its limit.  Observed:
    how many requests the peer holds when every goroutine either waits for an
    answer or sleeps (burst), the largest number of simultaneously outstanding
    requests during the whole task, how many distinct heights were delivered. *)
| CaseLimit (nheights : nat) (burst_held maxconc : Z) (ndelivered : nat) (finished : bool).

Definition cfg_of (pids : list pid_entry) (conn : list nat) (lat : list N) (adv : list Z)
           (beh : list (list resp)) (st en : Z) : config :=
  mkConfig pids conn (fun p => nth p lat 0%N) (fun p => nth p adv (-1))
           (fun p h => if h <? st then RRefuse else nth (Z.to_nat (h - st)) (nth p beh []) RRefuse)
           st en.

Definition resp_eqb (a b : resp) : bool :=
  match a, b with
  | ROk, ROk | RRefuse, RRefuse | RStall, RStall | RMalformed, RMalformed => true
  | RWrong x, RWrong y => x =? y
  | _, _ => false
  end.

Definition obs_eqb (a b : obs) : bool :=
  match a, b with
  | OInit l, OInit m => list_eqb Nat.eqb l m
  | OReq h p, OReq k q => (h =? k) && (p =? q)%nat
  | ODeliver h p, ODeliver k q => (h =? k) && (p =? q)%nat
  | _, _ => false
  end.

Definition ack_eqb (a b : ack) : bool :=
  match a, b with
  | AckStartGtEnd, AckStartGtEnd | AckNoPid, AckNoPid | AckOk, AckOk => true
  | _, _ => false
  end.

Definition bind {A B} (o : option A) (f : A -> option B) : option B :=
  match o with Some x => f x | None => None end.

(** the initial burst: every goroutine sorts and picks.  The goroutines share
    only the sorted array and the TaskNum counters, so the order inside the
    burst is immaterial (below the per-peer limit, which needs more than 20
    heights). *)
Definition burst (n : nat) : list event := flat_map (fun g => [Sort g; Pick g]) (seq 0 n).

(** the controller answers the held request of goroutine g (or the request
    runs into the downloader's stream deadline) and waits for what that
    goroutine does next *)
Definition after_reply (c : config) (ts : list task) (s : state) (g : nat) : option state :=
  bind (step c ts s (Result g)) (fun s1 =>
  bind (step c ts s1 (Release g)) (fun s2 =>
  match g_pc (nth g (s_gs s2) dummy_g) with
  | PRemove _ => bind (step c ts s2 (Remove g)) (fun s3 => step c ts s3 (Pick g))
  | _ => Some s2
  end)).

Fixpoint replay (c : config) (ts : list task) (s : state) (rs : list Z) : option state :=
  match rs with
  | [] => Some s
  | h :: tl =>
      if h <? c_start c then None
      else bind (after_reply c ts s (Z.to_nat (h - c_start c))) (fun s' => replay c ts s' tl)
  end.

(** goroutines that found nothing to ask only sleep and look again until the
    retry bound; they never change shared data *)
Fixpoint run_sleeper (fuel : nat) (c : config) (ts : list task) (s : state) (g : nat) : state :=
  match fuel with
  | O => s
  | S f =>
      match g_pc (nth g (s_gs s) dummy_g) with
      | PSleep => match step c ts s (Sleep g) with Some s' => run_sleeper f c ts s' g | None => s end
      | PLoop => match step c ts s (Pick g) with Some s' => run_sleeper f c ts s' g | None => s end
      | _ => s
      end
  end.

Definition finish_sleepers (c : config) (ts : list task) (s : state) : state :=
  fold_left (fun s g => run_sleeper 120 c ts s g) (seq 0 (length (s_gs s))) s.

(** phase two of the trace: one segment per task-list construction; its height
    is the height of its first request (None when it asked nobody) *)
Fixpoint seg_heights (tr : list obs) (open : bool) : list (option Z) :=
  match tr with
  | [] => if open then [None] else []
  | OInit _ :: tl => (if open then [None] else []) ++ seg_heights tl true
  | OReq h _ :: tl => if open then Some h :: seg_heights tl false else seg_heights tl false
  | ODeliver _ _ :: tl => seg_heights tl open
  end.

Fixpoint drop_phase_one (seen_init : bool) (tr : list obs) : list obs :=
  match tr with
  | [] => []
  | OInit l :: tl => if seen_init then OInit l :: tl else drop_phase_one true tl
  | _ :: tl => drop_phase_one seen_init tl
  end.

Fixpoint fill (segs : list (option Z)) (pool : list Z) : list Z :=
  match segs with
  | [] => []
  | Some h :: tl => h :: fill tl pool
  | None :: tl => match pool with
                  | [] => fill tl []
                  | h :: pool' => h :: fill tl pool'
                  end
  end.

Definition derive_order (failed : list Z) (tr : list obs) (no_tasks : bool) : list Z :=
  if no_tasks then failed
  else
    let segs := seg_heights (drop_phase_one false tr) false in
    let known := flat_map (fun o => match o with Some h => [h] | None => [] end) segs in
    fill segs (filter (fun h => negb (memZ h known)) failed).

Fixpoint nodupZ (l : list Z) : bool :=
  match l with
  | [] => true
  | x :: tl => negb (memZ x tl) && nodupZ tl
  end.

Definition permZ (a b : list Z) : bool :=
  nodupZ a && (length a =? length b)%nat && forallb (fun x => memZ x b) a.

(** phase two in the observed order; every re-download returns *)
Fixpoint phase_two (c : config) (order : list Z) : option (list obs) :=
  match order with
  | [] => Some []
  | h :: tl =>
      if all_done (recheck c h) then bind (phase_two c tl) (fun r => Some (recheck_log c h ++ r))
      else None
  end.

(** the model's trace for this case (the handler always returns) *)
Definition model_trace (c : config) (replies : list Z) (trace : list obs) : option (list obs) :=
  let ts := init_job c in
  let n := length (heights c) in
  bind (exec_strict c ts (init_state ts (heights c)) (burst n)) (fun s0 =>
  bind (replay c ts s0 replies) (fun s1 =>
  let s2 := finish_sleepers c ts s1 in
  if negb (all_done s2) then None
  else
    let failed := failed_heights s2 in
    let order := derive_order failed trace (match ts with [] => true | _ => false end) in
    if negb (permZ order failed) then None
    else bind (phase_two c order) (fun r => Some (rev (s_log s2) ++ r)))).

Definition count_asking (s : state) : Z :=
  Z.of_nat (length (filter (fun G => match g_pc G with PReq _ => true | _ => false end) (s_gs s))).

Definition check_case (cs : case) : verdict :=
  match cs with
  | CaseLimit nh burst_held maxconc ndel finished =>
      let c := cfg_of [PPeer 0] [] [1%N] [Z.of_nat nh + 5] [repeat ROk nh] 1 (Z.of_nat nh) in
      let ts := init_job c in
      let lim := limit_of (length ts) in
      (* the model's burst: every goroutine sorts and picks once *)
      let held := match exec_strict c ts (init_state ts (heights c)) (burst nh) with
                  | Some s => count_asking s
                  | None => -1
                  end in
      let m := (burst_held =? held) && (maxconc =? Z.min (Z.of_nat nh) lim) && finished && (ndel =? nh)%nat in
      let s := finished && (maxconc <=? lim) && (ndel =? nh)%nat in
      (m, s, if s then 0%N else 9%N)
  | Case pids conn lat adv beh st en ak replies trace finished odd =>
      let c := cfg_of pids conn lat adv beh st en in
      (* at most 20 heights (the burst stays below the per-peer limit); a wrong-height answer really has another height *)
      let wf := (length (heights c) <=? 20)%nat
                && forallb (fun p => forallb (fun h => match c_beh c p h with RWrong b => negb (b =? h) | _ => true end)
                                             (heights c)) (job_peers c) in
      if negb wf then (false, false, 0%N) else
      let ack_ok := match ak with Some a => ack_eqb a (handler_ack c) | None => false end in
      let m_trace :=
        match handler_ack c with
        | AckOk => model_trace c replies trace
        | _ => match replies with [] => Some [] | _ => None end
        end in
      let m := ack_ok && negb odd && finished
               && match m_trace with
                  | Some l => list_eqb obs_eqb l trace
                  | None => false
                  end in
      let s := finished && spec_all c trace in
      (m, s, if s then 0%N
             else if finished then first_divergence c trace
             else 8%N)
  end.

(** compact constructors for the wire format *)
Definition P := PPeer.
Definition I := OInit.
Definition Q := OReq.
Definition D := ODeliver.
Definition W := RWrong.
