(** C35 — a goroutine running alone in the transition system computes [solo]
    (ProofsSolo.v); consequences for [recheck] (phase two) and for tasks with a
    single height under every schedule. *)
From Coq Require Import List ZArith NArith Bool Arith Lia Permutation.
From C33 Require Import Lib.Harness C35.Model C35.Spec C35.ProofsTerm C35.ProofsSolo.
Import ListNotations.
Open Scope nat_scope.

(** * List facts *)

Lemma upd_upd {A} (l : list A) i a b : upd (upd l i a) i b = upd l i b.
Proof. revert i; induction l as [|x l IH]; intros [|i]; simpl; auto. rewrite IH. reflexivity. Qed.

Lemma upd_repeat {A} (x : A) n i : upd (repeat x n) i x = repeat x n.
Proof. revert i; induction n as [|n IH]; intros [|i]; simpl; auto. rewrite IH. reflexivity. Qed.

Lemma release_zeros n t :
  t < n -> release (upd (zeros n) t (nth t (zeros n) 0 + 1)%Z) t = zeros n.
Proof.
  intro H. unfold release. rewrite nth_zeros.
  rewrite nth_upd_same by (unfold zeros; rewrite repeat_length; exact H).
  simpl. rewrite upd_upd. apply upd_repeat.
Qed.

Lemma forall_without (P : nat -> Prop) t (l : list nat) : Forall P l -> Forall P (without t l).
Proof.
  intro H. apply Forall_forall. intros x Hx. apply (proj1 (Forall_forall P l) H).
  apply without_in in Hx. exact (proj1 Hx).
Qed.

(** * Single-goroutine states *)

Definition solo_state (h : Z) (arr : list nat) (tn : list Z) (own : option (list nat))
           (retry : nat) (p : pc) (log : list obs) : state :=
  mkState arr tn [mkG h own retry p] log.

Definition view_of (arr : list nat) (own : option (list nat)) : list nat :=
  match own with Some l => l | None => arr end.

Lemma run_g_unfold f c ts s g :
  run_g (S f) c ts s g =
  match next_event (nth g (s_gs s) dummy_g) g with
  | None => s
  | Some e => match step c ts s e with Some s' => run_g f c ts s' g | None => s end
  end.
Proof. reflexivity. Qed.

Lemma run_g_at_done f c ts h arr tn own retry b log :
  run_g f c ts (solo_state h arr tn own retry (PDone b) log) 0
  = solo_state h arr tn own retry (PDone b) log.
Proof. destruct f; reflexivity. Qed.

Lemma step_pick c ts h arr tn own retry log :
  step c ts (solo_state h arr tn own retry PLoop log) (Pick 0) =
  let v := view_of arr own in
  if length v =? 0 then Some (solo_state h arr tn own retry (PDone false) log)
  else if max_retry <? S retry then Some (solo_state h arr tn own (S retry) (PDone false) log)
  else match scan c ts tn h (limit_of (length v)) v 0 with
       | None => Some (solo_state h arr tn own (S retry) PSleep log)
       | Some (t, _) =>
           Some (solo_state h arr (upd tn t (nth t tn 0 + 1)%Z) own (S retry) (PReq t)
                            (OReq h (task_peer ts t) :: log))
       end.
Proof.
  unfold step, solo_state, set_g, view, view_of.
  cbn [ev_g s_gs s_arr s_tnum s_log length Nat.ltb Nat.leb negb nth g_pc g_own g_retry g_h upd].
  cbn zeta.
  destruct (length (match own with Some l => l | None => arr end) =? 0); [reflexivity|].
  destruct (max_retry <? S retry); [reflexivity|].
  destruct (scan c ts tn h (limit_of (length (match own with Some l => l | None => arr end)))
                 (match own with Some l => l | None => arr end) 0) as [[t i]|]; reflexivity.
Qed.

Lemma step_sleep c ts h arr tn own retry log :
  step c ts (solo_state h arr tn own retry PSleep log) (Sleep 0)
  = Some (solo_state h arr tn own retry PLoop log).
Proof. reflexivity. Qed.

Lemma step_result c ts h arr tn own retry t log :
  step c ts (solo_state h arr tn own retry (PReq t) log) (Result 0) =
  if accepted (c_beh c (task_peer ts t) h)
  then Some (solo_state h arr tn own retry (POkRel t) (ODeliver h (task_peer ts t) :: log))
  else Some (solo_state h arr tn own retry (PFailRel t) log).
Proof.
  unfold step, solo_state, set_g.
  cbn [ev_g s_gs s_arr s_tnum s_log length Nat.ltb Nat.leb negb nth g_pc g_own g_retry g_h upd].
  destruct (accepted (c_beh c (task_peer ts t) h)); reflexivity.
Qed.

Lemma step_release_ok c ts h arr tn own retry t log :
  step c ts (solo_state h arr tn own retry (POkRel t) log) (Release 0)
  = Some (solo_state h arr (release tn t) own retry (PDone true) log).
Proof. reflexivity. Qed.

Lemma step_release_fail c ts h arr tn own retry t log :
  step c ts (solo_state h arr tn own retry (PFailRel t) log) (Release 0)
  = Some (solo_state h arr (release tn t) own retry (PRemove t) log).
Proof. reflexivity. Qed.

Lemma step_remove c ts h arr tn own retry t log :
  step c ts (solo_state h arr tn own retry (PRemove t) log) (Remove 0)
  = Some (solo_state h arr tn (Some (without t (view_of arr own))) retry PLoop log).
Proof. reflexivity. Qed.

Lemma step_sort c ts h arr tn retry log :
  step c ts (solo_state h arr tn None retry PStart log) (Sort 0)
  = Some (solo_state h (sort_tasks ts arr) tn None retry PLoop log).
Proof. reflexivity. Qed.

(** * The simulation *)

Lemma sim c ts n h : forall k fuel arr own retry log,
  Forall (fun t => t < n) (view_of arr own) -> 51 - retry < k -> 4 * k <= fuel ->
  let r := solo c ts n h k (view_of arr own) retry in
  exists tn' own' retry',
    run_g fuel c ts (solo_state h arr (zeros n) own retry PLoop log) 0
    = solo_state h arr tn' own' retry' (PDone (snd r)) (rev (fst r) ++ log).
Proof.
  induction k as [|k IH]; intros fuel arr own retry log Hview Hk Hfuel; [lia|].
  destruct fuel as [|[|[|[|f]]]]; try lia.
  cbn zeta. cbn [solo]. rewrite run_g_unfold.
  cbn [solo_state s_gs nth next_event g_pc]. fold (solo_state h arr (zeros n) own retry PLoop log).
  rewrite step_pick. cbn zeta.
  set (view := view_of arr own) in *.
  destruct view as [|x view'] eqn:Hv.
  { cbn [length Nat.eqb]. rewrite run_g_at_done. repeat eexists. }
  rewrite <- Hv in *.
  assert (Hpos : (length view =? 0) = false) by (rewrite Hv; reflexivity). rewrite Hpos. clear Hv Hpos.
  destruct (max_retry <? S retry) eqn:Hr.
  { rewrite run_g_at_done. repeat eexists. }
  destruct (scan c ts (zeros n) h (limit_of (length view)) view 0) as [[t i]|] eqn:Hs.
  - destruct (scan_some _ _ _ _ _ _ _ _ _ Hs) as [_ [Hi [Hnth _]]]. rewrite Nat.sub_0_r in *.
    assert (Ht : t < n).
    { rewrite <- Hnth. apply (proj1 (Forall_forall _ _) Hview). apply nth_In. exact Hi. }
    rewrite run_g_unfold. cbn [solo_state s_gs nth next_event g_pc].
    match goal with |- context [step c ts ?s (Result 0)] =>
      change s with (solo_state h arr (upd (zeros n) t (nth t (zeros n) 0 + 1)%Z) own
                                (S retry) (PReq t) (OReq h (task_peer ts t) :: log)) end.
    rewrite step_result.
    destruct (accepted (c_beh c (task_peer ts t) h)) eqn:Ha.
    + rewrite run_g_unfold. cbn [solo_state s_gs nth next_event g_pc].
      match goal with |- context [step c ts ?s (Release 0)] =>
        change s with (solo_state h arr (upd (zeros n) t (nth t (zeros n) 0 + 1)%Z) own
                                  (S retry) (POkRel t)
                                  (ODeliver h (task_peer ts t) :: OReq h (task_peer ts t) :: log)) end.
      rewrite step_release_ok. rewrite run_g_at_done. cbn [fst snd rev app].
      repeat eexists.
    + rewrite run_g_unfold. cbn [solo_state s_gs nth next_event g_pc].
      match goal with |- context [step c ts ?s (Release 0)] =>
        change s with (solo_state h arr (upd (zeros n) t (nth t (zeros n) 0 + 1)%Z) own
                                  (S retry) (PFailRel t) (OReq h (task_peer ts t) :: log)) end.
      rewrite step_release_fail. rewrite release_zeros by exact Ht.
      rewrite run_g_unfold. cbn [solo_state s_gs nth next_event g_pc].
      match goal with |- context [step c ts ?s (Remove 0)] =>
        change s with (solo_state h arr (zeros n) own (S retry) (PRemove t) (OReq h (task_peer ts t) :: log)) end.
      rewrite step_remove. fold view.
      assert (Hr' : S retry <= max_retry) by (apply Nat.ltb_ge in Hr; exact Hr). unfold max_retry in Hr'.
      destruct (IH f arr (Some (without t view)) (S retry) (OReq h (task_peer ts t) :: log))
        as [tn' [own' [retry' Hrun]]].
      * cbn [view_of]. apply forall_without. exact Hview.
      * lia.
      * lia.
      * cbn zeta in Hrun. cbn [view_of] in Hrun. rewrite Hrun. cbn [fst snd rev]. rewrite <- app_assoc. cbn [app].
        repeat eexists.
  - rewrite run_g_unfold. cbn [solo_state s_gs nth next_event g_pc].
    match goal with |- context [step c ts ?s (Sleep 0)] =>
      change s with (solo_state h arr (zeros n) own (S retry) PSleep log) end.
    rewrite step_sleep.
    assert (Hr' : S retry <= max_retry) by (apply Nat.ltb_ge in Hr; exact Hr). unfold max_retry in Hr'.
    destruct (IH (S (S f)) arr own (S retry) log Hview ltac:(lia) ltac:(lia))
      as [tn' [own' [retry' Hrun]]].
    cbn zeta in Hrun. fold view in Hrun. rewrite Hrun. repeat eexists.
Qed.
