(** C35 — a goroutine running alone in the transition system computes [solo]
    (ProofsSolo.v); consequences for [recheck] (phase two) and for tasks with a
    single height under every schedule. *)
From Coq Require Import List ZArith NArith Bool Arith Lia Permutation.
From C33 Require Import Lib.Harness C35.Model C35.Spec C35.ProofsTerm C35.ProofsSolo.
Import ListNotations.
Open Scope nat_scope.

(** * List facts *)

Lemma upd_upd {A} (l : list A) i a b : upd (upd l i a) i b = upd l i b.
Proof. revert i; induction l as [|x l IH]; intros [|i]; simpl; auto. rewrite IH. reflexivity. Qed.

Lemma upd_repeat {A} (x : A) n i : upd (repeat x n) i x = repeat x n.
Proof. revert i; induction n as [|n IH]; intros [|i]; simpl; auto. rewrite IH. reflexivity. Qed.

Lemma firstn_app_exact {A} (l r : list A) : firstn (length l) (l ++ r) = l.
Proof. induction l as [|x l IH]; simpl; [destruct r; reflexivity|]. rewrite IH. reflexivity. Qed.

Lemma firstn_app_le {A} (l r : list A) i : i <= length l -> firstn i (l ++ r) = firstn i l.
Proof.
  intro H. rewrite firstn_app. replace (i - length l) with 0 by lia. simpl. apply app_nil_r.
Qed.

Lemma remove_shared_app (view rest : list nat) i :
  i < length view ->
  remove_shared (view ++ rest) (length view) i
  = remove_nth i view ++ skipn (length view - 1) (view ++ rest).
Proof.
  intro H. unfold remove_shared, remove_nth.
  rewrite firstn_app_exact, firstn_app_le by lia. rewrite app_assoc. reflexivity.
Qed.

Lemma release_zeros n t :
  t < n -> release (upd (zeros n) t (nth t (zeros n) 0 + 1)%Z) t = zeros n.
Proof.
  intro H. unfold release. rewrite nth_zeros.
  rewrite nth_upd_same by (unfold zeros; rewrite repeat_length; exact H).
  simpl. rewrite upd_upd. apply upd_repeat.
Qed.

Lemma forall_remove_nth {A} (P : A -> Prop) i (l : list A) : Forall P l -> Forall P (remove_nth i l).
Proof.
  intro H. apply Forall_forall. intros x Hx. apply (proj1 (Forall_forall P l) H).
  apply (remove_nth_in _ _ _ Hx).
Qed.

(** * Single-goroutine states *)

Definition solo_state (h : Z) (arr : list nat) (tn : list Z) (idx : list nat)
           (vlen retry : nat) (p : pc) (log : list obs) : state :=
  mkState arr tn idx [mkG h vlen retry p] log.

Lemma run_g_unfold f c ts s g :
  run_g (S f) c ts s g =
  match next_event (nth g (s_gs s) dummy_g) g with
  | None => s
  | Some e => match step c ts s e with Some s' => run_g f c ts s' g | None => s end
  end.
Proof. reflexivity. Qed.

Lemma run_g_at_done f c ts h arr tn idx vlen retry b log :
  run_g f c ts (solo_state h arr tn idx vlen retry (PDone b) log) 0
  = solo_state h arr tn idx vlen retry (PDone b) log.
Proof. destruct f; reflexivity. Qed.

Lemma step_pick c ts h arr tn idx vlen retry log :
  step c ts (solo_state h arr tn idx vlen retry PLoop log) (Pick 0) =
  if vlen =? 0 then Some (solo_state h arr tn idx vlen retry (PDone false) log)
  else if max_retry <? S retry then Some (solo_state h arr tn idx vlen (S retry) (PDone false) log)
  else match scan c ts tn h (limit_of vlen) (firstn vlen arr) 0 with
       | None => Some (solo_state h arr tn idx vlen (S retry) PSleep log)
       | Some (t, i) =>
           Some (solo_state h arr (upd tn t (nth t tn 0 + 1)%Z) (upd idx t i) vlen (S retry) (PReq t)
                            (OReq h (task_peer ts t) :: log))
       end.
Proof.
  unfold step, solo_state, set_g.
  cbn [ev_g s_gs s_arr s_tnum s_idx s_log length Nat.ltb Nat.leb negb nth g_pc g_vlen g_retry g_h upd].
  destruct (vlen =? 0); [reflexivity|]. destruct (max_retry <? S retry); [reflexivity|].
  destruct (scan c ts tn h (limit_of vlen) (firstn vlen arr) 0) as [[t i]|]; reflexivity.
Qed.

Lemma step_sleep c ts h arr tn idx vlen retry log :
  step c ts (solo_state h arr tn idx vlen retry PSleep log) (Sleep 0)
  = Some (solo_state h arr tn idx vlen retry PLoop log).
Proof. reflexivity. Qed.

Lemma step_result c ts h arr tn idx vlen retry t log :
  step c ts (solo_state h arr tn idx vlen retry (PReq t) log) (Result 0) =
  if is_stall (c_beh c (task_peer ts t) h) then None else
  match accepted (c_beh c (task_peer ts t) h) with
  | Some o => Some (solo_state h arr tn idx vlen retry (POkRel t)
                               (ODeliver (deliver_height h o) (task_peer ts t) :: log))
  | None => Some (solo_state h arr tn idx vlen retry (PFailRel t) log)
  end.
Proof.
  unfold step, solo_state, set_g.
  cbn [ev_g s_gs s_arr s_tnum s_idx s_log length Nat.ltb Nat.leb negb nth g_pc g_vlen g_retry g_h upd].
  destruct (is_stall (c_beh c (task_peer ts t) h)); [reflexivity|].
  destruct (accepted (c_beh c (task_peer ts t) h)) as [[b|]|]; reflexivity.
Qed.

Lemma step_release_ok c ts h arr tn idx vlen retry t log :
  step c ts (solo_state h arr tn idx vlen retry (POkRel t) log) (Release 0)
  = Some (solo_state h arr (release tn t) idx vlen retry (PDone true) log).
Proof. reflexivity. Qed.

Lemma step_release_fail c ts h arr tn idx vlen retry t log :
  step c ts (solo_state h arr tn idx vlen retry (PFailRel t) log) (Release 0)
  = Some (solo_state h arr (release tn t) idx vlen retry (PRemove t) log).
Proof. reflexivity. Qed.

Lemma step_remove c ts h arr tn idx vlen retry t log :
  step c ts (solo_state h arr tn idx vlen retry (PRemove t) log) (Remove 0) =
  if vlen <? nth t idx 0 + 1 then Some (solo_state h arr tn idx vlen retry PLoop log)
  else Some (solo_state h (remove_shared arr vlen (nth t idx 0)) tn idx (vlen - 1) retry PLoop log).
Proof.
  unfold step, solo_state, set_g.
  cbn [ev_g s_gs s_arr s_tnum s_idx s_log length Nat.ltb Nat.leb negb nth g_pc g_vlen g_retry g_h upd].
  destruct (vlen <? nth t idx 0 + 1); reflexivity.
Qed.

Lemma step_sort c ts h arr tn idx vlen retry log :
  step c ts (solo_state h arr tn idx vlen retry PStart log) (Sort 0)
  = Some (solo_state h (sort_view ts arr vlen) tn idx vlen retry PLoop log).
Proof. reflexivity. Qed.

(** * The simulation *)

Lemma sim c ts n h : forall k fuel view rest idx retry log,
  Forall (fun t => t < n) view -> stall_free c ts h view = true ->
  length idx = n -> 51 - retry < k -> 4 * k <= fuel ->
  let r := solo c ts n h k view retry in
  exists arr' tn' idx' vlen' retry',
    run_g fuel c ts (solo_state h (view ++ rest) (zeros n) idx (length view) retry PLoop log) 0
    = solo_state h arr' tn' idx' vlen' retry' (PDone (snd r)) (rev (fst r) ++ log).
Proof.
  induction k as [|k IH]; intros fuel view rest idx retry log Hview Hsf Hidx Hk Hfuel; [lia|].
  destruct fuel as [|[|[|[|f]]]]; try lia.
  cbn zeta. cbn [solo]. rewrite run_g_unfold.
  cbn [solo_state s_gs nth next_event g_pc]. fold (solo_state h (view ++ rest) (zeros n) idx (length view) retry PLoop log).
  rewrite step_pick.
  destruct view as [|x view'] eqn:Hv.
  { cbn [length Nat.eqb]. rewrite run_g_at_done. repeat eexists. }
  rewrite <- Hv in *.
  assert (Hpos : (length view =? 0) = false) by (rewrite Hv; reflexivity). rewrite Hpos. clear Hv Hpos.
  destruct (max_retry <? S retry) eqn:Hr.
  { rewrite run_g_at_done. repeat eexists. }
  rewrite firstn_app_exact.
  destruct (scan c ts (zeros n) h (limit_of (length view)) view 0) as [[t i]|] eqn:Hs.
  - destruct (scan_some _ _ _ _ _ _ _ _ _ Hs) as [_ [Hi [Hnth _]]]. rewrite Nat.sub_0_r in *.
    assert (Ht : t < n).
    { rewrite <- Hnth. apply (proj1 (Forall_forall _ _) Hview). apply nth_In. exact Hi. }
    rewrite run_g_unfold. cbn [solo_state s_gs nth next_event g_pc].
    match goal with |- context [step c ts ?s (Result 0)] =>
      change s with (solo_state h (view ++ rest) (upd (zeros n) t (nth t (zeros n) 0 + 1)%Z) (upd idx t i)
                                (length view) (S retry) (PReq t) (OReq h (task_peer ts t) :: log)) end.
    rewrite step_result.
    assert (Hns : is_stall (c_beh c (task_peer ts t) h) = false).
    { unfold stall_free in Hsf. apply negb_true_iff.
      apply (proj1 (forallb_forall _ _) Hsf t). rewrite <- Hnth. apply nth_In. exact Hi. }
    rewrite Hns.
    destruct (accepted (c_beh c (task_peer ts t) h)) as [a|] eqn:Ha.
    + rewrite run_g_unfold. cbn [solo_state s_gs nth next_event g_pc].
      match goal with |- context [step c ts ?s (Release 0)] =>
        change s with (solo_state h (view ++ rest) (upd (zeros n) t (nth t (zeros n) 0 + 1)%Z) (upd idx t i)
                                  (length view) (S retry) (POkRel t)
                                  (ODeliver (deliver_height h a) (task_peer ts t) :: OReq h (task_peer ts t) :: log)) end.
      rewrite step_release_ok. rewrite run_g_at_done. cbn [fst snd rev app].
      repeat eexists.
    + rewrite run_g_unfold. cbn [solo_state s_gs nth next_event g_pc].
      match goal with |- context [step c ts ?s (Release 0)] =>
        change s with (solo_state h (view ++ rest) (upd (zeros n) t (nth t (zeros n) 0 + 1)%Z) (upd idx t i)
                                  (length view) (S retry) (PFailRel t) (OReq h (task_peer ts t) :: log)) end.
      rewrite step_release_fail. rewrite release_zeros by exact Ht.
      rewrite run_g_unfold. cbn [solo_state s_gs nth next_event g_pc].
      match goal with |- context [step c ts ?s (Remove 0)] =>
        change s with (solo_state h (view ++ rest) (zeros n) (upd idx t i)
                                  (length view) (S retry) (PRemove t) (OReq h (task_peer ts t) :: log)) end.
      rewrite step_remove. rewrite nth_upd_same by (rewrite Hidx; exact Ht).
      assert (Hlt : (length view <? i + 1) = false) by (apply Nat.ltb_ge; lia). rewrite Hlt.
      rewrite remove_shared_app by exact Hi.
      assert (Hl' : length view - 1 = length (remove_nth i view)) by (rewrite remove_nth_length; auto).
      set (R := skipn (length view - 1) (view ++ rest)). rewrite Hl'.
      assert (Hr' : S retry <= max_retry) by (apply Nat.ltb_ge in Hr; exact Hr). unfold max_retry in Hr'.
      destruct (IH f (remove_nth i view) R (upd idx t i) (S retry)
                   (OReq h (task_peer ts t) :: log))
        as [arr' [tn' [idx' [vlen' [retry' Hrun]]]]].
      * apply forall_remove_nth. exact Hview.
      * apply forallb_remove_nth. exact Hsf.
      * rewrite upd_length. exact Hidx.
      * lia.
      * lia.
      * cbn zeta in Hrun. rewrite Hrun. cbn [fst snd rev]. rewrite <- app_assoc. cbn [app].
        repeat eexists.
  - rewrite run_g_unfold. cbn [solo_state s_gs nth next_event g_pc].
    match goal with |- context [step c ts ?s (Sleep 0)] =>
      change s with (solo_state h (view ++ rest) (zeros n) idx (length view) (S retry) PSleep log) end.
    rewrite step_sleep.
    assert (Hr' : S retry <= max_retry) by (apply Nat.ltb_ge in Hr; exact Hr). unfold max_retry in Hr'.
    destruct (IH (S (S f)) view rest idx (S retry) log Hview Hsf Hidx ltac:(lia) ltac:(lia))
      as [arr' [tn' [idx' [vlen' [retry' Hrun]]]]].
    cbn zeta in Hrun. rewrite Hrun. repeat eexists.
Qed.
