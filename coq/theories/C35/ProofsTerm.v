(** C35 — termination of phase one under every schedule, progress (no
    deadlock), and the bound on the number of requests. *)
From Coq Require Import List ZArith NArith Bool Arith Lia.
From C33 Require Import C35.Model.
Import ListNotations.
Open Scope nat_scope.

(** * List helpers *)

Lemma upd_length {A} (l : list A) i v : length (upd l i v) = length l.
Proof. revert i; induction l as [|x l IH]; intros [|i]; simpl; auto. Qed.

Lemma nth_upd_same {A} (l : list A) i v d : i < length l -> nth i (upd l i v) d = v.
Proof. revert i; induction l as [|x l IH]; intros [|i]; simpl; intros; try lia; auto. apply IH; lia. Qed.

Lemma nth_upd_other {A} (l : list A) i j v d : i <> j -> nth j (upd l i v) d = nth j l d.
Proof.
  revert i j; induction l as [|x l IH]; intros [|i] [|j]; simpl; intros; try lia; auto.
Qed.

Definition sum_by {A} (f : A -> nat) (l : list A) : nat := fold_right (fun x acc => f x + acc) 0 l.

Lemma sum_by_upd {A} (f : A -> nat) (l : list A) i v d :
  i < length l -> sum_by f (upd l i v) + f (nth i l d) = sum_by f l + f v.
Proof.
  revert i; induction l as [|x l IH]; intros [|i]; simpl; intros; try lia.
  specialize (IH i ltac:(lia)). lia.
Qed.

(** * The measure *)

Definition rank (p : pc) : nat :=
  match p with
  | PStart => 6 | PReq _ => 5 | PFailRel _ => 4 | POkRel _ => 4 | PRemove _ => 3
  | PSleep => 1 | PLoop => 0 | PDone _ => 0
  end.

Definition mu_g (G : gstate) : nat :=
  match g_pc G with
  | PDone _ => 0
  | p => 6 * (51 - g_retry G) + rank p + 1
  end.

Definition mu (s : state) : nat := sum_by mu_g (s_gs s).

(** every step changes exactly the goroutine it belongs to *)
Lemma step_gs c ts s e s' :
  step c ts s e = Some s' ->
  ev_g e < length (s_gs s) /\
  exists G', s_gs s' = upd (s_gs s) (ev_g e) G' /\ mu_g G' < mu_g (nth (ev_g e) (s_gs s) dummy_g).
Proof.
  unfold step. destruct (ev_g e <? length (s_gs s)) eqn:Hlt; simpl; [|discriminate].
  apply Nat.ltb_lt in Hlt. intro H. split; [exact Hlt|].
  set (G := nth (ev_g e) (s_gs s) dummy_g) in *.
  destruct e; simpl in *; destruct (g_pc G) eqn:Hpc; try discriminate.
  - (* Sort *)
    destruct (g_own G); inversion H; subst; clear H; (eexists; split; [reflexivity|]);
      unfold mu_g; simpl; rewrite Hpc; simpl; lia.
  - (* Pick *)
    destruct (length (view s G) =? 0) eqn:Hv.
    + inversion H; subst; clear H. eexists; split; [reflexivity|].
      unfold mu_g; simpl; rewrite Hpc; simpl; lia.
    + destruct (max_retry <? S (g_retry G)) eqn:Hr.
      * inversion H; subst; clear H. eexists; split; [reflexivity|].
        unfold mu_g; simpl; rewrite Hpc; simpl; lia.
      * apply Nat.ltb_ge in Hr. unfold max_retry in Hr.
        destruct (scan c ts (s_tnum s) (g_h G) (limit_of (length (view s G))) (view s G) 0)
          as [[t i]|]; inversion H; subst; clear H; (eexists; split; [reflexivity|]);
          unfold mu_g; cbn [g_pc g_retry rank]; rewrite Hpc; cbn [rank]; lia.
  - (* Result *)
    destruct (accepted (c_beh c (task_peer ts t) (g_h G))); inversion H; subst; clear H;
      (eexists; split; [reflexivity|]); unfold mu_g; simpl; rewrite Hpc; simpl; lia.
  - (* Release, failed *) inversion H; subst; clear H. eexists; split; [reflexivity|].
    unfold mu_g; simpl; rewrite Hpc; simpl; lia.
  - (* Release, ok *) inversion H; subst; clear H. eexists; split; [reflexivity|].
    unfold mu_g; simpl; rewrite Hpc; simpl; lia.
  - (* Remove *) inversion H; subst; clear H. eexists; split; [reflexivity|].
    unfold mu_g; simpl; rewrite Hpc; simpl; lia.
  - (* Sleep *) inversion H; subst; clear H. eexists; split; [reflexivity|].
    unfold mu_g; simpl; rewrite Hpc; simpl; lia.
Qed.

Lemma step_decreases c ts s e s' : step c ts s e = Some s' -> mu s' < mu s.
Proof.
  intro H. destruct (step_gs _ _ _ _ _ H) as [Hlt [G' [Hgs Hmu]]].
  unfold mu. rewrite Hgs.
  pose proof (sum_by_upd mu_g (s_gs s) (ev_g e) G' dummy_g Hlt). lia.
Qed.

Lemma step_length c ts s e s' : step c ts s e = Some s' -> length (s_gs s') = length (s_gs s).
Proof.
  intro H. destruct (step_gs _ _ _ _ _ H) as [_ [G' [Hgs _]]]. rewrite Hgs. apply upd_length.
Qed.

(** number of events of a schedule that are enabled when their turn comes *)
Fixpoint steps_taken (c : config) (ts : list task) (s : state) (sched : list event) : nat :=
  match sched with
  | [] => 0
  | e :: tl => match step c ts s e with
               | Some s' => S (steps_taken c ts s' tl)
               | None => steps_taken c ts s tl
               end
  end.

Lemma steps_bounded c ts sched : forall s, steps_taken c ts s sched + mu (exec c ts s sched) <= mu s.
Proof.
  induction sched as [|e tl IH]; intro s; simpl; [lia|].
  destruct (step c ts s e) as [s'|] eqn:Hs.
  - pose proof (step_decreases _ _ _ _ _ Hs). specialize (IH s'). lia.
  - apply IH.
Qed.

Definition per_height_bound : nat := 6 * 51 + 7.

Lemma mu_init ts hs : mu (init_state ts hs) = length hs * per_height_bound.
Proof.
  unfold mu, init_state; simpl. induction hs as [|h hs IH]; simpl; [reflexivity|].
  rewrite IH. unfold mu_g, per_height_bound; simpl. lia.
Qed.

Lemma heights_length c : length (heights c) = Z.to_nat (c_end c - c_start c + 1).
Proof. unfold heights. rewrite map_length, seq_length. reflexivity. Qed.

(** termination: under every schedule at most 313 events per height happen *)
Lemma terminates c sched :
  steps_taken c (init_job c) (init_state (init_job c) (heights c)) sched
  <= length (heights c) * per_height_bound.
Proof.
  pose proof (steps_bounded c (init_job c) sched (init_state (init_job c) (heights c))).
  rewrite mu_init in H. lia.
Qed.

(** progress: a goroutine that has not returned can always take its next
    event (every request ends: with a block, an error, or the stream deadline) *)
Lemma next_event_enabled c ts s g e :
  g < length (s_gs s) ->
  next_event (nth g (s_gs s) dummy_g) g = Some e ->
  exists s', step c ts s e = Some s'.
Proof.
  intros Hlt Hn. unfold next_event in Hn.
  assert (Hb : (g <? length (s_gs s)) = true) by (apply Nat.ltb_lt; exact Hlt).
  destruct (g_pc (nth g (s_gs s) dummy_g)) eqn:Hpc; inversion Hn; subst; clear Hn;
    unfold step; simpl; rewrite Hb; simpl; rewrite Hpc.
  all: repeat match goal with
       | |- exists _, (if ?b then _ else _) = _ => destruct b
       | |- exists _, match ?x with _ => _ end = _ => destruct x
       end; eexists; reflexivity.
Qed.

Lemma not_all_done_has_next s :
  all_done s = false ->
  exists g e, g < length (s_gs s) /\ next_event (nth g (s_gs s) dummy_g) g = Some e.
Proof.
  unfold all_done. intro H.
  assert (Hex : exists g, g < length (s_gs s) /\ is_done (nth g (s_gs s) dummy_g) = false).
  { induction (s_gs s) as [|G l IH]; simpl in H; [discriminate|].
    destruct (is_done G) eqn:HG; simpl in H.
    - destruct (IH H) as [g [Hg Hd]]. exists (S g). simpl. split; [lia|exact Hd].
    - exists 0. simpl. split; [lia|exact HG]. }
  destruct Hex as [g [Hg Hd]]. exists g.
  unfold is_done in Hd. unfold next_event.
  destruct (g_pc (nth g (s_gs s) dummy_g)); try discriminate; eexists; (split; [exact Hg|reflexivity]).
Qed.

Lemma progress c ts s :
  all_done s = false -> exists e s', step c ts s e = Some s'.
Proof.
  intros H. destruct (not_all_done_has_next s H) as [g [e [Hg Hn]]].
  destruct (next_event_enabled c ts s g e Hg Hn) as [s' Hs]. exists e, s'. exact Hs.
Qed.
