(** C35 — what one goroutine alone guarantees, stated for [recheck] (every
    re-download of phase two) and for a task with one height under every
    schedule. *)
From Coq Require Import List ZArith NArith Bool Arith Lia Permutation.
From C33 Require Import Lib.Harness C35.Model C35.Spec C35.ProofsTerm C35.ProofsSolo C35.ProofsSim.
Import ListNotations.
Open Scope nat_scope.

(** * The stable insertion sort permutes *)

Lemma insert_by_perm lat x l : Permutation (insert_by lat x l) (x :: l).
Proof.
  induction l as [|y l IH]; simpl; [apply Permutation_refl|].
  destruct (lat x <? lat y)%N; [apply Permutation_refl|].
  eapply Permutation_trans; [apply perm_skip; exact IH|apply perm_swap].
Qed.

Lemma isort_perm lat l : Permutation (isort lat l) l.
Proof.
  unfold isort.
  assert (H : forall acc, Permutation (fold_left (fun a x => insert_by lat x a) l acc) (l ++ acc)).
  { induction l as [|x l IH]; intro acc; simpl; [apply Permutation_refl|].
    eapply Permutation_trans; [apply IH|].
    eapply Permutation_trans; [apply Permutation_app_head; apply insert_by_perm|].
    apply Permutation_sym. apply Permutation_middle. }
  specialize (H []). rewrite app_nil_r in H. exact H.
Qed.

(** * Task table facts *)

Definition ntasks (c : config) : nat := length (init_job c).
Definition view0 (c : config) : list nat := sort_tasks (init_job c) (seq 0 (ntasks c)).
Definition init_log (c : config) : list obs :=
  match init_job c with [] => [] | _ :: _ => [OInit (map t_peer (init_job c))] end.

Lemma init_job_peers c : map t_peer (init_job c) = job_peers c.
Proof. unfold init_job. rewrite map_map. simpl. apply map_id. Qed.

Lemma ntasks_peers c : ntasks c = length (job_peers c).
Proof. unfold ntasks, init_job. apply map_length. Qed.

Lemma map_nth_seq {A} (l : list A) d : map (fun t => nth t l d) (seq 0 (length l)) = l.
Proof.
  induction l as [|x l IH]; simpl; [reflexivity|]. f_equal.
  rewrite <- seq_shift, map_map. simpl. exact IH.
Qed.

Lemma task_peer_seq ts : map (task_peer ts) (seq 0 (length ts)) = map t_peer ts.
Proof.
  unfold task_peer. rewrite <- (map_map (fun t => nth t ts (mkTask 0 0%N)) t_peer).
  f_equal. apply map_nth_seq.
Qed.

Lemma view0_perm c : Permutation (view0 c) (seq 0 (ntasks c)).
Proof. apply isort_perm. Qed.

Lemma view0_length c : length (view0 c) = ntasks c.
Proof. rewrite (Permutation_length (view0_perm c)). apply seq_length. Qed.

Lemma view0_valid c : Forall (fun t => t < ntasks c) (view0 c).
Proof.
  apply Forall_forall. intros t Ht.
  apply (Permutation_in _ (view0_perm c)) in Ht. apply in_seq in Ht. lia.
Qed.

Lemma view0_peers c : Permutation (map (task_peer (init_job c)) (view0 c)) (job_peers c).
Proof.
  eapply Permutation_trans; [apply Permutation_map; apply view0_perm|].
  unfold ntasks. rewrite task_peer_seq, init_job_peers. apply Permutation_refl.
Qed.

Lemma task_peer_in c t : t < ntasks c -> In (task_peer (init_job c) t) (job_peers c).
Proof.
  intro H. rewrite <- init_job_peers. unfold task_peer.
  apply in_map. apply nth_In. exact H.
Qed.

Lemma nodup_nat_spec l : nodup_nat l = true -> NoDup l.
Proof.
  induction l as [|x l IH]; simpl; intro H; [constructor|].
  apply andb_true_iff in H. destruct H as [H1 H2]. constructor; [|apply IH; exact H2].
  intro Hin. apply negb_true_iff in H1.
  assert (existsb (Nat.eqb x) l = true) by (apply existsb_exists; exists x; split; [exact Hin|apply Nat.eqb_refl]).
  congruence.
Qed.

(** * [recheck] computes [solo] *)

Definition solo0 (c : config) (h : Z) : list obs * bool :=
  solo c (init_job c) (ntasks c) h 52 (view0 c) 0.

Lemma recheck_solo c h :
  exists arr tn own retry,
    recheck c h = solo_state h arr tn own retry (PDone (snd (solo0 c h)))
                             (rev (fst (solo0 c h)) ++ init_log c).
Proof.
  unfold recheck.
  assert (Hinit : init_state (init_job c) [h]
                  = solo_state h (seq 0 (ntasks c)) (zeros (ntasks c)) None 0 PStart (init_log c)).
  { unfold init_state, solo_state, init_log, ntasks, zeros. destruct (init_job c); reflexivity. }
  rewrite Hinit. change g_fuel with (S 317). rewrite run_g_unfold.
  cbn [solo_state s_gs nth next_event g_pc].
  fold (solo_state h (seq 0 (ntasks c)) (zeros (ntasks c)) None 0 PStart (init_log c)).
  rewrite step_sort. fold (view0 c).
  pose proof (sim c (init_job c) (ntasks c) h 52 317 (view0 c) None 0 (init_log c)) as Hs.
  cbn [view_of] in Hs.
  specialize (Hs (view0_valid c)).
  assert (H1 : 51 - 0 < 52) by lia.
  assert (H2 : 4 * 52 <= 317) by lia.
  specialize (Hs H1 H2).
  destruct Hs as [tn [own [retry Hrun]]].
  exists (view0 c), tn, own, retry. exact Hrun.
Qed.

Lemma recheck_log_solo c h : recheck_log c h = init_log c ++ fst (solo0 c h).
Proof.
  unfold recheck_log. destruct (recheck_solo c h) as [arr [tn [own [retry H]]]]. rewrite H.
  unfold solo_state. cbn [s_log]. rewrite rev_app_distr, rev_involutive.
  unfold init_log. destruct (init_job c); reflexivity.
Qed.

Lemma req_peers_init c l : req_peers (init_log c ++ l) = req_peers l.
Proof. unfold init_log. destruct (init_job c); reflexivity. Qed.

(** every re-download returns *)
Lemma recheck_done c h : all_done (recheck c h) = true.
Proof.
  destruct (recheck_solo c h) as [arr [tn [own [retry H]]]]. rewrite H. reflexivity.
Qed.

(** a peer that failed is not asked again *)
Lemma recheck_no_reask c h :
  distinct_peers c = true -> no_reask_from c [] (recheck_log c h) = true.
Proof.
  intros Hd. rewrite (recheck_log_solo c h). unfold solo0.
  assert (Hnd : NoDup (map (task_peer (init_job c)) (view0 c))).
  { apply (Permutation_NoDup (Permutation_sym (view0_peers c))). apply nodup_nat_spec. exact Hd. }
  destruct (solo_requests c (init_job c) (ntasks c) h 52 (view0 c) 0 Hnd) as [H1 [H2 H3]].
  apply (no_reask_from_distinct c h).
  - intros o Ho. apply in_app_or in Ho. destruct Ho as [Ho|Ho].
    + unfold init_log in Ho. destruct (init_job c); [inversion Ho|]. destruct Ho as [<-|[]]. exact I.
    + apply (H3 o Ho).
  - rewrite req_peers_init. exact H1.
  - reflexivity.
Qed.

Lemma solo_req_heights c ts n h : forall k view retry,
  req_heights_ok h (fst (solo c ts n h k view retry)).
Proof.
  unfold req_heights_ok.
  induction k as [|k IH]; intros view retry o' Ho'; [inversion Ho'|].
  cbn [solo] in Ho'. destruct view as [|x view'] eqn:Hv; [inversion Ho'|]. rewrite <- Hv in *. clear Hv.
  destruct (max_retry <? S retry); [inversion Ho'|].
  destruct (scan c ts (zeros n) h (limit_of (length view)) view 0) as [[t i]|].
  - destruct (accepted (c_beh c (task_peer ts t) h)).
    + destruct Ho' as [<-|[<-|[]]]; auto.
    + cbn [fst] in Ho'. destruct Ho' as [<-|Ho']; [reflexivity|]. apply (IH _ _ _ Ho').
  - apply (IH _ _ _ Ho').
Qed.

(** what is asked and what is handed over *)
Lemma recheck_events c h o :
  In o (recheck_log c h) ->
  match o with
  | OInit l => l = job_peers c
  | OReq h' p => h' = h /\ In p (job_peers c) /\ (h <=? c_adv c p)%Z = true
  | ODeliver bh p => In p (job_peers c) /\ (h <=? c_adv c p)%Z = true
                     /\ accepted (c_beh c p h) = true /\ bh = h
  end.
Proof.
  rewrite (recheck_log_solo c h). unfold solo0. intro Hin. apply in_app_or in Hin. destruct Hin as [Hin|Hin].
  - unfold init_log in Hin. pose proof (init_job_peers c) as Hp.
    destruct (init_job c); [inversion Hin|]. destruct Hin as [<-|[]]. exact Hp.
  - pose proof (solo_deliveries c (init_job c) (ntasks c) h 52 (view0 c) 0 o Hin) as H.
    pose proof (solo_req_heights c (init_job c) (ntasks c) h 52 (view0 c) 0) as Hh.
    destruct o as [l|h' p|bh p].
    + contradiction.
    + destruct H as [t [Ht [Hp He]]]. split; [apply (Hh _ Hin)|]. split; [|exact He].
      subst p. apply task_peer_in. apply (proj1 (Forall_forall _ _) (view0_valid c) t Ht).
    + destruct H as [t [Ht [Hp [He Ha]]]]. split; [|split; [exact He|exact Ha]].
      subst p. apply task_peer_in. apply (proj1 (Forall_forall _ _) (view0_valid c) t Ht).
Qed.

(** at most 50 given peers: the retry bound of downloadBlock is 50 *)
Definition few_peers (c : config) : bool := length (job_peers c) <=? max_retry.

(** a servable height is delivered *)
Lemma recheck_delivers c h :
  servable c h = true -> few_peers c = true ->
  snd (solo0 c h) = true /\ exists p, In (ODeliver h p) (recheck_log c h).
Proof.
  intros Hs Hf. unfold few_peers in Hf. apply Nat.leb_le in Hf. rewrite (recheck_log_solo c h). unfold solo0.
  destruct (solo_delivers c (init_job c) (ntasks c) h 52 (view0 c) 0) as [H1 [p Hp]].
  - unfold servable in Hs. apply existsb_exists in Hs. destruct Hs as [p [Hin Hp]].
    apply (Permutation_in _ (Permutation_sym (view0_peers c))) in Hin.
    apply in_map_iff in Hin. destruct Hin as [t [Ht Hin]].
    apply existsb_exists. exists t. split; [exact Hin|]. unfold good. rewrite Ht. exact Hp.
  - rewrite view0_length, ntasks_peers. simpl. exact Hf.
  - lia.
  - split; [exact H1|]. exists p. apply in_or_app. right. exact Hp.
Qed.

(** * One height under every schedule = the goroutine alone *)

Lemma step_is_next c ts s e s' :
  step c ts s e = Some s' -> next_event (nth (ev_g e) (s_gs s) dummy_g) (ev_g e) = Some e.
Proof.
  unfold step, next_event. destruct (ev_g e <? length (s_gs s)); simpl; [|discriminate].
  destruct e; simpl; destruct (g_pc (nth g (s_gs s) dummy_g)); try discriminate; reflexivity.
Qed.

Lemma all_done_run_g c ts s : all_done s = true -> length (s_gs s) = 1 -> forall f, run_g f c ts s 0 = s.
Proof.
  intros Hd Hl f. destruct f; [reflexivity|]. rewrite run_g_unfold.
  unfold all_done in Hd. destruct (s_gs s) as [|G [|G2 l]]; simpl in Hl; try discriminate.
  simpl in Hd. rewrite andb_true_r in Hd. cbn [nth]. unfold next_event. unfold is_done in Hd.
  destruct (g_pc G); try discriminate. reflexivity.
Qed.

Lemma exec_single c ts sched : forall s fuel,
  length (s_gs s) = 1 -> all_done (exec c ts s sched) = true -> mu s <= fuel ->
  run_g fuel c ts s 0 = exec c ts s sched.
Proof.
  induction sched as [|e tl IH]; intros s fuel Hl Hd Hf; simpl in *.
  - apply all_done_run_g; assumption.
  - destruct (step c ts s e) as [s'|] eqn:Hs.
    + pose proof (step_decreases _ _ _ _ _ Hs) as Hmu.
      destruct fuel as [|f]; [lia|]. rewrite run_g_unfold.
      pose proof (step_is_next _ _ _ _ _ Hs) as Hn.
      destruct (step_gs _ _ _ _ _ Hs) as [Hlt _]. rewrite Hl in Hlt.
      assert (He : ev_g e = 0) by lia. rewrite He in Hn. rewrite Hn, Hs.
      apply IH; [rewrite (step_length _ _ _ _ _ Hs); exact Hl|exact Hd|lia].
    + apply IH; assumption.
Qed.

Lemma mu_single ts h : mu (init_state ts [h]) <= g_fuel.
Proof. rewrite mu_init. unfold per_height_bound, g_fuel. simpl. lia. Qed.

(** a task with the single height h: every complete schedule ends in the
    state of the goroutine run alone *)
Lemma single_height_phase_one c h sched :
  heights c = [h] -> all_done (phase_one c sched) = true -> phase_one c sched = recheck c h.
Proof.
  intros Hh Hd. unfold phase_one in *. rewrite Hh in *. unfold recheck. symmetry.
  apply exec_single; [reflexivity|exact Hd|apply mu_single].
Qed.
