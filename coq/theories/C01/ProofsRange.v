(** C01 — proofs, part 4: range traversal (node.go traverseInRange, tree.go
    IterateRange / IterateRangeInclusive).  On an ordered tree the callback
    sees exactly the in-range leaves, each once, ascending or descending, and
    the sub-tree pruning tests never cut off an in-range leaf; a callback that
    asks to stop ends the traversal at once. *)
From Coq Require Import List ZArith NArith Lia Bool.
From C33 Require Import C01.Keys C01.KeysFacts C01.Model C01.Store C01.Spec C01.Inv C01.Proofs.
Import ListNotations.
Open Scope Z_scope.

Section Fold.
  Context {S : Type}.
  Variable fn : S -> bytes -> bytes -> S * bool.

  (** Feeding a list of leaves to the callback until it asks to stop. *)
  Fixpoint fold_stop (l : list (bytes * bytes)) (s : S) : S * bool :=
    match l with
    | [] => (s, false)
    | (k, v) :: tl =>
        let '(s', b) := fn s k v in
        if b then (s', true) else fold_stop tl s'
    end.

  Lemma fold_stop_app : forall a b s,
    fold_stop (a ++ b) s =
    let '(s', st) := fold_stop a s in if st then (s', true) else fold_stop b s'.
  Proof.
    induction a as [|[k v] a IH]; intros b s; simpl.
    - reflexivity.
    - destruct (fn s k v) as [s' st]. destruct st; [reflexivity|apply IH].
  Qed.

  Definition inr (start endk : option bytes) (incl : bool) (kv : bytes * bytes) : bool :=
    in_range start endk incl (fst kv).

  Lemma filter_none : forall (f : bytes * bytes -> bool) l,
    (forall x, In x l -> f x = false) -> filter f l = [].
  Proof.
    intros f l. induction l as [|x l IH]; intros H; simpl; [reflexivity|].
    rewrite (H x) by (simpl; auto). apply IH. intros y Hy. apply H. simpl; auto.
  Qed.

  Lemma in_keys : forall (x : bytes * bytes) t, In x (elements t) -> In (fst x) (keys t).
  Proof. intros x t H. unfold keys. apply in_map. exact H. Qed.

  Theorem traverse_spec : forall t start endk asc incl s,
    ordered t ->
    traverse_in_range (leaf_cb fn) start endk asc incl t s =
    fold_stop (srange (elements t) start endk asc incl) s.
  Proof.
    induction t as [k v|nk h sz l IHl r IHr]; intros start endk asc incl s HO.
    - cbn [traverse_in_range elements]. unfold srange. cbn [filter fst].
      change (in_range start endk incl k)
        with (after_start start (Leaf k v) && before_end endk incl (Leaf k v)).
      destruct (after_start start (Leaf k v) && before_end endk incl (Leaf k v)).
      + destruct asc; cbn [rev app leaf_cb fold_stop]; destruct (fn s k v) as [s' st]; destruct st; reflexivity.
      + destruct asc; reflexivity.
    - destruct HO as [HOl [HOr [Hl [Hr Hk]]]].
      cbn [traverse_in_range elements].
      set (a := after_start start (Node nk h sz l r)).
      set (b := before_end endk incl (Node nk h sz l r)).
      assert (CB : (if a && b then leaf_cb fn s (Node nk h sz l r) else (s, false)) = (s, false))
        by (destruct (a && b); reflexivity).
      rewrite CB.
      (* pruning is exact *)
      assert (PL : a = false -> filter (inr start endk incl) (elements l) = []).
      { intros Ha. apply filter_none. intros x Hx. unfold inr, in_range.
        unfold a, after_start in Ha. cbn [nkey] in Ha.
        destruct start as [st|]; [|discriminate].
        rewrite ble_nlt in Ha. apply negb_false_iff in Ha.
        assert (Hxk : blt (fst x) nk = true) by (apply Hl, in_keys, Hx).
        rewrite ble_nlt. rewrite (blt_trans _ _ _ Hxk Ha). reflexivity. }
      assert (PR : b = false -> filter (inr start endk incl) (elements r) = []).
      { intros Hb. apply filter_none. intros x Hx. unfold inr, in_range.
        unfold b, before_end in Hb. cbn [nkey] in Hb.
        destruct endk as [e|]; [|discriminate].
        assert (Hxk : blt (fst x) nk = false) by (apply Hr, in_keys, Hx).
        apply andb_false_iff. right. destruct incl.
        - rewrite ble_nlt in Hb. apply negb_false_iff in Hb.
          rewrite ble_nlt. apply negb_false_iff.
          apply (blt_le_trans e nk (fst x)); assumption.
        - destruct (blt (fst x) e) eqn:C; [|reflexivity].
          (* x < e and not nk < e, so x < nk: contradiction *)
          assert (blt (fst x) nk = true) by (apply (blt_le_trans (fst x) e nk); assumption).
          congruence. }
      unfold srange. rewrite filter_app. fold (inr start endk incl).
      destruct asc.
      + rewrite fold_stop_app.
        destruct a.
        * rewrite (IHl start endk true incl s HOl). unfold srange. fold (inr start endk incl).
          destruct (fold_stop (filter (inr start endk incl) (elements l)) s) as [s2 st2].
          destruct st2; [reflexivity|].
          destruct b.
          -- rewrite (IHr start endk true incl s2 HOr). reflexivity.
          -- rewrite (PR eq_refl). reflexivity.
        * rewrite (PL eq_refl). cbn [fold_stop].
          destruct b.
          -- rewrite (IHr start endk true incl s HOr). reflexivity.
          -- rewrite (PR eq_refl). reflexivity.
      + rewrite rev_app_distr. rewrite fold_stop_app.
        destruct b.
        * rewrite (IHr start endk false incl s HOr). unfold srange. fold (inr start endk incl).
          destruct (fold_stop (rev (filter (inr start endk incl) (elements r))) s) as [s2 st2].
          destruct st2; [reflexivity|].
          destruct a.
          -- rewrite (IHl start endk false incl s2 HOl). reflexivity.
          -- rewrite (PL eq_refl). reflexivity.
        * rewrite (PR eq_refl). cbn [rev fold_stop].
          destruct a.
          -- rewrite (IHl start endk false incl s HOl). reflexivity.
          -- rewrite (PL eq_refl). reflexivity.
  Qed.
End Fold.

(** The collecting callback. *)
Lemma collect_none : forall l acc n,
  fold_stop (collect_fn None) l (acc, n) = ((acc ++ l, (n + N.of_nat (length l))%N), false).
Proof.
  induction l as [|[k v] l IH]; intros acc n.
  - simpl. rewrite app_nil_r, N.add_0_r. reflexivity.
  - cbn [fold_stop collect_fn]. rewrite IH. rewrite <- app_assoc. simpl app.
    f_equal. f_equal. cbn [length]. lia.
Qed.

Lemma collect_some : forall m l acc n,
  (n < N.max m 1)%N ->
  fold_stop (collect_fn (Some m)) l (acc, n) =
  if (n + N.of_nat (length l) <? N.max m 1)%N
  then ((acc ++ l, (n + N.of_nat (length l))%N), false)
  else ((acc ++ firstn (N.to_nat (N.max m 1 - n)) l, N.max m 1), true).
Proof.
  intros m. induction l as [|[k v] l IH]; intros acc n Hn.
  - cbn [fold_stop length]. rewrite N.add_0_r.
    destruct (N.ltb_spec n (N.max m 1)); [|lia]. rewrite app_nil_r. reflexivity.
  - cbn [fold_stop collect_fn].
    destruct (N.leb_spec m (n + 1)) as [Hs|Hs].
    + (* stops here: n + 1 = max m 1 *)
      assert (E : N.max m 1 = (n + 1)%N) by lia.
      destruct (N.ltb_spec (n + N.of_nat (length ((k, v) :: l))) (N.max m 1)) as [C|C];
        [cbn [length] in C; lia|].
      rewrite E. replace (N.to_nat (n + 1 - n)) with 1%nat by lia. reflexivity.
    + rewrite IH by lia.
      replace (n + 1 + N.of_nat (length l))%N with (n + N.of_nat (length ((k, v) :: l)))%N
        by (cbn [length]; lia).
      destruct (N.ltb_spec (n + N.of_nat (length ((k, v) :: l))) (N.max m 1)) as [C|C].
      * rewrite <- app_assoc. reflexivity.
      * rewrite <- app_assoc. simpl app.
        replace (N.to_nat (N.max m 1 - n)) with (Datatypes.S (N.to_nat (N.max m 1 - (n + 1)))) by lia.
        reflexivity.
Qed.

Theorem collect_range_spec : forall t lim start endk asc incl,
  ordered t ->
  collect_range lim start endk asc incl t = srange_lim lim (elements t) start endk asc incl.
Proof.
  intros t lim start endk asc incl HO. unfold collect_range, iterate_range.
  rewrite (traverse_spec (collect_fn lim) t start endk asc incl ([], 0%N) HO).
  unfold srange_lim. set (L := srange (elements t) start endk asc incl).
  destruct lim as [m|].
  - rewrite collect_some by lia. rewrite N.add_0_l, N.sub_0_r.
    destruct (N.of_nat (length L) <? N.max m 1)%N; reflexivity.
  - rewrite collect_none. reflexivity.
Qed.
