(** C01 — correspondence cases: one case = one history of committed batches
    with everything the Go implementation returned.

    Layout (all lists of per-key / per-query results are aligned with the
    history's [keys] / [queries] / [gbis] tables):
    - a probe of a root = Size, Height, the node structure in pre-order (hook
      dump), per key: Tree.Get (index, value-if-exists), Tree.Has, the store's
      Get value; getByIndex for a few indices; the range iterations.
    - per batch: the writes, the Tree.Set "updated" flags when the batch was
      applied through the tree API, the class of the returned root (smallest
      batch number with the same root hash; 0 = empty root), the number of
      database bindings afterwards (plain configuration only), the probe of the
      new root, and whether every older root still probes exactly as it did
      when it was first committed.
    - after closing and reopening the database: a probe of every root.

    model_agrees: every observable equals the executable model's.
    spec_holds:   the implementation's own outputs satisfy the versioned-map
                  specification (Spec.v): reads at root i are [state i], ranges
                  are exactly the in-range part of [state i] in the requested
                  order, nothing changes afterwards or by reopening. *)
From Coq Require Import List ZArith NArith Bool.
From C33 Require Import Lib.Harness C01.Keys C01.Model C01.Store C01.Spec.
Import ListNotations.
Open Scope Z_scope.

Inductive shape_item :=
| SLeaf (k : bytes)
| SNode (k : bytes) (height size : Z).

Record query := mk_query {
  q_lim : option N; q_start : option bytes; q_end : option bytes; q_asc : bool; q_incl : bool }.

Record probe := mk_probe {
  p_err : bool;                                   (* Load failed *)
  p_size : Z;
  p_height : Z;
  p_shape : list shape_item;
  p_reads : list (Z * option bytes * bool * bytes); (* index, value if exists, Has, store Get value *)
  p_gbi : list (option (bytes * bytes));          (* None = panic *)
  p_ranges : list (list (bytes * bytes) * bool) }.

Record batch_obs := mk_batch {
  b_dels : option (list bytes * list bytes);      (* a DelKVPair batch: keys, returned values (nil = empty) *)
  b_writes : list (bytes * bytes);
  b_updated : option (list bool);
  b_class : N;
  b_dbcount : option N;
  b_probe : probe;
  b_old_same : bool }.

Inductive hist :=
| Hist (deep : bool) (keys : list bytes) (queries : list query) (gbis : list Z)
       (batches : list batch_obs) (reopen_same : bool) (reopened : list (N * probe)).

(** ---- comparison helpers ---- *)
Definition kv_eqb (a b : bytes * bytes) : bool := beq (fst a) (fst b) && beq (snd a) (snd b).
Definition kvs_eqb := list_eqb kv_eqb.
Definition obytes_eqb := option_eqb beq.

Definition shape_eqb (a b : shape_item) : bool :=
  match a, b with
  | SLeaf k, SLeaf k' => beq k k'
  | SNode k h s, SNode k' h' s' => beq k k' && (h =? h') && (s =? s')
  | _, _ => false
  end.

Fixpoint shape_of (t : tree) : list shape_item :=
  match t with
  | Leaf k _ => [SLeaf k]
  | Node k h s l r => SNode k h s :: shape_of l ++ shape_of r
  end.

Definition oshape (o : otree) : list shape_item :=
  match o with None => [] | Some t => shape_of t end.

Definition read_eqb (a b : Z * option bytes * bool * bytes) : bool :=
  match a, b with
  | (i, v, h, sv), (i', v', h', sv') => (i =? i') && obytes_eqb v v' && Bool.eqb h h' && beq sv sv'
  end.

Definition range_eqb (a b : list (bytes * bytes) * bool) : bool :=
  kvs_eqb (fst a) (fst b) && Bool.eqb (snd a) (snd b).

Definition ov (o : option bytes) : bytes := match o with Some v => v | None => [] end.

(** ---- the model's probe of a version ---- *)
Definition model_reads (o : otree) (keys : list bytes) :=
  map (fun k => let '(i, v) := t_get o k in (i, v, t_has o k, ov v)) keys.

Definition model_gbi (o : otree) (gbis : list Z) : list (option (bytes * bytes)) :=
  match o with
  | None => []
  | Some t => map (get_by_index t) gbis
  end.

Definition model_ranges (o : otree) (qs : list query) :=
  map (fun q => t_collect_range (q_lim q) (q_start q) (q_end q) (q_asc q) (q_incl q) o) qs.

Definition probe_agrees (o : otree) (keys : list bytes) (qs : list query) (gbis : list Z) (p : probe) : bool :=
  negb (p_err p) &&
  (p_size p =? t_size o) && (p_height p =? t_height o) &&
  list_eqb shape_eqb (p_shape p) (oshape o) &&
  list_eqb read_eqb (p_reads p) (model_reads o keys) &&
  list_eqb (option_eqb kv_eqb) (p_gbi p) (model_gbi o gbis) &&
  list_eqb range_eqb (p_ranges p) (model_ranges o qs).

(** ---- the spec's view of a probe ---- *)
Definition spec_read_ok (m : smap) (k : bytes) (r : Z * option bytes * bool * bytes) : bool :=
  match r with
  | (_, v, h, sv) =>
      obytes_eqb v (sget m k) && Bool.eqb h (match sget m k with Some _ => true | None => false end)
      && beq sv (ov (sget m k))
  end.

Fixpoint all2 {A B} (f : A -> B -> bool) (a : list A) (b : list B) : bool :=
  match a, b with
  | [], [] => true
  | x :: a', y :: b' => f x y && all2 f a' b'
  | _, _ => false
  end.

Definition spec_range_ok (m : smap) (q : query) (r : list (bytes * bytes) * bool) : bool :=
  range_eqb r (srange_lim (q_lim q) m (q_start q) (q_end q) (q_asc q) (q_incl q)).

Definition probe_spec (m : smap) (keys : list bytes) (qs : list query) (p : probe) : bool :=
  negb (p_err p) &&
  (p_size p =? Z.of_nat (length m)) &&
  all2 (spec_read_ok m) keys (p_reads p) &&
  all2 (spec_range_ok m) qs (p_ranges p).

(** ---- root classes ---- *)
(* class of a root among the earlier ones: 0 for the empty root, otherwise the
   1-based number of the first batch that returned an equal root. *)
Fixpoint first_equal (r : root) (prev : list root) (i : N) : N :=
  match prev with
  | [] => i
  | r' :: tl => if root_eqb r r' then i else first_equal r tl (i + 1)%N
  end.

Definition root_class (r : root) (prev : list root) : N :=
  match r with
  | None => 0%N
  | Some _ => first_equal r prev 1%N
  end.

Definition oupd_eqb (a : option (list bool)) (b : list bool) : bool :=
  match a with None => true | Some l => list_eqb Bool.eqb l b end.

(** Tree.Set flags of one batch. *)
Fixpoint t_set_flags (o : otree) (kvs : list (bytes * bytes)) : option (otree * list bool) :=
  match kvs with
  | [] => Some (o, [])
  | (k, v) :: tl =>
      match t_set o k v with
      | None => None
      | Some (o', u) =>
          match t_set_flags o' tl with
          | None => None
          | Some (o'', us) => Some (o'', u :: us)
          end
      end
  end.

(** ---- the fold over the batches ----
    state: current pure tree, roots so far (oldest first), current spec map,
    the store model (database, root) when [deep], flags. *)
Record st := mk_st {
  s_tree : otree; s_roots : list root; s_trees : list otree; s_map : smap;
  s_db : option (db * root); s_m : bool; s_s : bool }.

(* the spec's DelKVPair: returned values and the new map *)
Fixpoint spec_dels (m : smap) (ks : list bytes) : smap * list bytes :=
  match ks with
  | [] => (m, [])
  | k :: tl => let '(m', vs) := spec_dels (sdel k m) tl in (m', ov (sget m k) :: vs)
  end.

Definition batch_model (o : otree) (b : batch_obs) : option (otree * list bool * bool) :=
  match b_dels b with
  | None => match t_set_flags o (b_writes b) with
            | None => None
            | Some (o', us) => Some (o', us, true)
            end
  | Some (ks, vals) =>
      match t_remove_all o ks with
      | None => None
      | Some (o', vs) => Some (o', [], list_eqb beq vals (map ov vs))
      end
  end.

Definition batch_spec (m : smap) (b : batch_obs) : smap * bool :=
  match b_dels b with
  | None => (apply_writes m (b_writes b), true)
  | Some (ks, vals) => let '(m', vs) := spec_dels m ks in (m', list_eqb beq vals vs)
  end.

Definition batch_store (d : db) (r : root) (b : batch_obs) : option (db * root) :=
  match b_dels b with
  | None => set_kv_pair d r (b_writes b)
  | Some (ks, _) => match del_kv_pair d r ks with
                    | Some (dr, _) => Some dr
                    | None => None
                    end
  end.

Definition step (deep : bool) (keys : list bytes) (qs : list query) (gbis : list Z)
  (s : st) (b : batch_obs) : st :=
  match batch_model (s_tree s) b with
  | None => mk_st (s_tree s) (s_roots s) (s_trees s) (s_map s) (s_db s) false (s_s s)
  | Some (o', us, dv_ok) =>
      let r' := tree_root o' in
      let '(m', dv_spec) := batch_spec (s_map s) b in
      let cls := root_class r' (s_roots s) in
      let dbst :=
        if deep then
          match s_db s with
          | None => None
          | Some (d, r) => batch_store d r b
          end
        else s_db s in
      let deep_ok :=
        if deep then
          match dbst with
          | None => false
          | Some (d', rr) =>
              root_eqb rr r' &&
              match b_dbcount b with None => true | Some n => (n =? N.of_nat (length d'))%N end
          end
        else true in
      let ma := oupd_eqb (b_updated b) us && (b_class b =? cls)%N && deep_ok && dv_ok
                && probe_agrees o' keys qs gbis (b_probe b) && b_old_same b in
      let sp := probe_spec m' keys qs (b_probe b) && b_old_same b && dv_spec in
      mk_st o' (s_roots s ++ [r']) (s_trees s ++ [o']) m' dbst (s_m s && ma) (s_s s && sp)
  end.

Fixpoint states (m : smap) (bs : list batch_obs) : list smap :=
  match bs with
  | [] => []
  | b :: tl => let m' := fst (batch_spec m b) in m' :: states m' tl
  end.

Definition tree_eqb_via_shape (a b : otree) : bool :=
  list_eqb shape_eqb (oshape a) (oshape b) &&
  kvs_eqb (match a with None => [] | Some t => elements t end)
          (match b with None => [] | Some t => elements t end).

(** deep: every version is loadable from the final database of the store model
    and equals the pure tree; point reads through the store model agree. *)
Definition deep_final (s : st) (keys : list bytes) : bool :=
  match s_db s with
  | None => false
  | Some (d, _) =>
      all2 (fun r o =>
              match load_tree d r with
              | None => false
              | Some o' => tree_eqb_via_shape o o' &&
                           list_eqb (option_eqb obytes_eqb)
                             (map (get_at d r) keys) (map (fun k => Some (snd (t_get o k))) keys)
              end) (s_roots s) (s_trees s)
  end.

Definition check_hist (c : hist) : verdict :=
  match c with
  | Hist deep keys qs gbis batches resame reopened =>
      let s0 := mk_st None [] [] [] (Some ([], None)) true true in
      let s := fold_left (step deep keys qs gbis) batches s0 in
      let sts := states [] batches in
      (* reopened probes: (1-based batch number, probe) *)
      let re_m := forallb (fun ip =>
                    match nth_error (s_trees s) (N.to_nat (fst ip) - 1) with
                    | Some o => probe_agrees o keys qs gbis (snd ip)
                    | None => false
                    end) reopened in
      let re_s := forallb (fun ip =>
                    match nth_error sts (N.to_nat (fst ip) - 1) with
                    | Some m => probe_spec m keys qs (snd ip)
                    | None => false
                    end) reopened in
      let dp := if deep then deep_final s keys else true in
      mk_verdict (s_m s && re_m && resame && dp) (s_s s && re_s && resame)
  end.

(** ---- the wire format ----
    Byte strings are sent once in a table [tab]; everything else refers to
    them by index (elaborating thousands of string literals is what makes large
    case files slow).  [check_case] resolves the indices and runs [check_hist]. *)
Inductive ikv := KV (k v : N).
Inductive ishape := SL (k : N) | SN (k : N) (height size : Z).
Inductive iread := RD (idx : Z) (v : option N) (has : bool) (sv : N).
Inductive irange := RG (kvs : list ikv) (stopped : bool).
Inductive iquery := QR (lim : option N) (start endk : option N) (asc incl : bool).
Inductive iprobe := PR (err : bool) (size height : Z) (shape : list ishape) (reads : list iread)
                       (gbi : list (option ikv)) (ranges : list irange).
Inductive ibatch :=
| BT (writes : list ikv) (updated : option (list bool)) (cls : N)
     (dbcount : option N) (p : iprobe) (old_same : bool)
| BD (dels : list ikv) (cls : N) (dbcount : option N) (p : iprobe) (old_same : bool).
     (* DelKVPair batch: (key, returned value) pairs *)
Inductive ireopen := RO (batch_no : N) (p : iprobe).
Inductive case :=
| CHist (deep : bool) (tab : list bytes) (keys : list N) (queries : list iquery) (gbis : list Z)
        (batches : list ibatch) (reopen_same : bool) (reopened : list ireopen).

From Coq Require Import FMapPositive.

Fixpoint build_tab (l : list bytes) (i : N) (m : PositiveMap.t bytes) : PositiveMap.t bytes :=
  match l with
  | [] => m
  | b :: tl => build_tab tl (i + 1)%N (PositiveMap.add (N.succ_pos i) b m)
  end.

Section Resolve.
  Variable m : PositiveMap.t bytes.
  (* an index outside the table resolves to a string that is no byte string *)
  Definition rs (i : N) : bytes :=
    match PositiveMap.find (N.succ_pos i) m with Some b => b | None => [1000%N] end.
  Definition rs_kv (x : ikv) : bytes * bytes := match x with KV k v => (rs k, rs v) end.
  Definition rs_shape (x : ishape) : shape_item :=
    match x with SL k => SLeaf (rs k) | SN k h s => SNode (rs k) h s end.
  Definition rs_read (x : iread) : Z * option bytes * bool * bytes :=
    match x with RD i v h sv => (i, option_map rs v, h, rs sv) end.
  Definition rs_range (x : irange) : list (bytes * bytes) * bool :=
    match x with RG kvs st => (map rs_kv kvs, st) end.
  Definition rs_query (x : iquery) : query :=
    match x with QR lim a b asc incl => mk_query lim (option_map rs a) (option_map rs b) asc incl end.
  Definition rs_probe (x : iprobe) : probe :=
    match x with
    | PR e sz ht sh rd gb rg =>
        mk_probe e sz ht (map rs_shape sh) (map rs_read rd) (map (option_map rs_kv) gb) (map rs_range rg)
    end.
  Definition rs_batch (x : ibatch) : batch_obs :=
    match x with
    | BT ws up c n p same => mk_batch None (map rs_kv ws) up c n (rs_probe p) same
    | BD ds c n p same =>
        mk_batch (Some (map (fun x => fst (rs_kv x)) ds, map (fun x => snd (rs_kv x)) ds)) [] None c n
                 (rs_probe p) same
    end.
  Definition rs_reopen (x : ireopen) : N * probe := match x with RO n p => (n, rs_probe p) end.
End Resolve.

Definition resolve (c : case) : hist :=
  match c with
  | CHist deep tab keys qs gbis bs resame ro =>
      let m := build_tab tab 0%N (PositiveMap.empty bytes) in
      Hist deep (map (rs m) keys) (map (rs_query m) qs) gbis (map (rs_batch m) bs) resame
           (map (rs_reopen m) ro)
  end.

Definition check_case (c : case) : verdict := check_hist (resolve c).
