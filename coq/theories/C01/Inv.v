(** C01 — the invariants of the state tree and of the node database
    (definitions only; used by the proofs of C01 and by C02–C05). *)
From Coq Require Import List ZArith NArith Bool.
From C33 Require Import C01.Keys C01.Model C01.Store.
Import ListNotations.
Open Scope Z_scope.

Definition keys (t : tree) : list bytes := map fst (elements t).

Fixpoint leftmost (t : tree) : bytes :=
  match t with
  | Leaf k _ => k
  | Node _ _ _ l _ => leftmost l
  end.

(** Search-tree order: left keys < node key <= right keys, and the node key is
    the smallest key of the right sub-tree. *)
Fixpoint ordered (t : tree) : Prop :=
  match t with
  | Leaf _ _ => True
  | Node k _ _ l r =>
      ordered l /\ ordered r /\
      (forall x, In x (keys l) -> blt x k = true) /\
      (forall x, In x (keys r) -> blt x k = false) /\
      k = leftmost r
  end.

(** Only the "node key = smallest key on the right" part (what makes the
    stored record a function of the hash, which does not cover the key). *)
Fixpoint keyed (t : tree) : Prop :=
  match t with
  | Leaf _ _ => True
  | Node k _ _ l r => keyed l /\ keyed r /\ k = leftmost r
  end.

(** Stored height and size are the real ones. *)
Fixpoint sized (t : tree) : Prop :=
  match t with
  | Leaf _ _ => True
  | Node _ h s l r =>
      sized l /\ sized r /\ h = Z.max (height l) (height r) + 1 /\ s = size l + size r
  end.

(** AVL balance. *)
Fixpoint balanced (t : tree) : Prop :=
  match t with
  | Leaf _ _ => True
  | Node _ _ _ l r => balanced l /\ balanced r /\ -1 <= height l - height r <= 1
  end.

Definition o_elements (o : otree) : list (bytes * bytes) :=
  match o with None => [] | Some t => elements t end.

Definition o_good (o : otree) : Prop :=
  match o with None => True | Some t => ordered t /\ sized t end.

(** [stored d t]: every node of [t] is bound in [d] to its record. *)
Fixpoint stored (d : db) (t : tree) : Prop :=
  match t with
  | Leaf _ _ => db_get d (thash t) = Some (rec_of t)
  | Node _ _ _ l r => db_get d (thash t) = Some (rec_of t) /\ stored d l /\ stored d r
  end.

Definition o_stored (d : db) (o : otree) : Prop :=
  match o with None => True | Some t => stored d t end.

(** A well-formed database: every binding is a node of some keyed tree that is
    stored completely (children before parents, nothing dangling). *)
Definition db_wf (d : db) : Prop :=
  forall h r, db_get d h = Some r -> exists t, keyed t /\ thash t = h /\ stored d t.

(** [d'] extends [d]: every binding is kept with its content. *)
Definition db_extends (d d' : db) : Prop :=
  forall h r, db_get d h = Some r -> db_get d' h = Some r.
