(** C01 — proofs, part 8: the versioned-map theorem for histories that mix
    write batches and DelKVPair batches. *)
From Coq Require Import List ZArith NArith Lia Bool Sorted.
From C33 Require Import C01.Keys C01.KeysFacts C01.Model C01.Store C01.Spec C01.Inv
  C01.Proofs C01.ProofsStore C01.ProofsRange C01.ProofsRemove C01.ProofsTop.
Import ListNotations.
Open Scope Z_scope.

Lemma t_remove_all_inv : forall ks o,
  o_good o -> exists o' vs, t_remove_all o ks = Some (o', vs) /\ o_good o' /\
                            o_elements o' = apply_dels (o_elements o) ks.
Proof.
  unfold apply_dels. induction ks as [|k ks IH]; intros o G.
  - exists o, []. simpl. auto.
  - destruct (t_remove_inv o k G) as [o1 [v [b [E [G1 [HE1 _]]]]]].
    destruct (IH o1 G1) as [o2 [vs [E2 [G2 HE2]]]].
    exists o2, (v :: vs). cbn [t_remove_all]. rewrite E, E2. split; [reflexivity|].
    split; [exact G2|]. simpl. rewrite HE2, HE1. reflexivity.
Qed.

Lemma commit_inv : forall d o',
  db_wf d -> o_good o' ->
  exists d', save_tree d o' = (d', tree_root o') /\ db_wf d' /\ db_extends d d' /\ o_stored d' o'.
Proof.
  intros d [t'|] WF G; simpl.
  - destruct G as [HO HS].
    destruct (save_spec t' d WF (ordered_keyed _ HO)) as [WF' [ST' X]].
    exists (save d t'). auto.
  - exists d. split; [reflexivity|]. split; [exact WF|]. split; [apply db_extends_refl|exact I].
Qed.

Lemma apply_op_inv : forall d o p,
  db_wf d -> o_good o -> o_stored d o ->
  exists d' o', apply_op d (tree_root o) p = Some (d', tree_root o') /\
                db_wf d' /\ db_extends d d' /\ o_good o' /\ o_stored d' o' /\
                o_elements o' = spec_op (o_elements o) p.
Proof.
  intros d o [kvs|ks] WF G ST.
  - exact (set_kv_pair_inv d o kvs WF G ST).
  - cbn [apply_op spec_op]. unfold del_kv_pair. rewrite (load_tree_stored d o ST G).
    destruct (t_remove_all_inv ks o G) as [o' [vs [E [G' HE]]]]. rewrite E.
    destruct (commit_inv d o' WF G') as [d' [ES [WF' [X ST']]]]. rewrite ES.
    exists d', o'. auto 10.
Qed.

Lemma run_ops_inv : forall ops d o,
  db_wf d -> o_good o -> o_stored d o ->
  exists d' o', run_ops d (tree_root o) ops = Some (d', tree_root o') /\
                db_wf d' /\ db_extends d d' /\ o_good o' /\ o_stored d' o' /\
                o_elements o' = fold_left spec_op ops (o_elements o).
Proof.
  induction ops as [|p ops IH]; intros d o WF G ST.
  - exists d, o. simpl. split; [reflexivity|]. split; [exact WF|]. split; [apply db_extends_refl|]. auto.
  - destruct (apply_op_inv d o p WF G ST) as [d1 [o1 [E [WF1 [X1 [G1 [ST1 HE1]]]]]]].
    destruct (IH d1 o1 WF1 G1 ST1) as [d2 [o2 [E2 [WF2 [X2 [G2 [ST2 HE2]]]]]]].
    exists d2, o2. cbn [run_ops]. rewrite E. split; [exact E2|]. split; [exact WF2|].
    split; [eapply db_extends_trans; eauto|]. split; [exact G2|]. split; [exact ST2|].
    simpl. rewrite HE2, HE1. reflexivity.
Qed.

Lemma run_ops_app : forall a b d r,
  run_ops d r (a ++ b) = match run_ops d r a with
                         | Some (d', r') => run_ops d' r' b
                         | None => None
                         end.
Proof.
  induction a as [|x a IH]; intros b d r; simpl; [reflexivity|].
  destruct (apply_op d r x) as [[d' r']|]; [apply IH|reflexivity].
Qed.

Theorem versioned_map_ops : forall ops i j, (i <= j)%nat ->
  exists di ri dj rj,
    history_ops (firstn i ops) = Some (di, ri) /\
    history_ops (firstn j ops) = Some (dj, rj) /\
    (forall k, get_at dj ri k = Some (sget (state_ops (firstn i ops)) k)) /\
    (forall lim start endk asc incl,
        range_at dj ri lim start endk asc incl =
        Some (srange_lim lim (state_ops (firstn i ops)) start endk asc incl)).
Proof.
  intros ops i j Hij. unfold history_ops.
  destruct (run_ops_inv (firstn i ops) [] None db_wf_empty I I)
    as [di [oi [Ei [WFi [_ [Gi [STi HEi]]]]]]].
  assert (SPLIT : firstn j ops = firstn i ops ++ skipn i (firstn j ops)).
  { rewrite <- (firstn_skipn i (firstn j ops)) at 1. rewrite firstn_firstn.
    rewrite Nat.min_l by exact Hij. reflexivity. }
  destruct (run_ops_inv (skipn i (firstn j ops)) di oi WFi Gi STi)
    as [dj [oj [Ej [WFj [Xj [Gj [STj HEj]]]]]]].
  assert (STi' : o_stored dj oi) by (eapply o_stored_ext; eauto).
  simpl tree_root in Ei. simpl o_elements in HEi. fold (state_ops (firstn i ops)) in HEi.
  exists di, (tree_root oi), dj, (tree_root oj). split; [exact Ei|]. split.
  { rewrite SPLIT, run_ops_app. simpl tree_root. rewrite Ei. exact Ej. }
  split.
  - intros k. unfold get_at. rewrite (load_tree_stored dj oi STi' Gi).
    rewrite (t_get_elements oi k Gi), HEi. reflexivity.
  - intros lim start endk asc incl. unfold range_at. rewrite (load_tree_stored dj oi STi' Gi).
    f_equal. rewrite <- HEi. destruct oi as [t|]; simpl.
    + destruct Gi as [HO _]. apply collect_range_spec. exact HO.
    + unfold srange_lim, srange. destruct asc; simpl;
        (destruct lim as [n|]; [|reflexivity]);
        (destruct (N.ltb_spec 0 (N.max n 1)); [reflexivity|lia]).
Qed.

(** The state stays strictly sorted under deletions too. *)
Lemma in_sdel_pair : forall k m x, In x (sdel k m) -> In x m.
Proof.
  intros k m x. induction m as [|[k' v'] m IH]; simpl; [auto|].
  destruct (beq k k'); simpl; intuition.
Qed.

Lemma sdel_sorted : forall k m, ksorted m -> ksorted (sdel k m).
Proof.
  intros k m. induction m as [|[k' v'] m IH]; intros HS; simpl; [exact HS|].
  inversion HS as [|x l HS' HF]; subst.
  destruct (beq k k'); [exact HS'|].
  constructor; [apply IH; exact HS'|].
  apply Forall_forall. intros x Hx. rewrite Forall_forall in HF. apply HF.
  eapply in_sdel_pair; eauto.
Qed.

Theorem state_ops_sorted : forall ops, ksorted (state_ops ops).
Proof.
  intros ops. unfold state_ops.
  assert (G : forall ops m, ksorted m -> ksorted (fold_left spec_op ops m)).
  { induction ops0 as [|p ops0 IH]; intros m HS; simpl; [exact HS|].
    apply IH. destruct p as [kvs|ks]; simpl.
    - apply apply_writes_sorted. exact HS.
    - unfold apply_dels. revert m HS. induction ks as [|k ks IHk]; intros m HS; simpl; [exact HS|].
      apply IHk. apply sdel_sorted. exact HS. }
  apply G. constructor.
Qed.
