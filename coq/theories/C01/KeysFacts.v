(** C01 — order facts about [bcmp]. *)
From Coq Require Import List NArith Lia Bool.
From C33 Require Import C01.Keys.
Import ListNotations.

Lemma bcmp_refl : forall a, bcmp a a = Eq.
Proof. induction a as [|x a IH]; simpl; [reflexivity|]. rewrite N.compare_refl. exact IH. Qed.

Lemma bcmp_eq : forall a b, bcmp a b = Eq -> a = b.
Proof.
  induction a as [|x a IH]; intros [|y b] H; simpl in H; try discriminate; [reflexivity|].
  destruct (N.compare x y) eqn:E; try discriminate.
  apply N.compare_eq in E. subst. f_equal. apply IH. exact H.
Qed.

Lemma bcmp_eq_iff : forall a b, bcmp a b = Eq <-> a = b.
Proof. intros a b; split; [apply bcmp_eq|intros ->; apply bcmp_refl]. Qed.

Lemma bcmp_antisym : forall a b, bcmp b a = CompOpp (bcmp a b).
Proof.
  induction a as [|x a IH]; intros [|y b]; simpl; try reflexivity.
  rewrite (N.compare_antisym x y). destruct (N.compare x y); simpl; auto.
Qed.

Lemma bcmp_lt_gt : forall a b, bcmp a b = Lt <-> bcmp b a = Gt.
Proof. intros a b. rewrite (bcmp_antisym a b). destruct (bcmp a b); simpl; split; congruence. Qed.

Lemma bcmp_lt_trans : forall a b c, bcmp a b = Lt -> bcmp b c = Lt -> bcmp a c = Lt.
Proof.
  induction a as [|x a IH]; intros [|y b] [|z c] H1 H2; simpl in *; try discriminate; try reflexivity.
  destruct (N.compare x y) eqn:E1; try discriminate;
  destruct (N.compare y z) eqn:E2; try discriminate.
  - apply N.compare_eq in E1, E2. subst. rewrite N.compare_refl. eapply IH; eauto.
  - apply N.compare_eq in E1. subst. rewrite E2. reflexivity.
  - apply N.compare_eq in E2. subst. rewrite E1. reflexivity.
  - rewrite N.compare_lt_iff in E1, E2.
    assert (E3 : (x ?= z)%N = Lt) by (apply N.compare_lt_iff; lia). rewrite E3. reflexivity.
Qed.

Lemma blt_iff : forall a b, blt a b = true <-> bcmp a b = Lt.
Proof. intros a b; unfold blt; destruct (bcmp a b); split; congruence. Qed.

Lemma blt_false_iff : forall a b, blt a b = false <-> bcmp a b <> Lt.
Proof. intros a b; unfold blt; destruct (bcmp a b); split; congruence. Qed.

Lemma blt_irrefl : forall a, blt a a = false.
Proof. intros a. unfold blt. rewrite bcmp_refl. reflexivity. Qed.

Lemma blt_trans : forall a b c, blt a b = true -> blt b c = true -> blt a c = true.
Proof. intros a b c. rewrite !blt_iff. apply bcmp_lt_trans. Qed.

Lemma blt_asym : forall a b, blt a b = true -> blt b a = false.
Proof.
  intros a b H. apply blt_iff in H. apply blt_false_iff.
  rewrite (bcmp_antisym a b), H. discriminate.
Qed.

(** [ble a b] is [negb (blt b a)]. *)
Lemma ble_nlt : forall a b, ble a b = negb (blt b a).
Proof.
  intros a b. unfold ble, blt. rewrite (bcmp_antisym a b). destruct (bcmp a b); reflexivity.
Qed.

Lemma blt_total : forall a b, blt a b = false -> blt b a = false -> a = b.
Proof.
  intros a b H1 H2. apply bcmp_eq.
  apply blt_false_iff in H1. apply blt_false_iff in H2.
  rewrite (bcmp_antisym a b) in H2. destruct (bcmp a b); simpl in *; congruence.
Qed.

Lemma blt_le_trans : forall a b c, blt a b = true -> blt c b = false -> blt a c = true.
Proof.
  intros a b c H1 H2. destruct (blt a c) eqn:E; [reflexivity|].
  destruct (blt c a) eqn:E2.
  - rewrite (blt_trans c a b E2 H1) in H2. discriminate.
  - assert (a = c) by (apply blt_total; assumption). subst. congruence.
Qed.

Lemma le_blt_trans : forall a b c, blt b a = false -> blt b c = true -> blt a c = true.
Proof.
  intros a b c H1 H2. destruct (blt a c) eqn:E; [reflexivity|].
  destruct (blt c a) eqn:E2.
  - rewrite (blt_trans b c a H2 E2) in H1. discriminate.
  - assert (a = c) by (apply blt_total; assumption). subst. congruence.
Qed.

Lemma beq_iff : forall a b, beq a b = true <-> a = b.
Proof.
  intros a b. unfold beq. split.
  - destruct (bcmp a b) eqn:E; try discriminate. intros _. apply bcmp_eq. exact E.
  - intros ->. rewrite bcmp_refl. reflexivity.
Qed.

Lemma beq_refl : forall a, beq a a = true.
Proof. intros a. apply beq_iff. reflexivity. Qed.

Lemma bytes_eq_dec : forall a b : bytes, {a = b} + {a <> b}.
Proof. apply list_eq_dec. apply N.eq_dec. Qed.
