(** C01 — proofs, part 6: the other read functions against the in-order
    leaves: [has], the index returned by [get], [getByIndex]. *)
From Coq Require Import List ZArith NArith Lia Bool.
From C33 Require Import C01.Keys C01.KeysFacts C01.Model C01.Store C01.Spec C01.Inv C01.Proofs.
Import ListNotations.
Open Scope Z_scope.

Theorem has_spec : forall t k, ordered t -> (has t k = true <-> In k (keys t)).
Proof.
  induction t as [lk lv|nk h s l IHl r IHr]; intros k HO.
  - cbn [has nkey]. unfold keys. simpl. destruct (beq lk k) eqn:E.
    + apply beq_iff in E. intuition.
    + split; [discriminate|]. intros [H|[]]. subst. rewrite beq_refl in E. discriminate.
  - destruct HO as [HOl [HOr [Hl [Hr Hk]]]]. cbn [has nkey]. rewrite keys_node.
    destruct (beq nk k) eqn:E.
    + apply beq_iff in E. subst k. split; [|reflexivity]. intros _.
      apply in_or_app. right. rewrite Hk. apply leftmost_in.
    + destruct (blt k nk) eqn:B.
      * rewrite (IHl k HOl). split; [intro; apply in_or_app; auto|].
        intros H. apply in_app_or in H. destruct H as [H|H]; [exact H|].
        rewrite (Hr k H) in B. discriminate.
      * rewrite (IHr k HOr). split; [intro; apply in_or_app; auto|].
        intros H. apply in_app_or in H. destruct H as [H|H]; [|exact H].
        rewrite (Hl k H) in B. discriminate.
Qed.

Lemma size_elements : forall t, sized t -> size t = Z.of_nat (length (elements t)).
Proof.
  induction t as [|k h s l IHl r IHr]; simpl; [reflexivity|].
  intros [Hl [Hr [_ Hs]]]. rewrite app_length, Nat2Z.inj_add, <- IHl, <- IHr; auto.
Qed.

(** The index returned by [get] is the number of keys below the wanted one. *)
Definition rank (k : bytes) (l : list bytes) : nat := length (filter (fun x => blt x k) l).

Lemma rank_app : forall k a b, rank k (a ++ b) = (rank k a + rank k b)%nat.
Proof. intros. unfold rank. rewrite filter_app, app_length. reflexivity. Qed.

Lemma rank_all : forall k l, (forall x, In x l -> blt x k = true) -> rank k l = length l.
Proof.
  intros k l. unfold rank. induction l as [|x l IH]; intros H; simpl; [reflexivity|].
  rewrite (H x) by (simpl; auto). simpl. f_equal. apply IH. intros y Hy. apply H. simpl; auto.
Qed.

Lemma rank_none : forall k l, (forall x, In x l -> blt x k = false) -> rank k l = 0%nat.
Proof.
  intros k l. unfold rank. induction l as [|x l IH]; intros H; simpl; [reflexivity|].
  rewrite (H x) by (simpl; auto). apply IH. intros y Hy. apply H. simpl; auto.
Qed.

Theorem get_index : forall t k, ordered t -> sized t -> fst (get t k) = Z.of_nat (rank k (keys t)).
Proof.
  induction t as [lk lv|nk h s l IHl r IHr]; intros k HO HS.
  - cbn [get]. unfold keys, rank. simpl. unfold blt. destruct (bcmp lk k); reflexivity.
  - destruct HO as [HOl [HOr [Hl [Hr Hk]]]]. pose proof HS as [HSl [HSr [Hh Hs]]].
    cbn [get]. rewrite keys_node, rank_app.
    destruct (blt k nk) eqn:B.
    + rewrite (IHl k HOl HSl). rewrite (rank_none k (keys r)); [lia|].
      intros x Hx. destruct (blt x k) eqn:C; [|reflexivity].
      pose proof (blt_trans x k nk C B) as C2. rewrite (Hr x Hx) in C2. discriminate.
    + destruct (get r k) as [i v] eqn:G. cbn [fst].
      assert (Hi : i = Z.of_nat (rank k (keys r))) by (rewrite <- (IHr k HOr HSr), G; reflexivity).
      rewrite (rank_all k (keys l)).
      * unfold keys at 1. rewrite map_length. rewrite (size_elements l HSl) in Hs. lia.
      * intros x Hx. apply (blt_le_trans x nk k); [apply Hl; exact Hx|exact B].
Qed.

Theorem get_by_index_spec : forall t i, sized t ->
  get_by_index t i =
  if (0 <=? i) && (i <? size t) then nth_error (elements t) (Z.to_nat i) else None.
Proof.
  induction t as [k v|k h s l IHl r IHr]; intros i HS.
  - cbn [get_by_index size elements].
    destruct (Z.eqb_spec i 0) as [E|E].
    + subst. reflexivity.
    + destruct (Z.leb_spec 0 i); destruct (Z.ltb_spec i 1); simpl; try reflexivity. lia.
  - pose proof HS as [HSl [HSr [Hh Hs]]].
    pose proof (sized_size_pos l HSl). pose proof (sized_size_pos r HSr).
    pose proof (size_elements l HSl) as Ll.
    cbn [get_by_index size elements].
    destruct (Z.ltb_spec i (size l)) as [C|C].
    + rewrite (IHl i HSl).
      destruct (Z.leb_spec 0 i) as [P|P]; simpl.
      * destruct (Z.ltb_spec i (size l)); [|lia]. destruct (Z.ltb_spec i s); [|lia].
        rewrite nth_error_app1 by lia. reflexivity.
      * reflexivity.
    + rewrite (IHr (i - size l) HSr).
      destruct (Z.leb_spec 0 i); [|lia]. destruct (Z.leb_spec 0 (i - size l)); [|lia]. simpl.
      destruct (Z.ltb_spec (i - size l) (size r)); destruct (Z.ltb_spec i s); try lia; [|reflexivity].
      rewrite nth_error_app2 by lia. f_equal. lia.
Qed.
