(** C01 — byte-string keys: [list N] compared like Go's [bytes.Compare]
    (lexicographic, a proper prefix is smaller).  Definitions only; the order
    facts are in [KeysFacts.v]. *)
From Coq Require Import List NArith.
Import ListNotations.

Definition bytes := list N.

Fixpoint bcmp (a b : bytes) : comparison :=
  match a, b with
  | [], [] => Eq
  | [], _ :: _ => Lt
  | _ :: _, [] => Gt
  | x :: a', y :: b' =>
      match N.compare x y with
      | Eq => bcmp a' b'
      | Lt => Lt
      | Gt => Gt
      end
  end.

Definition blt (a b : bytes) : bool := match bcmp a b with Lt => true | _ => false end.
Definition ble (a b : bytes) : bool := match bcmp a b with Gt => false | _ => true end.
Definition beq (a b : bytes) : bool := match bcmp a b with Eq => true | _ => false end.
