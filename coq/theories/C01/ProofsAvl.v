(** C01 — proofs, part 3: the AVL balance invariant is preserved by [set]
    (for this code: an update of an existing key skips the recomputation and
    the re-balancing, which is sound because the shape is unchanged). *)
From Coq Require Import List ZArith NArith Lia Bool.
From C33 Require Import C01.Keys C01.KeysFacts C01.Model C01.Store C01.Spec C01.Inv C01.Proofs.
Import ListNotations.
Open Scope Z_scope.

Ltac nonneg :=
  repeat match goal with
  | H : sized ?t |- _ =>
      lazymatch goal with
      | _ : 0 <= height t |- _ => fail
      | _ => pose proof (sized_height_nonneg t H)
      end
  end.

Lemma balance_avl : forall k h s l r t',
  sized l -> sized r -> balanced l -> balanced r ->
  -2 <= height l - height r <= 2 ->
  balance (calc_hs (Node k h s l r)) = Some t' ->
  balanced t' /\
  Z.max (height l) (height r) <= height t' <= Z.max (height l) (height r) + 1 /\
  (-1 <= height l - height r <= 1 -> height t' = Z.max (height l) (height r) + 1).
Proof.
  intros k h s l r t' HSl HSr HBl HBr HD HB.
  cbn [calc_hs balance] in HB.
  destruct (height l - height r >? 1) eqn:B1.
  - apply Z.gtb_lt in B1.
    destruct l as [lk0 lv0|lk lh ls ll lr]; [nonneg; simpl in *; lia|].
    cbn [calc_balance] in HB.
    destruct HSl as [HSll [HSlr [Hlh Hls]]]. destruct HBl as [HBll [HBlr HDl]].
    destruct (height ll - height lr >=? 0) eqn:B2.
    + apply Z.geb_le in B2. cbn [rotate_right calc_hs] in HB. inversion HB; subst t'; clear HB.
      nonneg. cbn [balanced height] in *. repeat split; auto; lia.
    + assert (B2' : height ll - height lr < 0)
        by (destruct (Z.geb_spec (height ll - height lr) 0); [discriminate|lia]).
      destruct lr as [lrk0 lrv0|lrk lrh lrs lrl lrr]; [nonneg; simpl in *; lia|].
      destruct HSlr as [HSlrl [HSlrr [Hlrh Hlrs]]]. destruct HBlr as [HBlrl [HBlrr HDlr]].
      cbn [rotate_left rotate_right calc_hs] in HB. inversion HB; subst t'; clear HB.
      nonneg. cbn [balanced height] in *. repeat split; auto; lia.
  - destruct (height l - height r <? -1) eqn:B3.
    + apply Z.ltb_lt in B3.
      destruct r as [rk0 rv0|rk rh rs rl rr]; [nonneg; simpl in *; lia|].
      cbn [calc_balance] in HB.
      destruct HSr as [HSrl [HSrr [Hrh Hrs]]]. destruct HBr as [HBrl [HBrr HDr]].
      destruct (height rl - height rr <=? 0) eqn:B4.
      * apply Z.leb_le in B4. cbn [rotate_left calc_hs] in HB. inversion HB; subst t'; clear HB.
        nonneg. cbn [balanced height] in *. repeat split; auto; lia.
      * assert (B4' : height rl - height rr > 0)
          by (destruct (Z.leb_spec (height rl - height rr) 0); [discriminate|lia]).
        destruct rl as [rlk0 rlv0|rlk rlh rls rll rlr]; [nonneg; simpl in *; lia|].
        destruct HSrl as [HSrll [HSrlr [Hrlh Hrls]]]. destruct HBrl as [HBrll [HBrlr HDrl]].
        cbn [rotate_left rotate_right calc_hs] in HB. inversion HB; subst t'; clear HB.
        nonneg. cbn [balanced height] in *. repeat split; auto; lia.
    + inversion HB; subst t'; clear HB.
      assert (~ (1 < height l - height r)) by (destruct (Z.gtb_spec (height l - height r) 1); [discriminate|lia]).
      assert (~ (height l - height r < -1)) by (destruct (Z.ltb_spec (height l - height r) (-1)); [discriminate|lia]).
      cbn [balanced height]. repeat split; auto; lia.
Qed.

Theorem set_balanced : forall t k v t' u,
  ordered t -> sized t -> balanced t -> set t k v = Some (t', u) ->
  balanced t' /\ height t <= height t' <= height t + 1 /\ (u = true -> height t' = height t).
Proof.
  induction t as [lk lv|nk h s l IHl r IHr]; intros k v t' u HO HS HB E.
  - cbn [set] in E. destruct (bcmp k lk); inversion E; subst; simpl; repeat split; auto; try lia;
      discriminate.
  - pose proof HO as [HOl [HOr _]]. pose proof HS as [HSl [HSr [Hh Hs]]].
    pose proof HB as [HBl [HBr HD]].
    cbn [set] in E. destruct (blt k nk).
    + destruct (set_inv l k v HOl HSl) as [l' [u' [E1 [_ [HSl' [_ Hu]]]]]].
      rewrite E1 in E. destruct (IHl k v l' u' HOl HSl HBl E1) as [HBl' [Hb Hu']].
      destruct u'.
      * inversion E; subst t' u; clear E. specialize (Hu' eq_refl).
        cbn [balanced height]. repeat split; auto; lia.
      * destruct (balance (calc_hs (Node nk h s l' r))) as [t2|] eqn:E2; [|discriminate].
        inversion E; subst t2 u; clear E.
        destruct (balance_avl nk h s l' r t' HSl' HSr HBl' HBr) as [HB' [Hb' Hex]]; [lia|exact E2|].
        split; [exact HB'|]. cbn [height]. split; [|discriminate].
        destruct (Z_le_gt_dec (height l' - height r) 1); [rewrite Hex by lia; lia|lia].
    + destruct (set_inv r k v HOr HSr) as [r' [u' [E1 [_ [HSr' [_ Hu]]]]]].
      rewrite E1 in E. destruct (IHr k v r' u' HOr HSr HBr E1) as [HBr' [Hb Hu']].
      destruct u'.
      * inversion E; subst t' u; clear E. specialize (Hu' eq_refl).
        cbn [balanced height]. repeat split; auto; lia.
      * destruct (balance (calc_hs (Node nk h s l r'))) as [t2|] eqn:E2; [|discriminate].
        inversion E; subst t2 u; clear E.
        destruct (balance_avl nk h s l r' t' HSl HSr' HBl HBr') as [HB' [Hb' Hex]]; [lia|exact E2|].
        split; [exact HB'|]. cbn [height]. split; [|discriminate].
        destruct (Z_le_gt_dec (height r' - height l) 1); [rewrite Hex by lia; lia|lia].
Qed.

(** ** remove keeps the AVL balance *)
From C33 Require Import C01.ProofsRemove.

Theorem remove_balanced : forall t k res,
  ordered t -> sized t -> balanced t -> remove t k = Some res ->
  match rm_node res with
  | Some t' => balanced t' /\ height t - 1 <= height t' <= height t
  | None => True
  end.
Proof.
  induction t as [lk lv|nk h s l IHl r IHr]; intros k res HO HS HB E.
  - cbn [remove] in E. destruct (beq k lk); inversion E; subst; simpl; auto. split; auto. lia.
  - pose proof HO as [HOl [HOr _]]. pose proof HS as [HSl [HSr [Hh Hs]]].
    pose proof HB as [HBl [HBr HD]].
    pose proof (sized_height_nonneg l HSl). pose proof (sized_height_nonneg r HSr).
    cbn [remove] in E. destruct (blt k nk).
    + destruct (remove_inv l k HOl HSl) as [rl [E1 OK]]. rewrite E1 in E.
      specialize (IHl k rl HOl HSl HBl E1). unfold rm_ok in OK.
      destruct (rm_removed rl); cbn [negb] in E.
      * destruct OK as [_ [_ ND]]. destruct (rm_node rl) as [l'|].
        -- destruct ND as [_ [HSl' _]]. destruct IHl as [HBl' Hb].
           destruct (balance (calc_hs (Node nk h s l' r))) as [t2|] eqn:E2; [|discriminate].
           inversion E; subst res; clear E. cbn [rm_node].
           destruct (balance_avl nk h s l' r t2 HSl' HSr HBl' HBr) as [HB' [Hb' Hex]]; [lia|exact E2|].
           split; [exact HB'|]. cbn [height].
           destruct (Z_le_gt_dec (height r - height l') 1); [rewrite Hex by lia; lia|lia].
        -- destruct ND as [v0 [EL _]]. subst l. inversion E; subst res; clear E. cbn [rm_node].
           split; [exact HBr|]. cbn [height] in *. lia.
      * inversion E; subst res; clear E. cbn [rm_node]. split; [exact HB|]. lia.
    + destruct (remove_inv r k HOr HSr) as [rr [E1 OK]]. rewrite E1 in E.
      specialize (IHr k rr HOr HSr HBr E1). unfold rm_ok in OK.
      destruct (rm_removed rr); cbn [negb] in E.
      * destruct OK as [_ [_ ND]]. destruct (rm_node rr) as [r'|].
        -- destruct ND as [_ [HSr' _]]. destruct IHr as [HBr' Hb].
           match type of E with context [balance ?x] => destruct (balance x) as [t2|] eqn:E2; [|discriminate] end.
           inversion E; subst res; clear E. cbn [rm_node].
           match type of E2 with balance (calc_hs (Node ?kk _ _ _ _)) = _ =>
             destruct (balance_avl kk h s l r' t2 HSl HSr' HBl HBr') as [HB' [Hb' Hex]]; [lia|exact E2|] end.
           split; [exact HB'|]. cbn [height].
           destruct (Z_le_gt_dec (height l - height r') 1); [rewrite Hex by lia; lia|lia].
        -- destruct ND as [v0 [EL _]]. subst r. inversion E; subst res; clear E. cbn [rm_node].
           split; [exact HBl|]. cbn [height] in *. lia.
      * inversion E; subst res; clear E. cbn [rm_node]. split; [exact HB|]. lia.
Qed.
