(** C01 — proofs, part 2: the node database (tree.go) and the versioned-map
    theorem.  [save] only adds bindings and never changes the content of an
    existing one; a saved version loads back unchanged from any later database;
    hence every read at an old root keeps answering from that root's state. *)
From Coq Require Import List ZArith NArith Lia Bool.
From C33 Require Import C01.Keys C01.KeysFacts C01.Model C01.Store C01.Spec C01.Inv C01.Proofs.
Import ListNotations.
Open Scope Z_scope.

(** ** symbolic hashes *)

Lemma hash_eqb_refl : forall a, hash_eqb a a = true.
Proof.
  induction a as [k v|h s l IHl r IHr]; simpl.
  - rewrite !beq_refl. reflexivity.
  - rewrite !Z.eqb_refl, IHl, IHr. reflexivity.
Qed.

Lemma hash_eqb_eq : forall a b, hash_eqb a b = true -> a = b.
Proof.
  induction a as [k v|h s l IHl r IHr]; intros [k' v'|h' s' l' r'] H; simpl in H; try discriminate.
  - apply andb_true_iff in H as [H1 H2]. apply beq_iff in H1, H2. congruence.
  - apply andb_true_iff in H as [H H4]. apply andb_true_iff in H as [H H3].
    apply andb_true_iff in H as [H1 H2].
    apply Z.eqb_eq in H1, H2. apply IHl in H3. apply IHr in H4. congruence.
Qed.

Lemma hash_eqb_neq : forall a b, hash_eqb a b = false -> a <> b.
Proof. intros a b H E. subst. rewrite hash_eqb_refl in H. discriminate. Qed.

Lemma db_get_put : forall d h r h',
  db_get (db_put d h r) h' = if hash_eqb h' h then Some r else db_get d h'.
Proof. reflexivity. Qed.

(** The inner node's key is not hashed, but it is determined by the right
    sub-tree; so on keyed trees the symbolic hash is injective. *)
Lemma thash_inj : forall t1 t2, keyed t1 -> keyed t2 -> thash t1 = thash t2 -> t1 = t2.
Proof.
  induction t1 as [k v|k h s l IHl r IHr]; intros [k' v'|k' h' s' l' r'] K1 K2 H; simpl in H;
    try discriminate.
  - congruence.
  - destruct K1 as [Kl [Kr Kk]]. destruct K2 as [Kl' [Kr' Kk']].
    inversion H. subst h' s'.
    assert (l = l') by (apply IHl; auto). assert (r = r') by (apply IHr; auto).
    subst. reflexivity.
Qed.

(** ** stored trees and extension *)

Lemma db_extends_refl : forall d, db_extends d d.
Proof. intros d h r H. exact H. Qed.

Lemma db_extends_trans : forall a b c, db_extends a b -> db_extends b c -> db_extends a c.
Proof. intros a b c H1 H2 h r H. apply H2, H1, H. Qed.

Lemma stored_ext : forall d d' t, db_extends d d' -> stored d t -> stored d' t.
Proof.
  intros d d' t HX. induction t as [k v|k h s l IHl r IHr]; simpl.
  - apply HX.
  - intros [H [Hl Hr]]. auto.
Qed.

Lemma stored_get : forall d t, stored d t -> db_get d (thash t) = Some (rec_of t).
Proof. intros d [k v|k h s l r]; simpl; intuition. Qed.

Lemma db_wf_empty : db_wf [].
Proof. intros h r H. discriminate. Qed.

(** Adding the record of [t] under its own hash on top of a database that
    already stores the children. *)
Lemma put_node_spec : forall d t,
  db_wf d -> keyed t ->
  match t with Leaf _ _ => True | Node _ _ _ l r => stored d l /\ stored d r end ->
  let d' := db_put d (thash t) (rec_of t) in
  db_wf d' /\ stored d' t /\ db_extends d d'.
Proof.
  intros d t WF K HC d'.
  assert (X : db_extends d d').
  { intros h r H. unfold d'. rewrite db_get_put.
    destruct (hash_eqb h (thash t)) eqn:E; [|exact H].
    apply hash_eqb_eq in E. subst h.
    destruct (WF _ _ H) as [t0 [K0 [H0 S0]]].
    assert (t0 = t) by (apply thash_inj; auto). subst t0.
    rewrite (stored_get _ _ S0) in H. exact H. }
  assert (S : stored d' t).
  { destruct t as [k v|k h s l r].
    - cbn [stored]. unfold d'. rewrite db_get_put. rewrite hash_eqb_refl. reflexivity.
    - destruct HC as [Sl Sr]. cbn [stored]. split; [|split; eapply stored_ext; eauto].
      unfold d'. rewrite db_get_put. rewrite hash_eqb_refl. reflexivity. }
  split; [|split; assumption].
  intros h r H. unfold d' in H. rewrite db_get_put in H.
  destruct (hash_eqb h (thash t)) eqn:E.
  - apply hash_eqb_eq in E. subst h. exists t. auto.
  - destruct (WF _ _ H) as [t0 [K0 [H0 S0]]]. exists t0. split; [exact K0|].
    split; [exact H0|]. eapply stored_ext; eauto.
Qed.

Theorem save_spec : forall t d,
  db_wf d -> keyed t ->
  db_wf (save d t) /\ stored (save d t) t /\ db_extends d (save d t).
Proof.
  induction t as [k v|k h s l IHl r IHr]; intros d WF K.
  - cbn [save]. unfold db_has.
    destruct (db_get d (thash (Leaf k v))) eqn:G.
    + split; [exact WF|]. split; [|apply db_extends_refl].
      destruct (WF _ _ G) as [t0 [K0 [H0 S0]]].
      assert (t0 = Leaf k v) by (apply thash_inj; auto). subst t0. exact S0.
    + apply (put_node_spec d (Leaf k v)); auto.
  - cbn [save]. unfold db_has.
    destruct (db_get d (thash (Node k h s l r))) eqn:G.
    + split; [exact WF|]. split; [|apply db_extends_refl].
      destruct (WF _ _ G) as [t0 [K0 [H0 S0]]].
      assert (t0 = Node k h s l r) by (apply thash_inj; auto). subst t0. exact S0.
    + destruct K as [Kl [Kr Kk]].
      destruct (IHl d WF Kl) as [WF1 [S1 X1]].
      destruct (IHr (save d l) WF1 Kr) as [WF2 [S2 X2]].
      assert (K : keyed (Node k h s l r)) by (simpl; auto).
      destruct (put_node_spec (save (save d l) r) (Node k h s l r) WF2 K) as [WF3 [S3 X3]].
      { split; [eapply stored_ext; eauto|exact S2]. }
      split; [exact WF3|]. split; [exact S3|].
      eapply db_extends_trans; [exact X1|]. eapply db_extends_trans; [exact X2|exact X3].
Qed.

(** ** load *)

Lemma load_stored : forall t d fuel,
  stored d t -> sized t -> (Z.to_nat (height t) < fuel)%nat -> load d fuel (thash t) = Some t.
Proof.
  induction t as [k v|k h s l IHl r IHr]; intros d fuel ST SZ F.
  - destruct fuel as [|f]; [lia|]. cbn [load]. cbn [stored] in ST. rewrite ST. reflexivity.
  - destruct fuel as [|f]; [lia|]. cbn [load].
    destruct ST as [G [Sl Sr]]. rewrite G. cbn [rec_of].
    destruct SZ as [SZl [SZr [Hh Hs]]].
    pose proof (sized_height_nonneg l SZl). pose proof (sized_height_nonneg r SZr).
    cbn [height] in F.
    rewrite (IHl d f Sl SZl) by lia. rewrite (IHr d f Sr SZr) by lia. reflexivity.
Qed.

Theorem load_root_stored : forall t d, stored d t -> sized t -> load_root d (thash t) = Some t.
Proof.
  intros t d ST SZ. unfold load_root. rewrite (stored_get _ _ ST).
  apply load_stored; auto.
  destruct t; simpl; lia.
Qed.

Theorem load_save : forall t d,
  db_wf d -> ordered t -> sized t -> load_root (save d t) (thash t) = Some t.
Proof.
  intros t d WF HO HS. apply load_root_stored; [|exact HS].
  apply save_spec; auto. apply ordered_keyed. exact HO.
Qed.

Lemma load_tree_stored : forall d o, o_stored d o -> o_good o -> load_tree d (tree_root o) = Some o.
Proof.
  intros d [t|] ST G; simpl; [|reflexivity].
  destruct G as [_ SZ]. rewrite (load_root_stored t d ST SZ). reflexivity.
Qed.

(** ** batches *)

Lemma t_set_inv : forall o k v,
  o_good o -> exists o' u, t_set o k v = Some (o', u) /\ o_good o' /\
                           o_elements o' = ins k v (o_elements o).
Proof.
  intros [t|] k v G; simpl.
  - destruct G as [HO HS].
    destruct (set_inv t k v HO HS) as [t' [u [E [HO' [HS' [HE _]]]]]].
    rewrite E. exists (Some t'), u. simpl. auto.
  - exists (Some (Leaf k v)), false. simpl. auto.
Qed.

Lemma t_set_all_inv : forall kvs o,
  o_good o -> exists o', t_set_all o kvs = Some o' /\ o_good o' /\
                         o_elements o' = apply_writes (o_elements o) kvs.
Proof.
  induction kvs as [|[k v] kvs IH]; intros o G.
  - exists o. simpl. auto.
  - destruct (t_set_inv o k v G) as [o1 [u [E [G1 HE1]]]].
    destruct (IH o1 G1) as [o2 [E2 [G2 HE2]]].
    exists o2. cbn [t_set_all]. rewrite E. split; [exact E2|]. split; [exact G2|].
    rewrite HE2, HE1. reflexivity.
Qed.

Lemma set_kv_pair_inv : forall d o kvs,
  db_wf d -> o_good o -> o_stored d o ->
  exists d' o', set_kv_pair d (tree_root o) kvs = Some (d', tree_root o') /\
                db_wf d' /\ db_extends d d' /\ o_good o' /\ o_stored d' o' /\
                o_elements o' = apply_writes (o_elements o) kvs.
Proof.
  intros d o kvs WF G ST. unfold set_kv_pair.
  rewrite (load_tree_stored d o ST G).
  destruct (t_set_all_inv kvs o G) as [o' [E [G' HE]]]. rewrite E.
  destruct o' as [t'|]; simpl.
  - destruct G' as [HO HS].
    destruct (save_spec t' d WF (ordered_keyed _ HO)) as [WF' [ST' X]].
    exists (save d t'), (Some t'). simpl. auto 10.
  - exists d, None. simpl. split; [reflexivity|]. split; [exact WF|].
    split; [apply db_extends_refl|]. auto.
Qed.

Lemma run_inv : forall bs d o,
  db_wf d -> o_good o -> o_stored d o ->
  exists d' o', run d (tree_root o) bs = Some (d', tree_root o') /\
                db_wf d' /\ db_extends d d' /\ o_good o' /\ o_stored d' o' /\
                o_elements o' = fold_left apply_writes bs (o_elements o).
Proof.
  induction bs as [|b bs IH]; intros d o WF G ST.
  - exists d, o. simpl. split; [reflexivity|]. split; [exact WF|]. split; [apply db_extends_refl|]. auto.
  - destruct (set_kv_pair_inv d o b WF G ST) as [d1 [o1 [E [WF1 [X1 [G1 [ST1 HE1]]]]]]].
    destruct (IH d1 o1 WF1 G1 ST1) as [d2 [o2 [E2 [WF2 [X2 [G2 [ST2 HE2]]]]]]].
    exists d2, o2. cbn [run]. rewrite E. split; [exact E2|]. split; [exact WF2|].
    split; [eapply db_extends_trans; eauto|]. split; [exact G2|]. split; [exact ST2|].
    simpl. rewrite HE2, HE1. reflexivity.
Qed.

Lemma run_app : forall a b d r,
  run d r (a ++ b) = match run d r a with
                     | Some (d', r') => run d' r' b
                     | None => None
                     end.
Proof.
  induction a as [|x a IH]; intros b d r; simpl; [reflexivity|].
  destruct (set_kv_pair d r x) as [[d' r']|]; [apply IH|reflexivity].
Qed.

Lemma o_stored_ext : forall d d' o, db_extends d d' -> o_stored d o -> o_stored d' o.
Proof. intros d d' [t|] X S; simpl in *; [eapply stored_ext; eauto|exact I]. Qed.

Lemma t_get_elements : forall o k, o_good o -> snd (t_get o k) = sget (o_elements o) k.
Proof.
  intros [t|] k G; simpl; [|reflexivity]. destruct G as [HO _]. apply get_elements. exact HO.
Qed.

(** The version committed by the first [i] batches, seen from the database
    after [j >= i] batches. *)
Lemma history_versions : forall bs i j, (i <= j)%nat ->
  exists di dj oi oj,
    history (firstn i bs) = Some (di, tree_root oi) /\
    history (firstn j bs) = Some (dj, tree_root oj) /\
    o_good oi /\ o_stored dj oi /\ o_elements oi = state (firstn i bs).
Proof.
  intros bs i j Hij. unfold history.
  destruct (run_inv (firstn i bs) [] None db_wf_empty I I)
    as [di [oi [Ei [WFi [_ [Gi [STi HEi]]]]]]].
  assert (SPLIT : firstn j bs = firstn i bs ++ skipn i (firstn j bs)).
  { rewrite <- (firstn_skipn i (firstn j bs)) at 1. rewrite firstn_firstn.
    rewrite Nat.min_l by exact Hij. reflexivity. }
  destruct (run_inv (skipn i (firstn j bs)) di oi WFi Gi STi)
    as [dj [oj [Ej [WFj [Xj [Gj [STj HEj]]]]]]].
  exists di, dj, oi, oj. simpl tree_root in Ei.
  split; [exact Ei|]. split.
  - rewrite SPLIT, run_app. simpl tree_root. rewrite Ei. exact Ej.
  - split; [exact Gi|]. split; [eapply o_stored_ext; eauto|]. exact HEi.
Qed.

Theorem versioned_map_get : forall bs i j, (i <= j)%nat ->
  exists di ri dj rj,
    history (firstn i bs) = Some (di, ri) /\
    history (firstn j bs) = Some (dj, rj) /\
    forall k, get_at dj ri k = Some (sget (state (firstn i bs)) k).
Proof.
  intros bs i j Hij.
  destruct (history_versions bs i j Hij) as [di [dj [oi [oj [Ei [Ej [Gi [STi HEi]]]]]]]].
  exists di, (tree_root oi), dj, (tree_root oj). split; [exact Ei|]. split; [exact Ej|].
  intros k. unfold get_at. rewrite (load_tree_stored dj oi STi Gi).
  rewrite (t_get_elements oi k Gi), HEi. reflexivity.
Qed.
