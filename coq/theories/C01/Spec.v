(** C01 — the abstract specification: a committed state is a finite map from
    keys to values, represented as an association list strictly sorted by key;
    [state bs] is the map after the batches [bs]. *)
From Coq Require Import List ZArith NArith Bool.
From C33 Require Import C01.Keys.
Import ListNotations.

Definition smap := list (bytes * bytes).

Fixpoint ins (k v : bytes) (m : smap) : smap :=
  match m with
  | [] => [(k, v)]
  | (k', v') :: tl =>
      match bcmp k k' with
      | Lt => (k, v) :: m
      | Eq => (k, v) :: tl
      | Gt => (k', v') :: ins k v tl
      end
  end.

Fixpoint sdel (k : bytes) (m : smap) : smap :=
  match m with
  | [] => []
  | (k', v') :: tl => if beq k k' then tl else (k', v') :: sdel k tl
  end.

Fixpoint sget (m : smap) (k : bytes) : option bytes :=
  match m with
  | [] => None
  | (k', v') :: tl => if beq k k' then Some v' else sget tl k
  end.

Definition apply_writes (m : smap) (b : list (bytes * bytes)) : smap :=
  fold_left (fun m kv => ins (fst kv) (snd kv) m) b m.

Definition state (bs : list (list (bytes * bytes))) : smap :=
  fold_left apply_writes bs [].

(** [start <= k] and [k < end] (or [k <= end] when inclusive); [None] = unbounded. *)
Definition in_range (start endk : option bytes) (incl : bool) (k : bytes) : bool :=
  match start with None => true | Some st => ble st k end &&
  match endk with None => true | Some e => if incl then ble k e else blt k e end.

Definition srange (m : smap) (start endk : option bytes) (asc incl : bool) : smap :=
  let l := filter (fun kv => in_range start endk incl (fst kv)) m in
  if asc then l else rev l.

(** With a callback that stops at the [lim]-th item. *)
Definition srange_lim (lim : option N) (m : smap) (start endk : option bytes) (asc incl : bool)
  : smap * bool :=
  let l := srange m start endk asc incl in
  match lim with
  | None => (l, false)
  | Some n => if (N.of_nat (length l) <? N.max n 1)%N then (l, false)
              else (firstn (N.to_nat (N.max n 1)) l, true)
  end.

(** Histories that also contain DelKVPair batches (exported by the tree
    package, not used on the block path). *)
Inductive op :=
| OSet (kvs : list (bytes * bytes))
| ODel (ks : list bytes).

Definition apply_dels (m : smap) (ks : list bytes) : smap :=
  fold_left (fun m k => sdel k m) ks m.

Definition spec_op (m : smap) (o : op) : smap :=
  match o with
  | OSet kvs => apply_writes m kvs
  | ODel ks => apply_dels m ks
  end.

Definition state_ops (ops : list op) : smap := fold_left spec_op ops [].
