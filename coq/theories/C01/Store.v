(** C01 — the node database of the state tree (tree.go: nodeDB, Node.Hash,
    Node.save, Tree.Load/Save, SetKVPair / GetKVPair / IterateRangeByStateHash).

    Hashes are SYMBOLIC: a free term algebra over exactly the fields the Go
    code feeds to SHA-256 —
      leaf  : types.LeafNode{Key, Value, Height = 0, Size = 1}
      inner : types.InnerNode{LeftHash, RightHash, Height, Size}  (the inner node's
              key is NOT hashed; with EnableMavlPrefix the child hashes are trimmed
              to their last 32 bytes first, so the height prefix never enters)
    i.e. SHA-256 over the protobuf encoding is idealised as injective.

    The database is an association list, newest binding first ([db_put] shadows
    like [batch.Set] overwrites).  A node record is what storeNode writes.

    Abstractions (stated, not hidden):
    - [save] skips a sub-tree when its hash is already bound (Go: when the node
      object is flagged [persisted]).  A re-created node with a bound hash is
      re-written by Go with an identical record (content addressing), so the
      resulting maps coincide; the number of bindings is compared by the harness.
    - [load] materialises the whole version (fuel = stored root height + 1); Go
      loads nodes lazily along the path.  They differ only on databases with
      missing nodes, which no history produces (theorem [stored_load]).
    - EnableMavlPrefix changes database keys only (prefix ++ hash) — reads and
      root hashes are the same; not modelled separately here (see C02/C05). *)
From Coq Require Import List ZArith NArith Bool.
From C33 Require Import C01.Keys C01.Model C01.Spec.
Import ListNotations.
Open Scope Z_scope.

Inductive hash :=
| HLeaf (k v : bytes)
| HInner (height size : Z) (lh rh : hash).

Fixpoint hash_eqb (a b : hash) : bool :=
  match a, b with
  | HLeaf k v, HLeaf k' v' => beq k k' && beq v v'
  | HInner h s l r, HInner h' s' l' r' =>
      (h =? h') && (s =? s') && hash_eqb l l' && hash_eqb r r'
  | _, _ => false
  end.

(** Node.Hash *)
Fixpoint thash (t : tree) : hash :=
  match t with
  | Leaf k v => HLeaf k v
  | Node _ h s l r => HInner h s (thash l) (thash r)
  end.

(** storeNode: what is written under the node's hash. *)
Inductive noderec :=
| RLeaf (k v : bytes)
| RInner (key : bytes) (height size : Z) (lh rh : hash).

Definition rec_height (r : noderec) : Z :=
  match r with RLeaf _ _ => 0 | RInner _ h _ _ _ => h end.

Definition rec_of (t : tree) : noderec :=
  match t with
  | Leaf k v => RLeaf k v
  | Node key h s l r => RInner key h s (thash l) (thash r)
  end.

Definition db := list (hash * noderec).

Fixpoint db_get (d : db) (h : hash) : option noderec :=
  match d with
  | [] => None
  | (h', r) :: tl => if hash_eqb h h' then Some r else db_get tl h
  end.

Definition db_has (d : db) (h : hash) : bool :=
  match db_get d h with Some _ => true | None => false end.

Definition db_put (d : db) (h : hash) (r : noderec) : db := (h, r) :: d.

(** Node.save: children (left, then right) before the node itself; nothing
    below an already stored node. *)
Fixpoint save (d : db) (t : tree) : db :=
  if db_has d (thash t) then d else
  match t with
  | Leaf k v => db_put d (thash t) (rec_of t)
  | Node _ _ _ l r =>
      let d1 := save d l in
      let d2 := save d1 r in
      db_put d2 (thash t) (rec_of t)
  end.

(** nodeDB.GetNode + MakeNode, recursively. [None] = ErrNodeNotExist somewhere
    (or out of fuel). *)
Fixpoint load (d : db) (fuel : nat) (h : hash) : option tree :=
  match fuel with
  | O => None
  | S f =>
      match db_get d h with
      | None => None
      | Some (RLeaf k v) => Some (Leaf k v)
      | Some (RInner key ht s lh rh) =>
          match load d f lh, load d f rh with
          | Some l, Some r => Some (Node key ht s l r)
          | _, _ => None
          end
      end
  end.

Definition load_root (d : db) (h : hash) : option tree :=
  match db_get d h with
  | None => None
  | Some r => load d (S (Z.to_nat (rec_height r))) h
  end.

(** A state root: [None] is the empty tree (Go: nil, or 32 zero bytes). *)
Definition root := option hash.

Definition root_eqb (a b : root) : bool :=
  match a, b with
  | None, None => true
  | Some x, Some y => hash_eqb x y
  | _, _ => false
  end.

(** Tree.Load *)
Definition load_tree (d : db) (r : root) : option otree :=
  match r with
  | None => Some None
  | Some h => match load_root d h with
              | Some t => Some (Some t)
              | None => None
              end
  end.

(** Tree.Save *)
Definition save_tree (d : db) (o : otree) : db * root :=
  match o with
  | None => (d, None)
  | Some t => (save d t, Some (thash t))
  end.

Definition tree_root (o : otree) : root :=
  match o with None => None | Some t => Some (thash t) end.

(** SetKVPair (= Store.Set, and MemSet followed by Commit): load, apply the
    writes in order, save.  [None] = error or panic. *)
Definition set_kv_pair (d : db) (r : root) (kvs : list (bytes * bytes)) : option (db * root) :=
  match load_tree d r with
  | None => None
  | Some o => match t_set_all o kvs with
              | None => None
              | Some o' => Some (save_tree d o')
              end
  end.

(** DelKVPair: load, Tree.Remove each key in order, save; also returns the
    removed values.  (Exported by the tree package; the store's own Del is a
    stub and no block-processing path removes keys.) *)
Fixpoint t_remove_all (o : otree) (ks : list bytes) : option (otree * list (option bytes)) :=
  match ks with
  | [] => Some (o, [])
  | k :: tl =>
      match t_remove o k with
      | None => None
      | Some (o', v, _) =>
          match t_remove_all o' tl with
          | None => None
          | Some (o'', vs) => Some (o'', v :: vs)
          end
      end
  end.

Definition del_kv_pair (d : db) (r : root) (ks : list bytes)
  : option (db * root * list (option bytes)) :=
  match load_tree d r with
  | None => None
  | Some o => match t_remove_all o ks with
              | None => None
              | Some (o', vs) => Some (save_tree d o', vs)
              end
  end.

(** GetKVPair / Store.Get for one key: the value if the key exists. *)
Definition get_at (d : db) (r : root) (k : bytes) : option (option bytes) :=
  match load_tree d r with
  | None => None
  | Some o => Some (snd (t_get o k))
  end.

(** IterateRangeByStateHash / Tree.IterateRange[Inclusive] at a root. *)
Definition range_at (d : db) (r : root) (lim : option N) (start endk : option bytes)
  (asc incl : bool) : option (list (bytes * bytes) * bool) :=
  match load_tree d r with
  | None => None
  | Some o => Some (t_collect_range lim start endk asc incl o)
  end.

(** A history of committed batches, each applied at the root the previous one returned. *)
Definition batch := list (bytes * bytes).

Fixpoint run (d : db) (r : root) (bs : list batch) : option (db * root) :=
  match bs with
  | [] => Some (d, r)
  | b :: tl => match set_kv_pair d r b with
               | None => None
               | Some (d', r') => run d' r' tl
               end
  end.

Definition history (bs : list batch) : option (db * root) := run [] None bs.

(** Histories of write batches and DelKVPair batches. *)
Definition apply_op (d : db) (r : root) (o : op) : option (db * root) :=
  match o with
  | OSet kvs => set_kv_pair d r kvs
  | ODel ks => match del_kv_pair d r ks with
               | Some (dr, _) => Some dr
               | None => None
               end
  end.

Fixpoint run_ops (d : db) (r : root) (ops : list op) : option (db * root) :=
  match ops with
  | [] => Some (d, r)
  | o :: tl => match apply_op d r o with
               | None => None
               | Some (d', r') => run_ops d' r' tl
               end
  end.

Definition history_ops (ops : list op) : option (db * root) := run_ops [] None ops.
