(** C01 — proofs, part 7: [remove] (node.go remove, tree.go Remove / DelKVPair).
    Removing a key keeps the search-tree order (including the re-keying of
    inner nodes through [newKey]) and the stored heights/sizes, never panics,
    and acts on the in-order leaves as deletion from the association list. *)
From Coq Require Import List ZArith NArith Lia Bool.
From C33 Require Import C01.Keys C01.KeysFacts C01.Model C01.Store C01.Spec C01.Inv C01.Proofs.
Import ListNotations.
Open Scope Z_scope.

(** ** deletion from association lists *)

Lemma sdel_notin : forall k m, ~ In k (map fst m) -> sdel k m = m.
Proof.
  intros k m. induction m as [|[k' v'] m IH]; intros H; simpl; [reflexivity|].
  destruct (beq k k') eqn:E.
  - apply beq_iff in E. subst. exfalso. apply H. simpl; auto.
  - f_equal. apply IH. intro. apply H. simpl; auto.
Qed.

Lemma sdel_app_l : forall k a b, In k (map fst a) -> sdel k (a ++ b) = sdel k a ++ b.
Proof.
  intros k a b. induction a as [|[k' v'] a IH]; intros H; simpl in *; [destruct H|].
  destruct (beq k k') eqn:E; [reflexivity|].
  destruct H as [H|H]; [subst; rewrite beq_refl in E; discriminate|].
  simpl. f_equal. apply IH. exact H.
Qed.

Lemma sdel_app_r : forall k a b, ~ In k (map fst a) -> sdel k (a ++ b) = a ++ sdel k b.
Proof.
  intros k a b. induction a as [|[k' v'] a IH]; intros H; simpl in *; [reflexivity|].
  destruct (beq k k') eqn:E.
  - apply beq_iff in E. subst. exfalso. apply H. auto.
  - f_equal. apply IH. intro. apply H. auto.
Qed.

Lemma in_sdel : forall k m x, In x (map fst (sdel k m)) -> In x (map fst m).
Proof.
  intros k m x. induction m as [|[k' v'] m IH]; simpl; [auto|].
  destruct (beq k k'); simpl; intuition.
Qed.

Lemma sget_in : forall m k, In k (map fst m) -> exists v, sget m k = Some v.
Proof.
  induction m as [|[k' v'] m IH]; intros k H; simpl in *; [destruct H|].
  destruct (beq k k') eqn:E; [eauto|].
  destruct H as [H|H]; [subst; rewrite beq_refl in E; discriminate|]. apply IH. exact H.
Qed.

(** ** the leftmost key is the minimum *)

Lemma leftmost_min : forall t x, ordered t -> In x (keys t) -> blt x (leftmost t) = false.
Proof.
  induction t as [k v|nk h s l IHl r IHr]; intros x HO Hx.
  - unfold keys in Hx. simpl in Hx. destruct Hx as [Hx|[]]. subst. apply blt_irrefl.
  - destruct HO as [HOl [HOr [Hl [Hr Hk]]]]. rewrite keys_node in Hx. cbn [leftmost].
    apply in_app_or in Hx. destruct Hx as [Hx|Hx]; [apply IHl; auto|].
    destruct (blt x (leftmost l)) eqn:C; [|reflexivity].
    assert (H1 : blt (leftmost l) nk = true) by (apply Hl, leftmost_in).
    pose proof (blt_trans _ _ _ C H1) as C2. rewrite (Hr x Hx) in C2. discriminate.
Qed.

(** ** remove *)

Definition rm_ok (t : tree) (k : bytes) (res : rm_result) : Prop :=
  if rm_removed res then
    In k (keys t) /\ rm_value res = sget (elements t) k /\
    match rm_node res with
    | None => exists v, t = Leaf k v /\ rm_newkey res = None
    | Some t' =>
        ordered t' /\ sized t' /\ elements t' = sdel k (elements t) /\
        match rm_newkey res with
        | Some x => x = leftmost t'
        | None => leftmost t' = leftmost t
        end
    end
  else
    rm_node res = Some t /\ ~ In k (keys t) /\ rm_value res = None /\ rm_newkey res = None.

Lemma balance_after : forall nk h s l r,
  ordered (Node nk h s l r) -> sized l -> sized r ->
  exists t', balance (calc_hs (Node nk h s l r)) = Some t' /\ ordered t' /\ sized t' /\
             elements t' = elements l ++ elements r /\ leftmost t' = leftmost l.
Proof.
  intros nk h s l r HO HSl HSr.
  assert (HO2 : ordered (calc_hs (Node nk h s l r))) by exact HO.
  assert (HS2 : sized (calc_hs (Node nk h s l r))) by (simpl; repeat split; auto).
  cbn [calc_hs] in *.
  destruct (balance_inv _ _ _ _ _ HO2 HS2) as [t' [E [HO3 [HS3 HE3]]]].
  exists t'. split; [exact E|]. split; [exact HO3|]. split; [exact HS3|]. split; [exact HE3|].
  rewrite (leftmost_of_elements (Node nk h s l r) t' HE3). reflexivity.
Qed.

Theorem remove_inv : forall t k,
  ordered t -> sized t -> exists res, remove t k = Some res /\ rm_ok t k res.
Proof.
  induction t as [lk lv|nk h s l IHl r IHr]; intros k HO HS.
  - cbn [remove]. destruct (beq k lk) eqn:E.
    + apply beq_iff in E. subst lk. eexists. split; [reflexivity|].
      unfold rm_ok. cbn. rewrite beq_refl. repeat split; eauto.
    + eexists. split; [reflexivity|]. unfold rm_ok. cbn. repeat split; auto.
      intros [H|[]]. subst. rewrite beq_refl in E. discriminate.
  - pose proof HO as [HOl [HOr [Hl [Hr Hk]]]]. pose proof HS as [HSl [HSr [Hh Hs]]].
    cbn [remove]. destruct (blt k nk) eqn:B.
    + (* left *)
      assert (NR : ~ In k (keys r)) by (intro Hx; rewrite (Hr k Hx) in B; discriminate).
      destruct (IHl k HOl HSl) as [rl [E OK]]. rewrite E. unfold rm_ok in OK.
      destruct (rm_removed rl) eqn:RM; cbn [negb].
      * destruct OK as [INl [VAL ND]].
        assert (VALt : rm_value rl = sget (elements l ++ elements r) k).
        { rewrite sget_app, <- VAL. destruct (sget_in _ _ INl) as [v0 Ev]. rewrite VAL, Ev. reflexivity. }
        destruct (rm_node rl) as [l'|] eqn:RN.
        -- destruct ND as [HOl' [HSl' [HEl' NK]]].
           assert (HO2 : ordered (Node nk h s l' r)).
           { simpl. repeat split; auto. intros x Hx. apply Hl. unfold keys in *. rewrite HEl' in Hx.
             eapply in_sdel; eauto. }
           destruct (balance_after nk h s l' r HO2 HSl' HSr) as [t' [E2 [HO3 [HS3 [HE3 HL3]]]]].
           rewrite E2. eexists. split; [reflexivity|]. unfold rm_ok. cbn [rm_removed rm_value rm_node rm_newkey elements].
           split; [rewrite keys_node; apply in_or_app; auto|]. split; [exact VALt|].
           split; [exact HO3|]. split; [exact HS3|]. split.
           ++ rewrite HE3, HEl'. symmetry. apply sdel_app_l. exact INl.
           ++ rewrite HL3. exact NK.
        -- destruct ND as [v0 [EL NK]]. subst l.
           eexists. split; [reflexivity|]. unfold rm_ok. cbn [rm_removed rm_value rm_node rm_newkey elements].
           split; [rewrite keys_node; apply in_or_app; left; exact INl|].
           split; [exact VALt|]. split; [exact HOr|]. split; [exact HSr|]. split; [|exact Hk].
           simpl. rewrite beq_refl. reflexivity.
      * destruct OK as [RN [NI [VAL NK]]].
        eexists. split; [reflexivity|]. unfold rm_ok. cbn [rm_removed rm_value rm_node rm_newkey elements]. split; [reflexivity|].
        split; [|auto]. rewrite keys_node. intro Hx. apply in_app_or in Hx. tauto.
    + (* right *)
      assert (NL : ~ In k (keys l)) by (intro Hx; rewrite (Hl k Hx) in B; discriminate).
      destruct (IHr k HOr HSr) as [rr [E OK]]. rewrite E. unfold rm_ok in OK.
      destruct (rm_removed rr) eqn:RM; cbn [negb].
      * destruct OK as [INr [VAL ND]].
        assert (VALt : rm_value rr = sget (elements l ++ elements r) k).
        { rewrite sget_app, (sget_notin _ _ NL). exact VAL. }
        destruct (rm_node rr) as [r'|] eqn:RN.
        -- destruct ND as [HOr' [HSr' [HEr' NK]]].
           set (nk' := match rm_newkey rr with Some k' => k' | None => nk end).
           assert (HNK : nk' = leftmost r').
           { unfold nk'. destruct (rm_newkey rr); [exact NK|]. rewrite NK. exact Hk. }
           assert (SUB : forall x, In x (keys r') -> In x (keys r)).
           { intros x Hx. unfold keys in *. rewrite HEr' in Hx. eapply in_sdel; eauto. }
           assert (GE : blt nk' nk = false).
           { apply Hr, SUB. rewrite HNK. apply leftmost_in. }
           assert (HO2 : ordered (Node nk' h s l r')).
           { simpl. repeat split; auto.
             - intros x Hx. apply (blt_le_trans x nk nk'); [apply Hl; exact Hx|exact GE].
             - intros x Hx. rewrite HNK. apply leftmost_min; auto. }
           destruct (balance_after nk' h s l r' HO2 HSl HSr') as [t' [E2 [HO3 [HS3 [HE3 HL3]]]]].
           rewrite E2. eexists. split; [reflexivity|]. unfold rm_ok. cbn [rm_removed rm_value rm_node rm_newkey elements].
           split; [rewrite keys_node; apply in_or_app; auto|]. split; [exact VALt|].
           split; [exact HO3|]. split; [exact HS3|]. split.
           ++ rewrite HE3, HEr'. symmetry. apply sdel_app_r. exact NL.
           ++ exact HL3.
        -- destruct ND as [v0 [EL NK]]. subst r.
           eexists. split; [reflexivity|]. unfold rm_ok. cbn [rm_removed rm_value rm_node rm_newkey elements].
           split; [rewrite keys_node; apply in_or_app; right; unfold keys; simpl; auto|].
           split; [exact VALt|]. split; [exact HOl|]. split; [exact HSl|]. split; [|reflexivity].
           rewrite sdel_app_r by exact NL. simpl. rewrite beq_refl. rewrite app_nil_r. reflexivity.
      * destruct OK as [RN [NI [VAL NK]]].
        eexists. split; [reflexivity|]. unfold rm_ok. cbn [rm_removed rm_value rm_node rm_newkey elements]. split; [reflexivity|].
        split; [|auto]. rewrite keys_node. intro Hx. apply in_app_or in Hx. tauto.
Qed.

(** Tree.Remove on a whole tree. *)
Theorem t_remove_inv : forall o k,
  o_good o ->
  exists o' v b, t_remove o k = Some (o', v, b) /\ o_good o' /\
                 o_elements o' = sdel k (o_elements o) /\ v = sget (o_elements o) k.
Proof.
  intros [t|] k G; simpl.
  - destruct G as [HO HS]. destruct (remove_inv t k HO HS) as [res [E OK]]. rewrite E.
    unfold rm_ok in OK. destruct (rm_removed res).
    + destruct OK as [IN [VAL ND]]. eexists _, _, _. split; [reflexivity|].
      destruct (rm_node res) as [t'|].
      * destruct ND as [HO' [HS' [HE' _]]]. simpl. repeat split; auto.
      * destruct ND as [v0 [EL _]]. subst t. simpl in *. rewrite beq_refl in *. repeat split; auto.
    + destruct OK as [RN [NI [VAL NK]]]. eexists _, _, _. split; [reflexivity|].
      simpl. split; [auto|]. split; [symmetry; apply sdel_notin; exact NI|].
      symmetry. apply sget_notin. exact NI.
  - eexists _, _, _. split; [reflexivity|]. simpl. repeat split; auto.
Qed.
