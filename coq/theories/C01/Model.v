(** C01 — executable model of chain33's merkle-AVL state tree
    (system/store/mavl/db/node.go and the in-memory part of tree.go), transcribed
    function by function.  No proofs here.

    A tree is fully materialised: a Go [*Node] whose children are only known by
    hash (persisted, loaded on demand through [getLeftNode]/[getRightNode]) is
    the same value as the loaded sub-tree; the node database is in [Store.v].

    Leaves are recognised by constructor ([Leaf]); Go recognises them by
    [node.height == 0].  The two coincide whenever the stored heights are
    correct, which is an invariant ([sized], proved to be preserved).

    Go panics ([_copy] of a leaf inside a rotation, [getLeftNode] of a leaf,
    [getByIndex] with an invalid index) are the [None] results. *)
From Coq Require Import List ZArith NArith Bool.
From C33 Require Import C01.Keys.
Import ListNotations.
Open Scope Z_scope.

Inductive tree :=
| Leaf (k v : bytes)
| Node (key : bytes) (height size : Z) (l r : tree).

(** node.height / node.size / node.key *)
Definition height (t : tree) : Z := match t with Leaf _ _ => 0 | Node _ h _ _ _ => h end.
Definition size (t : tree) : Z := match t with Leaf _ _ => 1 | Node _ _ s _ _ => s end.
Definition nkey (t : tree) : bytes := match t with Leaf k _ => k | Node k _ _ _ _ => k end.

(** calcHeightAndSize: height = max(l.height, r.height) + 1, size = l.size + r.size.
    (On a leaf Go would panic in getLeftNode; never called on one.) *)
Definition calc_hs (t : tree) : tree :=
  match t with
  | Leaf _ _ => t
  | Node k _ _ l r => Node k (Z.max (height l) (height r) + 1) (size l + size r) l r
  end.

(** rotateRight: node' = copy(node); l' = copy(node.left);
    node'.left = l'.right; l'.right = node'; recompute node' then l'. *)
Definition rotate_right (t : tree) : option tree :=
  match t with
  | Node k h s (Node lk lh ls ll lr) r =>
      let n' := calc_hs (Node k h s lr r) in
      Some (calc_hs (Node lk lh ls ll n'))
  | _ => None
  end.

Definition rotate_left (t : tree) : option tree :=
  match t with
  | Node k h s l (Node rk rh rs rl rr) =>
      let n' := calc_hs (Node k h s l rl) in
      Some (calc_hs (Node rk rh rs n' rr))
  | _ => None
  end.

(** calcBalance = left.height - right.height (panics on a leaf). *)
Definition calc_balance (t : tree) : option Z :=
  match t with
  | Leaf _ _ => None
  | Node _ _ _ l r => Some (height l - height r)
  end.

(** balance with its four cases, as coded. *)
Definition balance (t : tree) : option tree :=
  match t with
  | Leaf _ _ => None
  | Node k h s l r =>
      let b := height l - height r in
      if b >? 1 then
        match calc_balance l with
        | None => None
        | Some bl =>
            if bl >=? 0 then rotate_right t                       (* left left *)
            else match rotate_left l with                         (* left right *)
                 | None => None
                 | Some l' => rotate_right (Node k h s l' r)       (* height/size of node not recomputed here *)
                 end
        end
      else if b <? -1 then
        match calc_balance r with
        | None => None
        | Some br =>
            if br <=? 0 then rotate_left t                        (* right right *)
            else match rotate_right r with                        (* right left *)
                 | None => None
                 | Some r' => rotate_left (Node k h s l r')
                 end
        end
      else Some t
  end.

(** node.set: returns (newSelf, updated). *)
Fixpoint set (t : tree) (k v : bytes) : option (tree * bool) :=
  match t with
  | Leaf lk lv =>
      match bcmp k lk with
      | Lt => Some (Node lk 1 2 (Leaf k v) t, false)
      | Eq => Some (Leaf k v, true)
      | Gt => Some (Node k 1 2 t (Leaf k v), false)
      end
  | Node nk h s l r =>
      if blt k nk then
        match set l k v with
        | None => None
        | Some (l', upd) =>
            if upd then Some (Node nk h s l' r, true)              (* no recompute, no balance *)
            else match balance (calc_hs (Node nk h s l' r)) with
                 | None => None
                 | Some t' => Some (t', false)
                 end
        end
      else
        match set r k v with
        | None => None
        | Some (r', upd) =>
            if upd then Some (Node nk h s l r', true)
            else match balance (calc_hs (Node nk h s l r')) with
                 | None => None
                 | Some t' => Some (t', false)
                 end
        end
  end.

(** node.get: (index, value-if-exists). *)
Fixpoint get (t : tree) (k : bytes) : Z * option bytes :=
  match t with
  | Leaf lk lv =>
      match bcmp lk k with
      | Eq => (0, Some lv)
      | Lt => (1, None)
      | Gt => (0, None)
      end
  | Node nk h s l r =>
      if blt k nk then get l k
      else let '(i, v) := get r k in (i + (s - size r), v)
  end.

(** node.has: an inner node whose key equals the wanted key answers true. *)
Fixpoint has (t : tree) (k : bytes) : bool :=
  if beq (nkey t) k then true else
  match t with
  | Leaf _ _ => false
  | Node nk _ _ l r => if blt k nk then has l k else has r k
  end.

(** node.getByIndex (None = "getByIndex asked for invalid index" panic). *)
Fixpoint get_by_index (t : tree) (i : Z) : option (bytes * bytes) :=
  match t with
  | Leaf k v => if i =? 0 then Some (k, v) else None
  | Node _ _ _ l r => if i <? size l then get_by_index l i else get_by_index r (i - size l)
  end.

(** node.remove.  Result of Go's (newHash/newNode, newKey, value, removed):
    [rm_node = None] stands for "newHash == nil && newNode == nil". *)
Record rm_result := mk_rm {
  rm_node : option tree;
  rm_newkey : option bytes;
  rm_value : option bytes;
  rm_removed : bool }.

Fixpoint remove (t : tree) (k : bytes) : option rm_result :=
  match t with
  | Leaf lk lv =>
      if beq k lk then Some (mk_rm None None (Some lv) true)
      else Some (mk_rm (Some t) None None false)
  | Node nk h s l r =>
      if blt k nk then
        match remove l k with
        | None => None
        | Some rl =>
            if negb (rm_removed rl) then Some (mk_rm (Some t) None (rm_value rl) false)
            else match rm_node rl with
                 | None => Some (mk_rm (Some r) (Some nk) (rm_value rl) true)
                 | Some l' =>
                     match balance (calc_hs (Node nk h s l' r)) with
                     | None => None
                     | Some t' => Some (mk_rm (Some t') (rm_newkey rl) (rm_value rl) true)
                     end
                 end
        end
      else
        match remove r k with
        | None => None
        | Some rr =>
            if negb (rm_removed rr) then Some (mk_rm (Some t) None (rm_value rr) false)
            else match rm_node rr with
                 | None => Some (mk_rm (Some l) None (rm_value rr) true)
                 | Some r' =>
                     let nk' := match rm_newkey rr with Some k' => k' | None => nk end in
                     match balance (calc_hs (Node nk' h s l r')) with
                     | None => None
                     | Some t' => Some (mk_rm (Some t') None (rm_value rr) true)
                     end
                 end
        end
  end.

(** node.traverseInRange with an arbitrary callback (which also sees inner
    nodes, like the Go one); [start]/[endk] = [None] is Go's nil.  Returns the
    callback state and the stop flag. *)
Section Traverse.
  Context {S : Type}.
  Variable cb : S -> tree -> S * bool.

  Definition after_start (start : option bytes) (t : tree) : bool :=
    match start with None => true | Some st => ble st (nkey t) end.

  Definition before_end (endk : option bytes) (incl : bool) (t : tree) : bool :=
    match endk with
    | None => true
    | Some e => if incl then ble (nkey t) e else blt (nkey t) e
    end.

  Fixpoint traverse_in_range (start endk : option bytes) (asc incl : bool) (t : tree) (s : S)
    : S * bool :=
    let a := after_start start t in
    let b := before_end endk incl t in
    let '(s1, stop) := if a && b then cb s t else (s, false) in
    if stop then (s1, true) else
    match t with
    | Leaf _ _ => (s1, false)
    | Node _ _ _ l r =>
        if asc then
          let '(s2, stop2) := if a then traverse_in_range start endk asc incl l s1 else (s1, false) in
          if stop2 then (s2, true) else
          if b then traverse_in_range start endk asc incl r s2 else (s2, false)
        else
          let '(s2, stop2) := if b then traverse_in_range start endk asc incl r s1 else (s1, false) in
          if stop2 then (s2, true) else
          if a then traverse_in_range start endk asc incl l s2 else (s2, false)
    end.
End Traverse.

(** Tree.IterateRange / IterateRangeInclusive: the user callback only sees leaves. *)
Definition leaf_cb {S} (fn : S -> bytes -> bytes -> S * bool) (s : S) (t : tree) : S * bool :=
  match t with
  | Leaf k v => fn s k v
  | Node _ _ _ _ _ => (s, false)
  end.

Definition iterate_range {S} (fn : S -> bytes -> bytes -> S * bool)
  (start endk : option bytes) (asc incl : bool) (t : tree) (s : S) : S * bool :=
  traverse_in_range (leaf_cb fn) start endk asc incl t s.

(** The callback used by the harness: collect, stop when [lim] items were seen. *)
Definition collect_fn (lim : option N) (s : list (bytes * bytes) * N) (k v : bytes)
  : (list (bytes * bytes) * N) * bool :=
  let '(acc, n) := s in
  let n' := (n + 1)%N in
  ((acc ++ [(k, v)], n'), match lim with Some m => (m <=? n')%N | None => false end).

Definition collect_range (lim : option N) (start endk : option bytes) (asc incl : bool) (t : tree)
  : list (bytes * bytes) * bool :=
  let '((acc, _), stopped) := iterate_range (collect_fn lim) start endk asc incl t ([], 0%N) in
  (acc, stopped).

(** In-order leaves (not a Go function; the abstraction used by the theorems
    and, in Check, by the shape comparison). *)
Fixpoint elements (t : tree) : list (bytes * bytes) :=
  match t with
  | Leaf k v => [(k, v)]
  | Node _ _ _ l r => elements l ++ elements r
  end.

(** ---- Tree level (tree.go): [None] is the empty tree (root == nil). ---- *)

Definition otree := option tree.

Definition t_size (o : otree) : Z := match o with None => 0 | Some t => size t end.
Definition t_height (o : otree) : Z := match o with None => 0 | Some t => height t end.
Definition t_has (o : otree) (k : bytes) : bool := match o with None => false | Some t => has t k end.
Definition t_get (o : otree) (k : bytes) : Z * option bytes :=
  match o with None => (0, None) | Some t => get t k end.

(** Tree.Set; outer [None] = Go panic. *)
Definition t_set (o : otree) (k v : bytes) : option (otree * bool) :=
  match o with
  | None => Some (Some (Leaf k v), false)
  | Some t => match set t k v with
              | None => None
              | Some (t', u) => Some (Some t', u)
              end
  end.

(** Tree.Remove: (new tree, value, removed). *)
Definition t_remove (o : otree) (k : bytes) : option (otree * option bytes * bool) :=
  match o with
  | None => Some (None, None, false)
  | Some t => match remove t k with
              | None => None
              | Some r => if rm_removed r then Some (rm_node r, rm_value r, true)
                          else Some (o, None, false)
              end
  end.

Definition t_collect_range (lim : option N) (start endk : option bytes) (asc incl : bool) (o : otree)
  : list (bytes * bytes) * bool :=
  match o with
  | None => ([], false)
  | Some t => collect_range lim start endk asc incl t
  end.

(** A batch of writes applied in order (the loop of SetKVPair). *)
Fixpoint t_set_all (o : otree) (kvs : list (bytes * bytes)) : option otree :=
  match kvs with
  | [] => Some o
  | (k, v) :: tl => match t_set o k v with
                    | None => None
                    | Some (o', _) => t_set_all o' tl
                    end
  end.
