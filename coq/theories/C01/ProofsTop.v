(** C01 — proofs, part 5: the specification side (the state is a strictly
    sorted map whose lookup is "last write wins") and the versioned-map theorem
    with point reads and range reads. *)
From Coq Require Import List ZArith NArith Lia Bool Sorted.
From C33 Require Import C01.Keys C01.KeysFacts C01.Model C01.Store C01.Spec C01.Inv
  C01.Proofs C01.ProofsStore C01.ProofsRange.
Import ListNotations.
Open Scope Z_scope.

(** ** the spec map is strictly sorted by key *)

Definition klt (a b : bytes * bytes) : Prop := blt (fst a) (fst b) = true.
Definition ksorted (m : smap) : Prop := StronglySorted klt m.

Lemma in_ins_pair : forall k v m x, In x (ins k v m) -> x = (k, v) \/ In x m.
Proof.
  intros k v m x. induction m as [|[k' v'] m IH]; simpl.
  - intuition.
  - destruct (bcmp k k'); simpl; intuition.
Qed.

Lemma ins_sorted : forall k v m, ksorted m -> ksorted (ins k v m).
Proof.
  intros k v m. induction m as [|[k' v'] m IH]; intros HS; simpl.
  - constructor; constructor.
  - inversion HS as [|x l HS' HF]; subst.
    destruct (bcmp k k') eqn:C.
    + apply bcmp_eq in C. subst k'. constructor; [exact HS'|exact HF].
    + constructor; [exact HS|]. constructor.
      * apply blt_iff. exact C.
      * eapply Forall_impl; [|exact HF]. intros a Ha. unfold klt in *. simpl in *.
        apply (blt_trans k k' (fst a)); [apply blt_iff; exact C|exact Ha].
    + constructor; [apply IH; exact HS'|].
      apply Forall_forall. intros x Hx. apply in_ins_pair in Hx. destruct Hx as [Hx|Hx].
      * subst x. unfold klt. simpl. apply blt_iff. apply bcmp_lt_gt. exact C.
      * rewrite Forall_forall in HF. apply HF. exact Hx.
Qed.

Lemma apply_writes_sorted : forall b m, ksorted m -> ksorted (apply_writes m b).
Proof.
  unfold apply_writes. induction b as [|[k v] b IH]; intros m HS; simpl; [exact HS|].
  apply IH. apply ins_sorted. exact HS.
Qed.

Theorem state_sorted : forall bs, ksorted (state bs).
Proof.
  intros bs. unfold state.
  assert (G : forall bs m, ksorted m -> ksorted (fold_left apply_writes bs m)).
  { induction bs0 as [|b bs0 IH]; intros m HS; simpl; [exact HS|].
    apply IH. apply apply_writes_sorted. exact HS. }
  apply G. constructor.
Qed.

(** ** lookup in the state = the most recent write *)

Definition last_write (ws : list (bytes * bytes)) (k : bytes) (init : option bytes) : option bytes :=
  fold_left (fun acc kv => if beq (fst kv) k then Some (snd kv) else acc) ws init.

Lemma sget_apply_writes : forall b m k,
  sget (apply_writes m b) k = last_write b k (sget m k).
Proof.
  unfold apply_writes, last_write. induction b as [|[k0 v0] b IH]; intros m k; simpl; [reflexivity|].
  rewrite IH. rewrite sget_ins. reflexivity.
Qed.

Theorem state_last_write : forall bs k, sget (state bs) k = last_write (concat bs) k None.
Proof.
  intros bs k. unfold state.
  assert (G : forall bs m, sget (fold_left apply_writes bs m) k = last_write (concat bs) k (sget m k)).
  { induction bs0 as [|b bs0 IH]; intros m; simpl; [reflexivity|].
    rewrite IH. rewrite sget_apply_writes. unfold last_write. rewrite fold_left_app. reflexivity. }
  apply G.
Qed.

(** ** the versioned map *)

Theorem versioned_map : forall bs i j, (i <= j)%nat ->
  exists di ri dj rj,
    history (firstn i bs) = Some (di, ri) /\
    history (firstn j bs) = Some (dj, rj) /\
    (forall k, get_at dj ri k = Some (sget (state (firstn i bs)) k)) /\
    (forall lim start endk asc incl,
        range_at dj ri lim start endk asc incl =
        Some (srange_lim lim (state (firstn i bs)) start endk asc incl)).
Proof.
  intros bs i j Hij.
  destruct (history_versions bs i j Hij) as [di [dj [oi [oj [Ei [Ej [Gi [STi HEi]]]]]]]].
  exists di, (tree_root oi), dj, (tree_root oj). split; [exact Ei|]. split; [exact Ej|]. split.
  - intros k. unfold get_at. rewrite (load_tree_stored dj oi STi Gi).
    rewrite (t_get_elements oi k Gi), HEi. reflexivity.
  - intros lim start endk asc incl. unfold range_at. rewrite (load_tree_stored dj oi STi Gi).
    f_equal. rewrite <- HEi. destruct oi as [t|]; simpl.
    + destruct Gi as [HO _]. apply collect_range_spec. exact HO.
    + unfold srange_lim, srange. destruct asc; simpl;
        (destruct lim as [n|]; [|reflexivity]);
        (destruct (N.ltb_spec 0 (N.max n 1)); [reflexivity|lia]).
Qed.
