(** C01 — property theorems only. *)
From Coq Require Import List ZArith NArith Bool.
From C33 Require Import Lib.Harness C01.Keys C01.Model C01.Store C01.Spec C01.Inv
  C01.Proofs C01.ProofsStore C01.ProofsAvl C01.ProofsRange C01.ProofsTop C01.ProofsReads
  C01.ProofsRemove C01.ProofsOps.
Import ListNotations.
Open Scope Z_scope.

(** [set] on an ordered tree with correct stored heights/sizes never panics,
    keeps both invariants, acts on the in-order leaves as insertion into the
    sorted association list, and an update leaves height and size alone. *)
Theorem C01_set_preserves_order : forall t k v,
  ordered t -> sized t ->
  exists t' u, set t k v = Some (t', u) /\ ordered t' /\ sized t' /\
               elements t' = ins k v (elements t) /\
               (u = true -> height t' = height t /\ size t' = size t).
Proof. exact set_inv. Qed.
Print Assumptions C01_set_preserves_order.

(** AVL balance (|left height - right height| <= 1 everywhere) is preserved. *)
Theorem C01_set_preserves_avl : forall t k v t' u,
  ordered t -> sized t -> balanced t -> set t k v = Some (t', u) ->
  balanced t' /\ height t <= height t' <= height t + 1 /\ (u = true -> height t' = height t).
Proof. exact set_balanced. Qed.
Print Assumptions C01_set_preserves_avl.

Theorem C01_get_set : forall t k v t' u k',
  ordered t -> sized t -> set t k v = Some (t', u) ->
  snd (get t' k') = if beq k k' then Some v else snd (get t k').
Proof. exact get_set. Qed.
Print Assumptions C01_get_set.

Theorem C01_get_is_lookup : forall t k, ordered t -> snd (get t k) = sget (elements t) k.
Proof. exact get_elements. Qed.
Print Assumptions C01_get_is_lookup.

(** [has], the index returned by [get], and [getByIndex] against the in-order leaves. *)
Theorem C01_has : forall t k, ordered t -> (has t k = true <-> In k (keys t)).
Proof. exact has_spec. Qed.
Print Assumptions C01_has.

Theorem C01_get_index : forall t k,
  ordered t -> sized t -> fst (get t k) = Z.of_nat (rank k (keys t)).
Proof. exact get_index. Qed.
Print Assumptions C01_get_index.

Theorem C01_get_by_index : forall t i, sized t ->
  get_by_index t i =
  if (0 <=? i) && (i <? size t) then nth_error (elements t) (Z.to_nat i) else None.
Proof. exact get_by_index_spec. Qed.
Print Assumptions C01_get_by_index.

(** [remove] (not on the block path; DelKVPair is exported): never panics, keeps
    order (incl. the newKey re-keying) and sizes, deletes exactly the key, returns
    its value; and keeps the AVL balance. *)
Theorem C01_remove_preserves_order : forall t k,
  ordered t -> sized t -> exists res, remove t k = Some res /\ rm_ok t k res.
Proof. exact remove_inv. Qed.
Print Assumptions C01_remove_preserves_order.

Theorem C01_tree_remove : forall o k,
  o_good o ->
  exists o' v b, t_remove o k = Some (o', v, b) /\ o_good o' /\
                 o_elements o' = sdel k (o_elements o) /\ v = sget (o_elements o) k.
Proof. exact t_remove_inv. Qed.
Print Assumptions C01_tree_remove.

Theorem C01_remove_preserves_avl : forall t k res,
  ordered t -> sized t -> balanced t -> remove t k = Some res ->
  match rm_node res with
  | Some t' => balanced t' /\ height t - 1 <= height t' <= height t
  | None => True
  end.
Proof. exact remove_balanced. Qed.
Print Assumptions C01_remove_preserves_avl.

(** traverseInRange with any leaf callback = feeding it the in-range leaves in
    the requested order until it asks to stop. *)
Theorem C01_traverse_range : forall (S : Type) (fn : S -> bytes -> bytes -> S * bool)
  t start endk asc incl s,
  ordered t ->
  traverse_in_range (leaf_cb fn) start endk asc incl t s =
  fold_stop fn (srange (elements t) start endk asc incl) s.
Proof. exact @traverse_spec. Qed.
Print Assumptions C01_traverse_range.

Theorem C01_iterate_range : forall t lim start endk asc incl,
  ordered t ->
  collect_range lim start endk asc incl t = srange_lim lim (elements t) start endk asc incl.
Proof. exact collect_range_spec. Qed.
Print Assumptions C01_iterate_range.

(** On keyed trees the symbolic root hash identifies the tree (the inner key is
    not hashed but is determined by the right sub-tree). *)
Theorem C01_root_identifies_tree : forall t1 t2, keyed t1 -> keyed t2 -> thash t1 = thash t2 -> t1 = t2.
Proof. exact thash_inj. Qed.
Print Assumptions C01_root_identifies_tree.

(** Saving only adds bindings; existing hashes keep their content. *)
Theorem C01_save_monotone : forall t d,
  db_wf d -> keyed t ->
  db_wf (save d t) /\ stored (save d t) t /\ db_extends d (save d t).
Proof. exact save_spec. Qed.
Print Assumptions C01_save_monotone.

Theorem C01_load_save : forall t d,
  db_wf d -> ordered t -> sized t -> load_root (save d t) (thash t) = Some t.
Proof. exact load_save. Qed.
Print Assumptions C01_load_save.

(** The specification side: the state is strictly sorted by key and its lookup
    is the most recent write. *)
Theorem C01_state_sorted : forall bs, ksorted (state bs).
Proof. exact state_sorted. Qed.
Print Assumptions C01_state_sorted.

Theorem C01_state_last_write : forall bs k, sget (state bs) k = last_write (concat bs) k None.
Proof. exact state_last_write. Qed.
Print Assumptions C01_state_last_write.

(** Top theorem: for every history of batches and every i <= j, reading any key
    or any range at the root committed by batch i, from the database as it is
    after batch j, gives the specification's state after batch i.  (Closing and
    reopening the store is the identity on the database value.) *)
Theorem C01_versioned_map : forall bs i j, (i <= j)%nat ->
  exists di ri dj rj,
    history (firstn i bs) = Some (di, ri) /\
    history (firstn j bs) = Some (dj, rj) /\
    (forall k, get_at dj ri k = Some (sget (state (firstn i bs)) k)) /\
    (forall lim start endk asc incl,
        range_at dj ri lim start endk asc incl =
        Some (srange_lim lim (state (firstn i bs)) start endk asc incl)).
Proof. exact versioned_map. Qed.
Print Assumptions C01_versioned_map.

(** The same for histories that mix write batches and DelKVPair batches. *)
Theorem C01_versioned_map_ops : forall ops i j, (i <= j)%nat ->
  exists di ri dj rj,
    history_ops (firstn i ops) = Some (di, ri) /\
    history_ops (firstn j ops) = Some (dj, rj) /\
    (forall k, get_at dj ri k = Some (sget (state_ops (firstn i ops)) k)) /\
    (forall lim start endk asc incl,
        range_at dj ri lim start endk asc incl =
        Some (srange_lim lim (state_ops (firstn i ops)) start endk asc incl)).
Proof. exact versioned_map_ops. Qed.
Print Assumptions C01_versioned_map_ops.

Theorem C01_state_ops_sorted : forall ops, ksorted (state_ops ops).
Proof. exact state_ops_sorted. Qed.
Print Assumptions C01_state_ops_sorted.

(** Non-vacuity. *)
From Coq Require Strings.String.
Import Coq.Strings.String.StringSyntax.
Local Open Scope string_scope.
Definition ex_tree : tree :=
  Node (bs "b") 2 3 (Leaf (bs "a") (bs "1"))
       (Node (bs "c") 1 2 (Leaf (bs "b") (bs "2")) (Leaf (bs "c") (bs "3"))).

Example C01_ex_tree_invariants : ordered ex_tree /\ sized ex_tree /\ balanced ex_tree.
Proof.
  unfold ex_tree. split; [|split].
  - simpl. repeat split; auto;
      intros x Hx; repeat (destruct Hx as [Hx|Hx]; [subst x; reflexivity|]); destruct Hx.
  - simpl. repeat split; auto.
  - simpl. repeat split; auto; discriminate.
Qed.

Example C01_ex_set_rotates :
  option_map (fun p => (height (fst p), size (fst p), snd p)) (set ex_tree (bs "d") (bs "4"))
  = Some (2, 4, false).
Proof. vm_compute. reflexivity. Qed.

Example C01_ex_remove_rekeys :
  option_map (fun r => (option_map nkey (rm_node r), rm_value r)) (remove ex_tree (bs "b"))
  = Some (Some (bs "c"), Some (bs "2")).
Proof. vm_compute. reflexivity. Qed.

Definition ex_history : list batch :=
  [ [(bs "k1", bs "v1"); (bs "k2", bs "v2"); (bs "", bs "e")];
    [(bs "k1", bs "w1"); (bs "k0", bs "v0")];
    [(bs "k2", bs "x2")] ].

Example C01_ex_ops_reads :
  let ops := [OSet [(bs "a", bs "1"); (bs "b", bs "2"); (bs "c", bs "3")]; ODel [bs "b"]; OSet [(bs "b", bs "9")]] in
  match history_ops ops, history_ops (firstn 2 ops), history_ops (firstn 1 ops) with
  | Some (d3, r3), Some (_, r2), Some (_, r1) =>
      get_at d3 r1 (bs "b") = Some (Some (bs "2")) /\
      get_at d3 r2 (bs "b") = Some None /\
      get_at d3 r3 (bs "b") = Some (Some (bs "9"))
  | _, _, _ => False
  end.
Proof. vm_compute. repeat split; reflexivity. Qed.

Example C01_ex_history_reads :
  match history ex_history, history (firstn 1 ex_history) with
  | Some (d3, _), Some (_, r1) =>
      get_at d3 r1 (bs "k1") = Some (Some (bs "v1")) /\
      get_at d3 r1 (bs "k0") = Some None /\
      range_at d3 r1 None (Some (bs "k1")) None true false
        = Some ([(bs "k1", bs "v1"); (bs "k2", bs "v2")], false)
  | _, _ => False
  end.
Proof. vm_compute. repeat split; reflexivity. Qed.
