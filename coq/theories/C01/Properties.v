(** C01 — property theorems only. *)
From Coq Require Import List ZArith.
From C33 Require Import C01.Keys C01.Model C01.Store C01.Spec C01.Proofs.

Theorem C01_rotate_right_elements : forall t t', rotate_right t = Some t' -> elements t' = elements t.
Proof. exact rotate_right_elements. Qed.
Print Assumptions C01_rotate_right_elements.
