(** C01 — proofs, part 1: rotations and balance preserve the in-order leaves. *)
From Coq Require Import List ZArith NArith Lia Bool.
From C33 Require Import C01.Keys C01.KeysFacts C01.Model.
Import ListNotations.
Open Scope Z_scope.

Lemma calc_hs_elements : forall t, elements (calc_hs t) = elements t.
Proof. destruct t; reflexivity. Qed.

Lemma rotate_right_elements : forall t t', rotate_right t = Some t' -> elements t' = elements t.
Proof.
  intros t t' H. destruct t as [|k h s l r]; [discriminate|].
  destruct l as [|lk lh ls ll lr]; [discriminate|].
  simpl in H. inversion H; subst; clear H. simpl. rewrite app_assoc. reflexivity.
Qed.

Lemma rotate_left_elements : forall t t', rotate_left t = Some t' -> elements t' = elements t.
Proof.
  intros t t' H. destruct t as [|k h s l r]; [discriminate|].
  destruct r as [|rk rh rs rl rr]; [discriminate|].
  simpl in H. inversion H; subst; clear H. simpl. rewrite app_assoc. reflexivity.
Qed.
