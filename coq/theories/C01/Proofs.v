(** C01 — proofs, part 1: the tree (node.go).
    [set] keeps the search-tree order and the stored heights/sizes, never
    panics, and acts on the in-order leaves as insertion into a sorted
    association list; [get] is lookup in the in-order leaves. *)
From Coq Require Import List ZArith NArith Lia Bool.
From C33 Require Import C01.Keys C01.KeysFacts C01.Model C01.Store C01.Spec C01.Inv.
Import ListNotations.
Open Scope Z_scope.

(** ** association lists *)

Lemma ins_app_l : forall k v a b,
  (forall x, In x (map fst b) -> blt k x = true) -> ins k v (a ++ b) = ins k v a ++ b.
Proof.
  intros k v a b Hb. induction a as [|[k' v'] a IH]; simpl.
  - destruct b as [|[k' v'] b]; [reflexivity|]. simpl.
    assert (H : blt k k' = true) by (apply Hb; simpl; auto).
    apply blt_iff in H. rewrite H. reflexivity.
  - destruct (bcmp k k'); simpl; try reflexivity. rewrite IH. reflexivity.
Qed.

Lemma ins_app_r : forall k v a b,
  (forall x, In x (map fst a) -> blt x k = true) -> ins k v (a ++ b) = a ++ ins k v b.
Proof.
  intros k v a b. induction a as [|[k' v'] a IH]; intros Ha; simpl; [reflexivity|].
  assert (H : blt k' k = true) by (apply Ha; simpl; auto).
  apply blt_iff in H. apply bcmp_lt_gt in H. rewrite H. f_equal. apply IH.
  intros x Hx. apply Ha. simpl; auto.
Qed.

Lemma in_ins : forall k v m x, In x (map fst (ins k v m)) <-> x = k \/ In x (map fst m).
Proof.
  intros k v m x. induction m as [|[k' v'] m IH]; simpl.
  - intuition.
  - destruct (bcmp k k') eqn:E; simpl.
    + apply bcmp_eq in E. subst. intuition.
    + intuition.
    + rewrite IH. intuition.
Qed.

Lemma sget_app : forall a b k,
  sget (a ++ b) k = match sget a k with Some v => Some v | None => sget b k end.
Proof.
  intros a b k. induction a as [|[k' v'] a IH]; simpl; [reflexivity|].
  destruct (beq k k'); [reflexivity|exact IH].
Qed.

Lemma sget_notin : forall m k, ~ In k (map fst m) -> sget m k = None.
Proof.
  induction m as [|[k' v'] m IH]; intros k H; simpl; [reflexivity|].
  destruct (beq k k') eqn:E.
  - apply beq_iff in E. subst. exfalso. apply H. simpl; auto.
  - apply IH. intro. apply H. simpl; auto.
Qed.

Lemma sget_ins : forall m k v k',
  sget (ins k v m) k' = if beq k k' then Some v else sget m k'.
Proof.
  induction m as [|[k0 v0] m IH]; intros k v k'; simpl.
  - destruct (beq k' k) eqn:E; destruct (beq k k') eqn:E2; try reflexivity.
    + apply beq_iff in E. subst. rewrite beq_refl in E2. discriminate.
    + apply beq_iff in E2. subst. rewrite beq_refl in E. discriminate.
  - assert (SYM : beq k' k = beq k k').
    { destruct (beq k' k) eqn:E; destruct (beq k k') eqn:E2; try reflexivity.
      - apply beq_iff in E. subst. rewrite beq_refl in E2. discriminate.
      - apply beq_iff in E2. subst. rewrite beq_refl in E. discriminate. }
    destruct (bcmp k k0) eqn:E; simpl.
    + apply bcmp_eq in E. subst k0. rewrite SYM. destruct (beq k k'); reflexivity.
    + rewrite SYM. reflexivity.
    + rewrite IH. destruct (beq k k') eqn:E2; [|reflexivity].
      apply beq_iff in E2. subst k'.
      destruct (beq k k0) eqn:E3; [|reflexivity].
      apply beq_iff in E3. subst k0. rewrite bcmp_refl in E. discriminate.
Qed.

(** ** basic tree facts *)

Lemma keys_node : forall k h s l r, keys (Node k h s l r) = keys l ++ keys r.
Proof. intros. unfold keys. simpl. apply map_app. Qed.

Lemma elements_hd : forall t, exists v rest, elements t = (leftmost t, v) :: rest.
Proof.
  induction t as [k v|k h s l [vl [restl IHl]] r _]; simpl.
  - eauto.
  - rewrite IHl. simpl. eauto.
Qed.

Lemma leftmost_in : forall t, In (leftmost t) (keys t).
Proof.
  intros t. destruct (elements_hd t) as [v [rest H]]. unfold keys. rewrite H. simpl; auto.
Qed.

Lemma ordered_keyed : forall t, ordered t -> keyed t.
Proof. induction t; simpl; intuition. Qed.

Lemma sized_height_nonneg : forall t, sized t -> 0 <= height t.
Proof.
  induction t as [|k h s l IHl r IHr]; simpl; [lia|].
  intros [Hl [Hr [Hh Hs]]]. specialize (IHl Hl). specialize (IHr Hr). lia.
Qed.

Lemma sized_size_pos : forall t, sized t -> 1 <= size t.
Proof.
  induction t as [|k h s l IHl r IHr]; simpl; [lia|].
  intros [Hl [Hr [Hh Hs]]]. specialize (IHl Hl). specialize (IHr Hr). lia.
Qed.

Lemma sized_node_height_pos : forall k h s l r, sized (Node k h s l r) -> 1 <= h.
Proof.
  intros k h s l r [Hl [Hr [Hh _]]].
  pose proof (sized_height_nonneg l Hl). pose proof (sized_height_nonneg r Hr). lia.
Qed.

Lemma calc_hs_elements : forall t, elements (calc_hs t) = elements t.
Proof. destruct t; reflexivity. Qed.

(** ** rotations *)

Lemma rotate_right_inv : forall k h s lk lh ls ll lr r,
  ordered (Node k h s (Node lk lh ls ll lr) r) ->
  sized (Node lk lh ls ll lr) -> sized r ->
  let t' := calc_hs (Node lk lh ls ll (calc_hs (Node k h s lr r))) in
  rotate_right (Node k h s (Node lk lh ls ll lr) r) = Some t' /\
  ordered t' /\ sized t' /\ elements t' = elements (Node k h s (Node lk lh ls ll lr) r).
Proof.
  intros k h s lk lh ls ll lr r HO HSl HSr. simpl.
  destruct HO as [[HOll [HOlr [Hll [Hlr Hlk]]]] [HOr [Hl [Hr Hk]]]].
  destruct HSl as [HSll [HSlr _]].
  rewrite keys_node in Hl.
  assert (Hlkk : blt lk k = true).
  { apply Hl. apply in_or_app. right. rewrite Hlk. apply leftmost_in. }
  split; [reflexivity|]. split; [|split].
  - repeat split; auto.
    + intros x Hx. apply Hl. apply in_or_app. auto.
    + intros x Hx. rewrite keys_node in Hx. apply in_app_or in Hx. destruct Hx as [Hx|Hx]; auto.
      destruct (blt x lk) eqn:E; [|reflexivity].
      pose proof (blt_trans x lk k E Hlkk) as C. rewrite (Hr x Hx) in C. discriminate.
  - repeat split; auto.
  - rewrite app_assoc. reflexivity.
Qed.

Lemma rotate_left_inv : forall k h s l rk rh rs rl rr,
  ordered (Node k h s l (Node rk rh rs rl rr)) ->
  sized l -> sized (Node rk rh rs rl rr) ->
  let t' := calc_hs (Node rk rh rs (calc_hs (Node k h s l rl)) rr) in
  rotate_left (Node k h s l (Node rk rh rs rl rr)) = Some t' /\
  ordered t' /\ sized t' /\ elements t' = elements (Node k h s l (Node rk rh rs rl rr)).
Proof.
  intros k h s l rk rh rs rl rr HO HSl HSr. simpl.
  destruct HO as [HOl [[HOrl [HOrr [Hrl [Hrr Hrk]]]] [Hl [Hr Hk]]]].
  destruct HSr as [HSrl [HSrr _]].
  rewrite keys_node in Hr. simpl in Hk.
  split; [reflexivity|]. split; [|split].
  - repeat split; auto.
    + intros x Hx. apply Hr. apply in_or_app. auto.
    + intros x Hx. rewrite keys_node in Hx. apply in_app_or in Hx. destruct Hx as [Hx|Hx]; auto.
      (* x in l: x < k <= rk-side; k = leftmost rl < rk *)
      assert (Hkrk : blt k rk = true).
      { apply Hrl. rewrite Hk. apply leftmost_in. }
      apply (blt_trans x k rk); auto.
  - repeat split; auto.
  - rewrite <- app_assoc. reflexivity.
Qed.

(** ** balance *)

Lemma ordered_same_elements_l : forall k h s l l' r h' s',
  ordered (Node k h s l r) -> ordered l' -> elements l' = elements l ->
  ordered (Node k h' s' l' r).
Proof.
  intros k h s l l' r h' s' [HOl [HOr [Hl [Hr Hk]]]] HOl' HE. simpl.
  repeat split; auto. unfold keys. rewrite HE. exact Hl.
Qed.

Lemma ordered_same_elements_r : forall k h s l r r' h' s',
  ordered (Node k h s l r) -> ordered r' -> elements r' = elements r -> leftmost r' = leftmost r ->
  ordered (Node k h' s' l r').
Proof.
  intros k h s l r r' h' s' [HOl [HOr [Hl [Hr Hk]]]] HOr' HE HL. simpl.
  repeat split; auto.
  - unfold keys. rewrite HE. exact Hr.
  - congruence.
Qed.

Lemma leftmost_of_elements : forall t t', elements t' = elements t -> leftmost t' = leftmost t.
Proof.
  intros t t' H. destruct (elements_hd t) as [v [rest E]]. destruct (elements_hd t') as [v' [rest' E']].
  rewrite E, E' in H. congruence.
Qed.

Lemma balance_inv : forall k h s l r,
  ordered (Node k h s l r) -> sized (Node k h s l r) ->
  exists t', balance (Node k h s l r) = Some t' /\ ordered t' /\ sized t' /\
             elements t' = elements (Node k h s l r).
Proof.
  intros k h s l r HO HS.
  pose proof HS as [HSl [HSr _]].
  pose proof (sized_height_nonneg l HSl) as Hhl. pose proof (sized_height_nonneg r HSr) as Hhr.
  unfold balance.
  destruct (height l - height r >? 1) eqn:B1.
  - apply Z.gtb_lt in B1.
    destruct l as [lk0 lv0|lk lh ls ll lr]; [simpl in B1; lia|].
    cbn [calc_balance].
    destruct (height ll - height lr >=? 0) eqn:B2.
    + destruct (rotate_right_inv k h s lk lh ls ll lr r HO HSl HSr) as [E R]. eauto.
    + assert (B2' : height ll - height lr < 0) by (destruct (Z.geb_spec (height ll - height lr) 0); [discriminate|lia]).
      pose proof HSl as [HSll [HSlr _]].
      pose proof (sized_height_nonneg ll HSll).
      destruct lr as [lrk0 lrv0|lrk lrh lrs lrl lrr]; [simpl in B2'; lia|].
      pose proof HO as [HOl _].
      destruct (rotate_left_inv lk lh ls ll lrk lrh lrs lrl lrr HOl HSll HSlr) as [E [HO' [HS' HE']]].
      rewrite E.
      set (n' := calc_hs (Node lk lh ls ll lrl)) in *.
      assert (HO2 : ordered (Node k h s (calc_hs (Node lrk lrh lrs n' lrr)) r)).
      { eapply ordered_same_elements_l; eauto. }
      cbn [calc_hs] in *.
      match goal with |- context [rotate_right (Node k h s (Node ?a ?b ?c ?d ?e) r)] =>
        destruct (rotate_right_inv k h s a b c d e r HO2 HS' HSr) as [E2 [HO3 [HS3 HE3]]] end.
      eexists. split; [exact E2|]. split; [exact HO3|]. split; [exact HS3|].
      rewrite HE3. cbn [elements] in *. rewrite HE'. reflexivity.
  - destruct (height l - height r <? -1) eqn:B3.
    + apply Z.ltb_lt in B3.
      destruct r as [rk0 rv0|rk rh rs rl rr]; [simpl in B3; lia|].
      cbn [calc_balance].
      destruct (height rl - height rr <=? 0) eqn:B4.
      * destruct (rotate_left_inv k h s l rk rh rs rl rr HO HSl HSr) as [E R]. eauto.
      * assert (B4' : height rl - height rr > 0) by (destruct (Z.leb_spec (height rl - height rr) 0); [discriminate|lia]).
        pose proof HSr as [HSrl [HSrr _]].
        pose proof (sized_height_nonneg rr HSrr).
        destruct rl as [rlk0 rlv0|rlk rlh rls rll rlr]; [simpl in B4'; lia|].
        pose proof HO as [_ [HOr _]].
        destruct (rotate_right_inv rk rh rs rlk rlh rls rll rlr rr HOr HSrl HSrr) as [E [HO' [HS' HE']]].
        rewrite E.
        set (n' := calc_hs (Node rk rh rs rlr rr)) in *.
        assert (HO2 : ordered (Node k h s l (calc_hs (Node rlk rlh rls rll n')))).
        { eapply ordered_same_elements_r; [exact HO|exact HO'|exact HE'|reflexivity]. }
        cbn [calc_hs] in *.
        match goal with |- context [rotate_left (Node k h s l (Node ?a ?b ?c ?d ?e))] =>
          destruct (rotate_left_inv k h s l a b c d e HO2 HSl HS') as [E2 [HO3 [HS3 HE3]]] end.
        eexists. split; [exact E2|]. split; [exact HO3|]. split; [exact HS3|].
        rewrite HE3. cbn [elements] in *. rewrite HE'. reflexivity.
    + eexists. split; [reflexivity|]. auto.
Qed.

(** ** set *)

Lemma leftmost_after_ins : forall r r' k v,
  elements r' = ins k v (elements r) -> blt k (leftmost r) = false -> leftmost r' = leftmost r.
Proof.
  intros r r' k v HE HB.
  destruct (elements_hd r) as [v0 [rest E]]. destruct (elements_hd r') as [v1 [rest' E']].
  rewrite E in HE. rewrite E' in HE. simpl in HE.
  destruct (bcmp k (leftmost r)) eqn:C.
  - apply bcmp_eq in C. inversion HE. congruence.
  - apply blt_iff in C. congruence.
  - inversion HE. reflexivity.
Qed.

Lemma set_inv : forall t k v,
  ordered t -> sized t ->
  exists t' u, set t k v = Some (t', u) /\ ordered t' /\ sized t' /\
               elements t' = ins k v (elements t) /\
               (u = true -> height t' = height t /\ size t' = size t).
Proof.
  induction t as [lk lv|nk h s l IHl r IHr]; intros k v HO HS.
  - cbn [set elements ins].
    destruct (bcmp k lk) eqn:C.
    + apply bcmp_eq in C. subst lk. exists (Leaf k v), true. simpl. repeat split; auto.
    + exists (Node lk 1 2 (Leaf k v) (Leaf lk lv)), false. split; [reflexivity|].
      split; [|split; [|split]].
      * simpl. repeat split; auto.
        -- intros x [Hx|[]]. subst x. apply blt_iff. exact C.
        -- intros x [Hx|[]]. subst x. apply blt_irrefl.
      * simpl. repeat split; auto.
      * reflexivity.
      * discriminate.
    + exists (Node k 1 2 (Leaf lk lv) (Leaf k v)), false. split; [reflexivity|].
      split; [|split; [|split]].
      * simpl. repeat split; auto.
        -- intros x [Hx|[]]. subst x. apply blt_iff. apply bcmp_lt_gt. exact C.
        -- intros x [Hx|[]]. subst x. apply blt_irrefl.
      * simpl. repeat split; auto.
      * reflexivity.
      * discriminate.
  - pose proof HO as [HOl [HOr [Hl [Hr Hk]]]]. pose proof HS as [HSl [HSr [Hh Hs]]].
    cbn [set].
    destruct (blt k nk) eqn:B.
    + destruct (IHl k v HOl HSl) as [l' [u [E [HOl' [HSl' [HEl' Hu]]]]]]. rewrite E.
      assert (HKl' : forall x, In x (keys l') -> blt x nk = true).
      { intros x Hx. unfold keys in Hx. rewrite HEl' in Hx. apply in_ins in Hx.
        destruct Hx as [Hx|Hx]; [subst x; exact B|apply Hl; exact Hx]. }
      assert (HEt : elements l' ++ elements r = ins k v (elements l ++ elements r)).
      { rewrite HEl'. symmetry. apply ins_app_l. intros x Hx.
        apply (blt_le_trans k nk x); [exact B|apply Hr; exact Hx]. }
      destruct u.
      * destruct (Hu eq_refl) as [Hh' Hs'].
        exists (Node nk h s l' r), true. split; [reflexivity|].
        split; [|split; [|split]].
        -- simpl. repeat split; auto.
        -- simpl. repeat split; auto; congruence.
        -- exact HEt.
        -- intros _. split; reflexivity.
      * assert (HO2 : ordered (calc_hs (Node nk h s l' r))) by (simpl; repeat split; auto).
        assert (HS2 : sized (calc_hs (Node nk h s l' r))) by (simpl; repeat split; auto).
        cbn [calc_hs] in *.
        destruct (balance_inv _ _ _ _ _ HO2 HS2) as [t' [E2 [HO3 [HS3 HE3]]]].
        rewrite E2. exists t', false. split; [reflexivity|].
        split; [exact HO3|]. split; [exact HS3|]. split; [|discriminate].
        rewrite HE3. exact HEt.
    + destruct (IHr k v HOr HSr) as [r' [u [E [HOr' [HSr' [HEr' Hu]]]]]]. rewrite E.
      assert (HKr' : forall x, In x (keys r') -> blt x nk = false).
      { intros x Hx. unfold keys in Hx. rewrite HEr' in Hx. apply in_ins in Hx.
        destruct Hx as [Hx|Hx]; [subst x; exact B|apply Hr; exact Hx]. }
      assert (HLr' : nk = leftmost r').
      { rewrite Hk. symmetry. eapply leftmost_after_ins; [exact HEr'|]. rewrite <- Hk. exact B. }
      assert (HEt : elements l ++ elements r' = ins k v (elements l ++ elements r)).
      { rewrite HEr'. symmetry. apply ins_app_r. intros x Hx.
        apply (blt_le_trans x nk k); [apply Hl; exact Hx|exact B]. }
      destruct u.
      * destruct (Hu eq_refl) as [Hh' Hs'].
        exists (Node nk h s l r'), true. split; [reflexivity|].
        split; [|split; [|split]].
        -- simpl. repeat split; auto.
        -- simpl. repeat split; auto; congruence.
        -- exact HEt.
        -- intros _. split; reflexivity.
      * assert (HO2 : ordered (calc_hs (Node nk h s l r'))) by (simpl; repeat split; auto).
        assert (HS2 : sized (calc_hs (Node nk h s l r'))) by (simpl; repeat split; auto).
        cbn [calc_hs] in *.
        destruct (balance_inv _ _ _ _ _ HO2 HS2) as [t' [E2 [HO3 [HS3 HE3]]]].
        rewrite E2. exists t', false. split; [reflexivity|].
        split; [exact HO3|]. split; [exact HS3|]. split; [|discriminate].
        rewrite HE3. exact HEt.
Qed.

(** ** get *)

Lemma get_elements : forall t k, ordered t -> snd (get t k) = sget (elements t) k.
Proof.
  induction t as [lk lv|nk h s l IHl r IHr]; intros k HO.
  - simpl. unfold beq. rewrite (bcmp_antisym lk k). destruct (bcmp lk k); reflexivity.
  - destruct HO as [HOl [HOr [Hl [Hr Hk]]]]. cbn [get elements]. rewrite sget_app.
    destruct (blt k nk) eqn:B.
    + rewrite (IHl k HOl).
      assert (N : sget (elements r) k = None).
      { apply sget_notin. intro Hx. rewrite (Hr k Hx) in B. discriminate. }
      rewrite N. destruct (sget (elements l) k); reflexivity.
    + assert (N : sget (elements l) k = None).
      { apply sget_notin. intro Hx. rewrite (Hl k Hx) in B. discriminate. }
      rewrite N. rewrite <- (IHr k HOr). destruct (get r k). reflexivity.
Qed.

Theorem get_set : forall t k v t' u k',
  ordered t -> sized t -> set t k v = Some (t', u) ->
  snd (get t' k') = if beq k k' then Some v else snd (get t k').
Proof.
  intros t k v t' u k' HO HS E.
  destruct (set_inv t k v HO HS) as [t2 [u2 [E2 [HO2 [_ [HE _]]]]]].
  rewrite E in E2. inversion E2; subst t2 u2.
  rewrite (get_elements t' k' HO2), (get_elements t k' HO), HE. apply sget_ins.
Qed.
