(** C02 — property theorems only. *)
From Coq Require Import List ZArith NArith Bool.
From C33 Require Import Lib.Harness C01.Keys C01.Model C01.Store C01.Inv
  C02.Model C02.ProofsHash C02.ProofsSet C02.ProofsStore C02.ProofsTop C02.ProofsTotal C02.ProofsClosed.
Import ListNotations.
Open Scope Z_scope.

(** Every symbolic hash is the root of exactly one keyed tree ([toh]); this is
    what "the content of the prior root" means below. *)
Theorem C02_hash_denotes_tree : forall h, thash (toh h) = h /\ keyed (toh h).
Proof. intros h. split; [apply thash_toh|apply keyed_toh]. Qed.
Print Assumptions C02_hash_denotes_tree.

(** The annotated Go algorithm (loads, orphanings, prefixed keys, cached
    hashes, elided values, panics on unresolvable children) computes, whenever
    it does not panic, exactly C01's pure [set] on the denoted trees. *)
Theorem C02_set_refines_pure : forall t k v lg t' u lg',
  acons t -> aset t k v lg = Some (t', u, lg') ->
  set (den t) k v = Some (den t', u) /\ acons t'.
Proof.
  intros t k v lg t' u lg' C H. destruct (aset_sim _ _ _ _ _ _ _ C H) as (A & B & _). auto.
Qed.
Print Assumptions C02_set_refines_pure.

(** Full strength: the root an update returns is a function of the prior root
    and the ordered writes only — it is the root of C01's [t_set_all] applied to the
    tree the prior root denotes — after every history, under every configuration
    (prune included: since chain33 7d7bddb the root objects that DelLeafCountKV
    leaves in the ARC cache own their hash; former known finding 3). *)
Definition C02_root_deterministic_full : Prop := root_deterministic_full.

Theorem C02_root_deterministic : C02_root_deterministic_full.
Proof. exact root_deterministic. Qed.
Print Assumptions C02_root_deterministic.

(** The same for every sound state (any configuration, block height, database,
    caches, pending trees), reachable or not, with no guard. *)
Theorem C02_root_deterministic_state : forall pending c s r bh kvs r' s',
  store_sound s ->
  st_update pending c s r bh kvs = Ok (r', s') ->
  exists o', t_set_all (root_tree r) kvs = Some o' /\ r' = tree_root o'.
Proof. exact root_deterministic_state. Qed.
Print Assumptions C02_root_deterministic_state.

(** Hence: same prior root, same writes => same new root, across configurations,
    heights, stores, and Set versus MemSet. *)
Theorem C02_root_cfg_independent : forall p1 p2 c1 c2 s1 s2 r bh1 bh2 kvs r1 r2 s1' s2',
  store_sound s1 -> store_sound s2 ->
  st_update p1 c1 s1 r bh1 kvs = Ok (r1, s1') ->
  st_update p2 c2 s2 r bh2 kvs = Ok (r2, s2') ->
  r1 = r2.
Proof. exact root_cfg_independent. Qed.
Print Assumptions C02_root_cfg_independent.

(** Soundness of everything a load can return (database, ARC cache, memTree,
    pending trees) is an invariant of every store operation under every
    configuration — including pending trees that are rolled back. *)
Theorem C02_store_sound_invariant : forall c s, store_sound s ->
  (forall r bh kvs r' s', st_set c s r bh kvs = Ok (r', s') -> store_sound s') /\
  (forall r bh kvs r' s', st_memset c s r bh kvs = Ok (r', s') -> store_sound s') /\
  (forall r r' s', st_commit c s r = Ok (r', s') -> store_sound s') /\
  (forall r r' s', st_rollback c s r = Ok (r', s') -> store_sound s') /\
  (forall r o s', st_probe c s r = Ok (o, s') -> store_sound s').
Proof. exact sound_invariant. Qed.
Print Assumptions C02_store_sound_invariant.

Theorem C02_cache_sound_invariant : forall c s, store_sound s ->
  (forall r bh kvs r' s', st_set c s r bh kvs = Ok (r', s') -> cache_sound s') /\
  (forall r bh kvs r' s', st_memset c s r bh kvs = Ok (r', s') -> cache_sound s') /\
  (forall r r' s', st_commit c s r = Ok (r', s') -> cache_sound s') /\
  (forall r r' s', st_rollback c s r = Ok (r', s') -> cache_sound s') /\
  (forall r o s', st_probe c s r = Ok (o, s') -> cache_sound s').
Proof. exact cache_sound_invariant. Qed.
Print Assumptions C02_cache_sound_invariant.

Theorem C02_history_sound : forall c ops, store_sound (fst (exec c empty_store [None] ops)).
Proof. intros c ops. apply exec_sound. apply empty_sound. Qed.
Print Assumptions C02_history_sound.

(** MemSet then Commit = Set: same root (Commit answers with MemSet's root),
    same database nodes, same root index; without prune neither can fail if the
    other succeeded. *)
Theorem C02_memset_commit_eq_set : forall c s r bh kvs r1 s1,
  kvs <> [] -> st_memset c s r bh kvs = Ok (r1, s1) ->
  (forall r2 s2, st_commit c s1 r1 = Ok (r2, s2) -> r2 = r1) /\
  (forall r' s' s2, st_set c s r bh kvs = Ok (r', s') -> st_commit c s1 r1 = Ok (r1, s2) ->
                    r' = r1 /\ s_db s2 = s_db s' /\ s_idx s2 = s_idx s') /\
  (forall r' s', st_set c s r bh kvs = Ok (r', s') -> r' = r1) /\
  (c_prune c = false ->
   exists s2 s', st_commit c s1 r1 = Ok (r1, s2) /\ st_set c s r bh kvs = Ok (r1, s')).
Proof. exact memset_commit_eq_set. Qed.
Print Assumptions C02_memset_commit_eq_set.

Theorem C02_memset_empty : forall c s r,
  exists s1, st_memset c s r 0 [] = Ok (r, s1) /\ s_db s1 = s_db s /\
  exists s2, st_commit c s1 r = Ok (r, s2) /\ s_db s2 = s_db s.
Proof. exact memset_empty. Qed.
Print Assumptions C02_memset_empty.

(** Full strength also demands that the update succeeds; the model (like the
    Go code) panics under prefix + memTree after a rolled-back rewrite. *)
Definition C02_update_total_full : Prop := update_total_full.

Theorem C02_update_total_refuted : ~ C02_update_total_full.
Proof. exact update_total_refuted. Qed.
Print Assumptions C02_update_total_refuted.

(** The partial statement: the only way an update fails is an unresolvable node
    below the prior root.  [resolvable] and [save_quiet] are booleans. *)
Theorem C02_update_total_partial : forall pending c s r bh kvs,
  store_sound s -> o_good (root_tree r) ->
  resolvable c s r = true -> save_quiet c s bh = true ->
  exists r' s', st_update pending c s r bh kvs = Ok (r', s').
Proof. exact update_total_partial. Qed.
Print Assumptions C02_update_total_partial.

(** Without memTree and without prune the guard of the previous theorem holds
    along every history whose updates build on the empty root or on roots the
    history committed ([wf_exec]): there, every update succeeds. *)
Theorem C02_update_total_nomem : forall c, c_memtree c = false -> c_prune c = false ->
  forall ops r pending bh kvs,
    wf_exec c empty_store [None] ops ->
    In r (snd (exec' c empty_store [None] ops)) ->
    exists r' s', st_update pending c (fst (exec' c empty_store [None] ops)) r bh kvs = Ok (r', s').
Proof. exact update_total_nomem. Qed.
Print Assumptions C02_update_total_nomem.

(** Non-vacuity. *)
From Coq Require Strings.String.
Import Coq.Strings.String.StringSyntax.
Local Open Scope string_scope.

Definition ex_kvs1 := [(kb "k3", kb "v"); (kb "k1", kb "v"); (kb "k5", kb "v"); (kb "k2", kb "w");
                       (kb "k4", kb "v"); (kb "k6", kb "v"); (kb "k0", kb "v")].
Definition ex_c1 := mk_cfg false false false 0 false false 0.
Definition ex_c2 := new_cfg (mk_cfg false true true 100 true false 0).

Definition ex_root (c : cfg) : root :=
  match st_set c empty_store None 7 ex_kvs1 with Ok (r, _) => r | _ => None end.

Definition ex_state (c : cfg) : store :=
  fst (exec c empty_store [None]
         [SSet None 7 ex_kvs1; SMemSet (ex_root c) 9 [(kb "k2", kb "x")];
          SMemSet (ex_root c) 8 [(kb "k9", kb "y"); (kb "k1", kb "z")]; SRollback (ex_root c)]).

(* a sound, non-trivial state under the prune+prefix+mvcc+memTree configuration:
   7 leaves + 6 inner nodes in the database, a filled memTree, one pending tree *)
Example C02_ex_state_sound :
  store_sound (ex_state ex_c2) /\
  (length (s_db (ex_state ex_c2)), length (s_pend (ex_state ex_c2)),
   Nat.ltb 0 (length (s_mem (ex_state ex_c2)))) = (13%nat, 2%nat, true).
Proof. split; [apply C02_history_sound|vm_compute; reflexivity]. Qed.

(* the same update, direct under the plain configuration and pending under the
   other one, at different block heights, after different histories: same root *)
Example C02_ex_same_root :
  match st_update false ex_c1 (ex_state ex_c1) (ex_root ex_c1) 11 [(kb "k7", kb "q"); (kb "k2", kb "r")],
        st_update true ex_c2 (ex_state ex_c2) (ex_root ex_c2) 12 [(kb "k7", kb "q"); (kb "k2", kb "r")] with
  | Ok (Some r1, _), Ok (Some r2, _) => hash_eqb r1 r2 = true /\ root_eqb (ex_root ex_c1) (ex_root ex_c2) = true
  | _, _ => False
  end.
Proof. vm_compute. split; reflexivity. Qed.

(* prefixed keys really occur: the database keys of ex_c2 carry block heights *)
Example C02_ex_prefixed_keys :
  existsb (fun b => match fst (fst b) with Some 7 => true | _ => false end) (s_db (ex_state ex_c2)) = true /\
  existsb (fun b => match fst (fst b) with Some _ => true | None => false end) (s_db (ex_state ex_c1)) = false.
Proof. vm_compute. split; reflexivity. Qed.

(* the guards of the partial theorems hold in that non-trivial state *)
Example C02_ex_guards :
  resolvable ex_c2 (ex_state ex_c2) (ex_root ex_c2) = true /\
  save_quiet ex_c2 (ex_state ex_c2) 10 = true.
Proof. vm_compute. repeat split; reflexivity. Qed.

(* the history of former known finding 3 (prune; three saves at one block height, so that the
   third one's DelLeafCountKV loads the first two roots from the database and caches the
   height-3 root objects; then a Set with no writes on the first root): the root comes back,
   and the cached root record is really there *)
Definition al_cfg : cfg := new_cfg (mk_cfg false false true 0 false false 0).
Definition al_r1 : root :=
  match st_set al_cfg empty_store None 2 ex_kvs1 with Ok (r, _) => r | _ => None end.
Definition al_ops : list sop :=
  [ SSet None 2 ex_kvs1; SSet al_r1 2 [(kb "k1", kb "x")]; SSet al_r1 2 [(kb "k2", kb "y")] ].
Example C02_ex_empty_set_after_prune_bookkeeping :
  let s := fst (exec al_cfg empty_store [None] al_ops) in
  match al_r1, st_set al_cfg s al_r1 1 [] with
  | Some h, Ok (Some h', _) => hash_eqb h h' = true /\ m_has (s_lru s) (None, h) = true
  | _, _ => False
  end.
Proof. vm_compute. split; reflexivity. Qed.

(* a well-formed history with a fork, a rolled-back pending update and a commit
   (prefix + mvcc configuration, no memTree, no prune) *)
Definition ex_c3 := mk_cfg true true false 0 false false 0.
Definition ex_ops3 : list sop :=
  [SSet None 7 ex_kvs1; SMemSet (ex_root ex_c3) 9 [(kb "k2", kb "x")]; SRollback (ex_root ex_c3);
   SSet (ex_root ex_c3) 7 [(kb "k9", kb "y")]; SSet (ex_root ex_c3) 7 [(kb "k8", kb "y")]].
Example C02_ex_wf : wf_exec ex_c3 empty_store [None] ex_ops3 /\
  length (snd (exec' ex_c3 empty_store [None] ex_ops3)) = 4%nat.
Proof. vm_compute. intuition. Qed.
