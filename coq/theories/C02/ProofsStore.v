(** C02 — soundness of the database, the caches and the pending trees is an
    invariant of every store operation, under every configuration; and whenever
    an update succeeds its root is the root of C01's pure tree. *)
From Coq Require Import List ZArith NArith Bool Lia.
From C33 Require Import C01.Keys C01.KeysFacts C01.Model C01.Store C01.Inv C01.ProofsStore
  C02.Model C02.ProofsHash C02.ProofsSet.
Import ListNotations.
Open Scope Z_scope.

(** a record is the record its key's hash determines (the leaf value may have
    been dropped: EnableMVCC) *)
Definition rec_ok (K : nk) (r : nrec) : Prop :=
  match r with
  | NLeaf k v => exists v', snd K = HLeaf k v'
  | NInner key h s lk rk => snd K = HInner h s (snd lk) (snd rk) /\ key = hleftmost (snd rk)
  end.

Definition map_ok (m : kvmap) : Prop := forall K r, m_get m K = Some r -> rec_ok K r.

Definition pend_ok (p : pending) : Prop :=
  forall r t bh, p_get p r = Some (Some (t, bh)) -> acons t.

(** [cache_sound]: the two caches; [store_sound]: everything a load can return *)
Definition cache_sound (s : store) : Prop := map_ok (s_lru s) /\ map_ok (s_mem s).

Definition store_sound (s : store) : Prop :=
  map_ok (s_db s) /\ cache_sound s /\ pend_ok (s_pend s).

(** ---- maps ---- *)
Lemma map_ok_nil : map_ok [].
Proof. intros K r H. discriminate. Qed.

Lemma map_ok_put : forall m K r, map_ok m -> rec_ok K r -> map_ok (m_put m K r).
Proof.
  intros m K r M R K' r' H. unfold m_put in H. simpl in H.
  destruct (nk_eqb K' K) eqn:E.
  - apply nk_eqb_eq in E. inversion H; subst. exact R.
  - apply M. exact H.
Qed.

Lemma m_get_del : forall m K K' r, m_get (m_del m K) K' = Some r -> m_get m K' = Some r.
Proof.
  induction m as [|[K0 r0] m IH]; intros K K' r H; simpl in *; [discriminate|].
  destruct (nk_eqb K K0) eqn:E; simpl in H.
  - destruct (nk_eqb K' K0) eqn:E'.
    + apply nk_eqb_eq in E, E'. subst.
      (* K' = K: deleted everywhere *)
      exfalso. clear IH. induction m as [|[K1 r1] m IHm]; simpl in H; [discriminate|].
      destruct (nk_eqb K0 K1) eqn:E1; simpl in H; [auto|]. rewrite E1 in H. auto.
    + eapply IH. exact H.
  - destruct (nk_eqb K' K0); [exact H|]. eapply IH. exact H.
Qed.

Lemma map_ok_del : forall m K, map_ok m -> map_ok (m_del m K).
Proof. intros m K M K' r H. apply M. eapply m_get_del. exact H. Qed.

Lemma map_ok_toggle : forall m K r, map_ok m -> rec_ok K r -> map_ok (m_toggle m K r).
Proof.
  intros m K r M R. unfold m_toggle. destruct (m_has m K); [apply map_ok_del|apply map_ok_put]; auto.
Qed.

Lemma lookup_in_ok : forall mt lru mem db K r,
  map_ok lru -> map_ok mem -> map_ok db -> lookup_in mt lru mem db K = Some r -> rec_ok K r.
Proof.
  intros mt lru mem db K r L M D H. unfold lookup_in in H.
  destruct (m_get lru K) eqn:E1; [inversion H; subst; auto|].
  destruct mt.
  - destruct (m_get mem K) eqn:E2; [inversion H; subst; auto|]. auto.
  - auto.
Qed.

Lemma lookup_ok : forall c s K r, store_sound s -> lookup c s K = Some r -> rec_ok K r.
Proof.
  intros c s K r (D & (L & M) & _) H. unfold lookup in H. exact (lookup_in_ok _ _ _ _ _ _ L M D H).
Qed.

(** ---- materialisation ---- *)
Lemma Some_inj : forall (A : Type) (x y : A), Some x = Some y -> x = y.
Proof. intros A x y H. inversion H. reflexivity. Qed.

Lemma ahash_mat : forall lk fuel K, ahash (mat lk fuel K) = snd K.
Proof.
  intros lk fuel K. destruct fuel as [|f]; simpl; [reflexivity|].
  destruct (lk K) as [[k v|key h s l r]|]; reflexivity.
Qed.

Lemma acons_mat : forall lk, (forall K r, lk K = Some r -> rec_ok K r) ->
  forall fuel K, acons (mat lk fuel K).
Proof.
  intros lk OK. induction fuel as [|f IH]; intros K; simpl; [exact I|].
  destruct (lk K) as [[k v|key h s l r]|] eqn:E; simpl; auto.
  - apply OK in E. exact E.
  - apply OK in E. destruct E as [E1 E2]. rewrite !ahash_mat. auto.
Qed.

Lemma mat_root_ok : forall lk K t, (forall K r, lk K = Some r -> rec_ok K r) ->
  mat_root lk K = Some t -> acons t /\ ahash t = snd K.
Proof.
  intros lk K t OK H. unfold mat_root in H. destruct (lk K) as [rc|] eqn:E; [|discriminate].
  apply Some_inj in H. subst t.
  split; [exact (acons_mat lk OK (S (Z.to_nat (nrec_height rc))) K)|exact (ahash_mat lk (S (Z.to_nat (nrec_height rc))) K)].
Qed.

(** ---- the log replay ---- *)
Lemma run_ev_ok : forall c db st e,
  map_ok db -> map_ok (fst (fst st)) -> map_ok (snd (fst st)) ->
  map_ok (fst (fst (run_ev c db st e))) /\ map_ok (snd (fst (run_ev c db st e))).
Proof.
  intros c db [[lru mem] obs] e D L M. simpl in L, M. destruct e as [K|K]; simpl.
  - destruct (m_has lru K); [simpl; auto|].
    destruct (c_memtree c && m_has mem K); [simpl; auto|].
    destruct (m_get db K) as [r|] eqn:E; [|simpl; auto].
    apply D in E. simpl. split.
    + destruct (nrec_height r >? 2); [apply map_ok_put|]; auto.
    + destruct (c_memtree c && (c_memval c || negb (nrec_height r =? 0))); [apply map_ok_put|]; auto.
  - split; [apply map_ok_del|]; auto.
Qed.

Lemma run_log_ok : forall c db lg lru mem obs lru' mem' obs',
  map_ok db -> map_ok lru -> map_ok mem ->
  run_log c db lg (lru, mem, obs) = (lru', mem', obs') -> map_ok lru' /\ map_ok mem'.
Proof.
  intros c db lg. unfold run_log. generalize (rev lg). clear lg.
  induction l as [|e l IH]; intros lru mem obs lru' mem' obs' D L M H; cbn [fold_left] in H.
  - inversion H; subst. auto.
  - destruct (run_ev c db (lru, mem, obs) e) as [[lru1 mem1] obs1] eqn:E.
    pose proof (run_ev_ok c db (lru, mem, obs) e D L M) as [L1 M1]. rewrite E in L1, M1. simpl in L1, M1.
    exact (IH _ _ _ _ _ _ D L1 M1 H).
Qed.

(** ---- keys ---- *)
Lemma snd_akey : forall t, snd (akey t) = ahash t.
Proof. intros [K|[|K|K] k v|[|K|K] key h s l r]; reflexivity. Qed.

(** ---- the batch of writes ---- *)
Definition acons_o (o : option atree) : Prop := match o with None => True | Some t => acons t end.
Definition den_o (o : option atree) : otree := option_map den o.

Lemma aset_all_sim : forall kvs o lg o' lg',
  acons_o o -> aset_all o kvs lg = Some (o', lg') ->
  t_set_all (den_o o) kvs = Some (den_o o') /\ acons_o o'.
Proof.
  induction kvs as [|[k v] kvs IH]; intros o lg o' lg' C H; simpl in H.
  - inversion H; subst. simpl. auto.
  - destruct o as [t|].
    + destruct (aset t k v lg) as [[[t' u] lg1]|] eqn:S; [|discriminate].
      destruct (aset_sim _ _ _ _ _ _ _ C S) as (D & C' & _).
      simpl. rewrite D. exact (IH (Some t') _ _ _ C' H).
    + simpl. exact (IH (Some (ALeaf ANew k v)) _ _ _ I H).
Qed.

(** ---- Node.Hash ---- *)
Lemma ahash_assign : forall pfx bh rh t, ahash (assign pfx bh rh t) = ahash t.
Proof.
  intros pfx bh rh. induction t as [K|a k v|a key h s l IHl r IHr]; simpl; auto.
  - destruct a; reflexivity.
  - destruct a; simpl; auto. rewrite !snd_akey, IHl, IHr. reflexivity.
Qed.

Lemma acons_assign : forall pfx bh rh t, acons t -> acons (assign pfx bh rh t).
Proof.
  intros pfx bh rh. induction t as [K|a k v|a key h s l IHl r IHr]; intros C; simpl; auto.
  - destruct a; simpl; auto. exists v. reflexivity.
  - destruct C as (Cl & Cr & Hk & Ha). destruct a; simpl.
    + rewrite !snd_akey, !ahash_assign. auto.
    + auto.
    + auto.
Qed.

(** ---- records written by Tree.Hash and by save ---- *)
Lemma inner_rec_ok : forall K key h s l r,
  acons l -> acons r -> key = hleftmost (ahash r) -> snd K = HInner h s (ahash l) (ahash r) ->
  rec_ok K (NInner key h s (akey l) (akey r)).
Proof. intros. simpl. rewrite !snd_akey. auto. Qed.

Lemma new_recs_ok : forall mv t K r, acons t -> In (K, r) (new_recs mv t) -> rec_ok K r.
Proof.
  intros mv. induction t as [K0|a k v|a key h s l IHl r IHr]; intros K rc C H; simpl in H.
  - destruct H.
  - destruct a as [|K1|K1]; try destruct H. destruct mv; [|destruct H].
    destruct H as [H|[]]. inversion H; subst. simpl. exact C.
  - destruct C as (Cl & Cr & Hk & Ha).
    destruct a as [|K1|K1]; try destruct H.
    + inversion H; subst. apply inner_rec_ok; auto.
    + apply in_app_or in H. destruct H; eauto.
Qed.

Lemma mem_hash_update_ok : forall news mem obs,
  map_ok mem -> (forall K r, In (K, r) news -> rec_ok K r) -> map_ok (mem_hash_update mem obs news).
Proof.
  intros news mem obs M N. unfold mem_hash_update.
  assert (M1 : map_ok (fold_left m_del obs mem)).
  { clear N. revert mem M. induction obs as [|K obs IH]; intros mem M; simpl; auto.
    apply IH. apply map_ok_del. exact M. }
  revert M1. generalize (fold_left m_del obs mem). clear M.
  induction news as [|[K r] news IH]; intros m M1; simpl; auto.
  apply IH.
  - intros K' r' H. apply N. right. exact H.
  - apply map_ok_toggle; auto. apply N. left. reflexivity.
Qed.

Lemma asave_ok : forall mvcc t db lru,
  acons t -> map_ok db -> map_ok lru ->
  map_ok (fst (asave mvcc t (db, lru))) /\ map_ok (snd (asave mvcc t (db, lru))).
Proof.
  intros mvcc. induction t as [K0|a k v|a key h s l IHl r IHr]; intros db lru C D L; simpl; auto.
  - destruct a as [|K|K]; simpl; auto. split; [|exact L].
    apply map_ok_put; auto.
  - destruct C as (Cl & Cr & Hk & Ha). destruct a as [|K|K]; simpl; auto.
    destruct (asave mvcc l (db, lru)) as [db1 lru1] eqn:E1.
    destruct (IHl db lru Cl D L) as [D1 L1]. rewrite E1 in D1, L1. simpl in D1, L1.
    destruct (asave mvcc r (db1, lru1)) as [db2 lru2] eqn:E2.
    destruct (IHr db1 lru1 Cr D1 L1) as [D2 L2]. rewrite E2 in D2, L2. simpl in D2, L2.
    simpl. assert (R : rec_ok K (NInner key h s (akey l) (akey r))) by (apply inner_rec_ok; auto).
    split; [apply map_ok_put; auto|]. destruct (h >? 2); [apply map_ok_put|]; auto.
Qed.

Lemma asave_fst : forall mvcc t db l1 l2,
  fst (asave mvcc t (db, l1)) = fst (asave mvcc t (db, l2)).
Proof.
  intros mvcc. induction t as [K0|a k v|a key h s l IHl r IHr]; intros db l1 l2; simpl; auto.
  - destruct a; reflexivity.
  - destruct a as [|K|K]; simpl; auto.
    destruct (asave mvcc l (db, l1)) as [d1 x1] eqn:E1. destruct (asave mvcc l (db, l2)) as [d1' x1'] eqn:E1'.
    pose proof (IHl db l1 l2) as H1. rewrite E1, E1' in H1. simpl in H1. subst d1'.
    destruct (asave mvcc r (d1, x1)) as [d2 x2] eqn:E2. destruct (asave mvcc r (d1, x1')) as [d2' x2'] eqn:E2'.
    pose proof (IHr d1 x1 x1') as H2. rewrite E2, E2' in H2. simpl in H2. subst d2'. reflexivity.
Qed.

(** ---- pending table ---- *)
Lemma p_get_del : forall p r r' x, p_get (p_del p r) r' = Some x -> p_get p r' = Some x.
Proof.
  induction p as [|[r0 t0] p IH]; intros r r' x H; simpl in *; [discriminate|].
  destruct (root_eqb r r0) eqn:E; simpl in H.
  - destruct (root_eqb r' r0) eqn:E'.
    + apply root_eqb_eq in E, E'. subst. exfalso. clear IH.
      induction p as [|[r1 t1] p IHp]; simpl in H; [discriminate|].
      destruct (root_eqb r0 r1) eqn:E1; simpl in H; [auto|]. rewrite E1 in H. auto.
    + eapply IH. exact H.
  - destruct (root_eqb r' r0); [exact H|]. eapply IH. exact H.
Qed.

Lemma pend_ok_del : forall p r, pend_ok p -> pend_ok (p_del p r).
Proof. intros p r P r' t bh H. eapply P. eapply p_get_del. exact H. Qed.

Lemma pend_ok_put : forall p r x,
  pend_ok p -> (forall t bh, x = Some (t, bh) -> acons t) -> pend_ok (p_put p r x).
Proof.
  intros p r x P X r' t bh H. unfold p_put in H. simpl in H.
  destruct (root_eqb r' r).
  - inversion H; subst. eapply X. reflexivity.
  - eapply pend_ok_del; eauto.
Qed.

Lemma p_get_put_same : forall p r x, p_get (p_put p r x) r = Some x.
Proof. intros p r x. unfold p_put. simpl. rewrite root_eqb_refl. reflexivity. Qed.

(** ---- Save ---- *)
Lemma do_save_sound : forall c s t bh s',
  store_sound s -> acons t -> do_save c s t bh = Some s' -> store_sound s'.
Proof.
  intros c s t bh s' (D & (L & M) & P) C H. unfold do_save in H.
  set (pre := if c_prune c then _ else _) in H.
  assert (PRE : forall lru1 mem1 maxh, pre = Some (lru1, mem1, maxh) -> map_ok lru1 /\ map_ok mem1).
  { subst pre. intros lru1 mem1 maxh E. destruct (c_prune c).
    - destruct (bh >? s_maxh s); [inversion E; subst; auto|].
      destruct (del_leaf_count _ _ _ _) as [lg|]; [|discriminate].
      destruct (run_log c (s_db s) lg (s_lru s, s_mem s, [])) as [[l1 m1] o1] eqn:R.
      inversion E; subst. exact (run_log_ok _ _ _ _ _ _ _ _ _ D L M R).
    - inversion E; subst; auto. }
  destruct pre as [[[lru1 mem1] maxh]|]; [|discriminate].
  destruct (PRE _ _ _ eq_refl) as [L1 M1].
  destruct (asave (c_mvcc c) t (s_db s, lru1)) as [db2 lru2] eqn:A.
  destruct (asave_ok (c_mvcc c) t (s_db s) lru1 C D L1) as [D2 L2]. rewrite A in D2, L2.
  inversion H; subst. repeat split; auto.
Qed.

Lemma do_save_db : forall c s t bh s',
  do_save c s t bh = Some s' ->
  s_db s' = fst (asave (c_mvcc c) t (s_db s, [])) /\
  s_idx s' = (if c_prune c then (bh, ahash t) :: s_idx s else s_idx s) /\ s_pend s' = s_pend s.
Proof.
  intros c s t bh s' H. unfold do_save in H.
  destruct (if c_prune c then _ else _) as [[[lru1 mem1] maxh]|]; [|discriminate].
  destruct (asave (c_mvcc c) t (s_db s, lru1)) as [db2 lru2] eqn:A.
  inversion H; subst. simpl. split; [|auto].
  rewrite (asave_fst _ _ _ [] lru1). rewrite A. reflexivity.
Qed.

(** ---- prepare ---- *)
Lemma load_at_ok : forall c s r o lg,
  store_sound s -> load_at c s r = Some (o, lg) -> acons_o o /\ aroot o = r.
Proof.
  intros c s r o lg S H. unfold load_at in H. destruct r as [h|].
  - destruct (mat_root (lookup c s) (None, h)) as [t|] eqn:E; [|discriminate].
    inversion H; subst. destruct (mat_root_ok _ _ _ (fun K r => lookup_ok c s K r S) E) as [C A].
    simpl. rewrite A. auto.
  - inversion H; subst. simpl. auto.
Qed.

Lemma den_o_root : forall o, acons_o o -> den_o o = root_tree (aroot o).
Proof. intros [t|] C; reflexivity. Qed.

Lemma tree_root_den_o : forall o, tree_root (den_o o) = aroot o.
Proof. intros [t|]; simpl; [rewrite ahash_den|]; reflexivity. Qed.

Lemma prepare_ok : forall c s r bh kvs o lru1 mem1 obs,
  store_sound s -> prepare c s r bh kvs = Ok (o, lru1, mem1, obs) ->
  acons_o o /\ map_ok lru1 /\ map_ok mem1 /\
  exists o', t_set_all (root_tree r) kvs = Some o' /\ aroot o = tree_root o'.
Proof.
  intros c s r bh kvs o lru1 mem1 obs S H. unfold prepare in H.
  destruct (load_at c s r) as [[o0 lg0]|] eqn:LD; [|discriminate].
  destruct (aset_all o0 kvs lg0) as [[o1 lg]|] eqn:AS; [|discriminate].
  destruct (run_log c (s_db s) lg (s_lru s, s_mem s, [])) as [[l1 m1] ob1] eqn:RL.
  inversion H; subst; clear H.
  destruct (load_at_ok _ _ _ _ _ S LD) as [C0 R0].
  destruct (aset_all_sim _ _ _ _ _ C0 AS) as [T C1].
  destruct S as (D & (L & M) & P).
  destruct (run_log_ok _ _ _ _ _ _ _ _ _ D L M RL) as [L1 M1].
  split; [|split; [exact L1|split; [exact M1|]]].
  - destruct o1 as [t|]; simpl; auto. apply acons_assign. exact C1.
  - exists (den_o o1). rewrite <- R0. rewrite <- (den_o_root _ C0). split; [exact T|].
    rewrite tree_root_den_o. destruct o1 as [t|]; simpl; [rewrite ahash_assign|]; reflexivity.
Qed.

(** ---- the operations ---- *)
Lemma with_caches_sound : forall s lru mem,
  store_sound s -> map_ok lru -> map_ok mem -> store_sound (with_caches s lru mem).
Proof. intros s lru mem (D & _ & P) L M. repeat split; auto. Qed.

Lemma st_set_ok : forall c s r bh kvs r' s',
  store_sound s -> st_set c s r bh kvs = Ok (r', s') ->
  store_sound s' /\
  exists o', t_set_all (root_tree r) kvs = Some o' /\ r' = tree_root o'.
Proof.
  intros c s r bh kvs r' s' S H. unfold st_set in H.
  destruct (prepare c s r bh kvs) as [[[[o lru1] mem1] obs]| | |] eqn:PR; try discriminate.
  destruct (prepare_ok _ _ _ _ _ _ _ _ _ S PR) as (C & L1 & M1 & o' & T & R).
  pose proof (with_caches_sound s lru1 mem1 S L1 M1) as S1.
  destruct o as [t|].
  - destruct (do_save c (with_caches s lru1 mem1) t bh) as [s1|] eqn:SV; [|discriminate].
    inversion H; subst. split.
    + eapply do_save_sound; eauto.
    + exists o'. split; [exact T|exact R].
  - inversion H; subst. split; [exact S1|]. exists o'. auto.
Qed.

Lemma st_memset_ok : forall c s r bh kvs r' s',
  store_sound s -> st_memset c s r bh kvs = Ok (r', s') ->
  store_sound s' /\ exists o', t_set_all (root_tree r) kvs = Some o' /\ r' = tree_root o'.
Proof.
  intros c s r bh kvs r' s' S H. unfold st_memset in H.
  destruct kvs as [|kv kvs].
  - injection H as <- <-. destruct S as (D & (L & M) & P). split.
    + repeat split; auto. simpl. apply pend_ok_put; auto. intros t bh' E. discriminate.
    + exists (root_tree r). simpl. split; [reflexivity|]. symmetry. apply tree_root_root_tree.
  - remember (kv :: kvs) as kvs0.
    destruct (prepare c s r bh kvs0) as [[[[o lru1] mem1] obs]| | |] eqn:PR; try discriminate.
    destruct (prepare_ok _ _ _ _ _ _ _ _ _ S PR) as (C & L1 & M1 & o' & T & R).
    destruct S as (D & (L & M) & P).
    destruct o as [t|].
    + inversion H; subst r' s'; clear H. split.
      * repeat split; simpl; auto.
        -- destruct (c_memtree c); auto. apply mem_hash_update_ok; auto.
           intros K rc IN. eapply new_recs_ok; eauto.
        -- apply pend_ok_put; auto. intros t' bh' E. inversion E; subst. exact C.
      * exists o'. auto.
    + inversion H; subst. split; [repeat split; auto|]. exists o'. auto.
Qed.

Lemma st_commit_ok : forall c s r r' s',
  store_sound s -> st_commit c s r = Ok (r', s') -> store_sound s' /\ r' = r.
Proof.
  intros c s r r' s' S H. unfold st_commit in H.
  destruct (p_get (s_pend s) r) as [[[t bh]|]|] eqn:PG; try discriminate.
  - destruct (do_save c s t bh) as [s1|] eqn:SV; [|discriminate].
    inversion H; subst. split; [|reflexivity].
    assert (C : acons t). { destruct S as (_ & _ & P). eapply P. exact PG. }
    destruct (do_save_sound _ _ _ _ _ S C SV) as (D1 & (L1 & M1) & P1).
    repeat split; auto. simpl. apply pend_ok_del. destruct S as (_ & _ & P). exact P.
  - inversion H; subst. destruct S as (D & (L & M) & P). split; [|reflexivity].
    repeat split; auto. simpl. apply pend_ok_del. exact P.
Qed.

Lemma st_rollback_ok : forall c s r r' s',
  store_sound s -> st_rollback c s r = Ok (r', s') -> store_sound s' /\ r' = r.
Proof.
  intros c s r r' s' S H. unfold st_rollback in H.
  destruct (p_get (s_pend s) r) as [x|]; [|discriminate].
  inversion H; subst. destruct S as (D & (L & M) & P). split; [|reflexivity].
  repeat split; auto. simpl. apply pend_ok_del. exact P.
Qed.

Lemma st_probe_ok : forall c s r o s',
  store_sound s -> st_probe c s r = Ok (o, s') -> store_sound s' /\ aroot o = r.
Proof.
  intros c s r o s' S H. unfold st_probe in H.
  destruct (load_at c s r) as [[[t|] lg0]|] eqn:LD; try discriminate.
  - destruct (has_missing t); [discriminate|].
    destruct (run_log c (s_db s) (visits t []) (s_lru s, s_mem s, [])) as [[l1 m1] ob1] eqn:RL.
    inversion H; subst. destruct (load_at_ok _ _ _ _ _ S LD) as [C0 R0].
    destruct S as (D & (L & M) & P).
    destruct (run_log_ok _ _ _ _ _ _ _ _ _ D L M RL) as [L1 M1].
    split; [repeat split; auto|exact R0].
  - inversion H; subst. destruct (load_at_ok _ _ _ _ _ S LD) as [C0 R0]. auto.
Qed.

Lemma empty_sound : store_sound empty_store.
Proof.
  repeat split; try apply map_ok_nil. intros r t bh H. discriminate.
Qed.
