(** C02 — the only way an update can fail: a node below the prior root cannot be
    resolved.  If the version materialises completely (and is a good tree), the
    annotated algorithm runs through, under every configuration. *)
From Coq Require Import List ZArith NArith Bool Lia.
From C33 Require Import C01.Keys C01.KeysFacts C01.Model C01.Store C01.Spec C01.Inv C01.Proofs C01.ProofsStore
  C02.Model C02.ProofsHash C02.ProofsSet C02.ProofsStore C02.ProofsTop.
Import ListNotations.
Open Scope Z_scope.

Definition full (t : atree) : Prop := has_missing t = false.

Lemma full_node : forall a key h s l r, full (ANode a key h s l r) -> full l /\ full r.
Proof. intros a key h s l r H. unfold full in *. simpl in H. apply orb_false_iff in H. exact H. Qed.

Lemma full_mk : forall a key h s l r, full l -> full r -> full (ANode a key h s l r).
Proof. intros a key h s l r A B. unfold full in *. simpl. rewrite A, B. reflexivity. Qed.

Lemma full_present : forall t, full t -> present t.
Proof. intros [K|a k v|a key h s l r] H; simpl; auto. discriminate. Qed.

Lemma touch_total : forall t lg, present t -> exists lg', touch t lg = Some lg'.
Proof.
  intros [K|[|K|K] k v|[|K|K] key h s l r] lg P; simpl in *; try tauto; eexists; reflexivity.
Qed.

Lemma acalc_total : forall key l r lg, full l -> full r ->
  exists n lg', acalc key l r lg = Some (n, lg') /\ full n.
Proof.
  intros key l r lg Fl Fr. unfold acalc.
  destruct (touch_total l lg (full_present _ Fl)) as [lg1 ->].
  destruct (touch_total r lg1 (full_present _ Fr)) as [lg2 ->].
  eexists. eexists. split; [reflexivity|]. apply full_mk; auto.
Qed.

(** a consistent, present annotated node is an inner node iff the tree it denotes is *)
Lemma den_is_node : forall t k h s x y, acons t -> present t -> den t = Node k h s x y ->
  exists a l r, t = ANode a k h s l r.
Proof.
  intros [K|a k0 v|a key h0 s0 l r] k h s x y C P E; simpl in P; [tauto| |].
  - destruct (den_leaf _ _ _ C) as [v' E']. congruence.
  - rewrite (den_node _ _ _ _ _ _ C) in E. inversion E; subst. eauto.
Qed.

Lemma arot_right_total : forall key l r lg h s x,
  acons l -> acons r -> full l -> full r ->
  rotate_right (Node key h s (den l) (den r)) = Some x ->
  exists t' lg', arot_right key l r lg = Some (t', lg') /\ full t'.
Proof.
  intros key l r lg h s x Cl Cr Fl Fr H. unfold arot_right.
  destruct (touch_total l lg (full_present _ Fl)) as [lg1 ->].
  simpl in H. destruct (den l) as [lk lv|lk lh ls ll lr] eqn:DL; [discriminate|].
  destruct (den_is_node _ _ _ _ _ _ Cl (full_present _ Fl) DL) as (a & al & ar & ->).
  destruct (full_node _ _ _ _ _ _ Fl) as [Fll Flr].
  destruct (acalc_total key ar r (orphan (ANode a lk lh ls al ar) lg1) Flr Fr) as (n & lg3 & -> & Fn).
  destruct (acalc_total lk al n lg3 Fll Fn) as (n2 & lg4 & -> & Fn2).
  eauto.
Qed.

Lemma arot_left_total : forall key l r lg h s x,
  acons l -> acons r -> full l -> full r ->
  rotate_left (Node key h s (den l) (den r)) = Some x ->
  exists t' lg', arot_left key l r lg = Some (t', lg') /\ full t'.
Proof.
  intros key l r lg h s x Cl Cr Fl Fr H. unfold arot_left.
  destruct (touch_total r lg (full_present _ Fr)) as [lg1 ->].
  simpl in H. destruct (den r) as [rk rv|rk rh rs rl rr] eqn:DR; [discriminate|].
  destruct (den_is_node _ _ _ _ _ _ Cr (full_present _ Fr) DR) as (a & al & ar & ->).
  destruct (full_node _ _ _ _ _ _ Fr) as [Frl Frr].
  destruct (acalc_total key l al (orphan (ANode a rk rh rs al ar) lg1) Fl Frl) as (n & lg3 & -> & Fn).
  destruct (acalc_total rk n ar lg3 Fn Frr) as (n2 & lg4 & -> & Fn2).
  eauto.
Qed.

Lemma abal_of_total : forall t lg b, acons t -> full t -> calc_balance (den t) = Some b ->
  exists lg', abal_of t lg = Some (b, lg').
Proof.
  intros t lg b C F H. destruct (den t) as [k v|k h s x y] eqn:D; [discriminate|].
  destruct (den_is_node _ _ _ _ _ _ C (full_present _ F) D) as (a & l & r & ->).
  destruct (full_node _ _ _ _ _ _ F) as [Fl Fr].
  destruct (acons_node_inv _ _ _ _ _ _ C) as (Cl & Cr & _).
  rewrite (den_node _ _ _ _ _ _ C) in D. inversion D; subst x y.
  simpl in H. simpl.
  destruct (touch_total l lg (full_present _ Fl)) as [lg1 ->].
  destruct (touch_total r lg1 (full_present _ Fr)) as [lg2 ->].
  destruct (height_den l Cl (full_present _ Fl)) as [Hl _].
  destruct (height_den r Cr (full_present _ Fr)) as [Hr _].
  rewrite Hl, Hr in H. inversion H; subst. eauto.
Qed.

Lemma abalance_total : forall a key h s l r lg x,
  acons l -> acons r -> key = hleftmost (ahash r) -> full l -> full r ->
  balance (Node key h s (den l) (den r)) = Some x ->
  exists t' lg', abalance (ANode a key h s l r) lg = Some (t', lg') /\ full t'.
Proof.
  intros a key h s l r lg x Cl Cr Hk Fl Fr H. unfold abalance.
  destruct (touch_total l lg (full_present _ Fl)) as [lg1 ->].
  destruct (touch_total r lg1 (full_present _ Fr)) as [lg2 ->].
  destruct (height_den l Cl (full_present _ Fl)) as [Hl _].
  destruct (height_den r Cr (full_present _ Fr)) as [Hr _].
  unfold balance in H. rewrite Hl, Hr in H.
  destruct (aheight l - aheight r >? 1).
  - destruct (calc_balance (den l)) as [bl|] eqn:CB; [|discriminate].
    destruct (abal_of_total l lg2 bl Cl Fl CB) as [lg3 ->].
    destruct (bl >=? 0).
    + eapply arot_right_total; eauto.
    + destruct (rotate_left (den l)) as [l''|] eqn:RL; [|discriminate].
      destruct (den l) as [k0 v0|lk lh ls x0 y0] eqn:DL; [discriminate|].
      destruct (den_is_node _ _ _ _ _ _ Cl (full_present _ Fl) DL) as (la & ll & lr & ->).
      destruct (full_node _ _ _ _ _ _ Fl) as [Fll Flr].
      destruct (acons_node_inv _ _ _ _ _ _ Cl) as (Cll & Clr & Hlk).
      rewrite (den_node _ _ _ _ _ _ Cl) in DL. inversion DL; subst x0 y0.
      destruct (arot_left_total lk ll lr (orphan (ANode la lk lh ls ll lr) lg3) lh ls l'' Cll Clr Fll Flr RL)
        as (l' & lg4 & E & Fl').
      rewrite E.
      destruct (arot_left_sim _ _ _ _ _ _ lh ls Cll Clr Hlk E) as (D1 & C1 & _).
      rewrite RL in D1. inversion D1; subst l''.
      eapply arot_right_total; eauto.
  - destruct (aheight l - aheight r <? -1).
    + destruct (calc_balance (den r)) as [br|] eqn:CB; [|discriminate].
      destruct (abal_of_total r lg2 br Cr Fr CB) as [lg3 ->].
      destruct (br <=? 0).
      * eapply arot_left_total; eauto.
      * destruct (rotate_right (den r)) as [r''|] eqn:RR; [|discriminate].
        destruct (den r) as [k0 v0|rk rh rs x0 y0] eqn:DR; [discriminate|].
        destruct (den_is_node _ _ _ _ _ _ Cr (full_present _ Fr) DR) as (ra & rl & rr & ->).
        destruct (full_node _ _ _ _ _ _ Fr) as [Frl Frr].
        destruct (acons_node_inv _ _ _ _ _ _ Cr) as (Crl & Crr & Hrk).
        rewrite (den_node _ _ _ _ _ _ Cr) in DR. inversion DR; subst x0 y0.
        destruct (arot_right_total rk rl rr (orphan (ANode ra rk rh rs rl rr) lg3) rh rs r'' Crl Crr Frl Frr RR)
          as (r' & lg4 & E & Fr').
        rewrite E.
        destruct (arot_right_sim _ _ _ _ _ _ rh rs Crl Crr Hrk E) as (D1 & C1 & _).
        rewrite RR in D1. inversion D1; subst r''.
        eapply arot_left_total; eauto.
    + eexists. eexists. split; [reflexivity|]. apply full_mk; auto.
Qed.

Lemma aset_total : forall t k v lg x u,
  acons t -> full t -> set (den t) k v = Some (x, u) ->
  exists t' lg', aset t k v lg = Some (t', u, lg') /\ full t'.
Proof.
  induction t as [K|a lk lv|a nk h s l IHl r IHr]; intros k v lg x u C F H.
  - discriminate.
  - destruct (den_leaf _ _ _ C) as [v' E]. rewrite E in H. cbn [set] in H. cbn [aset].
    destruct (bcmp k lk); inversion H; subst; eexists; eexists; (split; [reflexivity|]);
      try reflexivity; apply full_mk; auto; reflexivity.
  - destruct (acons_node_inv _ _ _ _ _ _ C) as (Cl & Cr & Hk).
    destruct (full_node _ _ _ _ _ _ F) as [Fl Fr].
    rewrite (den_node _ _ _ _ _ _ C) in H. cbn [set] in H. cbn [aset].
    set (lg0 := orphan (ANode a nk h s l r) lg).
    destruct (blt k nk) eqn:B.
    + destruct (touch_total l lg0 (full_present _ Fl)) as [lg1 ->].
      destruct (set (den l) k v) as [[l'' upd]|] eqn:S; [|discriminate].
      destruct (IHl k v lg1 l'' upd Cl Fl S) as (l' & lg2 & E & Fl'). rewrite E.
      destruct (aset_sim _ _ _ _ _ _ _ Cl E) as (D & Cl' & _). rewrite S in D. injection D as ->.
      destruct upd.
      * injection H as <- <-. eexists. eexists. split; [reflexivity|]. apply full_mk; auto.
      * destruct (balance (calc_hs (Node nk h s (den l') (den r)))) as [b|] eqn:BAL; [|discriminate].
        injection H as <- <-.
        destruct (acalc_total nk l' r lg2 Fl' Fr) as (n & lg3 & EA & Fn). rewrite EA.
        destruct (acalc_sim _ _ _ _ _ _ h s Cl' Cr Hk EA) as (Dn & Cn & _).
        unfold acalc in EA. destruct (touch l' lg2) as [y1|]; [|discriminate].
        destruct (touch r y1) as [y2|]; [|discriminate]. inversion EA; subst n lg3.
        rewrite (den_node _ _ _ _ _ _ Cn) in Dn. rewrite <- Dn in BAL.
        destruct (abalance_total ANew nk _ _ l' r y2 _ Cl' Cr Hk Fl' Fr BAL) as (t' & lg4 & EB & Ft').
        rewrite EB. eauto.
    + destruct (touch_total r lg0 (full_present _ Fr)) as [lg1 ->].
      destruct (set (den r) k v) as [[r'' upd]|] eqn:S; [|discriminate].
      destruct (IHr k v lg1 r'' upd Cr Fr S) as (r' & lg2 & E & Fr'). rewrite E.
      destruct (aset_sim _ _ _ _ _ _ _ Cr E) as (D & Cr' & _ & LM). rewrite S in D. injection D as ->.
      assert (Hk' : nk = hleftmost (ahash r')).
      { rewrite LM; [exact Hk|]. rewrite <- Hk. exact B. }
      destruct upd.
      * injection H as <- <-. eexists. eexists. split; [reflexivity|]. apply full_mk; auto.
      * destruct (balance (calc_hs (Node nk h s (den l) (den r')))) as [b|] eqn:BAL; [|discriminate].
        injection H as <- <-.
        destruct (acalc_total nk l r' lg2 Fl Fr') as (n & lg3 & EA & Fn). rewrite EA.
        destruct (acalc_sim _ _ _ _ _ _ h s Cl Cr' Hk' EA) as (Dn & Cn & _).
        unfold acalc in EA. destruct (touch l lg2) as [y1|]; [|discriminate].
        destruct (touch r' y1) as [y2|]; [|discriminate]. inversion EA; subst n lg3.
        rewrite (den_node _ _ _ _ _ _ Cn) in Dn. rewrite <- Dn in BAL.
        destruct (abalance_total ANew nk _ _ l r' y2 _ Cl Cr' Hk' Fl Fr' BAL) as (t' & lg4 & EB & Ft').
        rewrite EB. eauto.
Qed.

Definition full_o (o : option atree) : Prop := match o with None => True | Some t => full t end.

Lemma aset_all_total : forall kvs o lg,
  acons_o o -> full_o o -> o_good (den_o o) ->
  exists o' lg', aset_all o kvs lg = Some (o', lg').
Proof.
  induction kvs as [|[k v] kvs IH]; intros o lg C F G; simpl.
  - eauto.
  - destruct o as [t|].
    + destruct (t_set_inv (den_o (Some t)) k v G) as (o1 & u & TS & G1 & _).
      simpl in TS. destruct (set (den t) k v) as [[x u']|] eqn:S; [|discriminate].
      inversion TS; subst o1 u'; clear TS.
      destruct (aset_total t k v lg x u C F S) as (t' & lg1 & E & F'). rewrite E.
      destruct (aset_sim _ _ _ _ _ _ _ C E) as (D & C' & _). rewrite S in D. inversion D; subst x.
      apply (IH (Some t')); auto.
    + apply (IH (Some (ALeaf ANew k v))); simpl; auto; try reflexivity.
Qed.

(** the guard: the version below [r] materialises completely *)
Definition resolvable (c : cfg) (s : store) (r : root) : bool :=
  match load_at c s r with
  | Some (Some t, _) => negb (has_missing t)
  | Some (None, _) => true
  | None => false
  end.

(** Save does not run the prune bookkeeping that loads other versions *)
Definition save_quiet (c : cfg) (s : store) (bh : Z) : bool :=
  negb (c_prune c) || (bh >? s_maxh s).

Lemma do_save_quiet : forall c s t bh lru mem,
  save_quiet c s bh = true -> exists s', do_save c (with_caches s lru mem) t bh = Some s'.
Proof.
  intros c s t bh lru mem Q. unfold do_save. unfold save_quiet in Q. simpl.
  destruct (c_prune c); simpl in Q.
  - rewrite Q. destruct (asave (c_mvcc c) t (s_db s, lru)) as [d l]. eauto.
  - destruct (asave (c_mvcc c) t (s_db s, lru)) as [d l]. eauto.
Qed.

Lemma prepare_total : forall c s r bh kvs,
  store_sound s -> o_good (root_tree r) -> resolvable c s r = true ->
  exists x, prepare c s r bh kvs = Ok x.
Proof.
  intros c s r bh kvs S G R. unfold prepare. unfold resolvable in R.
  destruct (load_at c s r) as [[o lg0]|] eqn:LD; [|discriminate].
  destruct (load_at_ok _ _ _ _ _ S LD) as [C0 R0].
  assert (F : full_o o). { destruct o as [t|]; simpl; auto. unfold full. destruct (has_missing t); [discriminate|reflexivity]. }
  assert (G' : o_good (den_o o)). { rewrite (den_o_root _ C0), R0. exact G. }
  destruct (aset_all_total kvs o lg0 C0 F G') as (o' & lg & ->).
  destruct (run_log c (s_db s) lg (s_lru s, s_mem s, [])) as [[l1 m1] ob1]. eauto.
Qed.

Theorem update_total_partial : forall pending c s r bh kvs,
  store_sound s -> o_good (root_tree r) ->
  resolvable c s r = true -> save_quiet c s bh = true ->
  exists r' s', st_update pending c s r bh kvs = Ok (r', s').
Proof.
  intros pending c s r bh kvs S G R Q.
  destruct (prepare_total c s r bh kvs S G R) as ([[[o lru1] mem1] obs] & PR).
  destruct pending; simpl.
  - unfold st_memset. destruct kvs as [|kv kvs]; [eauto|].
    rewrite PR. destruct o as [t|]; eauto.
  - unfold st_set. rewrite PR. destruct o as [t|]; [|eauto].
    destruct (do_save_quiet c s t bh lru1 mem1 Q) as [s' ->]. eauto.
Qed.
