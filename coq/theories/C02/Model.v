(** C02 — executable model of chain33's mavl state store WITH its storage
    configuration, node keys, caches and pending trees
    (system/store/mavl/mavl.go, mavl/db/{tree.go,node.go,memmavl.go}),
    on top of C01's pure tree model ([C01.Model], [C01.Store]).  No proofs here.

    What is added to C01:
    - the configuration record as [mavl.New] builds it ([new_cfg]: prune forces prefix);
    - node keys [nk] = (optional block-height prefix, symbolic SHA-256): with
      EnableMavlPrefix every node whose height differs from the root's gets the key
      "_mb_-<height>-"/"_mh_-<height>-" ++ sha; a parent hashes only the last 32
      bytes of its children's keys, i.e. [snd] of the child key (types.InnerNode.Hash);
    - an annotated tree [atree]: every node carries what the Go object knows about
      its own key ([ANew]: hash == nil; [AHashed]: hashed, not persisted;
      [APers]: persisted, i.e. loaded from the store or saved); children that Go
      knows only by key and that cannot be resolved are [AMissing];
    - the three places a node can be read from: the database, the per-database
      ARC cache of node objects of height > 2 ([s_lru], nodeDB.cache) and the
      process-global memTree ([s_mem], keyed in Go by farm.Hash64 of the key —
      idealised as injective, so keyed by the key itself), with [TreeMap.Add]'s
      delete-on-re-add and [Tree.Hash]'s "delete obsolete, then Add updateNode";
    - the store layer: Set, MemSet (incl. the empty-KV shortcut), Commit,
      Rollback and the table of pending trees.

    Lazy loading.  Go loads a node each time [getLeftNode]/[getRightNode] is called
    on a child that is not attached; the result of such a load is a function of
    the store state at the beginning of the operation (loads only add the record
    they just returned to the caches; [removeOrphan] only evicts nodes that are
    never looked up again).  The model therefore materialises the version first
    ([mat], unresolvable keys become [AMissing]) and then runs the Go algorithm
    on it while recording, in order, every node the Go code would have loaded
    ([EVisit]) or orphaned ([EOrphan]); touching an [AMissing] node is the Go panic
    "left/right hash ... ErrNodeNotExist".  The cache effects are replayed from that log.

    Root objects own their hash.  DelLeafCountKV (prune bookkeeping) loads every root
    recorded for a block height; since chain33 7d7bddb it copies the hash out of the
    LevelDB iterator's key buffer before Tree.Load, so the node object that GetNode puts
    into the ARC cache (height > 2) keeps saying its own hash when the iterator moves on
    (before that fix the cached object read as the last key visited, and a Set with no
    writes returned that other root: former known finding 3).  A cached node object is
    therefore fully described by its record, and the tree of an update with no writes
    still has the loaded root object as its root, whose hash is the parent root.

    Not modelled: ticket nodes (tkCloseCache stays empty: no key with prefix
    "mavl-ticket-" occurs), the prune bookkeeping keys and the pruning goroutine
    (C05), ARC eviction (capacities are far above the sizes used). *)
From Coq Require Import List ZArith NArith Bool.
From C33 Require Import Lib.Harness C01.Keys C01.Model C01.Store.
Import ListNotations.
Open Scope Z_scope.

(** ---- configuration ---- *)
Record cfg := mk_cfg {
  c_prefix : bool; c_mvcc : bool; c_prune : bool; c_prune_height : Z;
  c_memtree : bool; c_memval : bool; c_tklen : Z }.

(** mavl.New + InitGlobalMem: pruning needs the prefix; the ticket cache gets
    its default length. *)
Definition new_cfg (c : cfg) : cfg :=
  mk_cfg (if c_prune c then true else c_prefix c) (c_mvcc c) (c_prune c) (c_prune_height c)
         (c_memtree c) (c_memval c)
         (if c_memtree c && (c_tklen c =? 0) then 100000 else c_tklen c).

(** ---- node keys and records ---- *)
Definition nk := (option Z * hash)%type.

Definition nk_eqb (a b : nk) : bool :=
  option_eqb Z.eqb (fst a) (fst b) && hash_eqb (snd a) (snd b).

(** What storeNode writes / a memNode holds.  Under EnableMVCC the database
    record of a leaf has no value ([[]]). *)
Inductive nrec :=
| NLeaf (k v : bytes)
| NInner (key : bytes) (h s : Z) (lk rk : nk).

Definition nrec_height (r : nrec) : Z :=
  match r with NLeaf _ _ => 0 | NInner _ h _ _ _ => h end.

Definition kvmap := list (nk * nrec).

Fixpoint m_get (m : kvmap) (K : nk) : option nrec :=
  match m with
  | [] => None
  | (K', r) :: tl => if nk_eqb K K' then Some r else m_get tl K
  end.

Definition m_has (m : kvmap) (K : nk) : bool :=
  match m_get m K with Some _ => true | None => false end.

Definition m_put (m : kvmap) (K : nk) (r : nrec) : kvmap := (K, r) :: m.

Definition m_del (m : kvmap) (K : nk) : kvmap :=
  filter (fun b => negb (nk_eqb K (fst b))) m.

(** TreeMap.Add: adding a key that is present deletes it. *)
Definition m_toggle (m : kvmap) (K : nk) (r : nrec) : kvmap :=
  if m_has m K then m_del m K else m_put m K r.

(** ---- annotated trees ---- *)
Inductive ann := ANew | AHashed (K : nk) | APers (K : nk).

Inductive atree :=
| AMissing (K : nk)
| ALeaf (a : ann) (k v : bytes)
| ANode (a : ann) (key : bytes) (h s : Z) (l r : atree).

Definition aheight (t : atree) : Z :=
  match t with ANode _ _ h _ _ _ => h | _ => 0 end.
Definition asize (t : atree) : Z :=
  match t with ANode _ _ _ s _ _ => s | ALeaf _ _ _ => 1 | AMissing _ => 0 end.

(** the symbolic SHA-256 of a node: the cached one if the node has been hashed,
    otherwise what Node.Hash will compute *)
Fixpoint ahash (t : atree) : hash :=
  match t with
  | AMissing K => snd K
  | ALeaf ANew k v => HLeaf k v
  | ALeaf (AHashed K) _ _ | ALeaf (APers K) _ _ => snd K
  | ANode ANew _ h s l r => HInner h s (ahash l) (ahash r)
  | ANode (AHashed K) _ _ _ _ _ | ANode (APers K) _ _ _ _ _ => snd K
  end.

(** node.hash as the parent stores it (leftHash / rightHash) *)
Definition akey (t : atree) : nk :=
  match t with
  | AMissing K => K
  | ALeaf (AHashed K) _ _ | ALeaf (APers K) _ _ => K
  | ANode (AHashed K) _ _ _ _ _ | ANode (APers K) _ _ _ _ _ => K
  | _ => (None, ahash t)
  end.

(** ---- the log of loads and orphanings ---- *)
Inductive ev := EVisit (K : nk) | EOrphan (K : nk).
Definition log := list ev.      (* newest first *)

(** getLeftNode / getRightNode / Tree.Load on this node: [None] = panic *)
Definition touch (t : atree) (lg : log) : option log :=
  match t with
  | AMissing _ => None
  | ALeaf (APers K) _ _ | ANode (APers K) _ _ _ _ _ => Some (EVisit K :: lg)
  | _ => Some lg
  end.

(** removeOrphan: only persisted nodes *)
Definition orphan (t : atree) (lg : log) : log :=
  match t with
  | ALeaf (APers K) _ _ | ANode (APers K) _ _ _ _ _ => EOrphan K :: lg
  | _ => lg
  end.

(** calcHeightAndSize on a copied node with children [l], [r] *)
Definition acalc (key : bytes) (l r : atree) (lg : log) : option (atree * log) :=
  match touch l lg with
  | None => None
  | Some lg1 =>
      match touch r lg1 with
      | None => None
      | Some lg2 => Some (ANode ANew key (Z.max (aheight l) (aheight r) + 1) (asize l + asize r) l r, lg2)
      end
  end.

(** rotateRight on a copy [node = (key, _, _, l, r)] *)
Definition arot_right (key : bytes) (l r : atree) (lg : log) : option (atree * log) :=
  match touch l lg with
  | None => None
  | Some lg1 =>
      match l with
      | ANode _ lk _ _ ll lr =>                  (* a leaf: _copy panics *)
          let lg2 := orphan l lg1 in
          match acalc key lr r lg2 with
          | None => None
          | Some (n', lg3) => acalc lk ll n' lg3
          end
      | _ => None
      end
  end.

Definition arot_left (key : bytes) (l r : atree) (lg : log) : option (atree * log) :=
  match touch r lg with
  | None => None
  | Some lg1 =>
      match r with
      | ANode _ rk _ _ rl rr =>
          let lg2 := orphan r lg1 in
          match acalc key l rl lg2 with
          | None => None
          | Some (n', lg3) => acalc rk n' rr lg3
          end
      | _ => None
      end
  end.

(** calcBalance of a child (panics on a leaf: its child key is nil) *)
Definition abal_of (t : atree) (lg : log) : option (Z * log) :=
  match t with
  | ANode _ _ _ _ l r =>
      match touch l lg with
      | None => None
      | Some lg1 => match touch r lg1 with
                    | None => None
                    | Some lg2 => Some (aheight l - aheight r, lg2)
                    end
      end
  | _ => None
  end.

(** balance on a copied node (key, h, s, l, r) *)
Definition abalance (t : atree) (lg : log) : option (atree * log) :=
  match t with
  | ANode _ key h s l r =>
  match touch l lg with
  | None => None
  | Some lg1 =>
  match touch r lg1 with
  | None => None
  | Some lg2 =>
      let b := aheight l - aheight r in
      if b >? 1 then
        match abal_of l lg2 with
        | None => None
        | Some (bl, lg3) =>
            if bl >=? 0 then arot_right key l r lg3
            else
              (* left := getLeftNode; removeOrphan(left); left.rotateLeft *)
              match l with
              | ANode _ lk _ _ ll lr =>
                  match arot_left lk ll lr (orphan l lg3) with
                  | None => None
                  | Some (l', lg4) => arot_right key l' r lg4
                  end
              | _ => None
              end
        end
      else if b <? -1 then
        match abal_of r lg2 with
        | None => None
        | Some (br, lg3) =>
            if br <=? 0 then arot_left key l r lg3
            else
              match r with
              | ANode _ rk _ _ rl rr =>
                  match arot_right rk rl rr (orphan r lg3) with
                  | None => None
                  | Some (r', lg4) => arot_left key l r' lg4
                  end
              | _ => None
              end
        end
      else Some (ANode ANew key h s l r, lg2)
  end end
  | _ => None
  end.

(** node.set *)
Fixpoint aset (t : atree) (k v : bytes) (lg : log) : option (atree * bool * log) :=
  match t with
  | AMissing _ => None
  | ALeaf _ lk _ =>
      match bcmp k lk with
      | Lt => Some (ANode ANew lk 1 2 (ALeaf ANew k v) t, false, lg)
      | Eq => Some (ALeaf ANew k v, true, orphan t lg)
      | Gt => Some (ANode ANew k 1 2 t (ALeaf ANew k v), false, lg)
      end
  | ANode _ nk h s l r =>
      let lg0 := orphan t lg in
      if blt k nk then
        match touch l lg0 with
        | None => None
        | Some lg1 =>
            match aset l k v lg1 with
            | None => None
            | Some (l', upd, lg2) =>
                if upd then Some (ANode ANew nk h s l' r, true, lg2)
                else match acalc nk l' r lg2 with
                     | None => None
                     | Some (n, lg3) =>
                         match abalance n lg3 with
                         | None => None
                         | Some (t', lg4) => Some (t', false, lg4)
                         end
                     end
            end
        end
      else
        match touch r lg0 with
        | None => None
        | Some lg1 =>
            match aset r k v lg1 with
            | None => None
            | Some (r', upd, lg2) =>
                if upd then Some (ANode ANew nk h s l r', true, lg2)
                else match acalc nk l r' lg2 with
                     | None => None
                     | Some (n, lg3) =>
                         match abalance n lg3 with
                         | None => None
                         | Some (t', lg4) => Some (t', false, lg4)
                         end
                     end
            end
        end
  end.

(** Tree.Set in a loop ([None] tree = root == nil) *)
Fixpoint aset_all (o : option atree) (kvs : list (bytes * bytes)) (lg : log)
  : option (option atree * log) :=
  match kvs with
  | [] => Some (o, lg)
  | (k, v) :: tl =>
      match o with
      | None => aset_all (Some (ALeaf ANew k v)) tl lg
      | Some t => match aset t k v lg with
                  | None => None
                  | Some (t', _, lg') => aset_all (Some t') tl lg'
                  end
      end
  end.

(** ---- Node.Hash: give every new node its key ---- *)
Definition mkpfx (pfx : bool) (bh rooth h : Z) : option Z :=
  if pfx && negb (h =? rooth) then Some bh else None.

Fixpoint assign (pfx : bool) (bh rooth : Z) (t : atree) : atree :=
  match t with
  | ALeaf ANew k v => ALeaf (AHashed (mkpfx pfx bh rooth 0, HLeaf k v)) k v
  | ANode ANew key h s l r =>
      let l' := assign pfx bh rooth l in
      let r' := assign pfx bh rooth r in
      ANode (AHashed (mkpfx pfx bh rooth h, HInner h s (snd (akey l')) (snd (akey r')))) key h s l' r'
  | _ => t
  end.

(** the record of a node: [dbrec] is storeNode (value dropped under MVCC),
    [memrec] is the memNode *)
Definition arec (elide : bool) (t : atree) : option nrec :=
  match t with
  | AMissing _ => None
  | ALeaf _ k v => Some (NLeaf k (if elide then [] else v))
  | ANode _ key h s l r => Some (NInner key h s (akey l) (akey r))
  end.

(** ---- the store ----
    [s_idx] / [s_maxh]: with EnableMavlPrune every Save records (block height, root)
    ("_mrhp_" keys) and the highest block height saved so far (the process-global
    maxBlockHeight, which a fresh database starts at 0). *)
Definition pending := list (root * option (atree * Z)).

Record store := mk_store {
  s_db : kvmap; s_lru : kvmap; s_mem : kvmap; s_pend : pending;
  s_idx : list (Z * hash); s_maxh : Z }.

Definition empty_store : store := mk_store [] [] [] [] [] 0.

Fixpoint p_get (p : pending) (r : root) : option (option (atree * Z)) :=
  match p with
  | [] => None
  | (r', t) :: tl => if root_eqb r r' then Some t else p_get tl r
  end.

Definition p_del (p : pending) (r : root) : pending :=
  filter (fun b => negb (root_eqb r (fst b))) p.

Definition p_put (p : pending) (r : root) (t : option (atree * Z)) : pending :=
  (r, t) :: p_del p r.

(** nodeDB.GetNode: ARC cache, then memTree (if enabled), then the database *)
Definition lookup_in (memtree : bool) (lru mem db : kvmap) (K : nk) : option nrec :=
  match m_get lru K with
  | Some r => Some r
  | None =>
      match (if memtree then m_get mem K else None) with
      | Some r => Some r
      | None => m_get db K
      end
  end.

Definition lookup (c : cfg) (s : store) (K : nk) : option nrec :=
  lookup_in (c_memtree c) (s_lru s) (s_mem s) (s_db s) K.

(** the version below a key, as far as it can be resolved *)
Fixpoint mat (lk : nk -> option nrec) (fuel : nat) (K : nk) : atree :=
  match fuel with
  | O => AMissing K
  | S f =>
      match lk K with
      | None => AMissing K
      | Some (NLeaf k v) => ALeaf (APers K) k v
      | Some (NInner key h s l r) => ANode (APers K) key h s (mat lk f l) (mat lk f r)
      end
  end.

Definition mat_root (lk : nk -> option nrec) (K : nk) : option atree :=
  match lk K with
  | None => None
  | Some rc => Some (mat lk (S (Z.to_nat (nrec_height rc))) K)
  end.

(** replay of the log (oldest event first) on (lru, mem, obsolete keys) *)
Definition cache_state := (kvmap * kvmap * list nk)%type.

Definition run_ev (c : cfg) (db : kvmap) (st : cache_state) (e : ev) : cache_state :=
  let '(lru, mem, obs) := st in
  match e with
  | EVisit K =>
      if m_has lru K then st
      else if c_memtree c && m_has mem K then st
      else match m_get db K with
           | None => st
           | Some r =>
               let lru' := if nrec_height r >? 2 then m_put lru K r else lru in
               let mem' := if c_memtree c && (c_memval c || negb (nrec_height r =? 0))
                           then m_put mem K r else mem in
               (lru', mem', obs)
           end
  | EOrphan K =>
      (m_del lru K, mem, if c_memtree c then K :: obs else obs)
  end.

Definition run_log (c : cfg) (db : kvmap) (lg : log) (st : cache_state) : cache_state :=
  fold_left (run_ev c db) (rev lg) st.

(** the nodes hashed by this Tree.Hash (updateNode), pre-order *)
Fixpoint new_recs (memval : bool) (t : atree) : list (nk * nrec) :=
  match t with
  | ALeaf (AHashed K) k v => if memval then [(K, NLeaf k v)] else []
  | ANode (AHashed K) key h s l r =>
      (K, NInner key h s (akey l) (akey r)) :: new_recs memval l ++ new_recs memval r
  | _ => []
  end.

(** Tree.Hash's update of the global memTree *)
Definition mem_hash_update (mem : kvmap) (obs : list nk) (news : list (nk * nrec)) : kvmap :=
  fold_left (fun m b => m_toggle m (fst b) (snd b)) news
            (fold_left m_del obs mem).

(** Node.save: children first; persisted nodes and unattached children are skipped *)
Fixpoint asave (mvcc : bool) (t : atree) (dl : kvmap * kvmap) : kvmap * kvmap :=
  match t with
  | ALeaf (AHashed K) k v => (m_put (fst dl) K (NLeaf k (if mvcc then [] else v)), snd dl)
  | ANode (AHashed K) key h s l r =>
      let dl1 := asave mvcc l dl in
      let dl2 := asave mvcc r dl1 in
      let rc := NInner key h s (akey l) (akey r) in
      (m_put (fst dl2) K rc, if h >? 2 then m_put (snd dl2) K rc else snd dl2)
  | _ => dl
  end.

(** results of the store API *)
Inductive res (A : Type) :=
| Ok (a : A)
| ErrNotExist          (* Tree.Load: ErrNodeNotExist *)
| ErrHashNotFound      (* Commit / Rollback of an unknown hash *)
| Panic.               (* getLeftNode/getRightNode: database damaged *)
Arguments Ok {A} a.
Arguments ErrNotExist {A}.
Arguments ErrHashNotFound {A}.
Arguments Panic {A}.

(** Tree.Load *)
Definition load_at (c : cfg) (s : store) (r : root) : option (option atree * log) :=
  match r with
  | None => Some (None, [])
  | Some h =>
      match mat_root (lookup c s) (None, h) with
      | None => None
      | Some t => Some (Some t, [EVisit (None, h)])
      end
  end.

(** ---- the prune bookkeeping that loads nodes (DelLeafCountKV) ----
    When a tree is saved at a block height that is not above every height saved
    before, every root recorded for that height is loaded and, for every leaf
    record stored under that height's prefix, the path to that leaf's key is
    walked in it (Tree.GetHash). *)
Fixpoint apath (t : atree) (k : bytes) (lg : log) : option log :=
  match t with
  | AMissing _ => None
  | ALeaf _ _ _ => Some lg
  | ANode _ key _ _ l r =>
      let ch := if blt k key then l else r in
      match touch ch lg with
      | None => None
      | Some lg' => apath ch k lg'
      end
  end.

Definition leaf_keys_at (db : kvmap) (bh : Z) : list bytes :=
  flat_map (fun b => match b with
                     | ((Some h, HLeaf _ _), NLeaf k _) => if h =? bh then [k] else []
                     | _ => []
                     end) db.

Fixpoint apaths (t : atree) (ks : list bytes) (lg : log) : option log :=
  match ks with
  | [] => Some lg
  | k :: tl => match apath t k lg with
               | None => None
               | Some lg' => apaths t tl lg'
               end
  end.

Fixpoint del_leaf_count (lk : nk -> option nrec) (ks : list bytes) (roots : list hash) (lg : log)
  : option log :=
  match roots with
  | [] => Some lg
  | h :: tl =>
      match mat_root lk (None, h) with
      | None => del_leaf_count lk ks tl lg                      (* Load failed: skipped *)
      | Some t =>
          match apaths t ks (EVisit (None, h) :: lg) with
          | None => None
          | Some lg' => del_leaf_count lk ks tl lg'
          end
      end
  end.

(** Tree.Save of a hashed tree built at block height [bh]; [None] = panic *)
Definition do_save (c : cfg) (s : store) (t : atree) (bh : Z) : option store :=
  let pre :=
    if c_prune c then
      if bh >? s_maxh s then Some (s_lru s, s_mem s, bh)
      else
        let roots := map snd (filter (fun b => fst b =? bh) (s_idx s)) in
        match del_leaf_count (lookup c s) (leaf_keys_at (s_db s) bh) roots [] with
        | None => None
        | Some lg =>
            let '(lru1, mem1, _) := run_log c (s_db s) lg (s_lru s, s_mem s, []) in
            Some (lru1, mem1, s_maxh s)
        end
    else Some (s_lru s, s_mem s, s_maxh s) in
  match pre with
  | None => None
  | Some (lru1, mem1, maxh) =>
      let '(db2, lru2) := asave (c_mvcc c) t (s_db s, lru1) in
      Some (mk_store db2 lru2 mem1 (s_pend s)
                     (if c_prune c then (bh, ahash t) :: s_idx s else s_idx s) maxh)
  end.

(** NewTree; SetBlockHeight; Load; Set...; (Hash): the hashed tree, the caches
    after the loads, and the obsolete keys *)
Definition prepare (c : cfg) (s : store) (r : root) (bh : Z) (kvs : list (bytes * bytes))
  : res (option atree * kvmap * kvmap * list nk) :=
  match load_at c s r with
  | None => ErrNotExist
  | Some (o, lg0) =>
      match aset_all o kvs lg0 with
      | None => Panic
      | Some (o', lg) =>
          let '(lru1, mem1, obs) := run_log c (s_db s) lg (s_lru s, s_mem s, []) in
          let o'' := match o' with
                     | None => None
                     | Some t => Some (assign (c_prefix c) bh (aheight t) t)
                     end in
          Ok (o'', lru1, mem1, obs)
      end
  end.

Definition aroot (o : option atree) : root :=
  match o with None => None | Some t => Some (ahash t) end.

Definition with_caches (s : store) (lru mem : kvmap) : store :=
  mk_store (s_db s) lru mem (s_pend s) (s_idx s) (s_maxh s).

Definition with_pend (s : store) (p : pending) : store :=
  mk_store (s_db s) (s_lru s) (s_mem s) p (s_idx s) (s_maxh s).

(** Store.Set = SetKVPair *)
Definition st_set (c : cfg) (s : store) (r : root) (bh : Z) (kvs : list (bytes * bytes))
  : res (root * store) :=
  match prepare c s r bh kvs with
  | Ok (o, lru1, mem1, _) =>
      match o with
      | None => Ok (None, with_caches s lru1 mem1)
      | Some t =>
          (* with no writes the tree's root is still the loaded object: [ahash t] is its hash *)
          match do_save c (with_caches s lru1 mem1) t bh with
          | None => Panic
          | Some s' => Ok (Some (ahash t), s')
          end
      end
  | ErrNotExist => ErrNotExist
  | ErrHashNotFound => ErrHashNotFound
  | Panic => Panic
  end.

(** Store.MemSet *)
Definition st_memset (c : cfg) (s : store) (r : root) (bh : Z) (kvs : list (bytes * bytes))
  : res (root * store) :=
  match kvs with
  | [] => Ok (r, with_pend s (p_put (s_pend s) r None))
  | _ =>
      match prepare c s r bh kvs with
      | Ok (o, lru1, mem1, obs) =>
          match o with
          | None => Ok (None, with_caches s lru1 mem1)      (* unreachable: kvs <> [] *)
          | Some t =>
              let mem2 := if c_memtree c
                          then mem_hash_update mem1 obs (new_recs (c_memval c) t) else mem1 in
              Ok (Some (ahash t),
                  with_pend (with_caches s lru1 mem2) (p_put (s_pend s) (Some (ahash t)) (Some (t, bh))))
          end
      | ErrNotExist => ErrNotExist
      | ErrHashNotFound => ErrHashNotFound
      | Panic => Panic
      end
  end.

(** Store.Commit *)
Definition st_commit (c : cfg) (s : store) (r : root) : res (root * store) :=
  match p_get (s_pend s) r with
  | None => ErrHashNotFound
  | Some None => Ok (r, with_pend s (p_del (s_pend s) r))
  | Some (Some (t, bh)) =>
      match do_save c s t bh with
      | None => Panic
      | Some s' => Ok (r, with_pend s' (p_del (s_pend s) r))
      end
  end.

(** Store.Rollback *)
Definition st_rollback (c : cfg) (s : store) (r : root) : res (root * store) :=
  match p_get (s_pend s) r with
  | None => ErrHashNotFound
  | Some _ => Ok (r, with_pend s (p_del (s_pend s) r))
  end.

(** A read of the whole version (NewTree; Load; visit every node in pre-order) *)
Fixpoint has_missing (t : atree) : bool :=
  match t with
  | AMissing _ => true
  | ALeaf _ _ _ => false
  | ANode _ _ _ _ l r => has_missing l || has_missing r
  end.

Fixpoint visits (t : atree) (lg : log) : log :=
  match t with
  | AMissing _ => lg
  | ALeaf (APers K) _ _ => EVisit K :: lg
  | ALeaf _ _ _ => lg
  | ANode a _ _ _ l r =>
      let lg1 := match a with APers K => EVisit K :: lg | _ => lg end in
      visits r (visits l lg1)
  end.

Definition st_probe (c : cfg) (s : store) (r : root) : res (option atree * store) :=
  match load_at c s r with
  | None => ErrNotExist
  | Some (None, _) => Ok (None, s)
  | Some (Some t, _) =>
      if has_missing t then Panic
      else
        let '(lru1, mem1, _) := run_log c (s_db s) (visits t []) (s_lru s, s_mem s, []) in
        Ok (Some t, with_caches s lru1 mem1)
  end.
