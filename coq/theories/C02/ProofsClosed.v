(** C02 — without memTree and without prune, every version a history commits
    stays completely resolvable: the database is closed under child keys, the ARC
    cache only holds records whose children are in the database, and pending trees
    only refer to stored nodes.  Part 1: trees. *)
From Coq Require Import List ZArith NArith Bool Lia.
From C33 Require Import C01.Keys C01.KeysFacts C01.Model C01.Store C01.Spec C01.Inv C01.Proofs C01.ProofsStore
  C02.Model C02.ProofsHash C02.ProofsSet C02.ProofsStore C02.ProofsTop C02.ProofsTotal.
Import ListNotations.
Open Scope Z_scope.

(** a tree under construction: no unresolved child, no node of another pending
    tree, and every persisted node satisfies [P] *)
Definition ann_ok (P : nk -> Prop) (a : ann) : Prop :=
  match a with APers K => P K | ANew => True | AHashed _ => False end.

Fixpoint pers_all (P : nk -> Prop) (t : atree) : Prop :=
  match t with
  | AMissing _ => False
  | ALeaf a _ _ => ann_ok P a
  | ANode a _ _ _ l r => ann_ok P a /\ pers_all P l /\ pers_all P r
  end.

Lemma pers_all_full : forall P t, pers_all P t -> full t.
Proof.
  intros P. induction t as [K|a k v|a key h s l IHl r IHr]; intros H; simpl in H.
  - destruct H.
  - reflexivity.
  - destruct H as (_ & Hl & Hr). apply full_mk; auto.
Qed.

Lemma pers_all_weaken : forall (P Q : nk -> Prop) t, (forall K, P K -> Q K) -> pers_all P t -> pers_all Q t.
Proof.
  intros P Q. induction t as [K|a k v|a key h s l IHl r IHr]; intros W H; simpl in *; auto.
  - destruct a; simpl in *; auto.
  - destruct H as (A & Hl & Hr). repeat split; auto. destruct a; simpl in *; auto.
Qed.

Section Pers.
  Variable P : nk -> Prop.

  Lemma acalc_pers : forall key l r lg n lg',
    pers_all P l -> pers_all P r -> acalc key l r lg = Some (n, lg') -> pers_all P n.
  Proof.
    intros key l r lg n lg' Hl Hr H. unfold acalc in H.
    destruct (touch l lg) as [lg1|]; [|discriminate]. destruct (touch r lg1) as [lg2|]; [|discriminate].
    inversion H; subst. simpl. auto.
  Qed.

  Lemma pers_node_inv : forall a key h s l r, pers_all P (ANode a key h s l r) -> pers_all P l /\ pers_all P r.
  Proof. intros a key h s l r (_ & A & B). auto. Qed.

  Lemma arot_right_pers : forall key l r lg t' lg',
    pers_all P l -> pers_all P r -> arot_right key l r lg = Some (t', lg') -> pers_all P t'.
  Proof.
    intros key l r lg t' lg' Hl Hr H. unfold arot_right in H.
    destruct (touch l lg) as [lg1|]; [|discriminate].
    destruct l as [K|la lk lv|la lk lh ls ll lr]; try discriminate.
    destruct (pers_node_inv _ _ _ _ _ _ Hl) as [Hll Hlr].
    destruct (acalc key lr r _) as [[n' lg3]|] eqn:A1; [|discriminate].
    eapply acalc_pers; [exact Hll| |exact H]. eapply acalc_pers; [exact Hlr|exact Hr|exact A1].
  Qed.

  Lemma arot_left_pers : forall key l r lg t' lg',
    pers_all P l -> pers_all P r -> arot_left key l r lg = Some (t', lg') -> pers_all P t'.
  Proof.
    intros key l r lg t' lg' Hl Hr H. unfold arot_left in H.
    destruct (touch r lg) as [lg1|]; [|discriminate].
    destruct r as [K|ra rk rv|ra rk rh rs rl rr]; try discriminate.
    destruct (pers_node_inv _ _ _ _ _ _ Hr) as [Hrl Hrr].
    destruct (acalc key l rl _) as [[n' lg3]|] eqn:A1; [|discriminate].
    eapply acalc_pers; [|exact Hrr|exact H]. eapply acalc_pers; [exact Hl|exact Hrl|exact A1].
  Qed.

  Lemma abalance_pers : forall a key h s l r lg t' lg',
    pers_all P l -> pers_all P r -> abalance (ANode a key h s l r) lg = Some (t', lg') -> pers_all P t'.
  Proof.
    intros a key h s l r lg t' lg' Hl Hr H. unfold abalance in H.
    destruct (touch l lg) as [lg1|]; [|discriminate]. destruct (touch r lg1) as [lg2|]; [|discriminate].
    destruct (aheight l - aheight r >? 1).
    - destruct (abal_of l lg2) as [[bl lg3]|]; [|discriminate].
      destruct (bl >=? 0).
      + exact (arot_right_pers _ _ _ _ _ _ Hl Hr H).
      + destruct l as [K|la lk lv|la lk lh ls ll lr]; try discriminate.
        destruct (pers_node_inv _ _ _ _ _ _ Hl) as [Hll Hlr].
        destruct (arot_left lk ll lr _) as [[l' lg4]|] eqn:RL; [|discriminate].
        eapply arot_right_pers; [|exact Hr|exact H]. eapply arot_left_pers; [exact Hll|exact Hlr|exact RL].
    - destruct (aheight l - aheight r <? -1).
      + destruct (abal_of r lg2) as [[br lg3]|]; [|discriminate].
        destruct (br <=? 0).
        * exact (arot_left_pers _ _ _ _ _ _ Hl Hr H).
        * destruct r as [K|ra rk rv|ra rk rh rs rl rr]; try discriminate.
          destruct (pers_node_inv _ _ _ _ _ _ Hr) as [Hrl Hrr].
          destruct (arot_right rk rl rr _) as [[r' lg4]|] eqn:RR; [|discriminate].
          eapply arot_left_pers; [exact Hl| |exact H]. eapply arot_right_pers; [exact Hrl|exact Hrr|exact RR].
      + inversion H; subst. simpl. auto.
  Qed.

  Lemma aset_pers : forall t k v lg t' u lg',
    pers_all P t -> aset t k v lg = Some (t', u, lg') -> pers_all P t'.
  Proof.
    induction t as [K|a lk lv|a nk h s l IHl r IHr]; intros k v lg t' u lg' H S; cbn [aset] in S.
    - discriminate.
    - destruct (bcmp k lk); inversion S; subst; simpl; auto.
    - destruct (pers_node_inv _ _ _ _ _ _ H) as [Hl Hr].
      destruct (blt k nk).
      + destruct (touch l _) as [lg1|]; [|discriminate].
        destruct (aset l k v lg1) as [[[l' upd] lg2]|] eqn:E; [|discriminate].
        pose proof (IHl _ _ _ _ _ _ Hl E) as Hl'.
        destruct upd.
        * inversion S; subst. simpl. auto.
        * destruct (acalc nk l' r lg2) as [[n lg3]|] eqn:A; [|discriminate].
          destruct (abalance n lg3) as [[t'' lg4]|] eqn:B; [|discriminate].
          inversion S; subst.
          unfold acalc in A. destruct (touch l' lg2) as [x1|]; [|discriminate].
          destruct (touch r x1) as [x2|]; [|discriminate]. inversion A; subst.
          eapply abalance_pers; [exact Hl'|exact Hr|exact B].
      + destruct (touch r _) as [lg1|]; [|discriminate].
        destruct (aset r k v lg1) as [[[r' upd] lg2]|] eqn:E; [|discriminate].
        pose proof (IHr _ _ _ _ _ _ Hr E) as Hr'.
        destruct upd.
        * inversion S; subst. simpl. auto.
        * destruct (acalc nk l r' lg2) as [[n lg3]|] eqn:A; [|discriminate].
          destruct (abalance n lg3) as [[t'' lg4]|] eqn:B; [|discriminate].
          inversion S; subst.
          unfold acalc in A. destruct (touch l lg2) as [x1|]; [|discriminate].
          destruct (touch r' x1) as [x2|]; [|discriminate]. inversion A; subst.
          eapply abalance_pers; [exact Hl|exact Hr'|exact B].
  Qed.

  Definition pers_all_o (o : option atree) : Prop := match o with None => True | Some t => pers_all P t end.

  Lemma aset_all_pers : forall kvs o lg o' lg',
    pers_all_o o -> aset_all o kvs lg = Some (o', lg') -> pers_all_o o'.
  Proof.
    induction kvs as [|[k v] kvs IH]; intros o lg o' lg' H S; simpl in S.
    - inversion S; subst. exact H.
    - destruct o as [t|].
      + destruct (aset t k v lg) as [[[t' u] lg1]|] eqn:E; [|discriminate].
        apply (IH (Some t') lg1 o' lg'); [|exact S]. simpl. eapply aset_pers; eauto.
      + apply (IH (Some (ALeaf ANew k v)) lg o' lg'); [|exact S]. simpl. exact I.
  Qed.

End Pers.


(** ---- Part 2: the store ---- *)
Definition bound (m : kvmap) (K : nk) : Prop := m_has m K = true.

Definition kids_in (db : kvmap) (r : nrec) : Prop :=
  match r with NLeaf _ _ => True | NInner _ _ _ lk rk => bound db lk /\ bound db rk end.

Definition hgood (h : hash) : Prop := ordered (toh h) /\ sized (toh h).

Definition db_closed (db : kvmap) : Prop :=
  forall K r, m_get db K = Some r -> kids_in db r /\ hgood (snd K).

Definition lru_closed (db lru : kvmap) : Prop :=
  forall K r, m_get lru K = Some r -> kids_in db r /\ hgood (snd K) /\ bound db K.

Lemma hgood_inner : forall h s a b, hgood (HInner h s a b) -> hgood a /\ hgood b.
Proof.
  intros h s a b [O S]. simpl in O, S. destruct O as (Oa & Ob & _). destruct S as (Sa & Sb & _).
  split; split; auto.
Qed.

Lemma hgood_leaf : forall k v, hgood (HLeaf k v).
Proof. intros k v. split; exact I. Qed.

Lemma m_has_put : forall m K r K', m_has (m_put m K r) K' = nk_eqb K' K || m_has m K'.
Proof. intros m K r K'. unfold m_has, m_put. simpl. destruct (nk_eqb K' K); reflexivity. Qed.

Lemma bound_put : forall m K r K', bound m K' -> bound (m_put m K r) K'.
Proof. intros m K r K' B. unfold bound in *. rewrite m_has_put, B. apply orb_true_r. Qed.

Lemma bound_put_same : forall m K r, bound (m_put m K r) K.
Proof. intros m K r. unfold bound. rewrite m_has_put, nk_eqb_refl. reflexivity. Qed.

Lemma bound_get : forall m K, bound m K -> exists r, m_get m K = Some r.
Proof. intros m K B. unfold bound, m_has in B. destruct (m_get m K) as [r|]; [eauto|discriminate]. Qed.

Lemma get_bound : forall m K r, m_get m K = Some r -> bound m K.
Proof. intros m K r H. unfold bound, m_has. rewrite H. reflexivity. Qed.

Lemma kids_in_mono : forall db db' r, (forall K, bound db K -> bound db' K) -> kids_in db r -> kids_in db' r.
Proof. intros db db' [k v|key h s lk rk] M H; simpl in *; auto. destruct H; auto. Qed.

(** the tree Node.Hash hands to save *)
Fixpoint hashed_ok (db : kvmap) (t : atree) : Prop :=
  match t with
  | AMissing _ => False
  | ALeaf a _ _ => match a with ANew => False | AHashed _ => True | APers K => bound db K end
  | ANode a _ _ _ l r =>
      match a with
      | ANew => False
      | AHashed _ => hashed_ok db l /\ hashed_ok db r
      | APers K => bound db K
      end
  end.

Lemma assign_hashed_ok : forall db pfx bh rh t, pers_all (bound db) t -> hashed_ok db (assign pfx bh rh t).
Proof.
  intros db pfx bh rh. induction t as [K|a k v|a key h s l IHl r IHr]; intros H; simpl in *; auto.
  - destruct a; simpl in *; auto.
  - destruct H as (A & Hl & Hr). destruct a; simpl in *; auto. destruct A.
Qed.

Lemma hashed_ok_mono : forall db db' t, (forall K, bound db K -> bound db' K) -> hashed_ok db t -> hashed_ok db' t.
Proof.
  intros db db'. induction t as [K|a k v|a key h s l IHl r IHr]; intros M H; simpl in *; auto.
  - destruct a; auto.
  - destruct a; auto. destruct H; auto.
Qed.

Lemma hgood_ahash_kids : forall a key h s l r,
  acons (ANode a key h s l r) -> hgood (ahash (ANode a key h s l r)) -> hgood (ahash l) /\ hgood (ahash r).
Proof.
  intros a key h s l r (Cl & Cr & Hk & Ha) G. destruct a as [|K|K]; simpl in G; [|rewrite Ha in G..];
    eapply hgood_inner; eauto.
Qed.

Lemma akey_bound_pers : forall db t, hashed_ok db t -> (match t with ALeaf (APers _) _ _ | ANode (APers _) _ _ _ _ _ => True | _ => False end) -> bound db (akey t).
Proof. intros db [K|[|K|K] k v|[|K|K] key h s l r] H X; simpl in *; tauto. Qed.

Lemma asave_closed : forall mvcc t db lru,
  db_closed db -> lru_closed db lru -> hashed_ok db t -> acons t -> hgood (ahash t) ->
  let dl := asave mvcc t (db, lru) in
  db_closed (fst dl) /\ lru_closed (fst dl) (snd dl) /\
  (forall K, bound db K -> bound (fst dl) K) /\ bound (fst dl) (akey t).
Proof.
  intros mvcc. induction t as [K0|a k v|a key h s l IHl r IHr]; intros db lru D L H C G; simpl in H.
  - destruct H.
  - destruct a as [|K|K]; [destruct H| |]; simpl.
    + (* hashed leaf *)
      destruct C as [v' E].
      split; [|split; [|split]].
      * intros K' r' GET. unfold m_put in GET. simpl in GET. destruct (nk_eqb K' K) eqn:EQ.
        -- apply nk_eqb_eq in EQ. subst K'. inversion GET; subst. split; [exact I|]. rewrite E. apply hgood_leaf.
        -- destruct (D _ _ GET) as [A B]. split; [|exact B]. eapply kids_in_mono; [|exact A]. intros; apply bound_put; auto.
      * intros K' r' GET. destruct (L _ _ GET) as (A & B & B'). split; [|split; auto].
        -- eapply kids_in_mono; [|exact A]. intros; apply bound_put; auto.
        -- apply bound_put; auto.
      * intros; apply bound_put; auto.
      * apply bound_put_same.
    + split; [exact D|]. split; [exact L|]. split; auto.
  - destruct a as [|K|K]; [destruct H| |]; cbn [asave].
    + destruct H as [Hl Hr].
      destruct (acons_node_inv _ _ _ _ _ _ C) as (Cl & Cr & Hk).
      destruct (hgood_ahash_kids _ _ _ _ _ _ C G) as [Gl Gr].
      destruct C as (_ & _ & _ & Ha). simpl in G.
      specialize (IHl db lru D L Hl Cl Gl). cbv zeta in IHl.
      destruct (asave mvcc l (db, lru)) as [db1 lru1]. simpl in IHl. destruct IHl as (D1 & L1 & M1 & B1).
      specialize (IHr db1 lru1 D1 L1 (hashed_ok_mono _ _ _ M1 Hr) Cr Gr). cbv zeta in IHr.
      destruct (asave mvcc r (db1, lru1)) as [db2 lru2]. simpl in IHr. destruct IHr as (D2 & L2 & M2 & B2).
      simpl.
      set (rc := NInner key h s (akey l) (akey r)).
      assert (KI : kids_in (m_put db2 K rc) rc).
      { simpl. split; apply bound_put; auto. }
      split; [|split; [|split]].
      * intros K' r' GET. unfold m_put in GET. simpl in GET. destruct (nk_eqb K' K) eqn:EQ.
        -- apply nk_eqb_eq in EQ. subst K'. inversion GET; subst r'. split; [exact KI|exact G].
        -- destruct (D2 _ _ GET) as [A B]. split; [|exact B]. eapply kids_in_mono; [|exact A]. intros; apply bound_put; auto.
      * assert (LL : lru_closed (m_put db2 K rc) lru2).
        { intros K' r' GET. destruct (L2 _ _ GET) as (A & B & B'). split; [|split; auto].
          - eapply kids_in_mono; [|exact A]. intros; apply bound_put; auto.
          - apply bound_put; auto. }
        destruct (h >? 2); [|exact LL].
        intros K' r' GET. unfold m_put in GET. simpl in GET. destruct (nk_eqb K' K) eqn:EQ.
        -- apply nk_eqb_eq in EQ. subst K'. inversion GET; subst r'. split; [exact KI|]. split; [exact G|apply bound_put_same].
        -- apply LL. exact GET.
      * intros K' B. apply bound_put. auto.
      * apply bound_put_same.
    + simpl. split; [exact D|]. split; [exact L|]. split; auto.
Qed.

(** the log replay without memTree *)
Lemma m_get_del_sub : forall m K K' r, m_get (m_del m K) K' = Some r -> m_get m K' = Some r.
Proof. exact m_get_del. Qed.

Lemma run_ev_closed : forall c db lru mem obs e,
  c_memtree c = false -> db_closed db -> lru_closed db lru ->
  let st := run_ev c db (lru, mem, obs) e in
  lru_closed db (fst (fst st)) /\ snd (fst st) = mem.
Proof.
  intros c db lru mem obs e NM D L. destruct e as [K|K]; cbn [run_ev]; rewrite NM; simpl.
  - destruct (m_has lru K); [simpl; auto|].
    destruct (m_get db K) as [r|] eqn:E; [|simpl; auto]. simpl. split; [|reflexivity].
    destruct (nrec_height r >? 2); [|exact L].
    intros K' r' GET. unfold m_put in GET. simpl in GET. destruct (nk_eqb K' K) eqn:EQ.
    + apply nk_eqb_eq in EQ. subst K'. inversion GET; subst r'. destruct (D _ _ E) as [A B].
      split; [exact A|]. split; [exact B|]. eapply get_bound. exact E.
    + apply L. exact GET.
  - split; [|reflexivity]. intros K' r' GET. apply L. eapply m_get_del. exact GET.
Qed.

Lemma run_log_closed : forall c db lg lru mem obs lru' mem' obs',
  c_memtree c = false -> db_closed db -> lru_closed db lru ->
  run_log c db lg (lru, mem, obs) = (lru', mem', obs') -> lru_closed db lru' /\ mem' = mem.
Proof.
  intros c db lg. unfold run_log. generalize (rev lg). clear lg.
  induction l as [|e l IH]; intros lru mem obs lru' mem' obs' NM D L H; cbn [fold_left] in H.
  - inversion H; subst. auto.
  - pose proof (run_ev_closed c db lru mem obs e NM D L) as X. cbv zeta in X.
    destruct (run_ev c db (lru, mem, obs) e) as [[lru1 mem1] obs1]. simpl in X. destruct X as [L1 E1]. subst mem1.
    exact (IH _ _ _ _ _ _ NM D L1 H).
Qed.

(** materialisation of a bound, good key is complete *)
Lemma mat_pers : forall lk db,
  (forall K r, lk K = Some r -> rec_ok K r /\ kids_in db r /\ hgood (snd K)) ->
  (forall K, bound db K -> lk K <> None) ->
  forall fuel K, bound db K -> hgood (snd K) -> (Z.to_nat (height (toh (snd K))) < fuel)%nat ->
  pers_all (bound db) (mat lk fuel K).
Proof.
  intros lk db F1 F2. induction fuel as [|f IH]; intros K B G LT; [lia|].
  simpl. destruct (lk K) as [rc|] eqn:E; [|exfalso; exact (F2 K B E)].
  destruct (F1 _ _ E) as (RO & KI & _).
  destruct rc as [k v|key h s lkk rkk]; simpl; [exact B|].
  destruct RO as [EH EK]. destruct KI as [Bl Br].
  rewrite EH in G, LT. destruct (hgood_inner _ _ _ _ G) as [Gl Gr].
  destruct G as [_ SZ]. simpl in SZ. destruct SZ as (Sl & Sr & Hh & _). simpl in LT.
  pose proof (sized_height_nonneg _ Sl). pose proof (sized_height_nonneg _ Sr).
  split; [exact B|]. split; apply IH; auto; lia.
Qed.

(** ---- Part 3: the invariant ---- *)
Definition root_ok (db : kvmap) (r : root) : Prop :=
  match r with None => True | Some h => bound db (None, h) end.

Definition tree_ready (db : kvmap) (t : atree) : Prop :=
  hashed_ok db t /\ acons t /\ hgood (ahash t) /\ akey t = (None, ahash t).

Definition pend_closed (db : kvmap) (p : pending) : Prop :=
  forall r t bh, p_get p r = Some (Some (t, bh)) -> tree_ready db t /\ r = Some (ahash t).

Definition closed (s : store) : Prop :=
  store_sound s /\ db_closed (s_db s) /\ lru_closed (s_db s) (s_lru s) /\ pend_closed (s_db s) (s_pend s).

Lemma closed_empty : closed empty_store.
Proof.
  split; [apply empty_sound|]. split; [intros K r H; discriminate|].
  split; [intros K r H; discriminate|]. intros r t bh H. discriminate.
Qed.

Definition is_new (t : atree) : Prop :=
  match t with ALeaf ANew _ _ | ANode ANew _ _ _ _ _ => True | _ => False end.

Lemma acalc_new : forall key l r lg n lg', acalc key l r lg = Some (n, lg') -> is_new n.
Proof.
  intros key l r lg n lg' H. unfold acalc in H.
  destruct (touch l lg) as [x|]; [|discriminate]. destruct (touch r x) as [y|]; [|discriminate].
  inversion H; subst. exact I.
Qed.

Lemma arot_right_new : forall key l r lg t lg', arot_right key l r lg = Some (t, lg') -> is_new t.
Proof.
  intros key l r lg t lg' H. unfold arot_right in H. destruct (touch l lg) as [x|]; [|discriminate].
  destruct l as [K|a k v|a lk lh ls ll lr]; try discriminate.
  destruct (acalc key lr r _) as [[n y]|]; [|discriminate]. eapply acalc_new. exact H.
Qed.

Lemma arot_left_new : forall key l r lg t lg', arot_left key l r lg = Some (t, lg') -> is_new t.
Proof.
  intros key l r lg t lg' H. unfold arot_left in H. destruct (touch r lg) as [x|]; [|discriminate].
  destruct r as [K|a k v|a rk rh rs rl rr]; try discriminate.
  destruct (acalc key l rl _) as [[n y]|]; [|discriminate]. eapply acalc_new. exact H.
Qed.

Lemma abalance_new : forall t lg t' lg', abalance t lg = Some (t', lg') -> is_new t'.
Proof.
  intros [K|a k v|a key h s l r] lg t' lg' H; simpl in H; try discriminate.
  destruct (touch l lg) as [x|]; [|discriminate]. destruct (touch r x) as [y|]; [|discriminate].
  destruct (aheight l - aheight r >? 1).
  - destruct (abal_of l y) as [[bl z]|]; [|discriminate]. destruct (bl >=? 0).
    + eapply arot_right_new; exact H.
    + destruct l as [K|la lk lv|la lk lh ls ll lr]; try discriminate.
      destruct (arot_left lk ll lr _) as [[l' w]|]; [|discriminate]. eapply arot_right_new; exact H.
  - destruct (aheight l - aheight r <? -1).
    + destruct (abal_of r y) as [[br z]|]; [|discriminate]. destruct (br <=? 0).
      * eapply arot_left_new; exact H.
      * destruct r as [K|ra rk rv|ra rk rh rs rl rr]; try discriminate.
        destruct (arot_right rk rl rr _) as [[r' w]|]; [|discriminate]. eapply arot_left_new; exact H.
    + inversion H; subst. exact I.
Qed.

Lemma aset_new : forall t k v lg t' u lg', aset t k v lg = Some (t', u, lg') -> is_new t'.
Proof.
  intros [K|a lk lv|a nk h s l r] k v lg t' u lg' H; cbn [aset] in H; try discriminate.
  - destruct (bcmp k lk); inversion H; subst; exact I.
  - destruct (blt k nk).
    + destruct (touch l _) as [x|]; [|discriminate].
      destruct (aset l k v x) as [[[l' upd] y]|]; [|discriminate]. destruct upd.
      * inversion H; subst. exact I.
      * destruct (acalc nk l' r y) as [[n z]|]; [|discriminate].
        destruct (abalance n z) as [[t'' w]|] eqn:B; [|discriminate]. inversion H; subst.
        eapply abalance_new; exact B.
    + destruct (touch r _) as [x|]; [|discriminate].
      destruct (aset r k v x) as [[[r' upd] y]|]; [|discriminate]. destruct upd.
      * inversion H; subst. exact I.
      * destruct (acalc nk l r' y) as [[n z]|]; [|discriminate].
        destruct (abalance n z) as [[t'' w]|] eqn:B; [|discriminate]. inversion H; subst.
        eapply abalance_new; exact B.
Qed.

Definition root_plain (t : atree) : Prop :=
  is_new t \/ match t with ALeaf (APers K) _ _ | ANode (APers K) _ _ _ _ _ => fst K = None | _ => False end.

Lemma aset_all_root : forall kvs o lg o' lg',
  (match o with Some t => root_plain t | None => True end) ->
  aset_all o kvs lg = Some (o', lg') ->
  match o' with Some t => root_plain t | None => True end.
Proof.
  induction kvs as [|[k v] kvs IH]; intros o lg o' lg' R H; simpl in H.
  - inversion H; subst. exact R.
  - destruct o as [t|].
    + destruct (aset t k v lg) as [[[t' u] lg1]|] eqn:E; [|discriminate].
      apply (IH (Some t') lg1 o' lg'); [|exact H]. left. eapply aset_new; exact E.
    + apply (IH (Some (ALeaf ANew k v)) lg o' lg'); [|exact H]. left. exact I.
Qed.

Lemma assign_root_key : forall pfx bh t,
  root_plain t -> akey (assign pfx bh (aheight t) t) = (None, ahash t).
Proof.
  intros pfx bh [K|a k v|a key h s l r] [N|P]; simpl in *; try tauto.
  - destruct a; try tauto. simpl. unfold mkpfx. simpl. rewrite andb_false_r. reflexivity.
  - destruct a as [|K|K]; try tauto. simpl. destruct K as [p hh]. simpl in *. subst. reflexivity.
  - destruct a; try tauto. simpl. unfold mkpfx. rewrite Z.eqb_refl. simpl. rewrite andb_false_r.
    rewrite !snd_akey, !ahash_assign. reflexivity.
  - destruct a as [|K|K]; try tauto. simpl. destruct K as [p hh]. simpl in *. subst. reflexivity.
Qed.

Section NoMem.
  Variable c : cfg.
  Hypothesis NM : c_memtree c = false.
  Hypothesis NP : c_prune c = false.

  Lemma lookup_nomem : forall s K, lookup c s K =
    match m_get (s_lru s) K with Some r => Some r | None => m_get (s_db s) K end.
  Proof. intros s K. unfold lookup, lookup_in. rewrite NM. destruct (m_get (s_lru s) K); reflexivity. Qed.

  Lemma lookup_facts : forall s, closed s ->
    (forall K r, lookup c s K = Some r -> rec_ok K r /\ kids_in (s_db s) r /\ hgood (snd K)) /\
    (forall K, bound (s_db s) K -> lookup c s K <> None).
  Proof.
    intros s (S & D & L & P). split.
    - intros K r H. split; [eapply lookup_ok; eauto|]. rewrite lookup_nomem in H.
      destruct (m_get (s_lru s) K) as [r0|] eqn:E.
      + inversion H; subst. destruct (L _ _ E) as (A & B & _). auto.
      + apply D. exact H.
    - intros K B. rewrite lookup_nomem. destruct (m_get (s_lru s) K); [discriminate|].
      destruct (bound_get _ _ B) as [r ->]. discriminate.
  Qed.

  Lemma root_ok_good : forall s r, closed s -> root_ok (s_db s) r -> o_good (root_tree r).
  Proof.
    intros s [h|] (S & D & _) R; simpl in *; [|exact I].
    destruct (bound_get _ _ R) as [rc E]. destruct (D _ _ E) as [_ G]. exact G.
  Qed.

  Lemma load_at_pers : forall s r o lg, closed s -> root_ok (s_db s) r -> load_at c s r = Some (o, lg) ->
    pers_all_o (bound (s_db s)) o /\ match o with Some t => root_plain t | None => True end.
  Proof.
    intros s r o lg CL R H. unfold load_at in H. destruct r as [h|].
    - destruct (lookup_facts s CL) as [F1 F2].
      unfold mat_root in H. destruct (lookup c s (None, h)) as [rc|] eqn:E; [|discriminate].
      injection H as <- <-. simpl in R.
      destruct (F1 _ _ E) as (RO & _ & G).
      assert (LT : (Z.to_nat (height (toh (snd ((None, h) : nk)))) < S (Z.to_nat (nrec_height rc)))%nat).
      { destruct rc as [k v|key hh ss lk rk]; simpl in *.
        * destruct RO as [v' ->]. simpl. lia.
        * destruct RO as [-> _]. simpl. lia. }
      split.
      + exact (mat_pers (lookup c s) (s_db s) F1 F2 (S (Z.to_nat (nrec_height rc))) (None, h) R G LT).
      + right. simpl. rewrite E. destruct rc; reflexivity.
    - inversion H; subst. simpl. auto.
  Qed.

  Lemma prepare_closed : forall s r bh kvs o lru1 mem1 obs,
    closed s -> root_ok (s_db s) r -> prepare c s r bh kvs = Ok (o, lru1, mem1, obs) ->
    lru_closed (s_db s) lru1 /\ mem1 = s_mem s /\ map_ok lru1 /\
    match o with Some t => tree_ready (s_db s) t | None => True end.
  Proof.
    intros s r bh kvs o lru1 mem1 obs CL R H.
    pose proof CL as (S & D & L & P).
    destruct (prepare_ok _ _ _ _ _ _ _ _ _ S H) as (C & L1 & M1 & o' & T & RT).
    unfold prepare in H.
    destruct (load_at c s r) as [[o0 lg0]|] eqn:LD; [|discriminate].
    destruct (aset_all o0 kvs lg0) as [[o1 lg]|] eqn:AS; [|discriminate].
    match type of H with context [run_log c (s_db s) ?x _] => set (lg' := x) in H end.
    destruct (run_log c (s_db s) lg' (s_lru s, s_mem s, [])) as [[l1 m1] ob1] eqn:RL.
    injection H as <- <- <- <-.
    destruct (run_log_closed _ _ _ _ _ _ _ _ _ NM D L RL) as [LC ME].
    split; [exact LC|]. split; [exact ME|]. split; [exact L1|].
    destruct (load_at_pers _ _ _ _ CL R LD) as [PA RP].
    pose proof (aset_all_pers _ _ _ _ _ _ PA AS) as PA1.
    pose proof (aset_all_root _ _ _ _ _ RP AS) as RP1.
    destruct o1 as [t|]; [|exact I].
    simpl in C. split; [apply assign_hashed_ok; exact PA1|]. split; [exact C|]. split.
    - (* the new root denotes a good tree *)
      destruct (t_set_all_inv kvs (root_tree r) (root_ok_good s r CL R)) as (o'' & T' & G & _).
      rewrite T in T'. inversion T'; subst o''. simpl in RT.
      destruct o' as [t''|]; [|discriminate]. simpl in RT. inversion RT as [E].
      destruct G as [GO GS]. unfold hgood. rewrite E. rewrite (toh_thash _ (ordered_keyed _ GO)). auto.
    - rewrite ahash_assign. apply assign_root_key. exact RP1.
  Qed.

  Lemma do_save_closed : forall s t bh s',
    closed s -> tree_ready (s_db s) t -> do_save c s t bh = Some s' ->
    store_sound s' ->
    db_closed (s_db s') /\ lru_closed (s_db s') (s_lru s') /\
    (forall K, bound (s_db s) K -> bound (s_db s') K) /\ bound (s_db s') (None, ahash t) /\
    s_pend s' = s_pend s.
  Proof.
    intros s t bh s' (S & D & L & P) (H1 & H2 & H3 & H4) H SS. unfold do_save in H. rewrite NP in H.
    pose proof (asave_closed (c_mvcc c) t (s_db s) (s_lru s) D L H1 H2 H3) as X. cbv zeta in X.
    destruct (asave (c_mvcc c) t (s_db s, s_lru s)) as [db2 lru2]. simpl in X.
    destruct X as (D2 & L2 & M2 & B2). inversion H; subst. simpl. rewrite H4 in B2. auto.
  Qed.

  Lemma pend_closed_mono : forall db db' p,
    (forall K, bound db K -> bound db' K) -> pend_closed db p -> pend_closed db' p.
  Proof.
    intros db db' p M P r t bh H. destruct (P _ _ _ H) as [(A & B & C & D) E].
    split; [|exact E]. split; [eapply hashed_ok_mono; eauto|auto].
  Qed.

  Lemma lru_closed_mono : forall db db' lru,
    (forall K, bound db K -> bound db' K) -> lru_closed db lru -> lru_closed db' lru.
  Proof.
    intros db db' lru M L K r H. destruct (L _ _ H) as (A & B & C).
    split; [eapply kids_in_mono; eauto|auto].
  Qed.

  (** every operation keeps the invariant; Set and Commit of a real tree return a stored root *)
  Lemma st_set_closed : forall s r bh kvs r' s',
    closed s -> root_ok (s_db s) r -> st_set c s r bh kvs = Ok (r', s') ->
    closed s' /\ root_ok (s_db s') r' /\ (forall K, bound (s_db s) K -> bound (s_db s') K).
  Proof.
    intros s r bh kvs r' s' CL R H.
    pose proof CL as (S & D & L & P).
    destruct (st_set_ok _ _ _ _ _ _ _ S H) as [SS _].
    unfold st_set in H.
    destruct (prepare c s r bh kvs) as [[[[o lru1] mem1] obs]| | |] eqn:PR; try discriminate.
    destruct (prepare_closed _ _ _ _ _ _ _ _ CL R PR) as (LC & ME & ML & TR). subst mem1.
    assert (CL1 : closed (with_caches s lru1 (s_mem s))).
    { split; [apply with_caches_sound; auto; apply S|]. split; [exact D|]. split; [exact LC|exact P]. }
    destruct o as [t|].
    - destruct (do_save c (with_caches s lru1 (s_mem s)) t bh) as [s1|] eqn:SV; [|discriminate].
      injection H as <- <-.
      destruct (do_save_closed _ _ _ _ CL1 TR SV SS) as (D1 & L1 & M1 & B1 & PE).
      split; [|split; [|exact M1]].
      + split; [exact SS|]. split; [exact D1|]. split; [exact L1|].
        rewrite PE. simpl. eapply pend_closed_mono; eauto.
      + exact B1.
    - injection H as <- <-. split; [exact CL1|]. split; [exact I|auto].
  Qed.
End NoMem.

Section NoMem2.
  Variable c : cfg.
  Hypothesis NM : c_memtree c = false.
  Hypothesis NP : c_prune c = false.

  Lemma st_memset_closed : forall s r bh kvs r' s',
    closed s -> root_ok (s_db s) r -> st_memset c s r bh kvs = Ok (r', s') ->
    closed s' /\ s_db s' = s_db s.
  Proof.
    intros s r bh kvs r' s' CL R H.
    pose proof CL as (S & D & L & P).
    destruct (st_memset_ok _ _ _ _ _ _ _ S H) as [SS _].
    unfold st_memset in H. destruct kvs as [|kv kvs].
    - injection H as <- <-. split; [|reflexivity].
      split; [exact SS|]. split; [exact D|]. split; [exact L|].
      intros r0 t bh0 G. simpl in G. destruct (root_eqb r0 r); [discriminate|].
      eapply P. eapply p_get_del. exact G.
    - destruct (prepare c s r bh (kv :: kvs)) as [[[[o lru1] mem1] obs]| | |] eqn:PR; try discriminate.
      destruct (prepare_closed c NM _ _ _ _ _ _ _ _ CL R PR) as (LC & ME & ML & TR). subst mem1.
      destruct o as [t|].
      + injection H as <- <-. split; [|reflexivity].
        split; [exact SS|]. split; [exact D|]. split; [exact LC|].
        intros r0 t0 bh0 G. simpl in G. destruct (root_eqb r0 (Some (ahash t))) eqn:EQ.
        * inversion G; subst. apply root_eqb_eq in EQ. auto.
        * eapply P. eapply p_get_del. exact G.
      + injection H as <- <-. split; [|reflexivity].
        split; [exact SS|]. split; [exact D|]. split; [exact LC|exact P].
  Qed.

  Lemma st_commit_closed : forall s r r' s',
    closed s -> st_commit c s r = Ok (r', s') ->
    closed s' /\ (forall K, bound (s_db s) K -> bound (s_db s') K) /\
    (forall t bh, p_get (s_pend s) r = Some (Some (t, bh)) -> root_ok (s_db s') r').
  Proof.
    intros s r r' s' CL H.
    pose proof CL as (S & D & L & P).
    destruct (st_commit_ok _ _ _ _ _ S H) as [SS ->].
    unfold st_commit in H. destruct (p_get (s_pend s) r) as [[[t bh]|]|] eqn:PG; try discriminate.
    - destruct (do_save c s t bh) as [s1|] eqn:SV; [|discriminate].
      injection H as <-.
      destruct (P _ _ _ PG) as [TR RR].
      assert (SS1 : store_sound s1).
      { destruct TR as (_ & AC & _). exact (do_save_sound _ _ _ _ _ S AC SV). }
      destruct (do_save_closed c NP _ _ _ _ CL TR SV SS1) as (D1 & L1 & M1 & B1 & PE).
      split; [|split; [exact M1|]].
      + split; [exact SS|]. split; [exact D1|]. split; [exact L1|].
        simpl. intros r0 t0 bh0 G. apply p_get_del in G.
        destruct (P _ _ _ G) as [(A1 & A2 & A3 & A4) A5]. split; [|exact A5].
        split; [eapply hashed_ok_mono; eauto|auto].
      + intros t0 bh0 _. subst r. exact B1.
    - injection H as <-. split; [|split; [auto|]].
      + split; [exact SS|]. split; [exact D|]. split; [exact L|].
        simpl. intros r0 t0 bh0 G. apply p_get_del in G. eapply P; eauto.
      + intros t0 bh0 X. discriminate.
  Qed.

  Lemma st_rollback_closed : forall s r r' s',
    closed s -> st_rollback c s r = Ok (r', s') -> closed s' /\ s_db s' = s_db s.
  Proof.
    intros s r r' s' CL H. pose proof CL as (S & D & L & P).
    destruct (st_rollback_ok _ _ _ _ _ S H) as [SS _].
    unfold st_rollback in H. destruct (p_get (s_pend s) r); [|discriminate].
    injection H as <- <-. split; [|reflexivity].
    split; [exact SS|]. split; [exact D|]. split; [exact L|].
    simpl. intros r0 t0 bh0 G. apply p_get_del in G. eapply P; eauto.
  Qed.

  Lemma st_probe_closed : forall s r o s',
    closed s -> st_probe c s r = Ok (o, s') ->
    closed s' /\ s_db s' = s_db s.
  Proof.
    intros s r o s' CL H. pose proof CL as (S & D & L & P).
    destruct (st_probe_ok _ _ _ _ _ S H) as [SS _].
    unfold st_probe in H. destruct (load_at c s r) as [[[t|] lg]|]; try discriminate.
    - destruct (has_missing t); [discriminate|].
      destruct (run_log c (s_db s) (visits t []) (s_lru s, s_mem s, [])) as [[l1 m1] o1] eqn:RL.
      injection H as <- <-.
      destruct (run_log_closed _ _ _ _ _ _ _ _ _ NM D L RL) as [LC ME].
      split; [|reflexivity].
      split; [exact SS|]. split; [exact D|]. split; [exact LC|exact P].
    - injection H as <- <-. split; [exact CL|reflexivity].
  Qed.

  (** histories whose updates only build on the empty root or on roots that the
      history committed (Set, or Commit of a real pending tree) *)
  Fixpoint wf_exec (s : store) (committed : list root) (ops : list sop) : Prop :=
    match ops with
    | [] => True
    | o :: tl =>
        match o with
        | SSet r _ _ | SMemSet r _ _ => In r committed
        | _ => True
        end /\
        let '(s', cr) := apply_sop c s o in
        let cr' := match o with
                   | SCommit r => match p_get (s_pend s) r with Some (Some _) => cr | _ => None end
                   | _ => cr
                   end in
        wf_exec s' (match cr' with Some r => r :: committed | None => committed end) tl
    end.

  Fixpoint exec' (s : store) (committed : list root) (ops : list sop) : store * list root :=
    match ops with
    | [] => (s, committed)
    | o :: tl =>
        let '(s', cr) := apply_sop c s o in
        let cr' := match o with
                   | SCommit r => match p_get (s_pend s) r with Some (Some _) => cr | _ => None end
                   | _ => cr
                   end in
        exec' s' (match cr' with Some r => r :: committed | None => committed end) tl
    end.

  Definition inv (s : store) (committed : list root) : Prop :=
    closed s /\ forall r, In r committed -> root_ok (s_db s) r.

  Lemma root_ok_mono : forall db db' r, (forall K, bound db K -> bound db' K) -> root_ok db r -> root_ok db' r.
  Proof. intros db db' [h|] M R; simpl in *; auto. Qed.

  Lemma step_inv : forall s cm o,
    inv s cm ->
    match o with SSet r _ _ | SMemSet r _ _ => In r cm | _ => True end ->
    let '(s', cr) := apply_sop c s o in
    let cr' := match o with
               | SCommit r => match p_get (s_pend s) r with Some (Some _) => cr | _ => None end
               | _ => cr
               end in
    inv s' (match cr' with Some r => r :: cm | None => cm end).
  Proof.
    intros s cm o (CL & CM) W. destruct o as [r bh kvs|r bh kvs|r|r|r]; simpl.
    - destruct (st_set c s r bh kvs) as [[r' s']| | |] eqn:H; try (split; [exact CL|exact CM]).
      destruct (st_set_closed c NM NP _ _ _ _ _ _ CL (CM _ W) H) as (CL' & R' & M).
      split; [exact CL'|].
      intros r0 [<-|IN]; [exact R'|]. exact (root_ok_mono _ _ _ M (CM _ IN)).
    - destruct (st_memset c s r bh kvs) as [[r' s']| | |] eqn:H; try (split; [exact CL|exact CM]).
      destruct (st_memset_closed _ _ _ _ _ _ CL (CM _ W) H) as (CL' & DB).
      split; [exact CL'|]. intros r0 IN. rewrite DB. auto.
    - destruct (st_commit c s r) as [[r' s']| | |] eqn:H.
      + destruct (st_commit_closed _ _ _ _ CL H) as (CL' & M & RO).
        destruct (p_get (s_pend s) r) as [[[t bh]|]|] eqn:PG.
        * split; [exact CL'|]. intros r0 [<-|IN]; [exact (RO _ _ eq_refl)|]. exact (root_ok_mono _ _ _ M (CM _ IN)).
        * split; [exact CL'|]. intros r0 IN. exact (root_ok_mono _ _ _ M (CM _ IN)).
        * split; [exact CL'|]. intros r0 IN. exact (root_ok_mono _ _ _ M (CM _ IN)).
      + destruct (p_get (s_pend s) r) as [[x|]|]; (split; [exact CL|exact CM]).
      + destruct (p_get (s_pend s) r) as [[x|]|]; (split; [exact CL|exact CM]).
      + destruct (p_get (s_pend s) r) as [[x|]|]; (split; [exact CL|exact CM]).
    - destruct (st_rollback c s r) as [[r' s']| | |] eqn:H; try (split; [exact CL|exact CM]).
      destruct (st_rollback_closed _ _ _ _ CL H) as (CL' & DB). simpl.
      split; [exact CL'|]. intros r0 IN. rewrite DB. auto.
    - destruct (st_probe c s r) as [[o' s']| | |] eqn:H; try (split; [exact CL|exact CM]).
      destruct (st_probe_closed _ _ _ _ CL H) as (CL' & DB). simpl.
      split; [exact CL'|]. intros r0 IN. rewrite DB. auto.
  Qed.

  Lemma exec'_inv : forall ops s cm,
    inv s cm -> wf_exec s cm ops -> inv (fst (exec' s cm ops)) (snd (exec' s cm ops)).
  Proof.
    induction ops as [|o ops IH]; intros s cm I W; simpl; [exact I|].
    simpl in W. destruct W as [W1 W2].
    pose proof (step_inv s cm o I W1) as ST.
    destruct (apply_sop c s o) as [s' cr]. apply IH; auto.
  Qed.

  (** The totality theorem for configurations without memTree and without prune:
      after every well-formed history, every update of a committed root succeeds. *)
  Theorem update_total_nomem : forall ops r pending bh kvs,
    wf_exec empty_store [None] ops ->
    In r (snd (exec' empty_store [None] ops)) ->
    exists r' s', st_update pending c (fst (exec' empty_store [None] ops)) r bh kvs = Ok (r', s').
  Proof.
    intros ops r pending bh kvs W IN.
    assert (I0 : inv empty_store [None]).
    { split; [apply closed_empty|]. intros r0 [<-|[]]. exact I. }
    destruct (exec'_inv ops empty_store [None] I0 W) as (CL & CM).
    set (s := fst (exec' empty_store [None] ops)) in *.
    pose proof (CM _ IN) as R.
    apply update_total_partial.
    - apply CL.
    - eapply root_ok_good; eauto.
    - unfold resolvable. destruct (load_at c s r) as [[o lg]|] eqn:LD.
      + destruct (load_at_pers c NM _ _ _ _ CL R LD) as [PA _]. destruct o as [t|]; [|reflexivity].
        simpl in PA. apply pers_all_full in PA. unfold full in PA. rewrite PA. reflexivity.
      + exfalso. unfold load_at in LD. destruct r as [h|]; [|discriminate].
        destruct (lookup_facts c NM s CL) as [_ F2]. simpl in R. specialize (F2 _ R).
        unfold mat_root in LD. destruct (lookup c s (None, h)); [discriminate|congruence].
    - unfold save_quiet. rewrite NP. reflexivity.
  Qed.
End NoMem2.
