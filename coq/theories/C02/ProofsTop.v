(** C02 — the top-level statements: the root of an update is C01's pure root
    (hence independent of configuration, block height, caches, pending trees
    and of Set versus MemSet+Commit); histories; the failing configuration. *)
From Coq Require Import List ZArith NArith Bool Lia.
From C33 Require Import Lib.Harness C01.Keys C01.KeysFacts C01.Model C01.Store C01.Inv C01.ProofsStore
  C02.Model C02.ProofsHash C02.ProofsSet C02.ProofsStore.
Import ListNotations.
Open Scope Z_scope.

(** an update, directly or as a pending tree *)
Definition st_update (pending : bool) (c : cfg) (s : store) (r : root) (bh : Z)
  (kvs : list (bytes * bytes)) : res (root * store) :=
  if pending then st_memset c s r bh kvs else st_set c s r bh kvs.

Theorem root_deterministic_state : forall pending c s r bh kvs r' s',
  store_sound s ->
  st_update pending c s r bh kvs = Ok (r', s') ->
  exists o', t_set_all (root_tree r) kvs = Some o' /\ r' = tree_root o'.
Proof.
  intros [|] c s r bh kvs r' s' S H; simpl in H.
  - apply (st_memset_ok _ _ _ _ _ _ _ S H).
  - apply (st_set_ok _ _ _ _ _ _ _ S H).
Qed.

Theorem root_cfg_independent : forall p1 p2 c1 c2 s1 s2 r bh1 bh2 kvs r1 r2 s1' s2',
  store_sound s1 -> store_sound s2 ->
  st_update p1 c1 s1 r bh1 kvs = Ok (r1, s1') ->
  st_update p2 c2 s2 r bh2 kvs = Ok (r2, s2') ->
  r1 = r2.
Proof.
  intros p1 p2 c1 c2 s1 s2 r bh1 bh2 kvs r1 r2 s1' s2' S1 S2 H1 H2.
  destruct (root_deterministic_state _ _ _ _ _ _ _ _ S1 H1) as (t1 & T1 & E1).
  destruct (root_deterministic_state _ _ _ _ _ _ _ _ S2 H2) as (t2 & T2 & E2).
  congruence.
Qed.

(** every operation keeps the database, both caches and the pending trees sound *)
Theorem sound_invariant : forall c s, store_sound s ->
  (forall r bh kvs r' s', st_set c s r bh kvs = Ok (r', s') -> store_sound s') /\
  (forall r bh kvs r' s', st_memset c s r bh kvs = Ok (r', s') -> store_sound s') /\
  (forall r r' s', st_commit c s r = Ok (r', s') -> store_sound s') /\
  (forall r r' s', st_rollback c s r = Ok (r', s') -> store_sound s') /\
  (forall r o s', st_probe c s r = Ok (o, s') -> store_sound s').
Proof.
  intros c s S. split; [|split; [|split; [|split]]].
  - intros r bh kvs r' s' H. apply (st_set_ok _ _ _ _ _ _ _ S H).
  - intros r bh kvs r' s' H. apply (st_memset_ok _ _ _ _ _ _ _ S H).
  - intros r r' s' H. apply (st_commit_ok _ _ _ _ _ S H).
  - intros r r' s' H. apply (st_rollback_ok _ _ _ _ _ S H).
  - intros r o s' H. apply (st_probe_ok _ _ _ _ _ S H).
Qed.

Theorem cache_sound_invariant : forall c s, store_sound s ->
  (forall r bh kvs r' s', st_set c s r bh kvs = Ok (r', s') -> cache_sound s') /\
  (forall r bh kvs r' s', st_memset c s r bh kvs = Ok (r', s') -> cache_sound s') /\
  (forall r r' s', st_commit c s r = Ok (r', s') -> cache_sound s') /\
  (forall r r' s', st_rollback c s r = Ok (r', s') -> cache_sound s') /\
  (forall r o s', st_probe c s r = Ok (o, s') -> cache_sound s').
Proof.
  intros c s S. destruct (sound_invariant c s S) as (A & B & C & D & E).
  split; [|split; [|split; [|split]]].
  - intros r bh kvs r' s' H. apply (A _ _ _ _ _ H).
  - intros r bh kvs r' s' H. apply (B _ _ _ _ _ H).
  - intros r r' s' H. apply (C _ _ _ H).
  - intros r r' s' H. apply (D _ _ _ H).
  - intros r o s' H. apply (E _ _ _ H).
Qed.

(** ---- MemSet + Commit = Set ---- *)
Lemma aset_all_some : forall kvs t lg o' lg',
  aset_all (Some t) kvs lg = Some (o', lg') -> o' <> None.
Proof.
  induction kvs as [|[k v] kvs IH]; intros t lg o' lg' H; simpl in H.
  - inversion H; subst. discriminate.
  - destruct (aset t k v lg) as [[[t' u] lg1]|]; [|discriminate]. eapply IH. exact H.
Qed.

Lemma prepare_some : forall c s r bh kvs o lru1 mem1 obs,
  kvs <> [] -> prepare c s r bh kvs = Ok (o, lru1, mem1, obs) -> o <> None.
Proof.
  intros c s r bh kvs o lru1 mem1 obs NE H. unfold prepare in H.
  destruct (load_at c s r) as [[o0 lg0]|]; [|discriminate].
  destruct (aset_all o0 kvs lg0) as [[o1 lg]|] eqn:AS; [|discriminate].
  destruct (run_log c (s_db s) lg (s_lru s, s_mem s, [])) as [[l1 m1] ob1].
  inversion H; subst; clear H.
  assert (o1 <> None).
  { destruct kvs as [|[k v] kvs]; [congruence|]. simpl in AS. destruct o0 as [t|].
    - destruct (aset t k v lg0) as [[[t' u] lg1]|]; [|discriminate]. eapply aset_all_some. exact AS.
    - eapply aset_all_some. exact AS. }
  destruct o1; [discriminate|congruence].
Qed.

Lemma do_save_noprune : forall c s t bh, c_prune c = false -> exists s', do_save c s t bh = Some s'.
Proof.
  intros c s t bh NP. unfold do_save. rewrite NP.
  destruct (asave (c_mvcc c) t (s_db s, s_lru s)) as [db2 lru2]. eexists. reflexivity.
Qed.

Theorem memset_commit_eq_set : forall c s r bh kvs r1 s1,
  kvs <> [] -> st_memset c s r bh kvs = Ok (r1, s1) ->
  (forall r2 s2, st_commit c s1 r1 = Ok (r2, s2) -> r2 = r1) /\
  (forall r' s' s2, st_set c s r bh kvs = Ok (r', s') -> st_commit c s1 r1 = Ok (r1, s2) ->
                    r' = r1 /\ s_db s2 = s_db s' /\ s_idx s2 = s_idx s') /\
  (forall r' s', st_set c s r bh kvs = Ok (r', s') -> r' = r1) /\
  (c_prune c = false ->
   exists s2 s', st_commit c s1 r1 = Ok (r1, s2) /\ st_set c s r bh kvs = Ok (r1, s')).
Proof.
  intros c s r bh kvs r1 s1 NE H. unfold st_memset in H.
  destruct kvs as [|kv kvs]; [congruence|]. remember (kv :: kvs) as kvs0.
  unfold st_set.
  destruct (prepare c s r bh kvs0) as [[[[o lru1] mem1] obs]| | |] eqn:PR; try discriminate.
  pose proof (prepare_some _ _ _ _ _ _ _ _ _ NE PR) as NN.
  destruct o as [t|]; [|congruence].
  injection H as <- <-.
  set (mem2 := if c_memtree c then _ else mem1).
  set (s1 := with_pend (with_caches s lru1 mem2) _).
  assert (PG : p_get (s_pend s1) (Some (ahash t)) = Some (Some (t, bh))).
  { subst s1. simpl. rewrite hash_eqb_refl. reflexivity. }
  unfold st_commit. rewrite PG.
  split; [|split; [|split]].
  - intros r2 s2 E. destruct (do_save c s1 t bh); [|discriminate]. inversion E. reflexivity.
  - intros r' s' s2 E1 E2.
    destruct (do_save c (with_caches s lru1 mem1) t bh) as [sa|] eqn:SA; [|discriminate].
    destruct (do_save c s1 t bh) as [sb|] eqn:SB; [|discriminate].
    inversion E1; subst. inversion E2; subst.
    destruct (do_save_db _ _ _ _ _ SA) as (DA & IA & _).
    destruct (do_save_db _ _ _ _ _ SB) as (DB & IB & _).
    split; [reflexivity|]. simpl. rewrite DA, DB, IA, IB. subst s1. simpl. auto.
  - intros r' s' E.
    destruct (do_save c (with_caches s lru1 mem1) t bh) as [sa|]; [|discriminate].
    inversion E. reflexivity.
  - intros NP.
    destruct (do_save_noprune c s1 t bh NP) as [sb SB].
    destruct (do_save_noprune c (with_caches s lru1 mem1) t bh NP) as [sa SA].
    rewrite SB, SA. eexists. eexists. split; reflexivity.
Qed.

(** the empty update: MemSet answers with the parent's root without loading it,
    and Commit of that answer changes nothing but the table of pending trees *)
Theorem memset_empty : forall c s r,
  exists s1, st_memset c s r 0 [] = Ok (r, s1) /\ s_db s1 = s_db s /\
  exists s2, st_commit c s1 r = Ok (r, s2) /\ s_db s2 = s_db s.
Proof.
  intros c s r. eexists. split; [reflexivity|]. split; [reflexivity|].
  unfold st_commit. simpl. rewrite root_eqb_refl. eexists. split; reflexivity.
Qed.

(** ---- histories ---- *)
Inductive sop :=
| SSet (r : root) (bh : Z) (kvs : list (bytes * bytes))
| SMemSet (r : root) (bh : Z) (kvs : list (bytes * bytes))
| SCommit (r : root)
| SRollback (r : root)
| SProbe (r : root).

(** the store after an operation (unchanged if it fails) and the root it
    committed, if any *)
Definition apply_sop (c : cfg) (s : store) (o : sop) : store * option root :=
  match o with
  | SSet r bh kvs => match st_set c s r bh kvs with Ok (r', s') => (s', Some r') | _ => (s, None) end
  | SMemSet r bh kvs => match st_memset c s r bh kvs with Ok (_, s') => (s', None) | _ => (s, None) end
  | SCommit r => match st_commit c s r with Ok (r', s') => (s', Some r') | _ => (s, None) end
  | SRollback r => match st_rollback c s r with Ok (_, s') => (s', None) | _ => (s, None) end
  | SProbe r => match st_probe c s r with Ok (_, s') => (s', None) | _ => (s, None) end
  end.

Fixpoint exec (c : cfg) (s : store) (committed : list root) (ops : list sop)
  : store * list root :=
  match ops with
  | [] => (s, committed)
  | o :: tl =>
      let '(s', cr) := apply_sop c s o in
      exec c s' (match cr with Some r => r :: committed | None => committed end) tl
  end.

Lemma apply_sop_sound : forall c s o, store_sound s -> store_sound (fst (apply_sop c s o)).
Proof.
  intros c s o S. destruct (sound_invariant c s S) as (A & B & C & D & E).
  destruct o as [r bh kvs|r bh kvs|r|r|r]; simpl.
  - destruct (st_set c s r bh kvs) as [[r' s']| | |] eqn:H; simpl; eauto.
  - destruct (st_memset c s r bh kvs) as [[r' s']| | |] eqn:H; simpl; eauto.
  - destruct (st_commit c s r) as [[r' s']| | |] eqn:H; simpl; eauto.
  - destruct (st_rollback c s r) as [[r' s']| | |] eqn:H; simpl; eauto.
  - destruct (st_probe c s r) as [[r' s']| | |] eqn:H; simpl; eauto.
Qed.

Theorem exec_sound : forall c ops s cm, store_sound s -> store_sound (fst (exec c s cm ops)).
Proof.
  intros c. induction ops as [|o ops IH]; intros s cm S; simpl; [exact S|].
  pose proof (apply_sop_sound c s o S) as S'.
  destruct (apply_sop c s o) as [s' cr]. simpl in S'. apply IH. exact S'.
Qed.

(** Full strength 1: the root of every successful update is the pure root. *)
Definition root_deterministic_full : Prop :=
  forall pending c ops r bh kvs r' s',
    let s := fst (exec c empty_store [None] ops) in
    st_update pending c s r bh kvs = Ok (r', s') ->
    exists o', t_set_all (root_tree r) kvs = Some o' /\ r' = tree_root o'.

Theorem root_deterministic : root_deterministic_full.
Proof.
  intros pending c ops r bh kvs r' s' s H.
  apply (root_deterministic_state pending c s r bh kvs r' s'); [|exact H].
  apply exec_sound. apply empty_sound.
Qed.

(** Full strength 2: after any history, an update of the empty root or of a root
    that the history committed succeeds, under every configuration. *)
Definition update_total_full : Prop :=
  forall c ops r pending bh kvs,
    let '(s, committed) := exec c empty_store [None] ops in
    In r committed ->
    exists r' s', st_update pending c s r bh kvs = Ok (r', s').

From Coq Require Strings.String.
Import Coq.Strings.String.StringSyntax.
Local Open Scope string_scope.
Definition kb (s : String.string) : bytes := bs s.

(** ... 2 fails with prefix + memTree after a rolled-back rewrite. *)
Definition kf_cfg : cfg := mk_cfg true false false 0 true false 0.

Definition kf_ops : list sop :=
  let r0 := match st_set kf_cfg empty_store None 1 [(kb "c", kb "0"); (kb "a", kb "0")] with
            | Ok (r, _) => r | _ => None end in
  [ SSet None 1 [(kb "c", kb "0"); (kb "a", kb "0")];
    SMemSet r0 3 [(kb "c", kb "1"); (kb "c", kb "0"); (kb "a", kb "0")];
    SRollback r0 ].

Theorem update_total_refuted : ~ update_total_full.
Proof.
  intros F.
  specialize (F kf_cfg kf_ops
                (match st_set kf_cfg empty_store None 1 [(kb "c", kb "0"); (kb "a", kb "0")] with
                 | Ok (r, _) => r | _ => None end)
                false 1 [(kb "g", kb "1")]).
  vm_compute in F.
  destruct F as (r' & s' & E); [left; reflexivity|discriminate].
Qed.
