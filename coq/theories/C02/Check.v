(** C02 — correspondence cases.  One case = one generated history of store
    operations, replayed by the harness against the real mavl store under every
    sub-option combination [mavl.New] accepts and under "direct Set" versus
    "MemSet then Commit", with what every run returned.

    History ([uop], 1-based numbering; a parent / target is the number of an
    earlier operation, 0 = the empty root):
    - [UUpd parent height kvs now]: an update of [parent]'s root.  [now = true]:
      applied for good — by [Store.Set] in a direct run, by [MemSet] immediately
      followed by [Commit] in a pending run; [now = false]: [MemSet] only.
    - [UCommit n] / [URollback n]: Commit / Rollback of the root op [n] returned.
    - [UProbe n]: a fresh tree loaded at the root of op [n], every node visited.

    Observation of one operation: result code (0 ok, 1 ErrNodeNotExist,
    2 ErrHashNotFound, 3 panic, 4 anything else, 5 skipped because the root it
    refers to is not available in this run), the class of the returned root
    (0 = empty; otherwise the roots of the whole case — all runs, in run order —
    numbered by first appearance of their bytes), and for probes the node
    structure in pre-order.  A run stops after its first panic.

    model_agrees: every run's observations equal the model's ([Model.v] run
                  under that configuration), including the cross-run equality
                  pattern of roots (the class numbering is recomputed on the
                  model's symbolic roots).
    spec_holds:   computed from the implementation's outputs only: every run
                  reports exactly what the first (plain, direct) run reports; no
                  legal operation fails; Commit returns the root MemSet returned;
                  an empty update returns its parent's root; and within the
                  history the root is a function of (parent root, ordered writes).
    known finding 1: the only deviations are panics in runs whose configuration
                  has both prefix and memTree, at an operation that follows a
                  MemSet not committed by then.
    known finding 2: ... or panics of a MemSet+Commit / Commit in a prune + memTree
                  run at a block height that is not above all earlier ones.
    (former known finding 3 — a direct Set with no writes returning another root under
    prune — is repaired in chain33 7d7bddb: such a deviation is a plain violation.) *)
From Coq Require Import List ZArith NArith Bool FMapPositive.
From C33 Require Import Lib.Harness C01.Keys C01.Model C01.Store C02.Model.
(* the wire types of C01's harness (KV, SL, SN) and its string table are reused *)
From C33 Require Export C01.Check.
Import ListNotations.
Open Scope Z_scope.

Inductive uop :=
| UUpd (parent : N) (bh : Z) (kvs : list ikv) (now : bool)
| UCommit (n : N)
| URollback (n : N)
| UProbe (n : N).

Inductive obs := OB (code cls : N) (shape : list ishape).

Inductive runobs :=
| RSame                              (* exactly the observations of the first run *)
| RCut (i : N) (o : obs)             (* the first i-1 observations of the first run, then [o], then nothing *)
| RFull (l : list obs).

(** configuration bits: 1 prefix, 2 mvcc, 4 prune, 8 memtree, 16 memval,
    32 pruneHeight = 1000000 (else 0), 64 tkCloseCacheLen = 7 (else 0) *)
Inductive run := RUN (bits : N) (direct : bool) (o : runobs).

Inductive case := CASE (tab : list bytes) (ops : list uop) (runs : list run).

Definition cfg_of_bits (b : N) : cfg :=
  new_cfg (mk_cfg (N.testbit b 0) (N.testbit b 1) (N.testbit b 2)
                  (if N.testbit b 5 then 1000000 else 0)
                  (N.testbit b 3) (N.testbit b 4)
                  (if N.testbit b 6 then 7 else 0)).

(** ---- the model's run ---- *)
Record mobs := mk_mobs { mo_code : N; mo_root : root; mo_shape : list shape_item }.

Fixpoint ashape (t : atree) : list shape_item :=
  match t with
  | AMissing _ => []
  | ALeaf _ k _ => [SLeaf k]
  | ANode _ k h s l r => SNode k h s :: ashape l ++ ashape r
  end.

Definition code_of {A} (r : res A) : N :=
  match r with Ok _ => 0 | ErrNotExist => 1 | ErrHashNotFound => 2 | Panic => 3 end%N.

(** state of a run: store, the root each operation returned (if ok), stopped *)
Record rstate := mk_rs { rs_store : store; rs_roots : list (option root); rs_stop : bool;
                         rs_out : list mobs }.

Definition root_ref (roots : list (option root)) (n : N) : option root :=
  if (n =? 0)%N then Some None
  else match nth_error roots (N.to_nat n - 1) with
       | Some (Some r) => Some r
       | _ => None
       end.

Definition emit (st : rstate) (s' : store) (code : N) (r : option root) (sh : list shape_item) : rstate :=
  mk_rs s' (rs_roots st ++ [r]) (rs_stop st || (code =? 3)%N)
        (rs_out st ++ [mk_mobs code (match r with Some x => x | None => None end) sh]).

Definition skip (st : rstate) : rstate := emit st (rs_store st) 5%N None [].

Definition of_res (st : rstate) (x : res (root * store)) : rstate :=
  match x with
  | Ok (r, s') => emit st s' 0%N (Some r) []
  | _ => emit st (rs_store st) (code_of x) None []
  end.

Definition run_op (c : cfg) (direct : bool) (tab : N -> bytes) (st : rstate) (o : uop) : rstate :=
  if rs_stop st then st else
  let s := rs_store st in
  match o with
  | UUpd parent bh kvs now =>
      match root_ref (rs_roots st) parent with
      | None => skip st
      | Some r =>
          let kv := map (fun x => match x with KV k v => (tab k, tab v) end) kvs in
          if now && direct then of_res st (st_set c s r bh kv)
          else
            match st_memset c s r bh kv with
            | Ok (r1, s1) =>
                if now then
                  match st_commit c s1 r1 with
                  | Ok (r2, s2) => if root_eqb r1 r2 then emit st s2 0%N (Some r2) []
                                   else emit st s2 4%N None []
                  | x => emit st s1 (code_of x) None []
                  end
                else emit st s1 0%N (Some r1) []
            | x => emit st s (code_of x) None []
            end
      end
  | UCommit n =>
      match root_ref (rs_roots st) n with
      | None => skip st
      | Some r => of_res st (st_commit c s r)
      end
  | URollback n =>
      match root_ref (rs_roots st) n with
      | None => skip st
      | Some r => of_res st (st_rollback c s r)
      end
  | UProbe n =>
      match root_ref (rs_roots st) n with
      | None => skip st
      | Some r =>
          match st_probe c s r with
          | Ok (o', s') => emit st s' 0%N (Some r)
                                (match o' with Some t => ashape t | None => [] end)
          | x => emit st s (code_of x) None []
          end
      end
  end.

(** ---- class numbering over the symbolic roots ---- *)
Fixpoint index_of (h : hash) (seen : list hash) (i : N) : option N :=
  match seen with
  | [] => None
  | h' :: tl => if hash_eqb h h' then Some i else index_of h tl (i + 1)%N
  end.

Definition class_of (seen : list hash) (r : root) : N * list hash :=
  match r with
  | None => (0%N, seen)
  | Some h => match index_of h seen 1%N with
              | Some i => (i, seen)
              | None => (N.of_nat (length seen) + 1, seen ++ [h])%N
              end
  end.

Definition obs_eqb (a b : obs) (tabf : N -> bytes) : bool :=
  match a, b with
  | OB c1 k1 s1, OB c2 k2 s2 =>
      (c1 =? c2)%N && (k1 =? k2)%N &&
      list_eqb shape_eqb (map (fun x => match x with SL k => SLeaf (tabf k) | SN k h s => SNode (tabf k) h s end) s1)
                         (map (fun x => match x with SL k => SLeaf (tabf k) | SN k h s => SNode (tabf k) h s end) s2)
  end.

Definition rs_shapes (tabf : N -> bytes) (sh : list ishape) : list shape_item :=
  map (fun x => match x with SL k => SLeaf (tabf k) | SN k h s => SNode (tabf k) h s end) sh.

(** run the model operation by operation next to one run's observations,
    threading the numbering of roots *)
Fixpoint agree_ops (c : cfg) (direct : bool) (tabf : N -> bytes)
  (st : rstate) (seen : list hash) (ops : list uop) (os : list obs) : bool * list hash :=
  match os with
  | [] => (match ops with [] => true | _ => rs_stop st end, seen)
  | OB code cls sh :: os' =>
      match ops with
      | [] => (false, seen)
      | o :: ops' =>
          if rs_stop st then (false, seen) else
          let st' := run_op c direct tabf st o in
          match rev (rs_out st') with
          | [] => (false, seen)
          | m :: _ =>
              let '(k, seen') := class_of seen (mo_root m) in
              let ok := (code =? mo_code m)%N && (cls =? k)%N &&
                        list_eqb shape_eqb (rs_shapes tabf sh) (mo_shape m) in
              let '(b, seen'') := agree_ops c direct tabf st' seen' ops' os' in
              (ok && b, seen'')
          end
      end
  end.

Definition expand (ref : list obs) (o : runobs) : list obs :=
  match o with
  | RSame => ref
  | RCut i ob => firstn (N.to_nat i - 1) ref ++ [ob]
  | RFull l => l
  end.

Definition ref_obs (runs : list run) : list obs :=
  match runs with
  | RUN _ _ (RFull l) :: _ => l
  | _ => []
  end.

Fixpoint agree_runs (tabf : N -> bytes) (ops : list uop) (ref : list obs)
  (seen : list hash) (runs : list run) : bool :=
  match runs with
  | [] => true
  | RUN bits direct o :: tl =>
      let '(b, seen') := agree_ops (cfg_of_bits bits) direct tabf
                                   (mk_rs empty_store [] false []) seen ops (expand ref o) in
      b && agree_runs tabf ops ref seen' tl
  end.

(** ---- the specification, on the implementation's outputs ---- *)
Definition ob_code (o : obs) : N := match o with OB c _ _ => c end.
Definition ob_cls (o : obs) : N := match o with OB _ k _ => k end.

Definition ikv_eqb (tabf : N -> bytes) (a b : ikv) : bool :=
  match a, b with KV k v, KV k' v' => beq (tabf k) (tabf k') && beq (tabf v) (tabf v') end.

(** the class an earlier operation returned (0 for the empty root) *)
Definition cls_ref (prev : list obs) (n : N) : N :=
  if (n =? 0)%N then 0%N
  else match nth_error prev (N.to_nat n - 1) with Some o => ob_cls o | None => 0%N end.

(** abstract bookkeeping of one run: which operations hold a pending tree *)
Fixpoint remove_n (n : N) (l : list N) : list N :=
  match l with [] => [] | x :: tl => if (x =? n)%N then remove_n n tl else x :: remove_n n tl end.

(** The reference run, op by op: [prev] observations so far, [pend] = numbers of
    MemSet operations whose root is pending (by class: a MemSet returning the
    class of a pending one replaces it), [fn] = the function table
    (parent class, writes) -> class seen so far. *)
Record sstate := mk_ss { ss_prev : list obs; ss_pend : list N; ss_fn : list (N * list ikv * N); ss_ok : bool }.

Fixpoint fn_lookup (tabf : N -> bytes) (fn : list (N * list ikv * N)) (p : N) (kvs : list ikv) : option N :=
  match fn with
  | [] => None
  | (p', kvs', k) :: tl =>
      if (p =? p')%N && list_eqb (ikv_eqb tabf) kvs kvs' then Some k else fn_lookup tabf tl p kvs
  end.

Definition spec_step (tabf : N -> bytes) (st : sstate) (oo : uop * obs) : sstate :=
  let '(o, ob) := oo in
  let prev' := ss_prev st ++ [ob] in
  match o with
  | UUpd parent bh kvs now =>
      let p := cls_ref (ss_prev st) parent in
      let k := ob_cls ob in
      let fn_ok := match fn_lookup tabf (ss_fn st) p kvs with Some k' => (k =? k')%N | None => true end in
      let empty_ok := match kvs with [] => (k =? p)%N | _ => negb (k =? 0)%N end in
      let pend' := if now then remove_n k (ss_pend st) else k :: remove_n k (ss_pend st) in
      mk_ss prev' pend' ((p, kvs, k) :: ss_fn st)
            (ss_ok st && (ob_code ob =? 0)%N && fn_ok && empty_ok)
  | UCommit n | URollback n =>
      let k := cls_ref (ss_prev st) n in
      let legal := existsb (N.eqb k) (ss_pend st) in
      mk_ss prev' (remove_n k (ss_pend st)) (ss_fn st)
            (ss_ok st && (if legal then (ob_code ob =? 0)%N && (ob_cls ob =? k)%N
                          else (ob_code ob =? 2)%N))
  | UProbe n =>
      mk_ss prev' (ss_pend st) (ss_fn st)
            (ss_ok st && (ob_code ob =? 0)%N && (ob_cls ob =? cls_ref (ss_prev st) n)%N)
  end.

Definition spec_ref (tabf : N -> bytes) (ops : list uop) (ref : list obs) : bool :=
  (length ops =? length ref)%nat &&
  ss_ok (fold_left (spec_step tabf) (combine ops ref) (mk_ss [] [] [] true)).

Definition run_same (tabf : N -> bytes) (ref : list obs) (r : run) : bool :=
  match r with
  | RUN _ _ RSame => true
  | RUN _ _ o => list_eqb (fun a b => obs_eqb a b tabf) (expand ref o) ref
  end.

(** ---- the signature of known finding 1 ---- *)
(* some MemSet-only update before position i (1-based) whose pending tree is not committed before i
   (no Commit of it, or a Rollback of it first) *)
(* what first happens to the pending tree of operation [idx]: true = it is committed *)
Fixpoint first_commits (l : list uop) (idx : N) : bool :=
  match l with
  | [] => false
  | UCommit n :: tl => if (n =? idx)%N then true else first_commits tl idx
  | URollback n :: tl => if (n =? idx)%N then false else first_commits tl idx
  | _ :: tl => first_commits tl idx
  end.

Fixpoint uncommitted_go (l : list uop) (idx : N) : bool :=
  match l with
  | [] => false
  | UUpd _ _ (_ :: _) false :: tl =>
      negb (first_commits tl idx) || uncommitted_go tl (idx + 1)%N
  | _ :: tl => uncommitted_go tl (idx + 1)%N
  end.

Definition uncommitted_before (ops : list uop) (i : nat) : bool :=
  uncommitted_go (firstn (i - 1) ops) 1%N.

Definition kf1_run (tabf : N -> bytes) (ops : list uop) (ref : list obs) (r : run) : bool :=
  run_same tabf ref r ||
  match r with
  | RUN bits _ (RCut i (OB 3%N 0%N [])) =>
      let c := cfg_of_bits bits in
      c_prefix c && c_memtree c && (N.to_nat i <=? length ref)%nat &&
      uncommitted_before ops (N.to_nat i)
  | _ => false
  end.

(** ---- known finding 2: panic inside Commit's prune bookkeeping ----
    prune + memTree; the failing operation is a MemSet+Commit or a Commit at a block
    height that is not above every height used before (DelLeafCountKV runs between
    Tree.Hash, which filled memTree, and the node saves). *)
Definition op_height (ops : list uop) (o : uop) : option Z :=
  match o with
  | UUpd _ bh _ _ => Some bh
  | UCommit n => match nth_error ops (N.to_nat n - 1) with
                 | Some (UUpd _ bh _ _) => Some bh
                 | _ => None
                 end
  | _ => None
  end.

Definition repeated_height (ops : list uop) (i : nat) : bool :=
  match nth_error ops (i - 1) with
  | Some o =>
      match op_height ops o with
      | Some bh => existsb (fun o' => match o' with UUpd _ bh' _ _ => bh <=? bh' | _ => false end)
                           (firstn (i - 1) ops)
      | None => false
      end
  | None => false
  end.

Definition kf2_run (ops : list uop) (ref : list obs) (r : run) : bool :=
  match r with
  | RUN bits direct (RCut i (OB 3%N 0%N [])) =>
      let c := cfg_of_bits bits in
      c_prune c && c_memtree c && (N.to_nat i <=? length ref)%nat &&
      match nth_error ops (N.to_nat i - 1) with
      | Some (UUpd _ _ (_ :: _) true) => negb direct
      | Some (UCommit _) => true
      | _ => false
      end && repeated_height ops (N.to_nat i)
  | _ => false
  end.

Definition check_case (c : case) : verdict :=
  match c with
  | CASE tab ops runs =>
      let m := build_tab tab 0%N (PositiveMap.empty bytes) in
      let tabf := rs m in
      let ref := ref_obs runs in
      let first_plain := match runs with RUN 0%N true _ :: _ => true | _ => false end in
      let ma := first_plain && agree_runs tabf ops ref [] runs in
      let sref := first_plain && spec_ref tabf ops ref in
      let sp := sref && forallb (run_same tabf ref) runs in
      let k1 := kf1_run tabf ops ref in
      let k2 := fun r => k1 r || kf2_run ops ref r in
      let kf := if sp || negb sref then 0%N
                else if forallb k1 runs then 1%N
                else if forallb k2 runs then 2%N else 0%N in
      (ma, sp, kf)
  end.
