(** C02 — the annotated [aset] (with loads, orphanings, prefixes and panics)
    refines C01's pure [set] on the trees the hashes denote. *)
From Coq Require Import List ZArith NArith Bool Lia.
From C33 Require Import C01.Keys C01.KeysFacts C01.Model C01.Store C01.Inv C01.ProofsStore
  C02.Model C02.ProofsHash.
Import ListNotations.
Open Scope Z_scope.

(** the pure tree an annotated node stands for *)
Definition den (t : atree) : tree := toh (ahash t).

(** what a node knows about itself agrees with its structure *)
Fixpoint acons (t : atree) : Prop :=
  match t with
  | AMissing _ => True
  | ALeaf a k v =>
      match a with
      | ANew => True
      | AHashed K | APers K => exists v', snd K = HLeaf k v'
      end
  | ANode a key h s l r =>
      acons l /\ acons r /\ key = hleftmost (ahash r) /\
      match a with
      | ANew => True
      | AHashed K | APers K => snd K = HInner h s (ahash l) (ahash r)
      end
  end.

Lemma hleftmost_den : forall t, hleftmost (ahash t) = leftmost (den t).
Proof. intros t. unfold den. symmetry. apply leftmost_toh. Qed.

Definition present (t : atree) : Prop := match t with AMissing _ => False | _ => True end.

Lemma touch_present : forall t lg lg', touch t lg = Some lg' -> present t.
Proof. intros [K|a k v|a key h s l r] lg lg' H; simpl in *; auto. discriminate. Qed.

Lemma den_node : forall a key h s l r,
  acons (ANode a key h s l r) -> den (ANode a key h s l r) = Node key h s (den l) (den r).
Proof.
  intros a key h s l r (Hl & Hr & Hk & Ha). unfold den.
  destruct a as [|K|K]; simpl ahash; [|rewrite Ha..]; simpl; subst key; reflexivity.
Qed.

Lemma den_leaf : forall a k v, acons (ALeaf a k v) -> exists v', den (ALeaf a k v) = Leaf k v'.
Proof.
  intros a k v H. unfold den. destruct a as [|K|K]; simpl in *.
  - exists v. reflexivity.
  - destruct H as [v' H]. rewrite H. exists v'. reflexivity.
  - destruct H as [v' H]. rewrite H. exists v'. reflexivity.
Qed.

Lemma den_new_leaf : forall k v, den (ALeaf ANew k v) = Leaf k v.
Proof. reflexivity. Qed.

Lemma ahash_den : forall t, thash (den t) = ahash t.
Proof. intros t. unfold den. apply thash_toh. Qed.

Lemma height_den : forall t, acons t -> present t -> height (den t) = aheight t /\ size (den t) = asize t.
Proof.
  intros [K|a k v|a key h s l r] C P; simpl in P; [tauto| |].
  - destruct (den_leaf _ _ _ C) as [v' E]. rewrite E. simpl. auto.
  - rewrite (den_node _ _ _ _ _ _ C). simpl. auto.
Qed.

(** rotations and balance keep the leftmost leaf *)
Lemma rotate_right_leftmost : forall x y, rotate_right x = Some y -> leftmost y = leftmost x.
Proof.
  intros [k v|k h s [lk lv|lk lh ls ll lr] r] y H; simpl in H; try discriminate.
  inversion H; subst. reflexivity.
Qed.

Lemma rotate_left_leftmost : forall x y, rotate_left x = Some y -> leftmost y = leftmost x.
Proof.
  intros [k v|k h s l [rk rv|rk rh rs rl rr]] y H; simpl in H; try discriminate.
  inversion H; subst. reflexivity.
Qed.

Lemma balance_leftmost : forall x y, balance x = Some y -> leftmost y = leftmost x.
Proof.
  intros x y Hb. destruct x as [k v|k h s l r]; [discriminate|]. unfold balance in Hb.
  destruct (height l - height r >? 1).
  - destruct (calc_balance l) as [bl|]; [|discriminate].
    destruct (bl >=? 0).
    + apply rotate_right_leftmost in Hb. exact Hb.
    + destruct (rotate_left l) as [l'|] eqn:RL; [|discriminate].
      apply rotate_right_leftmost in Hb. apply rotate_left_leftmost in RL.
      rewrite Hb. simpl. exact RL.
  - destruct (height l - height r <? -1).
    + destruct (calc_balance r) as [br|]; [|discriminate].
      destruct (br <=? 0).
      * apply rotate_left_leftmost in Hb. exact Hb.
      * destruct (rotate_right r) as [r'|] eqn:RR; [|discriminate].
        apply rotate_left_leftmost in Hb. rewrite Hb. reflexivity.
    + inversion Hb; subst. reflexivity.
Qed.

(** [acalc] *)
Lemma acalc_sim : forall key l r lg n lg' h0 s0,
  acons l -> acons r -> key = hleftmost (ahash r) ->
  acalc key l r lg = Some (n, lg') ->
  den n = calc_hs (Node key h0 s0 (den l) (den r)) /\ acons n /\ present n.
Proof.
  intros key l r lg n lg' h0 s0 Cl Cr Hk H. unfold acalc in H.
  destruct (touch l lg) as [lg1|] eqn:T1; [|discriminate].
  destruct (touch r lg1) as [lg2|] eqn:T2; [|discriminate].
  inversion H; subst n lg'; clear H.
  apply touch_present in T1, T2.
  destruct (height_den l Cl T1) as [Hl Sl]. destruct (height_den r Cr T2) as [Hr Sr].
  assert (C : acons (ANode ANew key (Z.max (aheight l) (aheight r) + 1) (asize l + asize r) l r))
    by (simpl; auto).
  split; [|split; [exact C|exact I]].
  rewrite (den_node _ _ _ _ _ _ C). simpl. rewrite Hl, Hr, Sl, Sr. reflexivity.
Qed.

Lemma acons_node_inv : forall a key h s l r,
  acons (ANode a key h s l r) -> acons l /\ acons r /\ key = hleftmost (ahash r).
Proof. intros a key h s l r (A & B & C & _). auto. Qed.

Lemma hleftmost_ahash_node : forall a key h s l r,
  acons (ANode a key h s l r) -> hleftmost (ahash (ANode a key h s l r)) = hleftmost (ahash l).
Proof.
  intros a key h s l r (_ & _ & _ & Ha). destruct a as [|K|K]; simpl ahash; [|rewrite Ha..]; reflexivity.
Qed.

(** rotations *)
Lemma arot_right_sim : forall key l r lg t' lg' h s,
  acons l -> acons r -> key = hleftmost (ahash r) ->
  arot_right key l r lg = Some (t', lg') ->
  rotate_right (Node key h s (den l) (den r)) = Some (den t') /\ acons t' /\ present t'.
Proof.
  intros key l r lg t' lg' h s Cl Cr Hk H. unfold arot_right in H.
  destruct (touch l lg) as [lg1|] eqn:T1; [|discriminate].
  destruct l as [K|la lk lv|la lk lh ls ll lr]; try discriminate.
  destruct (acalc key lr r (orphan (ANode la lk lh ls ll lr) lg1)) as [[n' lg3]|] eqn:A1; [|discriminate].
  destruct (acons_node_inv _ _ _ _ _ _ Cl) as (Cll & Clr & Hlk).
  destruct (acalc_sim _ _ _ _ _ _ h s Clr Cr Hk A1) as (D1 & C1 & P1).
  assert (Hlk' : lk = hleftmost (ahash n')).
  { rewrite <- ahash_den, D1. simpl. rewrite ahash_den. exact Hlk. }
  destruct (acalc_sim _ _ _ _ _ _ lh ls Cll C1 Hlk' H) as (D2 & C2 & P2).
  split; [|auto].
  rewrite (den_node _ _ _ _ _ _ Cl). simpl. rewrite D2, D1. reflexivity.
Qed.

Lemma arot_left_sim : forall key l r lg t' lg' h s,
  acons l -> acons r -> key = hleftmost (ahash r) ->
  arot_left key l r lg = Some (t', lg') ->
  rotate_left (Node key h s (den l) (den r)) = Some (den t') /\ acons t' /\ present t'.
Proof.
  intros key l r lg t' lg' h s Cl Cr Hk H. unfold arot_left in H.
  destruct (touch r lg) as [lg1|] eqn:T1; [|discriminate].
  destruct r as [K|ra rk rv|ra rk rh rs rl rr]; try discriminate.
  destruct (acalc key l rl (orphan (ANode ra rk rh rs rl rr) lg1)) as [[n' lg3]|] eqn:A1; [|discriminate].
  destruct (acons_node_inv _ _ _ _ _ _ Cr) as (Crl & Crr & Hrk).
  assert (Hk1 : key = hleftmost (ahash rl)).
  { rewrite Hk. apply hleftmost_ahash_node. exact Cr. }
  destruct (acalc_sim _ _ _ _ _ _ h s Cl Crl Hk1 A1) as (D1 & C1 & P1).
  destruct (acalc_sim _ _ _ _ _ _ rh rs C1 Crr Hrk H) as (D2 & C2 & P2).
  split; [|auto].
  rewrite (den_node _ _ _ _ _ _ Cr). simpl. rewrite D2, D1. reflexivity.
Qed.

Lemma abal_of_sim : forall t lg b lg',
  acons t -> abal_of t lg = Some (b, lg') -> calc_balance (den t) = Some b.
Proof.
  intros [K|a k v|a key h s l r] lg b lg' C H; simpl in H; try discriminate.
  destruct (touch l lg) as [lg1|] eqn:T1; [|discriminate].
  destruct (touch r lg1) as [lg2|] eqn:T2; [|discriminate].
  inversion H; subst. apply touch_present in T1, T2.
  destruct (acons_node_inv _ _ _ _ _ _ C) as (Cl & Cr & _).
  rewrite (den_node _ _ _ _ _ _ C). simpl.
  destruct (height_den l Cl T1) as [-> _]. destruct (height_den r Cr T2) as [-> _]. reflexivity.
Qed.

Lemma abalance_sim : forall a key h s l r lg t' lg',
  acons l -> acons r -> key = hleftmost (ahash r) ->
  abalance (ANode a key h s l r) lg = Some (t', lg') ->
  balance (Node key h s (den l) (den r)) = Some (den t') /\ acons t' /\ present t'.
Proof.
  intros a key h s l r lg t' lg' Cl Cr Hk H. unfold abalance in H.
  destruct (touch l lg) as [lg1|] eqn:T1; [|discriminate].
  destruct (touch r lg1) as [lg2|] eqn:T2; [|discriminate].
  pose proof (touch_present _ _ _ T1) as P1. pose proof (touch_present _ _ _ T2) as P2.
  destruct (height_den l Cl P1) as [Hl _]. destruct (height_den r Cr P2) as [Hr _].
  unfold balance. rewrite Hl, Hr.
  destruct (aheight l - aheight r >? 1) eqn:B1.
  - destruct (abal_of l lg2) as [[bl lg3]|] eqn:BL; [|discriminate].
    rewrite (abal_of_sim _ _ _ _ Cl BL).
    destruct (bl >=? 0) eqn:B2.
    + eapply arot_right_sim; eauto.
    + destruct l as [K|la lk lv|la lk lh ls ll lr]; try discriminate.
      destruct (arot_left lk ll lr (orphan (ANode la lk lh ls ll lr) lg3)) as [[l' lg4]|] eqn:RL; [|discriminate].
      destruct (acons_node_inv _ _ _ _ _ _ Cl) as (Cll & Clr & Hlk).
      destruct (arot_left_sim _ _ _ _ _ _ lh ls Cll Clr Hlk RL) as (D1 & C1 & P1').
      rewrite (den_node _ _ _ _ _ _ Cl). rewrite D1.
      eapply arot_right_sim; eauto.
  - destruct (aheight l - aheight r <? -1) eqn:B3.
    + destruct (abal_of r lg2) as [[br lg3]|] eqn:BR; [|discriminate].
      rewrite (abal_of_sim _ _ _ _ Cr BR).
      destruct (br <=? 0) eqn:B2.
      * eapply arot_left_sim; eauto.
      * destruct r as [K|ra rk rv|ra rk rh rs rl rr]; try discriminate.
        destruct (arot_right rk rl rr (orphan (ANode ra rk rh rs rl rr) lg3)) as [[r' lg4]|] eqn:RR; [|discriminate].
        destruct (acons_node_inv _ _ _ _ _ _ Cr) as (Crl & Crr & Hrk).
        destruct (arot_right_sim _ _ _ _ _ _ rh rs Crl Crr Hrk RR) as (D1 & C1 & P1').
        rewrite (den_node _ _ _ _ _ _ Cr). rewrite D1.
        assert (Hk' : key = hleftmost (ahash r')).
        { rewrite Hk. rewrite (hleftmost_den r'). rewrite (rotate_right_leftmost _ _ D1). cbn [leftmost].
          rewrite <- hleftmost_den. exact (hleftmost_ahash_node _ _ _ _ _ _ Cr). }
        eapply arot_left_sim; eauto.
    + injection H as <- <-.
      assert (C : acons (ANode ANew key h s l r)) by (simpl; auto).
      rewrite (den_node _ _ _ _ _ _ C). split; [reflexivity|]. split; [exact C|exact I].
Qed.

(** [aset] refines [set] *)

Lemma aset_sim : forall t k v lg t' u lg',
  acons t -> aset t k v lg = Some (t', u, lg') ->
  set (den t) k v = Some (den t', u) /\ acons t' /\ present t' /\
  (blt k (hleftmost (ahash t)) = false -> hleftmost (ahash t') = hleftmost (ahash t)).
Proof.
  induction t as [K|a lk lv|a nk h s l IHl r IHr]; intros k v lg t' u lg' C H; cbn [aset] in H.
  - discriminate.
  - destruct (den_leaf _ _ _ C) as [v' E].
    assert (HL : hleftmost (ahash (ALeaf a lk lv)) = lk).
    { rewrite hleftmost_den, E. reflexivity. }
    rewrite HL. rewrite E. cbn [set].
    destruct (bcmp k lk) eqn:B; injection H as <- <- <-.
    + split; [reflexivity|]. split; [exact I|]. split; [exact I|]. intros _.
      apply bcmp_eq in B. subst. reflexivity.
    + assert (C' : acons (ANode ANew lk 1 2 (ALeaf ANew k v) (ALeaf a lk lv))).
      { cbn [acons]. repeat split; auto. }
      rewrite (den_node _ _ _ _ _ _ C'). rewrite E. split; [reflexivity|]. split; [exact C'|].
      split; [exact I|]. intros NB. unfold blt in NB. rewrite B in NB. discriminate.
    + assert (C' : acons (ANode ANew k 1 2 (ALeaf a lk lv) (ALeaf ANew k v))).
      { cbn [acons]. repeat split; auto. }
      rewrite (den_node _ _ _ _ _ _ C'). rewrite E. split; [reflexivity|]. split; [exact C'|].
      split; [exact I|]. intros _. cbn [ahash hleftmost]. exact HL.
  - destruct (acons_node_inv _ _ _ _ _ _ C) as (Cl & Cr & Hk).
    rewrite (den_node _ _ _ _ _ _ C). cbn [set].
    assert (HLM : hleftmost (ahash (ANode a nk h s l r)) = hleftmost (ahash l))
      by (apply hleftmost_ahash_node; exact C).
    set (lg0 := orphan (ANode a nk h s l r) lg) in H.
    destruct (blt k nk) eqn:B.
    + destruct (touch l lg0) as [lg1|] eqn:T1; [|discriminate].
      destruct (aset l k v lg1) as [[[l' upd] lg2]|] eqn:S; [|discriminate].
      destruct (IHl _ _ _ _ _ _ Cl S) as (D & Cl' & Pl' & LM). rewrite D.
      destruct upd.
      * injection H as <- <- <-.
        assert (C' : acons (ANode ANew nk h s l' r)) by (simpl; auto).
        rewrite (den_node _ _ _ _ _ _ C'). split; [reflexivity|]. split; [exact C'|]. split; [exact I|].
        intros NB. rewrite HLM in NB |- *. cbn [ahash hleftmost]. auto.
      * destruct (acalc nk l' r lg2) as [[n lg3]|] eqn:A; [|discriminate].
        destruct (abalance n lg3) as [[t'' lg4]|] eqn:BAL; [|discriminate].
        injection H as <- <- <-.
        destruct (acalc_sim _ _ _ _ _ _ h s Cl' Cr Hk A) as (Dn & Cn & Pn).
        unfold acalc in A.
        destruct (touch l' lg2) as [x1|]; [|discriminate]. destruct (touch r x1) as [x2|]; [|discriminate].
        inversion A; subst n; clear A.
        destruct (abalance_sim _ _ _ _ _ _ _ _ _ Cl' Cr Hk BAL) as (DB & CB & PB).
        rewrite (den_node _ _ _ _ _ _ Cn) in Dn. rewrite <- Dn. rewrite DB.
        split; [reflexivity|]. split; [exact CB|]. split; [exact PB|].
        intros NB. rewrite HLM in NB |- *.
        (* balance keeps the leftmost leaf *)
        rewrite hleftmost_den. 
        rewrite (balance_leftmost _ _ DB). simpl. rewrite <- hleftmost_den. auto.
    + destruct (touch r lg0) as [lg1|] eqn:T1; [|discriminate].
      destruct (aset r k v lg1) as [[[r' upd] lg2]|] eqn:S; [|discriminate].
      destruct (IHr _ _ _ _ _ _ Cr S) as (D & Cr' & Pr' & LM). rewrite D.
      assert (Hk' : nk = hleftmost (ahash r')).
      { rewrite LM; [exact Hk|]. rewrite <- Hk. exact B. }
      destruct upd.
      * injection H as <- <- <-.
        assert (C' : acons (ANode ANew nk h s l r')) by (simpl; auto).
        rewrite (den_node _ _ _ _ _ _ C'). split; [reflexivity|]. split; [exact C'|]. split; [exact I|].
        intros NB. rewrite HLM. reflexivity.
      * destruct (acalc nk l r' lg2) as [[n lg3]|] eqn:A; [|discriminate].
        destruct (abalance n lg3) as [[t'' lg4]|] eqn:BAL; [|discriminate].
        injection H as <- <- <-.
        destruct (acalc_sim _ _ _ _ _ _ h s Cl Cr' Hk' A) as (Dn & Cn & Pn).
        unfold acalc in A.
        destruct (touch l lg2) as [x1|]; [|discriminate]. destruct (touch r' x1) as [x2|]; [|discriminate].
        inversion A; subst n; clear A.
        destruct (abalance_sim _ _ _ _ _ _ _ _ _ Cl Cr' Hk' BAL) as (DB & CB & PB).
        rewrite (den_node _ _ _ _ _ _ Cn) in Dn. rewrite <- Dn. rewrite DB.
        split; [reflexivity|]. split; [exact CB|]. split; [exact PB|].
        intros NB. rewrite HLM in NB |- *.
        rewrite hleftmost_den.
        rewrite (balance_leftmost _ _ DB). simpl. rewrite <- hleftmost_den. reflexivity.
Qed.
