(** C02 — every symbolic hash denotes exactly one keyed tree. *)
From Coq Require Import List ZArith NArith Bool Lia.
From C33 Require Import C01.Keys C01.KeysFacts C01.Model C01.Store C01.Inv C01.ProofsStore C02.Model.
Import ListNotations.
Open Scope Z_scope.

(** the leftmost leaf key below a hash *)
Fixpoint hleftmost (h : hash) : bytes :=
  match h with
  | HLeaf k _ => k
  | HInner _ _ l _ => hleftmost l
  end.

(** the tree a hash denotes: the inner key, which is not hashed, is the
    smallest key of the right sub-tree *)
Fixpoint toh (h : hash) : tree :=
  match h with
  | HLeaf k v => Leaf k v
  | HInner ht s l r => Node (hleftmost r) ht s (toh l) (toh r)
  end.

Lemma thash_toh : forall h, thash (toh h) = h.
Proof. induction h as [k v|ht s l IHl r IHr]; simpl; congruence. Qed.

Lemma leftmost_toh : forall h, leftmost (toh h) = hleftmost h.
Proof. induction h as [k v|ht s l IHl r IHr]; simpl; auto. Qed.

Lemma keyed_toh : forall h, keyed (toh h).
Proof.
  induction h as [k v|ht s l IHl r IHr]; simpl; auto.
  repeat split; auto. symmetry. apply leftmost_toh.
Qed.

Lemma toh_thash : forall t, keyed t -> toh (thash t) = t.
Proof.
  intros t K. apply thash_inj; auto using keyed_toh. apply thash_toh.
Qed.

Lemma hleftmost_thash : forall t, hleftmost (thash t) = leftmost t.
Proof. induction t as [k v|k h s l IHl r IHr]; simpl; auto. Qed.

Definition root_tree (r : root) : otree := option_map toh r.

Lemma tree_root_root_tree : forall r, tree_root (root_tree r) = r.
Proof. intros [h|]; simpl; [rewrite thash_toh|]; reflexivity. Qed.

(** key equality *)
Lemma nk_eqb_eq : forall a b, nk_eqb a b = true -> a = b.
Proof.
  intros [pa ha] [pb hb] H. unfold nk_eqb in H. simpl in H.
  apply andb_true_iff in H as [H1 H2]. apply hash_eqb_eq in H2. subst hb.
  destruct pa as [x|], pb as [y|]; simpl in H1; try discriminate; auto.
  apply Z.eqb_eq in H1. subst. reflexivity.
Qed.

Lemma nk_eqb_refl : forall a, nk_eqb a a = true.
Proof.
  intros [[x|] h]; unfold nk_eqb; simpl; rewrite hash_eqb_refl; [rewrite Z.eqb_refl|]; reflexivity.
Qed.

Lemma root_eqb_refl : forall r, root_eqb r r = true.
Proof. intros [h|]; simpl; [apply hash_eqb_refl|reflexivity]. Qed.

Lemma root_eqb_eq : forall a b, root_eqb a b = true -> a = b.
Proof.
  intros [a|] [b|] H; simpl in H; try discriminate; auto.
  apply hash_eqb_eq in H. congruence.
Qed.
