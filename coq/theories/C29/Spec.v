(** C29 — the abstract spec as an executable oracle over what a restarted node
    reports.

    [consistent]: the persisted records agree with each other — the hashes at
    heights 0..height form a parent-linked chain from the root, nothing is
    recorded above the height, the last block is the block at the height, every
    block of the chain can be loaded, a delivered block's transaction is
    indexed (at the block's height) exactly when the block is on the chain, the
    total difficulty stored for each block of the chain is the sum of the work
    below it, the tip's state is readable, and replaying the sequence log gives
    exactly this chain.

    [reached]: the sequence log of the restarted node is a prefix of the log of
    the uninterrupted run, so (with [consistent]) the chain is one the node had
    reached, or the part of the chain it was building.

    [same_final]: after continued processing the chain-level records equal
    those of the uninterrupted run. *)
From Coq Require Import List ZArith NArith Bool.
From C33 Require Import Lib.Harness C25.Model.
Import ListNotations.
Open Scope Z_scope.

Record obs := mkO {
  o_height : Z;                      (* BlockStore.Height() *)
  o_last : N; o_lasth : Z;           (* last header: hash, height *)
  o_tip : N;                         (* tip of the best-chain view *)
  o_byh : list (option N);           (* hash at heights 0 .. height+3 *)
  o_load : list bool;                (* LoadBlock(h) works, heights 0 .. height *)
  o_hdr : list (option N);           (* header by height, heights 0 .. height+3 *)
  o_tx : list (option Z);            (* per block of the tree: height recorded for its transactions
                                        (None = no transaction of the block is indexed; Some (-2) = the
                                        index records of the block's transactions disagree) *)
  o_td : list (option Z);            (* per block: stored total difficulty *)
  o_stored : list bool;              (* per block: loadable by hash *)
  o_state : bool;                    (* every state key read at the tip's state hash has the expected value *)
  o_lastseq : Z;                     (* last sequence number, -1 = none *)
  o_seq : list (option (N * bool));  (* records 0 .. lastseq: (hash, add?) *)
  o_hseq : list (option Z)           (* per block: sequence number recorded for its hash *)
}.

Fixpoint all_some {A} (l : list (option A)) : option (list A) :=
  match l with
  | [] => Some []
  | Some x :: tl => match all_some tl with Some r => Some (x :: r) | None => None end
  | None :: _ => None
  end.

Definition find_block (h : N) (T : list block) : option block :=
  find (fun b => N.eqb (bid b) h) T.

(** [c] (root first) is a parent-linked chain of blocks of [T] starting at the
    root of [T], with heights [h0], [h0+1], ...; returns the running total
    difficulties *)
Fixpoint linked (T : list block) (prev : option block) (h : Z) (td : Z) (c : list N) : option (list (N * Z)) :=
  match c with
  | [] => Some []
  | x :: tl =>
      match find_block x T with
      | None => None
      | Some b =>
          let okp := match prev with
                     | None => match T with g :: _ => N.eqb (bid g) x | [] => false end
                     | Some p => N.eqb (bpar b) (bid p)
                     end in
          if okp && (bht b =? h) then
            match linked T (Some b) (h + 1) (td + bdiff b) tl with
            | Some r => Some ((x, td + bdiff b) :: r)
            | None => None
            end
          else None
      end
  end.

(** replay of a sequence log (oldest first) on a chain (tip first) *)
Fixpoint seq_replay (log : list (N * bool)) (chain : list N) : option (list N) :=
  match log with
  | [] => Some chain
  | (h, true) :: tl => seq_replay tl (h :: chain)
  | (h, false) :: tl =>
      match chain with
      | t :: c' => if N.eqb t h then seq_replay tl c' else None
      | [] => None
      end
  end.

Definition is_none {A} (x : option A) : bool := match x with None => true | Some _ => false end.

Definition assoc (x : N) (l : list (N * Z)) : option Z :=
  match find (fun p => N.eqb (fst p) x) l with Some p => Some (snd p) | None => None end.

(** per block of [T] *)
Fixpoint per_block (T : list block) (tds : list (N * Z)) (tx td : list (option Z)) : bool :=
  match T, tx, td with
  | [], [], [] => true
  | b :: T', x :: tx', d :: td' =>
      let on := assoc (bid b) tds in
      option_eqb Z.eqb x (match on with Some _ => Some (bht b) | None => None end)
      && (match on with Some v => option_eqb Z.eqb d (Some v) | None => true end)
      && per_block T' tds tx' td'
  | _, _, _ => false
  end.

Definition consistent (T : list block) (o : obs) : bool :=
  (0 <=? o_height o) &&
  let n := S (Z.to_nat (o_height o)) in
  match all_some (firstn n (o_byh o)) with
  | None => false
  | Some c =>
      (length c =? n)%nat
      && forallb is_none (skipn n (o_byh o))
      && N.eqb (last c 0%N) (o_last o) && (o_lasth o =? o_height o) && N.eqb (o_tip o) (o_last o)
      && (length (o_load o) =? n)%nat && forallb (fun x => x) (o_load o)
      && list_eqb (option_eqb N.eqb) (o_hdr o) (o_byh o)
      && match linked T None 0 0 c with
         | None => false
         | Some tds => per_block T tds (o_tx o) (o_td o)
         end
      && o_state o
      && (o_lastseq o =? Z.of_nat (length (o_seq o)) - 1)
      && match all_some (o_seq o) with
         | None => false
         | Some log => option_eqb (list_eqb N.eqb) (seq_replay log []) (Some (rev c))
         end
  end.

Definition seqrec_eqb (a b : option (N * bool)) : bool :=
  option_eqb (fun x y => N.eqb (fst x) (fst y) && Bool.eqb (snd x) (snd y)) a b.

Fixpoint prefix_of {A} (eqb : A -> A -> bool) (a b : list A) : bool :=
  match a, b with
  | [], _ => true
  | x :: a', y :: b' => eqb x y && prefix_of eqb a' b'
  | _ :: _, [] => false
  end.

Definition reached (ofull o : obs) : bool := prefix_of seqrec_eqb (o_seq o) (o_seq ofull).

Definition same_final (ofull o : obs) : bool :=
  (o_height o =? o_height ofull) && N.eqb (o_last o) (o_last ofull)
  && list_eqb (option_eqb N.eqb) (o_byh o) (o_byh ofull)
  && list_eqb (option_eqb Z.eqb) (o_tx o) (o_tx ofull)
  && list_eqb (option_eqb Z.eqb) (o_td o) (o_td ofull)
  && Bool.eqb (o_state o) (o_state ofull).

(** the whole property on one crash point: the node starts; what it recovered
    is consistent and was reached; after continued delivery it is consistent
    and equal to the uninterrupted run's final chain *)
Definition spec_ok (T : list block) (started : bool) (o1 o2 ofull : obs) : bool :=
  started && consistent T o1 && reached ofull o1 && consistent T o2 && same_final ofull o2.
