(** C29 — property theorems only. *)
From Coq Require Import List ZArith NArith.
From C33 Require Import C25.Model C25.Proofs C29.Model C29.Proofs C29.Proofs2 C29.Proofs3 C29.Proofs4.
Import ListNotations.
Open Scope Z_scope.

(** Crash consistency (partial: a LevelDB write — batch or point write — is
    atomic and durable, so a crash keeps a prefix of the log of write units).

    [U] is any set of blocks in which a hash identifies a block.  [ops] is ANY
    sequence of store / connect / disconnect operations on blocks of [U],
    executed as the code does (a store is skipped when the header exists, a
    connect needs the parent to be the tip and the block's rows to be stored,
    a disconnect needs the block to be the tip), started in a durable state
    [d00] that is consistent with the best chain [c0].
    For EVERY number [k] of completed durable writes there is a number [j] of
    operations such that the durable state [replay d00 (firstn k log)]
    describes exactly the best chain [c] the node had after its first [j]
    operations ([inv]):
    - last height = length c - 1 (none / -1 when c is empty),
    - every height below length c maps to the block of c at that height, no
      height at or above it maps to anything,
    - every block of c has its rows, its transaction indexed at its height,
      total difficulty = the sum of the work of the block and its ancestors,
      its state tree present, and its parent is the block below it,
    - no transaction of a block outside c is indexed,
    and start-up ([recover]: NewBlockStore, InitCache, InitIndexAndBestView)
    does not fail and reads back exactly c. *)
Theorem C29_crash_consistent_partial :
  forall (sid : N -> N) (U : list block),
  (forall x y, In x U -> In y U -> bid x = bid y -> x = y) ->
  forall (c0 : list block) (d00 : dst) (ops : list op) (k : nat),
  inv sid U (mkP d00 c0) -> ops_in U ops ->
  let log := snd (run_ops sid (mkP d00 c0) ops) in
  exists j, (j <= length ops)%nat /\
    consistent_with sid U (replay d00 (firstn k log)) (chain_after sid (mkP d00 c0) ops j).
Proof. exact crash_consistent. Qed.
Print Assumptions C29_crash_consistent_partial.

(** Continued processing: from the recovered state the remaining operations
    end in the same best chain as the uninterrupted run, with durable records
    that are again consistent with it. *)
Theorem C29_resume_same_final_partial :
  forall (sid : N -> N) (U : list block),
  (forall x y, In x U -> In y U -> bid x = bid y -> x = y) ->
  forall (c0 : list block) (d00 : dst) (ops : list op) (k : nat),
  inv sid U (mkP d00 c0) -> ops_in U ops ->
  let log := snd (run_ops sid (mkP d00 c0) ops) in
  exists j, (j <= length ops)%nat /\
    let dk := replay d00 (firstn k log) in
    let cj := chain_after sid (mkP d00 c0) ops j in
    consistent_with sid U dk cj /\
    let send := fst (run_ops sid (mkP dk cj) (skipn j ops)) in
    p_chain send = p_chain (fst (run_ops sid (mkP d00 c0) ops)) /\
    consistent_with sid U (p_d send) (p_chain send).
Proof. exact resume_same_final. Qed.
Print Assumptions C29_resume_same_final_partial.

(** The same for a whole node history: empty database, the flag writes of the
    first start, the genesis block [g], then ANY delivery order [order]
    (duplicates, orphans, side branches, reorganisations), with the operations
    decided by the fork-choice model of C25 ([history_ops]); [k] ranges over
    every write boundary from the very first write.  The only hypothesis: among
    the genesis and the delivered blocks a hash identifies a block. *)
Theorem C29_history_crash_consistent_partial :
  forall (sid : N -> N) (fin : Z) (g : block) (order : list block) (k : nat),
  hash_identifies (g :: order) ->
  let ops := history_ops fin g order in
  let s0 := mkP (replay d0 (fresh_units d0)) [] in
  exists j, (j <= length ops)%nat /\
    consistent_with sid (g :: order) (replay d0 (firstn k (history_log sid fin g order)))
                    (chain_after sid s0 ops j).
Proof. exact history_crash_consistent. Qed.
Print Assumptions C29_history_crash_consistent_partial.

Theorem C29_history_resume_partial :
  forall (sid : N -> N) (fin : Z) (g : block) (order : list block) (k : nat),
  hash_identifies (g :: order) ->
  (length (fresh_units d0) <= k)%nat ->
  let ops := history_ops fin g order in
  let s0 := mkP (replay d0 (fresh_units d0)) [] in
  exists j, (j <= length ops)%nat /\
    let dk := replay d0 (firstn k (history_log sid fin g order)) in
    let cj := chain_after sid s0 ops j in
    consistent_with sid (g :: order) dk cj /\
    let send := fst (run_ops sid (mkP dk cj) (skipn j ops)) in
    p_chain send = p_chain (fst (run_ops sid s0 ops)) /\
    consistent_with sid (g :: order) (p_d send) (p_chain send).
Proof. exact history_resume. Qed.
Print Assumptions C29_history_resume_partial.

(** Continued processing by re-delivery, with C25.  [T] is a block tree as in
    C25_converges (root [g] at height 0, distinct hashes, every block connected
    to [g], non-negative work), [order] any delivery sequence containing every
    block of [T], [H] the unique heaviest block, at least 12 above the
    finalized height.  Crash after ANY number [k] of durable writes; the node
    restarts with the recovered chain (consistent, as above) and an index
    rebuilt from that chain only ([restart_state]); the whole order is
    delivered again: the fork-choice model ends with the same tip and best
    chain as the uninterrupted run. *)
Theorem C29_redeliver_same_final_partial :
  forall (fin : Z) (g : block) (T : list block),
  In g T -> NoDup (map bid T) ->
  (forall b, In b T -> exists l td, path g T b l td) ->
  (forall b, In b T -> 0 <= bdiff b) ->
  bht g = 0 ->
  forall (sid : N -> N) (order : list block) (k : nat) (H : block) (lH : list N) (tdH : Z),
  (forall b, In b order -> In b T) ->
  (forall b, In b T -> b = g \/ In b order) ->
  path g T H lH tdH ->
  (forall x l td, path g T x l td -> x <> H -> td < tdH) ->
  fin + margin <= bht H ->
  let ops := history_ops fin g order in
  let s0 := mkP (replay d0 (fresh_units d0)) [] in
  exists j, (j <= length ops)%nat /\
    let dk := replay d0 (firstn k (history_log sid fin g order)) in
    let cj := chain_after sid s0 ops j in
    consistent_with sid (g :: order) dk cj /\
    (cj <> [] ->
     let s := fold_left (step fin) order (restart_state cj) in
     tip s = tip (run fin g order) /\ main s = main (run fin g order)).
Proof. exact redeliver_same_final. Qed.
Print Assumptions C29_redeliver_same_final_partial.

(** Non-vacuity: a trunk of 13 blocks and a branch of 3 from height 11 that
    overtakes it.  Hashes identify the blocks; the operation sequence the
    fork-choice model produces contains 2 disconnects, writes 55 units and
    ends on the branch. *)
Theorem C29_example_history :
  hash_identifies (ex_g :: ex_order) /\
  length (filter is_disc ex_ops) = 2%nat /\ length ex_log = 55%nat /\
  map bid (p_chain (fst (run_ops ex_sid (mkP (replay d0 (fresh_units d0)) []) ex_ops)))
  = [16; 15; 14; 11; 10; 9; 8; 7; 6; 5; 4; 3; 2; 1; 0]%N.
Proof. exact example_valid. Qed.
Print Assumptions C29_example_history.

(** The single batch is necessary: the same log with the last-height record
    written on its own before the rest of each connect batch ends in the same
    state but has a crash point at which start-up fails. *)
Theorem C29_split_batch_unsafe :
  recover (replay d0 ex_split_log) = recover (replay d0 ex_log) /\
  exists k, recover (replay d0 (firstn k ex_split_log)) = RFail.
Proof. split; [exact split_same_final|exact split_unsafe]. Qed.
Print Assumptions C29_split_batch_unsafe.

(** Granularity of the write log (what the trace comparison of the
    correspondence check relies on).  The model has no block size: [FTx b h]
    stands for the index records of all transactions of [b].  A unit is a
    [chain_unit] when it writes the blockchain database (anything but the state
    tree).  A connect either leaves the chain as it is and writes no chain unit,
    or puts [b] on the chain and writes exactly ONE: the connect batch, which
    holds the tx index, the block rows, last height, height->hash, the sequence
    record and the total difficulty. *)
Theorem C29_connect_is_one_unit :
  forall (sid : N -> N) (s : pst) (b : block),
  let r := exec_op sid s (OConn b) in
  (chain_units (snd r) = [] /\ p_chain (fst r) = p_chain s) \/
  (exists td, td_of (p_d s) b = Some td /\
     chain_units (snd r) = [conn_batch (p_d s) b td] /\ p_chain (fst r) = b :: p_chain s).
Proof. exact connect_is_one_unit. Qed.
Print Assumptions C29_connect_is_one_unit.

(** A disconnect either does nothing or removes the tip [t] and writes exactly
    one unit, the disconnect batch. *)
Theorem C29_disconnect_is_one_unit :
  forall (sid : N -> N) (s : pst) (b : block),
  let r := exec_op sid s (ODisc b) in
  (snd r = [] /\ fst r = s) \/
  (exists t c, p_chain s = t :: c /\ bid t = bid b /\
     snd r = disc_units (p_d s) t /\ chain_units (snd r) = snd r /\ length (snd r) = 1%nat /\
     p_chain (fst r) = c).
Proof. exact disconnect_is_one_unit. Qed.
Print Assumptions C29_disconnect_is_one_unit.

(** Hence the log of ANY operation sequence holds at most one chain unit per
    operation. *)
Theorem C29_log_one_unit_per_op :
  forall (sid : N -> N) (ops : list op) (s : pst),
  (length (chain_units (snd (run_ops sid s ops))) <= length ops)%nat.
Proof. exact log_one_unit_per_op. Qed.
Print Assumptions C29_log_one_unit_per_op.
