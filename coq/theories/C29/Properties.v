(** C29 — property theorems only. *)
From Coq Require Import List ZArith NArith.
From C33 Require Import C25.Model C29.Model C29.Proofs C29.Proofs2.
Import ListNotations.
Open Scope Z_scope.

(** Crash consistency (partial: a LevelDB batch is atomic and durable, so a
    crash keeps a prefix of the log of write units).

    [ops] is any sequence of store / connect / disconnect operations that is
    valid for the best chain [c0] (a block is stored only while it is not on
    the chain; a connected block has the next height and is not yet on the
    chain), started in a durable state [d00] that is consistent with [c0].
    For EVERY number [k] of completed durable writes there is a number [j] of
    operations such that the durable state [replay d00 (firstn k log)]
    - has last height = length of the chain after the first [j] operations - 1,
    - maps every height of that chain to its block and no height above it,
    - holds the rows, the total difficulty (= sum of the work of the block and
      its ancestors) and the state of every block of that chain, parent-linked,
    - indexes the transaction of exactly the blocks of that chain, at their
      heights ([inv]),
    and start-up ([recover]: NewBlockStore, InitCache, InitIndexAndBestView)
    succeeds and reads back exactly that chain. *)
Theorem C29_crash_consistent_partial :
  forall (sid : N -> N) (c0 : list block) (d00 : dst) (ops : list op) (k : nat),
  inv sid (mkP d00 c0) -> ops_valid c0 ops = true ->
  let log := snd (run_ops sid (mkP d00 c0) ops) in
  exists j, (j <= length ops)%nat /\
    consistent_with sid (replay d00 (firstn k log)) (chain_run c0 (firstn j ops)).
Proof. exact crash_consistent. Qed.
Print Assumptions C29_crash_consistent_partial.

(** Continued processing: from the recovered state the remaining operations
    end in the same best chain as the uninterrupted run, with durable records
    that are again consistent with it. *)
Theorem C29_resume_same_final_partial :
  forall (sid : N -> N) (c0 : list block) (d00 : dst) (ops : list op) (k : nat),
  inv sid (mkP d00 c0) -> ops_valid c0 ops = true ->
  let log := snd (run_ops sid (mkP d00 c0) ops) in
  exists j, (j <= length ops)%nat /\
    let dk := replay d00 (firstn k log) in
    let cj := chain_run c0 (firstn j ops) in
    let send := fst (run_ops sid (mkP dk cj) (skipn j ops)) in
    p_chain send = p_chain (fst (run_ops sid (mkP d00 c0) ops)) /\
    consistent_with sid (p_d send) (p_chain send).
Proof. exact resume_same_final. Qed.
Print Assumptions C29_resume_same_final_partial.

(** The same for a whole node history: empty database, the flag writes of the
    first start, the genesis block, then any delivery order, with the
    operations decided by the fork-choice model of C25 ([history_ops]); [k]
    ranges over every write boundary from the very first write. *)
Theorem C29_history_crash_consistent_partial :
  forall (sid : N -> N) (fin : Z) (g : block) (order : list block) (k : nat),
  ops_valid [] (history_ops fin g order) = true ->
  exists j, (j <= length (history_ops fin g order))%nat /\
    consistent_with sid (replay d0 (firstn k (history_log sid fin g order)))
                    (chain_run [] (firstn j (history_ops fin g order))).
Proof. exact history_crash_consistent. Qed.
Print Assumptions C29_history_crash_consistent_partial.

Theorem C29_history_resume_partial :
  forall (sid : N -> N) (fin : Z) (g : block) (order : list block) (k : nat),
  ops_valid [] (history_ops fin g order) = true ->
  (length (fresh_units d0) <= k)%nat ->
  let ops := history_ops fin g order in
  exists j, (j <= length ops)%nat /\
    let dk := replay d0 (firstn k (history_log sid fin g order)) in
    let cj := chain_run [] (firstn j ops) in
    let send := fst (run_ops sid (mkP dk cj) (skipn j ops)) in
    p_chain send = p_chain (fst (run_ops sid (mkP (replay d0 (fresh_units d0)) []) ops)) /\
    consistent_with sid (p_d send) (p_chain send).
Proof. exact history_resume. Qed.
Print Assumptions C29_history_resume_partial.

(** Non-vacuity: a trunk of 13 blocks and a branch of 3 from height 11 that
    overtakes it.  The operation sequence the fork-choice model produces is
    valid, contains 2 disconnects, writes 55 units and ends on the branch. *)
Theorem C29_example_history_valid :
  ops_valid [] ex_ops = true /\ length (filter is_disc ex_ops) = 2%nat /\ length ex_log = 55%nat /\
  map bid (p_chain (fst (run_ops ex_sid (mkP (replay d0 (fresh_units d0)) []) ex_ops)))
  = [16; 15; 14; 11; 10; 9; 8; 7; 6; 5; 4; 3; 2; 1; 0]%N.
Proof. exact example_valid. Qed.
Print Assumptions C29_example_history_valid.

(** The single batch is necessary: the same log with the last-height record
    written on its own before the rest of each connect batch ends in the same
    state but has a crash point at which start-up fails. *)
Theorem C29_split_batch_unsafe :
  recover (replay d0 ex_split_log) = recover (replay d0 ex_log) /\
  exists k, recover (replay d0 (firstn k ex_split_log)) = RFail.
Proof. split; [exact split_same_final|exact split_unsafe]. Qed.
Print Assumptions C29_split_batch_unsafe.
