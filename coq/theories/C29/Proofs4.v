(** C29 — proofs, part 4: granularity of the write log.

    The model has no notion of the size of a block: [FTx b h] stands for the
    index records of ALL transactions of block [b], and the units an operation
    emits do not depend on how many there are.  Here: every operation writes
    the blockchain database in at most ONE unit; a connect that advances the
    chain writes exactly one, the connect batch (tx index, block rows, last
    height, height->hash, sequence record, total difficulty), a disconnect that
    shortens the chain exactly one, the disconnect batch; hence the log of any
    operation sequence holds at most one such unit per operation.  The
    correspondence check compares the write trace of the Go node with this log
    unit by unit, so a connect or disconnect that reaches the database in two
    writes (for a block of any size) disagrees with the model. *)
From Coq Require Import List ZArith NArith Bool Lia.
From C33 Require Import C25.Model C29.Model.
Import ListNotations.
Open Scope Z_scope.

(** a fact of the blockchain database (everything but the state tree, which
    lives in the store database and is committed by block execution) *)
Definition chain_fact (f : fact) : bool :=
  match f with FState _ => false | _ => true end.
Definition chain_unit (u : wunit) : bool := existsb chain_fact u.
Definition chain_units (log : list wunit) : list wunit := filter chain_unit log.

Lemma chain_units_app : forall a b, chain_units (a ++ b) = chain_units a ++ chain_units b.
Proof. intros. unfold chain_units. apply filter_app. Qed.

Lemma conn_batch_chain_unit : forall d b td, chain_unit (conn_batch d b td) = true.
Proof. reflexivity. Qed.

(** the connect batch holds every chain record of the connect *)
Lemma conn_batch_complete : forall d b td,
  let u := conn_batch d b td in
  In (FTx (bid b) (Some (bht b))) u /\ In (FBlkUpd (bid b)) u /\ In (FLast (bht b)) u /\
  In (FHash (bht b) (Some (bid b))) u /\ In (FSeq (next_seq d) (bid b) true) u /\
  In (FTd (bid b) td) u.
Proof. intros. unfold u, conn_batch. cbn. intuition. Qed.

Theorem connect_is_one_unit : forall sid s b,
  let r := exec_op sid s (OConn b) in
  (chain_units (snd r) = [] /\ p_chain (fst r) = p_chain s) \/
  (exists td, td_of (p_d s) b = Some td /\
     chain_units (snd r) = [conn_batch (p_d s) b td] /\ p_chain (fst r) = b :: p_chain s).
Proof.
  intros sid s b. cbn [exec_op].
  destruct (tip_ok (p_chain s) b && d_blk (p_d s) (bid b)) eqn:Hg.
  - unfold conn_units. destruct (td_of (p_d s) b) as [td|] eqn:Htd.
    + right. exists td. cbn. auto.
    + left. cbn. auto.
  - left. cbn. auto.
Qed.

Theorem disconnect_is_one_unit : forall sid s b,
  let r := exec_op sid s (ODisc b) in
  (snd r = [] /\ fst r = s) \/
  (exists t c, p_chain s = t :: c /\ bid t = bid b /\
     snd r = disc_units (p_d s) t /\ chain_units (snd r) = snd r /\ length (snd r) = 1%nat /\
     p_chain (fst r) = c).
Proof.
  intros sid s b. cbn [exec_op].
  destruct (p_chain s) as [|t c] eqn:Hc.
  - left. auto.
  - destruct (N.eqb (bid t) (bid b)) eqn:He.
    + right. exists t, c. apply N.eqb_eq in He. cbn. repeat split; auto.
    + left. auto.
Qed.

Lemma store_at_most_one : forall d b, (length (store_units d b) <= 1)%nat.
Proof.
  intros. unfold store_units. destruct (d_blk d (bid b)); [cbn; lia|].
  destruct (td_of d b); cbn; lia.
Qed.

Lemma filter_length_le : forall A (f : A -> bool) l, (length (filter f l) <= length l)%nat.
Proof. induction l as [|x l IH]; cbn; [lia|]. destruct (f x); cbn; lia. Qed.

Lemma op_at_most_one : forall sid s o, (length (chain_units (snd (exec_op sid s o))) <= 1)%nat.
Proof.
  intros sid s o. destruct o as [b|b|b].
  - cbn [exec_op snd]. unfold chain_units.
    pose proof (filter_length_le _ chain_unit (store_units (p_d s) b)).
    pose proof (store_at_most_one (p_d s) b). lia.
  - destruct (connect_is_one_unit sid s b) as [[H _]|[td [_ [H _]]]]; rewrite H; cbn; lia.
  - destruct (disconnect_is_one_unit sid s b) as [[H _]|[t [c [_ [_ [_ [H1 [H2 _]]]]]]]].
    + rewrite H. cbn. lia.
    + rewrite H1, H2. lia.
Qed.

Theorem log_one_unit_per_op : forall sid ops s,
  (length (chain_units (snd (run_ops sid s ops))) <= length ops)%nat.
Proof.
  intros sid ops. induction ops as [|o r IH]; intros s; [cbn; lia|].
  cbn [run_ops].
  pose proof (op_at_most_one sid s o) as H1.
  destruct (exec_op sid s o) as [s1 us] eqn:He.
  specialize (IH s1). destruct (run_ops sid s1 r) as [s2 log] eqn:Hr.
  cbn [snd] in *. rewrite chain_units_app, app_length. cbn [length]. lia.
Qed.

(** non-vacuity: on a fresh database the genesis block is connected by one
    chain unit, and a disconnect of the tip is one unit *)
Definition g4 : block := mkB 0%N 1000000%N 0 1365.
Definition s4 : pst := fst (run_ops (fun x => x) (mkP (replay d0 (fresh_units d0)) []) [OStore g4]).

Example connect_one_unit_example :
  chain_units (snd (exec_op (fun x => x) s4 (OConn g4))) = [conn_batch (p_d s4) g4 1365] /\
  chain_units (snd (exec_op (fun x => x) (fst (exec_op (fun x => x) s4 (OConn g4))) (ODisc g4)))
  = [[FTx 0%N None; FLast (-1); FHash 0 None; FSeq 1 0%N false; FLastSeq 1]].
Proof. split; vm_compute; reflexivity. Qed.
