(** C29 — correspondence cases: one crash point of one delivery history.

    The case carries the block tree, the delivery order, the durable writes the
    crashed process had completed (classified by the harness into facts; ONE
    unit per write the database wrapper saw, so a connect or disconnect that
    reaches the database in two writes cannot equal the model's one unit), and
    what the restarted node reported: right after start-up ([o1]), after the
    whole order was delivered again ([o2]); [ofull] is what the uninterrupted
    run of the same history reported at its end. *)
From Coq Require Import List ZArith NArith Bool.
From C33 Require Import Lib.Harness.
From C33 Require Export C25.Model C29.Model C29.Spec.
Import ListNotations.
Open Scope Z_scope.

Inductive case :=
| CCrash (fin : Z) (T : list block)        (* the tree, root (genesis) first; hashes numbered *)
         (smap : list N)                   (* per block of T: identifier of its state root *)
         (order : list N)                  (* delivered hashes, in order *)
         (trace : list wunit)              (* completed durable writes of the crashed process *)
         (started : bool)                  (* the restarted node came up *)
         (o1 o2 ofull : obs).

(** compact forms of the units of a regular run (the harness emits these when a
    classified write matches them exactly, and the explicit fact list otherwise) *)
Definition uf (k : N) : wunit := [FFlag k].
Definition ub (b : N) (td : Z) : wunit := [FBlk b; FTd b td].
Definition us (s : N) : wunit := [FState s].
Definition uc (b : N) (h n td : Z) : wunit :=
  [FTx b (Some h); FBlkUpd b; FLast h; FHash h (Some b); FSeq n b true; FHSeq b n; FLastSeq n; FTd b td].
Definition ud (b : N) (h n : Z) : wunit :=
  [FTx b None; FLast (h - 1); FHash h None; FSeq n b false; FLastSeq n].

Definition fact_eqb (a b : fact) : bool :=
  match a, b with
  | FFlag x, FFlag y => N.eqb x y
  | FTx x h, FTx y k => N.eqb x y && option_eqb Z.eqb h k
  | FBlk x, FBlk y => N.eqb x y
  | FBlkUpd x, FBlkUpd y => N.eqb x y
  | FLast x, FLast y => x =? y
  | FHash h x, FHash k y => (h =? k) && option_eqb N.eqb x y
  | FSeq n x a, FSeq m y b => (n =? m) && N.eqb x y && Bool.eqb a b
  | FHSeq x n, FHSeq y m => N.eqb x y && (n =? m)
  | FLastSeq n, FLastSeq m => n =? m
  | FTd x v, FTd y w => N.eqb x y && (v =? w)
  | FState x, FState y => N.eqb x y
  | _, _ => false      (* FOther equals nothing, not even itself *)
  end.

Fixpoint sid_of (T : list block) (smap : list N) (h : N) : N :=
  match T, smap with
  | b :: T', s :: smap' => if N.eqb (bid b) h then s else sid_of T' smap' h
  | _, _ => 0%N
  end.

Fixpoint blocks_of (T : list block) (order : list N) : option (list block) :=
  match order with
  | [] => Some []
  | h :: r =>
      match find_block h T, blocks_of T r with
      | Some b, Some l => Some (b :: l)
      | _, _ => None
      end
  end.

Fixpoint nodupb (l : list N) : bool :=
  match l with
  | [] => true
  | x :: r => negb (existsb (N.eqb x) r) && nodupb r
  end.

Fixpoint zrange (lo : Z) (n : nat) : list Z :=
  match n with O => [] | S m => lo :: zrange (lo + 1) m end.

(** what the node's read interface returns on durable state [d] with best
    chain [c] (tip first) *)
Definition observe (T : list block) (sid : N -> N) (d : dst) (c : list N) : obs :=
  let h := match d_last d with Some h => h | None => -1 end in
  let tipb := hd 0%N c in
  let hts := zrange 0 (Z.to_nat (h + 4)) in
  let hdr := fun i => match d_h2h d i with
                      | Some b => if d_blkd d b then Some b else None
                      | None => None end in
  mkO h tipb (Z.of_nat (length c) - 1) tipb
      (map (d_h2h d) hts)
      (map (fun i => match hdr i with Some _ => true | None => false end) (zrange 0 (Z.to_nat (h + 1))))
      (map hdr hts)
      (map (fun b => d_tx d (bid b)) T)
      (map (fun b => d_td d (bid b)) T)
      (map (fun b => d_blk d (bid b)) T)
      (d_state d (sid tipb))
      (match d_lastseq d with Some n => n | None => -1 end)
      (map (d_seq d) (zrange 0 (Z.to_nat (match d_lastseq d with Some n => n + 1 | None => 0 end))))
      (map (fun b => d_hseq d (bid b)) T).

Definition obs_eqb (a b : obs) : bool :=
  (o_height a =? o_height b) && N.eqb (o_last a) (o_last b) && (o_lasth a =? o_lasth b)
  && N.eqb (o_tip a) (o_tip b)
  && list_eqb (option_eqb N.eqb) (o_byh a) (o_byh b)
  && list_eqb Bool.eqb (o_load a) (o_load b)
  && list_eqb (option_eqb N.eqb) (o_hdr a) (o_hdr b)
  && list_eqb (option_eqb Z.eqb) (o_tx a) (o_tx b)
  && list_eqb (option_eqb Z.eqb) (o_td a) (o_td b)
  && list_eqb Bool.eqb (o_stored a) (o_stored b)
  && Bool.eqb (o_state a) (o_state b)
  && (o_lastseq a =? o_lastseq b)
  && list_eqb seqrec_eqb (o_seq a) (o_seq b)
  && list_eqb (option_eqb Z.eqb) (o_hseq a) (o_hseq b).

(** the chain-level part (the sequence log of a node that was restarted and fed
    again is longer than the uninterrupted one) *)
Definition obs_chain_eqb (a b : obs) : bool :=
  (o_height a =? o_height b) && N.eqb (o_last a) (o_last b) && (o_lasth a =? o_lasth b)
  && N.eqb (o_tip a) (o_tip b)
  && list_eqb (option_eqb N.eqb) (o_byh a) (o_byh b)
  && list_eqb Bool.eqb (o_load a) (o_load b)
  && list_eqb (option_eqb N.eqb) (o_hdr a) (o_hdr b)
  && list_eqb (option_eqb Z.eqb) (o_tx a) (o_tx b)
  && list_eqb (option_eqb Z.eqb) (o_td a) (o_td b)
  && list_eqb Bool.eqb (o_stored a) (o_stored b)
  && Bool.eqb (o_state a) (o_state b).

Definition model_ok (fin : Z) (T : list block) (smap order : list N) (trace : list wunit)
           (started : bool) (o1 o2 ofull : obs) : bool :=
  match T, blocks_of T order with
  | g :: _, Some ob =>
      let sid := sid_of T smap in
      let fl := fresh_units d0 in
      let '(sfull, oplog) := run_ops sid (mkP (replay d0 fl) []) (history_ops fin g ob) in
      let L := fl ++ oplog in
      let mfull := observe T sid (p_d sfull) (map bid (p_chain sfull)) in
      (* the hypothesis of the theorems: a hash identifies a block *)
      nodupb (map bid T)
      (* the writes happen in the order and with the content the model says *)
      && list_eqb (list_eqb fact_eqb) trace (firstn (length trace) L)
      && (length trace <=? length L)%nat
      (* the uninterrupted run ends where the model ends *)
      && obs_eqb mfull ofull
      (* start-up on the prefix *)
      && match start sid g (replay d0 (firstn (length trace) L)) with
         | None => negb started
         | Some (d, c) => started && obs_eqb (observe T sid d c) o1 && obs_chain_eqb mfull o2
         end
  | _, _ => false
  end.

Definition check_case (c : case) : verdict :=
  match c with
  | CCrash fin T smap order trace started o1 o2 ofull =>
      mk_verdict (model_ok fin T smap order trace started o1 o2 ofull)
                 (spec_ok T started o1 o2 ofull)
  end.
