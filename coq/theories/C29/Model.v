(** C29 — executable model of what block connection writes durably and of what
    a start-up reads back (blockchain/process.go maybeAcceptBlock /
    connectBlock / disconnectBlock, blockstore.go dbMaybeStoreBlock / SaveBlock
    / DelBlock / saveBlockSequence / SaveTdByBlockHash / NewBlockStore /
    LoadBlockStoreHeight, chain.go InitBlockChain / InitCache /
    InitIndexAndBestView, util/util.go ExecBlock = state commit before the
    chain records, system/store/mavl Commit = one batch), as coded.

    The durable state is the result of a LOG of atomic write units: each unit
    is one LevelDB batch (or one point write) and is a list of primitive facts.
    A crash keeps a prefix of the log.  A block has no size here: a unit is
    the same whether the block has one transaction or thousands (the harness
    folds the index records of a block's transactions into one [FTx] only when
    a write holds all of them).  Block hashes are abstract identifiers;
    execution is an oracle (every block executes).  Which operations happen
    (store / connect / disconnect) is decided by the C25 fork-choice model,
    instrumented here to emit them in the order of the code. *)
From Coq Require Import List ZArith NArith Bool.
From C33 Require Import C25.Model.
Import ListNotations.
Open Scope Z_scope.

(** * primitive facts and atomic units *)

Inductive fact :=
| FFlag (k : N)                          (* point write of a flag: 1 = tx quick index, 2 = db version *)
| FTx (b : N) (h : option Z)             (* tx index records of ALL transactions of block b: set to height h / deleted *)
| FBlk (b : N)                           (* header, body and receipt rows of b with their by-hash index rows *)
| FBlkUpd (b : N)                        (* the data rows of b rewritten (body and receipts after execution) *)
| FLast (h : Z)                          (* blockLastHeight := h *)
| FHash (h : Z) (b : option N)           (* Height:h := b / deleted *)
| FSeq (n : Z) (b : N) (add : bool)      (* Seq:n := (b, add|del) *)
| FHSeq (b : N) (n : Z)                  (* HashToSeq:b := n *)
| FLastSeq (n : Z)                       (* LastSequence := n *)
| FTd (b : N) (td : Z)                   (* TD:b := td *)
| FState (s : N)                         (* all nodes of state tree s (store database) *)
| FOther.                                (* a write the harness could not classify *)

Definition wunit : Type := list fact.

(** * durable state *)

Record dst := mkD {
  d_flag : N -> bool;
  d_tx : N -> option Z;
  d_blk : N -> bool;            (* rows reachable by hash *)
  d_blkd : N -> bool;           (* data rows (reachable by height + hash) *)
  d_last : option Z;
  d_h2h : Z -> option N;
  d_seq : Z -> option (N * bool);
  d_hseq : N -> option Z;
  d_lastseq : option Z;
  d_td : N -> option Z;
  d_state : N -> bool;
  d_other : bool
}.

Definition updN {A} (f : N -> A) (k : N) (v : A) : N -> A := fun x => if N.eqb x k then v else f x.
Definition updZ {A} (f : Z -> A) (k : Z) (v : A) : Z -> A := fun x => if Z.eqb x k then v else f x.

Definition d0 : dst :=
  mkD (fun _ => false) (fun _ => None) (fun _ => false) (fun _ => false) None (fun _ => None)
      (fun _ => None) (fun _ => None) None (fun _ => None) (fun _ => false) false.

Definition apply_fact (d : dst) (f : fact) : dst :=
  match d with
  | mkD fl tx blk blkd last h2h sq hsq lsq td st oth =>
    match f with
    | FFlag k => mkD (updN fl k true) tx blk blkd last h2h sq hsq lsq td st oth
    | FTx b h => mkD fl (updN tx b h) blk blkd last h2h sq hsq lsq td st oth
    | FBlk b => mkD fl tx (updN blk b true) (updN blkd b true) last h2h sq hsq lsq td st oth
    | FBlkUpd b => mkD fl tx blk (updN blkd b true) last h2h sq hsq lsq td st oth
    | FLast h => mkD fl tx blk blkd (Some h) h2h sq hsq lsq td st oth
    | FHash h b => mkD fl tx blk blkd last (updZ h2h h b) sq hsq lsq td st oth
    | FSeq n b a => mkD fl tx blk blkd last h2h (updZ sq n (Some (b, a))) hsq lsq td st oth
    | FHSeq b n => mkD fl tx blk blkd last h2h sq (updN hsq b (Some n)) lsq td st oth
    | FLastSeq n => mkD fl tx blk blkd last h2h sq hsq (Some n) td st oth
    | FTd b v => mkD fl tx blk blkd last h2h sq hsq lsq (updN td b (Some v)) st oth
    | FState s => mkD fl tx blk blkd last h2h sq hsq lsq td (updN st s true) oth
    | FOther => mkD fl tx blk blkd last h2h sq hsq lsq td st true
    end
  end.

Definition apply_unit (d : dst) (u : wunit) : dst := fold_left apply_fact u d.
Definition replay (d : dst) (log : list wunit) : dst := fold_left apply_unit log d.

(** * what each operation of the node writes (reading the durable state) *)

(** saveBlockSequence: LoadBlockLastSequence + 1 *)
Definition next_seq (d : dst) : Z := match d_lastseq d with None => 0 | Some n => n + 1 end.

(** total difficulty of [b]: its own work plus the stored td of the parent *)
Definition td_of (d : dst) (b : block) : option Z :=
  if bht b =? 0 then Some (bdiff b)
  else match d_td d (bpar b) with Some p => Some (p + bdiff b) | None => None end.

(** dbMaybeStoreBlock: nothing when the header is already there; error (nothing
    written) when the parent's td is missing *)
Definition store_units (d : dst) (b : block) : list wunit :=
  if d_blk d (bid b) then []
  else match td_of d b with
       | Some td => [[FBlk (bid b); FTd (bid b) td]]
       | None => []
       end.

(** connectBlock: execBlock commits the state (store database), then ONE batch
    with the tx index, the block rows, height->hash, last height, the sequence
    record and the td.  A missing parent td returns after the state commit and
    before the batch. *)
Definition conn_batch (d : dst) (b : block) (td : Z) : wunit :=
  let n := next_seq d in
  [FTx (bid b) (Some (bht b)); FBlkUpd (bid b); FLast (bht b); FHash (bht b) (Some (bid b));
   FSeq n (bid b) true; FHSeq (bid b) n; FLastSeq n; FTd (bid b) td].

Definition conn_units (sid : N -> N) (d : dst) (b : block) : list wunit :=
  [FState (sid (bid b))] ::
  match td_of d b with
  | Some td => [conn_batch d b td]
  | None => []
  end.

(** disconnectBlock: ONE batch *)
Definition disc_units (d : dst) (b : block) : list wunit :=
  let n := next_seq d in
  [[FTx (bid b) None; FLast (bht b - 1); FHash (bht b) None; FSeq n (bid b) false; FLastSeq n]].

(** * the process: durable state + best chain (blocks, tip first) *)

Inductive op := OStore (b : block) | OConn (b : block) | ODisc (b : block).

Record pst := mkP { p_d : dst; p_chain : list block }.

(** connectBlock's own test is that the parent hash is the tip's.  The height
    was tested when the block was accepted (maybeAcceptBlock: height = height
    of the parent's index node + 1), and that parent node is the tip. *)
Definition tip_ok (c : list block) (b : block) : bool :=
  match c with
  | [] => bht b =? 0
  | t :: _ => N.eqb (bpar b) (bid t) && (bht b =? bht t + 1)
  end.

Definition exec_op (sid : N -> N) (s : pst) (o : op) : pst * list wunit :=
  match o with
  | OStore b =>
      let us := store_units (p_d s) b in
      (mkP (replay (p_d s) us) (p_chain s), us)
  | OConn b =>
      (* connectBlock is reached only for a block whose rows are stored:
         dbMaybeStoreBlock succeeded (maybeAcceptBlock) or LoadBlockByHash
         found it (reorganizeChain) *)
      if tip_ok (p_chain s) b && d_blk (p_d s) (bid b) then
        let us := conn_units sid (p_d s) b in
        (mkP (replay (p_d s) us)
             (match td_of (p_d s) b with Some _ => b :: p_chain s | None => p_chain s end), us)
      else (s, [])
  | ODisc b =>
      match p_chain s with
      | t :: c' =>
          if N.eqb (bid t) (bid b) then
            let us := disc_units (p_d s) t in (mkP (replay (p_d s) us) c', us)
          else (s, [])
      | [] => (s, [])
      end
  end.

Fixpoint run_ops (sid : N -> N) (s : pst) (ops : list op) : pst * list wunit :=
  match ops with
  | [] => (s, [])
  | o :: r =>
      let '(s1, us) := exec_op sid s o in
      let '(s2, log) := run_ops sid s1 r in
      (s2, us ++ log)
  end.

(** * the operations of a delivery history (instrumented C25 model) *)

Definition find_blk (ix : list node) (h : N) : option block :=
  match find_node h ix with Some n => Some (nblk n) | None => None end.

Definition ev_op (ix : list node) (e : N * bool) : list op :=
  match find_blk ix (fst e) with
  | Some b => [if snd e then OConn b else ODisc b]
  | None => []
  end.

(** the connect/disconnect calls made between [s] and [s'], oldest first *)
Definition new_evs (s s' : state) : list (N * bool) :=
  rev (firstn (length (evs s') - length (evs s)) (evs s')).

(** maybeAcceptBlock: dbMaybeStoreBlock, then connectBestChain *)
Definition accept_ops (fin : Z) (s : state) (b : block) : list op :=
  match find_node (bpar b) (idx s) with
  | None => []
  | Some p =>
      if negb (bht b =? bht (nblk p) + 1) then []
      else let s' := fst (fst (accept fin s b)) in
           OStore b :: flat_map (ev_op (idx s')) (new_evs s s')
  end.

Fixpoint porph_ops (fuel : nat) (fin : Z) (q : list N) (s : state) : list op :=
  match fuel with
  | O => []
  | S f =>
      match q with
      | [] => []
      | p :: q' =>
          match first_child p (orph s) with
          | None => porph_ops f fin q' s
          | Some c =>
              let s0 := mkS (idx s) (remove_orph (bid c) (orph s)) (main s) (evs s) in
              accept_ops fin s0 c ++
              match accept fin s0 c with
              | (s1, _, ENone) => porph_ops f fin (q ++ [bid c]) s1
              | _ => []
              end
          end
      end
  end.

Definition deliver_ops (fin : Z) (s : state) (b : block) : list op :=
  if in_idx (bid b) (idx s) then []
  else
    let known := in_orph (bid b) (orph s) in
    if known && negb (in_idx (bpar b) (idx s)) then []
    else
      let s1 := if known then mkS (idx s) (remove_orph (bid b) (orph s)) (main s) (evs s) else s in
      if negb (in_idx (bpar b) (idx s1)) then []
      else
        accept_ops fin s1 b ++
        match accept fin s1 b with
        | (s2, _, ENone) => porph_ops (porph_fuel s2) fin [bid b] s2
        | _ => []
        end.

Fixpoint order_ops (fin : Z) (s : state) (order : list block) : list op :=
  match order with
  | [] => []
  | b :: r => deliver_ops fin s b ++ order_ops fin (step fin s b) r
  end.

(** a fresh node: the consensus module creates and connects the genesis block,
    then the deliveries *)
Definition genesis_ops (g : block) : list op := [OStore g; OConn g].
Definition history_ops (fin : Z) (g : block) (order : list block) : list op :=
  genesis_ops g ++ order_ops fin (init g) order.

(** the flag writes of a start on an empty database (NewBlockStore:
    saveQuickIndexFlag; InitBlockChain: SetDbVersion when none is stored) *)
Definition fresh_units (d : dst) : list wunit :=
  [FFlag 1] :: (if d_flag d 2%N then [] else [[FFlag 2]]).

Definition history_log (sid : N -> N) (fin : Z) (g : block) (order : list block) : list wunit :=
  let fl := fresh_units d0 in
  fl ++ snd (run_ops sid (mkP (replay d0 fl) []) (history_ops fin g order)).

(** * start-up *)

(** heights n-1 .. 0 (tip first): hash by height and the block's rows (LoadBlock,
    InitCache, InitIndexAndBestView panic when either is missing) *)
Fixpoint read_chain (d : dst) (n : nat) : option (list N) :=
  match n with
  | O => Some []
  | S m =>
      match d_h2h d (Z.of_nat m) with
      | Some b =>
          if d_blkd d b then
            match read_chain d m with Some c => Some (b :: c) | None => None end
          else None
      | None => None
      end
  end.

Inductive recovered := RFresh | RChain (h : Z) (c : list N) | RFail.

Definition recover (d : dst) : recovered :=
  match d_last d with
  | None => RFresh
  | Some h =>
      if h <? 0 then RFresh
      else match read_chain d (S (Z.to_nat h)) with
           | Some c => RChain h c
           | None => RFail
           end
  end.

(** start-up of a node whose consensus module knows the genesis block [g]:
    [None] = the start-up panics; otherwise the durable state and best chain
    (hashes, tip first) once the node is up *)
Definition start (sid : N -> N) (g : block) (d : dst) : option (dst * list N) :=
  match recover d with
  | RFail => None
  | RChain _ c => Some (d, c)
  | RFresh =>
      let d1 := replay d (fresh_units d) in
      let s := fst (run_ops sid (mkP d1 []) (genesis_ops g)) in
      Some (p_d s, map bid (p_chain s))
  end.
