(** C29 — proofs, part 2: the write log of a whole delivery history (fresh
    database, flag writes, genesis, deliveries decided by the C25 fork-choice
    model); a concrete reorganisation history; and why the single batch is
    needed. *)
From Coq Require Import List ZArith NArith Bool Lia.
From C33 Require Import C25.Model C29.Model C29.Proofs.
Import ListNotations.
Open Scope Z_scope.

(** the flag writes do not touch any chain record *)
Lemma inv_flags : forall sid k, inv sid (mkP (replay d0 (firstn k (fresh_units d0))) []).
Proof.
  intros sid k. destruct k as [|[|[|k]]]; (constructor; cbn; [left; reflexivity|exact I|reflexivity|reflexivity|constructor]).
Qed.

Lemma fresh_units_d0 : fresh_units d0 = [[FFlag 1%N]; [FFlag 2%N]].
Proof. reflexivity. Qed.

(** Every crash point of every delivery history whose operation sequence is
    valid: the durable state describes exactly the chain after some prefix of
    the operations, and start-up recovers that chain. *)
Theorem history_crash_consistent : forall sid fin g order k,
  ops_valid [] (history_ops fin g order) = true ->
  exists j, (j <= length (history_ops fin g order))%nat /\
    consistent_with sid (replay d0 (firstn k (history_log sid fin g order)))
                    (chain_run [] (firstn j (history_ops fin g order))).
Proof.
  intros sid fin g order k V. unfold history_log.
  set (fl := fresh_units d0). set (ops := history_ops fin g order) in *.
  destruct (Nat.le_gt_cases k (length fl)) as [Hk|Hk].
  - (* the crash falls within the flag writes: nothing of the chain exists *)
    exists 0%nat. split; [lia|]. cbn [firstn chain_run].
    rewrite firstn_app. replace (k - length fl)%nat with 0%nat by lia.
    cbn [firstn]. rewrite app_nil_r.
    pose proof (inv_flags sid k) as I. fold fl in I.
    split; [exact I|]. apply (recover_inv sid _ I).
  - rewrite firstn_app, (firstn_all2 fl) by lia. rewrite replay_app.
    pose proof (inv_flags sid (length fl)) as I. fold fl in I. rewrite firstn_all in I.
    exact (crash_consistent sid [] (replay d0 fl) ops (k - length fl) I V).
Qed.

Theorem history_resume : forall sid fin g order k,
  ops_valid [] (history_ops fin g order) = true ->
  (length (fresh_units d0) <= k)%nat ->
  let ops := history_ops fin g order in
  exists j, (j <= length ops)%nat /\
    let dk := replay d0 (firstn k (history_log sid fin g order)) in
    let cj := chain_run [] (firstn j ops) in
    let send := fst (run_ops sid (mkP dk cj) (skipn j ops)) in
    p_chain send = p_chain (fst (run_ops sid (mkP (replay d0 (fresh_units d0)) []) ops)) /\
    consistent_with sid (p_d send) (p_chain send).
Proof.
  intros sid fin g order k V Hk ops. unfold history_log.
  set (fl := fresh_units d0) in *. fold ops.
  rewrite firstn_app, (firstn_all2 fl) by lia. rewrite replay_app.
  pose proof (inv_flags sid (length fl)) as I. fold fl in I. rewrite firstn_all in I.
  exact (resume_same_final sid [] (replay d0 fl) ops (k - length fl) I V).
Qed.

(** * a concrete history: trunk of 13 blocks, a branch of 3 from height 11 that
    overtakes it (reorganisation of depth 2 above the 12-block margin) *)

Fixpoint trunk (n : nat) (from : N) (h : Z) : list block :=
  match n with
  | O => []
  | S m => mkB (from + 1) from (h + 1) 5 :: trunk m (from + 1) (h + 1)
  end.

Definition ex_g : block := mkB 0 99 0 5.
Definition ex_order : list block :=
  trunk 13 0 0 ++ [mkB 14 11 12 5; mkB 15 14 13 5; mkB 16 15 14 5].
Definition ex_sid : N -> N := fun x => x.
Definition ex_ops : list op := history_ops 0 ex_g ex_order.
Definition ex_log : list wunit := history_log ex_sid 0 ex_g ex_order.

Definition is_disc (o : op) : bool := match o with ODisc _ => true | _ => false end.

Lemma example_valid :
  ops_valid [] ex_ops = true /\ length (filter is_disc ex_ops) = 2%nat /\ length ex_log = 55%nat /\
  map bid (p_chain (fst (run_ops ex_sid (mkP (replay d0 (fresh_units d0)) []) ex_ops)))
  = [16; 15; 14; 11; 10; 9; 8; 7; 6; 5; 4; 3; 2; 1; 0]%N.
Proof. vm_compute. repeat split. Qed.

(** every crash point of the example starts up *)
Definition starts (d : dst) : bool :=
  match start ex_sid ex_g d with Some _ => true | None => false end.

Lemma example_all_start :
  forallb (fun k => starts (replay d0 (firstn k ex_log))) (seq 0 56) = true.
Proof. vm_compute. reflexivity. Qed.

(** * the single batch is needed: with the last-height record written as a
    write of its own before the rest of the connect batch, a crash between the
    two leaves a database on which start-up fails *)

Definition split_conn (u : wunit) : list wunit :=
  match u with
  | FTx b h :: FBlkUpd b' :: FLast l :: rest => [[FLast l]; FTx b h :: FBlkUpd b' :: rest]
  | _ => [u]
  end.

Definition ex_split_log : list wunit := flat_map split_conn ex_log.

Lemma split_same_final :
  recover (replay d0 ex_split_log) = recover (replay d0 ex_log).
Proof. vm_compute. reflexivity. Qed.

Lemma split_unsafe :
  exists k, recover (replay d0 (firstn k ex_split_log)) = RFail.
Proof. exists 5%nat. vm_compute. reflexivity. Qed.
