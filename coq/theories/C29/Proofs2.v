(** C29 — proofs, part 2: the write log of a whole delivery history (fresh
    database, flag writes, genesis, deliveries decided by the C25 fork-choice
    model): every block an operation mentions is the genesis block or a
    delivered block, so the theorems of part 1 apply to every history; a
    concrete reorganisation history; and why the single batch is needed. *)
From Coq Require Import List ZArith NArith Bool Lia.
From C33 Require Import C25.Model C29.Model C29.Proofs.
Import ListNotations.
Open Scope Z_scope.

(** * the blocks of the fork-choice state come from the delivered blocks *)

Section Blocks.
Variable U : list block.

Definition bl (s : state) : Prop :=
  (forall n, In n (idx s) -> In (nblk n) U) /\ (forall c, In c (orph s) -> In c U).

Lemma find_blk_in : forall ix h b, (forall n, In n ix -> In (nblk n) U) -> find_blk ix h = Some b -> In b U.
Proof.
  intros ix h b H F. unfold find_blk in F. destruct (find_node h ix) as [n|] eqn:E; [|discriminate].
  inversion F; subst. apply H. unfold find_node in E. apply find_some in E as [Hn _]. exact Hn.
Qed.

Lemma connect_best_shape : forall fin s b td,
  let s' := fst (fst (connect_best fin s b td)) in idx s' = idx s /\ orph s' = orph s.
Proof.
  intros fin s b td. unfold connect_best.
  destruct (N.eqb (bpar b) (tip s)); [cbn; auto|].
  destruct (find_node (tip s) (idx s)) as [t|]; [|cbn; auto].
  destruct ((td <=? ntd t) || (bht b <? fin + margin)); [cbn; auto|].
  destruct (branch (S (Z.to_nat (bht b))) (idx s) (main s) (bid b)) as [[p fk]|]; cbn; auto.
Qed.

Lemma accept_bl : forall fin s b, bl s -> In b U -> bl (fst (fst (accept fin s b))).
Proof.
  intros fin s b [Hi Ho] Hb. unfold accept.
  destruct (find_node (bpar b) (idx s)) as [p|]; [|split; assumption].
  destruct (negb (bht b =? bht (nblk p) + 1)); [split; assumption|].
  match goal with |- bl (fst (fst (connect_best fin ?s1 b ?td))) =>
    destruct (connect_best_shape fin s1 b td) as [E1 E2] end.
  cbn [idx orph] in E1, E2. split.
  - intros n Hn. rewrite E1 in Hn. destruct Hn as [<-|Hn]; [exact Hb|apply Hi; exact Hn].
  - intros c Hc. rewrite E2 in Hc. apply Ho. exact Hc.
Qed.

Lemma bl_orph : forall s o, bl s -> (forall c, In c o -> In c U) -> bl (mkS (idx s) o (main s) (evs s)).
Proof. intros s o [Hi _] Ho. split; assumption. Qed.

Lemma remove_orph_sub : forall h o c, In c (remove_orph h o) -> In c o.
Proof. intros h o c H. unfold remove_orph in H. apply filter_In in H as [H _]. exact H. Qed.

Lemma first_child_in : forall p o c, first_child p o = Some c -> In c o.
Proof. intros p o c H. unfold first_child in H. apply find_some in H as [H _]. exact H. Qed.

Lemma porph_bl : forall fuel fin q s, bl s -> bl (fst (porph fuel fin q s)).
Proof.
  induction fuel as [|f IH]; intros fin q s B; [exact B|].
  cbn [porph]. destruct q as [|p q']; [exact B|].
  destruct (first_child p (orph s)) as [c|] eqn:FC; [|apply IH; exact B].
  pose proof (first_child_in _ _ _ FC) as Hc.
  set (s0 := mkS (idx s) (remove_orph (bid c) (orph s)) (main s) (evs s)).
  assert (B0 : bl s0).
  { apply bl_orph; [exact B|]. intros x Hx. apply (proj2 B). eapply remove_orph_sub. exact Hx. }
  pose proof (accept_bl fin s0 c B0 (proj2 B c Hc)) as B1.
  destruct (accept fin s0 c) as [[s1 m1] e1]. cbn [fst] in B1.
  destruct e1; try exact B1. apply IH. exact B1.
Qed.

Lemma step_bl : forall fin s b, bl s -> In b U -> bl (step fin s b).
Proof.
  intros fin s b B Hb. unfold step, deliver.
  destruct (in_idx (bid b) (idx s)); [exact B|].
  destruct (in_orph (bid b) (orph s) && negb (in_idx (bpar b) (idx s))); [exact B|].
  set (s1 := if in_orph (bid b) (orph s) then _ else s).
  assert (B1 : bl s1).
  { subst s1. destruct (in_orph (bid b) (orph s)); [|exact B].
    apply bl_orph; [exact B|]. intros x Hx. apply (proj2 B). eapply remove_orph_sub. exact Hx. }
  clearbody s1.
  destruct (negb (in_idx (bpar b) (idx s1))).
  - cbn [fst]. apply bl_orph; [exact B1|]. intros x Hx.
    apply in_app_or in Hx as [Hx|[<-|[]]]; [apply (proj2 B1); exact Hx|exact Hb].
  - pose proof (accept_bl fin s1 b B1 Hb) as B2.
    destruct (accept fin s1 b) as [[s2 m2] e2]. cbn [fst] in B2.
    destruct e2; try exact B2.
    pose proof (porph_bl (porph_fuel s2) fin [bid b] s2 B2) as B3.
    destruct (porph (porph_fuel s2) fin [bid b] s2) as [s3 e3]. cbn [fst] in B3.
    destruct e3; exact B3.
Qed.

(** ** the operations *)

Definition all_in (ops : list op) : Prop := forall o, In o ops -> In (op_block o) U.

Lemma all_in_app : forall a b, all_in a -> all_in b -> all_in (a ++ b).
Proof. intros a b Ha Hb o Ho. apply in_app_or in Ho as [Ho|Ho]; auto. Qed.

Lemma ev_ops_in : forall ix evl, (forall n, In n ix -> In (nblk n) U) -> all_in (flat_map (ev_op ix) evl).
Proof.
  intros ix evl H o Ho. apply in_flat_map in Ho as (e & _ & He).
  unfold ev_op in He. destruct (find_blk ix (fst e)) as [b|] eqn:F; [|destruct He].
  destruct He as [<-|[]]. pose proof (find_blk_in ix _ _ H F). destruct (snd e); exact H0.
Qed.

Lemma accept_ops_in : forall fin s b, bl s -> In b U -> all_in (accept_ops fin s b).
Proof.
  intros fin s b B Hb. unfold accept_ops.
  destruct (find_node (bpar b) (idx s)) as [p|]; [|intros o []].
  destruct (negb (bht b =? bht (nblk p) + 1)); [intros o []|].
  intros o [<-|Ho]; [exact Hb|].
  revert o Ho. apply ev_ops_in. exact (proj1 (accept_bl fin s b B Hb)).
Qed.

Lemma porph_ops_in : forall fuel fin q s, bl s -> all_in (porph_ops fuel fin q s).
Proof.
  induction fuel as [|f IH]; intros fin q s B; [intros o []|].
  cbn [porph_ops]. destruct q as [|p q']; [intros o []|].
  destruct (first_child p (orph s)) as [c|] eqn:FC; [|apply IH; exact B].
  pose proof (first_child_in _ _ _ FC) as Hc.
  set (s0 := mkS (idx s) (remove_orph (bid c) (orph s)) (main s) (evs s)).
  assert (B0 : bl s0).
  { apply bl_orph; [exact B|]. intros x Hx. apply (proj2 B). eapply remove_orph_sub. exact Hx. }
  apply all_in_app; [apply accept_ops_in; [exact B0|exact (proj2 B c Hc)]|].
  pose proof (accept_bl fin s0 c B0 (proj2 B c Hc)) as B1.
  destruct (accept fin s0 c) as [[s1 m1] e1]. cbn [fst] in B1.
  destruct e1; try (intros o []). apply IH. exact B1.
Qed.

Lemma deliver_ops_in : forall fin s b, bl s -> In b U -> all_in (deliver_ops fin s b).
Proof.
  intros fin s b B Hb. unfold deliver_ops.
  destruct (in_idx (bid b) (idx s)); [intros o []|].
  destruct (in_orph (bid b) (orph s) && negb (in_idx (bpar b) (idx s))); [intros o []|].
  set (s1 := if in_orph (bid b) (orph s) then _ else s).
  assert (B1 : bl s1).
  { subst s1. destruct (in_orph (bid b) (orph s)); [|exact B].
    apply bl_orph; [exact B|]. intros x Hx. apply (proj2 B). eapply remove_orph_sub. exact Hx. }
  clearbody s1.
  destruct (negb (in_idx (bpar b) (idx s1))); [intros o []|].
  apply all_in_app; [apply accept_ops_in; assumption|].
  pose proof (accept_bl fin s1 b B1 Hb) as B2.
  destruct (accept fin s1 b) as [[s2 m2] e2]. cbn [fst] in B2.
  destruct e2; try (intros o []). apply porph_ops_in. exact B2.
Qed.

Lemma order_ops_in : forall fin order s, bl s -> (forall b, In b order -> In b U) -> all_in (order_ops fin s order).
Proof.
  induction order as [|b r IH]; intros s B H; [intros o []|].
  cbn [order_ops]. apply all_in_app.
  - apply deliver_ops_in; [exact B|]. apply H. left. reflexivity.
  - apply IH; [apply step_bl; [exact B|apply H; left; reflexivity]|].
    intros x Hx. apply H. right. exact Hx.
Qed.

End Blocks.

Lemma history_ops_in : forall fin g order, all_in (g :: order) (history_ops fin g order).
Proof.
  intros fin g order. unfold history_ops. apply all_in_app.
  - intros o [<-|[<-|[]]]; left; reflexivity.
  - apply order_ops_in.
    + split; [|intros c []]. intros n [<-|[]]. left. reflexivity.
    + intros b Hb. right. exact Hb.
Qed.

(** * whole histories *)

(** the flag writes do not touch any chain record *)
Lemma inv_flags : forall sid U k, inv sid U (mkP (replay d0 (firstn k (fresh_units d0))) []).
Proof.
  intros sid U k.
  destruct k as [|[|[|k]]];
    (constructor; cbn; [left; reflexivity|exact I|reflexivity|reflexivity|constructor|intros x []]).
Qed.

Definition hash_identifies (U : list block) : Prop :=
  forall x y, In x U -> In y U -> bid x = bid y -> x = y.

(** Every crash point of every delivery history: the durable state describes
    exactly the chain the node had after some prefix of its operations, and
    start-up recovers that chain. *)
Theorem history_crash_consistent : forall sid fin g order k,
  hash_identifies (g :: order) ->
  let ops := history_ops fin g order in
  let s0 := mkP (replay d0 (fresh_units d0)) [] in
  exists j, (j <= length ops)%nat /\
    consistent_with sid (g :: order) (replay d0 (firstn k (history_log sid fin g order)))
                    (chain_after sid s0 ops j).
Proof.
  intros sid fin g order k HU ops s0. unfold history_log. fold ops.
  set (fl := fresh_units d0) in *.
  pose proof (history_ops_in fin g order) as V. fold ops in V.
  destruct (Nat.le_gt_cases k (length fl)) as [Hk|Hk].
  - (* the crash falls within the flag writes: nothing of the chain exists *)
    exists 0%nat. split; [lia|]. unfold chain_after. cbn [firstn run_ops fst p_chain s0].
    rewrite firstn_app. replace (k - length fl)%nat with 0%nat by lia.
    cbn [firstn]. rewrite app_nil_r.
    pose proof (inv_flags sid (g :: order) k) as I. fold fl in I.
    split; [exact I|]. apply (recover_inv sid (g :: order) _ I).
  - rewrite firstn_app, (firstn_all2 fl) by lia. rewrite replay_app.
    pose proof (inv_flags sid (g :: order) (length fl)) as I. fold fl in I. rewrite firstn_all in I.
    exact (crash_consistent sid (g :: order) HU [] (replay d0 fl) ops (k - length fl) I V).
Qed.

Theorem history_resume : forall sid fin g order k,
  hash_identifies (g :: order) ->
  (length (fresh_units d0) <= k)%nat ->
  let ops := history_ops fin g order in
  let s0 := mkP (replay d0 (fresh_units d0)) [] in
  exists j, (j <= length ops)%nat /\
    let dk := replay d0 (firstn k (history_log sid fin g order)) in
    let cj := chain_after sid s0 ops j in
    consistent_with sid (g :: order) dk cj /\
    let send := fst (run_ops sid (mkP dk cj) (skipn j ops)) in
    p_chain send = p_chain (fst (run_ops sid s0 ops)) /\
    consistent_with sid (g :: order) (p_d send) (p_chain send).
Proof.
  intros sid fin g order k HU Hk ops s0. unfold history_log. fold ops.
  set (fl := fresh_units d0) in *.
  pose proof (history_ops_in fin g order) as V. fold ops in V.
  rewrite firstn_app, (firstn_all2 fl) by lia. rewrite replay_app.
  pose proof (inv_flags sid (g :: order) (length fl)) as I. fold fl in I. rewrite firstn_all in I.
  exact (resume_same_final sid (g :: order) HU [] (replay d0 fl) ops (k - length fl) I V).
Qed.

(** * a concrete history: trunk of 13 blocks, a branch of 3 from height 11 that
    overtakes it (reorganisation of depth 2 above the 12-block margin) *)

Fixpoint trunk (n : nat) (from : N) (h : Z) : list block :=
  match n with
  | O => []
  | S m => mkB (from + 1) from (h + 1) 5 :: trunk m (from + 1) (h + 1)
  end.

Definition ex_g : block := mkB 0 99 0 5.
Definition ex_order : list block :=
  trunk 13 0 0 ++ [mkB 14 11 12 5; mkB 15 14 13 5; mkB 16 15 14 5].
Definition ex_sid : N -> N := fun x => x.
Definition ex_ops : list op := history_ops 0 ex_g ex_order.
Definition ex_log : list wunit := history_log ex_sid 0 ex_g ex_order.

Definition is_disc (o : op) : bool := match o with ODisc _ => true | _ => false end.

Lemma example_ids : NoDup (map bid (ex_g :: ex_order)).
Proof.
  vm_compute. repeat (constructor; [intros H; repeat (destruct H as [H|H]; [discriminate H|]); exact H|]).
  constructor.
Qed.

Lemma nodup_identifies : forall U, NoDup (map bid U) -> hash_identifies U.
Proof.
  induction U as [|a U IH]; intros ND x y Hx Hy E; [destruct Hx|].
  cbn [map] in ND. inversion ND as [|? ? Ha ND']; subst.
  destruct Hx as [<-|Hx], Hy as [<-|Hy].
  - reflexivity.
  - exfalso. apply Ha. rewrite E. apply in_map. exact Hy.
  - exfalso. apply Ha. rewrite <- E. apply in_map. exact Hx.
  - apply IH; assumption.
Qed.

Lemma example_valid :
  hash_identifies (ex_g :: ex_order) /\
  length (filter is_disc ex_ops) = 2%nat /\ length ex_log = 55%nat /\
  map bid (p_chain (fst (run_ops ex_sid (mkP (replay d0 (fresh_units d0)) []) ex_ops)))
  = [16; 15; 14; 11; 10; 9; 8; 7; 6; 5; 4; 3; 2; 1; 0]%N.
Proof. split; [apply nodup_identifies, example_ids|]. vm_compute. repeat split. Qed.

(** * the single batch is needed: with the last-height record written as a
    write of its own before the rest of the connect batch, a crash between the
    two leaves a database on which start-up fails *)

Definition split_conn (u : wunit) : list wunit :=
  match u with
  | FTx b h :: FBlkUpd b' :: FLast l :: rest => [[FLast l]; FTx b h :: FBlkUpd b' :: rest]
  | _ => [u]
  end.

Definition ex_split_log : list wunit := flat_map split_conn ex_log.

Lemma split_same_final :
  recover (replay d0 ex_split_log) = recover (replay d0 ex_log).
Proof. vm_compute. reflexivity. Qed.

Lemma split_unsafe :
  exists k, recover (replay d0 (firstn k ex_split_log)) = RFail.
Proof. exists 5%nat. vm_compute. reflexivity. Qed.
