(** C29 — proofs, part 3: continued processing by re-delivery.  After a crash
    the node rebuilds its block index from the recovered best chain only; when
    the blocks of the history are delivered again (in any order), the
    fork-choice model of C25, started from that rebuilt index, ends on the same
    block as the uninterrupted run (under C25's guard: a unique heaviest block
    at least 12 above the finalized height). *)
From Coq Require Import List ZArith NArith Bool Lia.
From C33 Require Import C25.Model C25.Proofs C25.Proofs2 C29.Model C29.Proofs C29.Proofs2.
Import ListNotations.
Open Scope Z_scope.

(** the index rebuilt at start-up (InitIndexAndBestView) from the recovered
    chain [c] (tip first): one node per block with the stored total difficulty *)
Fixpoint chain_nodes (c : list block) : list node :=
  match c with
  | [] => []
  | b :: r => mkN b (sumd c) :: chain_nodes r
  end.

Definition restart_state (c : list block) : state := mkS (chain_nodes c) [] (ids c) [].

Section Redeliver.
Variables (fin : Z) (g : block) (T : list block).
Hypothesis Hg : In g T.
Hypothesis Hnd : NoDup (map bid T).
Hypothesis Hconn : forall b, In b T -> exists l td, path g T b l td.
Hypothesis Hdiff : forall b, In b T -> 0 <= bdiff b.
Hypothesis Hg0 : bht g = 0.

(** what the invariant of part 1 says about the shape of a recovered chain *)
Fixpoint linked_chain (c : list block) : Prop :=
  match c with
  | [] => True
  | b :: r =>
      In b T /\ bht b = Z.of_nat (length r) /\
      match r with [] => True | t :: _ => bpar b = bid t end /\
      linked_chain r
  end.

Lemma height0_root : forall b, In b T -> bht b = 0 -> b = g.
Proof.
  intros b Hb H0. destruct (Hconn b Hb) as (l & td & P).
  apply path_inv in P as [(E & _)|(p & l0 & td0 & _ & Pp & _ & Hh & _)]; [exact E|].
  apply path_height in Pp. lia.
Qed.

Lemma linked_path : forall c b r, c = b :: r -> linked_chain c -> path g T b (ids c) (sumd c).
Proof.
  induction c as [|x c' IH]; intros b r E L; [discriminate|].
  inversion E; subst x c'. clear E.
  cbn [linked_chain] in L. destruct L as (Hb & Hh & Hp & Lr).
  destruct r as [|t r'].
  - cbn [length] in Hh. assert (b = g) by (apply height0_root; [exact Hb|lia]). subst b.
    cbn [ids map sumd]. replace (bdiff g + 0) with (bdiff g) by lia. apply path_root.
  - specialize (IH t r' eq_refl Lr).
    cbn [ids map sumd] in *. replace (bdiff b + (bdiff t + sumd r')) with ((bdiff t + sumd r') + bdiff b) by lia.
    apply (path_step g T b t _ _ Hb IH Hp).
    cbn [linked_chain] in Lr. destruct Lr as (_ & Ht & _). cbn [length] in Hh. lia.
Qed.

Lemma sumd_nonneg : forall c, linked_chain c -> 0 <= sumd c.
Proof.
  induction c as [|b r IH]; intros L; [cbn; lia|].
  cbn [linked_chain] in L. destruct L as (Hb & _ & _ & Lr). cbn [sumd].
  specialize (IH Lr). specialize (Hdiff b Hb). lia.
Qed.

(** every node of the rebuilt index is a suffix of the chain *)
Lemma chain_nodes_in : forall c n, In n (chain_nodes c) ->
  exists p r, c = p ++ nblk n :: r /\ ntd n = sumd (nblk n :: r).
Proof.
  induction c as [|b r IH]; intros n Hn; [destruct Hn|].
  cbn [chain_nodes] in Hn. destruct Hn as [<-|Hn].
  - exists [], r. split; reflexivity.
  - destruct (IH n Hn) as (p & r' & E & Etd). exists (b :: p), r'. split; [rewrite E; reflexivity|exact Etd].
Qed.

Lemma linked_suffix : forall p c, linked_chain (p ++ c) -> linked_chain c.
Proof.
  induction p as [|x p IH]; intros c L; [exact L|].
  cbn [app linked_chain] in L. destruct L as (_ & _ & _ & L). apply IH. exact L.
Qed.

Lemma sumd_suffix_le : forall p c, linked_chain (p ++ c) -> sumd c <= sumd (p ++ c).
Proof.
  induction p as [|x p IH]; intros c L; [cbn; lia|].
  cbn [app linked_chain] in L. destruct L as (Hx & _ & _ & L). cbn [app sumd].
  specialize (IH c L). specialize (Hdiff x Hx). lia.
Qed.

Lemma in_idx_chain_nodes : forall c x, In x c -> in_idx (bid x) (chain_nodes c) = true.
Proof.
  intros c x Hx. apply in_idx_true. induction c as [|b r IH]; [destruct Hx|].
  cbn [chain_nodes]. destruct Hx as [<-|Hx].
  - eexists. split; [left; reflexivity|reflexivity].
  - destruct (IH Hx) as (n & Hn & En). exists n. split; [right; exact Hn|exact En].
Qed.

Lemma last_is_root : forall c, linked_chain c -> c <> [] -> In g c.
Proof.
  induction c as [|b r IH]; intros L Ne; [contradiction|].
  cbn [linked_chain] in L. destruct L as (Hb & Hh & _ & Lr).
  destruct r as [|t r'].
  - left. apply height0_root; [exact Hb|cbn [length] in Hh; lia].
  - right. apply IH; [exact Lr|discriminate].
Qed.

(** the rebuilt state satisfies the fork-choice invariant of C25 (nothing
    delivered yet, no orphans) *)
Lemma restart_inv : forall c, linked_chain c -> c <> [] ->
  C25.Proofs2.inv fin g T [] (restart_state c).
Proof.
  intros c L Ne. unfold C25.Proofs2.inv, restart_state. cbn [orph idx main].
  split; [|split; [intros x []|split; [intros x []|intros x []]]].
  unfold core. cbn [idx main]. split; [|split].
  - (* idx_ok *)
    intros n Hn. destruct (chain_nodes_in c n Hn) as (p & r & E & Etd).
    assert (Ls : linked_chain (nblk n :: r)) by (apply (linked_suffix p); rewrite <- E; exact L).
    split.
    + exists (ids (nblk n :: r)). rewrite Etd. apply (linked_path _ (nblk n) r eq_refl Ls).
    + destruct r as [|t r'].
      * left. cbn [linked_chain] in Ls. destruct Ls as (Hb & Hh & _).
        apply height0_root; [exact Hb|cbn [length] in Hh; lia].
      * right. cbn [linked_chain] in Ls. destruct Ls as (_ & _ & Hp & _). rewrite Hp.
        apply in_idx_chain_nodes. rewrite E. apply in_or_app. right. right. left. reflexivity.
  - apply in_idx_chain_nodes. apply last_is_root; assumption.
  - destruct c as [|b r]; [contradiction|].
    exists (mkN b (sumd (b :: r))). split; [left; reflexivity|]. split.
    + cbn [nblk ntd]. apply (linked_path _ b r eq_refl L).
    + intros n Hn _. cbn [ntd]. destruct (chain_nodes_in (b :: r) n Hn) as (p & r' & E & Etd).
      rewrite Etd, E. apply sumd_suffix_le. rewrite <- E. exact L.
Qed.

(** C25's convergence, from any state that satisfies its invariant *)
Lemma converges_from : forall s0 order H lH tdH,
  C25.Proofs2.inv fin g T [] s0 ->
  (forall b, In b order -> In b T) ->
  (forall b, In b T -> b = g \/ In b order) ->
  path g T H lH tdH ->
  (forall x l td, path g T x l td -> x <> H -> td < tdH) ->
  fin + margin <= bht H ->
  let s := fold_left (step fin) order s0 in
  tip s = bid H /\ main s = lH.
Proof.
  intros s0 order H lH tdH I0 Hsub Hall PH Hmax Hm s.
  assert (Hg0' : 0 <= bht g) by lia.
  assert (I : C25.Proofs2.inv fin g T (rev order ++ []) s)
    by (apply (C25.Proofs2.run_inv fin g T Hg Hnd Hconn Hdiff Hg0'); [exact Hsub|exact I0]).
  destruct I as ((OK & Rt & t & Ht & Pt & Mx) & OO & Par & Del).
  assert (All : forall b l td, path g T b l td -> in_idx (bid b) (idx s) = true).
  { intros b l td P. induction P as [|b p l td Hb Pp IH Hpar Hht]; [exact Rt|].
    destruct (Hall b Hb) as [->|Ho]; [exact Rt|].
    destruct (Del b) as [X|X]; [apply in_or_app; left; apply in_rev in Ho; exact Ho|exact X|].
    apply Par in X. rewrite Hpar, IH in X. discriminate. }
  apply All in PH as InH. apply in_idx_true in InH as (n & Hn & En).
  destruct (OK _ Hn) as [[ln Pn] _].
  assert (Bn : nblk n = H).
  { apply (id_inj T Hnd); [eapply (path_in g T Hg); eauto|eapply (path_in g T Hg); eauto|exact En]. }
  rewrite Bn in Pn. destruct (path_fun g T Hg Hnd _ _ _ PH _ _ Pn) as [_ Etd].
  assert (Le : tdH <= ntd t) by (rewrite <- Etd; apply Mx; [exact Hn|rewrite Bn; exact Hm]).
  assert (Bt : nblk t = H).
  { destruct (N.eq_dec (bid (nblk t)) (bid H)) as [E|E].
    - apply (id_inj T Hnd); [eapply (path_in g T Hg); eauto|eapply (path_in g T Hg); eauto|exact E].
    - assert (X : ntd t < tdH) by (eapply Hmax; [exact Pt|intros Q; apply E; rewrite Q; reflexivity]).
      lia. }
  rewrite Bt in Pt. destruct (path_fun g T Hg Hnd _ _ _ PH _ _ Pt) as [El Et].
  destruct (path_head _ _ _ _ _ PH) as [l' E'].
  split; [unfold tip; rewrite El, E'; reflexivity|exact El].
Qed.

(** the invariant of part 1 gives a linked chain of tree blocks *)
Lemma inv_linked : forall sid U d c, (forall x, In x U -> In x T) -> inv sid U (mkP d c) -> linked_chain c.
Proof.
  intros sid U d c HU [_ IR _ _ _ IU]. cbn [p_d p_chain] in *.
  induction c as [|b r IH]; [exact I|].
  cbn [chain_rec] in IR. destruct IR as (Hh & Hp & _ & _ & _ & _ & _ & _ & Rr).
  cbn [linked_chain]. split; [apply HU, IU; left; reflexivity|]. split; [exact Hh|]. split; [exact Hp|].
  apply IH; [exact Rr|]. intros x Hx. apply IU. right. exact Hx.
Qed.

(** Crash at ANY write boundary, restart, deliver the history's blocks again:
    the fork-choice model ends on the heaviest block [H], exactly like the
    uninterrupted run. *)
Theorem redeliver_same_final : forall sid order k H lH tdH,
  (forall b, In b order -> In b T) ->
  (forall b, In b T -> b = g \/ In b order) ->
  path g T H lH tdH ->
  (forall x l td, path g T x l td -> x <> H -> td < tdH) ->
  fin + margin <= bht H ->
  let ops := history_ops fin g order in
  let s0 := mkP (replay d0 (fresh_units d0)) [] in
  exists j, (j <= length ops)%nat /\
    let dk := replay d0 (firstn k (history_log sid fin g order)) in
    let cj := chain_after sid s0 ops j in
    consistent_with sid (g :: order) dk cj /\
    (cj <> [] ->
     let s := fold_left (step fin) order (restart_state cj) in
     tip s = tip (run fin g order) /\ main s = main (run fin g order)).
Proof.
  intros sid order k H lH tdH Hsub Hall PH Hmax Hm ops s0.
  assert (HU : hash_identifies (g :: order)).
  { intros x y Hx Hy E. apply (id_inj T Hnd); [| |exact E].
    - destruct Hx as [<-|Hx]; [exact Hg|apply Hsub; exact Hx].
    - destruct Hy as [<-|Hy]; [exact Hg|apply Hsub; exact Hy]. }
  destruct (history_crash_consistent sid fin g order k HU) as (j & Hj & CW).
  exists j. split; [exact Hj|]. cbv zeta. fold ops s0 in CW |- *. split; [exact CW|].
  intros Ne.
  assert (L : linked_chain (chain_after sid s0 ops j)).
  { eapply (inv_linked sid (g :: order)); [|exact (proj1 CW)].
    intros x [<-|Hx]; [exact Hg|apply Hsub; exact Hx]. }
  assert (Hg0' : 0 <= bht g) by lia.
  destruct (converges fin g T Hg Hnd Hconn Hdiff Hg0' order H lH tdH Hsub Hall PH Hmax Hm) as (T1 & M1 & _).
  destruct (converges_from (restart_state (chain_after sid s0 ops j)) order H lH tdH
              (restart_inv _ L Ne) Hsub Hall PH Hmax Hm) as (T2 & M2).
  split; [rewrite T2, T1; reflexivity|rewrite M2, M1; reflexivity].
Qed.

End Redeliver.
