(** C29 — proofs, part 1: every prefix of the write log of ANY operation
    sequence recovers to a consistent chain that the node had reached, and
    resuming the remaining operations ends in the same chain. *)
From Coq Require Import List ZArith NArith Bool Lia.
From C33 Require Import C25.Model C29.Model.
Import ListNotations.
Open Scope Z_scope.

(** * small facts about the durable state *)

Lemma replay_app : forall d l1 l2, replay d (l1 ++ l2) = replay (replay d l1) l2.
Proof. intros. unfold replay. apply fold_left_app. Qed.

Lemma updN_same : forall A (f : N -> A) k v, updN f k v k = v.
Proof. intros. unfold updN. rewrite N.eqb_refl. reflexivity. Qed.
Lemma updN_other : forall A (f : N -> A) k v x, x <> k -> updN f k v x = f x.
Proof. intros A f k v x H. unfold updN. apply N.eqb_neq in H. rewrite H. reflexivity. Qed.
Lemma updZ_same : forall A (f : Z -> A) k v, updZ f k v k = v.
Proof. intros. unfold updZ. rewrite Z.eqb_refl. reflexivity. Qed.
Lemma updZ_other : forall A (f : Z -> A) k v x, x <> k -> updZ f k v x = f x.
Proof. intros A f k v x H. unfold updZ. apply Z.eqb_neq in H. rewrite H. reflexivity. Qed.

(** the chain-level fields after each kind of unit *)
Lemma store_fields : forall d b td,
  let d' := apply_unit d [FBlk b; FTd b td] in
  d_tx d' = d_tx d /\ d_last d' = d_last d /\ d_h2h d' = d_h2h d /\ d_state d' = d_state d /\
  d_blkd d' = updN (d_blkd d) b true /\ d_td d' = updN (d_td d) b (Some td) /\
  d_blk d' = updN (d_blk d) b true.
Proof. intros d b td. destruct d. cbn. repeat split. Qed.

Lemma state_fields : forall d x,
  let d' := apply_unit d [FState x] in
  d_tx d' = d_tx d /\ d_last d' = d_last d /\ d_h2h d' = d_h2h d /\ d_state d' = updN (d_state d) x true /\
  d_blkd d' = d_blkd d /\ d_td d' = d_td d /\ d_lastseq d' = d_lastseq d /\ d_blk d' = d_blk d.
Proof. intros d x. destruct d. cbn. repeat split. Qed.

Lemma conn_fields : forall d b td,
  let d' := apply_unit d (conn_batch d b td) in
  d_tx d' = updN (d_tx d) (bid b) (Some (bht b)) /\ d_last d' = Some (bht b) /\
  d_h2h d' = updZ (d_h2h d) (bht b) (Some (bid b)) /\ d_state d' = d_state d /\
  d_blkd d' = updN (d_blkd d) (bid b) true /\ d_td d' = updN (d_td d) (bid b) (Some td) /\
  d_blk d' = d_blk d.
Proof. intros d b td. destruct d. cbn. repeat split. Qed.

Lemma disc_fields : forall d b,
  let d' := replay d (disc_units d b) in
  d_tx d' = updN (d_tx d) (bid b) None /\ d_last d' = Some (bht b - 1) /\
  d_h2h d' = updZ (d_h2h d) (bht b) None /\ d_state d' = d_state d /\
  d_blkd d' = d_blkd d /\ d_td d' = d_td d /\ d_blk d' = d_blk d.
Proof. intros d b. destruct d. cbn. repeat split. Qed.

Definition op_block (o : op) : block :=
  match o with OStore b => b | OConn b => b | ODisc b => b end.

(** * chains and the invariant *)

Section Crash.
Variable sid : N -> N.
(** the universe of blocks: a hash identifies a block *)
Variable U : list block.
Hypothesis U_fun : forall x y, In x U -> In y U -> bid x = bid y -> x = y.

Definition ids (c : list block) : list N := map bid c.

Fixpoint sumd (c : list block) : Z :=
  match c with [] => 0 | b :: r => bdiff b + sumd r end.

(** the records of every block of the chain [c] (tip first) *)
Fixpoint chain_rec (d : dst) (c : list block) : Prop :=
  match c with
  | [] => True
  | b :: r =>
      bht b = Z.of_nat (length r) /\
      match r with [] => True | t :: _ => bpar b = bid t end /\
      d_h2h d (bht b) = Some (bid b) /\ d_blkd d (bid b) = true /\ d_blk d (bid b) = true /\
      d_tx d (bid b) = Some (bht b) /\ d_td d (bid b) = Some (sumd c) /\
      d_state d (sid (bid b)) = true /\
      chain_rec d r
  end.

Record inv (s : pst) : Prop := mkInv {
  i_last : match p_chain s with
           | [] => d_last (p_d s) = None \/ d_last (p_d s) = Some (-1)
           | _ :: r => d_last (p_d s) = Some (Z.of_nat (length r))
           end;
  i_rec : chain_rec (p_d s) (p_chain s);
  i_above : forall i, Z.of_nat (length (p_chain s)) <= i -> d_h2h (p_d s) i = None;
  i_tx : forall x, ~ In x (ids (p_chain s)) -> d_tx (p_d s) x = None;
  i_nodup : NoDup (ids (p_chain s));
  i_in : forall x, In x (p_chain s) -> In x U
}.

Lemma chain_rec_height : forall d c x, chain_rec d c -> In x c -> 0 <= bht x < Z.of_nat (length c).
Proof.
  induction c as [|b r IH]; intros x H Hx; [destruct Hx|].
  cbn [chain_rec] in H. destruct H as (Hh & _ & _ & _ & _ & _ & _ & _ & Hr).
  cbn [length]. destruct Hx as [<-|Hx]; [lia|]. specialize (IH x Hr Hx). lia.
Qed.

Lemma chain_rec_blk : forall d c x, chain_rec d c -> In x (ids c) -> d_blk d x = true.
Proof.
  induction c as [|b r IH]; intros x H Hx; [destruct Hx|].
  cbn [chain_rec] in H. destruct H as (_ & _ & _ & _ & Hb & _ & _ & _ & Hr).
  destruct Hx as [<-|Hx]; [exact Hb|]. apply IH; assumption.
Qed.

(** [chain_rec] only looks at heights below the length and at the chain's ids *)
Lemma chain_rec_ext : forall d d' c,
  chain_rec d c ->
  (forall i, 0 <= i < Z.of_nat (length c) -> d_h2h d' i = d_h2h d i) ->
  (forall x, In x (ids c) -> d_tx d' x = d_tx d x /\ d_td d' x = d_td d x /\
                             (d_blkd d x = true -> d_blkd d' x = true) /\
                             (d_blk d x = true -> d_blk d' x = true)) ->
  (forall x, d_state d x = true -> d_state d' x = true) ->
  chain_rec d' c.
Proof.
  induction c as [|b r IH]; intros H Hh Hx Hs; [exact I|].
  pose proof (chain_rec_height d (b :: r) b H (or_introl eq_refl)) as Hb.
  cbn [chain_rec] in *. destruct H as (A1 & A2 & A3 & A4 & A4' & A5 & A6 & A7 & Hr).
  destruct (Hx (bid b) (or_introl eq_refl)) as (X1 & X2 & X3 & X4).
  repeat split; auto.
  - rewrite Hh; [exact A3|exact Hb].
  - rewrite X1; exact A5.
  - rewrite X2; exact A6.
  - apply IH; auto.
    + intros i Hi. apply Hh. cbn [length]. lia.
    + intros x Hin. apply Hx. right. exact Hin.
Qed.

Lemma tip_ok_facts : forall d c b, chain_rec d c -> tip_ok c b = true ->
  bht b = Z.of_nat (length c) /\ match c with [] => True | t :: _ => bpar b = bid t end.
Proof.
  intros d c b H Ht. destruct c as [|t r]; cbn [tip_ok] in Ht.
  - apply Z.eqb_eq in Ht. cbn [length]. split; [lia|exact I].
  - apply andb_true_iff in Ht as [Hp Hh]. apply N.eqb_eq in Hp. apply Z.eqb_eq in Hh.
    cbn [chain_rec] in H. destruct H as (Ht' & _). cbn [length]. split; [lia|exact Hp].
Qed.

(** under the invariant a connect on the tip always finds the parent's td *)
Lemma td_of_chain : forall d c b,
  chain_rec d c -> tip_ok c b = true -> td_of d b = Some (sumd (b :: c)).
Proof.
  intros d c b H Ht. destruct (tip_ok_facts d c b H Ht) as [Hh Hp].
  unfold td_of. destruct c as [|t r].
  - cbn [length] in Hh. rewrite Hh. cbn. f_equal. lia.
  - assert (E : (bht b =? 0) = false) by (apply Z.eqb_neq; cbn [length] in Hh; lia).
    rewrite E, Hp. cbn [chain_rec] in H. destruct H as (_ & _ & _ & _ & _ & _ & Td & _).
    rewrite Td. cbn [sumd]. f_equal. lia.
Qed.

Lemma exec_durable : forall s o, p_d (fst (exec_op sid s o)) = replay (p_d s) (snd (exec_op sid s o)).
Proof.
  intros [d c] o. destruct o as [b|b|b]; cbn [exec_op p_d p_chain].
  - reflexivity.
  - destruct (tip_ok c b && d_blk d (bid b)); reflexivity.
  - destruct c as [|t c']; [reflexivity|].
    destruct (N.eqb (bid t) (bid b)); reflexivity.
Qed.

(** * every operation preserves the invariant *)

Lemma exec_inv : forall s o, inv s -> In (op_block o) U -> inv (fst (exec_op sid s o)).
Proof.
  intros [d c] o I V. pose proof (i_rec _ I) as R. cbn [p_d p_chain] in R.
  destruct o as [b|b|b]; cbn [exec_op p_d p_chain op_block] in *.
  - (* store *)
    unfold store_units. destruct (d_blk d (bid b)) eqn:Eb; [exact I|].
    assert (Vn : ~ In (bid b) (ids c)).
    { intros Hin. rewrite (chain_rec_blk _ _ _ R Hin) in Eb. discriminate. }
    destruct (td_of d b) as [td|]; [|exact I].
    cbn [replay fold_left fst p_d p_chain].
    destruct (store_fields d (bid b) td) as (E1 & E2 & E3 & E4 & E5 & E6 & E7).
    destruct I as [IL IR IA IT IN IU]. cbn [p_d p_chain] in *.
    constructor; cbn [p_d p_chain].
    + rewrite E2. exact IL.
    + eapply chain_rec_ext; [exact IR| | |].
      * intros i _. rewrite E3. reflexivity.
      * intros x Hx. rewrite E1, E6, E5, E7. assert (x <> bid b) by (intros ->; contradiction).
        rewrite !updN_other by assumption. auto.
      * intros x Hx. rewrite E4. exact Hx.
    + intros i Hi. rewrite E3. apply IA. exact Hi.
    + intros x Hx. rewrite E1. apply IT. exact Hx.
    + exact IN.
    + exact IU.
  - (* connect *)
    destruct (tip_ok c b) eqn:Ht; [|exact I]. destruct (d_blk d (bid b)) eqn:Eb; [|exact I].
    cbn [andb].
    destruct (tip_ok_facts d c b R Ht) as [Vh Vp].
    assert (Vn : ~ In (bid b) (ids c)).
    { intros Hin. unfold ids in Hin. apply in_map_iff in Hin as (x & Ex & Hx).
      assert (x = b) by (apply U_fun; [apply (i_in _ I); exact Hx|exact V|exact Ex]). subst x.
      pose proof (chain_rec_height _ _ _ R Hx). lia. }
    pose proof (td_of_chain _ _ _ R Ht) as Td.
    unfold conn_units. rewrite Td. cbn [fst p_d p_chain].
    set (d1 := apply_unit d [FState (sid (bid b))]).
    assert (Ed : replay d [[FState (sid (bid b))]; conn_batch d b (sumd (b :: c))]
                 = apply_unit d1 (conn_batch d b (sumd (b :: c)))) by reflexivity.
    rewrite Ed. clear Ed.
    destruct (state_fields d (sid (bid b))) as (S1 & S2 & S3 & S4 & S5 & S6 & S7 & S8).
    fold d1 in S1, S2, S3, S4, S5, S6, S7, S8.
    assert (Eq : conn_batch d b (sumd (b :: c)) = conn_batch d1 b (sumd (b :: c))).
    { unfold conn_batch, next_seq. rewrite S7. reflexivity. }
    rewrite Eq.
    destruct (conn_fields d1 b (sumd (b :: c))) as (E1 & E2 & E3 & E4 & E5 & E6 & E7).
    set (d2 := apply_unit d1 (conn_batch d1 b (sumd (b :: c)))) in *.
    destruct I as [IL IR IA IT IN IU]. cbn [p_d p_chain] in *.
    assert (Rc : chain_rec d2 c).
    { eapply chain_rec_ext; [exact IR| | |].
      - intros i Hi. rewrite E3, S3. apply updZ_other. lia.
      - intros x Hx. assert (x <> bid b) by (intros ->; contradiction).
        rewrite E1, E6, E5, E7, S1, S6, S5, S8. rewrite !updN_other by assumption. auto.
      - intros x Hx. rewrite E4, S4. unfold updN. destruct (N.eqb x (sid (bid b))); auto. }
    constructor; cbn [p_d p_chain].
    + rewrite E2, Vh. reflexivity.
    + cbn [chain_rec]. repeat split.
      * exact Vh.
      * exact Vp.
      * rewrite E3. apply updZ_same.
      * rewrite E5. apply updN_same.
      * rewrite E7, S8. exact Eb.
      * rewrite E1. apply updN_same.
      * rewrite E6. apply updN_same.
      * rewrite E4, S4. apply updN_same.
      * exact Rc.
    + intros i Hi. cbn [length] in Hi. rewrite E3, S3, updZ_other by lia. apply IA. lia.
    + intros x Hx. cbn [ids map] in Hx. rewrite E1, S1, updN_other.
      * apply IT. intros Hin. apply Hx. right. exact Hin.
      * intros ->. apply Hx. left. reflexivity.
    + cbn [ids map]. constructor; [exact Vn|exact IN].
    + intros x [<-|Hx]; [exact V|apply IU; exact Hx].
  - (* disconnect *)
    destruct c as [|t c']; [exact I|].
    destruct (N.eqb (bid t) (bid b)); [|exact I]. cbn [fst p_d p_chain].
    destruct (disc_fields d t) as (E1 & E2 & E3 & E4 & E5 & E6 & E7).
    destruct I as [IL IR IA IT IN IU]. cbn [p_d p_chain] in *.
    cbn [chain_rec] in IR. destruct IR as (Hh & _ & _ & _ & _ & _ & _ & _ & Rr).
    cbn [ids map] in IN. inversion IN as [|? ? Hnt INr]; subst.
    constructor; cbn [p_d p_chain].
    + rewrite E2, Hh. destruct c' as [|t' r]; [right; reflexivity|].
      cbn [length]. f_equal. lia.
    + eapply chain_rec_ext; [exact Rr| | |].
      * intros i Hi. rewrite E3. apply updZ_other. lia.
      * intros x Hx. assert (x <> bid t) by (intros ->; contradiction).
        rewrite E1, E6, E5, E7. rewrite updN_other by assumption. auto.
      * intros x Hx. rewrite E4. exact Hx.
    + intros i Hi. rewrite E3. destruct (Z.eq_dec i (bht t)) as [->|Ne].
      * apply updZ_same.
      * rewrite updZ_other by exact Ne. apply IA. cbn [length]. lia.
    + intros x Hx. rewrite E1. destruct (N.eq_dec x (bid t)) as [->|Ne].
      * apply updN_same.
      * rewrite updN_other by exact Ne. apply IT. cbn [ids map]. intros [E|Hin]; [congruence|contradiction].
    + exact INr.
    + intros x Hx. apply IU. right. exact Hx.
Qed.

(** a state commit alone (the write between which and the connect batch a
    crash can fall) does not disturb the invariant *)
Lemma state_inv : forall d c x, inv (mkP d c) -> inv (mkP (apply_unit d [FState x]) c).
Proof.
  intros d c x [IL IR IA IT IN IU]. cbn [p_d p_chain] in *.
  destruct (state_fields d x) as (S1 & S2 & S3 & S4 & S5 & S6 & _ & S8).
  constructor; cbn [p_d p_chain].
  - rewrite S2. exact IL.
  - eapply chain_rec_ext; [exact IR| | |].
    + intros i _. rewrite S3. reflexivity.
    + intros y _. rewrite S1, S6, S5, S8. auto.
    + intros y Hy. rewrite S4. unfold updN. destruct (N.eqb y x); auto.
  - intros i Hi. rewrite S3. apply IA. exact Hi.
  - intros y Hy. rewrite S1. apply IT. exact Hy.
  - exact IN.
  - exact IU.
Qed.

(** * runs *)

Definition ops_in (ops : list op) : Prop := forall o, In o ops -> In (op_block o) U.

Lemma run_ops_cons : forall s o r,
  run_ops sid s (o :: r) =
  (fst (run_ops sid (fst (exec_op sid s o)) r),
   snd (exec_op sid s o) ++ snd (run_ops sid (fst (exec_op sid s o)) r)).
Proof.
  intros s o r. cbn [run_ops]. destruct (exec_op sid s o) as [s1 us]. cbn [fst snd].
  destruct (run_ops sid s1 r) as [s2 lg]. reflexivity.
Qed.

Lemma run_ops_app_fst : forall l1 l2 s,
  fst (run_ops sid s (l1 ++ l2)) = fst (run_ops sid (fst (run_ops sid s l1)) l2).
Proof.
  induction l1 as [|o r IH]; intros l2 s; [reflexivity|].
  cbn [app]. rewrite !run_ops_cons. cbn [fst]. apply IH.
Qed.

Lemma run_inv : forall ops s, inv s -> ops_in ops -> inv (fst (run_ops sid s ops)).
Proof.
  induction ops as [|o r IH]; intros s I V; [exact I|].
  rewrite run_ops_cons. cbn [fst]. apply IH.
  - apply exec_inv; [exact I|]. apply V. left. reflexivity.
  - intros x Hx. apply V. right. exact Hx.
Qed.

Lemma in_firstn : forall A (l : list A) n x, In x (firstn n l) -> In x l.
Proof.
  induction l as [|y l IH]; intros n x H; destruct n; cbn [firstn] in H; try destruct H.
  - left. assumption.
  - right. eapply IH. eassumption.
Qed.

Lemma ops_in_firstn : forall ops j, ops_in ops -> ops_in (firstn j ops).
Proof. intros ops j V o Ho. apply V. eapply in_firstn. exact Ho. Qed.

Lemma ops_in_skipn : forall ops j, ops_in ops -> ops_in (skipn j ops).
Proof.
  intros ops j V o Ho. apply V. rewrite <- (firstn_skipn j ops). apply in_or_app. right. exact Ho.
Qed.

(** the units of one operation: at most two, and two only for
    [state commit; connect batch] *)
Lemma exec_units : forall s o,
  let us := snd (exec_op sid s o) in
  us = [] \/ (exists u, us = [u]) \/ (exists x u, us = [[FState x]; u]).
Proof.
  intros [d c] o. destruct o as [b|b|b]; cbn [exec_op snd p_d p_chain].
  - unfold store_units. destruct (d_blk d (bid b)); [left; reflexivity|].
    destruct (td_of d b); [right; left; eexists; reflexivity|left; reflexivity].
  - destruct (tip_ok c b && d_blk d (bid b)); [|left; reflexivity]. cbn [snd]. unfold conn_units.
    destruct (td_of d b).
    + right; right. do 2 eexists. reflexivity.
    + right; left. eexists. reflexivity.
  - destruct c as [|t c']; [left; reflexivity|].
    destruct (N.eqb (bid t) (bid b)); [|left; reflexivity].
    right; left. eexists. reflexivity.
Qed.

(** the durable state after a crash that kept [k] writes of a run = the state
    after some number [j] of whole operations, possibly plus one lone state
    commit *)
Lemma crash_prefix : forall ops s k,
  exists j, (j <= length ops)%nat /\
    let sj := fst (run_ops sid s (firstn j ops)) in
    let dk := replay (p_d s) (firstn k (snd (run_ops sid s ops))) in
    dk = p_d sj \/ exists x, dk = apply_unit (p_d sj) [FState x].
Proof.
  induction ops as [|o r IH]; intros s k.
  - exists 0%nat. split; [cbn; lia|]. cbn. left. destruct k; reflexivity.
  - rewrite run_ops_cons. cbn [snd].
    pose proof (exec_durable s o) as Hd.
    set (us := snd (exec_op sid s o)) in *. set (s1 := fst (exec_op sid s o)) in *.
    destruct (Nat.le_gt_cases (length us) k) as [Hk|Hk].
    + (* the whole operation is durable *)
      destruct (IH s1 (k - length us)%nat) as (j & Hj & HH).
      exists (S j). split; [cbn [length]; lia|].
      cbn [firstn]. rewrite run_ops_cons. cbn [fst].
      rewrite firstn_app. rewrite (firstn_all2 us) by exact Hk.
      rewrite replay_app, <- Hd. fold s1. exact HH.
    + (* the crash falls inside the operation *)
      exists 0%nat. split; [cbn; lia|]. cbn [firstn run_ops fst].
      rewrite firstn_app. replace (k - length us)%nat with 0%nat by lia.
      cbn [firstn]. rewrite app_nil_r.
      destruct (exec_units s o) as [E|[(u & E)|(x & u & E)]]; fold us in E; rewrite E in *; cbn [length] in Hk.
      * lia.
      * assert (k = 0)%nat by lia. subst k. left. reflexivity.
      * destruct k as [|[|k]]; [left; reflexivity| |lia]. right. exists x. reflexivity.
Qed.

(** * what start-up reads back under the invariant *)

Lemma read_chain_inv : forall d c, chain_rec d c -> read_chain d (length c) = Some (ids c).
Proof.
  induction c as [|b r IH]; intros H; [reflexivity|].
  cbn [chain_rec] in H. destruct H as (Hh & _ & H2 & Hb & _ & _ & _ & _ & Hr).
  cbn [length read_chain]. rewrite <- Hh, H2, Hb, (IH Hr). reflexivity.
Qed.

Lemma recover_inv : forall s, inv s ->
  recover (p_d s) = match p_chain s with
                    | [] => RFresh
                    | _ :: r => RChain (Z.of_nat (length r)) (ids (p_chain s))
                    end.
Proof.
  intros [d c] [IL IR _ _ _ _]. cbn [p_d p_chain] in *. unfold recover.
  destruct c as [|b r].
  - destruct IL as [-> | ->]; reflexivity.
  - rewrite IL. assert (E : (Z.of_nat (length r) <? 0) = false) by (apply Z.ltb_ge; lia).
    rewrite E, Nat2Z.id. change (S (length r)) with (length (b :: r)).
    rewrite (read_chain_inv _ _ IR). reflexivity.
Qed.

(** * simulation: the decisions of the node depend on the durable state only
    through the stored-rows set, the total difficulties and the last sequence
    number; a lone state commit changes none of them *)

Definition eqv3 (d d' : dst) : Prop :=
  (forall x, d_blk d x = d_blk d' x) /\ (forall x, d_td d x = d_td d' x) /\ d_lastseq d = d_lastseq d'.

Lemma eqv3_fact : forall d d' f, eqv3 d d' -> eqv3 (apply_fact d f) (apply_fact d' f).
Proof.
  intros d d' f (A & B & C). destruct d, d'. cbn in A, B, C.
  destruct f; cbn; (split; [|split]); cbn; auto; intros x; unfold updN;
    try (rewrite A); try (rewrite B); reflexivity.
Qed.

Lemma eqv3_unit : forall u d d', eqv3 d d' -> eqv3 (apply_unit d u) (apply_unit d' u).
Proof.
  induction u as [|f u IH]; intros d d' E; [exact E|]. cbn [apply_unit fold_left].
  apply IH. apply eqv3_fact. exact E.
Qed.

Lemma eqv3_replay : forall l d d', eqv3 d d' -> eqv3 (replay d l) (replay d' l).
Proof.
  induction l as [|u l IH]; intros d d' E; [exact E|]. cbn [replay fold_left].
  apply IH. apply eqv3_unit. exact E.
Qed.

Lemma eqv3_exec : forall d d' c o, eqv3 d d' ->
  snd (exec_op sid (mkP d c) o) = snd (exec_op sid (mkP d' c) o) /\
  p_chain (fst (exec_op sid (mkP d c) o)) = p_chain (fst (exec_op sid (mkP d' c) o)) /\
  eqv3 (p_d (fst (exec_op sid (mkP d c) o))) (p_d (fst (exec_op sid (mkP d' c) o))).
Proof.
  intros d d' c o E. pose proof E as (A & B & C).
  assert (Td : forall b, td_of d b = td_of d' b) by (intros b; unfold td_of; rewrite B; reflexivity).
  assert (Ns : next_seq d = next_seq d') by (unfold next_seq; rewrite C; reflexivity).
  destruct o as [b|b|b]; cbn [exec_op p_d p_chain].
  - assert (Eu : store_units d b = store_units d' b) by (unfold store_units; rewrite A, Td; reflexivity).
    rewrite Eu. cbn [fst snd p_d p_chain]. split; [reflexivity|]. split; [reflexivity|].
    apply eqv3_replay. exact E.
  - rewrite A. destruct (tip_ok c b && d_blk d' (bid b)).
    + assert (Eu : conn_units sid d b = conn_units sid d' b)
        by (unfold conn_units, conn_batch; rewrite Td, Ns; reflexivity).
      rewrite Eu, Td. cbn [fst snd p_d p_chain]. split; [reflexivity|]. split; [reflexivity|].
      apply eqv3_replay. exact E.
    + cbn [fst snd p_d p_chain]. split; [reflexivity|]. split; [reflexivity|]. exact E.
  - destruct c as [|t c'].
    { cbn [fst snd p_d p_chain]. split; [reflexivity|]. split; [reflexivity|]. exact E. }
    destruct (N.eqb (bid t) (bid b)).
    + assert (Eu : disc_units d t = disc_units d' t) by (unfold disc_units; rewrite Ns; reflexivity).
      rewrite Eu. cbn [fst snd p_d p_chain]. split; [reflexivity|]. split; [reflexivity|].
      apply eqv3_replay. exact E.
    + cbn [fst snd p_d p_chain]. split; [reflexivity|]. split; [reflexivity|]. exact E.
Qed.

Lemma eqv3_run : forall ops d d' c, eqv3 d d' ->
  p_chain (fst (run_ops sid (mkP d c) ops)) = p_chain (fst (run_ops sid (mkP d' c) ops)).
Proof.
  induction ops as [|o r IH]; intros d d' c E; [reflexivity|].
  rewrite !run_ops_cons. cbn [fst].
  destruct (eqv3_exec d d' c o E) as (_ & Ec & Ed).
  destruct (fst (exec_op sid (mkP d c) o)) as [d1 c1].
  destruct (fst (exec_op sid (mkP d' c) o)) as [d1' c1']. cbn [p_d p_chain] in *. subst c1'.
  apply IH. exact Ed.
Qed.

Lemma eqv3_refl : forall d, eqv3 d d.
Proof. intros d. repeat split. Qed.

Lemma eqv3_state : forall d x, eqv3 d (apply_unit d [FState x]).
Proof.
  intros d x. destruct (state_fields d x) as (_ & _ & _ & _ & _ & S6 & S7 & S8).
  unfold eqv3. rewrite S6, S7, S8. repeat split.
Qed.

(** * the main theorems *)

(** [consistent_with d c]: the durable records describe exactly the chain [c]
    (tip first): last height, hash by height, block rows, tx index, total
    difficulties and states of all its blocks, nothing above its height, no
    other transaction indexed; and start-up recovers exactly [c]. *)
Definition consistent_with (d : dst) (c : list block) : Prop :=
  inv (mkP d c) /\
  recover d = match c with [] => RFresh | _ :: r => RChain (Z.of_nat (length r)) (ids c) end.

(** the best chain of the uninterrupted run after its first [j] operations *)
Definition chain_after (s : pst) (ops : list op) (j : nat) : list block :=
  p_chain (fst (run_ops sid s (firstn j ops))).

Theorem crash_consistent : forall (c0 : list block) (d00 : dst) (ops : list op) (k : nat),
  inv (mkP d00 c0) -> ops_in ops ->
  let log := snd (run_ops sid (mkP d00 c0) ops) in
  exists j, (j <= length ops)%nat /\
    consistent_with (replay d00 (firstn k log)) (chain_after (mkP d00 c0) ops j).
Proof.
  intros c0 d00 ops k I V log. unfold chain_after.
  destruct (crash_prefix ops (mkP d00 c0) k) as (j & Hj & HH). cbn [p_d] in HH.
  exists j. split; [exact Hj|].
  pose proof (run_inv (firstn j ops) (mkP d00 c0) I (ops_in_firstn _ j V)) as Ij.
  set (sj := fst (run_ops sid (mkP d00 c0) (firstn j ops))) in *.
  assert (Es : sj = mkP (p_d sj) (p_chain sj)) by (destruct sj; reflexivity).
  fold log in HH.
  assert (Ik : inv (mkP (replay d00 (firstn k log)) (p_chain sj))).
  { destruct HH as [->|(x & ->)].
    - rewrite <- Es. exact Ij.
    - apply state_inv. rewrite <- Es. exact Ij. }
  split; [exact Ik|]. apply (recover_inv _ Ik).
Qed.

(** resuming: from the recovered state the remaining operations end in the
    chain of the uninterrupted run, and the final records are again consistent
    with it *)
Theorem resume_same_final : forall (c0 : list block) (d00 : dst) (ops : list op) (k : nat),
  inv (mkP d00 c0) -> ops_in ops ->
  let log := snd (run_ops sid (mkP d00 c0) ops) in
  exists j, (j <= length ops)%nat /\
    let dk := replay d00 (firstn k log) in
    let cj := chain_after (mkP d00 c0) ops j in
    consistent_with dk cj /\
    let send := fst (run_ops sid (mkP dk cj) (skipn j ops)) in
    p_chain send = p_chain (fst (run_ops sid (mkP d00 c0) ops)) /\
    consistent_with (p_d send) (p_chain send).
Proof.
  intros c0 d00 ops k I V log.
  destruct (crash_prefix ops (mkP d00 c0) k) as (j & Hj & HH). cbn [p_d] in HH.
  exists j. split; [exact Hj|]. fold log in HH.
  set (dk := replay d00 (firstn k log)) in *.
  set (cj := chain_after (mkP d00 c0) ops j). unfold chain_after in cj. cbv zeta.
  pose proof (run_inv (firstn j ops) (mkP d00 c0) I (ops_in_firstn _ j V)) as Ij.
  set (sj := fst (run_ops sid (mkP d00 c0) (firstn j ops))) in *.
  assert (Es : sj = mkP (p_d sj) (p_chain sj)) by (destruct sj; reflexivity).
  assert (Ik : inv (mkP dk cj)).
  { subst dk cj. destruct HH as [->|(x & ->)].
    - rewrite <- Es. exact Ij.
    - apply state_inv. rewrite <- Es. exact Ij. }
  split; [split; [exact Ik|apply (recover_inv _ Ik)]|].
  set (send := fst (run_ops sid (mkP dk cj) (skipn j ops))).
  pose proof (run_inv (skipn j ops) (mkP dk cj) Ik (ops_in_skipn _ j V)) as Ie. fold send in Ie.
  split.
  - assert (Eq : eqv3 (p_d sj) dk).
    { subst dk. destruct HH as [->|(x & ->)]; [apply eqv3_refl|apply eqv3_state]. }
    subst send. rewrite <- (eqv3_run (skipn j ops) (p_d sj) dk cj Eq).
    subst cj. rewrite <- Es. subst sj. rewrite <- run_ops_app_fst, firstn_skipn. reflexivity.
  - assert (Ee : send = mkP (p_d send) (p_chain send)) by (destruct send; reflexivity).
    split; [rewrite <- Ee; exact Ie|]. rewrite Ee in Ie. apply (recover_inv _ Ie).
Qed.

End Crash.
