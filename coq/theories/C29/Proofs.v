(** C29 — proofs, part 1: every prefix of the write log of a valid operation
    sequence recovers to a consistent chain that the node had reached, and
    resuming the remaining operations ends in the same chain. *)
From Coq Require Import List ZArith NArith Bool Lia.
From C33 Require Import C25.Model C29.Model.
Import ListNotations.
Open Scope Z_scope.

(** * small facts about the durable state *)

Lemma replay_app : forall d l1 l2, replay d (l1 ++ l2) = replay (replay d l1) l2.
Proof. intros. unfold replay. apply fold_left_app. Qed.

Lemma updN_same : forall A (f : N -> A) k v, updN f k v k = v.
Proof. intros. unfold updN. rewrite N.eqb_refl. reflexivity. Qed.
Lemma updN_other : forall A (f : N -> A) k v x, x <> k -> updN f k v x = f x.
Proof. intros A f k v x H. unfold updN. apply N.eqb_neq in H. rewrite H. reflexivity. Qed.
Lemma updZ_same : forall A (f : Z -> A) k v, updZ f k v k = v.
Proof. intros. unfold updZ. rewrite Z.eqb_refl. reflexivity. Qed.
Lemma updZ_other : forall A (f : Z -> A) k v x, x <> k -> updZ f k v x = f x.
Proof. intros A f k v x H. unfold updZ. apply Z.eqb_neq in H. rewrite H. reflexivity. Qed.

(** the chain-level fields after each kind of unit *)
Lemma store_fields : forall d b td,
  let d' := apply_unit d [FBlk b; FTd b td] in
  d_tx d' = d_tx d /\ d_last d' = d_last d /\ d_h2h d' = d_h2h d /\ d_state d' = d_state d /\
  d_blkd d' = updN (d_blkd d) b true /\ d_td d' = updN (d_td d) b (Some td).
Proof. intros d b td. destruct d. cbn. repeat split. Qed.

Lemma state_fields : forall d x,
  let d' := apply_unit d [FState x] in
  d_tx d' = d_tx d /\ d_last d' = d_last d /\ d_h2h d' = d_h2h d /\ d_state d' = updN (d_state d) x true /\
  d_blkd d' = d_blkd d /\ d_td d' = d_td d /\ d_lastseq d' = d_lastseq d /\ d_blk d' = d_blk d.
Proof. intros d x. destruct d. cbn. repeat split. Qed.

Lemma conn_fields : forall d b td,
  let d' := apply_unit d (conn_batch d b td) in
  d_tx d' = updN (d_tx d) (bid b) (Some (bht b)) /\ d_last d' = Some (bht b) /\
  d_h2h d' = updZ (d_h2h d) (bht b) (Some (bid b)) /\ d_state d' = d_state d /\
  d_blkd d' = updN (d_blkd d) (bid b) true /\ d_td d' = updN (d_td d) (bid b) (Some td).
Proof. intros d b td. destruct d. cbn. repeat split. Qed.

Lemma disc_fields : forall d b,
  let d' := replay d (disc_units d b) in
  d_tx d' = updN (d_tx d) (bid b) None /\ d_last d' = Some (bht b - 1) /\
  d_h2h d' = updZ (d_h2h d) (bht b) None /\ d_state d' = d_state d /\
  d_blkd d' = d_blkd d /\ d_td d' = d_td d.
Proof. intros d b. destruct d. cbn. repeat split. Qed.

(** * chains and the invariant *)

Section Crash.
Variable sid : N -> N.

Definition ids (c : list block) : list N := map bid c.

Fixpoint sumd (c : list block) : Z :=
  match c with [] => 0 | b :: r => bdiff b + sumd r end.

(** the records of every block of the chain [c] (tip first) *)
Fixpoint chain_rec (d : dst) (c : list block) : Prop :=
  match c with
  | [] => True
  | b :: r =>
      bht b = Z.of_nat (length r) /\
      match r with [] => True | t :: _ => bpar b = bid t end /\
      d_h2h d (bht b) = Some (bid b) /\ d_blkd d (bid b) = true /\
      d_tx d (bid b) = Some (bht b) /\ d_td d (bid b) = Some (sumd c) /\
      d_state d (sid (bid b)) = true /\
      chain_rec d r
  end.

Record inv (s : pst) : Prop := mkInv {
  i_last : match p_chain s with
           | [] => d_last (p_d s) = None \/ d_last (p_d s) = Some (-1)
           | _ :: r => d_last (p_d s) = Some (Z.of_nat (length r))
           end;
  i_rec : chain_rec (p_d s) (p_chain s);
  i_above : forall i, Z.of_nat (length (p_chain s)) <= i -> d_h2h (p_d s) i = None;
  i_tx : forall x, ~ In x (ids (p_chain s)) -> d_tx (p_d s) x = None;
  i_nodup : NoDup (ids (p_chain s))
}.

Lemma chain_rec_height : forall d c x, chain_rec d c -> In x c -> 0 <= bht x < Z.of_nat (length c).
Proof.
  induction c as [|b r IH]; intros x H Hx; [destruct Hx|].
  cbn [chain_rec] in H. destruct H as (Hh & _ & _ & _ & _ & _ & _ & Hr).
  cbn [length]. destruct Hx as [<-|Hx]; [lia|]. specialize (IH x Hr Hx). lia.
Qed.

(** [chain_rec] only looks at heights below the length and at the chain's ids *)
Lemma chain_rec_ext : forall d d' c,
  chain_rec d c ->
  (forall i, 0 <= i < Z.of_nat (length c) -> d_h2h d' i = d_h2h d i) ->
  (forall x, In x (ids c) -> d_tx d' x = d_tx d x /\ d_td d' x = d_td d x /\
                             (d_blkd d x = true -> d_blkd d' x = true)) ->
  (forall x, d_state d x = true -> d_state d' x = true) ->
  chain_rec d' c.
Proof.
  induction c as [|b r IH]; intros H Hh Hx Hs; [exact I|].
  pose proof (chain_rec_height d (b :: r) b H (or_introl eq_refl)) as Hb.
  cbn [chain_rec] in *. destruct H as (A1 & A2 & A3 & A4 & A5 & A6 & A7 & Hr).
  destruct (Hx (bid b) (or_introl eq_refl)) as (X1 & X2 & X3).
  repeat split; auto.
  - rewrite Hh; [exact A3|exact Hb].
  - rewrite X1; exact A5.
  - rewrite X2; exact A6.
  - apply IH; auto.
    + intros i Hi. apply Hh. cbn [length]. lia.
    + intros x Hin. apply Hx. right. exact Hin.
Qed.

Lemma memid_false : forall x c, memid x c = false -> ~ In x (ids c).
Proof.
  intros x c H Hin. unfold ids in Hin. apply in_map_iff in Hin as (y & E & Hy).
  unfold memid in H. assert (T : existsb (fun y0 => N.eqb (bid y0) x) c = true).
  { apply existsb_exists. exists y. split; [exact Hy|]. apply N.eqb_eq. exact E. }
  rewrite T in H. discriminate.
Qed.

(** under the invariant a connect on the tip always finds the parent's td *)
Lemma td_of_chain : forall d c b,
  chain_rec d c -> tip_ok c b = true -> bht b = Z.of_nat (length c) ->
  td_of d b = Some (sumd (b :: c)).
Proof.
  intros d c b H Ht Hh. unfold td_of. destruct c as [|t r].
  - cbn [length] in Hh. rewrite Hh. cbn. f_equal. lia.
  - cbn [tip_ok] in Ht. apply N.eqb_eq in Ht.
    assert (E : (bht b =? 0) = false) by (apply Z.eqb_neq; cbn [length] in Hh; lia).
    rewrite E, Ht. cbn [chain_rec] in H. destruct H as (_ & _ & _ & _ & _ & Td & _).
    rewrite Td. cbn [sumd]. f_equal. lia.
Qed.

Lemma exec_chain : forall s o, inv s -> op_ok (p_chain s) o = true ->
  p_chain (fst (exec_op sid s o)) = chain_step (p_chain s) o.
Proof.
  intros [d c] o I V. pose proof (i_rec _ I) as R. cbn [p_d p_chain] in *.
  destruct o as [b|b|b]; cbn [exec_op chain_step p_d p_chain].
  - reflexivity.
  - destruct (tip_ok c b) eqn:Ht; [|reflexivity]. cbn [fst p_chain].
    cbn [op_ok] in V. apply andb_true_iff in V as [Vh _]. apply Z.eqb_eq in Vh.
    rewrite (td_of_chain _ _ _ R Ht Vh). reflexivity.
  - destruct c as [|t c']; [reflexivity|].
    destruct (N.eqb (bid t) (bid b)); reflexivity.
Qed.

Lemma exec_durable : forall s o, p_d (fst (exec_op sid s o)) = replay (p_d s) (snd (exec_op sid s o)).
Proof.
  intros [d c] o. destruct o as [b|b|b]; cbn [exec_op p_d p_chain].
  - reflexivity.
  - destruct (tip_ok c b); reflexivity.
  - destruct c as [|t c']; [reflexivity|].
    destruct (N.eqb (bid t) (bid b)); reflexivity.
Qed.

(** * every operation preserves the invariant *)

Lemma exec_inv : forall s o, inv s -> op_ok (p_chain s) o = true -> inv (fst (exec_op sid s o)).
Proof.
  intros [d c] o I V. pose proof (i_rec _ I) as R. cbn [p_d p_chain] in R.
  destruct o as [b|b|b]; cbn [exec_op p_d p_chain].
  - (* store *)
    cbn [op_ok] in V. apply negb_true_iff in V. apply memid_false in V.
    unfold store_units. destruct (d_blk d (bid b)); [exact I|].
    destruct (td_of d b) as [td|]; [|exact I].
    cbn [replay fold_left fst p_d p_chain].
    destruct (store_fields d (bid b) td) as (E1 & E2 & E3 & E4 & E5 & E6).
    destruct I as [IL IR IA IT IN]. cbn [p_d p_chain] in *.
    constructor; cbn [p_d p_chain].
    + rewrite E2. exact IL.
    + eapply chain_rec_ext; [exact IR| | |].
      * intros i _. rewrite E3. reflexivity.
      * intros x Hx. rewrite E1, E6, E5. assert (x <> bid b) by (intros ->; contradiction).
        rewrite !updN_other by assumption. auto.
      * intros x Hx. rewrite E4. exact Hx.
    + intros i Hi. rewrite E3. apply IA. exact Hi.
    + intros x Hx. rewrite E1. apply IT. exact Hx.
    + exact IN.
  - (* connect *)
    destruct (tip_ok c b) eqn:Ht; [|exact I].
    cbn [op_ok] in V. apply andb_true_iff in V as [Vh Vn]. apply Z.eqb_eq in Vh.
    apply negb_true_iff in Vn. apply memid_false in Vn.
    pose proof (td_of_chain _ _ _ R Ht Vh) as Td.
    unfold conn_units. rewrite Td. cbn [fst p_d p_chain].
    set (d1 := apply_unit d [FState (sid (bid b))]).
    assert (Ed : replay d [[FState (sid (bid b))]; conn_batch d b (sumd (b :: c))]
                 = apply_unit d1 (conn_batch d b (sumd (b :: c)))) by reflexivity.
    rewrite Ed. clear Ed.
    destruct (state_fields d (sid (bid b))) as (S1 & S2 & S3 & S4 & S5 & S6 & S7 & S8).
    fold d1 in S1, S2, S3, S4, S5, S6, S7, S8.
    assert (Eb : conn_batch d b (sumd (b :: c)) = conn_batch d1 b (sumd (b :: c))).
    { unfold conn_batch, next_seq. rewrite S7. reflexivity. }
    rewrite Eb.
    destruct (conn_fields d1 b (sumd (b :: c))) as (E1 & E2 & E3 & E4 & E5 & E6).
    set (d2 := apply_unit d1 (conn_batch d1 b (sumd (b :: c)))) in *.
    destruct I as [IL IR IA IT IN]. cbn [p_d p_chain] in *.
    assert (Rc : chain_rec d2 c).
    { eapply chain_rec_ext; [exact IR| | |].
      - intros i Hi. rewrite E3, S3. apply updZ_other. lia.
      - intros x Hx. assert (x <> bid b) by (intros ->; contradiction).
        rewrite E1, E6, E5, S1, S6, S5. rewrite !updN_other by assumption. auto.
      - intros x Hx. rewrite E4, S4. unfold updN. destruct (N.eqb x (sid (bid b))); auto. }
    constructor; cbn [p_d p_chain].
    + rewrite E2, Vh. reflexivity.
    + cbn [chain_rec]. repeat split.
      * exact Vh.
      * destruct c as [|t r]; [exact I|]. cbn [tip_ok] in Ht. apply N.eqb_eq in Ht. exact Ht.
      * rewrite E3. apply updZ_same.
      * rewrite E5. apply updN_same.
      * rewrite E1. apply updN_same.
      * rewrite E6. apply updN_same.
      * rewrite E4, S4. apply updN_same.
      * exact Rc.
    + intros i Hi. cbn [length] in Hi. rewrite E3, S3, updZ_other by lia. apply IA. lia.
    + intros x Hx. cbn [ids map] in Hx. rewrite E1, S1, updN_other.
      * apply IT. intros Hin. apply Hx. right. exact Hin.
      * intros ->. apply Hx. left. reflexivity.
    + cbn [ids map]. constructor; [exact Vn|exact IN].
  - (* disconnect *)
    destruct c as [|t c']; [exact I|].
    destruct (N.eqb (bid t) (bid b)); [|exact I]. cbn [fst p_d p_chain].
    destruct (disc_fields d t) as (E1 & E2 & E3 & E4 & E5 & E6).
    destruct I as [IL IR IA IT IN]. cbn [p_d p_chain] in *.
    cbn [chain_rec] in IR. destruct IR as (Hh & _ & _ & _ & _ & _ & _ & Rr).
    cbn [ids map] in IN. inversion IN as [|? ? Hnt INr]; subst.
    constructor; cbn [p_d p_chain].
    + rewrite E2, Hh. destruct c' as [|t' r]; [right; reflexivity|].
      cbn [length]. f_equal. lia.
    + eapply chain_rec_ext; [exact Rr| | |].
      * intros i Hi. rewrite E3. apply updZ_other. lia.
      * intros x Hx. assert (x <> bid t) by (intros ->; contradiction).
        rewrite E1, E6, E5. rewrite updN_other by assumption. auto.
      * intros x Hx. rewrite E4. exact Hx.
    + intros i Hi. rewrite E3. destruct (Z.eq_dec i (bht t)) as [->|Ne].
      * apply updZ_same.
      * rewrite updZ_other by exact Ne. apply IA. cbn [length]. lia.
    + intros x Hx. rewrite E1. destruct (N.eq_dec x (bid t)) as [->|Ne].
      * apply updN_same.
      * rewrite updN_other by exact Ne. apply IT. cbn [ids map]. intros [E|Hin]; [congruence|contradiction].
    + exact INr.
Qed.

(** a state commit alone (the write between which and the connect batch a
    crash can fall) does not disturb the invariant *)
Lemma state_inv : forall d c x, inv (mkP d c) -> inv (mkP (apply_unit d [FState x]) c).
Proof.
  intros d c x [IL IR IA IT IN]. cbn [p_d p_chain] in *.
  destruct (state_fields d x) as (S1 & S2 & S3 & S4 & S5 & S6 & _ & _).
  constructor; cbn [p_d p_chain].
  - rewrite S2. exact IL.
  - eapply chain_rec_ext; [exact IR| | |].
    + intros i _. rewrite S3. reflexivity.
    + intros y _. rewrite S1, S6, S5. auto.
    + intros y Hy. rewrite S4. unfold updN. destruct (N.eqb y x); auto.
  - intros i Hi. rewrite S3. apply IA. exact Hi.
  - intros y Hy. rewrite S1. apply IT. exact Hy.
  - exact IN.
Qed.

(** * runs *)

Lemma run_ops_cons : forall s o r,
  run_ops sid s (o :: r) =
  (fst (run_ops sid (fst (exec_op sid s o)) r),
   snd (exec_op sid s o) ++ snd (run_ops sid (fst (exec_op sid s o)) r)).
Proof.
  intros s o r. cbn [run_ops]. destruct (exec_op sid s o) as [s1 us]. cbn [fst snd].
  destruct (run_ops sid s1 r) as [s2 lg]. reflexivity.
Qed.

Fixpoint chain_run (c : list block) (ops : list op) : list block :=
  match ops with [] => c | o :: r => chain_run (chain_step c o) r end.

Lemma run_inv : forall ops s, inv s -> ops_valid (p_chain s) ops = true ->
  inv (fst (run_ops sid s ops)) /\ p_chain (fst (run_ops sid s ops)) = chain_run (p_chain s) ops.
Proof.
  induction ops as [|o r IH]; intros s I V.
  - cbn. auto.
  - cbn [ops_valid] in V. apply andb_true_iff in V as [Vo Vr].
    rewrite run_ops_cons. cbn [fst chain_run].
    pose proof (exec_inv s o I Vo) as I1. pose proof (exec_chain s o I Vo) as C1.
    rewrite <- C1 in Vr. destruct (IH _ I1 Vr) as [I2 C2]. split; [exact I2|].
    rewrite C2, C1. reflexivity.
Qed.

Lemma ops_valid_firstn : forall ops c j, ops_valid c ops = true -> ops_valid c (firstn j ops) = true.
Proof.
  induction ops as [|o r IH]; intros c j V; [destruct j; reflexivity|].
  destruct j; [reflexivity|]. cbn [firstn ops_valid] in *.
  apply andb_true_iff in V as [Vo Vr]. rewrite Vo. cbn. apply IH. exact Vr.
Qed.

Lemma ops_valid_skipn : forall ops c j, ops_valid c ops = true ->
  ops_valid (chain_run c (firstn j ops)) (skipn j ops) = true.
Proof.
  induction ops as [|o r IH]; intros c j V; [destruct j; reflexivity|].
  destruct j; [exact V|]. cbn [firstn skipn chain_run] in *.
  cbn [ops_valid] in V. apply andb_true_iff in V as [_ Vr]. apply IH. exact Vr.
Qed.

Lemma chain_run_split : forall ops c j,
  chain_run (chain_run c (firstn j ops)) (skipn j ops) = chain_run c ops.
Proof.
  induction ops as [|o r IH]; intros c j; [destruct j; reflexivity|].
  destruct j; [reflexivity|]. cbn [firstn skipn chain_run]. apply IH.
Qed.

(** the units of one operation: at most two, and two only for
    [state commit; connect batch] *)
Lemma exec_units : forall s o,
  let us := snd (exec_op sid s o) in
  us = [] \/ (exists u, us = [u]) \/ (exists x u, us = [[FState x]; u]).
Proof.
  intros [d c] o. destruct o as [b|b|b]; cbn [exec_op snd p_d p_chain].
  - unfold store_units. destruct (d_blk d (bid b)); [left; reflexivity|].
    destruct (td_of d b); [right; left; eexists; reflexivity|left; reflexivity].
  - destruct (tip_ok c b); [|left; reflexivity]. cbn [snd]. unfold conn_units.
    destruct (td_of d b).
    + right; right. do 2 eexists. reflexivity.
    + right; left. eexists. reflexivity.
  - destruct c as [|t c']; [left; reflexivity|].
    destruct (N.eqb (bid t) (bid b)); [|left; reflexivity].
    right; left. eexists. reflexivity.
Qed.

(** the durable state after a crash that kept [k] writes of a run = the state
    after some number [j] of whole operations, possibly plus one lone state
    commit *)
Lemma crash_prefix : forall ops s k,
  exists j, (j <= length ops)%nat /\
    let sj := fst (run_ops sid s (firstn j ops)) in
    let dk := replay (p_d s) (firstn k (snd (run_ops sid s ops))) in
    dk = p_d sj \/ exists x, dk = apply_unit (p_d sj) [FState x].
Proof.
  induction ops as [|o r IH]; intros s k.
  - exists 0%nat. split; [cbn; lia|]. cbn. left. destruct k; reflexivity.
  - rewrite run_ops_cons. cbn [snd].
    pose proof (exec_durable s o) as Hd.
    set (us := snd (exec_op sid s o)) in *. set (s1 := fst (exec_op sid s o)) in *.
    destruct (Nat.le_gt_cases (length us) k) as [Hk|Hk].
    + (* the whole operation is durable *)
      destruct (IH s1 (k - length us)%nat) as (j & Hj & HH).
      exists (S j). split; [cbn [length]; lia|].
      cbn [firstn]. rewrite run_ops_cons. cbn [fst].
      rewrite firstn_app. rewrite (firstn_all2 us) by exact Hk.
      rewrite replay_app, <- Hd. fold s1. exact HH.
    + (* the crash falls inside the operation *)
      exists 0%nat. split; [cbn; lia|]. cbn [firstn run_ops fst].
      rewrite firstn_app. replace (k - length us)%nat with 0%nat by lia.
      cbn [firstn]. rewrite app_nil_r.
      destruct (exec_units s o) as [E|[(u & E)|(x & u & E)]]; fold us in E; rewrite E in *; cbn [length] in Hk.
      * lia.
      * assert (k = 0)%nat by lia. subst k. left. reflexivity.
      * destruct k as [|[|k]]; [left; reflexivity| |lia]. right. exists x. reflexivity.
Qed.

(** * what start-up reads back under the invariant *)

Lemma read_chain_inv : forall d c, chain_rec d c -> read_chain d (length c) = Some (ids c).
Proof.
  induction c as [|b r IH]; intros H; [reflexivity|].
  cbn [chain_rec] in H. destruct H as (Hh & _ & H2 & Hb & _ & _ & _ & Hr).
  cbn [length read_chain]. rewrite <- Hh, H2, Hb, (IH Hr). reflexivity.
Qed.

Lemma recover_inv : forall s, inv s ->
  recover (p_d s) = match p_chain s with
                    | [] => RFresh
                    | _ :: r => RChain (Z.of_nat (length r)) (ids (p_chain s))
                    end.
Proof.
  intros [d c] [IL IR _ _ _]. cbn [p_d p_chain] in *. unfold recover.
  destruct c as [|b r].
  - destruct IL as [-> | ->]; reflexivity.
  - rewrite IL. assert (E : (Z.of_nat (length r) <? 0) = false) by (apply Z.ltb_ge; lia).
    rewrite E, Nat2Z.id. change (S (length r)) with (length (b :: r)).
    rewrite (read_chain_inv _ _ IR). reflexivity.
Qed.

(** * the main theorems *)

(** [consistent_with d c]: the durable records describe exactly the chain [c]
    (tip first): hash by height, block rows, tx index, total difficulties and
    states of all its blocks, nothing above its height, no other transaction
    indexed; and start-up recovers exactly [c]. *)
Definition consistent_with (d : dst) (c : list block) : Prop :=
  inv (mkP d c) /\
  recover d = match c with [] => RFresh | _ :: r => RChain (Z.of_nat (length r)) (ids c) end.

Theorem crash_consistent : forall (c0 : list block) (d00 : dst) (ops : list op) (k : nat),
  inv (mkP d00 c0) -> ops_valid c0 ops = true ->
  let log := snd (run_ops sid (mkP d00 c0) ops) in
  exists j, (j <= length ops)%nat /\
    consistent_with (replay d00 (firstn k log)) (chain_run c0 (firstn j ops)).
Proof.
  intros c0 d00 ops k I V log.
  destruct (crash_prefix ops (mkP d00 c0) k) as (j & Hj & HH). cbn [p_d] in HH.
  exists j. split; [exact Hj|].
  destruct (run_inv (firstn j ops) (mkP d00 c0) I (ops_valid_firstn _ _ j V)) as [Ij Cj].
  cbn [p_chain] in Cj.
  set (sj := fst (run_ops sid (mkP d00 c0) (firstn j ops))) in *.
  assert (Es : sj = mkP (p_d sj) (chain_run c0 (firstn j ops))) by (destruct sj; cbn in *; subst; reflexivity).
  fold log in HH.
  assert (Ik : inv (mkP (replay d00 (firstn k log)) (chain_run c0 (firstn j ops)))).
  { destruct HH as [->|(x & ->)].
    - rewrite <- Es. exact Ij.
    - apply state_inv. rewrite <- Es. exact Ij. }
  split; [exact Ik|]. apply (recover_inv _ Ik).
Qed.

(** resuming: from the recovered state the remaining operations are valid, end
    in the chain of the uninterrupted run, and the final records are again
    consistent with it *)
Theorem resume_same_final : forall (c0 : list block) (d00 : dst) (ops : list op) (k : nat),
  inv (mkP d00 c0) -> ops_valid c0 ops = true ->
  let log := snd (run_ops sid (mkP d00 c0) ops) in
  exists j, (j <= length ops)%nat /\
    let dk := replay d00 (firstn k log) in
    let cj := chain_run c0 (firstn j ops) in
    let send := fst (run_ops sid (mkP dk cj) (skipn j ops)) in
    p_chain send = p_chain (fst (run_ops sid (mkP d00 c0) ops)) /\
    consistent_with (p_d send) (p_chain send).
Proof.
  intros c0 d00 ops k I V log.
  destruct (crash_consistent c0 d00 ops k I V) as (j & Hj & Ik & _).
  exists j. split; [exact Hj|]. intros dk cj send.
  pose proof (ops_valid_skipn ops c0 j V) as Vs.
  destruct (run_inv (skipn j ops) (mkP dk cj) Ik Vs) as [Ie Ce].
  destruct (run_inv ops (mkP d00 c0) I V) as [_ Cf]. cbn [p_chain] in *.
  fold send in Ie, Ce. split.
  - rewrite Ce, Cf. apply chain_run_split.
  - assert (Es : send = mkP (p_d send) (p_chain send)) by (destruct send; reflexivity).
    split; [rewrite <- Es; exact Ie|]. rewrite Es in Ie. apply (recover_inv _ Ie).
Qed.

End Crash.

(** the empty database with no chain satisfies the invariant, also after the
    flag writes of a first start *)
Lemma inv_fresh : forall sid, inv sid (mkP (replay d0 (fresh_units d0)) []).
Proof.
  intros sid. constructor; cbn.
  - left. reflexivity.
  - exact I.
  - reflexivity.
  - reflexivity.
  - constructor.
Qed.
