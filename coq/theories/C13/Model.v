(** C13 — model of the order-sensitive combinators of block execution.

    Every place in the anchored Go code where an ordered result is produced from
    something whose order the Go runtime does not fix (iteration over a map,
    completion order of goroutines) is modelled as a function that takes that
    order as an explicit argument:

      - a map is a list of its keys in some canonical order; "range over the map"
        visits [apply_perm pi keys] for an arbitrary permutation [pi];
      - results of a fan-out arrive in the order [pi] (indices of the tasks).

    DelDupKey / DelDupTx use a map only for lookups (no iteration); they are
    modelled as coded (in-place compaction).  Nothing here is proved. *)
From Coq Require Import List NArith Arith Bool.
From C33 Require Import Lib.Harness Lib.Bytes.
Import ListNotations.

(** ** Permutations / schedules as index lists *)

Definition apply_perm {A} (pi : list nat) (l : list A) : list A :=
  flat_map (fun i => match nth_error l i with Some x => [x] | None => [] end) pi.

(** [pi] lists every index below [n] exactly once *)
Definition is_permb (pi : list nat) (n : nat) : bool :=
  (length pi =? n) && forallb (fun i => existsb (Nat.eqb i) pi) (seq 0 n).

(** ** sort.Strings (any correct sort: the order on strings is total and antisymmetric) *)

Fixpoint sinsert (x : bytes) (l : list bytes) : list bytes :=
  match l with
  | [] => [x]
  | y :: tl => if bleb x y then x :: l else y :: sinsert x tl
  end.

Definition sort_strings (l : list bytes) : list bytes := fold_right sinsert [] l.

(** [l[i] = x] (no effect outside the list; Go would panic) *)
Fixpoint set_nth {A} (i : nat) (x : A) (l : list A) : list A :=
  match l, i with
  | [], _ => []
  | _ :: tl, O => x :: tl
  | y :: tl, S i' => y :: set_nth i' x tl
  end.

(** ** util.DelDupKey (util/exec.go)

    [dupindex] maps a key to the output slot of its first occurrence; a later
    occurrence overwrites that slot with the later KeyValue.  [V] is the identity
    of the *types.KeyValue (its value). *)
Section DupKey.
  Context {V : Type}.

  Fixpoint dup_find (k : bytes) (idx : list (bytes * nat)) : option nat :=
    match idx with
    | [] => None
    | (k', i) :: tl => if beqb k k' then Some i else dup_find k tl
    end.

  (** state: dupindex, output prefix kvs[0:n] *)
  Definition ddk_step (st : list (bytes * nat) * list (bytes * V)) (kv : bytes * V) :=
    let '(idx, out) := st in
    match dup_find (fst kv) idx with
    | Some i => (idx, set_nth i kv out)
    | None => ((fst kv, length out) :: idx, out ++ [kv])
    end.

  Definition del_dup_key (kvs : list (bytes * V)) : list (bytes * V) :=
    snd (fold_left ddk_step kvs ([], [])).
End DupKey.

(** ** util.DelDupTx (util/exec.go): keep, for every hash, the element at its last index *)
Section DupTx.
  Context {T : Type}.
  Variable hash : T -> N.

  (** dupindex after the first loop: hash -> last index; hasdup *)
  Fixpoint ddt_scan (i : nat) (txs : list T) (idx : list (N * nat)) (dup : bool)
    : list (N * nat) * bool :=
    match txs with
    | [] => (idx, dup)
    | tx :: tl =>
        let h := hash tx in
        let seen := existsb (fun p => N.eqb (fst p) h) idx in
        ddt_scan (S i) tl ((h, i) :: filter (fun p => negb (N.eqb (fst p) h)) idx) (dup || seen)
    end.

  Fixpoint ddt_last (h : N) (idx : list (N * nat)) : option nat :=
    match idx with
    | [] => None
    | (h', i) :: tl => if N.eqb h' h then Some i else ddt_last h tl
    end.

  Fixpoint ddt_keep (i : nat) (txs : list T) (idx : list (N * nat)) : list T :=
    match txs with
    | [] => []
    | tx :: tl =>
        match ddt_last (hash tx) idx with
        | Some j => if Nat.eqb i j then tx :: ddt_keep (S i) tl idx else ddt_keep (S i) tl idx
        | None => ddt_keep (S i) tl idx
        end
    end.

  Definition del_dup_tx (txs : list T) : list T :=
    let '(idx, dup) := ddt_scan 0 txs [] false in
    if dup then ddt_keep 0 txs idx else txs.
End DupTx.

(** ** types.GetParaExecTitleName / TransactionSort (types/config.go, types/tx.go) *)

Definition para_key : bytes := [117; 115; 101; 114; 46; 112; 46]%N.   (* "user.p." *)
Definition main_name : bytes := [109; 97; 105; 110]%N.                 (* "main" *)
Definition dot : N := 46%N.

(** position of the first '.' in [l] *)
Fixpoint first_dot (l : bytes) : option nat :=
  match l with
  | [] => None
  | c :: tl => if N.eqb c dot then Some O
               else match first_dot tl with Some j => Some (S j) | None => None end
  end.

(** (title, isPara) *)
Definition para_title (exec : bytes) : bytes * bool :=
  if is_prefix para_key exec then
    match first_dot (skipn (length para_key) exec) with
    | Some j => (firstn (length para_key + j + 1) exec, true)
    | None => ([], false)
    end
  else ([], false).

Definition title_of (exec : bytes) : bytes :=
  let '(t, p) := para_title exec in if p then t else main_name.

Section TxSort.
  Context {T : Type}.
  Variable execer : T -> bytes.

  (** txMap as an association list in order of first insertion *)
  Fixpoint group_add (t : bytes) (x : T) (m : list (bytes * list T)) : list (bytes * list T) :=
    match m with
    | [] => [(t, [x])]
    | (t', xs) :: tl => if beqb t t' then (t', xs ++ [x]) :: tl else (t', xs) :: group_add t x tl
    end.

  Definition group_from (m : list (bytes * list T)) (txs : list T) : list (bytes * list T) :=
    fold_left (fun m tx => group_add (title_of (execer tx)) tx m) txs m.

  Fixpoint group_get (t : bytes) (m : list (bytes * list T)) : list T :=
    match m with
    | [] => []
    | (t', xs) :: tl => if beqb t t' then xs else group_get t tl
    end.

  (** [pi]: the order in which [for k := range txMap] visits the keys *)
  Definition tx_sort (pi : list nat) (txs : list T) : list T :=
    let m := group_from [] txs in
    let new_mp := apply_perm pi (map fst m) in
    flat_map (fun t => group_get t m) (sort_strings new_mp).

  Definition tx_sort_id (txs : list T) : list T :=
    tx_sort (seq 0 (length (group_from [] txs))) txs.
End TxSort.

(** ** executor.sortedPluginNames (executor/plugin.go): [keys] = the registered names *)
Definition plugin_names (pi : list nat) (keys : list bytes) : list bytes :=
  sort_strings (apply_perm pi keys).

(** ** types.verifyTxsSignature (types/block.go)

    [oks i] = result of CheckSign on transaction i; the workers' results arrive
    on the channel in the order [pi]; the first [false] returns. *)
Fixpoint drain (rs : list bool) : bool :=
  match rs with
  | [] => true
  | r :: tl => if r then drain tl else false
  end.

Definition verify_sigs (pi : list nat) (oks : list bool) : bool :=
  match oks with
  | [] => true
  | _ => drain (apply_perm pi oks)
  end.

(** ** gather by index (merkle.GetMerkleRoot, merkle.calcMultiLayerMerkleInfo)

    [childlist := make([][]byte, n); for i := 0; i < n; i++ { sub := <-ch; childlist[sub.index] = sub.hash }]
    with the completions arriving in the order [sched]. *)
Definition gather {A} (sched : list nat) (res : nat -> A) (n : nat) : list (option A) :=
  fold_left (fun acc i => set_nth i (Some (res i)) acc) sched (repeat None n).

(** GetMerkleRoot's parallel branch: [chunks] are the step-sized slices, [sub] the
    per-chunk root (getMerkleRoot / getMerkleRootPad), [top] the root over the
    gathered list (C18 proves what these compute). *)
Section ParRoot.
  Context {H : Type}.
  Variable sub : list H -> H.
  Variable top : list (option H) -> H.

  Fixpoint chunks_of (fuel step : nat) (l : list H) : list (list H) :=
    match fuel with
    | O => []
    | S f => match l with
             | [] => []
             | _ => firstn step l :: chunks_of f step (skipn step l)
             end
    end.

  Definition par_root (sched : list nat) (step : nat) (hashes : list H) : H :=
    let cs := chunks_of (length hashes) step hashes in
    top (gather sched (fun i => sub (nth i cs [])) (length cs)).
End ParRoot.

(** calcMultiLayerMerkleInfo: the child-chain table.
    A segment starts at transaction 0 when that is a main-chain transaction, and at
    every parachain transaction whose title differs from the current parachain title. *)
Fixpoint segs_from (i : nat) (first : bytes) (execs : list bytes) : list (bytes * nat) :=
  match execs with
  | [] => []
  | e :: tl =>
      let '(t, p) := para_title e in
      if negb p && Nat.eqb i 0 then (main_name, 0) :: segs_from (S i) first tl
      else if p && ((length first =? 0) || negb (beqb t first)) then (t, i) :: segs_from (S i) t tl
      else segs_from (S i) first tl
  end.

(** (title, start, count) *)
Fixpoint seg_counts (total : nat) (segs : list (bytes * nat)) : list (bytes * nat * nat) :=
  match segs with
  | [] => []
  | (t, s) :: tl =>
      let e := match tl with [] => total | (_, s') :: _ => s' end in
      (t, s, e - s) :: seg_counts total tl
  end.

Section Multi.
  Context {H : Type}.
  Variable single : nat -> nat -> H.      (* calcSingleLayerMerkleRoot(txs[start:start+count]) *)
  Variable top : list (option H) -> H.    (* GetMerkleRoot(childlist) *)

  (** root, child chains with their hashes; [sched] = completion order of the goroutines *)
  Definition multi_layer (sched : list nat) (execs : list bytes)
    : option (H * list (bytes * nat * nat * option H)) :=
    match execs with
    | [] => None                                       (* zeroHash, nil *)
    | _ =>
        let cs := seg_counts (length execs) (segs_from 0 [] execs) in
        match cs with
        | [] => None                                   (* unreachable: childchains[0] would panic *)
        | [(t, s, _)] =>
            let r := single 0 (length execs) in
            Some (r, [(t, s, length execs, Some r)])
        | _ =>
            let res i := match nth_error cs i with
                         | Some (_, s, c) => single s c
                         | None => single 0 0
                         end in
            let hs := gather sched res (length cs) in
            Some (top hs, combine cs hs)
        end
    end.
End Multi.
