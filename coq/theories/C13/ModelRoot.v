(** C13 — the transaction root as the block carries it: merkle.GetMerkleRoot with
    BOTH sources of variation explicit — the CPU count [ncpu] (runtime.NumCPU(),
    which fixes the chunk size) and the completion order [sched] of the chunk
    goroutines (gather by index, C13.Model.par_root).

    The arithmetic (log2 / pow2 / the 256 cap / calcLevel / padding of the last,
    partially filled chunk) is C18's model of the same file, used as is:
    [C18.Model.par_step], [C18.Model.child_root], [C18.Model.get_merkle_root].
    Nothing here is proved. *)
From Coq Require Import List ZArith Arith Bool.
From C33 Require Import C13.Model.
From C33 Require C18.Model.
Import ListNotations.

Section TxRoot.
  Context {T : Type}.
  Variable nilT : T.                 (* Go: nil *)
  Variable hash2 : T -> T -> T.      (* GetHashFromTwoHash: double SHA-256 of left ++ right *)

  (** the sequential algorithm (getMerkleRoot) *)
  Definition seq_root (hashes : list T) : T := C18.Model.get_merkle_root T nilT hash2 hashes.

  (** [if len(hashes) <= 80 || ncpu <= 1 { return getMerkleRoot(hashes) }] *)
  Definition root_sequential_path (ncpu : Z) (hashes : list T) : bool :=
    (Z.of_nat (length hashes) <=? 80)%Z || (ncpu <=? 1)%Z.

  Definition root_step (ncpu : Z) (hashes : list T) : nat :=
    Z.to_nat (C18.Model.par_step (Z.of_nat (length hashes)) ncpu).

  (** number of chunk goroutines started (0 on the sequential path) *)
  Definition root_tasks (ncpu : Z) (hashes : list T) : nat :=
    if root_sequential_path ncpu hashes then 0
    else length (chunks_of (length hashes) (root_step ncpu hashes) hashes).

  (** [childlist[sub.index] = sub.hash]; a slot nobody wrote stays nil *)
  Definition root_top (l : list (option T)) : T :=
    seq_root (map (fun o => match o with Some h => h | None => nilT end) l).

  Definition merkle_root_cpu (ncpu : Z) (sched : list nat) (hashes : list T) : T :=
    if root_sequential_path ncpu hashes then seq_root hashes
    else
      let step := C18.Model.par_step (Z.of_nat (length hashes)) ncpu in
      par_root (C18.Model.child_root T nilT hash2 step) root_top sched (Z.to_nat step) hashes.
End TxRoot.
