(** C13 — proofs, part 2: DelDupKey, DelDupTx and TransactionSort compute what
    their specifications say. *)
From Coq Require Import List NArith Arith Bool Permutation Lia.
From C33 Require Import Lib.Harness Lib.Bytes C13.Model C13.Spec C13.Proofs.
Import ListNotations.

(** ** first-seen key lists *)

Definition add_key (acc : list bytes) (k : bytes) : list bytes :=
  if existsb (beqb k) acc then acc else acc ++ [k].

Lemma uniq_from_ext l : forall s1 s2,
  (forall x, existsb (beqb x) s1 = existsb (beqb x) s2) -> uniq_from s1 l = uniq_from s2 l.
Proof.
  induction l as [|k l IH]; intros s1 s2 H; simpl; [reflexivity|].
  rewrite <- H. destruct (existsb (beqb k) s1); [apply IH; exact H|].
  f_equal. apply IH. intro x. simpl. rewrite H. reflexivity.
Qed.

Lemma add_key_fold ks : forall keys,
  fold_left add_key ks keys = keys ++ uniq_from keys ks.
Proof.
  induction ks as [|k ks IH]; intro keys; simpl.
  - rewrite app_nil_r. reflexivity.
  - rewrite IH. unfold add_key. destruct (existsb (beqb k) keys) eqn:E; [reflexivity|].
    rewrite <- app_assoc. simpl. f_equal. f_equal. apply uniq_from_ext.
    intro x. rewrite existsb_app. simpl. rewrite orb_false_r. apply orb_comm.
Qed.

Lemma fold_keys {S A} (step : S -> A -> S) (keys : S -> list bytes) (key : A -> bytes) :
  (forall st a, keys (step st a) = add_key (keys st) (key a)) ->
  forall l st, keys (fold_left step l st) = fold_left add_key (map key l) (keys st).
Proof.
  intros H l; induction l as [|a l IH]; intro st; simpl; [reflexivity|].
  rewrite IH, H. reflexivity.
Qed.

Lemma nodup_snoc {A} (l : list A) x : NoDup l -> ~ In x l -> NoDup (l ++ [x]).
Proof.
  intros ND Hn. eapply Permutation_NoDup; [apply Permutation_cons_append|].
  constructor; assumption.
Qed.

(** ** DelDupKey *)
Section DupKey.
  Context {V : Type}.
  Notation kv := (bytes * V)%type.

  Fixpoint kidx (k : bytes) (ks : list bytes) : option nat :=
    match ks with
    | [] => None
    | k' :: tl => if beqb k k' then Some 0 else option_map S (kidx k tl)
    end.

  Lemma kidx_none k ks : kidx k ks = None <-> existsb (beqb k) ks = false.
  Proof.
    induction ks as [|k' ks IH]; simpl; [tauto|].
    destruct (beqb k k'); simpl; [split; discriminate|].
    destruct (kidx k ks) as [n|]; simpl.
    - split; [discriminate|]. intro H. apply IH in H. discriminate.
    - split; [intros _; apply IH; reflexivity | reflexivity].
  Qed.

  Lemma kidx_app_none k a b :
    kidx k a = None -> kidx k (a ++ b) = option_map (fun j => length a + j) (kidx k b).
  Proof.
    induction a as [|x a IH]; simpl; intro H.
    - destruct (kidx k b); reflexivity.
    - destruct (beqb k x); [discriminate|].
      destruct (kidx k a) eqn:E; [discriminate|]. rewrite IH by reflexivity.
      destruct (kidx k b); reflexivity.
  Qed.

  Lemma kidx_app_some k a b i : kidx k a = Some i -> kidx k (a ++ b) = Some i.
  Proof.
    revert i; induction a as [|x a IH]; simpl; intros i H; [discriminate|].
    destruct (beqb k x); [exact H|].
    destruct (kidx k a) eqn:E; [|discriminate]. rewrite (IH n eq_refl). exact H.
  Qed.

  Lemma has_key_existsb k (out : list kv) : has_key k out = existsb (beqb k) (map fst out).
  Proof. unfold has_key. induction out as [|x out IH]; simpl; [reflexivity|]. rewrite IH. reflexivity. Qed.

  Definition replace_key (new : kv) (out : list kv) : list kv :=
    map (fun kv' => if beqb (fst new) (fst kv') then new else kv') out.

  Lemma replace_keys new out : map fst (replace_key new out) = map fst out.
  Proof.
    unfold replace_key. induction out as [|x out IH]; simpl; [reflexivity|].
    rewrite IH. f_equal.
    match goal with |- context [if ?b then _ else _] => destruct b eqn:E end; [|reflexivity].
    apply beqb_eq in E. exact E.
  Qed.

  Lemma replace_absent new out :
    existsb (beqb (fst new)) (map fst out) = false -> replace_key new out = out.
  Proof.
    unfold replace_key. induction out as [|x out IH]; simpl; intro H; [reflexivity|].
    apply orb_false_iff in H as [H1 H2]. rewrite IH by exact H2. unfold bytes in *. rewrite H1. reflexivity.
  Qed.

  Lemma replace_key_cons new x out :
    replace_key new (x :: out) = (if beqb (fst new) (fst x) then new else x) :: replace_key new out.
  Proof. reflexivity. Qed.

  Lemma set_nth_replace (new : kv) : forall out i,
    NoDup (map fst out) -> kidx (fst new) (map fst out) = Some i ->
    set_nth i new out = replace_key new out.
  Proof.
    induction out as [|x out IH]; intros i ND H; [discriminate|].
    rewrite replace_key_cons. simpl in ND, H.
    inversion ND as [|? ? Hnin ND']; subst. unfold bytes in *.
    destruct (beqb (fst new) (fst x)) eqn:E.
    - inversion H; subst. cbn [set_nth]. f_equal. symmetry. apply replace_absent.
      apply beqb_eq in E. unfold bytes in *. rewrite E.
      destruct (existsb (beqb (fst x)) (map fst out)) eqn:Ex; [|reflexivity].
      apply existsb_exists in Ex as [y [Hy Ey]]. apply beqb_eq in Ey. subst y. contradiction.
    - destruct (kidx (fst new) (map fst out)) as [j|] eqn:Ek; [|discriminate].
      inversion H; subst. cbn [set_nth]. f_equal. apply IH; [exact ND'|reflexivity].
  Qed.

  (** the index map agrees with the output prefix *)
  Definition ddk_inv (st : list (bytes * nat) * list kv) : Prop :=
    NoDup (map fst (snd st)) /\ forall k, dup_find k (fst st) = kidx k (map fst (snd st)).

  Lemma ddk_step_sim st x :
    ddk_inv st -> ddk_inv (ddk_step st x) /\ snd (ddk_step st x) = spec_ddk_step (snd st) x.
  Proof.
    destruct st as [idx out]. intros [ND Hidx]. simpl in ND, Hidx.
    unfold ddk_step, spec_ddk_step. rewrite has_key_existsb. unfold bytes in *. cbn [snd].
    destruct (dup_find (fst x) idx) as [i|] eqn:Ef.
    - rewrite Hidx in Ef.
      assert (Ex : existsb (beqb (fst x)) (map fst out) = true).
      { destruct (existsb (beqb (fst x)) (map fst out)) eqn:E; [reflexivity|].
        apply kidx_none in E. congruence. }
      rewrite Ex. pose proof (set_nth_replace x out i ND Ef) as R. unfold bytes in R. rewrite R.
      split; [|reflexivity]. split; simpl; rewrite replace_keys; assumption.
    - rewrite Hidx in Ef. pose proof Ef as En. apply kidx_none in En. rewrite En.
      split; [|reflexivity]. split; simpl.
      + rewrite map_app. simpl. apply nodup_snoc; [exact ND|].
        intro Hin. assert (existsb (beqb (fst x)) (map fst out) = true); [|congruence].
        apply existsb_exists. exists (fst x). split; [exact Hin|apply beqb_refl].
      + intro k. rewrite map_app. simpl. destruct (beqb k (fst x)) eqn:E.
        * apply beqb_eq in E. subst k. rewrite (kidx_app_none _ _ _ Ef). cbn [kidx].
          rewrite beqb_refl. cbn [option_map]. rewrite map_length, Nat.add_0_r. reflexivity.
        * rewrite Hidx. destruct (kidx k (map fst out)) as [j|] eqn:Ek.
          -- symmetry. apply kidx_app_some. exact Ek.
          -- rewrite (kidx_app_none _ _ _ Ek). cbn [kidx]. unfold bytes in *. rewrite E. reflexivity.
  Qed.
End DupKey.

Section DupKeyThm.
  Context {V : Type}.
  Notation kv := (bytes * V)%type.

  Lemma ddk_fold_sim (kvs : list kv) : forall st,
    ddk_inv st -> snd (fold_left ddk_step kvs st) = fold_left spec_ddk_step kvs (snd st).
  Proof.
    induction kvs as [|x kvs IH]; intros st Hinv; simpl; [reflexivity|].
    destruct (ddk_step_sim st x Hinv) as [Hinv' E]. rewrite IH by exact Hinv'. rewrite E. reflexivity.
  Qed.

  (** the code computes the specification *)
  Theorem del_dup_key_is_spec (kvs : list kv) : del_dup_key kvs = spec_del_dup_key kvs.
  Proof.
    unfold del_dup_key, spec_del_dup_key. rewrite ddk_fold_sim; [reflexivity|].
    split; simpl; [constructor|reflexivity].
  Qed.

  (** keys appear once, in the order of their first occurrence *)
  Lemma spec_step_keys (out : list kv) x :
    map fst (spec_ddk_step out x) = add_key (map fst out) (fst x).
  Proof.
    unfold spec_ddk_step, add_key. rewrite has_key_existsb. unfold bytes in *.
    destruct (existsb (beqb (fst x)) (map fst out)).
    - apply (replace_keys x out).
    - rewrite map_app. reflexivity.
  Qed.

  Theorem del_dup_key_keys (kvs : list kv) : map fst (del_dup_key kvs) = uniq (map fst kvs).
  Proof.
    rewrite del_dup_key_is_spec. unfold spec_del_dup_key.
    rewrite (fold_keys spec_ddk_step (map fst) fst spec_step_keys).
    rewrite add_key_fold. reflexivity.
  Qed.

  (** every key carries its last value: writing the result to a store gives the
      same store as writing the whole list in order *)
  Lemma last_kv_acc k (l : list kv) : forall acc,
    last_kv k l acc = match last_kv k l None with Some x => Some x | None => acc end.
  Proof.
    induction l as [|x l IH]; intro acc; simpl; [reflexivity|].
    destruct (beqb k (fst x)); [rewrite (IH (Some x)); destruct (last_kv k l None); reflexivity|].
    apply IH.
  Qed.

  Lemma store_get_app k (a b : list kv) :
    store_get (a ++ b) k = match store_get b k with Some x => Some x | None => store_get a k end.
  Proof.
    unfold store_get. revert b. induction a as [|x a IH] using rev_ind; intro b; simpl.
    - destruct (last_kv k b None); reflexivity.
    - rewrite <- app_assoc. rewrite IH. simpl. rewrite (IH [x]). simpl.
      rewrite (last_kv_acc k b). destruct (last_kv k b None); [reflexivity|].
      destruct (beqb k (fst x)); reflexivity.
  Qed.

  Lemma last_kv_replace k x : forall (out : list kv) acc,
    last_kv k (replace_key x out) acc =
    if beqb k (fst x) then (if has_key (fst x) out then Some x else acc) else last_kv k out acc.
  Proof.
    induction out as [|y out IH]; intro acc.
    - simpl. destruct (beqb k (fst x)); reflexivity.
    - rewrite replace_key_cons. cbn [last_kv]. rewrite IH. unfold has_key. cbn [existsb].
      fold (has_key (fst x) out). unfold bytes in *.
      destruct (beqb k (fst x)) eqn:Ekx.
      + apply beqb_eq in Ekx. subst k.
        destruct (beqb (fst x) (fst y)) eqn:Exy; cbn [orb].
        * rewrite beqb_refl. destruct (has_key (fst x) out); reflexivity.
        * rewrite Exy. reflexivity.
      + destruct (beqb (fst x) (fst y)) eqn:Exy.
        * apply beqb_eq in Exy. rewrite Ekx. rewrite <- Exy, Ekx. reflexivity.
        * reflexivity.
  Qed.

  Lemma store_get_replace k x (out : list kv) :
    has_key (fst x) out = true ->
    store_get (replace_key x out) k = if beqb k (fst x) then Some x else store_get out k.
  Proof.
    intro H. unfold store_get. rewrite last_kv_replace, H. reflexivity.
  Qed.

  Lemma spec_step_store k (out : list kv) x :
    store_get (spec_ddk_step out x) k = if beqb k (fst x) then Some x else store_get out k.
  Proof.
    unfold spec_ddk_step. destruct (has_key (fst x) out) eqn:E.
    - apply (store_get_replace k x out E).
    - rewrite store_get_app. unfold store_get at 1. cbn [last_kv].
      destruct (beqb k (fst x)); reflexivity.
  Qed.

  Theorem del_dup_key_same_store (kvs : list kv) k :
    store_get (del_dup_key kvs) k = store_get kvs k.
  Proof.
    rewrite del_dup_key_is_spec. unfold spec_del_dup_key.
    assert (G : forall out, store_get (fold_left spec_ddk_step kvs out) k = last_kv k kvs (store_get out k)).
    { induction kvs as [|x kvs IH]; intro out; simpl; [reflexivity|].
      rewrite IH, spec_step_store. reflexivity. }
    rewrite G. reflexivity.
  Qed.
End DupKeyThm.

(** ** DelDupTx *)
Section DupTx.
  Context {T : Type}.
  Variable hash : T -> N.

  Fixpoint last_pos (h : N) (l : list T) : option nat :=
    match l with
    | [] => None
    | x :: tl => match last_pos h tl with
                 | Some j => Some (S j)
                 | None => if N.eqb (hash x) h then Some 0 else None
                 end
    end.

  Lemma last_pos_none h l :
    last_pos h l = None <-> existsb (fun y => N.eqb (hash y) h) l = false.
  Proof.
    induction l as [|x l IH]; simpl; [tauto|].
    destruct (last_pos h l) as [j|].
    - split; [discriminate|]. intro H. apply orb_false_iff in H as [_ H]. apply IH in H. discriminate.
    - destruct (N.eqb (hash x) h); simpl; [split; discriminate|]. split; [intros _; apply IH; reflexivity|reflexivity].
  Qed.

  Lemma ddt_last_filter h h' idx :
    N.eqb h' h = false ->
    ddt_last h (filter (fun p : N * nat => negb (N.eqb (fst p) h')) idx) = ddt_last h idx.
  Proof.
    intro Hne. induction idx as [|[a i] idx IH]; simpl; [reflexivity|].
    destruct (N.eqb a h') eqn:E1; simpl.
    - apply N.eqb_eq in E1. subst a. rewrite Hne. exact IH.
    - destruct (N.eqb a h); [reflexivity|exact IH].
  Qed.

  Lemma ddt_scan_last l : forall i idx dup idx' dup',
    ddt_scan hash i l idx dup = (idx', dup') ->
    forall h, ddt_last h idx' = match last_pos h l with Some j => Some (i + j) | None => ddt_last h idx end.
  Proof.
    induction l as [|x l IH]; intros i idx dup idx' dup' H h; simpl in H.
    - inversion H; subst. reflexivity.
    - rewrite (IH _ _ _ _ _ H h). simpl.
      destruct (last_pos h l) as [j|]; [f_equal; lia|].
      destruct (N.eqb (hash x) h) eqn:E; [f_equal; lia|].
      apply ddt_last_filter. exact E.
  Qed.

  Fixpoint nodup_hashes (l : list T) : bool :=
    match l with
    | [] => true
    | x :: tl => negb (existsb (fun y => N.eqb (hash y) (hash x)) tl) && nodup_hashes tl
    end.

  Definition absent (h : N) (idx : list (N * nat)) : bool :=
    negb (existsb (fun p : N * nat => N.eqb (fst p) h) idx).

  Lemma absent_filter h h' idx :
    N.eqb h' h = false ->
    absent h (filter (fun p : N * nat => negb (N.eqb (fst p) h')) idx) = absent h idx.
  Proof.
    intro Hne. unfold absent. f_equal. induction idx as [|[a i] idx IH]; simpl; [reflexivity|].
    destruct (N.eqb a h') eqn:E1; simpl.
    - apply N.eqb_eq in E1. subst a. rewrite Hne. exact IH.
    - rewrite IH. reflexivity.
  Qed.

  Lemma ddt_scan_nodup l : forall i idx dup idx' dup',
    ddt_scan hash i l idx dup = (idx', dup') -> dup' = false ->
    dup = false /\ nodup_hashes l = true /\ forallb (fun y => absent (hash y) idx) l = true.
  Proof.
    induction l as [|x l IH]; intros i idx dup idx' dup' H Hd; simpl in H.
    - inversion H; subst. auto.
    - destruct (IH _ _ _ _ _ H Hd) as [Hdup [Hnd Hab]].
      apply orb_false_iff in Hdup as [Hdup Hseen]. split; [exact Hdup|]. simpl.
      assert (Hx : forallb (fun y => negb (N.eqb (hash y) (hash x)) && absent (hash y) idx) l = true).
      { rewrite forallb_forall in Hab |- *. intros y Hy. specialize (Hab y Hy).
        unfold absent in Hab. simpl in Hab. apply negb_true_iff in Hab.
        apply orb_false_iff in Hab as [Hne Hab].
        rewrite N.eqb_sym in Hne. rewrite Hne. simpl.
        rewrite <- (absent_filter (hash y) (hash x) idx); [unfold absent; rewrite Hab; reflexivity|].
        rewrite N.eqb_sym. exact Hne. }
      split; [|].
      + rewrite Hnd, andb_true_r. apply negb_true_iff.
        destruct (existsb (fun y => N.eqb (hash y) (hash x)) l) eqn:Ex; [|reflexivity].
        apply existsb_exists in Ex as [y [Hy Ey]]. rewrite forallb_forall in Hx.
        specialize (Hx y Hy). rewrite Ey in Hx. discriminate.
      + unfold absent at 1. rewrite Hseen. simpl.
        rewrite forallb_forall in Hx |- *. intros y Hy. specialize (Hx y Hy).
        apply andb_true_iff in Hx as [_ Hx]. exact Hx.
  Qed.

  Lemma keep_last_nodup l : nodup_hashes l = true -> keep_last hash l = l.
  Proof.
    induction l as [|x l IH]; simpl; intro H; [reflexivity|].
    apply andb_true_iff in H as [H1 H2]. apply negb_true_iff in H1. rewrite H1, IH by exact H2. reflexivity.
  Qed.

  Lemma ddt_keep_spec l : forall i idx,
    (forall h, existsb (fun y => N.eqb (hash y) h) l = true ->
               ddt_last h idx = match last_pos h l with Some j => Some (i + j) | None => None end) ->
    ddt_keep hash i l idx = keep_last hash l.
  Proof.
    induction l as [|x l IH]; intros i idx H; simpl; [reflexivity|].
    assert (Hx : ddt_last (hash x) idx =
                 match last_pos (hash x) (x :: l) with Some j => Some (i + j) | None => None end).
    { apply H. simpl. rewrite N.eqb_refl. reflexivity. }
    simpl in Hx. rewrite N.eqb_refl in Hx.
    assert (IH' : ddt_keep hash (S i) l idx = keep_last hash l).
    { apply IH. intros h Hh. rewrite H by (simpl; rewrite Hh; apply orb_true_r). simpl.
      destruct (last_pos h l) as [j|] eqn:E; [f_equal; lia|].
      apply last_pos_none in E. congruence. }
    destruct (last_pos (hash x) l) as [j|] eqn:E.
    - rewrite Hx. replace (Nat.eqb i (i + S j)) with false by (symmetry; apply Nat.eqb_neq; lia).
      assert (Ex : existsb (fun y => N.eqb (hash y) (hash x)) l = true).
      { destruct (existsb (fun y => N.eqb (hash y) (hash x)) l) eqn:Ex; [reflexivity|].
        apply last_pos_none in Ex. congruence. }
      rewrite Ex. exact IH'.
    - rewrite Hx. rewrite Nat.add_0_r, Nat.eqb_refl.
      apply last_pos_none in E. rewrite E. f_equal. exact IH'.
  Qed.

  Theorem del_dup_tx_is_spec (txs : list T) : del_dup_tx hash txs = keep_last hash txs.
  Proof.
    unfold del_dup_tx. destruct (ddt_scan hash 0 txs [] false) as [idx dup] eqn:E.
    destruct dup.
    - apply ddt_keep_spec. intros h _. rewrite (ddt_scan_last _ _ _ _ _ _ E h). simpl.
      destruct (last_pos h txs); reflexivity.
    - symmetry. apply keep_last_nodup.
      destruct (ddt_scan_nodup _ _ _ _ _ _ E eq_refl) as [_ [Hnd _]]. exact Hnd.
  Qed.
End DupTx.

Lemma flat_map_ext_in' {A B} (f g : A -> list B) l :
  (forall a, In a l -> f a = g a) -> flat_map f l = flat_map g l.
Proof.
  induction l as [|a l IH]; intro H; simpl; [reflexivity|].
  rewrite (H a) by (left; reflexivity). rewrite IH; [reflexivity|].
  intros b Hb. apply H. right. exact Hb.
Qed.

(** ** TransactionSort computes the stable grouping by title *)
Section TxSortSpec.
  Context {T : Type}.
  Variable execer : T -> bytes.
  Notation title := (fun tx => title_of (execer tx)).

  Lemma sinsert0_eq x l : sinsert0 x l = sinsert x l.
  Proof. induction l as [|y l IH]; simpl; [reflexivity|]. rewrite IH. reflexivity. Qed.

  Lemma sort0_eq l : fold_right sinsert0 [] l = sort_strings l.
  Proof. induction l as [|x l IH]; simpl; [reflexivity|]. rewrite IH. apply sinsert0_eq. Qed.

  Lemma group_add_keys t x (m : list (bytes * list T)) :
    map fst (group_add t x m) = add_key (map fst m) t.
  Proof.
    unfold add_key. induction m as [|[t' xs] m IH]; simpl; [reflexivity|]. unfold bytes in *.
    destruct (beqb t t') eqn:E; simpl; [reflexivity|].
    rewrite IH. destruct (existsb (beqb t) (map fst m)); reflexivity.
  Qed.

  Lemma group_add_get t t' x (m : list (bytes * list T)) :
    group_get t (group_add t' x m) = if beqb t t' then group_get t m ++ [x] else group_get t m.
  Proof.
    induction m as [|[t'' xs] m IH]; simpl.
    - destruct (beqb t t'); reflexivity.
    - unfold bytes in *. destruct (beqb t' t'') eqn:E1; simpl; unfold bytes in *.
      + apply beqb_eq in E1. subst t''. destruct (beqb t t'); reflexivity.
      + destruct (beqb t t'') eqn:E2.
        * destruct (beqb t t') eqn:E3; [|reflexivity].
          apply beqb_eq in E2, E3. subst. rewrite beqb_refl in E1. discriminate.
        * exact IH.
  Qed.

  Lemma group_from_get t txs : forall m,
    group_get t (group_from execer m txs) = group_get t m ++ filter (fun tx => beqb t (title tx)) txs.
  Proof.
    unfold group_from. induction txs as [|x txs IH]; intro m; simpl.
    - rewrite app_nil_r. reflexivity.
    - rewrite IH, group_add_get. unfold bytes in *.
      destruct (beqb t (title_of (execer x))); [rewrite <- app_assoc|]; reflexivity.
  Qed.

  Lemma group_from_keys txs :
    map fst (group_from execer [] txs) = uniq (map title txs).
  Proof.
    unfold group_from.
    rewrite (fold_keys (fun m tx => group_add (title tx) tx m) (map fst) title
                       (fun st a => group_add_keys (title a) a st)).
    rewrite add_key_fold. reflexivity.
  Qed.

  Theorem tx_sort_is_spec txs : tx_sort_id execer txs = spec_tx_sort title txs.
  Proof.
    unfold tx_sort_id, tx_sort, spec_tx_sort.
    assert (L : seq 0 (length (group_from execer [] txs))
                = seq 0 (length (map fst (group_from execer [] txs))))
      by (rewrite map_length; reflexivity).
    rewrite L.
    rewrite apply_perm_id, group_from_keys.
    change (fold_right sinsert0 []) with sort_strings.
    apply flat_map_ext. intro t. rewrite group_from_get. reflexivity.
  Qed.

  (** nothing is lost or duplicated *)
  Lemma filter_title_partition (ks : list bytes) : forall (txs : list T),
    NoDup ks -> (forall tx, In tx txs -> In (title tx) ks) ->
    Permutation (flat_map (fun t => filter (fun tx => beqb t (title tx)) txs) ks) txs.
  Proof.
    induction ks as [|k ks IH]; intros txs ND Hall; simpl.
    - destruct txs as [|x txs]; [constructor|]. exfalso. apply (Hall x). left. reflexivity.
    - inversion ND as [|? ? Hnin ND']; subst.
      set (rest := filter (fun tx => negb (beqb k (title tx))) txs).
      assert (P : Permutation (filter (fun tx => beqb k (title tx)) txs ++ rest) txs).
      { subst rest. clear. induction txs as [|x txs IHt]; simpl; [constructor|].
        destruct (beqb k (title_of (execer x))); simpl.
        - constructor. exact IHt.
        - eapply Permutation_trans; [apply Permutation_sym, Permutation_middle|]. constructor. exact IHt. }
      eapply Permutation_trans; [|exact P]. apply Permutation_app_head.
      assert (E : flat_map (fun t => filter (fun tx => beqb t (title tx)) txs) ks
                  = flat_map (fun t => filter (fun tx => beqb t (title tx)) rest) ks).
      { apply flat_map_ext_in'. intros t Ht. subst rest. clear -Ht Hnin.
        induction txs as [|x txs IHt]; simpl; [reflexivity|].
        destruct (beqb k (title_of (execer x))) eqn:Ek; simpl.
        - apply beqb_eq in Ek. destruct (beqb t (title_of (execer x))) eqn:Et; [|exact IHt].
          apply beqb_eq in Et. subst. contradiction.
        - rewrite IHt. reflexivity. }
      rewrite E. apply IH; [exact ND'|].
      intros tx Htx. subst rest. apply filter_In in Htx as [Htx Hne].
      destruct (Hall tx Htx) as [Hk|Hk]; [|exact Hk].
      subst k. rewrite beqb_refl in Hne. discriminate.
  Qed.
End TxSortSpec.

Lemma uniq_from_in l : forall seen k,
  In k (uniq_from seen l) <-> In k l /\ existsb (beqb k) seen = false.
Proof.
  induction l as [|x l IH]; intros seen k; simpl; [tauto|].
  destruct (existsb (beqb x) seen) eqn:E.
  - rewrite IH. split; [intros [H1 H2]; auto|]. intros [[H1|H1] H2]; [subst; congruence|auto].
  - simpl. rewrite IH. simpl. split.
    + intros [H|[H1 H2]]; [subst; auto|]. apply orb_false_iff in H2 as [_ H2]. auto.
    + intros [[H|H] H2]; [left; exact H|].
      destruct (beqb k x) eqn:Ek; [left; apply beqb_eq in Ek; congruence|].
      right. split; [exact H|]. rewrite H2. reflexivity.
Qed.

Lemma uniq_from_nodup l : forall seen, NoDup (uniq_from seen l).
Proof.
  induction l as [|x l IH]; intro seen; simpl; [constructor|].
  destruct (existsb (beqb x) seen); [apply IH|]. constructor; [|apply IH].
  rewrite uniq_from_in. simpl. rewrite beqb_refl. intros [_ H]. discriminate.
Qed.

Theorem tx_sort_permutation {T} (execer : T -> bytes) pi txs :
  is_perm pi (length (group_from execer [] txs)) ->
  Permutation (tx_sort execer pi txs) txs.
Proof.
  intro H. rewrite (tx_sort_independent execer pi txs H), tx_sort_is_spec.
  unfold spec_tx_sort. change (fold_right sinsert0 []) with sort_strings.
  apply filter_title_partition.
  - eapply Permutation_NoDup; [apply Permutation_sym, sort_perm|]. apply uniq_from_nodup.
  - intros tx Htx. eapply Permutation_in; [apply Permutation_sym, sort_perm|].
    apply uniq_from_in. split; [|reflexivity]. apply in_map_iff. exists tx. auto.
Qed.
