(** C13 — property theorems only.

    Every place of the anchored code where an ordered result is built from an
    unordered source takes that order as the parameter [pi] / [sched]; the
    theorems say the result does not depend on it.  Nondeterminism that is not
    one of these combinators (a map iterated inside a dapp, a process-global
    cache) is outside the model and is only covered by the repeated runs of the
    harness: the property is shown partially. *)
From Coq Require Import List ZArith NArith Arith Bool Permutation Sorted.
From C33 Require Import Lib.Bytes C13.Model C13.ModelRoot C13.Spec C13.Proofs C13.Proofs2 C13.ProofsRoot.
Import ListNotations.

(** executor.sortedPluginNames: whatever order the plugin map is iterated in, the
    plugins run in ascending name order. *)
Theorem C13_plugin_order_independent : forall pi keys,
  is_perm pi (length keys) ->
  plugin_names pi keys = sort_strings keys
  /\ StronglySorted le_str (plugin_names pi keys)
  /\ Permutation (plugin_names pi keys) keys.
Proof. exact plugin_names_independent. Qed.
Print Assumptions C13_plugin_order_independent.

Example C13_plugin_order_nonvacuous :
  is_perm [2; 0; 1] 3 /\
  plugin_names [2; 0; 1] [[109]; [97]; [97; 0]]%N = [[97]; [97; 0]; [109]]%N.
Proof. split; [apply is_permb_sound; reflexivity | reflexivity]. Qed.
Print Assumptions C13_plugin_order_nonvacuous.

(** types.TransactionSort: independent of the iteration order of the title map. *)
Theorem C13_tx_sort_order_independent : forall (T : Type) (execer : T -> bytes) pi txs,
  is_perm pi (length (group_from execer [] txs)) ->
  tx_sort execer pi txs = tx_sort_id execer txs.
Proof. exact @tx_sort_independent. Qed.
Print Assumptions C13_tx_sort_order_independent.

(** ... and it is the stable grouping by ascending title, a permutation of the input. *)
Theorem C13_tx_sort_is_stable_grouping : forall (T : Type) (execer : T -> bytes) pi txs,
  is_perm pi (length (group_from execer [] txs)) ->
  tx_sort execer pi txs = spec_tx_sort (fun tx => title_of (execer tx)) txs
  /\ Permutation (tx_sort execer pi txs) txs.
Proof.
  intros T execer pi txs H. split.
  - rewrite (tx_sort_independent execer pi txs H). apply tx_sort_is_spec.
  - apply tx_sort_permutation. exact H.
Qed.
Print Assumptions C13_tx_sort_is_stable_grouping.

Example C13_tx_sort_nonvacuous :
  let ex := fun t : N => nth (N.to_nat t) [[99]; para_key ++ [98; 46; 99]; para_key ++ [97; 46; 99]]%N [] in
  is_perm [1; 2; 0] (length (group_from ex [] [1; 0; 2; 1; 0]%N)) /\
  tx_sort ex [1; 2; 0] [1; 0; 2; 1; 0]%N = [0; 0; 2; 1; 1]%N.
Proof. split; [apply is_permb_sound; reflexivity | reflexivity]. Qed.
Print Assumptions C13_tx_sort_nonvacuous.

(** types.verifyTxsSignature: the verdict does not depend on the order in which
    the workers' results arrive. *)
Theorem C13_verify_schedule_independent : forall pi oks,
  is_perm pi (length oks) -> verify_sigs pi oks = forallb (fun b => b) oks.
Proof. exact verify_sigs_independent. Qed.
Print Assumptions C13_verify_schedule_independent.

(** gather by index (GetMerkleRoot, calcMultiLayerMerkleInfo): the gathered list is
    the list of results in task order, for every completion order. *)
Theorem C13_gather_schedule_independent : forall (A : Type) (res : nat -> A) sched n,
  is_perm sched n -> gather sched res n = map (fun i => Some (res i)) (seq 0 n).
Proof. exact @gather_independent. Qed.
Print Assumptions C13_gather_schedule_independent.

Example C13_gather_nonvacuous :
  is_perm [3; 1; 0; 2] 4 /\
  gather [3; 1; 0; 2] (fun i => i * i) 4 = [Some 0; Some 1; Some 4; Some 9].
Proof. split; [apply is_permb_sound; reflexivity | reflexivity]. Qed.
Print Assumptions C13_gather_nonvacuous.

Theorem C13_merkle_root_schedule_independent :
  forall (H : Type) (sub : list H -> H) (top : list (option H) -> H) sched step hashes,
  is_perm sched (length (chunks_of (length hashes) step hashes)) ->
  par_root sub top sched step hashes =
  top (map (fun c => Some (sub c)) (chunks_of (length hashes) step hashes)).
Proof. exact @par_root_independent. Qed.
Print Assumptions C13_merkle_root_schedule_independent.

(** merkle.GetMerkleRoot as the block's TxHash uses it (CalcMerkleRoot, util.CreateNewBlock,
    the ErrCheckTxHash comparison of util.PreExecBlock): for every CPU count [ncpu]
    (runtime.NumCPU(): it fixes the chunk size, the 256 cap and the padding of the last
    chunk) and every completion order of the chunk goroutines the root is the sequential
    root, hence a function of the hash list alone.  The CPU-count half is C18's
    C18_parallel_eq_sequential, imported. *)
Theorem C13_tx_root_cpu_independent :
  forall (T : Type) (nilT : T) (hash2 : T -> T -> T) (ncpu1 ncpu2 : Z) sched1 sched2 (hashes : list T),
  is_perm sched1 (root_tasks ncpu1 hashes) ->
  is_perm sched2 (root_tasks ncpu2 hashes) ->
  merkle_root_cpu nilT hash2 ncpu1 sched1 hashes = merkle_root_cpu nilT hash2 ncpu2 sched2 hashes
  /\ merkle_root_cpu nilT hash2 ncpu1 sched1 hashes = seq_root nilT hash2 hashes.
Proof. exact @tx_root_cpu_independent. Qed.
Print Assumptions C13_tx_root_cpu_independent.

(** 600 leaves: 1 CPU takes the sequential path, 2 CPUs cut 3 chunks of 256 (cap reached,
    last chunk of 88 padded), 16 CPUs 19 chunks of 32 (last chunk of 24 padded) *)
Example C13_tx_root_nonvacuous :
  let h2 := fun x y : N => ((x * 31 + y * 17 + 1) mod 1000003)%N in
  let hs := map N.of_nat (seq 0 600) in
  (root_tasks 1 hs, root_tasks 2 hs, root_tasks 16 hs) = (0, 3, 19) /\
  is_perm [2; 0; 1] (root_tasks 2 hs) /\ is_perm (rev (seq 0 19)) (root_tasks 16 hs) /\
  merkle_root_cpu 0%N h2 2 [2; 0; 1] hs = merkle_root_cpu 0%N h2 16 (rev (seq 0 19)) hs /\
  merkle_root_cpu 0%N h2 2 [2; 0; 1] hs = seq_root 0%N h2 hs.
Proof.
  cbv zeta. split; [vm_compute; reflexivity|].
  split; [apply is_permb_sound; vm_compute; reflexivity|].
  split; [apply is_permb_sound; vm_compute; reflexivity|].
  split; vm_compute; reflexivity.
Qed.
Print Assumptions C13_tx_root_nonvacuous.

Theorem C13_child_chains_schedule_independent :
  forall (H : Type) (single : nat -> nat -> H) (top : list (option H) -> H) sched execs cs,
  cs = seg_counts (length execs) (segs_from 0 [] execs) ->
  is_perm sched (length cs) ->
  2 <= length cs ->
  multi_layer single top sched execs =
  Some (top (map (fun r => match r with (_, s, c) => Some (single s c) end) cs), rows_of single cs).
Proof. exact @multi_layer_independent. Qed.
Print Assumptions C13_child_chains_schedule_independent.

(** util.DelDupKey: keys in first-seen order, each with its last KeyValue; writing
    the result to a store gives the same store as writing the whole list. *)
Theorem C13_del_dup_key_first_seen_last_value : forall (V : Type) (kvs : list (bytes * V)),
  del_dup_key kvs = spec_del_dup_key kvs
  /\ map fst (del_dup_key kvs) = uniq (map fst kvs)
  /\ forall k, store_get (del_dup_key kvs) k = store_get kvs k.
Proof.
  intros V kvs. split; [apply del_dup_key_is_spec|]. split; [apply del_dup_key_keys|].
  intro k. apply del_dup_key_same_store.
Qed.
Print Assumptions C13_del_dup_key_first_seen_last_value.

Example C13_del_dup_key_nonvacuous :
  del_dup_key [([1], 10); ([2], 20); ([1], 30); ([3], 40); ([2], 50)]%N
  = [([1], 30); ([2], 50); ([3], 40)]%N.
Proof. reflexivity. Qed.
Print Assumptions C13_del_dup_key_nonvacuous.

(** util.DelDupTx: exactly the last occurrence of every hash, order kept. *)
Theorem C13_del_dup_tx_keeps_last : forall (T : Type) (hash : T -> N) (txs : list T),
  del_dup_tx hash txs = keep_last hash txs.
Proof. exact @del_dup_tx_is_spec. Qed.
Print Assumptions C13_del_dup_tx_keeps_last.
