(** C13 — what each combinator has to compute, stated without any order
    parameter (so: a function of the input alone). *)
From Coq Require Import List NArith Arith Bool.
From C33 Require Import Lib.Harness Lib.Bytes.
Import ListNotations.

(** first occurrence of every string, in order of appearance *)
Fixpoint uniq_from (seen : list bytes) (l : list bytes) : list bytes :=
  match l with
  | [] => []
  | k :: tl => if existsb (beqb k) seen then uniq_from seen tl
               else k :: uniq_from (k :: seen) tl
  end.
Definition uniq (l : list bytes) : list bytes := uniq_from [] l.

(** ** DelDupKey: first-seen key order, the last KeyValue of every key *)
Section DupKey.
  Context {V : Type}.

  Definition has_key (k : bytes) (out : list (bytes * V)) : bool :=
    existsb (fun kv => beqb k (fst kv)) out.

  Definition spec_ddk_step (out : list (bytes * V)) (kv : bytes * V) : list (bytes * V) :=
    if has_key (fst kv) out
    then map (fun kv' => if beqb (fst kv) (fst kv') then kv else kv') out
    else out ++ [kv].

  Definition spec_del_dup_key (kvs : list (bytes * V)) : list (bytes * V) :=
    fold_left spec_ddk_step kvs [].

  (** the last KeyValue with key [k] *)
  Fixpoint last_kv (k : bytes) (kvs : list (bytes * V)) (acc : option (bytes * V)) :=
    match kvs with
    | [] => acc
    | kv :: tl => last_kv k tl (if beqb k (fst kv) then Some kv else acc)
    end.

  (** writing a list of KeyValues to a store in order (later writes win) *)
  Definition store_get (kvs : list (bytes * V)) (k : bytes) : option (bytes * V) := last_kv k kvs None.
End DupKey.

(** ** DelDupTx: the last occurrence of every hash, in order *)
Section DupTx.
  Context {T : Type}.
  Variable hash : T -> N.

  Fixpoint keep_last (l : list T) : list T :=
    match l with
    | [] => []
    | x :: tl => if existsb (fun y => N.eqb (hash y) (hash x)) tl then keep_last tl
                 else x :: keep_last tl
    end.
End DupTx.

(** ** sorted strings *)
Fixpoint sorted_strict (l : list bytes) : bool :=
  match l with
  | [] => true
  | x :: tl => match tl with
               | [] => true
               | y :: _ => bltb x y && sorted_strict tl
               end
  end.

(** ** TransactionSort: transactions grouped by title, titles ascending, original
    order inside a title (= stable sort by title) *)
Section TxSort.
  Context {T : Type}.
  Variable title : T -> bytes.

  Fixpoint sinsert0 (x : bytes) (l : list bytes) : list bytes :=
    match l with
    | [] => [x]
    | y :: tl => if bleb x y then x :: l else y :: sinsert0 x tl
    end.

  Definition spec_tx_sort (txs : list T) : list T :=
    flat_map (fun t => filter (fun tx => beqb t (title tx)) txs)
             (fold_right sinsert0 [] (uniq (map title txs))).
End TxSort.

(** ** sortedPluginNames: strictly ascending, the same names *)
Definition spec_plugin_names (keys out : list bytes) : bool :=
  sorted_strict out && (length out =? length keys)
  && forallb (fun k => existsb (beqb k) out) keys.

(** ** repeated runs: every run produced the same digests *)
Definition list_n_eqb := list_eqb N.eqb.

Definition runs_equal (runs : list (list N)) : bool :=
  match runs with
  | [] => false
  | r :: tl => forallb (list_n_eqb r) tl
  end.

(** ** large transaction roots: every run (every CPU count, GOMAXPROCS, process
    history) produced the roots of the sequential reference computation *)
Definition runs_match (ref : list N) (runs : list (list N)) : bool :=
  forallb (list_n_eqb ref) runs.

(** ** child-chain table: contiguous slices covering [0, total) *)
Fixpoint contiguous (from total : nat) (segs : list (nat * nat)) : bool :=
  match segs with
  | [] => Nat.eqb from total
  | (s, c) :: tl => Nat.eqb s from && (0 <? c) && contiguous (s + c) total tl
  end.
