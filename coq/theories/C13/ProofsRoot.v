(** C13 — proofs, part 3: the transaction root does not depend on the CPU count
    nor on the completion order of the chunk goroutines.

    The schedule half is C13's own [par_root_independent]; the CPU-count half is
    C18's [parallel_eq_sequential] (chunked + padded root = sequential root for
    every worker count), imported, not re-proved.  What is proved here is the
    bridge: C13's step-sized slicing [chunks_of] lists exactly C18's [chunk_of]
    slices. *)
From Coq Require Import List ZArith Arith Bool Lia Permutation.
From C33 Require Import C13.Model C13.ModelRoot C13.Proofs.
From C33 Require C18.Model C18.ProofsPar.
Import ListNotations.
Open Scope nat_scope.

Lemma c18_chunk_0 {T} (l : list T) s : C18.Model.chunk_of T l s 0 = firstn s l.
Proof.
  unfold C18.Model.chunk_of. cbn [Nat.mul skipn Nat.add]. rewrite Nat.add_0_r, Nat.sub_0_r.
  destruct (Nat.le_ge_cases s (length l)) as [H|H].
  - rewrite Nat.min_l by assumption. reflexivity.
  - rewrite Nat.min_r by assumption. rewrite !firstn_all2 by lia. reflexivity.
Qed.

Lemma c18_chunk_S {T} (l : list T) s i : s <= length l ->
  C18.Model.chunk_of T l s (S i) = C18.Model.chunk_of T (skipn s l) s i.
Proof.
  intro Hs. unfold C18.Model.chunk_of.
  rewrite skipn_length.
  replace (S i * s) with (s + i * s) by lia.
  rewrite C18.ProofsPar.skipn_add. f_equal. lia.
Qed.

Lemma chunks_are_c18_chunks {T} (s : nat) : 1 <= s ->
  forall cnt fuel (l : list T),
    length l <= fuel -> length l <= cnt * s -> cnt * s < length l + s ->
    chunks_of fuel s l = map (C18.Model.chunk_of T l s) (seq 0 cnt).
Proof.
  intro Hs. induction cnt as [|cnt IH]; intros fuel l Hf H1 H2.
  - assert (l = []) by (destruct l; simpl in *; [reflexivity|lia]). subst l.
    destruct fuel; reflexivity.
  - assert (Hne : l <> []) by (intro E; subst l; simpl in *; lia).
    destruct fuel as [|f]; [destruct l; simpl in *; [congruence|lia]|].
    cbn [seq map]. rewrite <- seq_shift, map_map.
    rewrite c18_chunk_0.
    destruct l as [|x l']; [congruence|]. cbn [chunks_of]. f_equal.
    set (l := x :: l') in *.
    destruct (Nat.le_gt_cases s (length l)) as [Hfull|Hpart].
    + rewrite (map_ext _ (C18.Model.chunk_of T (skipn s l) s))
        by (intro i; apply c18_chunk_S; exact Hfull).
      apply IH; rewrite skipn_length; lia.
    + assert (cnt = 0) by nia. subst cnt. cbn [seq map].
      rewrite skipn_all2 by lia. destruct f; reflexivity.
Qed.

Section TxRoot.
  Context {T : Type}.
  Variable nilT : T.
  Variable hash2 : T -> T -> T.

  Theorem tx_root_eq_sequential (ncpu : Z) sched (hashes : list T) :
    is_perm sched (root_tasks ncpu hashes) ->
    merkle_root_cpu nilT hash2 ncpu sched hashes = seq_root nilT hash2 hashes.
  Proof.
    unfold merkle_root_cpu, root_tasks, root_step.
    destruct (root_sequential_path ncpu hashes) eqn:Hseq; [reflexivity|].
    intro Hp.
    rewrite (par_root_independent _ _ sched _ hashes Hp).
    unfold root_top. rewrite map_map.
    unfold seq_root.
    rewrite <- (C18.ProofsPar.parallel_eq_sequential T nilT hash2 ncpu hashes).
    unfold C18.Model.get_merkle_root_par.
    unfold root_sequential_path in Hseq. rewrite Hseq.
    apply orb_false_iff in Hseq as [Hn Hc].
    apply Z.leb_gt in Hn. apply Z.leb_gt in Hc.
    set (n := Z.of_nat (length hashes)) in *.
    destruct (C18.ProofsPar.par_step_spec n ncpu Hn ltac:(lia)) as (k & Hk & Hstep & Hle).
    rewrite Hstep. rewrite Nat2Z.id.
    assert (Hp2 : 1 <= 2 ^ k) by (apply Nat.neq_0_lt_0, Nat.pow_nonzero; lia).
    set (s := 2 ^ k) in *.
    set (cntZ := (if (n mod Z.of_nat s =? 0)%Z then (n / Z.of_nat s)%Z else (n / Z.of_nat s + 1)%Z)).
    assert (Hcnt : (n <= cntZ * Z.of_nat s < n + Z.of_nat s)%Z /\ (0 <= cntZ)%Z).
    { pose proof (Z.div_mod n (Z.of_nat s) ltac:(lia)) as Hdm.
      pose proof (Z.mod_pos_bound n (Z.of_nat s) ltac:(lia)) as Hmb.
      assert (0 <= n / Z.of_nat s)%Z by (apply Z.div_pos; lia).
      unfold cntZ. destruct (Z.eqb_spec (n mod Z.of_nat s) 0); nia. }
    destruct Hcnt as [Hcnt Hc0].
    f_equal.
    rewrite (chunks_are_c18_chunks s Hp2 (Z.to_nat cntZ) (length hashes) hashes).
    - rewrite map_map. reflexivity.
    - lia.
    - unfold n in Hcnt. nia.
    - unfold n in Hcnt. nia.
  Qed.

  Theorem tx_root_cpu_independent (ncpu1 ncpu2 : Z) sched1 sched2 (hashes : list T) :
    is_perm sched1 (root_tasks ncpu1 hashes) ->
    is_perm sched2 (root_tasks ncpu2 hashes) ->
    merkle_root_cpu nilT hash2 ncpu1 sched1 hashes = merkle_root_cpu nilT hash2 ncpu2 sched2 hashes
    /\ merkle_root_cpu nilT hash2 ncpu1 sched1 hashes = seq_root nilT hash2 hashes.
  Proof.
    intros H1 H2. rewrite (tx_root_eq_sequential ncpu1 sched1 hashes H1),
      (tx_root_eq_sequential ncpu2 sched2 hashes H2). split; reflexivity.
  Qed.
End TxRoot.
