(** C13 — correspondence cases.

    Byte strings are shipped as indices into two fixed alphabets (the harness
    holds a copy; [CDict] compares the copies).  Elements of a list are
    identified by their position.  Every combinator case carries a permutation
    [pi] drawn by the harness: the model is evaluated under the identity order
    and under [pi] and both must equal what the Go code returned. *)
From Coq Require Import List NArith Arith Bool String.
From C33 Require Import Lib.Harness Lib.Bytes C13.Model C13.Spec.
Import ListNotations.

Definition key_dict : list bytes :=
  map bs [""; "a"; "ab"; "b"; "aa"; "B"; "k1"; "k2"; "k10"; "K1";
          "stat"; "mvcc"; "addrindex"; "txindex"; "fee"; "addrfeeindex";
          "mavl-coins-bty-1"; "mavl-coins-bty-2"; "a.b"; "a-b"]%string
  ++ [[0]; [255]; [97; 0]; [97; 255]]%N.

Definition exec_dict : list bytes :=
  map bs ["coins"; "none"; "user.p.a.coins"; "user.p.a.none"; "user.p.b.coins";
          "user.p.ab.none"; "user.p."; "user.p.x"; "user.p..c"; "user.write";
          "user.p.b.user.x"; "user.pa.coins"; "ticket"; "user.p.a."; "user.p.B.none";
          "main"; "user.P.a.none"; "user.p.a"; ""; "user.p.0.token"]%string.

Definition key_of (i : N) : bytes := nth (N.to_nat i) key_dict [1; 2; 3]%N.
Definition exec_of (i : N) : bytes := nth (N.to_nat i) exec_dict [1; 2; 3]%N.

Inductive case :=
| CDict (keys execs : list (list N))
| CDupKey (keys : list N) (out : list N)
    (* key index per position; impl: positions of the KeyValues returned, in order *)
| CDupTx (hs : list N) (out : list N)
    (* hash id per position; impl: positions kept *)
| CTxSort (execs : list N) (pi : list N) (out : list N)
| CPlugins (names : list N) (pi : list N) (out : list N)
    (* distinct key indices registered; impl: indices in the order returned *)
| CVerify (oks : list N) (pi : list N) (out : N)
    (* CheckSign of each transaction alone (1/0); impl: VerifySignature of the list *)
| CMulti (execs : list N) (pi : list N) (chains : list (list N * N * N * N)) (rootok : N)
    (* impl child chains: title, start, count, 1 iff ChildHash = single-layer root of
       txs[start:start+count]; rootok: root = GetMerkleRoot(child hashes) (or the single root) *)
| CRuns (nobs : N) (runs : list (list N))
    (* digests of the observables of one generated block sequence, one list per run *)
| CRoot (n : N) (ncpus : list N) (ref : list N) (runs : list (list N)).
    (* transaction roots of one block of [n] main-chain transactions: [ref] = the roots
       computed by the harness' own sequential pairwise double-SHA-256 (first 63 bits each),
       [runs] = the roots merkle.CalcMerkleRoot / util.CreateNewBlock / GetMerkleRoot /
       CalcMerkleRootCache returned in each worker process, [ncpus] = runtime.NumCPU() there *)

Definition nats (l : list N) : list nat := map N.to_nat l.
Definition restrict (pi : list nat) (k : nat) : list nat := filter (fun i => i <? k) pi.
Definition positions {A} (l : list A) : list N := map N.of_nat (seq 0 (List.length l)).
Definition bools (l : list N) : list bool := map (fun x => negb (N.eqb x 0)) l.
Definition list_b_eqb := list_eqb bytes_eqb.

Definition both (a b : bool) : verdict := mk_verdict a b.

Definition check_case (c : case) : verdict :=
  match c with
  | CDict keys execs =>
      let ok := list_b_eqb keys key_dict && list_b_eqb execs exec_dict in
      both ok ok
  | CDupKey keys out =>
      let kvs := combine (map key_of keys) (positions keys) in
      both (list_n_eqb (map snd (del_dup_key kvs)) out)
           (list_n_eqb (map snd (spec_del_dup_key kvs)) out)
  | CDupTx hs out =>
      let txs := combine hs (positions hs) in
      both (list_n_eqb (map snd (del_dup_tx fst txs)) out)
           (list_n_eqb (map snd (keep_last fst txs)) out)
  | CTxSort execs pi out =>
      let txs := combine execs (positions execs) in
      let ex := fun t : N * N => exec_of (fst t) in
      let k := List.length (group_from ex [] txs) in
      let pi' := restrict (nats pi) k in
      both (is_permb pi' k
            && list_n_eqb (map snd (tx_sort_id ex txs)) out
            && list_n_eqb (map snd (tx_sort ex pi' txs)) out)
           (list_n_eqb (map snd (spec_tx_sort (fun t => title_of (ex t)) txs)) out)
  | CPlugins names pi out =>
      let keys := map key_of names in
      let k := List.length keys in
      let pi' := restrict (nats pi) k in
      let o := map key_of out in
      both (is_permb pi' k
            && list_b_eqb (plugin_names (seq 0 k) keys) o
            && list_b_eqb (plugin_names pi' keys) o)
           (spec_plugin_names keys o)
  | CVerify oks pi out =>
      let k := List.length oks in
      let pi' := restrict (nats pi) k in
      let o := negb (N.eqb out 0) in
      both (is_permb pi' k
            && Bool.eqb (verify_sigs (seq 0 k) (bools oks)) o
            && Bool.eqb (verify_sigs pi' (bools oks)) o)
           (Bool.eqb (forallb (fun b => b) (bools oks)) o)
  | CMulti execs pi chains rootok =>
      let es := map exec_of execs in
      let single := fun s c : nat => (s, c) in
      let top := fun _ : list (option (nat * nat)) => (0, 0) in
      let row_ok (r : bytes * nat * nat * option (nat * nat)) (i : list N * N * N * N) :=
        match r, i with
        | (t, s, c, h), (t', s', c', _) =>
            bytes_eqb t t' && Nat.eqb s (N.to_nat s') && Nat.eqb c (N.to_nat c')
            && match h with Some (hs, hc) => Nat.eqb hs s && Nat.eqb hc c | None => false end
        end in
      let agrees sched :=
        match multi_layer single top sched es with
        | None => match chains with [] => true | _ => false end
        | Some (_, rows) =>
            (List.length rows =? List.length chains)
            && forallb (fun p => row_ok (fst p) (snd p)) (combine rows chains)
        end in
      let k := List.length chains in
      let pi' := restrict (nats pi) k in
      both (is_permb pi' k && agrees (seq 0 k) && agrees pi')
           (negb (N.eqb rootok 0)
            && forallb (fun r => match r with (_, _, _, h) => negb (N.eqb h 0) end) chains
            && match chains with
               | [] => match execs with [] => true | _ => false end
               | _ => contiguous 0 (List.length execs)
                        (map (fun r => match r with (_, s, c, _) => (N.to_nat s, N.to_nat c) end) chains)
               end)
  | CRuns nobs runs =>
      both (negb (N.eqb nobs 0) && (1 <? List.length runs)
            && forallb (fun r => List.length r =? N.to_nat nobs) runs)
           (runs_equal runs)
  | CRoot n ncpus ref runs =>
      both (negb (N.eqb n 0) && (0 <? List.length ref) && (1 <? List.length runs)
            && (List.length ncpus =? List.length runs)
            && forallb (fun r => List.length r =? List.length ref) runs)
           (runs_match ref runs)
  end.
