(** C13 — proofs, part 1: permutations, sorting, the map-iteration and
    schedule combinators. *)
From Coq Require Import List NArith Arith Bool Permutation Sorted Lia.
From C33 Require Import Lib.Harness Lib.Bytes C13.Model C13.Spec.
Import ListNotations.

(** [pi] is an enumeration of the indices below [n] *)
Definition is_perm (pi : list nat) (n : nat) : Prop := Permutation pi (seq 0 n).

Lemma is_perm_id n : is_perm (seq 0 n) n.
Proof. apply Permutation_refl. Qed.

Lemma is_permb_sound pi n : is_permb pi n = true -> is_perm pi n.
Proof.
  unfold is_permb, is_perm. intro H. apply andb_true_iff in H as [Hl Hin].
  apply Nat.eqb_eq in Hl. apply Permutation_sym.
  apply NoDup_Permutation_bis.
  - apply seq_NoDup.
  - rewrite seq_length. lia.
  - intros i Hi. rewrite forallb_forall in Hin. specialize (Hin i Hi).
    apply existsb_exists in Hin as [j [Hj E]]. apply Nat.eqb_eq in E. subst. exact Hj.
Qed.

(** ** apply_perm *)

Definition pick {A} (l : list A) (i : nat) : list A :=
  match nth_error l i with Some x => [x] | None => [] end.

Lemma apply_perm_unfold {A} pi (l : list A) : apply_perm pi l = flat_map (pick l) pi.
Proof. reflexivity. Qed.

Lemma flat_map_perm {A B} (f : A -> list B) l l' :
  Permutation l l' -> Permutation (flat_map f l) (flat_map f l').
Proof.
  induction 1; simpl.
  - constructor.
  - apply Permutation_app_head. assumption.
  - rewrite !app_assoc. apply Permutation_app_tail. apply Permutation_app_comm.
  - eapply Permutation_trans; eassumption.
Qed.

Lemma pick_seq {A} (l : list A) : forall pre, flat_map (pick (pre ++ l)) (seq (length pre) (length l)) = l.
Proof.
  induction l as [|x l IH]; intro pre; simpl.
  - reflexivity.
  - unfold pick at 1. rewrite nth_error_app2 by lia. rewrite Nat.sub_diag. simpl.
    f_equal. specialize (IH (pre ++ [x])). rewrite <- app_assoc in IH. simpl in IH.
    rewrite app_length in IH. simpl in IH. rewrite Nat.add_1_r in IH. exact IH.
Qed.

Lemma apply_perm_id {A} (l : list A) : apply_perm (seq 0 (length l)) l = l.
Proof. exact (pick_seq l []). Qed.

Lemma apply_perm_permutation {A} pi (l : list A) :
  is_perm pi (length l) -> Permutation (apply_perm pi l) l.
Proof.
  intro H. rewrite <- (apply_perm_id l) at 2. apply flat_map_perm. exact H.
Qed.

(** ** sorting *)

Definition le_str (a b : bytes) : Prop := bleb a b = true.

Lemma sinsert_perm x l : Permutation (sinsert x l) (x :: l).
Proof.
  induction l as [|y l IH]; simpl.
  - apply Permutation_refl.
  - destruct (bleb x y).
    + apply Permutation_refl.
    + eapply Permutation_trans; [apply perm_skip; exact IH | apply perm_swap].
Qed.

Lemma sort_perm l : Permutation (sort_strings l) l.
Proof.
  induction l as [|x l IH]; simpl.
  - constructor.
  - eapply Permutation_trans; [apply sinsert_perm | apply perm_skip; exact IH].
Qed.

Lemma sinsert_sorted x l : StronglySorted le_str l -> StronglySorted le_str (sinsert x l).
Proof.
  induction 1 as [|y l Hs IH Hall]; simpl.
  - repeat constructor.
  - destruct (bleb x y) eqn:E.
    + constructor.
      * constructor; assumption.
      * constructor; [exact E|].
        eapply Forall_impl; [|exact Hall]. intros z Hz. unfold le_str in *.
        eapply bleb_trans; eassumption.
    + constructor; [exact IH|].
      assert (Hyx : le_str y x).
      { unfold le_str. destruct (bleb_total x y) as [H|H]; [congruence|exact H]. }
      eapply Permutation_Forall; [apply Permutation_sym; apply sinsert_perm|].
      constructor; assumption.
Qed.

Lemma sort_sorted l : StronglySorted le_str (sort_strings l).
Proof.
  induction l as [|x l IH]; simpl; [constructor | apply sinsert_sorted; exact IH].
Qed.

Lemma sorted_perm_unique l1 : forall l2,
  StronglySorted le_str l1 -> StronglySorted le_str l2 -> Permutation l1 l2 -> l1 = l2.
Proof.
  induction l1 as [|x l1 IH]; intros l2 H1 H2 P.
  - apply Permutation_nil in P. congruence.
  - destruct l2 as [|y l2]; [apply Permutation_sym, Permutation_nil in P; discriminate|].
    inversion H1 as [|? ? S1 F1]; subst. inversion H2 as [|? ? S2 F2]; subst.
    assert (x = y).
    { assert (Hx : In x (y :: l2)) by (eapply Permutation_in; [exact P|left; reflexivity]).
      assert (Hy : In y (x :: l1)) by (eapply Permutation_in; [apply Permutation_sym; exact P|left; reflexivity]).
      destruct Hx as [->|Hx]; [reflexivity|]. destruct Hy as [->|Hy]; [reflexivity|].
      rewrite Forall_forall in F1, F2. apply bleb_antisym; [apply F1; exact Hy | apply F2; exact Hx]. }
    subst y. f_equal. apply IH; try assumption. eapply Permutation_cons_inv; exact P.
Qed.

Lemma sort_perm_invariant l l' : Permutation l l' -> sort_strings l = sort_strings l'.
Proof.
  intro P. apply sorted_perm_unique; try apply sort_sorted.
  eapply Permutation_trans; [apply sort_perm|].
  eapply Permutation_trans; [exact P|]. apply Permutation_sym, sort_perm.
Qed.

(** ** sortedPluginNames *)

Theorem plugin_names_independent pi keys :
  is_perm pi (length keys) ->
  plugin_names pi keys = sort_strings keys
  /\ StronglySorted le_str (plugin_names pi keys)
  /\ Permutation (plugin_names pi keys) keys.
Proof.
  intro H. unfold plugin_names.
  assert (E : sort_strings (apply_perm pi keys) = sort_strings keys)
    by (apply sort_perm_invariant, apply_perm_permutation; exact H).
  split; [exact E|]. split; [apply sort_sorted|].
  rewrite E. apply sort_perm.
Qed.

Corollary plugin_names_any_two pi pi' keys :
  is_perm pi (length keys) -> is_perm pi' (length keys) ->
  plugin_names pi keys = plugin_names pi' keys.
Proof.
  intros H H'. destruct (plugin_names_independent pi keys H) as [E _].
  destruct (plugin_names_independent pi' keys H') as [E' _]. congruence.
Qed.

(** ** TransactionSort: independent of the iteration order of txMap *)

Theorem tx_sort_independent {T} (execer : T -> bytes) pi txs :
  is_perm pi (length (group_from execer [] txs)) ->
  tx_sort execer pi txs = tx_sort_id execer txs.
Proof.
  intro H. unfold tx_sort_id, tx_sort.
  set (m := group_from execer [] txs) in *.
  f_equal. apply sort_perm_invariant.
  assert (L : length (map fst m) = length m) by apply map_length.
  eapply Permutation_trans.
  - apply apply_perm_permutation. rewrite L. exact H.
  - apply Permutation_sym. apply apply_perm_permutation. rewrite L. apply is_perm_id.
Qed.

(** ** verifyTxsSignature: independent of the arrival order of the results *)

Lemma drain_forallb rs : drain rs = forallb (fun b => b) rs.
Proof. induction rs as [|[] rs IH]; simpl; auto. Qed.

Lemma forallb_perm {A} (f : A -> bool) l l' : Permutation l l' -> forallb f l = forallb f l'.
Proof.
  induction 1; simpl; try congruence.
  destruct (f x), (f y); reflexivity.
Qed.

Theorem verify_sigs_independent pi oks :
  is_perm pi (length oks) -> verify_sigs pi oks = forallb (fun b => b) oks.
Proof.
  intro H. unfold verify_sigs. destruct oks as [|o oks]; [reflexivity|].
  rewrite drain_forallb. apply forallb_perm. apply apply_perm_permutation. exact H.
Qed.

(** ** gather by index *)

Lemma set_nth_length {A} i (x : A) l : length (set_nth i x l) = length l.
Proof.
  revert i; induction l as [|y l IH]; intros [|i]; simpl; auto.
Qed.

Lemma nth_error_set_nth {A} i (x : A) l j :
  nth_error (set_nth i x l) j =
  if Nat.eqb i j then (if j <? length l then Some x else None) else nth_error l j.
Proof.
  revert i j; induction l as [|y l IH]; intros i j.
  - destruct i, j; simpl; try reflexivity; destruct (Nat.eqb i j); reflexivity.
  - destruct i as [|i], j as [|j]; simpl; try reflexivity.
    rewrite IH. destruct (Nat.eqb i j); [|reflexivity].
    change (S j <? S (length l)) with (j <? length l). reflexivity.
Qed.

Lemma gather_fold_length {A} (res : nat -> A) sched : forall acc,
  length (fold_left (fun acc i => set_nth i (Some (res i)) acc) sched acc) = length acc.
Proof.
  induction sched as [|i sched IH]; intro acc; simpl; [reflexivity|].
  rewrite IH. apply set_nth_length.
Qed.

Lemma gather_fold_nth {A} (res : nat -> A) sched : forall acc j,
  j < length acc ->
  nth_error (fold_left (fun acc i => set_nth i (Some (res i)) acc) sched acc) j =
  if existsb (Nat.eqb j) sched then Some (Some (res j)) else nth_error acc j.
Proof.
  induction sched as [|i sched IH]; intros acc j Hj; simpl; [reflexivity|].
  rewrite IH by (rewrite set_nth_length; exact Hj).
  rewrite nth_error_set_nth.
  destruct (existsb (Nat.eqb j) sched) eqn:Ex.
  - rewrite orb_true_r. reflexivity.
  - rewrite orb_false_r. rewrite (Nat.eqb_sym j i).
    destruct (Nat.eqb i j) eqn:E; [|reflexivity].
    apply Nat.eqb_eq in E. subst i.
    apply Nat.ltb_lt in Hj. rewrite Hj. reflexivity.
Qed.

Lemma nth_error_ext {A} (l l' : list A) :
  (forall j, nth_error l j = nth_error l' j) -> l = l'.
Proof.
  revert l'; induction l as [|x l IH]; intros [|y l'] H; try reflexivity;
    try (specialize (H 0); simpl in H; discriminate).
  pose proof (H 0) as H0. simpl in H0. inversion H0; subst. f_equal.
  apply IH. intro j. exact (H (S j)).
Qed.

Theorem gather_independent {A} (res : nat -> A) sched n :
  is_perm sched n -> gather sched res n = map (fun i => Some (res i)) (seq 0 n).
Proof.
  intro H. unfold gather. apply nth_error_ext. intro j.
  destruct (Nat.lt_ge_cases j n) as [Hj|Hj].
  - rewrite gather_fold_nth by (rewrite repeat_length; exact Hj).
    assert (Hin : In j sched).
    { eapply Permutation_in; [apply Permutation_sym; exact H|]. apply in_seq. lia. }
    assert (Ex : existsb (Nat.eqb j) sched = true).
    { apply existsb_exists. exists j. split; [exact Hin|apply Nat.eqb_refl]. }
    rewrite Ex. rewrite nth_error_map.
    replace (nth_error (seq 0 n) j) with (Some j); [reflexivity|].
    symmetry. rewrite nth_error_nth' with (d := 0) by (rewrite seq_length; exact Hj).
    rewrite seq_nth by exact Hj. reflexivity.
  - assert (L1 : nth_error (fold_left (fun acc i => set_nth i (Some (res i)) acc) sched (repeat None n)) j = None).
    { apply nth_error_None. rewrite gather_fold_length, repeat_length. exact Hj. }
    rewrite L1. symmetry. apply nth_error_None. rewrite map_length, seq_length. exact Hj.
Qed.

Corollary gather_any_two {A} (res : nat -> A) s s' n :
  is_perm s n -> is_perm s' n -> gather s res n = gather s' res n.
Proof. intros H H'. rewrite (gather_independent res s n H), (gather_independent res s' n H'). reflexivity. Qed.

(** GetMerkleRoot's parallel branch *)
Theorem par_root_independent {H} (sub : list H -> H) (top : list (option H) -> H) sched step hashes :
  is_perm sched (length (chunks_of (length hashes) step hashes)) ->
  par_root sub top sched step hashes =
  top (map (fun c => Some (sub c)) (chunks_of (length hashes) step hashes)).
Proof.
  intro Hp. unfold par_root.
  set (cs := chunks_of (length hashes) step hashes) in *.
  rewrite (gather_independent _ sched (length cs) Hp). f_equal.
  apply nth_error_ext. intro j. rewrite !nth_error_map.
  destruct (Nat.lt_ge_cases j (length cs)) as [Hj|Hj].
  - rewrite (nth_error_nth' (seq 0 (length cs)) 0) by (rewrite seq_length; exact Hj).
    rewrite seq_nth by exact Hj. simpl.
    rewrite (nth_error_nth' cs []) by exact Hj. reflexivity.
  - replace (nth_error (seq 0 (length cs)) j) with (@None nat)
      by (symmetry; apply nth_error_None; rewrite seq_length; exact Hj).
    replace (nth_error cs j) with (@None (list H))
      by (symmetry; apply nth_error_None; exact Hj).
    reflexivity.
Qed.

(** calcMultiLayerMerkleInfo *)
Definition rows_of {H} (single : nat -> nat -> H) (cs : list (bytes * nat * nat))
  : list (bytes * nat * nat * option H) :=
  map (fun r => match r with (t, s, c) => (t, s, c, Some (single s c)) end) cs.

Lemma combine_map_self {A B} (f : A -> B) l : combine l (map f l) = map (fun x => (x, f x)) l.
Proof. induction l; simpl; congruence. Qed.

Lemma multi_rows_eq {H} (single : nat -> nat -> H) (cs : list (bytes * nat * nat)) :
  map (fun i => Some match nth_error cs i with
                     | Some (_, s, c) => single s c
                     | None => single 0 0 end) (seq 0 (length cs))
  = map (fun r => match r with (_, s, c) => Some (single s c) end) cs.
Proof.
  apply nth_error_ext. intro j. rewrite !nth_error_map.
  destruct (Nat.lt_ge_cases j (length cs)) as [Hj|Hj].
  - rewrite (nth_error_nth' (seq 0 (length cs)) 0) by (rewrite seq_length; exact Hj).
    rewrite seq_nth by exact Hj. simpl.
    destruct (nth_error cs j) as [[[t s] c]|] eqn:En; [reflexivity|].
    apply nth_error_None in En. lia.
  - replace (nth_error (seq 0 (length cs)) j) with (@None nat)
      by (symmetry; apply nth_error_None; rewrite seq_length; exact Hj).
    replace (nth_error cs j) with (@None (bytes * nat * nat))
      by (symmetry; apply nth_error_None; exact Hj).
    reflexivity.
Qed.

Theorem multi_layer_independent {H} (single : nat -> nat -> H) (top : list (option H) -> H) sched execs cs :
  cs = seg_counts (length execs) (segs_from 0 [] execs) ->
  is_perm sched (length cs) ->
  2 <= length cs ->
  multi_layer single top sched execs =
  Some (top (map (fun r => match r with (_, s, c) => Some (single s c) end) cs), rows_of single cs).
Proof.
  intros Ecs Hp H2.
  assert (G : gather sched (fun i => match nth_error cs i with
                                     | Some (_, s, c) => single s c
                                     | None => single 0 0 end) (length cs)
              = map (fun r => match r with (_, s, c) => Some (single s c) end) cs).
  { rewrite (gather_independent _ sched (length cs) Hp). apply multi_rows_eq. }
  assert (R : combine cs (map (fun r => match r with (_, s, c) => Some (single s c) end) cs)
              = rows_of single cs).
  { unfold rows_of. rewrite combine_map_self. apply map_ext. intros [[t s] c]. reflexivity. }
  unfold multi_layer. rewrite <- Ecs.
  destruct execs as [|e execs].
  - simpl in Ecs. subst cs. simpl in H2. lia.
  - destruct cs as [|[[t1 s1] c1] [|r2 rest]]; [simpl in H2; lia | simpl in H2; lia |].
    rewrite G, R. reflexivity.
Qed.
