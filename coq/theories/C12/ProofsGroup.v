(** C12 — proofs about the state db and transaction groups (ModelGroup.v). *)
From Coq Require Import String.
From Coq Require Import List NArith Bool Lia PeanoNat.
From C33 Require Import Lib.Harness Lib.Bytes C12.Model C12.Spec C12.Proofs C12.ModelGroup.
Import ListNotations.
Open Scope N_scope.

(** * state db: what a run of Sets inside a memory transaction leaves *)
Lemma sdb_sets_intx s kvs :
  intx s = true ->
  sdb_sets s kvs = mk_sdb (cache s) (rev kvs ++ txcache s) (keys s ++ map fst kvs) true.
Proof.
  revert s. induction kvs as [|[k v] tl IH]; intros s H.
  - simpl. rewrite app_nil_r. destruct s as [c t ks i]. simpl in *. subst. reflexivity.
  - unfold sdb_sets. simpl. fold (sdb_sets (sdb_set s k v) tl).
    assert (sdb_set s k v = mk_sdb (cache s) ((k, v) :: txcache s) (keys s ++ [k]) true) as E.
    { unfold sdb_set. rewrite H. reflexivity. }
    rewrite E. rewrite IH by reflexivity. simpl.
    rewrite <- !app_assoc. reflexivity.
Qed.

Lemma sdb_sets_outside s kvs :
  intx s = false ->
  sdb_sets s kvs = mk_sdb (rev kvs ++ cache s) (txcache s) (keys s) false.
Proof.
  revert s. induction kvs as [|[k v] tl IH]; intros s H.
  - simpl. destruct s as [c t ks i]. simpl in *. subst. reflexivity.
  - unfold sdb_sets. simpl. fold (sdb_sets (sdb_set s k v) tl).
    assert (sdb_set s k v = mk_sdb ((k, v) :: cache s) (txcache s) (keys s) false) as E.
    { unfold sdb_set. rewrite H. reflexivity. }
    rewrite E. rewrite IH by reflexivity. simpl.
    rewrite <- !app_assoc. reflexivity.
Qed.

(** after StartTx, GetSetKeys is exactly the keys Set since — whatever txcache holds *)
Lemma keys_after_start_tx s kvs :
  intx s = true -> keys (sdb_sets (sdb_start_tx s) kvs) = map fst kvs.
Proof.
  intro H. rewrite sdb_sets_intx by exact H. reflexivity.
Qed.

Section GroupProofs.
  Variable title : list N.
  Variable fork_exec_key : bool.
  Variable exec_addr : list N -> list N.
  Variable registered : list N -> bool.
  Variable friend : list N -> list N -> list N -> list N -> bool.

  Let one := g_exec_tx_one title fork_exec_key exec_addr registered friend.
  Let rest := group_rest title fork_exec_key exec_addr registered friend.
  Let group := exec_tx_group title fork_exec_key exec_addr registered friend.
  Let eff := effective title registered.

  (** the member's own driver runs (not the none driver) *)
  Definition own_driver_runs (m : member) : Prop :=
    bytes_eqb (driver_for title registered (m_exec m)) b_none = false.

  (** the member's Exec Sets a state key that its receipt does not report *)
  Definition unreported_write (m : member) : Prop :=
    exists k, In k (map fst (m_direct m)) /\ ~ In k (reported (m_res m)).

  Lemma effective_own m : own_driver_runs m -> eff m = m.
  Proof. unfold own_driver_runs, eff, effective. intros ->. reflexivity. Qed.

  (** execTxOne never leaves the memory transaction and never touches the block cache *)
  Lemma one_keeps_tx s fl m :
    intx s = true ->
    intx (fst (one s fl m)) = true /\ cache (fst (one s fl m)) = cache s.
  Proof.
    intro H. unfold one, g_exec_tx_one.
    set (m' := effective title registered m).
    assert (intx (sdb_start_tx s) = true) as H0 by exact H.
    pose proof (sdb_sets_intx (sdb_start_tx s) (m_direct m') H0) as E.
    set (s1 := sdb_sets (sdb_start_tx s) (m_direct m')) in *.
    assert (intx s1 = true /\ cache s1 = cache s) as [I1 C1] by (rewrite E; split; reflexivity).
    assert (forall kvs, intx (sdb_sets s1 kvs) = true /\ cache (sdb_sets s1 kvs) = cache s) as S.
    { intro kvs. rewrite (sdb_sets_intx s1 kvs I1). simpl. split; [reflexivity|exact C1]. }
    destruct (m_res m') as [| |ty kvs]; simpl.
    - split; assumption.
    - destruct (check_kv (keys s1) []); [|split; assumption].
      simpl. apply S.
    - destruct (check_kv (keys s1) (map fst kvs)); [|split; assumption].
      destruct (check_key_allow _ _ _ _ _ _ _); [|split; assumption].
      simpl. apply S.
  Qed.

  (** the heart of the check: an unreported write makes execTxOne fail, whatever earlier
      members of the same memory transaction wrote *)
  Lemma one_refuses_unreported s fl m :
    intx s = true -> own_driver_runs m -> unreported_write m ->
    snd (one s fl m) = None.
  Proof.
    intros H O [k [Hk Nk]]. unfold one, g_exec_tx_one.
    fold eff. rewrite (effective_own m O).
    rewrite (keys_after_start_tx s (m_direct m) H).
    assert (check_kv (map fst (m_direct m)) (reported (m_res m)) = false) as C.
    { destruct (check_kv _ _) eqn:E; [|reflexivity].
      exfalso. apply Nk. exact (proj1 (check_kv_spec _ _) E k Hk). }
    destruct (m_res m) as [| |ty kvs]; [reflexivity| |]; rewrite C; reflexivity.
  Qed.

  Lemma rest_keeps_tx ms : forall s,
    intx s = true ->
    intx (fst (rest s ms)) = true /\ cache (fst (rest s ms)) = cache s.
  Proof.
    unfold rest. induction ms as [|m tl IH]; intros s H; simpl.
    - split; [exact H|reflexivity].
    - destruct (one_keeps_tx s (ty_exec_pack, []) m H) as [I1 C1].
      unfold one in I1, C1.
      destruct (g_exec_tx_one title fork_exec_key exec_addr registered friend s (ty_exec_pack, []) m)
        as [s1 [r|]] eqn:E1; simpl in I1, C1.
      + destruct (IH s1 I1) as [I2 C2].
        destruct (group_rest title fork_exec_key exec_addr registered friend s1 tl) as [s2 [rs|]];
          simpl in *; split; congruence.
      + simpl. split; assumption.
  Qed.

  Lemma rest_refuses_unreported pre : forall s m post,
    intx s = true -> own_driver_runs m -> unreported_write m ->
    snd (rest s (pre ++ m :: post)) = None.
  Proof.
    unfold rest. induction pre as [|p pre IH]; intros s m post H O U; simpl.
    - pose proof (one_refuses_unreported s (ty_exec_pack, []) m H O U) as R. unfold one in R.
      destruct (g_exec_tx_one title fork_exec_key exec_addr registered friend s (ty_exec_pack, []) m)
        as [s1 [r|]]; simpl in R; [discriminate|reflexivity].
    - destruct (one_keeps_tx s (ty_exec_pack, []) p H) as [I1 _]. unfold one in I1.
      destruct (g_exec_tx_one title fork_exec_key exec_addr registered friend s (ty_exec_pack, []) p)
        as [s1 [r|]]; simpl in I1; [|reflexivity].
      pose proof (IH s1 m post I1 O U) as R.
      destruct (group_rest title fork_exec_key exec_addr registered friend s1 (pre ++ m :: post))
        as [s2 [rs|]]; simpl in R; [discriminate|reflexivity].
  Qed.

  (** the state db a failed group leaves: the fee KVs on top of the old block cache, nothing
      pending *)
  Definition fee_only (s : sdb) (feekv : list kvp) : sdb :=
    mk_sdb (rev feekv ++ cache s) [] [] false.

  Lemma begin_after_fee s feekv :
    intx s = false ->
    intx (sdb_begin (sdb_sets s feekv)) = true
    /\ cache (sdb_begin (sdb_sets s feekv)) = rev feekv ++ cache s.
  Proof.
    intro H. rewrite (sdb_sets_outside s feekv H). split; reflexivity.
  Qed.

  (** every failed group: ExecPack receipts, only the fee KV reported, only the fee KV kept *)
  Lemma group_failure s feekv ms s' rs :
    intx s = false -> ms <> [] ->
    group s feekv ms = (s', false, rs) ->
    rs = failed_group feekv ms /\ s' = fee_only s feekv.
  Proof.
    intros H NE. unfold group, exec_tx_group.
    destruct ms as [|m0 tl]; [congruence|].
    destruct (begin_after_fee s feekv H) as [I0 C0].
    set (s0 := sdb_begin (sdb_sets s feekv)) in *. clearbody s0.
    destruct (one_keeps_tx s0 (ty_exec_pack, feekv) m0 I0) as [I1 C1]. unfold one in I1, C1.
    destruct (g_exec_tx_one title fork_exec_key exec_addr registered friend s0 (ty_exec_pack, feekv) m0)
      as [s1 [r0|]]; simpl in I1, C1.
    - destruct (rest_keeps_tx tl s1 I1) as [I2 C2]. unfold rest in I2, C2.
      destruct (group_rest title fork_exec_key exec_addr registered friend s1 tl) as [s2 [rs2|]];
        simpl in I2, C2; intro E; [discriminate E|].
      injection E as E1 E2. subst s' rs.
      split; [reflexivity|]. unfold sdb_rollback, fee_only. rewrite C2, C1, C0. reflexivity.
    - intro E. injection E as E1 E2. subst s' rs.
      split; [reflexivity|]. unfold sdb_rollback, fee_only. rewrite C1, C0. reflexivity.
  Qed.

  (** C12 for groups: a member that writes a key it does not report is refused, and with it
      the whole group, regardless of what the members before it wrote or reported *)
  Lemma group_unreported_write_refused s feekv pre m post :
    intx s = false -> own_driver_runs m -> unreported_write m ->
    group s feekv (pre ++ m :: post)
    = (fee_only s feekv, false, failed_group feekv (pre ++ m :: post)).
  Proof.
    intros H O U.
    assert (exists s', group s feekv (pre ++ m :: post) = (s', false, failed_group feekv (pre ++ m :: post))) as [s' E].
    { unfold group, exec_tx_group.
      destruct (begin_after_fee s feekv H) as [I0 _].
      set (s0 := sdb_begin (sdb_sets s feekv)) in *.
      destruct pre as [|p pre]; simpl.
      - pose proof (one_refuses_unreported s0 (ty_exec_pack, feekv) m I0 O U) as R. unfold one in R.
        destruct (g_exec_tx_one title fork_exec_key exec_addr registered friend s0 (ty_exec_pack, feekv) m)
          as [s1 [r|]]; simpl in R; [discriminate|]. eexists. reflexivity.
      - destruct (one_keeps_tx s0 (ty_exec_pack, feekv) p I0) as [I1 _]. unfold one in I1.
        destruct (g_exec_tx_one title fork_exec_key exec_addr registered friend s0 (ty_exec_pack, feekv) p)
          as [s1 [r|]]; simpl in I1; [|eexists; reflexivity].
        pose proof (rest_refuses_unreported pre s1 m post I1 O U) as R. unfold rest in R.
        destruct (group_rest title fork_exec_key exec_addr registered friend s1 (pre ++ m :: post))
          as [s2 [rs|]]; simpl in R; [discriminate|]. eexists. reflexivity. }
    rewrite E. apply group_failure in E; [|exact H|destruct pre; discriminate].
    destruct E as [_ ->]. reflexivity.
  Qed.

  (** what later transactions of the block read afterwards *)
  Lemma fee_only_get s feekv k :
    sdb_get (fee_only s feekv) k = st_get (st_set (cache s) feekv) k.
  Proof. reflexivity. Qed.
End GroupProofs.

Lemma group_failure_state title fork exec_addr registered friend s feekv ms s' rs :
  intx s = false -> ms <> [] ->
  exec_tx_group title fork exec_addr registered friend s feekv ms = (s', false, rs) ->
  rs = failed_group feekv ms /\ s' = fee_only s feekv
  /\ forall k, sdb_get s' k = st_get (st_set (cache s) feekv) k.
Proof.
  intros H NE E.
  destruct (group_failure title fork exec_addr registered friend s feekv ms s' rs H NE E) as [-> ->].
  repeat split.
Qed.

(** the same for a single transaction run on the state db *)
Lemma single_unreported_write_refused title fork exec_addr registered friend allow_list s feekv m :
  intx s = false -> own_driver_runs title registered m -> unreported_write m ->
  exec_tx_sdb title fork exec_addr registered friend allow_list s feekv m
  = (if is_allow_exec_name allow_list (real_exec_of title registered (m_exec m)) (m_exec m)
     then (fee_only s feekv, false, (ty_exec_pack, feekv)) else (s, false, (0, []))).
Proof.
  intros H O U. unfold exec_tx_sdb.
  destruct (is_allow_exec_name _ _ _); [|reflexivity].
  destruct (begin_after_fee s feekv H) as [I0 C0].
  set (s0 := sdb_begin (sdb_sets s feekv)) in *. clearbody s0.
  pose proof (one_refuses_unreported title fork exec_addr registered friend s0 (ty_exec_pack, feekv) m I0 O U) as R.
  destruct (one_keeps_tx title fork exec_addr registered friend s0 (ty_exec_pack, feekv) m I0) as [_ C1].
  destruct (g_exec_tx_one title fork exec_addr registered friend s0 (ty_exec_pack, feekv) m) as [s1 [r|]];
    cbn [fst snd] in R, C1; [discriminate|].
  unfold sdb_rollback, fee_only. rewrite C1, C0. reflexivity.
Qed.

(** * Examples (non-vacuity): two registered drivers, the second member of a group Sets the key
    the first one reported *)
Definition exg_reg (n : list N) : bool := bytes_eqb n (bs "token") || bytes_eqb n (bs "coinsx").
Definition exg_fee : list kvp := [(bs "mavl-coins-bty-payer", bs "99")].
Definition exg_owner : member :=
  Member (bs "token") [] (GR_ok 2 [(bs "mavl-token-a", bs "good")]).
Definition exg_sly : member :=
  Member (bs "coinsx") [(bs "mavl-token-a", bs "evil")] (GR_ok 2 [(bs "mavl-coinsx-b", bs "x")]).
Definition exg_loud : member :=
  Member (bs "coinsx") [(bs "mavl-token-a", bs "evil")]
         (GR_ok 2 [(bs "mavl-token-a", bs "evil"); (bs "mavl-coinsx-b", bs "x")]).
Definition exg_honest : member :=
  Member (bs "coinsx") [(bs "mavl-coinsx-b", bs "d")] (GR_ok 2 [(bs "mavl-coinsx-b", bs "x")]).
Definition exg_start : sdb := mk_sdb [(bs "mavl-token-a", bs "old")] [] [] false.

Example ex_group_hypotheses :
  intx exg_start = false
  /\ own_driver_runs (bs "local") exg_reg exg_sly
  /\ unreported_write exg_sly.
Proof.
  split; [reflexivity|]. split; [vm_compute; reflexivity|].
  exists (bs "mavl-token-a"). split; [left; reflexivity|].
  vm_compute. intros [F|[]]. discriminate F.
Qed.

Example ex_group_sly_refused :
  exec_tx_group (bs "local") true no_addr exg_reg no_friend exg_start exg_fee
                [exg_owner; exg_sly; exg_honest]
  = (fee_only exg_start exg_fee, false,
     [(1, exg_fee); (1, []); (1, [])])
  /\ sdb_get (fee_only exg_start exg_fee) (bs "mavl-token-a") = Some (bs "old").
Proof. vm_compute. split; reflexivity. Qed.

(** the honest group is accepted; a member that reports the foreign key is refused by the
    write rule (no friend), and accepted when the owner's driver approves *)
Example ex_group_honest_accepted :
  let '(s', ok, rs) := exec_tx_group (bs "local") true no_addr exg_reg no_friend exg_start exg_fee
                                     [exg_owner; exg_honest] in
  ok = true
  /\ rs = [(2, exg_fee ++ [(bs "mavl-token-a", bs "good")]); (2, [(bs "mavl-coinsx-b", bs "x")])]
  /\ sdb_get s' (bs "mavl-token-a") = Some (bs "good")
  /\ sdb_get s' (bs "mavl-coinsx-b") = Some (bs "x").
Proof. vm_compute. repeat split; reflexivity. Qed.

Example ex_group_loud :
  snd (fst (exec_tx_group (bs "local") true no_addr exg_reg no_friend exg_start exg_fee
                          [exg_owner; exg_loud])) = false
  /\ (let '(s', ok, rs) := exec_tx_group (bs "local") true no_addr exg_reg
                             (fun drv _ _ _ => bytes_eqb drv (bs "token")) exg_start exg_fee
                             [exg_owner; exg_loud] in
      ok = true /\ sdb_get s' (bs "mavl-token-a") = Some (bs "evil")).
Proof. vm_compute. repeat split; reflexivity. Qed.
