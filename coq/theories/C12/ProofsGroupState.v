(** C12 — accepted groups: every member reported all it wrote, every reported key is allowed,
    and what later transactions read is exactly what the receipts report. *)
From Coq Require Import String.
From Coq Require Import List NArith Bool Lia PeanoNat.
From C33 Require Import Lib.Harness Lib.Bytes C12.Model C12.Spec C12.Proofs C12.ModelGroup C12.ProofsGroup.
Import ListNotations.
Open Scope N_scope.

(** * lookups in binding lists *)
Lemma st_get_app a b k :
  st_get (a ++ b) k = match st_get a k with Some v => Some v | None => st_get b k end.
Proof.
  induction a as [|[k' v] a IH]; simpl; [reflexivity|].
  destruct (bytes_eqb k' k); [reflexivity|exact IH].
Qed.

Lemma st_get_none a k : ~ In k (map fst a) -> st_get a k = None.
Proof.
  induction a as [|[k' v] a IH]; simpl; intro H; [reflexivity|].
  destruct (bytes_eqb k' k) eqn:E.
  - apply bytes_eqb_eq in E. exfalso. apply H. left. exact E.
  - apply IH. intro F. apply H. right. exact F.
Qed.

Lemma st_get_some_in a k v : st_get a k = Some v -> In k (map fst a).
Proof.
  induction a as [|[k' v'] a IH]; simpl; [discriminate|].
  destruct (bytes_eqb k' k) eqn:E.
  - intros _. left. apply bytes_eqb_eq. exact E.
  - intro H. right. exact (IH H).
Qed.

(** bindings whose keys all occur in front of them are never seen *)
Lemma st_get_shadow a b c k :
  (forall x, In x (map fst b) -> In x (map fst a)) ->
  st_get (a ++ b ++ c) k = st_get (a ++ c) k.
Proof.
  intro H. rewrite !st_get_app.
  destruct (st_get a k) as [v|] eqn:A; [reflexivity|].
  destruct (st_get b k) as [v|] eqn:B; [|reflexivity].
  exfalso. apply st_get_some_in in B. apply H in B.
  destruct (in_dec (list_eq_dec N.eq_dec) k (map fst a)) as [I|NI]; [|contradiction].
  clear -A I. induction a as [|[k' v'] a IH]; simpl in *; [contradiction|].
  destruct (bytes_eqb k' k) eqn:E; [discriminate|].
  destruct I as [I|I]; [|exact (IH A I)].
  subst k'. rewrite bytes_eqb_refl in E. discriminate.
Qed.

Lemma st_get_prefix p a b k :
  (forall x, st_get a x = st_get b x) -> st_get (p ++ a) k = st_get (p ++ b) k.
Proof. intro H. rewrite !st_get_app, H. reflexivity. Qed.

Lemma map_fst_rev (l : list kvp) x : In x (map fst (rev l)) <-> In x (map fst l).
Proof. rewrite map_rev, <- in_rev. reflexivity. Qed.

Section GroupState.
  Variable title : list N.
  Variable fork_exec_key : bool.
  Variable exec_addr : list N -> list N.
  Variable registered : list N -> bool.
  Variable friend : list N -> list N -> list N -> list N -> bool.

  Let eff := effective title registered.

  (** the member (as it really ran) reported every key it Set, and every reported key passes
      the write rule *)
  Definition clean (m : member) : Prop :=
    m_res (eff m) <> GR_err
    /\ (forall k, In k (map fst (m_direct (eff m))) -> In k (reported (m_res (eff m))))
    /\ (forall k, In k (reported (m_res (eff m))) ->
          allowed_key title exec_addr registered friend
            (real_exec_of title registered (m_exec (eff m))) (m_exec (eff m)) k
          \/ (fork_exec_key = false /\ legacy_exception title (m_exec (eff m)) k)).

  (** the receipt of an accepted member, given the receipt it started from *)
  Definition rcpt_of (fl : rcpt) (m : member) : rcpt :=
    match m_res (eff m) with
    | GR_ok ty kvs => (ty, snd fl ++ kvs)
    | _ => fl
    end.

  Definition group_receipts (feekv : list kvp) (ms : list member) : list rcpt :=
    match ms with
    | [] => []
    | m0 :: tl => rcpt_of (ty_exec_pack, feekv) m0 :: map (rcpt_of (ty_exec_pack, [])) tl
    end.

  Lemma one_success s fl m s1 r :
    intx s = true ->
    g_exec_tx_one title fork_exec_key exec_addr registered friend s fl m = (s1, Some r) ->
    clean m /\ r = rcpt_of fl m
    /\ intx s1 = true /\ cache s1 = cache s
    /\ txcache s1 = rev (snd r) ++ rev (m_direct (eff m)) ++ txcache s
    /\ (forall x, In x (map fst (m_direct (eff m))) -> In x (map fst (snd r))).
  Proof.
    intros H. unfold g_exec_tx_one, clean, rcpt_of. fold eff.
    set (m' := eff m).
    assert (intx (sdb_start_tx s) = true) as H0 by exact H.
    pose proof (sdb_sets_intx (sdb_start_tx s) (m_direct m') H0) as E1.
    pose proof (keys_after_start_tx s (m_direct m') H) as K1.
    set (s1' := sdb_sets (sdb_start_tx s) (m_direct m')) in *.
    assert (intx s1' = true) as I1 by (rewrite E1; reflexivity).
    assert (cache s1' = cache s) as C1 by (rewrite E1; reflexivity).
    assert (txcache s1' = rev (m_direct m') ++ txcache s) as T1 by (rewrite E1; reflexivity).
    clearbody s1'. rewrite K1.
    destruct (m_res m') as [| |ty kvs] eqn:R; [discriminate| |].
    - cbn [reported].
      destruct (check_kv (map fst (m_direct m')) []) eqn:CK; [|discriminate].
      cbn [check_key_allow forallb]. intro E. injection E as E2 E3. subst s1 r.
      rewrite (sdb_sets_intx s1' (snd fl) I1). cbn [intx cache txcache].
      pose proof (proj1 (check_kv_spec _ _) CK) as CKs.
      repeat split; try congruence.
      + exact CKs.
      + intros k [].
      + intros x Hx. destruct (CKs x Hx).
    - cbn [reported].
      destruct (check_kv (map fst (m_direct m')) (map fst kvs)) eqn:CK; [|discriminate].
      destruct (check_key_allow title fork_exec_key exec_addr registered friend (map fst kvs) (m_exec m'))
        eqn:CA; [|discriminate].
      intro E. injection E as E2 E3. subst s1 r.
      rewrite (sdb_sets_intx s1' _ I1). cbn [intx cache txcache snd].
      pose proof (proj1 (check_kv_spec _ _) CK) as CKs.
      repeat split; try congruence.
      + exact CKs.
      + apply check_key_allow_spec. exact CA.
      + intros x Hx. rewrite map_app, in_app_iff. right. exact (CKs x Hx).
  Qed.

  Lemma rest_success ms : forall s s2 rs,
    intx s = true ->
    group_rest title fork_exec_key exec_addr registered friend s ms = (s2, Some rs) ->
    Forall clean ms /\ rs = map (rcpt_of (ty_exec_pack, [])) ms
    /\ intx s2 = true /\ cache s2 = cache s
    /\ (forall X k, st_get (txcache s2 ++ X) k
                    = st_get (rev (concat (map snd rs)) ++ txcache s ++ X) k).
  Proof.
    induction ms as [|m tl IH]; intros s s2 rs H; simpl.
    - intro E. injection E as <- <-. repeat split; auto.
    - destruct (g_exec_tx_one title fork_exec_key exec_addr registered friend s (ty_exec_pack, []) m)
        as [s1 [r|]] eqn:E1; [|discriminate].
      destruct (one_success _ _ _ _ _ H E1) as [CL [Er [I1 [C1 [T1 SH]]]]].
      destruct (group_rest title fork_exec_key exec_addr registered friend s1 tl) as [s2' [rs'|]] eqn:E2;
        [|discriminate].
      intro E. injection E as <- <-.
      destruct (IH s1 s2' rs' I1 E2) as [F [Ers [I2 [C2 G]]]].
      split; [constructor; assumption|]. split; [congruence|].
      split; [exact I2|]. split; [congruence|].
      intros X k. rewrite G, T1. cbn [map concat]. rewrite rev_app_distr, <- !app_assoc.
      apply st_get_prefix. intro x. apply st_get_shadow.
      intros y Hy. apply map_fst_rev. apply SH. apply map_fst_rev. exact Hy.
  Qed.

  (** an accepted group *)
  Lemma group_success s feekv ms s' rs :
    intx s = false ->
    exec_tx_group title fork_exec_key exec_addr registered friend s feekv ms = (s', true, rs) ->
    Forall clean ms /\ rs = group_receipts feekv ms
    /\ intx s' = false /\ txcache s' = []
    /\ (forall k, sdb_get s' k = st_get (st_set (cache s) (concat (map snd rs))) k).
  Proof.
    intros H. unfold exec_tx_group. destruct ms as [|m0 tl]; [discriminate|].
    destruct (begin_after_fee s feekv H) as [I0 C0].
    assert (txcache (sdb_begin (sdb_sets s feekv)) = []) as T0 by reflexivity.
    set (s0 := sdb_begin (sdb_sets s feekv)) in *. clearbody s0.
    destruct (g_exec_tx_one title fork_exec_key exec_addr registered friend s0 (ty_exec_pack, feekv) m0)
      as [s1 [r0|]] eqn:E1; [|discriminate].
    destruct (one_success _ _ _ _ _ I0 E1) as [CL [Er [I1 [C1 [T1 SH]]]]].
    destruct (group_rest title fork_exec_key exec_addr registered friend s1 tl) as [s2 [rs2|]] eqn:E2;
      [|discriminate].
    destruct (rest_success tl s1 s2 rs2 I1 E2) as [F [Ers [I2 [C2 G]]]].
    intro E. injection E as <- <-.
    split; [constructor; assumption|]. split; [cbn [group_receipts]; congruence|].
    split; [reflexivity|]. split; [reflexivity|].
    intro k. unfold sdb_get, sdb_commit. cbn [intx cache]. unfold st_set.
    rewrite G, T1, T0, C2, C1, C0. cbn [map concat]. rewrite rev_app_distr, app_nil_r, <- !app_assoc.
    apply st_get_prefix. intro x. rewrite (app_assoc (rev (m_direct (eff m0)))).
    apply st_get_shadow.
    intros y Hy. apply map_fst_rev. rewrite map_app, in_app_iff in Hy. destruct Hy as [Hy|Hy].
    - apply SH. apply map_fst_rev. exact Hy.
    - apply (proj1 (map_fst_rev _ _)) in Hy. rewrite Er. unfold rcpt_of.
      destruct (m_res (eff m0)) as [| |ty kvs]; cbn [snd]; try exact Hy.
      rewrite map_app, in_app_iff. left. exact Hy.
  Qed.
End GroupState.
