(** C12 — property theorems only. *)
From Coq Require Import List NArith Bool.
From C33 Require Import Lib.Harness Lib.Bytes C12.Model C12.Spec C12.Proofs.
From C33 Require Import C12.ModelGroup C12.ProofsGroup C12.ProofsGroupState.
Import ListNotations.
Open Scope N_scope.

Theorem C12_write_allowed_implies_spec :
  forall title fork exec_addr registered friend key real txexec,
    is_allow_key_write title fork exec_addr registered friend key real txexec = true ->
    allowed_key title exec_addr registered friend real txexec key
    \/ (fork = false /\ legacy_exception title txexec key).
Proof. exact write_allowed_implies_spec. Qed.
Print Assumptions C12_write_allowed_implies_spec.

Theorem C12_write_allowed_full_refuted : ~ write_allowed_full.
Proof. exact write_allowed_full_refuted. Qed.
Print Assumptions C12_write_allowed_full_refuted.

Theorem C12_write_allowed_implies_spec_partial :
  forall title fork exec_addr registered friend key real txexec,
    fork || negb (legacy_exception_b title txexec key) = true ->
    is_allow_key_write title fork exec_addr registered friend key real txexec = true ->
    allowed_key title exec_addr registered friend real txexec key.
Proof. exact write_allowed_partial. Qed.
Print Assumptions C12_write_allowed_implies_spec_partial.

Theorem C12_key_executor_unique :
  forall key e1 e2, in_namespace e1 key -> in_namespace e2 key -> e1 = e2.
Proof. exact in_namespace_unique. Qed.
Print Assumptions C12_key_executor_unique.

Theorem C12_own_namespace_always_allowed :
  forall title fork exec_addr registered friend key real txexec,
    own_namespace title txexec key ->
    is_allow_key_write title fork exec_addr registered friend key real txexec = true.
Proof. exact own_namespace_allowed. Qed.
Print Assumptions C12_own_namespace_always_allowed.

Theorem C12_success_implies_all_keys_allowed :
  forall title fork exec_addr registered friend feekv r txexec ty kvs,
    exec_tx_one title fork exec_addr registered friend feekv r txexec = (true, ty, kvs) ->
    (r = ER_nil /\ ty = ty_exec_pack /\ kvs = feekv)
    \/ exists kvs0 memset,
         r = ER_ok ty kvs0 memset /\ kvs = feekv ++ kvs0
         /\ (forall k, In k memset -> In k (map fst kvs0))
         /\ (forall k, In k (map fst kvs0) ->
               allowed_key title exec_addr registered friend (real_exec_of title registered txexec) txexec k
               \/ (fork = false /\ legacy_exception title txexec k)).
Proof. exact success_implies_all_keys_allowed. Qed.
Print Assumptions C12_success_implies_all_keys_allowed.

Theorem C12_failure_discards_writes :
  forall title fork exec_addr registered friend feekv r txexec ty kvs,
    exec_tx_one title fork exec_addr registered friend feekv r txexec = (false, ty, kvs) ->
    ty = ty_exec_pack /\ kvs = feekv
    /\ (r = ER_err
        \/ exists ty0 kvs0 memset, r = ER_ok ty0 kvs0 memset
             /\ ((exists k, In k memset /\ ~ In k (map fst kvs0))
                 \/ (exists k, In k (map fst kvs0)
                       /\ is_allow_exec title fork exec_addr registered friend k txexec = false))).
Proof. exact failure_discards_writes. Qed.
Print Assumptions C12_failure_discards_writes.

Theorem C12_refused_tx_state :
  forall title fork exec_addr registered friend allow_list s feekv r txexec s' ty kvs,
    apply_tx title fork exec_addr registered friend allow_list s feekv r txexec
      = (s', (false, ty, kvs)) ->
    (kvs = feekv \/ kvs = []) /\ s' = st_set s kvs.
Proof. exact refused_tx_state. Qed.
Print Assumptions C12_refused_tx_state.

Theorem C12_local_key_shape :
  forall execer key,
    is_allow_local_key execer key = 0 <->
    (local_shape execer key \/ local_shape (get_real_exec_name execer) key).
Proof. intros execer key. split; [apply local_key_shape|apply local_shape_accepted]. Qed.
Print Assumptions C12_local_key_shape.

Theorem C12_exec_local_keys_shape :
  forall execer ks memset,
    exec_local_tx execer (Some ks) memset = 0 ->
    (forall k, In k memset -> In k ks)
    /\ forall k, In k ks -> local_shape execer k \/ local_shape (get_real_exec_name execer) k.
Proof. exact exec_local_tx_shape. Qed.
Print Assumptions C12_exec_local_keys_shape.

(** transaction groups on the state db (ModelGroup.v) *)
Theorem C12_group_unreported_write_refused :
  forall title fork exec_addr registered friend s feekv pre m post,
    intx s = false ->
    own_driver_runs title registered m ->
    unreported_write m ->
    exec_tx_group title fork exec_addr registered friend s feekv (pre ++ m :: post)
    = (fee_only s feekv, false, failed_group feekv (pre ++ m :: post)).
Proof. exact group_unreported_write_refused. Qed.
Print Assumptions C12_group_unreported_write_refused.

Theorem C12_group_failure_keeps_fee_only :
  forall title fork exec_addr registered friend s feekv ms s' rs,
    intx s = false -> ms <> [] ->
    exec_tx_group title fork exec_addr registered friend s feekv ms = (s', false, rs) ->
    rs = failed_group feekv ms /\ s' = fee_only s feekv
    /\ forall k, sdb_get s' k = st_get (st_set (cache s) feekv) k.
Proof. exact group_failure_state. Qed.
Print Assumptions C12_group_failure_keeps_fee_only.

Theorem C12_group_success_reported_allowed_state :
  forall title fork exec_addr registered friend s feekv ms s' rs,
    intx s = false ->
    exec_tx_group title fork exec_addr registered friend s feekv ms = (s', true, rs) ->
    Forall (clean title fork exec_addr registered friend) ms
    /\ rs = group_receipts title registered feekv ms
    /\ intx s' = false /\ txcache s' = []
    /\ (forall k, sdb_get s' k = st_get (st_set (cache s) (concat (map snd rs))) k).
Proof. exact group_success. Qed.
Print Assumptions C12_group_success_reported_allowed_state.

Theorem C12_sdb_tx_unreported_write_refused :
  forall title fork exec_addr registered friend allow_list s feekv m,
    intx s = false -> own_driver_runs title registered m -> unreported_write m ->
    exec_tx_sdb title fork exec_addr registered friend allow_list s feekv m
    = (if is_allow_exec_name allow_list (real_exec_of title registered (m_exec m)) (m_exec m)
       then (fee_only s feekv, false, (ty_exec_pack, feekv)) else (s, false, (0, []))).
Proof. exact single_unreported_write_refused. Qed.
Print Assumptions C12_sdb_tx_unreported_write_refused.
