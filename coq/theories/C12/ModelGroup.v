(** C12 — executable model of the executor's state db and of transaction GROUPS, as coded:
    executor/statedb.go  StateDB: cache (block lifetime), txcache (Begin .. Commit/Rollback
                         lifetime), keys (StartTx lifetime), intx; Begin, StartTx, Set, Get,
                         GetSetKeys, Commit, Rollback  (heights after ForkExecRollback)
    executor/execenv.go  execTxOne on that state db (startTx, the driver's Exec with its direct
                         Sets, checkKV on GetSetKeys, checkKeyAllow, receipt merge, the
                         ForkStateDBSet write-back), execTx (begin / commit / rollback around one
                         transaction), execTxGroup (one begin for all members, per-member
                         execTxOne, rollback of the whole group on the first failing member,
                         receipts[0] reset to the fee receipt after ForkResetTx0, commit)
    The group's checkTxGroup (expiry, fee, header/next hashes, blocked accounts) is taken as
    passed and the fee receipt's KV is an input, as for single transactions.  No proofs here. *)
From Coq Require Import String.
From Coq Require Import List NArith Bool.
From C33 Require Import Lib.Harness Lib.Bytes C12.Model.
Import ListNotations.
Open Scope N_scope.

Definition kvp : Type := (list N * list N)%type.

(** * statedb.go *)
Record sdb := mk_sdb {
  cache : list kvp;          (* newest binding first; the store below it is its oldest part *)
  txcache : list kvp;
  keys : list (list N);      (* s.keys, in Set order *)
  intx : bool }.

Definition sdb_begin (s : sdb) : sdb := mk_sdb (cache s) [] [] true.

Definition sdb_start_tx (s : sdb) : sdb := mk_sdb (cache s) (txcache s) [] (intx s).

Definition sdb_set (s : sdb) (k v : list N) : sdb :=
  if intx s then mk_sdb (cache s) ((k, v) :: txcache s) (keys s ++ [k]) true
  else mk_sdb ((k, v) :: cache s) (txcache s) (keys s) false.

Definition sdb_sets (s : sdb) (kvs : list kvp) : sdb :=
  fold_left (fun a p => sdb_set a (fst p) (snd p)) kvs s.

Definition sdb_get (s : sdb) (k : list N) : option (list N) :=
  if intx s then
    match st_get (txcache s) k with
    | Some v => Some v
    | None => st_get (cache s) k
    end
  else st_get (cache s) k.

(** Commit: cache.Merge(txcache), then resetTx *)
Definition sdb_commit (s : sdb) : sdb := mk_sdb (txcache s ++ cache s) [] [] false.

Definition sdb_rollback (s : sdb) : sdb := mk_sdb (cache s) [] [] false.

(** * a scripted transaction: executor name, the (key, value) pairs its driver Sets in the
    state db while running, then what Exec returns *)
Inductive gres :=
| GR_err                          (* Exec returns an error *)
| GR_nil                          (* nil receipt, nil error *)
| GR_ok (ty : N) (kvs : list kvp).

Inductive member := Member (txexec : list N) (direct : list kvp) (res : gres).

Definition m_exec (m : member) : list N := match m with Member e _ _ => e end.
Definition m_direct (m : member) : list kvp := match m with Member _ d _ => d end.
Definition m_res (m : member) : gres := match m with Member _ _ r => r end.

(** receipt.GetKV() keys *)
Definition reported (r : gres) : list (list N) :=
  match r with GR_ok _ kvs => map fst kvs | _ => [] end.

Definition rcpt : Type := (N * list kvp)%type.      (* receipt type, receipt KV *)

Section Group.
  Variable title : list N.
  Variable fork_exec_key : bool.
  Variable exec_addr : list N -> list N.
  Variable registered : list N -> bool.
  Variable friend : list N -> list N -> list N -> list N -> bool.

  (** the script that really runs: when the none driver answers for the transaction, it Sets
      nothing and returns a nil receipt *)
  Definition effective (m : member) : member :=
    if bytes_eqb (driver_for title registered (m_exec m)) b_none
    then Member (m_exec m) [] GR_nil else m.

  (** execenv.go execTxOne: [None] = an error was returned (the caller rolls back) *)
  Definition g_exec_tx_one (s : sdb) (feelog : rcpt) (m0 : member) : sdb * option rcpt :=
    let m := effective m0 in
    let s1 := sdb_sets (sdb_start_tx s) (m_direct m) in
    match m_res m with
    | GR_err => (s1, None)
    | r =>
        if check_kv (keys s1) (reported r) then
          if check_key_allow title fork_exec_key exec_addr registered friend (reported r) (m_exec m)
          then
            let out : rcpt := match r with
                              | GR_ok ty kvs => (ty, snd feelog ++ kvs)
                              | _ => feelog
                              end in
            (sdb_sets s1 (snd out), Some out)
          else (s1, None)
        else (s1, None)
    end.

  (** execTx for a single transaction on the state db (fee first, outside the memory
      transaction); (state db, accepted, receipt) *)
  Definition exec_tx_sdb (allow_list : list (list N)) (s : sdb) (feekv : list kvp) (m : member)
    : sdb * bool * rcpt :=
    if is_allow_exec_name allow_list (real_exec_of title registered (m_exec m)) (m_exec m) then
      let s0 := sdb_begin (sdb_sets s feekv) in
      match g_exec_tx_one s0 (ty_exec_pack, feekv) m with
      | (s1, Some r) => (sdb_commit s1, true, r)
      | (s1, None) => (sdb_rollback s1, false, (ty_exec_pack, feekv))
      end
    else (s, false, (0, [])).

  (** members 1.. of a group: each starts from an empty ExecPack receipt *)
  Fixpoint group_rest (s : sdb) (ms : list member) : sdb * option (list rcpt) :=
    match ms with
    | [] => (s, Some [])
    | m :: tl =>
        match g_exec_tx_one s (ty_exec_pack, []) m with
        | (s1, Some r) =>
            match group_rest s1 tl with
            | (s2, Some rs) => (s2, Some (r :: rs))
            | (s2, None) => (s2, None)
            end
        | (s1, None) => (s1, None)
        end
    end.

  Definition pack_receipts (n : nat) : list rcpt := repeat (ty_exec_pack, []) n.

  (** what a failed group returns (after ForkResetTx0): the fee receipt, then empty ExecPack *)
  Definition failed_group (feekv : list kvp) (ms : list member) : list rcpt :=
    (ty_exec_pack, feekv) :: pack_receipts (length ms - 1).

  (** execenv.go execTxGroup: (state db, group accepted, receipts) *)
  Definition exec_tx_group (s : sdb) (feekv : list kvp) (ms : list member)
    : sdb * bool * list rcpt :=
    match ms with
    | [] => (s, false, [])
    | m0 :: tl =>
        let s0 := sdb_begin (sdb_sets s feekv) in
        match g_exec_tx_one s0 (ty_exec_pack, feekv) m0 with
        | (s1, Some r0) =>
            match group_rest s1 tl with
            | (s2, Some rs) => (sdb_commit s2, true, r0 :: rs)
            | (s2, None) => (sdb_rollback s2, false, failed_group feekv ms)
            end
        | (s1, None) => (sdb_rollback s1, false, failed_group feekv ms)
        end
    end.

  (** * a block: single transactions and groups in order (executor.go procExecTxList) *)
  Inductive item :=
  | ISingle (feekv : list kvp) (m : member)
  | IGroup (feekv : list kvp) (ms : list member).

  Definition exec_item (allow_list : list (list N)) (s : sdb) (it : item) : sdb * list rcpt :=
    match it with
    | ISingle feekv m =>
        let '(s', _, r) := exec_tx_sdb allow_list s feekv m in (s', [r])
    | IGroup feekv ms =>
        let '(s', _, rs) := exec_tx_group s feekv ms in (s', rs)
    end.

  Fixpoint exec_items (allow_list : list (list N)) (s : sdb) (its : list item)
    : sdb * list (list rcpt) :=
    match its with
    | [] => (s, [])
    | it :: tl =>
        let '(s1, rs) := exec_item allow_list s it in
        let '(s2, rss) := exec_items allow_list s1 tl in
        (s2, rs :: rss)
    end.
End Group.

Definition sdb_empty : sdb := mk_sdb [] [] [] false.
