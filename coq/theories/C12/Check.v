(** C12 — correspondence cases: inputs plus what the Go implementation returned. *)
From Coq Require Import String.
From Coq Require Import List NArith Bool.
From C33 Require Import Lib.Harness Lib.Bytes C12.Spec.
From C33 Require Export C12.Model C12.ModelGroup.
Import ListNotations.
Open Scope N_scope.

Definition kv : Type := (list N * list N)%type.

(** one transaction of an executed list: executor name, fee KVs, what the synthetic
    driver's Exec did, and the receipt (type, KV) the implementation produced *)
Inductive tx_obs := TxObs (txexec : list N) (feekv : list kv) (r : exec_result)
                          (i_ty : N) (i_kv : list kv).

(** one transaction of an added block: executor name, the KV keys its ExecLocal returned
    ([None] = nil list), keys it Set in the local db directly *)
Inductive ltx := LTx (txexec : list N) (keys : option (list (list N))) (memset : list (list N)).

(** one scripted transaction of a block with groups: the script, whether the synthetic
    driver's Exec really ran for it, and the receipt (type, KV) the implementation produced *)
Inductive gm_obs := GmObs (m : member) (ran : bool) (i_ty : N) (i_kv : list kv).

(** a single transaction or a transaction group, with the fee KVs of its (first) receipt *)
Inductive gitem :=
| GI1 (feekv : list kv) (o : gm_obs)
| GIG (feekv : list kv) (os : list gm_obs).

(** per-case table of byte strings: case terms of the harness say [d i] *)
Definition dn (t : list (list N)) (i : N) : list N := nth (N.to_nat i) t [].

Inductive case :=
| CEnv (reg syn allow_direct : list (list N))
    (* the harness environment: registered drivers, the synthetic ones, types.AllowUserExec
       (sorted, without duplicates) for the direct calls and on the test node; must equal
       the env_* constants below that all other cases are evaluated with *)
| CEnvNode (allow_node : list (list N))
| CName (title execer name : list N)
        (i_para i_paraname i_real : list N) (i_allowname : bool)
    (* cfg.GetParaExec, GetParaExecName, GetRealExecName, IsAllowExecName(name, execer) *)
| CKey (key : list N) (i_find : N) (i_execer : list N) (i_execkey : option (list N))
    (* FindExecer (0 ok / 1 not mavl / 2 no execer), GetExecKey *)
| CAllow (title : list N) (fork : bool) (yes : list (list N))
         (key real txexec addr_tx addr_real : list N)
         (i_res : bool) (i_calls : list (list N * list N))
    (* isAllowKeyWrite(e, key, real, tx): reg = registered driver names, syn = the synthetic
       ones (their IsFriend records (driver, self) and answers true iff the driver is in yes) *)
| CAllowExec (title : list N) (fork : bool) (yes : list (list N))
         (key txexec addr_tx addr_real : list N)
         (i_real : list N) (i_res : bool) (i_calls : list (list N * list N))
    (* e.getRealExecName(tx), e.isAllowExec(key, tx) *)
| CLocal (execer key : list N) (i_err : N)
    (* isAllowLocalKey: 0 nil / 1 ErrLocalPrefix / 2 ErrLocalKeyLen *)
| CBlock (title : list N) (fork : bool) (yes : list (list N))
         (addrs : list (list N * list N)) (txs : list tx_obs)
         (probe : list (list N * option (list N)))
    (* EventExecTxList on a test node; probe = state values a last transaction read *)
| CGroupBlock (title : list N) (fork : bool) (yes : list (list N))
         (addrs : list (list N * list N)) (items : list gitem)
         (probe : list (list N * option (list N)))
    (* EventExecTxList with transaction groups on a test node; probe as for CBlock *)
| CLocalBlock (txs : list ltx) (i_res : N) (i_keys : list (list N)).
    (* EventAddBlock: 0 = LocalDBSet reply (keys of the synthetic drivers, in order),
       1 = ErrNotAllowMemSetLocalKey, 2 = ErrExecPanic, 3 = anything else *)

Definition env_reg : list (list N) :=
  Eval compute in map bs ["coins"; "manage"; "none"; "token"; "config"; "coinsx"; "tok"; "vsa"]%string.
Definition env_syn : list (list N) :=
  Eval compute in map bs ["token"; "config"; "coinsx"; "tok"; "vsa"]%string.
Definition env_allow_direct : list (list N) :=
  Eval compute in map bs ["coins"; "manage"; "none"]%string.
Definition env_allow_node : list (list N) :=
  Eval compute in map bs ["coins"; "coinsx"; "config"; "manage"; "none"; "tok"; "token"; "vsa"]%string.

Definition mem (x : list N) (l : list (list N)) : bool := existsb (bytes_eqb x) l.

Fixpoint assoc (x : list N) (l : list (list N * list N)) : list N :=
  match l with
  | [] => []
  | (k, v) :: tl => if bytes_eqb k x then v else assoc x tl
  end.

Definition kv_eqb (a b : kv) : bool := bytes_eqb (fst a) (fst b) && bytes_eqb (snd a) (snd b).
Definition kvs_eqb : list kv -> list kv -> bool := list_eqb kv_eqb.
Definition call_eqb (a b : list N * list N) : bool := kv_eqb a b.

(** friend oracle of the synthetic drivers; real drivers (none, coins, manage, ...) refuse
    the generated transactions *)
Definition friend_tbl (yes : list (list N)) (drv self key txexec : list N) : bool := mem drv yes.

Definition expected_calls (syn : list (list N)) (d : decision) : list (list N * list N) :=
  match d with
  | D_friend drv self _ => if mem drv syn then [(drv, self)] else []
  | _ => []
  end.

(** spec oracle for one accepted key, from the implementation's own observables *)
Definition spec_key_allowed (title : list N) (reg yes : list (list N))
           (exec_addr : list N -> list N) (real txexec key : list N) : bool :=
  in_namespace_b (get_para_exec title txexec) key
  || in_exec_area_b (exec_addr txexec) key
  || match key_owner key with
     | Some o => mem (driver_for title (fun n => mem n reg) o) yes
     | None => false
     end
  || (in_exec_area_b (exec_addr real) key && mem (driver_for title (fun n => mem n reg) real) yes).

Definition kf_legacy (title : list N) (fork : bool) (txexec key : list N) : N :=
  if negb fork && legacy_exception_b title txexec key then 1 else 0.

Definition check_allow (title : list N) (fork : bool) (reg syn yes : list (list N))
           (key real txexec addr_tx addr_real : list N)
           (i_res : bool) (i_calls : list (list N * list N)) : verdict :=
  let exec_addr := fun n => if bytes_eqb n txexec then addr_tx
                            else if bytes_eqb n real then addr_real else [] in
  let d := allow_decision title fork exec_addr (fun n => mem n reg) (friend_tbl yes) key real txexec in
  let m := Bool.eqb (decision_allows d) i_res && list_eqb call_eqb (expected_calls syn d) i_calls in
  let s := if i_res then spec_key_allowed title reg yes exec_addr real txexec key else true in
  (m, s, if s then 0 else kf_legacy title fork txexec key).

(** ---- executed lists ---- *)
Fixpoint run_model (title : list N) (fork : bool) (exec_addr : list N -> list N)
         (reg yes allow_list : list (list N)) (txs : list tx_obs) (s : state) : bool * state :=
  match txs with
  | [] => (true, s)
  | TxObs txexec feekv r i_ty i_kv :: tl =>
      let '(s', (_, ty, kvs)) :=
        apply_tx title fork exec_addr (fun n => mem n reg) (friend_tbl yes) allow_list s feekv r txexec in
      let ok := N.eqb ty i_ty && kvs_eqb kvs i_kv in
      let '(oks, sf) := run_model title fork exec_addr reg yes allow_list tl s' in
      (ok && oks, sf)
  end.

Definition drop_prefix_kv (p l : list kv) : option (list kv) :=
  if kvs_eqb p (firstn (length p) l) then Some (skipn (length p) l) else None.

(** spec side, from the implementation's receipts only: an ExecOk receipt reports every key
    the driver Set and every reported key is allowed; any other receipt carries the fee KVs
    only.  Returns (spec ok, known-finding code of the first failure, state of reported KVs). *)
Fixpoint run_spec (title : list N) (fork : bool) (exec_addr : list N -> list N)
         (reg yes : list (list N)) (txs : list tx_obs) (s : state) : bool * N * state :=
  match txs with
  | [] => (true, 0, s)
  | TxObs txexec feekv r i_ty i_kv :: tl =>
      let real := real_exec_of title (fun n => mem n reg) txexec in
      let memset := match r with ER_ok _ _ ms => ms | _ => [] end in
      let bad_keys :=
        if N.eqb i_ty ty_exec_ok then
          match drop_prefix_kv feekv i_kv with
          | Some own =>
              if forallb (fun k => mem k (map fst own)) memset then
                filter (fun k => negb (spec_key_allowed title reg yes exec_addr real txexec k))
                       (map fst own)
              else [[]]
          | None => [[]]
          end
        else if kvs_eqb i_kv feekv then [] else [[]] in
      match bad_keys with
      | [] => run_spec title fork exec_addr reg yes tl (st_set s i_kv)
      | k :: _ => (false, kf_legacy title fork txexec k, s)
      end
  end.

Definition probe_ok (s : state) (probe : list (list N * option (list N))) : bool :=
  forallb (fun p => option_eqb bytes_eqb (st_get s (fst p)) (snd p)) probe.

(** ---- executed lists with transaction groups ---- *)
Definition gm_member (o : gm_obs) : member := match o with GmObs m _ _ _ => m end.
Definition gm_rcpt (o : gm_obs) : rcpt := match o with GmObs _ _ ty kvs => (ty, kvs) end.

Definition to_item (g : gitem) : item :=
  match g with
  | GI1 fee o => ISingle fee (gm_member o)
  | GIG fee os => IGroup fee (map gm_member os)
  end.

Definition item_rcpts (g : gitem) : list rcpt :=
  match g with
  | GI1 _ o => [gm_rcpt o]
  | GIG _ os => map gm_rcpt os
  end.

Definition rcpt_eqb (a b : rcpt) : bool := N.eqb (fst a) (fst b) && kvs_eqb (snd a) (snd b).

(** spec side for one transaction, from the implementation's receipt only: ExecOk demands that
    every key the driver Set is reported and every reported key is allowed; any other receipt
    carries nothing but the fee part.  Result: keys that break it ([[]] = shape failure). *)
Definition member_bad_keys (title : list N) (reg yes : list (list N))
           (exec_addr : list N -> list N) (fee : list kv) (o : gm_obs) : list (list N) :=
  match o with
  | GmObs m ran i_ty i_kv =>
      let txexec := m_exec m in
      let real := real_exec_of title (fun n => mem n reg) txexec in
      let written := if ran then map fst (m_direct m) else [] in
      if N.eqb i_ty ty_exec_ok then
        match drop_prefix_kv fee i_kv with
        | Some own =>
            if forallb (fun k => mem k (map fst own)) written then
              filter (fun k => negb (spec_key_allowed title reg yes exec_addr real txexec k))
                     (map fst own)
            else [[]]               (* unreported write accepted *)
        | None => [[]]
        end
      else if kvs_eqb i_kv fee then [] else [[]]
  end.

Fixpoint members_spec (title : list N) (fork : bool) (reg yes : list (list N))
         (exec_addr : list N -> list N) (fee : list kv) (os : list gm_obs) (s : state)
  : bool * N * state :=
  match os with
  | [] => (true, 0, s)
  | o :: tl =>
      match member_bad_keys title reg yes exec_addr fee o with
      | [] => members_spec title fork reg yes exec_addr [] tl (st_set s (snd (gm_rcpt o)))
      | k :: _ => (false, kf_legacy title fork (m_exec (gm_member o)) k, s)
      end
  end.

Fixpoint items_spec (title : list N) (fork : bool) (reg yes : list (list N))
         (exec_addr : list N -> list N) (its : list gitem) (s : state) : bool * N * state :=
  match its with
  | [] => (true, 0, s)
  | it :: tl =>
      let '(ok, k, s1) :=
        match it with
        | GI1 fee o => members_spec title fork reg yes exec_addr fee [o] s
        | GIG fee os => members_spec title fork reg yes exec_addr fee os s
        end in
      if ok then items_spec title fork reg yes exec_addr tl s1 else (false, k, s1)
  end.

Definition sdb_probe_ok (s : sdb) (probe : list (list N * option (list N))) : bool :=
  forallb (fun p => option_eqb bytes_eqb (sdb_get s (fst p)) (snd p)) probe.

(** ---- added blocks (local keys) ---- *)
Fixpoint local_block (txs : list ltx) : N * list (list N) :=
  match txs with
  | [] => (0, [])
  | LTx e ks ms :: tl =>
      let r := exec_local_tx e ks ms in
      if N.eqb r 0 then
        let '(r', out) := local_block tl in
        if N.eqb r' 0 then (0, match ks with Some l => l | None => [] end ++ out) else (r', [])
      else (r, [])
  end.

Definition local_spec_key (e k : list N) : bool :=
  local_shape_b e k || local_shape_b (get_real_exec_name e) k.

Definition check_case (c : case) : verdict :=
  match c with
  | CEnv reg syn ad =>
      mk_verdict (list_eqb bytes_eqb reg env_reg && list_eqb bytes_eqb syn env_syn
                  && list_eqb bytes_eqb ad env_allow_direct) true
  | CEnvNode an => mk_verdict (list_eqb bytes_eqb an env_allow_node) true
  | CName title execer name i_para i_paraname i_real i_allowname =>
      let m := bytes_eqb (get_para_exec title execer) i_para
               && bytes_eqb (get_para_exec_name execer) i_paraname
               && bytes_eqb (get_real_exec_name execer) i_real
               && Bool.eqb (is_allow_exec_name env_allow_direct name execer) i_allowname in
      (* spec: an accepted executor name carries no '-' (keys stay parseable) and is the
         executor name or its real name *)
      let s := if i_allowname
               then negb (has_byte c_dash name)
                    && (bytes_eqb name execer || bytes_eqb name i_real)
               else true in
      mk_verdict m s
  | CKey key i_find i_execer i_execkey =>
      let m := match find_execer key with
               | FE_ok e => N.eqb i_find 0 && bytes_eqb e i_execer
               | FE_not_mavl => N.eqb i_find 1
               | FE_no_execer => N.eqb i_find 2
               end
               && option_eqb bytes_eqb (get_exec_key key) i_execkey in
      (* spec: the reported executor owns the key's namespace; a reported exec address
         means the key lies in that address's area (when it is a mavl key) *)
      let s := (if N.eqb i_find 0 then in_namespace_b i_execer key else true)
               && match i_execkey with
                  | Some a => if is_prefix b_mavl key then in_exec_area_b a key else true
                  | None => true
                  end in
      mk_verdict m s
  | CAllow title fork yes key real txexec addr_tx addr_real i_res i_calls =>
      check_allow title fork env_reg env_syn yes key real txexec addr_tx addr_real i_res i_calls
  | CAllowExec title fork yes key txexec addr_tx addr_real i_real i_res i_calls =>
      let real := real_exec_of title (fun n => mem n env_reg) txexec in
      let '(m, s, k) := check_allow title fork env_reg env_syn yes key real txexec addr_tx addr_real i_res i_calls in
      (m && bytes_eqb real i_real, s, k)
  | CLocal execer key i_err =>
      let m := N.eqb (is_allow_local_key execer key) i_err in
      let s := if N.eqb i_err 0 then local_spec_key execer key else true in
      mk_verdict m s
  | CBlock title fork yes addrs txs probe =>
      let reg := env_reg in
      let allow_list := env_allow_node in
      let exec_addr := fun n => assoc n addrs in
      let '(m1, sm) := run_model title fork exec_addr reg yes allow_list txs [] in
      let '(s1, k, ss) := run_spec title fork exec_addr reg yes txs [] in
      let m := m1 && probe_ok sm probe in
      let s := s1 && probe_ok ss probe in
      (m, s, if s1 then 0 else k)
  | CGroupBlock title fork yes addrs items probe =>
      let reg := env_reg in
      let exec_addr := fun n => assoc n addrs in
      let '(sm, rss) := exec_items title fork exec_addr (fun n => mem n reg) (friend_tbl yes)
                                   env_allow_node sdb_empty (map to_item items) in
      let m := list_eqb (list_eqb rcpt_eqb) rss (map item_rcpts items) && sdb_probe_ok sm probe in
      let '(s1, k, ss) := items_spec title fork reg yes exec_addr items [] in
      let s := s1 && probe_ok ss probe in
      (m, s, if s1 then 0 else k)
  | CLocalBlock txs i_res i_keys =>
      let '(r, ks) := local_block txs in
      let m := N.eqb r i_res && list_eqb bytes_eqb ks i_keys in
      let s := if N.eqb i_res 0
               then forallb (fun k => existsb (fun t => match t with LTx e (Some l) _ =>
                                        mem k l && local_spec_key e k | _ => false end) txs) i_keys
               else true in
      mk_verdict m s
  end.
