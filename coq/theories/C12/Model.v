(** C12 — executable model of chain33's write-permission decision logic, as coded:
    types/types.go     FindExecer, GetExecKey, GetParaExecName, GetRealExecName, IsAllowExecName
    types/executor.go  (Chain33Config) GetParaExec;  types/config.go isPara
    system/dapp        LoadDriver + DriverBase.Allow (AllowIsSame)  — which driver object answers
    executor/allow.go  isAllowKeyWrite, isAllowLocalKey, isAllowLocalKey2
    executor/execenv.go getRealExecName, isAllowExec, checkKV, checkKeyAllow, execTxOne (KV part),
                        execLocalTx (checkKV + checkPrefix part)
    Byte strings are [list N].  No proofs here. *)
From Coq Require Import String.
From Coq Require Import List NArith Bool.
From C33 Require Import Lib.Harness Lib.Bytes.
Import ListNotations.
Open Scope N_scope.

Definition c_dash : N := 45.
Definition c_colon : N := 58.
Definition c_dot : N := 46.
Definition c_sharp : N := 35.

Definition b_mavl : list N := Eval compute in bs "mavl-"%string.
Definition b_exec : list N := Eval compute in bs "exec"%string.
Definition b_user : list N := Eval compute in bs "user."%string.
Definition b_userp : list N := Eval compute in bs "user.p."%string.
Definition b_lodb : list N := Eval compute in bs "LODB"%string.
Definition b_none : list N := Eval compute in bs "none"%string.
Definition b_manage : list N := Eval compute in bs "manage"%string.
Definition b_config : list N := Eval compute in bs "config"%string.
Definition b_token : list N := Eval compute in bs "token"%string.
Definition b_create_token : list N := Eval compute in bs "mavl-create-token-"%string.

(** first occurrence of [c]: (bytes before, bytes after) *)
Fixpoint split_at (c : N) (l : list N) : option (list N * list N) :=
  match l with
  | [] => None
  | x :: tl =>
      if N.eqb x c then Some ([], tl)
      else match split_at c tl with
           | Some (a, b) => Some (x :: a, b)
           | None => None
           end
  end.

Fixpoint count_byte (c : N) (l : list N) : nat :=
  match l with
  | [] => O
  | x :: tl => if N.eqb x c then S (count_byte c tl) else count_byte c tl
  end.

Definition has_byte (c : N) (l : list N) : bool := existsb (N.eqb c) l.

Definition len (l : list N) : N := N.of_nat (length l).

(** * types.FindExecer *)
Inductive find_res :=
| FE_ok (e : list N)
| FE_not_mavl        (* ErrMavlKeyNotStartWithMavl *)
| FE_no_execer.      (* ErrNoExecerInMavlKey *)

Definition find_execer (key : list N) : find_res :=
  if is_prefix b_mavl key then
    match split_at c_dash (skipn 5 key) with
    | Some (e, _) => FE_ok e
    | None => FE_no_execer
    end
  else FE_not_mavl.

(** * types.GetExecKey : the loop starts at index 5 whatever the first five bytes are;
    the third '-'-separated segment after them must be "exec"; the address runs to
    the first ':' after it. *)
Definition get_exec_key (key : list N) : option (list N) :=
  match split_at c_dash (skipn 5 key) with
  | None => None
  | Some (_, r1) =>
      match split_at c_dash r1 with
      | None => None
      | Some (_, r2) =>
          match split_at c_dash r2 with
          | None => None
          | Some (seg, r3) =>
              if bytes_eqb seg b_exec then
                match split_at c_colon r3 with
                | Some (addr, _) => Some addr
                | None => None
                end
              else None
          end
      end
  end.

(** * Chain33Config.isPara / GetParaExec *)
Definition is_para (title : list N) : bool :=
  Nat.eqb (count_byte c_dot title) 3 && is_prefix b_userp title.

Definition get_para_exec (title execer : list N) : list N :=
  if is_para title && is_prefix title execer then skipn (length title) execer else execer.

(** * types.GetParaExecName : strip "user.p.xxx." when something follows the third dot *)
Fixpoint after_dots (n : nat) (l : list N) : option (list N) :=
  match n with
  | O => Some l
  | S n' => match split_at c_dot l with
            | Some (_, r) => after_dots n' r
            | None => None
            end
  end.

Definition get_para_exec_name (execer : list N) : list N :=
  if is_prefix b_userp execer then
    match after_dots 3 execer with
    | Some (x :: r) => x :: r
    | _ => execer
    end
  else execer.

(** * types.GetRealExecName *)
Definition get_real_exec_name (execer0 : list N) : list N :=
  let execer := get_para_exec_name execer0 in
  if is_prefix b_userp execer then execer
  else if is_prefix b_user execer then
    let r := skipn 5 execer in
    let e := match split_at c_dot r with Some (a, _) => a | None => r end in
    match e with [] => execer | _ => e end
  else execer.

(** * types.IsAllowExecName (allow_list = types.AllowUserExec) *)
Definition is_allow_exec_name (allow_list : list (list N)) (name execer : list N) : bool :=
  if (100 <? len name) || (100 <? len execer) then false
  else if (len name <? 3) || (len execer <? 3) then false
  else if has_byte c_dash name || has_byte c_sharp name then false
  else if negb (bytes_eqb name execer) && negb (bytes_eqb name (get_real_exec_name execer)) then false
  else if is_prefix b_user name then true
  else existsb (bytes_eqb name) allow_list.

Inductive decision :=
| D_err                                   (* FindExecer failed: refuse *)
| D_own                                   (* key executor = GetParaExec(tx.Execer) *)
| D_legacy_manage                         (* pre-ForkExecKey: manage writes mavl-config- *)
| D_legacy_token                          (* pre-ForkExecKey: token writes mavl-create-token- *)
| D_exec_area                             (* exec-account area of ExecAddress(tx.Execer) *)
| D_friend (drv self : list N) (ans : bool).  (* asked driver drv: IsFriend(self,key,tx) *)


(** What the driver's Exec did: an error, or a receipt (type, KV list) together with
    the keys it Set in the state db while running. *)
Inductive exec_result :=
| ER_err
| ER_nil                      (* nil receipt, nil error (e.g. the none driver on an unknown action) *)
| ER_ok (ty : N) (kvs : list (list N * list N)) (memset : list (list N)).


(** * The write rule.  Everything that is not byte-string logic is a Section variable:
    - [title]         chain title (parachain iff [is_para title])
    - [fork_exec_key] cfg.IsFork(height, "ForkExecKey")
    - [exec_addr]     drivers.ExecAddress (hash of the name) as bytes of its string form
    - [registered]    a driver is registered under this (real) name and active at this height
    - [friend drv self key txexec]  the answer of driver [drv]'s IsFriend(self, key, tx)  *)
Section Allow.
  Variable title : list N.
  Variable fork_exec_key : bool.
  Variable exec_addr : list N -> list N.
  Variable registered : list N -> bool.
  Variable friend : list N -> list N -> list N -> list N -> bool.

  (** executor.loadDriver (after ForkCacheDriver) with the default DriverBase.Allow:
      LoadDriver looks up GetRealExecName(execer); Allow demands
      driverName = GetParaExec(execer); otherwise the none driver answers. *)
  Definition driver_for (execer : list N) : list N :=
    let real := get_real_exec_name execer in
    if registered real && bytes_eqb real (get_para_exec title execer) then real else b_none.

  (** executor.getRealExecName *)
  Definition real_exec_of (txexec : list N) : list N :=
    let d := driver_for txexec in
    if bytes_eqb d b_none then txexec else d.

  Definition allow_decision (key real txexec : list N) : decision :=
    match find_execer key with
    | FE_ok key_execer =>
        let exec := get_para_exec title txexec in
        if bytes_eqb key_execer exec then D_own
        else if negb fork_exec_key && bytes_eqb exec b_manage && bytes_eqb key_execer b_config
        then D_legacy_manage
        else if negb fork_exec_key && bytes_eqb exec b_token && is_prefix b_create_token key
        then D_legacy_token
        else
          let ka := get_exec_key key in
          if match ka with Some a => bytes_eqb a (exec_addr txexec) | None => false end
          then D_exec_area
          else
            let execdriver :=
              if match ka with Some a => bytes_eqb a (exec_addr real) | None => false end
              then real else key_execer in
            let drv := driver_for execdriver in
            D_friend drv execdriver (friend drv execdriver key txexec)
    | _ => D_err
    end.

  Definition decision_allows (d : decision) : bool :=
    match d with
    | D_err => false
    | D_friend _ _ ans => ans
    | _ => true
    end.

  (** allow.go isAllowKeyWrite *)
  Definition is_allow_key_write (key real txexec : list N) : bool :=
    decision_allows (allow_decision key real txexec).

  (** execenv.go isAllowExec *)
  Definition is_allow_exec (key txexec : list N) : bool :=
    is_allow_key_write key (real_exec_of txexec) txexec.

  (** execenv.go checkKV : every key set in the state db during the tx is in the receipt *)
  Definition check_kv (memset kvkeys : list (list N)) : bool :=
    forallb (fun k => existsb (bytes_eqb k) kvkeys) memset.

  (** execenv.go checkKeyAllow *)
  Definition check_key_allow (kvkeys : list (list N)) (txexec : list N) : bool :=
    forallb (fun k => is_allow_exec k txexec) kvkeys.

  Definition ty_exec_pack : N := 1.
  Definition ty_exec_ok : N := 2.

  (** execenv.go execTxOne + the caller's rollback/commit, for a driver that does not
      run ExecLocal at the same time: (accepted, receipt type, receipt KV).
      [feekv] is the fee receipt's KV (already charged, kept in every case). *)
  Definition exec_tx_one (feekv : list (list N * list N)) (r : exec_result) (txexec : list N)
    : bool * N * list (list N * list N) :=
    match r with
    | ER_err => (false, ty_exec_pack, feekv)
    | ER_nil => (true, ty_exec_pack, feekv)
    | ER_ok ty kvs memset =>
        if check_kv memset (map fst kvs) then
          if check_key_allow (map fst kvs) txexec then (true, ty, feekv ++ kvs)
          else (false, ty_exec_pack, feekv)
        else (false, ty_exec_pack, feekv)
    end.

  (** State visible to later transactions of the same block (post ForkExecRollback and
      ForkStateDBSet): an accepted transaction leaves exactly its receipt KVs (in order,
      last write wins); a refused one leaves only the fee KVs. Newest binding first. *)
  Definition state := list (list N * list N).

  Definition st_set (s : state) (kvs : list (list N * list N)) : state := rev kvs ++ s.

  Fixpoint st_get (s : state) (k : list N) : option (list N) :=
    match s with
    | [] => None
    | (k', v) :: tl => if bytes_eqb k' k then Some v else st_get tl k
    end.

  (** executor.execTx for a single (non-group) transaction after genesis: checkTx's
      IsAllowExecName test (ExecErr receipt, nothing charged), then fee + execTxOne.
      [r] is what the transaction's own driver does when it is the one that runs; when
      the none driver runs instead it returns a nil receipt. *)
  Definition exec_tx (allow_list : list (list N)) (feekv : list (list N * list N))
             (r : exec_result) (txexec : list N) : bool * N * list (list N * list N) :=
    if is_allow_exec_name allow_list (real_exec_of txexec) txexec then
      exec_tx_one feekv (if bytes_eqb (driver_for txexec) b_none then ER_nil else r) txexec
    else (false, 0, []).

  Definition apply_tx (allow_list : list (list N)) (s : state) (feekv : list (list N * list N))
             (r : exec_result) (txexec : list N) : state * (bool * N * list (list N * list N)) :=
    let out := exec_tx allow_list feekv r txexec in
    (st_set s (snd out), out).
End Allow.

(** * Local keys: allow.go isAllowLocalKey2 / isAllowLocalKey.
    0 = nil, 1 = ErrLocalPrefix, 2 = ErrLocalKeyLen *)
Definition nth_is (i : nat) (key : list N) (c : N) : bool :=
  match nth_error key i with Some x => N.eqb x c | None => false end.

Definition is_allow_local_key2 (execer key : list N) : N :=
  if Nat.ltb (length execer) 1 then 1
  else
    let minkeylen := (4 + length execer + 2)%nat in
    if Nat.leb (length key) minkeylen then 2
    else if negb (nth_is (minkeylen - 1) key c_dash) || negb (nth_is 4 key c_dash) then 1
    else if negb (is_prefix b_lodb key) then 1
    else if negb (is_prefix execer (skipn 5 key)) then 1
    else 0.

Definition is_allow_local_key (execer key : list N) : N :=
  let e1 := is_allow_local_key2 execer key in
  if N.eqb e1 0 then 0
  else
    let real := get_real_exec_name execer in
    if bytes_eqb real execer then e1 else is_allow_local_key2 real key.

(** execenv.go execLocalTx for one transaction: the driver's ExecLocal returned [kvs]
    ([None] = nil KV list) and Set [memset] in the local db.
    0 = accepted, 1 = ErrNotAllowMemSetLocalKey, 2 = panic (checkPrefix). *)
Definition exec_local_tx (execer : list N) (kvs : option (list (list N))) (memset : list (list N)) : N :=
  match kvs with
  | Some ks =>
      if forallb (fun k => existsb (bytes_eqb k) ks) memset then
        if forallb (fun k => N.eqb (is_allow_local_key execer k) 0) ks then 0 else 2
      else 1
  | None => match memset with [] => 0 | _ => 1 end
  end.
