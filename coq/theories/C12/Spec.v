(** C12 — what the property text demands, stated on byte strings.

    "each reported key lies in its own executor's namespace, in its own deposit area inside
     another executor, or in an area the owning executor explicitly allows; otherwise it
     fails and its writes are discarded.  Local-data writes produced for a transaction must
     carry that executor's local prefix."

    - namespace of executor e      : keys  mavl-<e>-<rest>      (e has no '-': the key's
      executor segment is exactly e, so `coins` and `coinsx` own disjoint key sets)
    - deposit (exec-account) area of address a inside another executor:
                                     keys  mavl-<x>-<y>-exec-<a>:<rest>
    - a transaction's own executor on this chain: its executor name with the chain's own
      parachain title removed ([get_para_exec]); its deposit address is the address of the
      full name
    - friend: the driver that answers for the owning executor approves the key.  The owner
      is the executor named in the key, or the transaction's real executor when the key lies
      in that executor's deposit area.
    - local prefix: LODB-<e>-<non-empty rest>, e the executor name or its real name. *)
From Coq Require Import String.
From Coq Require Import List NArith Bool.
From C33 Require Import Lib.Harness Lib.Bytes C12.Model.
Import ListNotations.
Open Scope N_scope.

Definition in_namespace (e key : list N) : Prop :=
  exists rest, key = b_mavl ++ e ++ c_dash :: rest /\ ~ In c_dash e.

Definition in_exec_area (a key : list N) : Prop :=
  exists x y rest,
    key = b_mavl ++ x ++ c_dash :: y ++ c_dash :: b_exec ++ c_dash :: a ++ c_colon :: rest
    /\ ~ In c_dash x /\ ~ In c_dash y /\ ~ In c_colon a.

Definition local_shape (e key : list N) : Prop :=
  exists rest, key = b_lodb ++ c_dash :: e ++ c_dash :: rest /\ e <> [] /\ rest <> [].

Section Spec.
  Variable title : list N.
  Variable exec_addr : list N -> list N.
  Variable registered : list N -> bool.
  Variable friend : list N -> list N -> list N -> list N -> bool.

  Definition own_namespace (txexec key : list N) : Prop :=
    in_namespace (get_para_exec title txexec) key.

  Definition own_exec_area (txexec key : list N) : Prop :=
    in_exec_area (exec_addr txexec) key.

  Definition friend_approved (real txexec key : list N) : Prop :=
    exists owner,
      (in_namespace owner key \/ (owner = real /\ in_exec_area (exec_addr real) key))
      /\ friend (driver_for title registered owner) owner key txexec = true.

  (** the property's disjunction *)
  Definition allowed_key (real txexec key : list N) : Prop :=
    own_namespace txexec key \/ own_exec_area txexec key \/ friend_approved real txexec key.

  (** the two historical exceptions of allow.go (heights before ForkExecKey only) *)
  Definition legacy_exception (txexec key : list N) : Prop :=
    (get_para_exec title txexec = b_manage /\ in_namespace b_config key)
    \/ (get_para_exec title txexec = b_token /\ is_prefix b_create_token key = true).
End Spec.

(** * Executable versions (the violation oracle of Check.v) *)
Definition in_namespace_b (e key : list N) : bool :=
  is_prefix (b_mavl ++ e ++ [c_dash]) key && negb (has_byte c_dash e).

Definition in_exec_area_b (a key : list N) : bool :=
  is_prefix b_mavl key &&
  match split_at c_dash (skipn 5 key) with
  | Some (_, r1) =>
      match split_at c_dash r1 with
      | Some (_, r2) => is_prefix (b_exec ++ c_dash :: a ++ [c_colon]) r2 && negb (has_byte c_colon a)
      | None => false
      end
  | None => false
  end.

Definition local_shape_b (e key : list N) : bool :=
  is_prefix (b_lodb ++ c_dash :: e ++ [c_dash]) key
  && Nat.ltb 0 (length e)
  && Nat.ltb (length (b_lodb ++ c_dash :: e ++ [c_dash])) (length key).

(** executor segment of a key (for the friend clause of the oracle) *)
Definition key_owner (key : list N) : option (list N) :=
  if is_prefix b_mavl key then
    match split_at c_dash (skipn 5 key) with Some (e, _) => Some e | None => None end
  else None.

Definition legacy_exception_b (title txexec key : list N) : bool :=
  (bytes_eqb (get_para_exec title txexec) b_manage && in_namespace_b b_config key)
  || (bytes_eqb (get_para_exec title txexec) b_token && is_prefix b_create_token key).
