(** C12 — proofs about the write-permission model. *)
From Coq Require Import String.
From Coq Require Import List NArith Bool Lia PeanoNat.
From C33 Require Import Lib.Harness Lib.Bytes C12.Model C12.Spec.
Import ListNotations.
Open Scope N_scope.

(** * basic facts *)
Lemma bytes_eqb_eq a b : bytes_eqb a b = true <-> a = b.
Proof. unfold bytes_eqb. apply list_eqb_spec. intros x y. apply N.eqb_eq. Qed.

Lemma bytes_eqb_refl a : bytes_eqb a a = true.
Proof. apply bytes_eqb_eq. reflexivity. Qed.

Lemma split_at_spec c l a b :
  split_at c l = Some (a, b) -> l = a ++ c :: b /\ ~ In c a.
Proof.
  revert a b. induction l as [|x tl IH]; intros a b H; simpl in H; [discriminate|].
  destruct (N.eqb x c) eqn:E.
  - apply N.eqb_eq in E. inversion H; subst. split; [reflexivity|intros []].
  - destruct (split_at c tl) as [[a' b']|] eqn:S; [|discriminate].
    inversion H; subst. destruct (IH a' b eq_refl) as [H1 H2]. subst tl.
    split; [reflexivity|]. intros [F|F]; [|exact (H2 F)].
    subst. rewrite N.eqb_refl in E. discriminate.
Qed.

Lemma split_at_app c a b : ~ In c a -> split_at c (a ++ c :: b) = Some (a, b).
Proof.
  induction a as [|x a IH]; intro H; simpl.
  - rewrite N.eqb_refl. reflexivity.
  - destruct (N.eqb x c) eqn:E.
    + apply N.eqb_eq in E. exfalso. apply H. left. exact E.
    + rewrite IH; [reflexivity|]. intro F. apply H. right. exact F.
Qed.

Lemma has_byte_false c l : has_byte c l = false <-> ~ In c l.
Proof.
  unfold has_byte. split.
  - intros H F. assert (existsb (N.eqb c) l = true) as T.
    { apply existsb_exists. exists c. split; [exact F|apply N.eqb_refl]. }
    congruence.
  - intro H. destruct (existsb (N.eqb c) l) eqn:E; [|reflexivity].
    apply existsb_exists in E as [x [Hx Ex]]. apply N.eqb_eq in Ex. subst. contradiction.
Qed.

Lemma skipn_mavl s : skipn 5 (b_mavl ++ s) = s.
Proof. reflexivity. Qed.

(** * FindExecer: the executor segment is exact *)
Lemma find_execer_ok key e : find_execer key = FE_ok e -> in_namespace e key.
Proof.
  unfold find_execer. destruct (is_prefix b_mavl key) eqn:P; [|discriminate].
  apply is_prefix_iff in P as [s ->]. rewrite skipn_mavl.
  destruct (split_at c_dash s) as [[a b]|] eqn:S; [|discriminate].
  intro H. inversion H; subst. apply split_at_spec in S as [-> N].
  exists b. split; [reflexivity|exact N].
Qed.

Lemma in_namespace_find key e : in_namespace e key -> find_execer key = FE_ok e.
Proof.
  intros [rest [-> N]]. unfold find_execer.
  rewrite is_prefix_app, skipn_mavl, split_at_app by exact N. reflexivity.
Qed.

Lemma in_namespace_unique key e1 e2 : in_namespace e1 key -> in_namespace e2 key -> e1 = e2.
Proof.
  intros H1 H2. apply in_namespace_find in H1, H2. congruence.
Qed.

(** * GetExecKey on a mavl key: the exec-account area shape *)
Lemma get_exec_key_area key a :
  is_prefix b_mavl key = true -> get_exec_key key = Some a -> in_exec_area a key.
Proof.
  intros P. apply is_prefix_iff in P as [s ->]. unfold get_exec_key. rewrite skipn_mavl.
  destruct (split_at c_dash s) as [[x r1]|] eqn:S1; [|discriminate].
  destruct (split_at c_dash r1) as [[y r2]|] eqn:S2; [|discriminate].
  destruct (split_at c_dash r2) as [[seg r3]|] eqn:S3; [|discriminate].
  destruct (bytes_eqb seg b_exec) eqn:E; [|discriminate].
  destruct (split_at c_colon r3) as [[addr rest]|] eqn:S4; [|discriminate].
  intro H. inversion H; subst addr.
  apply bytes_eqb_eq in E. subst seg.
  apply split_at_spec in S1 as [-> N1]. apply split_at_spec in S2 as [-> N2].
  apply split_at_spec in S3 as [-> _]. apply split_at_spec in S4 as [-> N4].
  exists x, y, rest. repeat split; auto.
Qed.

Lemma in_exec_area_get key a : in_exec_area a key -> get_exec_key key = Some a.
Proof.
  intros [x [y [rest [-> [N1 [N2 N3]]]]]]. unfold get_exec_key. rewrite skipn_mavl.
  rewrite split_at_app by exact N1. rewrite split_at_app by exact N2.
  replace (b_exec ++ c_dash :: a ++ c_colon :: rest) with (b_exec ++ c_dash :: (a ++ c_colon :: rest)) by reflexivity.
  rewrite split_at_app.
  - rewrite bytes_eqb_refl. rewrite split_at_app by exact N3. reflexivity.
  - unfold b_exec, c_dash. simpl. intros [F|[F|[F|[F|[]]]]]; discriminate.
Qed.

(** * The write rule *)
Section AllowProofs.
  Variable title : list N.
  Variable fork_exec_key : bool.
  Variable exec_addr : list N -> list N.
  Variable registered : list N -> bool.
  Variable friend : list N -> list N -> list N -> list N -> bool.

  Let decide := allow_decision title fork_exec_key exec_addr registered friend.
  Let allowed := allowed_key title exec_addr registered friend.

  Lemma write_allowed_implies_spec key real txexec :
    is_allow_key_write title fork_exec_key exec_addr registered friend key real txexec = true ->
    allowed real txexec key \/ (fork_exec_key = false /\ legacy_exception title txexec key).
  Proof.
    unfold is_allow_key_write, allow_decision, allowed, allowed_key.
    destruct (find_execer key) as [e| |] eqn:F; try (simpl; discriminate).
    pose proof (find_execer_ok _ _ F) as NS.
    assert (is_prefix b_mavl key = true) as PM.
    { unfold find_execer in F. destruct (is_prefix b_mavl key); [reflexivity|discriminate]. }
    destruct (bytes_eqb e (get_para_exec title txexec)) eqn:E1.
    { intros _. apply bytes_eqb_eq in E1. subst e. left. left. exact NS. }
    destruct (negb fork_exec_key && bytes_eqb (get_para_exec title txexec) b_manage
              && bytes_eqb e b_config) eqn:E2.
    { intros _. apply andb_true_iff in E2 as [E2 E2c]. apply andb_true_iff in E2 as [E2a E2b].
      apply negb_true_iff in E2a. apply bytes_eqb_eq in E2b, E2c. subst e.
      right. split; [exact E2a|]. left. split; assumption. }
    destruct (negb fork_exec_key && bytes_eqb (get_para_exec title txexec) b_token
              && is_prefix b_create_token key) eqn:E3.
    { intros _. apply andb_true_iff in E3 as [E3 E3c]. apply andb_true_iff in E3 as [E3a E3b].
      apply negb_true_iff in E3a. apply bytes_eqb_eq in E3b.
      right. split; [exact E3a|]. right. split; assumption. }
    destruct (get_exec_key key) as [a|] eqn:K.
    - pose proof (get_exec_key_area _ _ PM K) as AR.
      destruct (bytes_eqb a (exec_addr txexec)) eqn:E4.
      { intros _. apply bytes_eqb_eq in E4. subst a. left. right. left. exact AR. }
      destruct (bytes_eqb a (exec_addr real)) eqn:E5; simpl; intro H.
      + apply bytes_eqb_eq in E5. subst a. left. right. right.
        exists real. split; [right; split; [reflexivity|exact AR]|exact H].
      + left. right. right. exists e. split; [left; exact NS|exact H].
    - simpl. intro H. left. right. right. exists e. split; [left; exact NS|exact H].
  Qed.

  (** own namespace and own exec-account area are always granted (non-vacuity of the rule) *)
  Lemma own_namespace_allowed key real txexec :
    own_namespace title txexec key ->
    is_allow_key_write title fork_exec_key exec_addr registered friend key real txexec = true.
  Proof.
    intro H. unfold is_allow_key_write, allow_decision.
    rewrite (in_namespace_find _ _ H), bytes_eqb_refl. reflexivity.
  Qed.

  Lemma decision_dichotomy key real txexec :
    is_allow_key_write title fork_exec_key exec_addr registered friend key real txexec = false ->
    ~ own_namespace title txexec key.
  Proof.
    intros H O. rewrite (own_namespace_allowed _ real _ O) in H. discriminate.
  Qed.

  (** * checkKV / checkKeyAllow / execTxOne *)
  Lemma check_kv_spec memset keys :
    check_kv memset keys = true <-> (forall k, In k memset -> In k keys).
  Proof.
    unfold check_kv. rewrite forallb_forall. split; intros H k Hk.
    - specialize (H k Hk). apply existsb_exists in H as [k' [Hk' E]].
      apply bytes_eqb_eq in E. subst. exact Hk'.
    - apply existsb_exists. exists k. split; [apply H; exact Hk|apply bytes_eqb_refl].
  Qed.

  Lemma check_key_allow_spec keys txexec :
    check_key_allow title fork_exec_key exec_addr registered friend keys txexec = true ->
    forall k, In k keys ->
      allowed (real_exec_of title registered txexec) txexec k
      \/ (fork_exec_key = false /\ legacy_exception title txexec k).
  Proof.
    unfold check_key_allow. rewrite forallb_forall. intros H k Hk.
    apply write_allowed_implies_spec. exact (H k Hk).
  Qed.

  Let run := exec_tx_one title fork_exec_key exec_addr registered friend.

  Lemma success_implies_all_keys_allowed feekv r txexec ty kvs :
    run feekv r txexec = (true, ty, kvs) ->
    (r = ER_nil /\ ty = ty_exec_pack /\ kvs = feekv)
    \/ exists kvs0 memset,
         r = ER_ok ty kvs0 memset /\ kvs = feekv ++ kvs0
         /\ (forall k, In k memset -> In k (map fst kvs0))
         /\ (forall k, In k (map fst kvs0) ->
               allowed (real_exec_of title registered txexec) txexec k
               \/ (fork_exec_key = false /\ legacy_exception title txexec k)).
  Proof.
    unfold run, exec_tx_one. destruct r as [| |ty0 kvs0 memset].
    - discriminate.
    - intro H. inversion H; subst. left. auto.
    - destruct (check_kv memset (map fst kvs0)) eqn:C1; [|discriminate].
      destruct (check_key_allow title fork_exec_key exec_addr registered friend (map fst kvs0) txexec) eqn:C2;
        [|discriminate].
      intro H. inversion H; subst. right. exists kvs0, memset.
      split; [reflexivity|]. split; [reflexivity|]. split.
      + apply check_kv_spec. exact C1.
      + apply check_key_allow_spec. exact C2.
  Qed.

  Lemma failure_discards_writes feekv r txexec ty kvs :
    run feekv r txexec = (false, ty, kvs) ->
    ty = ty_exec_pack /\ kvs = feekv
    /\ (r = ER_err
        \/ exists ty0 kvs0 memset, r = ER_ok ty0 kvs0 memset
             /\ ((exists k, In k memset /\ ~ In k (map fst kvs0))
                 \/ (exists k, In k (map fst kvs0)
                       /\ is_allow_exec title fork_exec_key exec_addr registered friend k txexec = false))).
  Proof.
    unfold run, exec_tx_one. destruct r as [| |ty0 kvs0 memset].
    - intro H. inversion H; subst. auto.
    - discriminate.
    - destruct (check_kv memset (map fst kvs0)) eqn:C1.
      + destruct (check_key_allow title fork_exec_key exec_addr registered friend (map fst kvs0) txexec) eqn:C2;
          [discriminate|].
        intro H. inversion H; subst. split; [reflexivity|]. split; [reflexivity|]. right.
        exists ty0, kvs0, memset. split; [reflexivity|]. right.
        unfold check_key_allow in C2.
        assert (existsb (fun k => negb (is_allow_exec title fork_exec_key exec_addr registered friend k txexec))
                        (map fst kvs0) = true) as X.
        { clear -C2. induction (map fst kvs0) as [|k l IH]; simpl in *; [discriminate|].
          destruct (is_allow_exec title fork_exec_key exec_addr registered friend k txexec); simpl in *; auto. }
        apply existsb_exists in X as [k [Hk Nk]]. apply negb_true_iff in Nk. exists k. auto.
      + intro H. inversion H; subst. split; [reflexivity|]. split; [reflexivity|]. right.
        exists ty0, kvs0, memset. split; [reflexivity|]. left.
        unfold check_kv in C1.
        assert (existsb (fun k => negb (existsb (bytes_eqb k) (map fst kvs0))) memset = true) as X.
        { clear -C1. induction memset as [|k l IH]; simpl in *; [discriminate|].
          destruct (existsb (bytes_eqb k) (map fst kvs0)); simpl in *; auto. }
        apply existsb_exists in X as [k [Hk Nk]]. apply negb_true_iff in Nk. exists k. split; [exact Hk|].
        intro F. assert (existsb (bytes_eqb k) (map fst kvs0) = true) as T.
        { apply existsb_exists. exists k. split; [exact F|apply bytes_eqb_refl]. }
        congruence.
  Qed.

  (** the state later transactions see: a refused transaction contributes the fee KVs only *)
  Lemma refused_tx_state allow_list s feekv r txexec s' ty kvs :
    apply_tx title fork_exec_key exec_addr registered friend allow_list s feekv r txexec
      = (s', (false, ty, kvs)) ->
    (kvs = feekv \/ kvs = []) /\ s' = st_set s kvs.
  Proof.
    unfold apply_tx. intro H. inversion H as [[H1 H2]]. clear H.
    rewrite H2. simpl. split; [|reflexivity].
    unfold exec_tx in H2.
    destruct (is_allow_exec_name allow_list (real_exec_of title registered txexec) txexec).
    - apply failure_discards_writes in H2 as [_ [-> _]]. left. reflexivity.
    - inversion H2. right. reflexivity.
  Qed.
End AllowProofs.

(** * Local keys *)
Lemma nth_is_spec i key c : nth_is i key c = true -> nth_error key i = Some c.
Proof.
  unfold nth_is. destruct (nth_error key i) as [x|]; [|discriminate].
  intro H. apply N.eqb_eq in H. subst. reflexivity.
Qed.

Lemma local_key2_shape execer key :
  is_allow_local_key2 execer key = 0 -> local_shape execer key.
Proof.
  unfold is_allow_local_key2.
  destruct (Nat.ltb (length execer) 1) eqn:L1; [discriminate|].
  destruct (Nat.leb (length key) (4 + length execer + 2)) eqn:L2; [discriminate|].
  destruct (nth_is (4 + length execer + 2 - 1) key c_dash) eqn:D1; [|cbn [negb orb]; discriminate].
  destruct (nth_is 4 key c_dash) eqn:D2; [|cbn [negb orb]; discriminate]. cbn [negb orb].
  destruct (is_prefix b_lodb key) eqn:P1; [|cbn [negb orb]; discriminate]. cbn [negb orb].
  destruct (is_prefix execer (skipn 5 key)) eqn:P2; [|cbn [negb orb]; discriminate]. intros _.
  apply Nat.ltb_ge in L1. apply Nat.leb_gt in L2.
  apply is_prefix_iff in P1 as [s Hs]. subst key.
  apply nth_is_spec in D2. change (nth_error s 0 = Some c_dash) in D2.
  destruct s as [|x s]; [discriminate|]. simpl in D2. inversion D2; subst x.
  change (skipn 5 (b_lodb ++ c_dash :: s)) with s in P2.
  apply is_prefix_iff in P2 as [t Ht]. subst s.
  apply nth_is_spec in D1.
  replace (4 + length execer + 2 - 1)%nat with (5 + length execer)%nat in D1 by lia.
  change (nth_error (execer ++ t) (length execer) = Some c_dash) in D1.
  rewrite nth_error_app2 in D1 by lia. rewrite Nat.sub_diag in D1.
  destruct t as [|y rest]; [discriminate|]. simpl in D1. inversion D1; subst y.
  exists rest. split; [reflexivity|]. split.
  - destruct execer; [simpl in L1; lia|discriminate].
  - destruct rest; [|discriminate]. exfalso.
    change (length (b_lodb ++ c_dash :: execer ++ [c_dash])) with (5 + length (execer ++ [c_dash]))%nat in L2.
    rewrite app_length in L2. simpl in L2. lia.
Qed.

Lemma local_shape_key2 execer key :
  local_shape execer key -> is_allow_local_key2 execer key = 0.
Proof.
  intros [rest [-> [NE NR]]]. unfold is_allow_local_key2.
  assert (1 <= length execer)%nat as L by (destruct execer; [congruence|simpl; lia]).
  destruct (Nat.ltb (length execer) 1) eqn:L1; [apply Nat.ltb_lt in L1; lia|].
  assert (length (b_lodb ++ c_dash :: execer ++ c_dash :: rest) = 4 + length execer + 2 + length rest)%nat as LK.
  { change (length (b_lodb ++ c_dash :: execer ++ c_dash :: rest))
      with (5 + length (execer ++ c_dash :: rest))%nat.
    rewrite app_length. simpl. lia. }
  destruct (Nat.leb _ (4 + length execer + 2)) eqn:L2.
  { apply Nat.leb_le in L2. rewrite LK in L2. destruct rest; [congruence|simpl in L2; lia]. }
  assert (nth_is (4 + length execer + 2 - 1) (b_lodb ++ c_dash :: execer ++ c_dash :: rest) c_dash = true) as D1.
  { unfold nth_is. replace (4 + length execer + 2 - 1)%nat with (5 + length execer)%nat by lia.
    change (nth_error (b_lodb ++ c_dash :: execer ++ c_dash :: rest) (5 + length execer))
      with (nth_error (execer ++ c_dash :: rest) (length execer)).
    rewrite nth_error_app2 by lia. rewrite Nat.sub_diag. simpl. reflexivity. }
  assert (nth_is 4 (b_lodb ++ c_dash :: execer ++ c_dash :: rest) c_dash = true) as D2 by reflexivity.
  assert (is_prefix b_lodb (b_lodb ++ c_dash :: execer ++ c_dash :: rest) = true) as P1
    by apply is_prefix_app.
  assert (is_prefix execer (skipn 5 (b_lodb ++ c_dash :: execer ++ c_dash :: rest)) = true) as P2.
  { change (skipn 5 (b_lodb ++ c_dash :: execer ++ c_dash :: rest)) with (execer ++ c_dash :: rest).
    apply is_prefix_app. }
  rewrite D1, D2, P1, P2. reflexivity.
Qed.

Lemma local_key_shape execer key :
  is_allow_local_key execer key = 0 ->
  local_shape execer key \/ local_shape (get_real_exec_name execer) key.
Proof.
  unfold is_allow_local_key.
  destruct (N.eqb (is_allow_local_key2 execer key) 0) eqn:E.
  - intros _. left. apply local_key2_shape. apply N.eqb_eq. exact E.
  - destruct (bytes_eqb (get_real_exec_name execer) execer) eqn:R.
    + intro H. rewrite H in E. discriminate.
    + intro H. right. apply local_key2_shape. exact H.
Qed.

Lemma local_shape_accepted execer key :
  local_shape execer key \/ local_shape (get_real_exec_name execer) key ->
  is_allow_local_key execer key = 0.
Proof.
  intros [H|H]; unfold is_allow_local_key.
  - rewrite (local_shape_key2 _ _ H). reflexivity.
  - destruct (N.eqb (is_allow_local_key2 execer key) 0) eqn:E; [reflexivity|].
    destruct (bytes_eqb (get_real_exec_name execer) execer) eqn:R.
    + apply bytes_eqb_eq in R. rewrite R in H. rewrite (local_shape_key2 _ _ H) in E. discriminate.
    + apply local_shape_key2. exact H.
Qed.

Lemma exec_local_tx_shape execer ks memset :
  exec_local_tx execer (Some ks) memset = 0 ->
  (forall k, In k memset -> In k ks)
  /\ forall k, In k ks -> local_shape execer k \/ local_shape (get_real_exec_name execer) k.
Proof.
  unfold exec_local_tx.
  destruct (forallb (fun k => existsb (bytes_eqb k) ks) memset) eqn:C1; [|discriminate].
  destruct (forallb (fun k => N.eqb (is_allow_local_key execer k) 0) ks) eqn:C2; [|discriminate].
  intros _. split.
  - intros k Hk. rewrite forallb_forall in C1. specialize (C1 k Hk).
    apply existsb_exists in C1 as [k' [Hk' E]]. apply bytes_eqb_eq in E. subst. exact Hk'.
  - intros k Hk. rewrite forallb_forall in C2. specialize (C2 k Hk).
    apply N.eqb_eq in C2. apply local_key_shape. exact C2.
Qed.

(** * Refutation witness for the three-disjunct statement (heights before ForkExecKey) *)
Definition no_friend (_ _ _ _ : list N) : bool := false.
Definition no_addr (_ : list N) : list N := [].
Definition no_reg (_ : list N) : bool := false.

Lemma legacy_witness_allowed :
  is_allow_key_write (bs "local") false no_addr no_reg no_friend
                     (bs "mavl-config-x") b_manage b_manage = true.
Proof. vm_compute. reflexivity. Qed.

Lemma legacy_witness_not_spec :
  ~ allowed_key (bs "local") no_addr no_reg no_friend b_manage b_manage (bs "mavl-config-x").
Proof.
  intros [H|[H|H]].
  - assert (in_namespace b_config (bs "mavl-config-x")) as C.
    { exists (bs "x"). split; [reflexivity|]. vm_compute. intros [F|[F|[F|[F|[F|[F|[]]]]]]]; discriminate. }
    unfold own_namespace in H.
    pose proof (in_namespace_unique _ _ _ H C) as E. vm_compute in E. discriminate.
  - unfold own_exec_area in H. apply in_exec_area_get in H. vm_compute in H. discriminate.
  - destruct H as [o [_ F]]. unfold no_friend in F. discriminate.
Qed.

(** * the executable oracles agree with the spec predicates *)
Lemma in_namespace_b_iff e key : in_namespace_b e key = true <-> in_namespace e key.
Proof.
  unfold in_namespace_b, in_namespace. split.
  - intro H. apply andb_true_iff in H as [P N]. apply is_prefix_iff in P as [s ->].
    apply negb_true_iff in N. apply has_byte_false in N.
    exists s. split; [|exact N]. rewrite <- !app_assoc. reflexivity.
  - intros [rest [-> N]]. apply andb_true_iff. split.
    + apply is_prefix_iff. exists rest. rewrite <- !app_assoc. reflexivity.
    + apply negb_true_iff. apply has_byte_false. exact N.
Qed.

Lemma legacy_exception_b_iff title txexec key :
  legacy_exception_b title txexec key = true <-> legacy_exception title txexec key.
Proof.
  unfold legacy_exception_b, legacy_exception.
  rewrite orb_true_iff, !andb_true_iff, !bytes_eqb_eq, in_namespace_b_iff. reflexivity.
Qed.

Lemma write_allowed_partial title fork exec_addr registered friend key real txexec :
  fork || negb (legacy_exception_b title txexec key) = true ->
  is_allow_key_write title fork exec_addr registered friend key real txexec = true ->
  allowed_key title exec_addr registered friend real txexec key.
Proof.
  intros G H. apply write_allowed_implies_spec in H as [H|[F L]]; [exact H|].
  subst fork. simpl in G. apply negb_true_iff in G.
  apply legacy_exception_b_iff in L. congruence.
Qed.

Definition write_allowed_full : Prop :=
  forall title fork exec_addr registered friend key real txexec,
    is_allow_key_write title fork exec_addr registered friend key real txexec = true ->
    allowed_key title exec_addr registered friend real txexec key.

Lemma write_allowed_full_refuted : ~ write_allowed_full.
Proof.
  intro H. apply legacy_witness_not_spec. apply (H _ false). exact legacy_witness_allowed.
Qed.

(** * Examples: the hypotheses are satisfiable by concrete non-trivial inputs *)
Definition ex_addr2 (n : list N) : list N := bs "A" ++ map (fun x => if N.eqb x 58 then 95 else x) n.
Definition ex_reg (n : list N) : bool := bytes_eqb n (bs "coins") || bytes_eqb n (bs "token").
Definition ex_friend (drv self key txexec : list N) : bool :=
  bytes_eqb drv (bs "coins") && bytes_eqb txexec (bs "token").

Example ex_own_namespace :
  is_allow_key_write (bs "user.p.x.") true ex_addr2 ex_reg ex_friend
    (bs "mavl-token-sym") (bs "token") (bs "user.p.x.token") = true.
Proof. vm_compute. reflexivity. Qed.

Example ex_prefix_not_confused :
  is_allow_key_write (bs "local") true ex_addr2 ex_reg no_friend
    (bs "mavl-coinsx-a") (bs "coins") (bs "coins") = false
  /\ is_allow_key_write (bs "local") true ex_addr2 ex_reg no_friend
    (bs "mavl-coins-a") (bs "coinsx") (bs "coinsx") = false.
Proof. vm_compute. split; reflexivity. Qed.

Example ex_exec_area :
  is_allow_key_write (bs "local") true ex_addr2 ex_reg no_friend
    (bs "mavl-coins-bty-exec-Atoken:user") (bs "token") (bs "token") = true
  /\ is_allow_key_write (bs "local") true ex_addr2 ex_reg no_friend
    (bs "mavl-coins-bty-exec-Acoins:user") (bs "token") (bs "token") = false.
Proof. vm_compute. split; reflexivity. Qed.

Example ex_friend_path :
  allow_decision (bs "local") true ex_addr2 ex_reg ex_friend
    (bs "mavl-coins-bty-addr") (bs "token") (bs "token") = D_friend (bs "coins") (bs "coins") true
  /\ allow_decision (bs "local") true ex_addr2 ex_reg ex_friend
    (bs "mavl-unknown-x") (bs "token") (bs "token") = D_friend (bs "none") (bs "unknown") false.
Proof. vm_compute. split; reflexivity. Qed.

Example ex_guard_satisfiable :
  true || negb (legacy_exception_b (bs "local") (bs "token") (bs "mavl-token-a")) = true
  /\ false || negb (legacy_exception_b (bs "local") (bs "token") (bs "mavl-token-a")) = true
  /\ false || negb (legacy_exception_b (bs "local") (bs "token") (bs "mavl-create-token-S")) = false.
Proof. vm_compute. repeat split; reflexivity. Qed.

Example ex_tx_accepted :
  exec_tx_one (bs "local") true ex_addr2 ex_reg ex_friend [(bs "fee", bs "1")]
    (ER_ok 2 [(bs "mavl-token-a", bs "v"); (bs "mavl-coins-bty-exec-Atoken:u", bs "w")] [bs "mavl-token-a"])
    (bs "token")
  = (true, 2, [(bs "fee", bs "1"); (bs "mavl-token-a", bs "v"); (bs "mavl-coins-bty-exec-Atoken:u", bs "w")]).
Proof. vm_compute. reflexivity. Qed.

Example ex_tx_refused :
  exec_tx_one (bs "local") true ex_addr2 ex_reg no_friend [(bs "fee", bs "1")]
    (ER_ok 2 [(bs "mavl-token-a", bs "v"); (bs "mavl-coins-a", bs "w")] []) (bs "token")
  = (false, 1, [(bs "fee", bs "1")])
  /\ exec_tx_one (bs "local") true ex_addr2 ex_reg no_friend [(bs "fee", bs "1")]
    (ER_ok 2 [(bs "mavl-token-a", bs "v")] [bs "mavl-token-hidden"]) (bs "token")
  = (false, 1, [(bs "fee", bs "1")]).
Proof. vm_compute. split; reflexivity. Qed.

Example ex_local :
  is_allow_local_key (bs "user.p.x.token") (bs "LODB-token-a") = 0
  /\ is_allow_local_key (bs "token") (bs "LODB-token-") = 2
  /\ is_allow_local_key (bs "token") (bs "LODB-tokenx-a") = 1
  /\ is_allow_local_key (bs "tokenx") (bs "LODB-token-ab") = 1.
Proof. vm_compute. repeat split; reflexivity. Qed.
