(** C18 — executable model of /repo/common/merkle/merkle.go, as coded.

    The model is generic in the hash type [T] and in the two-hash function
    [hash2] (Go: GetHashFromTwoHash = double SHA-256 of left||right, nil if
    either side is nil).  [nilT] is Go's nil slice, [eqT] is bytes.Equal.
    It is instantiated (a) with the free term algebra [h] below for the
    binding theorem, (b) with a table-backed hash for the correspondence
    check (Check.v).  The theorems about root/branch consistency are proved
    for *every* [hash2].

    Assumptions of the model (listed in props/C18.py):
    - leaves are 32-byte slices (GetHashFromTwoHash copies into a 64 byte
      buffer), fewer than 2^32 of them (Computation's [inner] has 32 slots and
      the position is a uint32), Go ints do not overflow;
    - [matchlevel]'s sentinel 0xff is modelled as [None]. *)
From Coq Require Import List ZArith NArith Bool.
Import ListNotations.
Open Scope Z_scope.

Section Merkle.
  Variable T : Type.
  Variable nilT : T.
  Variable hash2 : T -> T -> T.
  Variable eqT : T -> T -> bool.

  (** ** getMerkleRoot: one level = duplicate the last element when the length
      is odd, then hash pairs. *)
  Fixpoint red (l : list T) : list T :=
    match l with
    | [] => []
    | [x] => [hash2 x x]
    | x :: y :: tl => hash2 x y :: red tl
    end.

  (** [for len(hashes) > 1 { ... }]; fuel = length (each level at least halves). *)
  Fixpoint root_loop (fuel : nat) (l : list T) : T :=
    match l with
    | [] => nilT
    | [x] => x
    | _ => match fuel with
           | O => nilT
           | S f => root_loop f (red l)
           end
    end.

  Definition get_merkle_root (l : list T) : T := root_loop (length l) l.

  (** ** log2 / pow2 / calcLevel exactly as coded. *)
  (* level := 1; for { data = data/2; if data <= 1 {return level}; level++ } *)
  Fixpoint log2_loop (p : positive) (level : Z) : Z :=
    match p with
    | xH => level
    | xO p' | xI p' =>
        match p' with
        | xH => level
        | _ => log2_loop p' (level + 1)
        end
    end.
  Definition log2 (data : Z) : Z :=
    match data with
    | Zpos p => log2_loop p 1
    | _ => 0
    end.

  Definition pow2 (d : Z) : Z :=
    if d <=? 0 then 1 else Z.iter d (fun p => p * 2) 1.

  Fixpoint calc_level_loop (fuel : nat) (n level : Z) : Z :=
    if n <=? 1 then level else
    match fuel with
    | O => -1
    | S f =>
        let n1 := if Z.odd n then n + 1 else n in
        calc_level_loop f (n1 / 2) (level + 1)
    end.
  Definition calc_level (n : Z) : Z :=
    if n =? 1 then 1 else calc_level_loop (Z.to_nat n) n 0.

  Definition get_merkle_root_pad (hashes : list T) (step : Z) : T :=
    let level1 := calc_level (Z.of_nat (length hashes)) in
    let level2 := log2 step in
    let root := match hashes with
                | [x] => hash2 x x
                | _ => get_merkle_root hashes
                end in
    Z.iter (level2 - level1) (fun r => hash2 r r) root.

  (** ** GetMerkleRoot with the worker count as a parameter. *)
  Definition par_step (n ncpu : Z) : Z :=
    let s := log2 (n / ncpu) in
    let s := if s <? 1 then 1 else s in
    let s := pow2 s in
    if 256 <? s then 256 else s.

  Definition chunk_of (hashes : list T) (stepn i : nat) : list T :=
    let e := Nat.min ((i + 1) * stepn) (length hashes) in
    firstn (e - i * stepn) (skipn (i * stepn) hashes).

  Definition child_root (step : Z) (c : list T) : T :=
    if Nat.eqb (length c) (Z.to_nat step) then get_merkle_root c
    else get_merkle_root_pad c step.

  Definition get_merkle_root_par (ncpu : Z) (hashes : list T) : T :=
    let n := Z.of_nat (length hashes) in
    if (n <=? 80) || (ncpu <=? 1) then get_merkle_root hashes else
    let step := par_step n ncpu in
    let rem := n mod step in
    let l := n / step in
    let l := if rem =? 0 then l else l + 1 in
    let stepn := Z.to_nat step in
    get_merkle_root
      (map (fun i => child_root step (chunk_of hashes stepn i)) (seq 0 (Z.to_nat l))).

  (** ** Computation: constant-space root / branch / mutated. *)
  Definition get_slot (inner : list T) (lv : nat) : T := nth lv inner nilT.
  Fixpoint set_slot (inner : list T) (lv : nat) (v : T) : list T :=
    match lv, inner with
    | O, [] => [v]
    | O, _ :: tl => v :: tl
    | S k, [] => nilT :: set_slot [] k v
    | S k, x :: tl => x :: set_slot tl k v
    end.

  Definition opt_nat_eqb (a : option nat) (b : nat) : bool :=
    match a with Some x => Nat.eqb x b | None => false end.

  (* the branch bookkeeping shared by the main loop and the closing loop *)
  Definition branch_step (wantb : bool) (matchh : bool) (matchlevel : option nat)
             (level : nat) (il h : T) (branch : list T) : list T * bool :=
    if wantb then
      if matchh then (branch ++ [il], true)
      else if opt_nat_eqb matchlevel level then (branch ++ [h], true)
      else (branch, matchh)
    else (branch, matchh).

  (* for level = 0; 0 == count & (1<<level); level++ { ... } *)
  Fixpoint merge_loop (fuel : nat) (count : N) (level : nat) (wantb : bool)
           (inner : list T) (matchlevel : option nat)
           (h : T) (matchh : bool) (branch : list T) (mutated : bool)
    : nat * T * bool * list T * bool :=
    if N.testbit count (N.of_nat level) then (level, h, matchh, branch, mutated) else
    match fuel with
    | O => (level, h, matchh, branch, mutated)
    | S f =>
        let il := get_slot inner level in
        let '(branch', matchh') := branch_step wantb matchh matchlevel level il h branch in
        let mutated' := if eqT il h then true else mutated in
        merge_loop f count (S level) wantb inner matchlevel (hash2 il h) matchh' branch' mutated'
    end.

  Record cstate := mk_cstate {
    cs_inner : list T; cs_count : N; cs_matchlevel : option nat;
    cs_branch : list T; cs_mutated : bool }.

  Definition leaf_step (wantb : bool) (branchpos : N) (st : cstate) (h : T) : cstate :=
    let matchh := wantb && (cs_count st =? branchpos)%N in
    let count := (cs_count st + 1)%N in
    let '(level, h', matchh', branch, mutated) :=
      merge_loop (N.size_nat count) count 0 wantb (cs_inner st) (cs_matchlevel st)
                 h matchh (cs_branch st) (cs_mutated st) in
    mk_cstate (set_slot (cs_inner st) level h') count
              (if matchh' then Some level else cs_matchlevel st) branch mutated.

  Fixpoint lowbit_loop (fuel : nat) (count : N) (level : nat) : nat :=
    if N.testbit count (N.of_nat level) then level else
    match fuel with
    | O => level
    | S f => lowbit_loop f count (S level)
    end.

  (* for 0 == (count & (1 << level)) { ... level++ } *)
  Fixpoint close_inner (fuel : nat) (count : N) (level : nat) (wantb : bool)
           (inner : list T) (matchlevel : option nat)
           (h : T) (matchh : bool) (branch : list T) : nat * T * bool * list T :=
    if N.testbit count (N.of_nat level) then (level, h, matchh, branch) else
    match fuel with
    | O => (level, h, matchh, branch)
    | S f =>
        let il := get_slot inner level in
        let '(branch', matchh') := branch_step wantb matchh matchlevel level il h branch in
        close_inner f count (S level) wantb inner matchlevel (hash2 il h) matchh' branch'
    end.

  (* for count != (1 << level) { ... } *)
  Fixpoint close_outer (fuel : nat) (count : N) (level : nat) (wantb : bool)
           (inner : list T) (matchlevel : option nat)
           (h : T) (matchh : bool) (branch : list T) : T * list T :=
    if (count =? 2 ^ N.of_nat level)%N then (h, branch) else
    match fuel with
    | O => (h, branch)
    | S f =>
        let branch1 := if wantb && matchh then branch ++ [h] else branch in
        let h1 := hash2 h h in
        let count1 := (count + 2 ^ N.of_nat level)%N in
        let '(level2, h2, matchh2, branch2) :=
          close_inner (N.size_nat count1) count1 (S level) wantb inner matchlevel h1 matchh branch1 in
        close_outer f count1 level2 wantb inner matchlevel h2 matchh2 branch2
    end.

  Definition computation (leaves : list T) (flage : Z) (branchpos : N) : T * bool * list T :=
    match leaves with
    | [] => (nilT, false, [])
    | _ =>
      if (flage <? 1) || (3 <? flage) then (nilT, false, []) else
      let wantb := Z.testbit flage 1 in
      let st := fold_left (leaf_step wantb branchpos) leaves (mk_cstate [] 0%N None [] false) in
      let count := cs_count st in
      let level := lowbit_loop (N.size_nat count) count 0 in
      let h := get_slot (cs_inner st) level in
      let matchh := opt_nat_eqb (cs_matchlevel st) level in
      let '(root, branch) :=
        close_outer (N.size_nat count) count level wantb (cs_inner st) (cs_matchlevel st)
                    h matchh (cs_branch st) in
      (root, cs_mutated st, branch)
    end.

  Definition get_merkle_branch (leaves : list T) (position : N) : list T :=
    snd (computation leaves 2 position).

  Definition get_merkle_root_and_branch (leaves : list T) (position : N) : T * list T :=
    let '(r, _, b) := computation leaves 3 position in (r, b).

  Definition comp_root (leaves : list T) : T := fst (fst (computation leaves 1 0%N)).
  Definition comp_mutated (leaves : list T) : bool := snd (fst (computation leaves 1 0%N)).

  (** ** GetMerkleRootFromBranch *)
  Fixpoint root_from_branch (branch : list T) (hash : T) (index : N) : T :=
    match branch with
    | [] => hash
    | b :: tl =>
        let hash' := if N.odd index then hash2 b hash else hash2 hash b in
        root_from_branch tl hash' (N.div2 index)
    end.

  (** ** calcMultiLayerMerkleInfo.  A transaction is abstracted to
      (para title or None for a main-chain tx, full hash). *)
  Definition mtx : Type := (option N * T)%type.
  Record childchain := mk_child {
    cc_title : option N; (* None = "main" *)
    cc_start : nat; cc_count : nat; cc_hash : T }.

  (* the scan: returns the (title, start) list in order *)
  Fixpoint scan_chains (txs : list mtx) (i : nat) (first : option N)
    : list (option N * nat) :=
    match txs with
    | [] => []
    | (title, _) :: tl =>
        match title with
        | None =>
            if Nat.eqb i 0 then (None, 0%nat) :: scan_chains tl (S i) first
            else scan_chains tl (S i) first
        | Some t =>
            let fresh := match first with
                         | None => true
                         | Some f => negb (N.eqb t f)
                         end in
            if fresh then (Some t, i) :: scan_chains tl (S i) (Some t)
            else scan_chains tl (S i) first
        end
    end.

  Definition single_layer_root (ncpu : Z) (txs : list mtx) : T :=
    get_merkle_root_par ncpu (map snd txs).

  Fixpoint fill_chains (ncpu : Z) (txs : list mtx) (total : nat)
           (cs : list (option N * nat)) : list childchain :=
    match cs with
    | [] => []
    | (t, start) :: rest =>
        let e := match rest with
                 | [] => total
                 | (_, s2) :: _ => s2
                 end in
        let sub := firstn (e - start) (skipn start txs) in
        mk_child t start (e - start) (single_layer_root ncpu sub) :: fill_chains ncpu txs total rest
    end.

  (* returns (root, child chains); zeroHash is a parameter of the result type:
     None = the 32-byte zero hash returned for an empty list *)
  Definition multi_layer_info (ncpu : Z) (txs : list mtx) : option (T * list childchain) :=
    match txs with
    | [] => None
    | _ =>
        let cs := scan_chains txs 0 None in
        let total := length txs in
        if Nat.leb (length cs) 1 then
          let r := single_layer_root ncpu txs in
          Some (r, map (fun '(t, s) => mk_child t s total r) cs)
        else
          let chains := fill_chains ncpu txs total cs in
          Some (get_merkle_root_par ncpu (map cc_hash chains), chains)
    end.
End Merkle.

Arguments cs_inner {T}. Arguments cs_count {T}. Arguments cs_matchlevel {T}.
Arguments cs_branch {T}. Arguments cs_mutated {T}.
Arguments cc_title {T}. Arguments cc_start {T}. Arguments cc_count {T}. Arguments cc_hash {T}.
Arguments mk_child {T}.

(** ** The symbolic hash algebra: leaves are atoms, [H2] is the double SHA-256
    of the concatenation, [HNil] is Go's nil. *)
Inductive h := HNil | Leaf (n : N) | H2 (l r : h).

Definition sym_hash2 (a b : h) : h :=
  match a, b with
  | HNil, _ => HNil
  | _, HNil => HNil
  | _, _ => H2 a b
  end.

Fixpoint h_eqb (a b : h) : bool :=
  match a, b with
  | HNil, HNil => true
  | Leaf x, Leaf y => N.eqb x y
  | H2 a1 a2, H2 b1 b2 => h_eqb a1 b1 && h_eqb a2 b2
  | _, _ => false
  end.

Definition is_leaf (x : h) : bool := match x with Leaf _ => true | _ => false end.
(** every element is an atom (a transaction hash, not a tree node) *)
Definition all_leaves (l : list h) : Prop := forallb is_leaf l = true.
