(** C18 — proofs, part 9: two different lists with the same expansion: the
    longer one contains two equal aligned sibling blocks, hence is flagged as
    mutated by Computation. *)
From Coq Require Import List Arith ZArith NArith Bool Lia Relations.
From C33 Require Import C18.Model C18.Spec C18.ProofsSeq C18.ProofsBranch C18.ProofsBind C18.ProofsMut.
Import ListNotations.
Open Scope nat_scope.

Section Witness.
  Variable T : Type.

  Notation expand := (expand T).
  Notation haspair := (haspair T).

  Lemma app_eq_len : forall (a b c d : list T), length a = length c -> a ++ b = c ++ d -> a = c /\ b = d.
  Proof.
    induction a as [|x a IH]; intros b c d Hl E; destruct c as [|y c]; simpl in *; try lia.
    - auto.
    - inversion E; subst. destruct (IH b c d ltac:(lia) H1) as [E1 E2]. subst. auto.
  Qed.

  Lemma haspair_app_l : forall A B, haspair A -> haspair (A ++ B).
  Proof.
    intros A B (a & j & Hd & Hle & Heq). exists a, j. split; [exact Hd|].
    split; [rewrite app_length; lia|].
    change (2 ^ S j) with (2 * 2 ^ j) in Hle.
    rewrite !skipn_app, !firstn_app, !skipn_length.
    replace (2 ^ j - (length A - a)) with 0 by lia.
    replace (2 ^ j - (length A - (a + 2 ^ j))) with 0 by lia.
    rewrite !firstn_O, !app_nil_r. exact Heq.
  Qed.

  Lemma haspair_app_r : forall k A B, length A = 2 ^ k -> length B <= 2 ^ k ->
    haspair B -> haspair (A ++ B).
  Proof.
    intros k A B HA HB (a & j & Hd & Hle & Heq).
    assert (Hjk : S j <= k).
    { apply (Nat.pow_le_mono_r_iff 2); [lia|]. lia. }
    exists (2 ^ k + a), j. split; [|split].
    - destruct Hd as [m Hm]. exists (2 ^ (k - S j) + m).
      rewrite Nat.mul_add_distr_r, <- Nat.pow_add_r. replace (k - S j + S j) with k by lia. lia.
    - rewrite app_length. lia.
    - rewrite <- HA. rewrite !skipn_app.
      rewrite !(skipn_all2 A) by lia. cbn [app].
      replace (length A + a - length A) with a by lia.
      replace (length A + a + 2 ^ j - length A) with (a + 2 ^ j) by lia. exact Heq.
  Qed.

  Lemma witness : forall k (l l' : list T), l <> [] ->
    length l <= 2 ^ k -> length l' <= 2 ^ k ->
    expand k l = expand k l' -> length l < length l' -> haspair l'.
  Proof.
    induction k as [|k IH]; intros l l' Hne Hl Hl' He Hlt.
    - simpl in *. destruct l; [congruence|simpl in *; lia].
    - assert (Hne' : l' <> []) by (intro E; subst; simpl in Hlt; lia).
      pose proof (pow2_pos k) as Hp. cbn [Spec.expand] in He.
      change (2 ^ S k) with (2 * 2 ^ k) in Hl, Hl'.
      destruct (Nat.leb_spec (length l') (2 ^ k)) as [Hs'|Hs'].
      + destruct (Nat.leb_spec (length l) (2 ^ k)) as [Hs|Hs]; [|lia].
        apply app_eq_len in He; [|rewrite !(expand_length T) by assumption; reflexivity].
        apply (IH l l'); try assumption. apply He.
      + set (A' := firstn (2 ^ k) l') in *. set (B' := skipn (2 ^ k) l') in *.
        assert (HA' : length A' = 2 ^ k) by (unfold A'; rewrite firstn_length; lia).
        assert (HB' : length B' = length l' - 2 ^ k) by (unfold B'; apply skipn_length).
        assert (HBne : B' <> []) by (intro E; rewrite E in HB'; simpl in HB'; lia).
        assert (Hl'eq : l' = A' ++ B') by (unfold A', B'; symmetry; apply firstn_skipn).
        destruct (Nat.leb_spec (length l) (2 ^ k)) as [Hs|Hs].
        * apply app_eq_len in He;
            [|rewrite (expand_length T) by assumption; rewrite HA'; reflexivity].
          destruct He as [E1 E2].
          rewrite Hl'eq.
          destruct (Nat.eq_dec (length B') (2 ^ k)) as [Hfull|Hnf].
          -- exists 0, k. split; [exists 0; reflexivity|]. split; [rewrite app_length; simpl; lia|].
             cbn [skipn plus]. rewrite firstn_app_exact by exact HA'.
             rewrite skipn_app_exact by exact HA'. rewrite firstn_all2 by lia.
             rewrite <- (expand_full T k B' Hfull), <- E2, E1. reflexivity.
          -- apply haspair_app_l. apply (IH B' A'); try assumption; try lia.
             rewrite (expand_full T k A' HA'), <- E2, E1. reflexivity.
        * apply app_eq_len in He; [|unfold A'; rewrite !firstn_length; lia].
          destruct He as [E1 E2]. rewrite Hl'eq.
          apply (haspair_app_r k); [exact HA'|lia|].
          apply (IH (skipn (2 ^ k) l) B'); try assumption.
          -- intro E. apply (f_equal (@length T)) in E. rewrite skipn_length in E. simpl in E. lia.
          -- rewrite skipn_length. lia.
          -- lia.
          -- rewrite skipn_length. lia.
  Qed.

  Lemma expand_prefix : forall k (l : list T), l <> [] -> length l <= 2 ^ k ->
    firstn (length l) (expand k l) = l.
  Proof.
    induction k as [|k IH]; intros l Hne Hl.
    - simpl in *. destruct l as [|x [|y l]]; simpl in *; try congruence; try lia.
    - cbn [Spec.expand]. pose proof (pow2_pos k) as Hp.
      destruct (Nat.leb_spec (length l) (2 ^ k)) as [Hs|Hs].
      + rewrite firstn_app, (expand_length T) by assumption.
        replace (length l - 2 ^ k) with 0 by lia. rewrite firstn_O, app_nil_r. apply IH; assumption.
      + rewrite firstn_app, firstn_length, Nat.min_l by lia.
        rewrite firstn_all2 by (rewrite firstn_length; lia).
        rewrite <- (skipn_length (2 ^ k) l).
        rewrite IH.
        * apply firstn_skipn.
        * intro E. apply (f_equal (@length T)) in E. rewrite skipn_length in E. simpl in E. lia.
        * rewrite skipn_length. change (2 ^ S k) with (2 * 2 ^ k) in Hl. lia.
  Qed.
End Witness.

Lemma h_eqb_refl : forall x, h_eqb x x = true.
Proof.
  induction x as [|n|a IHa b IHb]; simpl; auto.
  - apply N.eqb_refl.
  - rewrite IHa, IHb. reflexivity.
Qed.

Lemma same_expansion : forall l1 l2 : list h,
  all_leaves l1 -> all_leaves l2 -> l1 <> [] -> l2 <> [] ->
  get_merkle_root h HNil sym_hash2 l1 = get_merkle_root h HNil sym_hash2 l2 ->
  exists K, length l1 <= 2 ^ K /\ length l2 <= 2 ^ K /\ expand h K l1 = expand h K l2.
Proof.
  intros l1 l2 A1 A2 N1 N2 E.
  rewrite !(root_is_spec_root h HNil sym_hash2) in E. unfold spec_root in E.
  destruct l1 as [|x1 t1] eqn:E1; [congruence|]. destruct l2 as [|x2 t2] eqn:E2; [congruence|].
  rewrite <- E1, <- E2 in *.
  set (K1 := Nat.log2_up (length l1)) in *. set (K2 := Nat.log2_up (length l2)) in *.
  assert (B1 : length l1 <= 2 ^ K1).
  { unfold K1. destruct (Nat.eq_dec (length l1) 1) as [e|e]; [rewrite e; simpl; lia|].
    apply Nat.log2_up_spec. destruct l1; [congruence|simpl in *; lia]. }
  assert (B2 : length l2 <= 2 ^ K2).
  { unfold K2. destruct (Nat.eq_dec (length l2) 1) as [e|e]; [rewrite e; simpl; lia|].
    apply Nat.log2_up_spec. destruct l2; [congruence|simpl in *; lia]. }
  assert (HK : K1 = K2).
  { pose proof (proj2 (smroot_shape K1 l1 N1 B1 A1)) as D1.
    pose proof (proj2 (smroot_shape K2 l2 N2 B2 A2)) as D2.
    rewrite E in D1. congruence. }
  rewrite <- HK in E, B2.
  exists K1. split; [exact B1|]. split; [exact B2|].
  apply smroot_inj; assumption.
Qed.

Theorem binding_mutated : forall l1 l2 : list h,
  all_leaves l1 -> all_leaves l2 -> l1 <> [] -> l2 <> [] ->
  get_merkle_root h HNil sym_hash2 l1 = get_merkle_root h HNil sym_hash2 l2 ->
  l1 = l2 \/
  (l1 <> l2 /\ dup_tail_related h l1 l2 /\
   (if length l1 <? length l2
    then comp_mutated h HNil sym_hash2 h_eqb l2 = true
    else comp_mutated h HNil sym_hash2 h_eqb l1 = true)).
Proof.
  intros l1 l2 A1 A2 N1 N2 E.
  destruct (binding l1 l2 A1 A2 N1 N2 E) as [Eq|[Ne Hrel]]; [left; exact Eq|right].
  split; [exact Ne|]. split; [exact Hrel|].
  destruct (same_expansion l1 l2 A1 A2 N1 N2 E) as (K & B1 & B2 & Hex).
  destruct (Nat.ltb_spec (length l1) (length l2)) as [Hlt|Hge].
  - apply pair_flagged; [exact h_eqb_refl|].
    apply (witness h K l1 l2); assumption.
  - apply pair_flagged; [exact h_eqb_refl|].
    apply (witness h K l2 l1); try assumption; [symmetry; exact Hex|].
    destruct (Nat.eq_dec (length l1) (length l2)) as [El|El]; [exfalso|lia].
    apply Ne. rewrite <- (expand_prefix h K l1 N1 B1), <- (expand_prefix h K l2 N2 B2), Hex, El.
    reflexivity.
Qed.
