(** C18 — proofs, part 6: binding.  Lists related by the duplicated-tail
    pattern have the same root (any hash function); in the symbolic hash
    algebra (leaves are atoms, H2 is injective) equal roots imply that the two
    lists are related by that pattern. *)
From Coq Require Import List Arith ZArith NArith Bool Lia Relations.
From C33 Require Import C18.Model C18.Spec C18.ProofsSeq C18.ProofsBranch.
Import ListNotations.
Open Scope nat_scope.

Section DupSound.
  Variable T : Type.
  Variable nilT : T.
  Variable hash2 : T -> T -> T.

  Notation red := (red T hash2).
  Notation redk := (redk T hash2).
  Notation get_merkle_root := (get_merkle_root T nilT hash2).

  Lemma redk_length : forall k m l, length l = m * 2 ^ k -> length (redk k l) = m.
  Proof.
    induction k as [|k IH]; intros m l Hl.
    - simpl in *. lia.
    - cbn [ProofsSeq.redk]. apply IH. rewrite red_length, Hl.
      replace (S (m * 2 ^ S k)) with (1 + 2 * (m * 2 ^ k)) by (simpl; lia).
      rewrite Nat.div2_succ_double. reflexivity.
  Qed.

  Theorem dup_step_same_root : forall l1 l2, dup_step T l1 l2 ->
    get_merkle_root l1 = get_merkle_root l2.
  Proof.
    intros l1 l2 H. destruct H as [p t j Hp Ht [m Hm]].
    pose proof (pow2_pos j) as Hpos.
    assert (Hm0 : m <> 0).
    { intro E. subst m. simpl in Hm. destruct p; [congruence|simpl in Hm; lia]. }
    assert (Hpl : length p = (2 * m) * 2 ^ j) by (rewrite Hm; simpl; lia).
    rewrite <- (root_redk T nilT hash2 j (p ++ t)) by (rewrite app_length; lia).
    rewrite <- (root_redk T nilT hash2 j (p ++ t ++ t)) by (rewrite !app_length; lia).
    rewrite (redk_app T hash2 j (2 * m)) by exact Hpl.
    rewrite (redk_app T hash2 j (2 * m) p) by exact Hpl.
    rewrite (redk_app T hash2 j 1 t t) by lia.
    set (X := redk j p). set (tt := redk j t).
    assert (HX : length X = 2 * m) by (apply redk_length; exact Hpl).
    assert (Htt : length tt = 1) by (apply redk_length; lia).
    destruct tt as [|y [|z tt']]; simpl in Htt; try lia.
    rewrite (root_red T nilT hash2 (X ++ [y])) by (rewrite app_length; simpl; lia).
    rewrite (root_red T nilT hash2 (X ++ [y] ++ [y])) by (rewrite !app_length; simpl; lia).
    rewrite !red_app by (exists m; lia). reflexivity.
  Qed.

  Theorem related_same_root : forall l1 l2, dup_tail_related T l1 l2 ->
    get_merkle_root l1 = get_merkle_root l2.
  Proof.
    intros l1 l2 H. induction H as [x y H|x|x y H IH|x y z H1 IH1 H2 IH2].
    - apply dup_step_same_root. exact H.
    - reflexivity.
    - symmetry. exact IH.
    - congruence.
  Qed.

  (** every list is related to its full expansion *)
  Lemma expand_length : forall k (B : list T), B <> [] -> length B <= 2 ^ k ->
    length (expand T k B) = 2 ^ k.
  Proof.
    induction k as [|k IH]; intros B Hne Hl.
    - simpl in *. destruct B as [|x [|y B]]; simpl in *; try congruence; lia.
    - cbn [expand]. destruct (Nat.leb_spec (length B) (2 ^ k)) as [Hs|Hs].
      + rewrite app_length, IH by assumption. simpl. lia.
      + rewrite app_length, firstn_length, IH.
        * simpl. lia.
        * intro E. apply (f_equal (@length T)) in E. rewrite skipn_length in E. simpl in E. lia.
        * rewrite skipn_length. simpl in Hl. lia.
  Qed.

  Lemma expand_full : forall k (B : list T), length B = 2 ^ k -> expand T k B = B.
  Proof.
    induction k as [|k IH]; intros B Hl.
    - simpl in *. destruct B as [|x [|y B]]; simpl in *; try lia. reflexivity.
    - cbn [expand]. pose proof (pow2_pos k). simpl in Hl.
      destruct (Nat.leb_spec (length B) (2 ^ k)); [lia|].
      rewrite IH by (rewrite skipn_length; lia). apply firstn_skipn.
  Qed.

  Lemma steps_chain : forall k (B P : list T), B <> [] -> length B <= 2 ^ k ->
    P <> [] -> Nat.divide (2 ^ k) (length P) ->
    clos_refl_trans _ (dup_step T) (P ++ B) (P ++ expand T k B).
  Proof.
    induction k as [|k IH]; intros B P Hne Hl HP Hdiv.
    - simpl in *. destruct B as [|x [|y B]]; simpl in *; try congruence; try lia. apply rt_refl.
    - cbn [expand]. destruct (Nat.leb_spec (length B) (2 ^ k)) as [Hs|Hs].
      + eapply rt_trans.
        * apply IH; try assumption. destruct Hdiv as [m Hm]. exists (2 * m). rewrite Hm. simpl. lia.
        * apply rt_step. apply (dup_step_intro T P (expand T k B) k); try assumption.
          apply expand_length; assumption.
      + rewrite <- (firstn_skipn (2 ^ k) B) at 1.
        rewrite !app_assoc. apply IH.
        * intro E. apply (f_equal (@length T)) in E. rewrite skipn_length in E. simpl in E. lia.
        * rewrite skipn_length. simpl in Hl. lia.
        * destruct P; [congruence|discriminate].
        * rewrite app_length, firstn_length, Nat.min_l by lia.
          destruct Hdiv as [m Hm]. exists (2 * m + 1). rewrite Hm. simpl. lia.
  Qed.

  Lemma related_expand : forall (l : list T), l <> [] ->
    dup_tail_related T l (expand T (Nat.log2_up (length l)) l).
  Proof.
    intros l Hne. unfold dup_tail_related.
    destruct (Nat.eq_dec (length l) 1) as [E1|E1].
    - rewrite E1. change (Nat.log2_up 1) with 0. simpl.
      destruct l as [|x [|y l]]; simpl in *; try congruence; try lia. apply rst_refl.
    - assert (Hgt : 1 < length l) by (destruct l; [congruence|simpl in *; lia]).
      pose proof (Nat.log2_up_spec _ Hgt) as [Ha Hb].
      assert (HK : 0 < Nat.log2_up (length l)) by (apply Nat.log2_up_pos; lia).
      destruct (Nat.log2_up (length l)) as [|k]; [lia|]. cbn [Nat.pred] in Ha.
      cbn [expand]. destruct (Nat.leb_spec (length l) (2 ^ k)); [lia|].
      rewrite <- (firstn_skipn (2 ^ k) l) at 1.
      apply clos_rt_clos_rst. apply steps_chain.
      + intro E. apply (f_equal (@length T)) in E. rewrite skipn_length in E. simpl in E. lia.
      + rewrite skipn_length. simpl in Hb. lia.
      + intro E. apply (f_equal (@length T)) in E. rewrite firstn_length in E. simpl in E.
        pose proof (pow2_pos k). lia.
      + rewrite firstn_length, Nat.min_l by lia. exists 1. lia.
  Qed.
End DupSound.

(** ** the symbolic algebra *)
Notation smroot := (mroot h HNil sym_hash2).

Fixpoint ldepth (x : h) : nat :=
  match x with
  | H2 a _ => S (ldepth a)
  | _ => 0
  end.

Definition parts (k : nat) (l : list h) : list h * list h :=
  if length l <=? 2 ^ k then (l, l) else (firstn (2 ^ k) l, skipn (2 ^ k) l).

Lemma all_leaves_firstn : forall n l, all_leaves l -> all_leaves (firstn n l).
Proof.
  unfold all_leaves. induction n as [|n IH]; intros [|x l] H; simpl in *; auto.
  apply andb_true_iff in H as [H1 H2]. rewrite H1, IH by assumption. reflexivity.
Qed.

Lemma all_leaves_skipn : forall n l, all_leaves l -> all_leaves (skipn n l).
Proof.
  unfold all_leaves. induction n as [|n IH]; intros [|x l] H; simpl in *; auto.
  apply andb_true_iff in H as [H1 H2]. apply IH. exact H2.
Qed.

Lemma parts_ok : forall k l, l <> [] -> length l <= 2 ^ S k -> all_leaves l ->
  let '(A, B) := parts k l in
  A <> [] /\ B <> [] /\ length A <= 2 ^ k /\ length B <= 2 ^ k /\ all_leaves A /\ all_leaves B /\
  smroot (S k) l = sym_hash2 (smroot k A) (smroot k B) /\
  expand h (S k) l = expand h k A ++ expand h k B.
Proof.
  intros k l Hne Hl Hal. unfold parts. cbn [mroot expand].
  pose proof (pow2_pos k) as Hp.
  destruct (Nat.leb_spec (length l) (2 ^ k)) as [Hs|Hs].
  - repeat split; auto.
  - assert (Hf : length (firstn (2 ^ k) l) = 2 ^ k) by (rewrite firstn_length; lia).
    assert (Hsk : length (skipn (2 ^ k) l) = length l - 2 ^ k) by apply skipn_length.
    simpl in Hl.
    repeat split.
    + intro E. rewrite E in Hf. simpl in Hf. lia.
    + intro E. rewrite E in Hsk. simpl in Hsk. lia.
    + lia.
    + lia.
    + apply all_leaves_firstn; exact Hal.
    + apply all_leaves_skipn; exact Hal.
    + rewrite (expand_full h k (firstn (2 ^ k) l)) by exact Hf. reflexivity.
Qed.

Lemma smroot_shape : forall k l, l <> [] -> length l <= 2 ^ k -> all_leaves l ->
  smroot k l <> HNil /\ ldepth (smroot k l) = k.
Proof.
  induction k as [|k IH]; intros l Hne Hl Hal.
  - simpl in Hl. destruct l as [|x [|y l]]; simpl in *; try congruence; try lia.
    unfold all_leaves in Hal. simpl in Hal. destruct x; simpl in *; try discriminate.
    split; [discriminate|reflexivity].
  - pose proof (parts_ok k l Hne Hl Hal) as H. destruct (parts k l) as [A B].
    destruct H as (HA & HB & HAl & HBl & HAa & HBa & Hr & _).
    destruct (IH A HA HAl HAa) as [NA DA]. destruct (IH B HB HBl HBa) as [NB DB].
    rewrite Hr. destruct (smroot k A) eqn:EA; try congruence; destruct (smroot k B) eqn:EB; try congruence;
      simpl in *; split; try discriminate; congruence.
Qed.

Lemma sym_hash2_inj : forall a b c d, a <> HNil -> b <> HNil -> c <> HNil -> d <> HNil ->
  sym_hash2 a b = sym_hash2 c d -> a = c /\ b = d.
Proof.
  intros a b c d Ha Hb Hc Hd H.
  destruct a; try congruence; destruct b; try congruence; destruct c; try congruence;
    destruct d; try congruence; simpl in H; inversion H; auto.
Qed.

Lemma smroot_inj : forall k l1 l2,
  l1 <> [] -> l2 <> [] -> length l1 <= 2 ^ k -> length l2 <= 2 ^ k ->
  all_leaves l1 -> all_leaves l2 ->
  smroot k l1 = smroot k l2 -> expand h k l1 = expand h k l2.
Proof.
  induction k as [|k IH]; intros l1 l2 N1 N2 L1 L2 A1 A2 E.
  - simpl in *. destruct l1 as [|x [|y l1]]; simpl in *; try congruence; try lia.
    destruct l2 as [|x' [|y' l2]]; simpl in *; try congruence; try lia.
  - pose proof (parts_ok k l1 N1 L1 A1) as H1. destruct (parts k l1) as [P1 Q1].
    pose proof (parts_ok k l2 N2 L2 A2) as H2. destruct (parts k l2) as [P2 Q2].
    destruct H1 as (a1 & a2 & a3 & a4 & a5 & a6 & R1 & X1).
    destruct H2 as (b1 & b2 & b3 & b4 & b5 & b6 & R2 & X2).
    rewrite R1, R2 in E.
    apply sym_hash2_inj in E; try (apply smroot_shape; assumption).
    destruct E as [EP EQ].
    rewrite X1, X2. f_equal; apply IH; assumption.
Qed.

Lemma h_eq_dec : forall a b : h, {a = b} + {a <> b}.
Proof. decide equality. apply N.eq_dec. Qed.

Theorem binding : forall l1 l2, all_leaves l1 -> all_leaves l2 -> l1 <> [] -> l2 <> [] ->
  get_merkle_root h HNil sym_hash2 l1 = get_merkle_root h HNil sym_hash2 l2 ->
  l1 = l2 \/ (l1 <> l2 /\ dup_tail_related h l1 l2).
Proof.
  intros l1 l2 A1 A2 N1 N2 E.
  destruct (list_eq_dec h_eq_dec l1 l2) as [Eq|Ne]; [left; exact Eq|right].
  split; [exact Ne|].
  rewrite !(root_is_spec_root h HNil sym_hash2) in E. unfold spec_root in E.
  destruct l1 as [|x1 t1] eqn:E1; [congruence|]. destruct l2 as [|x2 t2] eqn:E2; [congruence|].
  rewrite <- E1, <- E2 in *.
  set (K1 := Nat.log2_up (length l1)) in *. set (K2 := Nat.log2_up (length l2)) in *.
  assert (B1 : length l1 <= 2 ^ K1).
  { unfold K1. destruct (Nat.eq_dec (length l1) 1) as [e|e]; [rewrite e; simpl; lia|].
    apply Nat.log2_up_spec. destruct l1; [congruence|simpl in *; lia]. }
  assert (B2 : length l2 <= 2 ^ K2).
  { unfold K2. destruct (Nat.eq_dec (length l2) 1) as [e|e]; [rewrite e; simpl; lia|].
    apply Nat.log2_up_spec. destruct l2; [congruence|simpl in *; lia]. }
  assert (HK : K1 = K2).
  { pose proof (proj2 (smroot_shape K1 l1 N1 B1 A1)) as D1.
    pose proof (proj2 (smroot_shape K2 l2 N2 B2 A2)) as D2.
    rewrite E in D1. congruence. }
  rewrite <- HK in E, B2.
  pose proof (smroot_inj K1 l1 l2 N1 N2 B1 B2 A1 A2 E) as Hex.
  unfold dup_tail_related.
  eapply rst_trans; [apply (related_expand h l1 N1)|].
  fold K1. rewrite Hex. apply rst_sym. rewrite HK. apply (related_expand h l2 N2).
Qed.
