(** C18 — proofs, part 4: the constant-space algorithm (Computation), main loop.

    Invariant: the binary representation of [count] describes a decomposition
    of the processed prefix into aligned perfect blocks, one per set bit,
    whose tree roots sit in [inner]; [matchlevel]/[branch] describe the path of
    the requested position inside the block that contains it. *)
From Coq Require Import List Arith ZArith NArith Bool Lia.
From C33 Require Import C18.Model C18.Spec C18.ProofsSeq C18.ProofsBranch.
Import ListNotations.
Open Scope nat_scope.

Lemma size_nat_sd : forall m, N.size_nat (N.succ_double m) = S (N.size_nat m).
Proof. destruct m; reflexivity. Qed.

Lemma size_nat_double : forall m, m <> 0%N -> N.size_nat (N.double m) = S (N.size_nat m).
Proof. destruct m; [congruence|reflexivity]. Qed.

Lemma size_nat_mono : forall a b, (a <= b)%N -> N.size_nat a <= N.size_nat b.
Proof.
  intros [|p] [|q] H; simpl; try lia.
  destruct (Pos.eq_dec p q) as [E|E]; [subst; lia|].
  apply Pos.size_nat_monotone. lia.
Qed.

Lemma testbit_mul_pow2 : forall a lv, N.testbit (a * 2 ^ N.of_nat lv) (N.of_nat lv) = N.odd a.
Proof.
  intros a lv. rewrite <- (N.add_0_l (N.of_nat lv)) at 2.
  rewrite N.mul_pow2_bits_add. apply N.bit0_odd.
Qed.

Lemma pow2_S_N : forall lv, (2 ^ N.of_nat (S lv) = 2 * 2 ^ N.of_nat lv)%N.
Proof. intro lv. rewrite Nat2N.inj_succ, N.pow_succ_r'. reflexivity. Qed.

Lemma odd_succ_double : forall n, N.odd (N.succ_double n) = true.
Proof. destruct n; reflexivity. Qed.

Lemma odd_double : forall n, N.odd (N.double n) = false.
Proof. destruct n; reflexivity. Qed.

Lemma double_plus1 : forall n, (N.double n + 1 = N.succ_double n)%N.
Proof. intros [|p]; reflexivity. Qed.

Lemma sd_plus1 : forall n, (N.succ_double n + 1 = N.double (n + 1))%N.
Proof. intros [|p]; [reflexivity|]. simpl. rewrite Pos.add_1_r. reflexivity. Qed.

Section Comp.
  Variable T : Type.
  Variable nilT : T.
  Variable hash2 : T -> T -> T.
  Variable eqT : T -> T -> bool.
  Variable wantb : bool.
  Variable posN : N.

  Notation mroot := (mroot T nilT hash2).
  Notation mbranch := (mbranch T nilT hash2).
  Notation get_slot := (get_slot T nilT).
  Notation set_slot := (set_slot T nilT).
  Notation merge_loop := (merge_loop T nilT hash2 eqT).

  Definition pos : nat := N.to_nat posN.

  Definition inr (a w : nat) : Prop := wantb = true /\ a <= pos < a + w.

  Definition blk (lv : nat) (p' B inner : list T) (ml : option nat) (br : list T) : Prop :=
    length B = 2 ^ lv /\ get_slot inner lv = mroot lv B /\
    (ml = Some lv <-> inr (length p') (2 ^ lv)) /\
    (ml = Some lv -> br = mbranch lv B (pos - length p')).

  Fixpoint decp (q : positive) (lv : nat) (p inner : list T) (ml : option nat) (br : list T) : Prop :=
    match q with
    | xH => blk lv [] p inner ml br /\ (forall m, lv < m -> ml <> Some m)
    | xO q' => ml <> Some lv /\ decp q' (S lv) p inner ml br
    | xI q' => exists p' B, p = p' ++ B /\ blk lv p' B inner ml br /\ decp q' (S lv) p' inner ml br
    end.

  Definition dec (q : N) (lv : nat) (p inner : list T) (ml : option nat) (br : list T) : Prop :=
    match q with
    | N0 => p = [] /\ (forall m, lv <= m -> ml <> Some m)
    | Npos q => decp q lv p inner ml br
    end.

  Lemma dec_sd : forall q lv p inner ml br,
    dec (N.succ_double q) lv p inner ml br <->
    exists p' B, p = p' ++ B /\ blk lv p' B inner ml br /\ dec q (S lv) p' inner ml br.
  Proof.
    intros [|q] lv p inner ml br; [|reflexivity].
    cbn [N.succ_double dec decp]. split.
    - intros [Hb Hm]. exists [], p. split; [reflexivity|]. split; [exact Hb|].
      split; [reflexivity|]. intros m Hle. apply Hm. lia.
    - intros (p' & B & Hp & Hb & Hp' & Hm). subst p'. simpl in Hp. subst B.
      split; [exact Hb|]. intros m Hlt. apply Hm. lia.
  Qed.

  Lemma dec_d : forall q lv p inner ml br,
    dec (N.double q) lv p inner ml br <->
    (ml <> Some lv /\ dec q (S lv) p inner ml br).
  Proof.
    intros [|q] lv p inner ml br; [|reflexivity].
    cbn [N.double dec]. split.
    - intros [Hp Hm]. split; [apply Hm; lia|]. split; [exact Hp|]. intros m Hle. apply Hm. lia.
    - intros (H0 & Hp & Hm). split; [exact Hp|]. intros m Hle.
      destruct (Nat.eq_dec m lv) as [E|E]; [subst; exact H0|apply Hm; lia].
  Qed.

  Lemma get_set_same : forall inner lv v, get_slot (set_slot inner lv v) lv = v.
  Proof.
    intros inner lv. revert inner. induction lv as [|lv IH]; intros [|x inner] v; simpl; auto.
  Qed.

  Lemma get_set_other : forall inner lv j v, j <> lv -> get_slot (set_slot inner lv v) j = get_slot inner j.
  Proof.
    intros inner lv. revert inner. induction lv as [|lv IH]; intros [|x inner] j v Hj.
    - destruct j as [|j]; [congruence|]. simpl. destruct j; reflexivity.
    - destruct j as [|j]; [congruence|]. reflexivity.
    - destruct j as [|j]; [reflexivity|]. simpl.
      change (nth j (set_slot [] lv v) nilT) with (get_slot (set_slot [] lv v) j).
      rewrite IH by lia. unfold Model.get_slot. destruct j; reflexivity.
    - destruct j as [|j]; [reflexivity|]. simpl. apply IH. lia.
  Qed.

  (** slots below the current level and (when the position is outside) the
      branch bookkeeping do not matter *)
  Lemma blk_ext : forall lv p' B inner inner' ml br,
    get_slot inner' lv = get_slot inner lv ->
    blk lv p' B inner ml br -> blk lv p' B inner' ml br.
  Proof.
    intros lv p' B inner inner' ml br Hs (H1 & H2 & H3 & H4).
    split; [exact H1|]. split; [rewrite Hs; exact H2|]. split; [exact H3|exact H4].
  Qed.

  Lemma decp_ext : forall q lv p inner inner' ml br,
    (forall j, lv <= j -> get_slot inner' j = get_slot inner j) ->
    decp q lv p inner ml br -> decp q lv p inner' ml br.
  Proof.
    induction q as [q IH|q IH|]; intros lv p inner inner' ml br Hs; cbn [decp].
    - intros (p' & B & Hp & Hb & Hd). exists p', B. split; [exact Hp|].
      split; [eapply blk_ext; [apply Hs; lia|exact Hb]|].
      eapply IH; [|exact Hd]. intros j Hj. apply Hs. lia.
    - intros [H0 Hd]. split; [exact H0|]. eapply IH; [|exact Hd]. intros j Hj. apply Hs. lia.
    - intros [Hb Hm]. split; [|exact Hm].
      eapply blk_ext; [apply Hs; lia|exact Hb].
  Qed.

  Lemma dec_ext : forall q lv p inner inner' ml br,
    (forall j, lv <= j -> get_slot inner' j = get_slot inner j) ->
    dec q lv p inner ml br -> dec q lv p inner' ml br.
  Proof. intros [|q]; [auto|apply decp_ext]. Qed.

  Definition outside (n : nat) : Prop := wantb = false \/ n <= pos.

  Lemma outside_not_inr : forall n a w, outside n -> a + w <= n -> ~ inr a w.
  Proof. intros n a w [Ho|Ho] Hle [Hw Hr]; [congruence|lia]. Qed.

  Lemma decp_ml_out : forall q lv p inner ml br,
    decp q lv p inner ml br -> outside (length p) -> forall m, lv <= m -> ml <> Some m.
  Proof.
    induction q as [q IH|q IH|]; intros lv p inner ml br; cbn [decp].
    - intros (p' & B & Hp & (H1 & H2 & H3 & H4) & Hd) Ho m Hm.
      subst p. rewrite app_length in Ho.
      destruct (Nat.eq_dec m lv) as [E|E].
      + subst m. intro Hc. apply H3 in Hc. revert Hc. eapply outside_not_inr; [exact Ho|lia].
      + eapply IH; [exact Hd| |lia]. destruct Ho as [Ho|Ho]; [left; exact Ho|right; lia].
    - intros [H0 Hd] Ho m Hm.
      destruct (Nat.eq_dec m lv) as [E|E]; [subst; exact H0|].
      eapply IH; [exact Hd|exact Ho|lia].
    - intros [(H1 & H2 & H3 & H4) Hm'] Ho m Hm.
      destruct (Nat.eq_dec m lv) as [E|E]; [|apply Hm'; lia].
      subst m. intro Hc. apply H3 in Hc. revert Hc. eapply outside_not_inr; [exact Ho|simpl; lia].
  Qed.

  Lemma dec_ml_out : forall q lv p inner ml br,
    dec q lv p inner ml br -> outside (length p) -> forall m, lv <= m -> ml <> Some m.
  Proof.
    intros [|q] lv p inner ml br; [|apply decp_ml_out].
    intros [_ Hm] _. exact Hm.
  Qed.

  Lemma decp_reset : forall q lv p inner inner' ml ml' br br',
    decp q lv p inner ml br -> outside (length p) ->
    (forall m, lv <= m -> ml' <> Some m) ->
    (forall j, lv <= j -> get_slot inner' j = get_slot inner j) ->
    decp q lv p inner' ml' br'.
  Proof.
    induction q as [q IH|q IH|]; intros lv p inner inner' ml ml' br br'; cbn [decp].
    - intros (p' & B & Hp & (H1 & H2 & H3 & H4) & Hd) Ho Hm Hs.
      exists p', B. split; [exact Hp|]. subst p. rewrite app_length in Ho. split.
      + split; [exact H1|]. split; [rewrite Hs by lia; exact H2|]. split.
        * split; [intro Hc; exfalso; revert Hc; apply Hm; lia|].
          intro Hc. exfalso. revert Hc. eapply outside_not_inr; [exact Ho|lia].
        * intro Hc. exfalso. revert Hc. apply Hm. lia.
      + eapply IH; [exact Hd| | |].
        * destruct Ho as [Ho|Ho]; [left; exact Ho|right; lia].
        * intros m Hle. apply Hm. lia.
        * intros j Hj. apply Hs. lia.
    - intros [H0 Hd] Ho Hm Hs. split; [apply Hm; lia|].
      eapply IH; [exact Hd|exact Ho| |]; intros; [apply Hm|apply Hs]; lia.
    - intros [(H1 & H2 & H3 & H4) Hm'] Ho Hm Hs. split; [|intros m Hlt; apply Hm; lia].
      split; [exact H1|]. split; [rewrite Hs by lia; exact H2|]. split.
      * split; [intro Hc; exfalso; revert Hc; apply Hm; lia|].
        intro Hc. exfalso. revert Hc. eapply outside_not_inr; [exact Ho|simpl; lia].
      * intro Hc. exfalso. revert Hc. apply Hm. lia.
  Qed.

  Lemma dec_reset : forall q lv p inner inner' ml ml' br br',
    dec q lv p inner ml br -> outside (length p) ->
    (forall m, lv <= m -> ml' <> Some m) ->
    (forall j, lv <= j -> get_slot inner' j = get_slot inner j) ->
    dec q lv p inner' ml' br'.
  Proof.
    intros [|q] lv p inner inner' ml ml' br br'; [|apply decp_reset].
    intros [Hp _] _ Hm _. split; [exact Hp|exact Hm].
  Qed.

  (** changing only the branch when the position is outside *)
  Lemma dec_rebranch : forall q lv p inner ml br br',
    dec q lv p inner ml br -> outside (length p) -> dec q lv p inner ml br'.
  Proof.
    intros q lv p inner ml br br' Hd Ho.
    eapply dec_reset; [exact Hd|exact Ho| |reflexivity].
    eapply dec_ml_out; eassumption.
  Qed.

  Lemma pow2_pos' : forall k, 0 < 2 ^ k.
  Proof. intro k. pose proof (Nat.pow_nonzero 2 k). lia. Qed.

  Lemma nonempty_of_len : forall (B : list T) k, length B = 2 ^ k -> B <> [].
  Proof. intros B k H E. subst. simpl in H. pose proof (pow2_pos' k). lia. Qed.

  (** ** the merging loop of the main loop *)
  Lemma merge_loop_exit : forall fuel count lv inner ml h matchh br mut,
    N.testbit count (N.of_nat lv) = true ->
    merge_loop fuel count lv wantb inner ml h matchh br mut = (lv, h, matchh, br, mut).
  Proof. intros [|f] count lv inner ml h matchh br mut H; cbn [Model.merge_loop]; rewrite H; reflexivity. Qed.

  Lemma merge_loop_step : forall f count lv inner ml h matchh br mut,
    N.testbit count (N.of_nat lv) = false ->
    merge_loop (S f) count lv wantb inner ml h matchh br mut =
    (let il := get_slot inner lv in
     let '(br', matchh') := branch_step T wantb matchh ml lv il h br in
     merge_loop f count (S lv) wantb inner ml (hash2 il h) matchh' br'
                (if eqT il h then true else mut)).
  Proof. intros f count lv inner ml h matchh br mut H. cbn [Model.merge_loop]. rewrite H. reflexivity. Qed.

  Lemma opt_nat_eqb_iff : forall ml lv, opt_nat_eqb ml lv = true <-> ml = Some lv.
  Proof.
    intros [m|] lv; simpl; [|split; congruence].
    rewrite Nat.eqb_eq. split; congruence.
  Qed.

  (** what one branch_step does: the left block [B0] (full, in [inner]) is joined
      with the right block [B] (possibly ragged) whose root is the running hash *)
  Lemma branch_step_spec : forall lv p'' B0 B inner ml br matchh br2 matchh2,
    blk lv p'' B0 inner ml br ->
    B <> [] -> length B <= 2 ^ lv ->
    (matchh = true <-> inr (length p'' + 2 ^ lv) (length B)) ->
    (matchh = true -> br = mbranch lv B (pos - (length p'' + 2 ^ lv))) ->
    branch_step T wantb matchh ml lv (get_slot inner lv) (mroot lv B) br = (br2, matchh2) ->
    (matchh2 = true <-> inr (length p'') (2 ^ lv + length B)) /\
    (matchh2 = true -> br2 = mbranch (S lv) (B0 ++ B) (pos - length p'')) /\
    (matchh = true -> matchh2 = true) /\
    (matchh2 = false -> br2 = br /\ ml <> Some lv).
  Proof.
    intros lv p'' B0 B inner ml br matchh br2 matchh2 (HB0 & Hsl & Hml & Hbr) HBne HBle Hm Hmb.
    unfold branch_step, inr in *.
    destruct wantb eqn:Hw.
    - destruct matchh.
      + intro E. inversion E; subst br2 matchh2. clear E.
        destruct (proj1 Hm eq_refl) as [_ Hr].
        split; [split; [intros _; split; [reflexivity|lia]|reflexivity]|].
        split; [|split; [reflexivity|discriminate]].
        intros _. rewrite Hsl, (Hmb eq_refl).
        rewrite mbranch_join_right by (try assumption; lia).
        f_equal. f_equal. lia.
      + destruct (opt_nat_eqb ml lv) eqn:Eml.
        * intro E. inversion E; subst br2 matchh2. clear E.
          apply opt_nat_eqb_iff in Eml.
          destruct (proj1 Hml Eml) as [_ Hr].
          split; [split; [intros _; split; [reflexivity|lia]|reflexivity]|].
          split; [|split; [discriminate|discriminate]].
          intros _. rewrite (Hbr Eml).
          rewrite mbranch_join_left by (try assumption; lia). reflexivity.
        * intro E. inversion E; subst br2 matchh2. clear E.
          assert (Hne : ml <> Some lv).
          { intro Hc. apply opt_nat_eqb_iff in Hc. congruence. }
          split.
          { split; [discriminate|]. intros [_ Hr]. exfalso.
            destruct (Nat.lt_ge_cases pos (length p'' + 2 ^ lv)) as [Hlt|Hge].
            - apply Hne, Hml. split; [reflexivity|lia].
            - assert (false = true) by (apply Hm; split; [reflexivity|lia]). discriminate. }
          split; [discriminate|]. split; [discriminate|]. intros _. split; [reflexivity|exact Hne].
    - intro E. assert (matchh = false).
      { destruct matchh; [|reflexivity]. destruct (proj1 Hm eq_refl). discriminate. }
      subst matchh. inversion E; subst br2 matchh2. clear E.
      split; [split; [discriminate|intros [Hc _]; discriminate]|].
      split; [discriminate|]. split; [discriminate|]. intros _. split; [reflexivity|].
      intro Hc. apply Hml in Hc. destruct Hc. discriminate.
  Qed.

  (** ** the merge loop: adds the block [B] (root [h], level [lv]) to the
      decomposition [q] of [p_hi] (levels >= lv); lower bits of the old count
      are all ones, so the new count is (q+1) * 2^lv. *)
  Lemma merge_spec : forall q lv fuel p_hi B inner ml h matchh br mut,
    dec q lv p_hi inner ml br ->
    length B = 2 ^ lv -> h = mroot lv B ->
    (matchh = true <-> inr (length p_hi) (2 ^ lv)) ->
    (matchh = true -> br = mbranch lv B (pos - length p_hi)) ->
    N.size_nat (q + 1) <= fuel ->
    exists level' h' matchh' br' mut',
      merge_loop fuel ((q + 1) * 2 ^ N.of_nat lv) lv wantb inner ml h matchh br mut
        = (level', h', matchh', br', mut') /\
      lv <= level' /\
      dec (q + 1) lv (p_hi ++ B) (set_slot inner level' h')
          (if matchh' then Some level' else ml) br' /\
      (matchh = true -> matchh' = true) /\
      (matchh' = false -> br' = br) /\
      (matchh' = true -> wantb = true /\ pos < length p_hi + length B).
  Proof.
    induction q as [|n IH|n IH] using N.binary_ind;
      intros lv fuel p_hi B inner ml h matchh br mut Hd HB Hh Hm Hmb Hf.
    - (* q = 0 *)
      destruct Hd as [Hp Hml]. subst p_hi.
      rewrite merge_loop_exit by (rewrite testbit_mul_pow2; reflexivity).
      exists lv, h, matchh, br, mut. split; [reflexivity|]. split; [lia|].
      split; [|split; [auto|split; [auto|]]].
      + change (0 + 1)%N with 1%N. cbn [dec decp app]. split.
        * split; [exact HB|]. split; [rewrite get_set_same; exact Hh|]. split.
          -- destruct matchh.
             ++ split; [intros _; apply Hm; reflexivity|reflexivity].
             ++ split; [intro Hc; exfalso; revert Hc; apply Hml; lia|].
                intro Hc. apply Hm in Hc. discriminate.
          -- destruct matchh; [intros _; apply Hmb; reflexivity|].
             intro Hc. exfalso. revert Hc. apply Hml. lia.
        * intros m Hlt. destruct matchh; [intro Hc; inversion Hc; lia|apply Hml; lia].
      + intro E. apply Hm in E. destruct E as [Hw Hr]. simpl in Hr. split; [exact Hw|]. rewrite HB. simpl. lia.
    - (* q = double n: bit lv of the old count is 0 -> stop here *)
      rewrite merge_loop_exit.
      2:{ rewrite testbit_mul_pow2, double_plus1. apply odd_succ_double. }
      exists lv, h, matchh, br, mut. split; [reflexivity|]. split; [lia|].
      apply dec_d in Hd. destruct Hd as [Hml Hd].
      split; [|split; [auto|split; [auto|]]].
      + rewrite double_plus1.
        apply dec_sd. exists p_hi, B. split; [reflexivity|]. split.
        * split; [exact HB|]. split; [rewrite get_set_same; exact Hh|]. split.
          -- destruct matchh.
             ++ split; [intros _; apply Hm; reflexivity|reflexivity].
             ++ split; [intro Hc; exfalso; exact (Hml Hc)|].
                intro Hc. apply Hm in Hc. discriminate.
          -- destruct matchh; [intros _; apply Hmb; reflexivity|].
             intro Hc. exfalso. exact (Hml Hc).
        * destruct matchh.
          -- eapply dec_reset; [exact Hd| | |].
             ++ destruct (proj1 Hm eq_refl) as [_ Hr]. right. lia.
             ++ intros m Hle Hc. inversion Hc. lia.
             ++ intros j Hj. apply get_set_other. lia.
          -- eapply dec_ext; [|exact Hd]. intros j Hj. apply get_set_other. lia.
      + intro E. apply Hm in E. destruct E as [Hw Hr]. split; [exact Hw|]. rewrite HB. lia.
    - (* q = succ_double n: merge with the block at level lv and carry *)
      assert (Hcnt : ((N.succ_double n + 1) * 2 ^ N.of_nat lv = (n + 1) * 2 ^ N.of_nat (S lv))%N).
      { rewrite pow2_S_N, N.succ_double_spec. lia. }
      assert (Hq1 : (N.succ_double n + 1 = N.double (n + 1))%N) by apply sd_plus1.
      destruct fuel as [|f].
      { exfalso. rewrite Hq1, size_nat_double in Hf by lia. lia. }
      rewrite merge_loop_step.
      2:{ rewrite testbit_mul_pow2, Hq1. apply odd_double. }
      apply dec_sd in Hd. destruct Hd as (p'' & B0 & Hp & Hblk & Hd). subst p_hi.
      assert (HB0 : length B0 = 2 ^ lv) by (destruct Hblk as [H _]; exact H).
      assert (Hsl : get_slot inner lv = mroot lv B0) by (destruct Hblk as (_ & H & _); exact H).
      rewrite app_length, HB0 in Hm, Hmb.
      cbv zeta.
      destruct (branch_step T wantb matchh ml lv (get_slot inner lv) h br) as [br2 matchh2] eqn:Ebs.
      rewrite Hh in Ebs.
      assert (HBne : B <> []) by (eapply nonempty_of_len; exact HB).
      rewrite <- HB in Hm at 2.
      destruct (branch_step_spec lv p'' B0 B inner ml br matchh br2 matchh2 Hblk HBne ltac:(lia) Hm Hmb Ebs)
        as (C1 & C2 & C3 & C4).
      rewrite Hcnt.
      assert (Hh2 : hash2 (get_slot inner lv) h = mroot (S lv) (B0 ++ B)).
      { rewrite Hsl, Hh. symmetry. apply mroot_join; assumption. }
      rewrite Hh2.
      assert (Hd2 : dec n (S lv) p'' inner ml br2).
      { destruct matchh2.
        - eapply dec_rebranch; [exact Hd|]. destruct (proj1 C1 eq_refl) as [_ Hr]. right. lia.
        - destruct (C4 eq_refl) as [E _]. subst br2. exact Hd. }
      edestruct (IH (S lv) f p'' (B0 ++ B) inner ml (mroot (S lv) (B0 ++ B)) matchh2 br2
                    (if eqT (get_slot inner lv) h then true else mut))
        as (level' & h' & matchh' & br' & mut' & E1 & E2 & E3 & E4 & E5 & E6).
      + exact Hd2.
      + rewrite app_length, HB0, HB. simpl. lia.
      + reflexivity.
      + rewrite C1, HB. simpl. replace (2 ^ lv + 0) with (2 ^ lv) by lia.
        replace (2 ^ lv + 2 ^ lv) with (2 ^ lv + 2 ^ lv) by lia. reflexivity.
      + exact C2.
      + rewrite Hq1, size_nat_double in Hf by lia. lia.
      + exists level', h', matchh', br', mut'. split; [exact E1|]. split; [lia|].
        split; [|split; [auto|split]].
        * rewrite Hq1. apply dec_d. split.
          -- destruct matchh'; [intro Hc; inversion Hc; lia|].
             destruct matchh2; [specialize (E4 eq_refl); discriminate|].
             apply C4. reflexivity.
          -- rewrite <- app_assoc. exact E3.
        * intro E. rewrite (E5 E).
          destruct matchh2; [specialize (E4 eq_refl); congruence|]. apply C4. reflexivity.
        * intro E. destruct (E6 E) as [Hw Hr]. split; [exact Hw|].
          rewrite !app_length in *. lia.
  Qed.

  (** ** the main loop *)
  Notation leaf_step := (leaf_step T nilT hash2 eqT wantb posN).

  Definition Inv (st : cstate T) (p : list T) : Prop :=
    cs_count st = N.of_nat (length p) /\
    dec (cs_count st) 0 p (cs_inner st) (cs_matchlevel st) (cs_branch st) /\
    (outside (length p) -> cs_branch st = []).

  Lemma leaf_step_inv : forall st p x, Inv st p -> Inv (leaf_step st x) (p ++ [x]).
  Proof.
    intros st p x (Hc & Hd & Hb). unfold Model.leaf_step.
    set (matchh := wantb && (cs_count st =? posN)%N).
    assert (Hm : matchh = true <-> inr (length p) (2 ^ 0)).
    { unfold matchh, inr, pos. rewrite andb_true_iff, N.eqb_eq, Hc. simpl. split.
      - intros [Hw E]. split; [exact Hw|]. lia.
      - intros [Hw E]. split; [exact Hw|]. lia. }
    assert (Hmb : matchh = true -> cs_branch st = mbranch 0 [x] (pos - length p)).
    { intro E. apply Hm in E. destruct E as [_ Hr]. simpl in Hr. simpl. apply Hb. right. lia. }
    destruct (merge_spec (cs_count st) 0 (N.size_nat (cs_count st + 1)) p [x] (cs_inner st)
                (cs_matchlevel st) x matchh (cs_branch st) (cs_mutated st) Hd eq_refl eq_refl Hm Hmb (le_n _))
      as (level' & h' & matchh' & br' & mut' & E1 & E2 & E3 & E4 & E5 & E6).
    change (2 ^ N.of_nat 0)%N with 1%N in E1. rewrite N.mul_1_r in E1.
    rewrite E1. unfold Inv. cbn [cs_count cs_inner cs_matchlevel cs_branch].
    split; [rewrite Hc, app_length; simpl; lia|]. split; [exact E3|].
    intro Ho. destruct matchh'.
    - destruct (E6 eq_refl) as [Hw Hr]. rewrite app_length in Ho.
      destruct Ho as [Ho|Ho]; [congruence|simpl in *; lia].
    - rewrite (E5 eq_refl). apply Hb. rewrite app_length in Ho.
      destruct Ho as [Ho|Ho]; [left; exact Ho|right; simpl in Ho; lia].
  Qed.

  Lemma fold_inv : forall l st p, Inv st p -> Inv (fold_left leaf_step l st) (p ++ l).
  Proof.
    induction l as [|x l IH]; intros st p Hi.
    - rewrite app_nil_r. exact Hi.
    - cbn [fold_left]. replace (p ++ x :: l) with ((p ++ [x]) ++ l) by (rewrite <- app_assoc; reflexivity).
      apply IH. apply leaf_step_inv. exact Hi.
  Qed.

  Lemma init_inv : Inv (mk_cstate T [] 0%N None [] false) [].
  Proof.
    unfold Inv. cbn. split; [reflexivity|]. split; [|reflexivity].
    split; [reflexivity|]. intros m _. discriminate.
  Qed.
End Comp.
