(** C18 — proofs, part 2: GetMerkleRoot (chunked, padded, any worker count)
    equals getMerkleRoot.  Holds for an arbitrary hash function. *)
From Coq Require Import List Arith ZArith NArith Bool Lia ZifyBool ZifyNat.
From C33 Require Import C18.Model C18.Spec C18.ProofsSeq.
Import ListNotations.
Open Scope nat_scope.

(** ** the repo's log2 / pow2 / calcLevel *)

Lemma log2_loop_step : forall p level, p <> xH ->
  log2_loop (xI p) level = log2_loop p (level + 1)%Z /\
  log2_loop (xO p) level = log2_loop p (level + 1)%Z.
Proof. intros [q|q|] level Hp; [split; reflexivity|split; reflexivity|congruence]. Qed.

Lemma log2_loop_spec : forall p level, (2 <= Zpos p)%Z ->
  log2_loop p level = (level + Zpos (Pos.size p) - 2)%Z.
Proof.
  induction p as [p IH|p IH|]; intros level Hp; [| |lia].
  - destruct (Pos.eq_dec p 1) as [E|E]; [subst; cbn; lia|].
    rewrite (proj1 (log2_loop_step p level E)).
    rewrite IH by lia. cbn [Pos.size]. rewrite !Pos2Z.inj_succ. lia.
  - destruct (Pos.eq_dec p 1) as [E|E]; [subst; cbn; lia|].
    rewrite (proj2 (log2_loop_step p level E)).
    rewrite IH by lia. cbn [Pos.size]. rewrite !Pos2Z.inj_succ. lia.
Qed.

Lemma log2_ge2 : forall d, (2 <= d)%Z -> (1 <= log2 d /\ 2 ^ log2 d <= d)%Z.
Proof.
  intros d Hd. destruct d as [|p|p]; try lia.
  unfold log2. rewrite log2_loop_spec by lia.
  assert (Hs : (2 <= Zpos (Pos.size p))%Z).
  { destruct p; cbn [Pos.size]; try rewrite Pos2Z.inj_succ; lia. }
  split; [lia|].
  pose proof (Pos.size_le p) as Hle.
  apply Pos2Z.pos_le_pos in Hle. rewrite Pos2Z.inj_pow in Hle.
  replace (Zpos (Pos.size p)) with (Z.succ (1 + Zpos (Pos.size p) - 2))%Z in Hle by lia.
  rewrite Z.pow_succ_r in Hle by lia. lia.
Qed.

Lemma log2_small : forall d, (d <= 1)%Z -> (log2 d = 0 \/ log2 d = 1)%Z.
Proof.
  intros d Hd. destruct d as [|p|p]; try (left; reflexivity).
  assert (p = 1%positive) by lia. subst. right. reflexivity.
Qed.

Lemma Z_iter_nat : forall A (f : A -> A) n x, Z.iter n f x = Nat.iter (Z.to_nat n) f x.
Proof.
  intros A f n x. destruct n as [|p|p]; try reflexivity.
  cbn [Z.iter Z.to_nat]. apply Pos2Nat.inj_iter.
Qed.

Lemma iter_double : forall k, Nat.iter k (fun p => (p * 2)%Z) 1%Z = (2 ^ Z.of_nat k)%Z.
Proof.
  induction k as [|k IH]; [reflexivity|].
  change (Nat.iter (S k) (fun p => (p * 2)%Z) 1%Z) with ((Nat.iter k (fun p => (p * 2)%Z) 1%Z) * 2)%Z. rewrite IH. rewrite Nat2Z.inj_succ, Z.pow_succ_r by lia. lia.
Qed.

Lemma pow2_spec : forall s, (1 <= s)%Z -> pow2 s = (2 ^ s)%Z.
Proof.
  intros s Hs. unfold pow2. destruct (Z.leb_spec s 0); [lia|].
  rewrite Z_iter_nat, iter_double, Z2Nat.id by lia. reflexivity.
Qed.

Lemma par_step_spec : forall n ncpu, (80 < n)%Z -> (2 <= ncpu)%Z ->
  exists k, 1 <= k <= 8 /\ par_step n ncpu = Z.of_nat (2 ^ k) /\ (Z.of_nat (2 ^ k) <= n)%Z.
Proof.
  intros n ncpu Hn Hc. unfold par_step.
  set (d := (n / ncpu)%Z).
  assert (Hd : (0 <= d <= n)%Z).
  { unfold d. split; [apply Z.div_pos; lia|].
    apply Z.div_le_upper_bound; [lia|]. nia. }
  destruct (Z_lt_le_dec d 2) as [Hsm|Hbig].
  - exists 1. destruct (log2_small d ltac:(lia)) as [E|E]; rewrite E; cbn; lia.
  - destruct (log2_ge2 d Hbig) as [HL1 HL2].
    set (L := log2 d) in *.
    destruct (Z.ltb_spec L 1); [lia|].
    rewrite pow2_spec by lia.
    destruct (Z.ltb_spec 256 (2 ^ L)%Z) as [Hcap|Hcap].
    + exists 8. cbn. lia.
    + assert (HL8 : (L <= 8)%Z).
      { change 256%Z with (2 ^ 8)%Z in Hcap. apply Z.pow_le_mono_r_iff in Hcap; lia. }
      exists (Z.to_nat L). split; [lia|].
      rewrite Nat2Z.inj_pow, Z2Nat.id by lia. cbn [Z.of_nat Pos.of_succ_nat Pos.succ]. lia.
Qed.

Lemma log2_pow2 : forall k, 1 <= k <= 8 -> log2 (Z.of_nat (2 ^ k)) = Z.of_nat k.
Proof.
  intros k Hk.
  assert (E : k = 1 \/ k = 2 \/ k = 3 \/ k = 4 \/ k = 5 \/ k = 6 \/ k = 7 \/ k = 8) by lia.
  repeat (destruct E as [E|E]; [subst; reflexivity|]). subst; reflexivity.
Qed.

Lemma log2_up_half : forall n, 2 <= n -> Nat.log2_up n = S (Nat.log2_up (Nat.div2 (S n))).
Proof.
  intros n Hn. set (m := Nat.div2 (S n)).
  assert (Hm : 2 * m = n \/ 2 * m = S n) by apply div2_succ_bounds.
  destruct (Nat.eq_dec m 1) as [E|E].
  - assert (n = 2) by lia. subst n. rewrite E. reflexivity.
  - assert (Hm1 : 1 < m) by lia.
    pose proof (Nat.log2_up_spec m Hm1) as [Ha Hb].
    assert (Hk : 0 < Nat.log2_up m) by (apply Nat.log2_up_pos; lia).
    destruct (Nat.log2_up m) as [|j] eqn:Ej; [lia|].
    cbn [Nat.pred] in Ha.
    apply Nat.log2_up_unique; [lia|].
    cbn [Nat.pred]. change (2 ^ S (S j)) with (2 * 2 ^ S j).
    change (2 ^ S j) with (2 * 2 ^ j) in *. lia.
Qed.

Lemma calc_level_loop_spec : forall fuel n level, (1 <= n)%Z -> Z.to_nat n <= fuel ->
  calc_level_loop fuel n level = (level + Z.of_nat (Nat.log2_up (Z.to_nat n)))%Z.
Proof.
  induction fuel as [|fuel IH]; intros n level Hn Hf.
  - lia.
  - cbn [calc_level_loop].
    destruct (Z.leb_spec n 1) as [H1|H1].
    + assert (n = 1%Z) by lia. subst. change (Z.to_nat 1) with 1. change (Nat.log2_up 1) with 0. lia.
    + set (n1 := if Z.odd n then (n + 1)%Z else n).
      assert (Hhalf : Z.to_nat (n1 / 2) = Nat.div2 (S (Z.to_nat n))).
      { pose proof (Zmod_odd n) as Ho. pose proof (div2_succ_bounds (Z.to_nat n)) as Hb.
        unfold n1. destruct (Z.odd n).
        - assert (E : ((n + 1) / 2 * 2 = n + 1)%Z).
          { pose proof (Z.div_mod (n + 1) 2 ltac:(lia)).
            assert ((n + 1) mod 2 = 0)%Z.
            { rewrite Z.add_mod, Ho by lia. reflexivity. }
            lia. }
          assert (Hodd : Nat.Odd (Z.to_nat n)).
          { exists (Z.to_nat (n / 2)). pose proof (Z.div_mod n 2 ltac:(lia)). lia. }
          destruct Hb as [Hb|Hb].
          + exfalso. destruct Hodd as [q Hq]. lia.
          + lia.
        - assert (E : (n / 2 * 2 = n)%Z).
          { pose proof (Z.div_mod n 2 ltac:(lia)). lia. }
          destruct Hb as [Hb|Hb]; [lia|].
          exfalso. lia. }
      rewrite IH.
      * rewrite Hhalf. rewrite (log2_up_half (Z.to_nat n)) by lia. lia.
      * unfold n1. destruct (Z.odd n); [apply Z.div_le_lower_bound|apply Z.div_le_lower_bound]; lia.
      * rewrite Hhalf. pose proof (div2_succ_le (Z.to_nat n) ltac:(lia)). lia.
Qed.

Lemma calc_level_spec : forall n, 2 <= n ->
  calc_level (Z.of_nat n) = Z.of_nat (Nat.log2_up n).
Proof.
  intros n Hn. unfold calc_level.
  destruct (Z.eqb_spec (Z.of_nat n) 1); [lia|].
  rewrite calc_level_loop_spec by lia. rewrite Nat2Z.id. lia.
Qed.

Lemma skipn_add : forall A a b (l : list A), skipn (a + b) l = skipn b (skipn a l).
Proof.
  induction a as [|a IH]; intros b l; [reflexivity|].
  destruct l as [|x l]; [simpl; rewrite skipn_nil; reflexivity|].
  simpl. apply IH.
Qed.

Section Par.
  Variable T : Type.
  Variable nilT : T.
  Variable hash2 : T -> T -> T.

  Notation get_merkle_root := (get_merkle_root T nilT hash2).
  Notation get_merkle_root_pad := (get_merkle_root_pad T nilT hash2).
  Notation get_merkle_root_par := (get_merkle_root_par T nilT hash2).
  Notation mroot := (mroot T nilT hash2).
  Notation redk := (redk T hash2).

  Lemma root_pad_mroot : forall k c, 1 <= k <= 8 -> c <> [] -> length c <= 2 ^ k ->
    get_merkle_root_pad c (Z.of_nat (2 ^ k)) = mroot k c.
  Proof.
    intros k c Hk Hne Hl. unfold Model.get_merkle_root_pad.
    rewrite log2_pow2 by assumption. rewrite Z_iter_nat.
    destruct c as [|x [|y c]]; [congruence| |].
    - (* single element *)
      change (calc_level (Z.of_nat (length [x]))) with 1%Z.
      replace (Z.to_nat (Z.of_nat k - 1)) with (k - 1) by lia.
      replace k with ((k - 1) + 1) at 2 by lia.
      rewrite (mroot_extend T nilT hash2 (k - 1) 1 [x]); [reflexivity|congruence|simpl; lia].
    - set (cc := x :: y :: c) in *.
      assert (H2 : 2 <= length cc) by (unfold cc; simpl; lia).
      rewrite calc_level_spec by assumption.
      rewrite (root_is_spec_root T nilT hash2 cc).
      unfold spec_root. change (mroot (Nat.log2_up (length cc)) cc) with (mroot (Nat.log2_up (length cc)) cc).
      assert (Hj : Nat.log2_up (length cc) <= k) by (apply Nat.log2_up_le_pow2; lia).
      pose proof (Nat.log2_up_spec (length cc) ltac:(lia)) as [_ Hb].
      replace (Z.to_nat (Z.of_nat k - Z.of_nat (Nat.log2_up (length cc)))) with (k - Nat.log2_up (length cc)) by lia.
      replace k with ((k - Nat.log2_up (length cc)) + Nat.log2_up (length cc)) at 2 by lia.
      rewrite (mroot_extend T nilT hash2 _ _ cc) by assumption.
      unfold cc. reflexivity.
  Qed.

  Lemma full_chunk_mroot : forall k c, length c = 2 ^ k -> get_merkle_root c = mroot k c.
  Proof.
    intros k c Hl. pose proof (pow2_pos k) as Hp.
    apply root_mroot_k.
    - intro E. subst c. simpl in Hl. lia.
    - lia.
    - destruct k as [|k]; [left; reflexivity|right].
      rewrite Hl. replace (S k - 1) with k by lia. change (2 ^ S k) with (2 * 2 ^ k).
      pose proof (pow2_pos k). lia.
  Qed.

  Lemma chunk_of_0 : forall (l : list T) s, chunk_of T l s 0 = firstn s l.
  Proof.
    intros l s. unfold chunk_of. cbn [Nat.mul skipn Nat.add]. rewrite Nat.add_0_r, Nat.sub_0_r.
    destruct (Nat.le_ge_cases s (length l)) as [H|H].
    - rewrite Nat.min_l by assumption. reflexivity.
    - rewrite Nat.min_r by assumption. rewrite !firstn_all2 by lia. reflexivity.
  Qed.

  Lemma chunk_of_S : forall (l : list T) s i, s <= length l ->
    chunk_of T l s (S i) = chunk_of T (skipn s l) s i.
  Proof.
    intros l s i Hs. unfold chunk_of.
    rewrite skipn_length.
    replace (S i * s) with (s + i * s) by lia.
    rewrite skipn_add. f_equal. lia.
  Qed.

  (** the chunk roots are one application of [redk k] *)
  Lemma chunks_redk : forall k (g : list T -> T),
    (forall c, c <> [] -> length c <= 2 ^ k -> g c = mroot k c) ->
    forall cnt l, length l <= cnt * 2 ^ k -> cnt * 2 ^ k < length l + 2 ^ k ->
    map (fun i => g (chunk_of T l (2 ^ k) i)) (seq 0 cnt) = redk k l.
  Proof.
    intros k g Hg. pose proof (pow2_pos k) as Hp.
    induction cnt as [|cnt IH]; intros l H1 H2.
    - assert (l = []) by (destruct l; simpl in *; [reflexivity|lia]). subst. rewrite redk_nil. reflexivity.
    - cbn [seq map]. rewrite <- seq_shift, map_map. rewrite chunk_of_0.
      assert (Hne : l <> []) by (intro E; subst; simpl in *; lia).
      destruct (Nat.le_gt_cases (2 ^ k) (length l)) as [Hfull|Hpart].
      + rewrite (map_ext _ (fun i => g (chunk_of T (skipn (2 ^ k) l) (2 ^ k) i)))
          by (intro i; rewrite chunk_of_S by assumption; reflexivity).
        rewrite IH by (rewrite skipn_length; lia).
        rewrite <- (firstn_skipn (2 ^ k) l) at 3.
        assert (Hfl : length (firstn (2 ^ k) l) = 2 ^ k) by (rewrite firstn_length; lia).
        rewrite (redk_app T hash2 k 1) by lia.
        rewrite Hg.
        * rewrite (redk_mroot T nilT hash2 k (firstn (2 ^ k) l)); [reflexivity| |lia].
          intro E. rewrite E in Hfl. simpl in Hfl. lia.
        * intro E. rewrite E in Hfl. simpl in Hfl. lia.
        * lia.
      + assert (cnt = 0) by nia. subst cnt. cbn [seq map].
        rewrite firstn_all2 by lia.
        rewrite Hg by (try assumption; lia).
        rewrite (redk_mroot T nilT hash2) by (try assumption; lia). reflexivity.
  Qed.

  Theorem parallel_eq_sequential : forall ncpu (l : list T),
    get_merkle_root_par ncpu l = get_merkle_root l.
  Proof.
    intros ncpu l. unfold Model.get_merkle_root_par.
    set (n := Z.of_nat (length l)).
    destruct ((n <=? 80)%Z || (ncpu <=? 1)%Z) eqn:Hseq; [reflexivity|].
    apply orb_false_iff in Hseq as [Hn Hc].
    apply Z.leb_gt in Hn. apply Z.leb_gt in Hc.
    destruct (par_step_spec n ncpu Hn ltac:(lia)) as (k & Hk & Hstep & Hle).
    rewrite Hstep. rewrite Nat2Z.id.
    pose proof (pow2_pos k) as Hp.
    set (s := 2 ^ k) in *.
    set (cntZ := (if (n mod Z.of_nat s =? 0)%Z then (n / Z.of_nat s)%Z else (n / Z.of_nat s + 1)%Z)).
    assert (Hcnt : (n <= cntZ * Z.of_nat s < n + Z.of_nat s)%Z /\ (0 <= cntZ)%Z).
    { pose proof (Z.div_mod n (Z.of_nat s) ltac:(lia)) as Hdm.
      pose proof (Z.mod_pos_bound n (Z.of_nat s) ltac:(lia)) as Hmb.
      assert (0 <= n / Z.of_nat s)%Z by (apply Z.div_pos; lia).
      unfold cntZ. destruct (Z.eqb_spec (n mod Z.of_nat s) 0); nia. }
    destruct Hcnt as [Hcnt Hc0].
    rewrite (chunks_redk k (child_root T nilT hash2 (Z.of_nat s))).
    - apply root_redk. unfold n in Hle. fold s. lia.
    - intros c Hne Hl. unfold child_root. rewrite Nat2Z.id. fold s.
      destruct (Nat.eqb_spec (length c) s) as [E|E].
      + apply full_chunk_mroot. exact E.
      + apply root_pad_mroot; assumption.
    - fold s. unfold n in Hcnt. nia.
    - fold s. unfold n in Hcnt. nia.
  Qed.
End Par.
