(** C18 — proofs, part 8: the [mutated] flag.  If the list contains two equal
    aligned sibling blocks of 2^j leaves (in particular an aligned duplicated
    tail), Computation reports mutated = true.  Needs only reflexivity of the
    byte comparison. *)
From Coq Require Import List Arith ZArith NArith Bool Lia.
From C33 Require Import C18.Model C18.Spec C18.ProofsSeq C18.ProofsBranch C18.ProofsComp1.
Import ListNotations.
Open Scope nat_scope.

Section Mut.
  Variable T : Type.
  Variable nilT : T.
  Variable hash2 : T -> T -> T.
  Variable eqT : T -> T -> bool.
  Hypothesis eqT_refl : forall x, eqT x x = true.
  Variable posN : N.

  Notation mroot := (mroot T nilT hash2).
  Notation get_slot := (get_slot T nilT).
  Notation merge_loop := (merge_loop T nilT hash2 eqT).
  Notation dec := (dec T nilT hash2 false posN).
  Notation leaf_step := (leaf_step T nilT hash2 eqT false posN).

  (** the last two blocks of 2^j elements of [l] are equal *)
  Definition tailpair (j : nat) (l : list T) : Prop :=
    2 ^ S j <= length l /\
    firstn (2 ^ j) (skipn (length l - 2 ^ S j) l) = skipn (length l - 2 ^ j) l.

  Notation haspair := (haspair T).

  Lemma skipn_app_len : forall (A B : list T) n, n = length A -> skipn n (A ++ B) = B.
  Proof. intros A B n E. subst. apply skipn_app_exact. reflexivity. Qed.

  Lemma merge_mut : forall q lv fuel p_hi B inner ml h br mut,
    dec q lv p_hi inner ml br ->
    length B = 2 ^ lv -> h = mroot lv B ->
    N.size_nat (q + 1) <= fuel ->
    forall level' h' m' br' mut',
      merge_loop fuel ((q + 1) * 2 ^ N.of_nat lv) lv false inner ml h false br mut
        = (level', h', m', br', mut') ->
      (mut = true -> mut' = true) /\
      (forall j, lv <= j < level' -> tailpair j (p_hi ++ B) -> mut' = true) /\
      N.testbit ((q + 1) * 2 ^ N.of_nat lv) (N.of_nat level') = true.
  Proof.
    induction q as [|n IH|n IH] using N.binary_ind;
      intros lv fuel p_hi B inner ml h br mut Hd HB Hh Hf level' h' m' br' mut' E.
    - rewrite merge_loop_exit in E by (rewrite testbit_mul_pow2; reflexivity).
      inversion E; subst. split; [auto|]. split; [intros j Hj; lia|].
      rewrite testbit_mul_pow2. reflexivity.
    - assert (Ht : N.testbit ((N.double n + 1) * 2 ^ N.of_nat lv) (N.of_nat lv) = true).
      { rewrite testbit_mul_pow2, double_plus1. apply odd_succ_double. }
      rewrite merge_loop_exit in E by exact Ht.
      inversion E; subst. split; [auto|]. split; [intros j Hj; lia|exact Ht].
    - assert (Hcnt : ((N.succ_double n + 1) * 2 ^ N.of_nat lv = (n + 1) * 2 ^ N.of_nat (S lv))%N).
      { rewrite pow2_S_N, N.succ_double_spec. lia. }
      assert (Hq1 : (N.succ_double n + 1 = N.double (n + 1))%N) by apply sd_plus1.
      destruct fuel as [|f].
      { exfalso. rewrite Hq1, size_nat_double in Hf by lia. lia. }
      rewrite merge_loop_step in E.
      2:{ rewrite testbit_mul_pow2, Hq1. apply odd_double. }
      apply dec_sd in Hd. destruct Hd as (p'' & B0 & Hp & Hblk & Hd). subst p_hi.
      assert (HB0 : length B0 = 2 ^ lv) by (destruct Hblk as [H _]; exact H).
      assert (Hsl : get_slot inner lv = mroot lv B0) by (destruct Hblk as (_ & H & _); exact H).
      cbv zeta in E. cbn [branch_step] in E. rewrite Hcnt in E.
      assert (HBne : B <> []) by (eapply nonempty_of_len; exact HB).
      assert (Hh2 : hash2 (get_slot inner lv) h = mroot (S lv) (B0 ++ B)).
      { rewrite Hsl, Hh. symmetry. apply mroot_join; assumption. }
      rewrite Hh2 in E.
      destruct (IH (S lv) f p'' (B0 ++ B) inner ml _ br _ Hd
                   ltac:(rewrite app_length, HB0, HB; simpl; lia) eq_refl
                   ltac:(rewrite Hq1, size_nat_double in Hf by lia; lia)
                   level' h' m' br' mut' E) as (C1 & C2 & C3).
      rewrite Hcnt. split; [|split; [|exact C3]].
      + intro Em. apply C1. rewrite Em. destruct (eqT _ _); reflexivity.
      + intros j Hj Htp. destruct (Nat.eq_dec j lv) as [Ej|Ej].
        * subst j. apply C1.
          destruct Htp as [Hlen Heq].
          rewrite <- app_assoc in Heq. rewrite !app_length in Heq.
          rewrite (skipn_app_len p'' (B0 ++ B)) in Heq by (rewrite HB0, HB; simpl; lia).
          rewrite firstn_app_exact in Heq by exact HB0.
          rewrite app_assoc in Heq.
          rewrite (skipn_app_len (p'' ++ B0) B) in Heq by (rewrite app_length, HB0, HB; lia).
          rewrite Hsl, Hh, Heq, eqT_refl. reflexivity.
        * apply (C2 j); [lia|]. rewrite app_assoc. exact Htp.
  Qed.

  Definition InvM (st : cstate T) (p : list T) : Prop :=
    Inv T nilT hash2 false posN st p /\ (haspair p -> cs_mutated st = true).

  Lemma divide_testbit_false : forall m L, Nat.divide (2 ^ S L) m ->
    N.testbit (N.of_nat m) (N.of_nat L) = false.
  Proof.
    intros m L [k Hk]. subst m.
    replace (N.of_nat (k * 2 ^ S L)) with ((2 * N.of_nat k) * 2 ^ N.of_nat L)%N.
    - rewrite testbit_mul_pow2. rewrite <- N.double_spec. apply odd_double.
    - rewrite Nat2N.inj_mul, Nat2N.inj_pow. change (N.of_nat 2) with 2%N.
      rewrite Nat2N.inj_succ, N.pow_succ_r'. lia.
  Qed.

  Lemma divide_pow_le : forall a b m, a <= b -> Nat.divide (2 ^ b) m -> Nat.divide (2 ^ a) m.
  Proof.
    intros a b m Hab [k Hk]. exists (k * 2 ^ (b - a)).
    rewrite Hk. replace b with ((b - a) + a) at 1 by lia. rewrite Nat.pow_add_r. lia.
  Qed.

  Lemma leaf_step_invM : forall st p x, InvM st p -> InvM (leaf_step st x) (p ++ [x]).
  Proof.
    intros st p x [Hi Hm]. split; [apply leaf_step_inv; exact Hi|].
    destruct Hi as (Hc & Hd & _).
    unfold Model.leaf_step. cbn [andb].
    destruct (merge_loop _ _ _ _ _ _ _ _ _ _) as [[[[level' h'] m'] br'] mut'] eqn:E.
    cbn [cs_mutated].
    pose proof (merge_mut (cs_count st) 0 (N.size_nat (cs_count st + 1)) p [x] (cs_inner st)
                  (cs_matchlevel st) x (cs_branch st) (cs_mutated st) Hd eq_refl eq_refl (le_n _)
                  level' h' m' br' mut') as Hmm.
    change (2 ^ N.of_nat 0)%N with 1%N in Hmm. rewrite N.mul_1_r in Hmm.
    destruct (Hmm E) as (C1 & C2 & C3). clear Hmm.
    intros (a & j & Hdiv & Hle & Heq).
    rewrite app_length in Hle. cbn [length] in Hle.
    destruct (Nat.le_gt_cases (a + 2 ^ S j) (length p)) as [Hin|Hend].
    - (* the pair lies inside p *)
      apply C1, Hm. exists a, j. split; [exact Hdiv|]. split; [exact Hin|].
      change (2 ^ S j) with (2 * 2 ^ j) in Hin.
      rewrite !skipn_app, !firstn_app in Heq.
      rewrite !skipn_length in Heq.
      replace (2 ^ j - (length p - a)) with 0 in Heq by lia.
      replace (2 ^ j - (length p - (a + 2 ^ j))) with 0 in Heq by lia.
      rewrite !firstn_O, !app_nil_r in Heq. exact Heq.
    - (* the pair ends with the new leaf *)
      assert (Hlen : length p + 1 = a + 2 ^ S j) by lia.
      assert (Hj : j < level').
      { destruct (Nat.lt_ge_cases j level') as [H|H]; [exact H|exfalso].
        assert (Hd2 : Nat.divide (2 ^ S level') (length p + 1)).
        { apply (divide_pow_le (S level') (S j)); [lia|].
          rewrite Hlen. destruct Hdiv as [k Hk]. exists (k + 1). lia. }
        apply divide_testbit_false in Hd2.
        rewrite Hc in C3. replace (N.of_nat (length p) + 1)%N with (N.of_nat (length p + 1)) in C3 by lia.
        congruence. }
      apply (C2 j); [lia|].
      unfold tailpair. rewrite app_length. cbn [length].
      split; [lia|].
      replace (length p + 1 - 2 ^ S j) with a by lia.
      replace (length p + 1 - 2 ^ j) with (a + 2 ^ j) by (change (2 ^ S j) with (2 * 2 ^ j) in Hlen; lia).
      rewrite Heq. apply firstn_all2. rewrite skipn_length, app_length. cbn [length].
      change (2 ^ S j) with (2 * 2 ^ j) in Hlen. lia.
  Qed.

  Lemma fold_invM : forall l st p, InvM st p -> InvM (fold_left leaf_step l st) (p ++ l).
  Proof.
    induction l as [|x l IH]; intros st p Hi.
    - rewrite app_nil_r. exact Hi.
    - cbn [fold_left]. replace (p ++ x :: l) with ((p ++ [x]) ++ l) by (rewrite <- app_assoc; reflexivity).
      apply IH. apply leaf_step_invM. exact Hi.
  Qed.
End Mut.

Theorem pair_flagged : forall (T : Type) (nilT : T) (hash2 : T -> T -> T) (eqT : T -> T -> bool),
  (forall x, eqT x x = true) ->
  forall l, haspair T l -> comp_mutated T nilT hash2 eqT l = true.
Proof.
  intros T nilT hash2 eqT Hrefl l Hp.
  unfold comp_mutated, computation.
  destruct l as [|x0 l0] eqn:El.
  { destruct Hp as (a & j & _ & Hle & _). cbn [length] in Hle. pose proof (pow2_pos (S j)). lia. }
  rewrite <- El in *. cbn [Z.ltb Z.compare orb Z.testbit Z.of_N Pos.testbit N.of_nat].
  change (Z.testbit 1 1) with false.
  set (st := fold_left _ l _).
  assert (Hi : InvM T nilT hash2 0%N st l).
  { unfold st. apply (fold_invM T nilT hash2 eqT Hrefl 0%N l _ []).
    split; [apply init_inv|].
    intros (a & j & _ & Hle & _). cbn [length] in Hle. pose proof (pow2_pos (S j)). lia. }
  destruct (close_outer _ _ _ _ _ _ _ _ _ _ _ _) as [r b]. cbn [fst snd].
  apply Hi. exact Hp.
Qed.
