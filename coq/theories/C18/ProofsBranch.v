(** C18 — proofs, part 3: algebra of the recursive tree ([mroot], [mbranch])
    and soundness of branch verification (GetMerkleRootFromBranch applied to
    the tree's branch gives the tree's root).  Arbitrary hash function. *)
From Coq Require Import List Arith ZArith NArith Bool Lia.
From C33 Require Import C18.Model C18.Spec C18.ProofsSeq.
Import ListNotations.
Open Scope nat_scope.

Section Branch.
  Variable T : Type.
  Variable nilT : T.
  Variable hash2 : T -> T -> T.

  Notation mroot := (mroot T nilT hash2).
  Notation mbranch := (mbranch T nilT hash2).
  Notation rfb := (root_from_branch T hash2).

  Lemma firstn_app_exact : forall (A B : list T) n, length A = n -> firstn n (A ++ B) = A.
  Proof.
    intros A B n H. subst n. rewrite firstn_app, Nat.sub_diag, firstn_all. simpl.
    apply app_nil_r.
  Qed.

  Lemma skipn_app_exact : forall (A B : list T) n, length A = n -> skipn n (A ++ B) = B.
  Proof.
    intros A B n H. subst n. rewrite skipn_app, Nat.sub_diag, skipn_all. reflexivity.
  Qed.

  Lemma mroot_join : forall lv A B, length A = 2 ^ lv -> B <> [] ->
    mroot (S lv) (A ++ B) = hash2 (mroot lv A) (mroot lv B).
  Proof.
    intros lv A B HA HB. cbn [Spec.mroot].
    assert (Hgt : 2 ^ lv < length (A ++ B)).
    { rewrite app_length. destruct B; [congruence|simpl; lia]. }
    destruct (Nat.leb_spec (length (A ++ B)) (2 ^ lv)); [lia|].
    rewrite firstn_app_exact, skipn_app_exact by assumption. reflexivity.
  Qed.

  Lemma mroot_self : forall lv B, length B <= 2 ^ lv ->
    mroot (S lv) B = hash2 (mroot lv B) (mroot lv B).
  Proof.
    intros lv B HB. cbn [Spec.mroot]. apply Nat.leb_le in HB. rewrite HB. reflexivity.
  Qed.

  Lemma mbranch_join_right : forall lv A B i, length A = 2 ^ lv -> B <> [] -> 2 ^ lv <= i ->
    mbranch (S lv) (A ++ B) i = mbranch lv B (i - 2 ^ lv) ++ [mroot lv A].
  Proof.
    intros lv A B i HA HB Hi. cbn [Spec.mbranch].
    assert (Hgt : 2 ^ lv < length (A ++ B)).
    { rewrite app_length. destruct B; [congruence|simpl; lia]. }
    destruct (Nat.leb_spec (length (A ++ B)) (2 ^ lv)); [lia|].
    destruct (Nat.ltb_spec i (2 ^ lv)); [lia|].
    rewrite firstn_app_exact, skipn_app_exact by assumption. reflexivity.
  Qed.

  Lemma mbranch_join_left : forall lv A B i, length A = 2 ^ lv -> B <> [] -> i < 2 ^ lv ->
    mbranch (S lv) (A ++ B) i = mbranch lv A i ++ [mroot lv B].
  Proof.
    intros lv A B i HA HB Hi. cbn [Spec.mbranch].
    assert (Hgt : 2 ^ lv < length (A ++ B)).
    { rewrite app_length. destruct B; [congruence|simpl; lia]. }
    destruct (Nat.leb_spec (length (A ++ B)) (2 ^ lv)); [lia|].
    destruct (Nat.ltb_spec i (2 ^ lv)); [|lia].
    rewrite firstn_app_exact, skipn_app_exact by assumption. reflexivity.
  Qed.

  Lemma mbranch_self : forall lv B i, length B <= 2 ^ lv ->
    mbranch (S lv) B i = mbranch lv B i ++ [mroot lv B].
  Proof.
    intros lv B i HB. cbn [Spec.mbranch]. apply Nat.leb_le in HB. rewrite HB. reflexivity.
  Qed.

  Lemma mbranch_length : forall k l i, length (mbranch k l i) = k.
  Proof.
    induction k as [|k IH]; intros l i; [reflexivity|].
    cbn [Spec.mbranch].
    destruct (length l <=? 2 ^ k); [|destruct (i <? 2 ^ k)];
      rewrite app_length, IH; simpl; lia.
  Qed.

  (** ** GetMerkleRootFromBranch *)
  Lemma rfb_app : forall b s x idx,
    rfb (b ++ [s]) x idx =
    (if N.testbit idx (N.of_nat (length b)) then hash2 s (rfb b x idx) else hash2 (rfb b x idx) s).
  Proof.
    induction b as [|y b IH]; intros s x idx.
    - cbn [app length Model.root_from_branch]. change (N.of_nat 0) with 0%N.
      rewrite N.bit0_odd. reflexivity.
    - cbn [app length Model.root_from_branch]. rewrite IH.
      rewrite Nat2N.inj_succ, N.testbit_succ_r_div2 by apply N.le_0_l. reflexivity.
  Qed.

  Lemma rfb_add_pow : forall b x a m k, length b <= k ->
    rfb b x (a + m * 2 ^ N.of_nat k)%N = rfb b x a.
  Proof.
    induction b as [|y b IH]; intros x a m k Hk; [reflexivity|].
    cbn [length] in Hk. destruct k as [|k]; [lia|].
    cbn [Model.root_from_branch].
    assert (E : (a + m * 2 ^ N.of_nat (S k) = a + 2 * (m * 2 ^ N.of_nat k))%N).
    { rewrite Nat2N.inj_succ, N.pow_succ_r'. lia. }
    rewrite E, N.odd_add_mul_2.
    assert (E2 : N.div2 (a + 2 * (m * 2 ^ N.of_nat k)) = (N.div2 a + m * 2 ^ N.of_nat k)%N).
    { rewrite !N.div2_div. rewrite N.mul_comm, N.div_add by lia. reflexivity. }
    rewrite E2. apply IH. lia.
  Qed.

  Lemma testbit_top : forall i k, i < 2 ^ S k ->
    N.testbit (N.of_nat i) (N.of_nat k) = (2 ^ k <=? i).
  Proof.
    intros i k Hi. rewrite N.testbit_eqb.
    assert (Hp : (2 ^ N.of_nat k = N.of_nat (2 ^ k))%N).
    { rewrite Nat2N.inj_pow. reflexivity. }
    rewrite Hp.
    destruct (Nat.leb_spec (2 ^ k) i) as [H|H].
    - assert (E : (N.of_nat i / N.of_nat (2 ^ k) = 1)%N).
      { symmetry. apply (N.div_unique _ _ 1%N (N.of_nat (i - 2 ^ k))).
        - change (2 ^ S k) with (2 * 2 ^ k) in Hi. lia.
        - lia. }
      rewrite E. reflexivity.
    - rewrite N.div_small by lia. reflexivity.
  Qed.

  Lemma nth_firstn_lt : forall n (l : list T) i d, i < n -> nth i (firstn n l) d = nth i l d.
  Proof.
    induction n as [|n IH]; intros l i d Hi; [lia|].
    destruct l as [|x l]; [destruct i; reflexivity|].
    destruct i as [|i]; [reflexivity|]. simpl. apply IH. lia.
  Qed.

  Lemma nth_skipn_add : forall n (l : list T) i d, nth i (skipn n l) d = nth (n + i) l d.
  Proof.
    induction n as [|n IH]; intros l i d; [reflexivity|].
    destruct l as [|x l]; [destruct i; reflexivity|]. simpl. apply IH.
  Qed.

  Theorem branch_verifies_tree : forall k l i, i < length l -> length l <= 2 ^ k ->
    rfb (mbranch k l i) (nth i l nilT) (N.of_nat i) = mroot k l.
  Proof.
    induction k as [|k IH]; intros l i Hi Hl.
    - simpl in Hl. destruct l as [|x [|y l]]; simpl in *; try lia.
      assert (i = 0) by lia. subst. reflexivity.
    - assert (Hi2 : i < 2 ^ S k) by lia.
      cbn [Spec.mbranch Spec.mroot].
      destruct (Nat.leb_spec (length l) (2 ^ k)) as [Hs|Hs].
      + rewrite rfb_app, mbranch_length, testbit_top by assumption.
        destruct (Nat.leb_spec (2 ^ k) i); [lia|].
        rewrite IH by lia. reflexivity.
      + destruct (Nat.ltb_spec i (2 ^ k)) as [Hlt|Hge].
        * rewrite rfb_app, mbranch_length, testbit_top by assumption.
          destruct (Nat.leb_spec (2 ^ k) i); [lia|].
          rewrite <- (nth_firstn_lt (2 ^ k) l i nilT Hlt).
          rewrite IH; [reflexivity| |]; rewrite firstn_length; lia.
        * rewrite rfb_app, mbranch_length, testbit_top by assumption.
          destruct (Nat.leb_spec (2 ^ k) i); [|lia].
          replace (nth i l nilT) with (nth (i - 2 ^ k) (skipn (2 ^ k) l) nilT)
            by (rewrite nth_skipn_add; f_equal; lia).
          replace (N.of_nat i) with (N.of_nat (i - 2 ^ k) + 1 * 2 ^ N.of_nat k)%N.
          2:{ change 2%N with (N.of_nat 2). rewrite <- Nat2N.inj_pow. lia. }
          rewrite rfb_add_pow by (rewrite mbranch_length; lia).
          rewrite IH; [reflexivity| |]; rewrite skipn_length; change (2 ^ S k) with (2 * 2 ^ k) in Hl; lia.
  Qed.
End Branch.
