(** C18 — proofs, part 1: the sequential root is the recursive tree root
    ([spec_root]); the chunked parallel root equals the sequential root.
    Everything here holds for an arbitrary hash function. *)
From Coq Require Import List Arith ZArith NArith Bool Lia.
From C33 Require Import C18.Model C18.Spec.
Import ListNotations.
Open Scope nat_scope.

Section Seq.
  Variable T : Type.
  Variable nilT : T.
  Variable hash2 : T -> T -> T.

  Notation red := (red T hash2).
  Notation root_loop := (root_loop T nilT hash2).
  Notation get_merkle_root := (get_merkle_root T nilT hash2).
  Notation mroot := (mroot T nilT hash2).

  (** induction two elements at a time *)
  Lemma list_ind2 (P : list T -> Prop) :
    P [] -> (forall x, P [x]) -> (forall x y l, P l -> P (x :: y :: l)) -> forall l, P l.
  Proof.
    intros H0 H1 H2.
    fix IH 1. intros [|x [|y l]]; [exact H0 | apply H1 | apply H2, IH].
  Qed.

  Lemma red_length : forall l, length (red l) = Nat.div2 (S (length l)).
  Proof.
    induction l as [|x|x y l IH] using list_ind2; simpl in *; auto.
  Qed.

  Lemma div2_succ_le : forall n, 2 <= n -> Nat.div2 (S n) < n.
  Proof.
    intros n Hn. pose proof (Nat.div2_decr (S n) n (le_n _)) as H.
    destruct n as [|[|n]]; try lia. simpl.
    pose proof (Nat.lt_div2 (S n) ltac:(lia)). simpl in *. lia.
  Qed.

  Lemma div2_succ_bounds : forall n, 2 * Nat.div2 (S n) = n \/ 2 * Nat.div2 (S n) = S n.
  Proof.
    intro n. destruct (Nat.Even_or_Odd n) as [[m Hm]|[m Hm]]; subst n.
    - left. replace (S (2 * m)) with (1 + 2 * m) by lia.
      rewrite Nat.div2_succ_double. lia.
    - right. replace (S (2 * m + 1)) with (2 * (S m)) by lia.
      rewrite Nat.div2_double. lia.
  Qed.

  Lemma red_app : forall a b, Nat.Even (length a) -> red (a ++ b) = red a ++ red b.
  Proof.
    induction a as [|x|x y a IH] using list_ind2; intros b He.
    - reflexivity.
    - destruct He as [m Hm]. simpl in Hm. lia.
    - cbn [app]. cbn [Model.red]. rewrite IH; [reflexivity|].
      destruct He as [m Hm]. simpl in Hm. exists (m - 1). lia.
  Qed.

  Fixpoint redk (k : nat) (l : list T) : list T :=
    match k with
    | O => l
    | S k' => redk k' (red l)
    end.

  Lemma redk_red_comm : forall k l, redk k (red l) = red (redk k l).
  Proof. induction k; intro l; simpl; auto. Qed.

  Lemma redk_S : forall k l, redk (S k) l = red (redk k l).
  Proof. intros. simpl. apply redk_red_comm. Qed.

  Lemma redk_nil : forall k, redk k [] = [].
  Proof. induction k; simpl; auto. Qed.

  Lemma redk_app : forall k m a b, length a = m * 2 ^ k -> redk k (a ++ b) = redk k a ++ redk k b.
  Proof.
    induction k as [|k IH]; intros m a b Hl.
    - reflexivity.
    - cbn [redk]. rewrite red_app.
      + apply (IH m). rewrite red_length, Hl.
        replace (S (m * 2 ^ S k)) with (1 + 2 * (m * 2 ^ k)) by (simpl; lia).
        rewrite Nat.div2_succ_double. reflexivity.
      + exists (m * 2 ^ k). rewrite Hl. simpl. lia.
  Qed.

  Lemma pow2_pos : forall k, 0 < 2 ^ k.
  Proof. intro k. pose proof (Nat.pow_nonzero 2 k). lia. Qed.

  (** [redk k] of a non-empty list of at most 2^k elements is the tree root *)
  Lemma redk_mroot : forall k l, l <> [] -> length l <= 2 ^ k -> redk k l = [mroot k l].
  Proof.
    induction k as [|k IH]; intros l Hne Hl.
    - simpl in *. destruct l as [|x [|y l]]; simpl in *; try congruence; try lia; reflexivity.
    - rewrite redk_S. cbn [Spec.mroot].
      destruct (Nat.leb_spec (length l) (2 ^ k)) as [Hle|Hgt].
      + rewrite (IH l Hne Hle). reflexivity.
      + rewrite <- (firstn_skipn (2 ^ k) l) at 1.
        assert (Hfl : length (firstn (2 ^ k) l) = 2 ^ k) by (rewrite firstn_length; lia).
        rewrite (redk_app k 1) by lia.
        rewrite IH; [rewrite IH; [reflexivity| |]| |].
        * intro E. apply (f_equal (@length T)) in E. rewrite skipn_length in E. simpl in E. lia.
        * rewrite skipn_length. simpl in Hl. lia.
        * intro E. rewrite E in Hfl. simpl in Hfl. pose proof (pow2_pos k). lia.
        * lia.
  Qed.

  Lemma root_loop_step : forall f x y l,
    root_loop (S f) (x :: y :: l) = root_loop f (red (x :: y :: l)).
  Proof. reflexivity. Qed.

  Lemma root_loop_fuel : forall f1 f2 l, length l <= f1 -> length l <= f2 ->
    root_loop f1 l = root_loop f2 l.
  Proof.
    induction f1 as [|f1 IH]; intros f2 l H1 H2.
    - destruct l; simpl in *; [|lia]. destruct f2; reflexivity.
    - destruct l as [|x [|y l]]; [destruct f2; reflexivity | destruct f2; reflexivity |].
      destruct f2 as [|f2]; [simpl in H2; lia|].
      rewrite !root_loop_step.
      assert (Hr : length (red (x :: y :: l)) < length (x :: y :: l)).
      { rewrite red_length. apply div2_succ_le. simpl. lia. }
      apply IH; lia.
  Qed.

  Lemma root_red : forall l, 2 <= length l -> get_merkle_root l = get_merkle_root (red l).
  Proof.
    intros l Hl. unfold Model.get_merkle_root.
    destruct l as [|x [|y l]]; simpl in Hl; try lia.
    cbn [length]. rewrite root_loop_step.
    apply root_loop_fuel; [|lia].
    pose proof (div2_succ_le (length (x :: y :: l)) ltac:(simpl; lia)) as H.
    rewrite <- red_length in H. simpl in H |- *. lia.
  Qed.

  Lemma root_redk : forall k l, 2 ^ k <= length l -> get_merkle_root (redk k l) = get_merkle_root l.
  Proof.
    induction k as [|k IH]; intros l Hl; [reflexivity|].
    cbn [redk]. pose proof (pow2_pos k) as Hp. simpl in Hl.
    rewrite IH.
    - symmetry. apply root_red. lia.
    - rewrite red_length. destruct (div2_succ_bounds (length l)); lia.
  Qed.

  Lemma root_single : forall x, get_merkle_root [x] = x.
  Proof. reflexivity. Qed.

  (** the sequential root of [l] is the tree root at any height that fits *)
  Lemma root_mroot_k : forall k l, l <> [] -> length l <= 2 ^ k ->
    (k = 0 \/ 2 ^ (k - 1) < length l) -> get_merkle_root l = mroot k l.
  Proof.
    intros k l Hne Hle Hk.
    destruct k as [|k].
    - simpl in Hle. destruct l as [|x [|y l]]; simpl in *; try congruence; try lia; reflexivity.
    - destruct Hk as [Hk|Hk]; [discriminate|].
      replace (S k - 1) with k in Hk by lia.
      rewrite <- (root_redk k l) by lia.
      (* redk k l has two elements... go one more level *)
      assert (H2 : 2 <= length (redk k l) \/ redk k l = redk k l) by (right; reflexivity).
      rewrite root_red.
      + rewrite <- redk_S, redk_mroot by assumption. reflexivity.
      + (* length (redk k l) >= 2 because otherwise l would have at most 2^k elements *)
        clear H2. revert l Hne Hle Hk. induction k as [|k IHk]; intros l Hne Hle Hk.
        * simpl in *. lia.
        * cbn [redk]. apply IHk.
          -- intro E. apply (f_equal (@length T)) in E. rewrite red_length in E. simpl in E.
             destruct (div2_succ_bounds (length l)); simpl in *; lia.
          -- rewrite red_length. change (2 ^ S (S k)) with (2 * 2 ^ S k) in Hle.
             destruct (div2_succ_bounds (length l)); lia.
          -- rewrite red_length. change (2 ^ S k) with (2 * 2 ^ k) in Hk.
             destruct (div2_succ_bounds (length l)); lia.
  Qed.

  Theorem root_is_spec_root : forall l, get_merkle_root l = spec_root T nilT hash2 l.
  Proof.
    intro l. unfold spec_root. destruct l as [|x l]; [reflexivity|].
    set (ll := x :: l).
    assert (Hne : ll <> []) by (unfold ll; congruence).
    destruct (Nat.eq_dec (length ll) 1) as [H1|H1].
    - rewrite H1. change (Nat.log2_up 1) with 0.
      apply root_mroot_k; [assumption | rewrite H1; simpl; lia | left; reflexivity].
    - assert (Hgt : 1 < length ll) by (unfold ll in *; simpl in *; lia).
      pose proof (Nat.log2_up_spec _ Hgt) as [Ha Hb].
      apply root_mroot_k; [assumption | exact Hb |]. right.
      replace (Nat.log2_up (length ll) - 1) with (Nat.pred (Nat.log2_up (length ll))) by lia.
      exact Ha.
  Qed.

  (** padding a tree with self-hashes *)
  Lemma mroot_extend : forall m j c, c <> [] -> length c <= 2 ^ j ->
    mroot (m + j) c = Nat.iter m (fun r => hash2 r r) (mroot j c).
  Proof.
    induction m as [|m IH]; intros j c Hne Hl; [reflexivity|].
    cbn [plus Nat.iter Spec.mroot].
    assert (Hle : length c <= 2 ^ (m + j)).
    { etransitivity; [exact Hl|]. apply Nat.pow_le_mono_r; lia. }
    apply Nat.leb_le in Hle. rewrite Hle. rewrite IH by assumption. reflexivity.
  Qed.
End Seq.
