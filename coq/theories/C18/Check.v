(** C18 — correspondence cases.

    The Go side hashes with real double-SHA-256.  The harness interns every
    32-byte value it sees (leaves, reference inner nodes, and every value the
    implementation returns) as a small id (0 = Go nil) and ships a hash table
    of triples (left id, right id, digest id) that it computed with
    crypto/sha256 *independently of merkle.go* (straightforward level-by-level
    reference).  The model below is the same code as the one the theorems are
    about (C18.Model, Section Merkle), instantiated with the table-backed
    hash; a pair that is not in the table evaluates to [miss], which is never
    an id used by the harness. *)
From Coq Require Import List ZArith NArith Bool String Ascii FMapPositive.
From C33 Require Import Lib.Harness C18.Model C18.Spec C18.ModelServe.
Import ListNotations.
Open Scope N_scope.

Definition miss : N := 1099511627776. (* 2^40 *)
Definition idlim : N := 1048576.      (* 2^20: ids are below this *)

(** hex numbers separated by blanks *)
Fixpoint nums_aux (s : string) (acc : N) (inword : bool) : list N :=
  match s with
  | EmptyString => if inword then [acc] else []
  | String c tl =>
      if Ascii.eqb c " "%char then
        (if inword then acc :: nums_aux tl 0 false else nums_aux tl 0 false)
      else nums_aux tl (16 * acc + hexval c) true
  end.
Definition nums1 (s : string) : list N := nums_aux s 0 false.
(* long lists are shipped as several strings (a very long string literal overflows coqc's stack) *)
Definition nums (ss : list string) : list N := flat_map nums1 ss.

(** leaf id lists: [LSeq n] = 1, 2, ..., n (all leaves distinct) *)
Inductive idlist := LSeq (n : N) | LIds (chunks : list string).
Fixpoint nseq (fuel : nat) (start : N) : list N :=
  match fuel with
  | O => []
  | S f => start :: nseq f (start + 1)
  end.
Definition ids_of (l : idlist) : list N :=
  match l with
  | LSeq n => nseq (N.to_nat n) 1
  | LIds c => nums c
  end.

Definition tbl := PositiveMap.t N.

Fixpoint build_tbl (l : list N) (m : tbl) : tbl :=
  match l with
  | a :: b :: c :: tl => build_tbl tl (PositiveMap.add (N.succ_pos (a * idlim + b)) c m)
  | _ => m
  end.

Definition thash (m : tbl) (a b : N) : N :=
  if (a =? 0) || (b =? 0) then 0
  else if (idlim <=? a) || (idlim <=? b) then miss
  else match PositiveMap.find (N.succ_pos (a * idlim + b)) m with
       | Some c => c
       | None => miss
       end.

(** [TCanon]: the table of the reference tree over the given leaf ids when every
    digest in it is new: nodes are numbered level by level, left to right,
    starting after the largest leaf id (the harness uses this shorthand only after
    checking that its interned SHA-256 tree has exactly this table). *)
Inductive table := TCanon | TExplicit (chunks : list string).

Definition tadd (a b c : N) (m : tbl) : tbl := PositiveMap.add (N.succ_pos (a * idlim + b)) c m.

Fixpoint canon_pairs (l : list N) (next : N) (m : tbl) : list N * N * tbl :=
  match l with
  | [] => ([], next, m)
  | [x] => ([next], next + 1, tadd x x next m)
  | x :: y :: tl =>
      let '(r, nx, m') := canon_pairs tl (next + 1) (tadd x y next m) in
      (next :: r, nx, m')
  end.

Fixpoint canon_tree (fuel : nat) (l : list N) (next : N) (m : tbl) : tbl :=
  match l with
  | [] | [_] => m
  | _ => match fuel with
         | O => m
         | S f => let '(r, nx, m') := canon_pairs l next m in canon_tree f r nx m'
         end
  end.

Definition table_of (t : table) (leaves : list N) : tbl :=
  match t with
  | TCanon => canon_tree (List.length leaves) leaves (fold_left N.max leaves 0 + 1) (PositiveMap.empty N)
  | TExplicit c => build_tbl (nums c) (PositiveMap.empty N)
  end.

Fixpoint pairs_of {A} (f : N -> N -> A) (l : list N) : list A :=
  match l with
  | a :: b :: tl => f a b :: pairs_of f tl
  | _ => []
  end.

Inductive case :=
| CRoot (leaves : idlist) (tb : table)
        (pars : list (Z * N))       (* worker count, id of GetMerkleRoot *)
        (comp_root : N) (comp_mut : bool)  (* Computation(leaves, 1, 0) *)
        (flag_edges : list (Z * N * N))    (* flage, root id, branch length for flage outside/inside 1..3, position 0 *)
| CBranch (leaves : idlist) (tb : table) (pos : N)
        (impl_branch : list string)      (* GetMerkleBranch *)
        (impl_rb_root : N) (impl_rb_branch : list string)   (* GetMerkleRootAndBranch *)
        (impl_from_branch : N)      (* GetMerkleRootFromBranch(branch, leaf[pos], pos), 0 when pos is out of range *)
        (impl_root : N)             (* GetMerkleRoot in this process *)
| CPair (l1 l2 : idlist) (tb : list string) (r1 r2 : N) (m1 m2 : bool)   (* Computation(l, 1, 0) root and mutated of both lists *)
| CMulti (txs tb : list string)       (* txs: title id (0 = main chain tx) and full-hash id, alternating *)
        (pars : list (Z * (N * N * list string)))
        (* per worker count: CalcMultiLayerMerkleInfo root id (0 = zero hash for the empty list),
           CalcMerkleRoot id at the same height, and the child chains as
           title start count hash quadruples *)
        (proofs : list (N * N * list string * N * list string))
        (* for multi-chain lists, per tx index: (index, child index, branch of the tx in its
           child chain, index of the chain, branch of the chain in the root list), computed by
           GetMerkleBranch as getMultiLayerProofs does *)
| CServe (fork : bool)                (* the block's height (main height on a para-chain node) is at/after ForkRootHash *)
        (para : bool)                 (* the node runs with blockchain.isParaChain *)
        (raw : bool)                  (* a peer block that the harness built with the list in the generated order
                                         (false: built by util.CreateNewBlock or mined by the node itself) *)
        (txs tb : list string)        (* txs in stored order: title id (0 = main; para ids in title-string
                                         order), tx.Hash() id, tx.FullHash() id *)
        (txhash : N)                  (* TxHash of the stored block header *)
        (rows : list string)          (* LoadParaTxByHeight(height) after the fork, in listing order:
                                         title start count childHashIndex childHash *)
        (replies : list (N * N * list string * list (list string * N * N))).
        (* QueryTx reply per transaction, in stored order: Index, FullHash id (0 = nil), Proofs,
           TxProofs as (Proofs, Index, RootHash id (0 = nil)) *)

Section WithTable.
  Variable m : tbl.
  Let H := thash m.

  Definition seq_root := get_merkle_root N 0 H.
  Definition par_root := get_merkle_root_par N 0 H.
  Definition comp := computation N 0 H N.eqb.
  Definition sroot := spec_root N 0 H.
  Definition verify (b : list N) (x : N) (pos : N) := spec_verify N H b x pos 0.

  Definition nlist_eqb := list_eqb N.eqb.

  Definition check_root (ls : list N) (pars : list (Z * N)) (cr : N) (cm : bool)
             (fe : list (Z * N * N)) : verdict :=
    let sr := sroot ls in
    let '(mr, mm, _) := comp ls 1%Z 0 in
    let magree :=
      forallb (fun '(ncpu, r) => par_root ncpu ls =? r) pars
      && (mr =? cr) && Bool.eqb mm cm
      && forallb (fun '(fl, r, bl) =>
                    let '(r', _, b') := comp ls fl 0 in
                    (r' =? r) && (N.of_nat (List.length b') =? bl)) fe in
    let spec :=
      forallb (fun '(_, r) => (r =? sr) && negb (r =? miss)) pars
      && (match ls with [] => true | _ => cr =? sr end)
      && (if has_dup_tail N N.eqb ls then cm else true) in
    mk_verdict magree spec.

  Definition check_branch (ls : list N) (pos : N) (ib : list N) (rbr : N) (rbb : list N)
             (ifb : N) (ir : N) : verdict :=
    let '(_, _, mb) := comp ls 2%Z pos in
    let '(mr3, _, mb3) := comp ls 3%Z pos in
    let x := nth (N.to_nat pos) ls 0 in
    let inrange := pos <? N.of_nat (List.length ls) in
    let mfb := if inrange then root_from_branch N H ib x pos else 0 in
    let magree := nlist_eqb mb ib && nlist_eqb mb3 rbb && (mr3 =? rbr) && (mfb =? ifb)
                  && (seq_root ls =? ir) in
    let spec :=
      if inrange then
        (verify ib x pos =? ir) && (verify rbb x pos =? ir) && (ifb =? ir) && (rbr =? ir)
        && (ir =? sroot ls) && negb (ir =? miss) && negb (ir =? 0)
      else true in
    mk_verdict magree spec.

  Definition same_expansion (l1 l2 : list N) : bool :=
    let k := Nat.max (Nat.log2_up (List.length l1)) (Nat.log2_up (List.length l2)) in
    nlist_eqb (expand N k l1) (expand N k l2).

  Definition check_pair (l1 l2 : list N) (r1 r2 : N) (m1 m2 : bool) : verdict :=
    let '(a1, b1, _) := comp l1 1%Z 0 in
    let '(a2, b2, _) := comp l2 1%Z 0 in
    let magree := (a1 =? r1) && (a2 =? r2) && Bool.eqb b1 m1 && Bool.eqb b2 m2 in
    let spec :=
      if r1 =? r2 then
        nlist_eqb l1 l2 || ((m1 || m2) && same_expansion l1 l2)
      else true in
    mk_verdict magree spec.

  (** multi-layer *)
  Definition mk_tx (t hh : N) : mtx N := (if t =? 0 then None else Some t, hh).

  Fixpoint quads (l : list N) : list (N * N * N * N) :=
    match l with
    | a :: b :: c :: d :: tl => (a, b, c, d) :: quads tl
    | _ => []
    end.

  Definition child_eqb (c : childchain N) (q : N * N * N * N) : bool :=
    let '(t, s, n, hh) := q in
    (match cc_title c with None => t =? 0 | Some x => x =? t end)
    && (N.of_nat (cc_start c) =? s) && (N.of_nat (cc_count c) =? n) && (cc_hash c =? hh).

  Fixpoint list_all2 {A B} (f : A -> B -> bool) (a : list A) (b : list B) : bool :=
    match a, b with
    | [], [] => true
    | x :: a', y :: b' => f x y && list_all2 f a' b'
    | _, _ => false
    end.

  (* spec for one worker count: every child root is the tree root of its slice of
     full hashes, slices partition the list in order, and the block root is the
     tree root of the child roots (the single-chain case: the one child is the whole list) *)
  Fixpoint children_ok (hashes : list N) (next : N) (qs : list (N * N * N * N)) : bool :=
    match qs with
    | [] => next =? N.of_nat (List.length hashes)
    | (_, s, n, hh) :: tl =>
        (s =? next) && (0 <? n)
        && (hh =? sroot (firstn (N.to_nat n) (skipn (N.to_nat s) hashes)))
        && negb (hh =? miss)
        && children_ok hashes (s + n) tl
    end.

  Definition check_multi (txl : list N) (pars : list (Z * (N * N * list string)))
             (proofs : list (N * N * list string * N * list string)) : verdict :=
    let txs := pairs_of mk_tx txl in
    let hashes := map snd txs in
    let magree :=
      forallb (fun '(ncpu, (r, r2, cs)) =>
                 match multi_layer_info N 0 H ncpu txs with
                 | None => (r =? 0) && (r2 =? 0) && (match nums cs with [] => true | _ => false end)
                 | Some (mr, mcs) => (mr =? r) && (mr =? r2) && list_all2 child_eqb mcs (quads (nums cs))
                 end) pars in
    let spec_one (r : N) (qs : list (N * N * N * N)) : bool :=
      match txs with
      | [] => (r =? 0) && (match qs with [] => true | _ => false end)
      | _ =>
          children_ok hashes 0 qs && negb (r =? miss) &&
          match qs with
          | [(_, _, _, hh)] => r =? hh
          | _ => r =? sroot (map (fun '(_, _, _, hh) => hh) qs)
          end
      end in
    let spec_proofs (r : N) (qs : list (N * N * N * N)) : bool :=
      forallb (fun '(idx, cidx, txb, chain, chb) =>
                 match nth_error qs (N.to_nat chain) with
                 | None => false
                 | Some (_, s, n, hh) =>
                     (s <=? idx) && (idx <? s + n) && (cidx =? idx - s)
                     && (verify (nums txb) (nth (N.to_nat idx) hashes 0) cidx =? hh)
                     && (verify (nums chb) hh chain =? r)
                 end) proofs in
    let spec :=
      forallb (fun '(_, (r, r2, cs)) =>
                 let qs := quads (nums cs) in (r =? r2) && spec_one r qs && spec_proofs r qs) pars in
    mk_verdict magree spec.

  (** proof serving *)
  Fixpoint triples_btx (l : list N) : list (btx N) :=
    match l with
    | t :: a :: b :: tl => mk_btx (if t =? 0 then None else Some t) a b :: triples_btx tl
    | _ => []
    end.

  Fixpoint quints (l : list N) : list (N * N * N * N * N) :=
    match l with
    | a :: b :: c :: d :: e :: tl => (a, b, c, d, e) :: quints tl
    | _ => []
    end.

  Definition title_id (t : option N) : N := match t with None => 0 | Some x => x end.

  Definition row_eqb (r : prow N) (q : N * N * N * N * N) : bool :=
    let '(t, st, cnt, idx, hh) := q in
    (title_id (pr_title r) =? t) && (N.of_nat (pr_start r) =? st) && (N.of_nat (pr_count r) =? cnt)
    && (N.of_nat (pr_index r) =? idx) && (pr_hash r =? hh).

  Definition impl_txproof (p : list string * N * N) : txproof N :=
    let '(b, idx, rh) := p in mk_txproof (nums b) idx (if rh =? 0 then None else Some rh).

  Definition impl_reply (q : N * N * list string * list (list string * N * N)) : reply N :=
    let '(idx, fh, b, ps) := q in mk_reply (nums b) (map impl_txproof ps) fh idx.

  Definition optN_eqb (a b : option N) : bool :=
    match a, b with
    | None, None => true
    | Some x, Some y => x =? y
    | _, _ => false
    end.

  Definition txproof_eqb (a b : txproof N) : bool :=
    nlist_eqb (tp_proofs a) (tp_proofs b) && (tp_index a =? tp_index b) && optN_eqb (tp_root a) (tp_root b).

  Definition reply_eqb (a b : reply N) : bool :=
    nlist_eqb (rp_proofs a) (rp_proofs b) && list_all2 txproof_eqb (rp_txproofs a) (rp_txproofs b)
    && (rp_full a =? rp_full b) && (rp_index a =? rp_index b).

  Fixpoint check_replies (fork para : bool) (txs : list (btx N)) (i : nat) (rs : list (reply N)) : bool :=
    match rs with
    | [] => Nat.eqb i (List.length txs)
    | r :: tl =>
        match proc_query_tx N 0 H N.eqb fork para 1%Z txs i with
        | Some mr => reply_eqb mr r
        | None => false
        end && check_replies fork para txs (S i) tl
    end.

  Definition same_title_b (txs : list (btx N)) : bool :=
    match txs with
    | [] => true
    | x :: tl => forallb (fun y => title_eqb (bt_title x) (bt_title y)) tl
    end.

  (* the oracle on the implementation's replies: reply i checks for transaction i against the
     header's TxHash, carries the transaction's index and (after the fork) its full hash, and
     does not check for the next transaction with a different hash *)
  Fixpoint spec_replies (fork : bool) (root : N) (txs : list (btx N)) (i : nat) (rs : list (reply N)) : bool :=
    match rs with
    | [] => true
    | r :: tl =>
        match nth_error txs i with
        | None => false
        | Some x =>
            verify_reply N H N.eqb fork root (bt_hash x) (bt_full x) r
            && (rp_index r =? N.of_nat i)
            && (if fork then rp_full r =? bt_full x else rp_full r =? 0)
            && match nth_error txs (Nat.modulo (S i) (List.length txs)) with
               | None => true
               | Some y =>
                   if (if fork then bt_full y =? bt_full x else bt_hash y =? bt_hash x) then true
                   else negb (verify_reply N H N.eqb fork root (bt_hash y) (bt_full y) r)
               end
        end && spec_replies fork root txs (S i) tl
    end.

  Definition check_serve (fork para raw : bool) (txl : list N) (txhash : N) (rows : list N)
             (replies : list (N * N * list string * list (list string * N * N))) : verdict :=
    let txs := triples_btx txl in
    let rs := map impl_reply replies in
    let sorted := tsorted (map bt_title txs) in
    let magree :=
      optN_eqb (block_txhash N 0 H fork 1%Z txs) (Some txhash)
      && (if fork && negb para then list_all2 row_eqb (save_para_rows N 0 H 1%Z (map (to_mtx N) txs)) (quints rows) else true)
      && check_replies fork para txs 0 rs in
    let spec :=
      negb (txhash =? miss) && negb (txhash =? 0)
      && Nat.eqb (List.length rs) (List.length txs)
      && spec_replies fork txhash txs 0 rs in
    (* known finding 1: a received post-fork block whose list is not title-sorted was accepted;
       known finding 2: para-chain node, title-sorted post-fork block with more than one title *)
    (magree, spec,
     if negb spec && fork && negb para && raw && negb sorted then 1
     else if negb spec && fork && para && sorted && negb (same_title_b txs) then 2 else 0).
End WithTable.

Definition check_case (c : case) : verdict :=
  match c with
  | CRoot l t pars cr cm fe =>
      let ls := ids_of l in
      check_root (table_of t ls) ls pars cr cm fe
  | CBranch l t pos ib rbr rbb ifb ir =>
      let ls := ids_of l in
      check_branch (table_of t ls) ls pos (nums ib) rbr (nums rbb) ifb ir
  | CPair l1 l2 t r1 r2 m1 m2 =>
      check_pair (table_of (TExplicit t) []) (ids_of l1) (ids_of l2) r1 r2 m1 m2
  | CMulti txs t pars proofs =>
      check_multi (table_of (TExplicit t) []) (nums txs) pars proofs
  | CServe fork para raw txs t txhash rows replies =>
      check_serve (table_of (TExplicit t) []) fork para raw (nums txs) txhash (nums rows) replies
  end.
